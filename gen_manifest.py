#!/usr/bin/env python3
"""Regenerates MANIFEST.json from checks.json + properties.jsonl."""
import json, os
here = os.path.dirname(os.path.abspath(__file__))
tbl = json.load(open(os.path.join(here, "checks.json")))
import glob
# only checks validated on the unchanged tree (listed in claimed.txt) are claimed
allow = set(open(os.path.join(here, "claimed.txt")).read().split()) if os.path.exists(os.path.join(here, "claimed.txt")) else set()
for f in sorted(glob.glob(os.path.join(here, "checks.d", "C*.json"))):
    i = os.path.basename(f)[:-5]
    if i in allow and os.path.isdir(os.path.join(here, "harness", "cmd", i.lower())):
        try:
            tbl["claimed"][i] = json.load(open(f))
        except Exception as e:
            print("WARNING: bad checks.d entry", f, e)
tbl["claimed"] = {k: v for k, v in tbl["claimed"].items() if k in allow}
props = [json.loads(l) for l in open(os.path.join(here, "properties.jsonl")) if l.strip()]
checks, na = [], []
for p in props:
    i = p["id"]
    if i in tbl["claimed"]:
        t = tbl["claimed"][i]
        checks.append({
            "property_id": i,
            "quick_cmd": f"./run.sh {i} quick",
            "thorough_cmd": f"./run.sh {i} thorough",
            "evidence_file": f"/verif/evidence/{i}.json",
            "replay_cmd_template": f"./run.sh {i} --replay {{path}}",
            "engine": "verif-harness",
            "level_claimed": {"category": t["category"], "text": t["text"], "design_ref": "DESIGN.md " + t.get("design_ref", "5")},
            "level_note": t["note"],
            "technique": t["technique"],
        })
    else:
        na.append({"property_id": i, "reason": tbl["not_applicable"].get(i, "runtime-monitoring check designed in DESIGN.md section 5 but not built yet; not claimed until its check runs silently on the unchanged tree")})
hooks_commits = [l.strip() for l in open(os.path.join(here, "hook_commits.txt"))] if os.path.exists(os.path.join(here, "hook_commits.txt")) else []
m = {
    "version": 1,
    "setup_cmd": "./setup.sh",
    "hooks": {
        "guard": "verif",
        "enable": "go build -tags verif (harness module replaces github.com/go-git/go-git/v6 with /repo, so every check binary compiles /repo's working tree with the tag on)",
        "baseline_off_cmd": "bash -c '. /verif/env.sh; cd /repo && go test -mod=mod -json -vet=off -count=1 -timeout 25m ./...'",
        "source_commits": hooks_commits,
        "add_only": True,
    },
    "engines": [{"name": "verif-harness", "path": "/verif/harness", "serves_properties": [c["property_id"] for c in checks],
                 "kind_free_text": "Go module of runtime monitors: one binary per property (cmd/cNN) driving the real go-git code under generated workloads; oracles = real git binary, executable models, invariant/sanitizer monitors (race detector, fs recorder, fault/crash injection)"}],
    "checks": checks,
    "not_applicable": na,
    "notes": "All checks decide by observing executions of the real code (runtime monitoring). Exit 0 held / 1 violation / 2 inconclusive / 3 broken machinery. known-findings.jsonl lists recorded defects.",
}
json.dump(m, open(os.path.join(here, "MANIFEST.json"), "w"), indent=1)
print(f"{len(checks)} claimed, {len(na)} not claimed")
