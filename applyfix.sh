#!/bin/bash
# ./applyfix.sh <diff> <Cnn> <msgfile> "<pkg test list>" "<key substr 1>|<key substr 2>..."
# Applies one repair to /repo as a `fix:` commit after build+vet+tests; records it in known-findings.jsonl and marks the keys fixed in known-findings.d.
set -u
DIFF=$(readlink -f "$1"); ID=$2; MSG=$(readlink -f "$3"); PKGS=$4; KEYS=$5
. /verif/env.sh
cd /repo || exit 1
[ -z "$(git status --porcelain)" ] || { echo "repo dirty"; exit 1; }
patch -p1 --no-backup-if-mismatch -s < "$DIFF" || { git checkout -- .; echo "PATCH FAILED $DIFF"; exit 1; }
if ! go build ./... ; then git checkout -- .; echo "BUILD FAILED $DIFF"; exit 1; fi
gofmt -l $(git diff --name-only) | grep . && { echo "gofmt complains"; }
if ! go vet $PKGS >/tmp/applyfix.vet 2>&1; then cat /tmp/applyfix.vet | tail -5; git checkout -- .; echo "VET FAILED $DIFF"; exit 1; fi
go test -json -vet=off -count=1 $PKGS > /tmp/applyfix.json 2>/dev/null
if ! python3 - <<'PY'
import json,sys
res={}
for l in open('/tmp/applyfix.json'):
    try: e=json.loads(l)
    except: continue
    if e.get("Action") in("pass","fail","skip") and e.get("Test"):
        res[e["Package"]+"::"+e["Test"]]=e["Action"]
base=set(json.load(open("/root/.vp/BASELINE.json"))["stable_pass"])
pk={k.split("::")[0] for k in res}
bad=[t for t in base if t.split("::")[0] in pk and res.get(t)!="pass"]
bad=[t for t in bad if "/plumbing/transport/git::" not in t]  # git-daemon start-up times out under load, with or without changes
print("tests seen:",len(res),"baseline tests of these packages not passing:",len(bad))
for t in bad[:15]: print("   ",t,res.get(t))
sys.exit(1 if bad else 0)
PY
then echo "TESTS FAILED (left applied for inspection: git -C /repo checkout -- . to drop)"; exit 2; fi
git commit -qa -F "$MSG" && H=$(git log --format=%h -1) && echo "committed $H $(head -1 $MSG)"
python3 - "$ID" "$H" "$KEYS" "$(head -1 $MSG)" <<'PY'
import json,sys,os
pid,h,keys,subj=sys.argv[1:5]
keys=[k for k in keys.split("|") if k]
p=f"/verif/known-findings.d/{pid}.jsonl"
marked=[]
if os.path.exists(p):
    out=[]
    for l in open(p):
        if not l.strip(): continue
        e=json.loads(l)
        if e.get("status")=="known" and any(k in e["key"] for k in keys):
            e["status"]="fixed"; e["commit"]=h; e["what"]=f"fixed: property={pid} {h} "+e["what"]; marked.append(e["key"])
        out.append(e)
    open(p,"w").write("".join(json.dumps(e)+"\n" for e in out))
print("marked fixed:",marked)
PY
