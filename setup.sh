#!/bin/bash
# Builds the framework offline from files on disk: warms the Go build cache for /repo (+verif tag) and the claimed check binaries.
set -u
HERE="$(cd "$(dirname "$0")" && pwd)"
. "$HERE/env.sh"
mkdir -p "$HERE/.bin" "$HERE/evidence"
cd "$HERE/harness" || exit 1
go build -tags verif ./internal/... || exit 1
rc=0
for id in $(cat "$HERE/claimed.txt"); do
  d="cmd/$(echo "$id" | tr 'A-Z' 'a-z')"
  [ -d "$d" ] || { echo "missing $d"; rc=1; continue; }
  RACE=""; [ -f "$d/RACE" ] && RACE="-race"
  go build $RACE -tags verif -o "$HERE/.bin/$(basename $d)" "./$d" || rc=1
done
[ $rc -eq 0 ] && echo setup ok
exit $rc
