#!/bin/bash
# Builds the framework offline from files on disk: warms the Go build cache for /repo (+verif tag) and all check binaries.
set -u
HERE="$(cd "$(dirname "$0")" && pwd)"
. "$HERE/env.sh"
mkdir -p "$HERE/.bin" "$HERE/evidence"
cd "$HERE/harness" || exit 1
go build -tags verif ./... || exit 1
for d in cmd/*/; do
  if [ -f "$d/RACE" ]; then go build -race -tags verif -o /dev/null "./$d" || exit 1; fi
done
echo setup ok
