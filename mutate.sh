#!/bin/bash
# ./mutate.sh <patch.diff> <Cnn> [quick|thorough]
# Monitor self-test: applies a patch to a scratch copy of /repo (outside /repo and /verif), builds the check
# against the copy, runs it, prints the outcome and removes the copy. Never touches /repo.
set -u
PATCH="$(readlink -f "${1:?patch}")"; ID="${2:?Cnn}"; TIER="${3:-quick}"
HERE="$(cd "$(dirname "$0")" && pwd)"
. "$HERE/env.sh"
W="$(mktemp -d /tmp/verif-mut.XXXXXX)"
TAGM="$(echo "$W/repo" | md5sum | cut -c1-8)"
trap 'rm -rf "$W" "$HERE"/.bin/*.alt-$TAGM* "$HERE"/.bin/go.alt-$TAGM.*' EXIT
rsync -a --exclude .git /repo/ "$W/repo/"
( cd "$W/repo" && patch -p1 --no-backup-if-mismatch < "$PATCH" ) || { echo "MUTATE: patch does not apply"; exit 4; }
if [ "${MUTATE_UNITTEST:-}" != "" ]; then
  ( cd "$W/repo" && go test -vet=off -count=1 $MUTATE_UNITTEST ) > "$W/unit.log" 2>&1 && echo "MUTATE: unit tests of $MUTATE_UNITTEST pass with the patch" || { echo "MUTATE: unit tests FAIL with the patch"; tail -20 "$W/unit.log"; }
fi
VERIF_REPO="$W/repo" VERIF_OUT="$W/out" "$HERE/run.sh" "$ID" "$TIER"
rc=$?
echo "MUTATE: check exit=$rc"
exit $rc
