#!/bin/bash
# ./sweep.sh "<ids>" "<seeds>" [tier]  -> one line per run
cd /verif
for id in $1; do for s in $2; do
  t0=$(date +%s); out=$(VERIF_SEED=$s ./run.sh $id ${3:-quick} 2>&1); rc=$?; t1=$(date +%s)
  echo "$id seed=$s rc=$rc wall=$((t1-t0))s $(echo "$out" | grep -c '^VIOLATION') viol $(echo "$out" | grep -c '^KNOWN-FINDING') known :: $(echo "$out" | grep -E '^(INCONCLUSIVE|BROKEN)' | head -2 | cut -c1-160 | tr '\n' ' ')"
done; done
