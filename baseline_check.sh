#!/bin/bash
# Runs the repository's test suite with the verif tag OFF and compares with /root/.vp/BASELINE.json (stable_pass must all pass).
. /verif/env.sh
OUT="${1:-/tmp/baseline.json}"
cd /repo && go test -mod=mod -json -vet=off -count=1 -timeout 25m ./... > "$OUT" 2>/dev/null
python3 - "$OUT" <<'PY'
import json,sys
res={}
for l in open(sys.argv[1]):
    try: e=json.loads(l)
    except: continue
    if e.get("Action") in("pass","fail","skip") and e.get("Test"):
        res[e["Package"]+"::"+e["Test"]]=e["Action"]
base=json.load(open("/root/.vp/BASELINE.json"))["stable_pass"]
bad=[t for t in base if res.get(t)!="pass"]
print("baseline tests:",len(base),"passing now:",len(base)-len(bad),"not passing:",len(bad))
for t in bad[:40]: print("  NOT PASS:",t,res.get(t))
PY
