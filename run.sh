#!/bin/bash
# ./run.sh Cnn [quick|thorough] [--replay file]
# Rebuilds the check binary from /repo's current working tree (hooks on: -tags verif) and runs it.
set -u
ID="${1:?usage: run.sh Cnn [quick|thorough] [--replay file]}"; shift
TIER="${VERIF_TIER:-quick}"
if [ "${1:-}" = quick ] || [ "${1:-}" = thorough ]; then TIER="$1"; shift; fi
HERE="$(cd "$(dirname "$0")" && pwd)"
. "$HERE/env.sh"
id_lc="$(echo "$ID" | tr 'A-Z' 'a-z')"
PKG="$HERE/harness/cmd/$id_lc"
[ -d "$PKG" ] || { echo "BROKEN property=$ID no such check"; exit 3; }
mkdir -p "$HERE/.bin" "$HERE/evidence"
RACE=""; [ -f "$PKG/RACE" ] && RACE="-race"
cp /repo/go.sum "$HERE/harness/go.sum.repo" 2>/dev/null
BIN="$HERE/.bin/$id_lc"
MODFILE=""
if [ -n "${VERIF_REPO:-}" ] && [ "${VERIF_REPO}" != /repo ]; then
  # monitor self-tests: build against a scratch copy of the repository (never used by registered commands)
  tagm="$(echo "$VERIF_REPO" | md5sum | cut -c1-8)"
  BIN="$HERE/.bin/$id_lc.alt-$tagm"
  sed "s#=> /repo#=> $VERIF_REPO#" "$HERE/harness/go.mod" > "$HERE/.bin/go.alt-$tagm.mod"
  cp "$HERE/harness/go.sum" "$HERE/.bin/go.alt-$tagm.sum"
  MODFILE="-modfile=$HERE/.bin/go.alt-$tagm.mod"
fi
( cd "$HERE/harness" && go build $MODFILE $RACE -tags verif -o "$BIN" "./cmd/$id_lc" ) > "$HERE/.bin/$id_lc.build.log" 2>&1
if [ $? -ne 0 ]; then
  echo "BROKEN property=$ID build failed (see $HERE/.bin/$id_lc.build.log)"; tail -20 "$HERE/.bin/$id_lc.build.log"; exit 3
fi
export VERIF_TIER="$TIER" VERIF_SEED="${VERIF_SEED:-1}"
export VERIF_SCRATCH="${VERIF_SCRATCH:-${TMPDIR:-/tmp}}"
export VERIF_BIN="$BIN" VERIF_ROOT="$HERE"
WD=1800; [ "$TIER" = thorough ] && WD=5400
[ -f "$PKG/WATCHDOG_$TIER" ] && WD="$(cat "$PKG/WATCHDOG_$TIER")"
LOG="$HERE/.bin/$id_lc.$TIER.log"
GORACE="${GORACE:-halt_on_error=0}" timeout -s QUIT -k 20 "$WD" "$BIN" -tier "$TIER" "$@" > "$LOG" 2>&1
rc=$?
grep -E '^(VIOLATION|KNOWN-FINDING|INCONCLUSIVE|BROKEN|SUMMARY)' "$LOG"
if [ $rc -eq 124 ] || [ $rc -eq 131 ] || [ $rc -eq 137 ]; then
  echo "INCONCLUSIVE property=$ID watchdog fired after ${WD}s (log: $LOG)"; exit 2
fi
if [ $rc -ne 0 ] && [ $rc -ne 1 ] && [ $rc -ne 2 ] && [ $rc -ne 3 ]; then
  echo "BROKEN property=$ID check process died rc=$rc (log: $LOG)"; tail -30 "$LOG"; exit 3
fi
exit $rc
