// Package fuzz holds the native Go fuzz targets of property C53 (decoders of
// untrusted input never crash, hang or over-allocate). All code lives in
// *_test.go files; the targets are compiled once by cmd/c53
// (`go test -c -fuzz=. -tags verif`) and executed from a scratch working
// directory, so seed corpora, the fuzz cache and crasher files never land in
// this directory.
package fuzz
