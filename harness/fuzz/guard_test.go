package fuzz

// The three C53 oracles, applied to every decode call of every fuzz target:
//
//  1. no panic: the decode runs in its own goroutine with a recover(); a
//     recovered panic is written as a report (input, message, stack, finding
//     key) into $VERIF_FUZZ_REPORT and fuzzing CONTINUES, so one known
//     crasher does not hide the rest of the input space. Panics that cannot
//     be recovered here (other goroutines, fatal errors, stack overflow, out
//     of memory under the RLIMIT_AS of TestMain) kill the worker; the fuzz
//     engine then saves the crasher and cmd/c53 replays and classifies it.
//  2. watchdog: if the decode goroutine has not returned after
//     $VERIF_FUZZ_HANG_S seconds (default 20) a "hang" report with three
//     goroutine dumps is written and the test fails (the engine saves the
//     input). cmd/c53 treats that as a suspect only and re-runs the input
//     alone with a 10x budget before it calls it a violation.
//  3. allocation bound: runtime.ReadMemStats TotalAlloc delta around the
//     decode must stay <= ALLOC_BASE + ALLOC_SLOPE*len(input) (64 MiB +
//     4096 B per input byte, inputs <= 64 KiB; larger inputs are skipped).
//     The worker runs one decode at a time, so the delta belongs to it. On
//     an exceedance the decode is repeated once under MemProfileRate=1 to
//     name the allocation site for the finding key.

import (
	"encoding/json"
	"fmt"
	"os"
	"path/filepath"
	"runtime"
	"runtime/debug"
	"runtime/metrics"
	"sort"
	"strconv"
	"strings"
	"sync"
	"syscall"
	"testing"
	"time"

	"verif/internal/fuzzkey"
)

const maxInput = 64 << 10

var (
	reportDir  = os.Getenv("VERIF_FUZZ_REPORT")
	tmpRoot    = os.Getenv("VERIF_FUZZ_TMP")
	hangAfter  = time.Duration(envInt("VERIF_FUZZ_HANG_S", 20)) * time.Second
	allocBase  = uint64(envInt("VERIF_FUZZ_ALLOC_BASE", 64<<20))
	allocSlope = uint64(envInt("VERIF_FUZZ_ALLOC_SLOPE", 4096))
	strict     = os.Getenv("VERIF_FUZZ_STRICT") != ""
)

func envInt(k string, d int64) int64 {
	if v := os.Getenv(k); v != "" {
		if n, err := strconv.ParseInt(v, 10, 64); err == nil {
			return n
		}
	}
	return d
}

// Report is one oracle firing, written as JSON into $VERIF_FUZZ_REPORT.
type Report struct {
	Target   string `json:"target"`
	Mode     string `json:"mode"`
	Kind     string `json:"kind"` // panic | alloc | hang
	Key      string `json:"key"`
	Msg      string `json:"msg"`
	Stack    string `json:"stack"`
	Corpus   string `json:"corpus"` // the fuzz arguments as a `go test fuzz v1` corpus file
	InputLen int    `json:"input_len"`
	Alloc    uint64 `json:"alloc_bytes,omitempty"`
	Bound    uint64 `json:"alloc_bound,omitempty"`
	HangS    int    `json:"hang_s,omitempty"`
	Pid      int    `json:"pid"`
}

type modeStats struct {
	Execs        int64   `json:"execs"`
	OK           int64   `json:"ok"`      // decode returned a value (no error)
	Skipped      int64   `json:"skipped"` // input > 64 KiB
	Panics       int64   `json:"panics"`
	AllocOver    int64   `json:"alloc_over"`
	AllocUnsited int64   `json:"alloc_over_site_unknown"`
	MaxAlloc     uint64  `json:"max_alloc"`
	MaxAllocLen  int     `json:"max_alloc_len"`
	MaxFrac      float64 `json:"max_frac_of_bound"`
	MaxPerByte   float64 `json:"max_alloc_per_input_byte"` // for inputs >= 256 bytes
	lastSite     string
}

var stats = struct {
	sync.Mutex
	m     map[string]*modeStats
	n     int64
	seen  map[string]int
	extra string
}{m: map[string]*modeStats{}, seen: map[string]int{}}

func flushStats() {
	if reportDir == "" {
		return
	}
	stats.Lock()
	b, _ := json.Marshal(stats.m)
	stats.Unlock()
	p := filepath.Join(reportDir, fmt.Sprintf("stats-%d.json", os.Getpid()))
	_ = os.WriteFile(p+".tmp", b, 0o644)
	_ = os.Rename(p+".tmp", p)
}

func writeReport(r *Report) {
	r.Pid = os.Getpid()
	stats.Lock()
	stats.seen[r.Key]++
	n := stats.seen[r.Key]
	stats.Unlock()
	if reportDir == "" || n > 2 {
		return
	}
	b, _ := json.Marshal(r)
	p := filepath.Join(reportDir, fmt.Sprintf("report-%s-%d-%d.json", sanitize(r.Key), r.Pid, n))
	_ = os.WriteFile(p+".tmp", b, 0o644)
	_ = os.Rename(p+".tmp", p)
}

func sanitize(s string) string {
	var b strings.Builder
	for _, r := range s {
		if r >= 'a' && r <= 'z' || r >= 'A' && r <= 'Z' || r >= '0' && r <= '9' || r == '-' || r == '_' || r == '.' {
			b.WriteRune(r)
		} else {
			b.WriteByte('_')
		}
	}
	if b.Len() > 100 {
		return b.String()[:100]
	}
	return b.String()
}

type result struct {
	ok       bool
	panicked bool
	msg      string
	stack    string
}

func runRecovered(fn func() bool) (res result) {
	defer func() {
		if r := recover(); r != nil {
			res.panicked = true
			res.msg = fmt.Sprint(r)
			res.stack = string(debug.Stack())
		}
	}()
	res.ok = fn()
	return res
}

// skipMode counts an input that a target deliberately does not hand to one of
// its decode modes (documented at the call site).
func skipMode(target, mode string) {
	stats.Lock()
	st := stats.m[target+"/"+mode]
	if st == nil {
		st = &modeStats{}
		stats.m[target+"/"+mode] = st
	}
	st.Skipped++
	stats.Unlock()
}

// corpusFile renders fuzz arguments in the engine's corpus file format.
func corpusFile(args []any) string {
	var b strings.Builder
	b.WriteString("go test fuzz v1\n")
	for _, a := range args {
		switch v := a.(type) {
		case []byte:
			fmt.Fprintf(&b, "[]byte(%q)\n", v)
		case string:
			fmt.Fprintf(&b, "string(%q)\n", v)
		case uint8:
			fmt.Fprintf(&b, "uint8(%d)\n", v)
		case uint16:
			fmt.Fprintf(&b, "uint16(%d)\n", v)
		default:
			panic(fmt.Sprintf("guard: unsupported fuzz argument type %T", a))
		}
	}
	return b.String()
}

// guard runs one decode under the three oracles. fn reports whether the
// decoder accepted the input (returned a value rather than an error). args
// are the fuzz arguments of the target, in order (for the report / replay).
func guard(t *testing.T, target, mode string, fn func() bool, args ...any) {
	total := 0
	for _, a := range args {
		switch v := a.(type) {
		case []byte:
			total += len(v)
		case string:
			total += len(v)
		}
	}
	stats.Lock()
	st := stats.m[target+"/"+mode]
	if st == nil {
		st = &modeStats{}
		stats.m[target+"/"+mode] = st
	}
	stats.n++
	flush := stats.n%1000 == 0
	stats.Unlock()
	if flush {
		flushStats()
	}
	if total > maxInput {
		st.Skipped++
		return
	}
	st.Execs++

	done := make(chan result, 1)
	ng0 := runtime.NumGoroutine()
	a0 := heapAllocs()
	cpu0 := time.Duration(-1)
	wall0 := time.Now()
	go func() { done <- runRecovered(fn) }()
	timer := time.NewTimer(time.Second)
	var res result
wait:
	select {
	case res = <-done:
		timer.Stop()
	case <-timer.C:
		// The budget is CPU time of this (single-decode) worker process, so a
		// loaded machine cannot fire it; a decode that is blocked without
		// burning CPU is caught by the 10x wall-clock cap.
		if cpu0 < 0 {
			cpu0 = processCPU() - time.Since(wall0) // decode started ~1 s ago; be generous
			if cpu0 < 0 {
				cpu0 = 0
			}
		}
		if processCPU()-cpu0 < hangAfter && time.Since(wall0) < 10*hangAfter {
			timer.Reset(time.Second)
			goto wait
		}
		var dumps []string
		for i := 0; i < 3; i++ {
			buf := make([]byte, 4<<20)
			n := runtime.Stack(buf, true)
			dumps = append(dumps, decodeGoroutine(string(buf[:n])))
			time.Sleep(150 * time.Millisecond)
		}
		site := fuzzkey.CommonLoopSite(dumps)
		rep := &Report{Target: target, Mode: mode, Kind: "hang", Key: fuzzkey.Key(target, "hang", "", site),
			Msg:   fmt.Sprintf("decode did not return after %v CPU / %v wall (budget %v CPU, %v wall)", processCPU()-cpu0, time.Since(wall0).Round(time.Second), hangAfter, 10*hangAfter),
			Stack: strings.Join(dumps, "\n----\n"), Corpus: corpusFile(args), InputLen: total, HangS: int(hangAfter / time.Second)}
		writeReport(rep)
		flushStats()
		t.Fatalf("VERIF-HANG key=%s after=%v", rep.Key, hangAfter)
		return
	}
	quiesce(ng0)
	delta := heapAllocs() - a0
	bound := allocBase + allocSlope*uint64(total)
	if res.ok {
		st.OK++
	}
	if !res.panicked && delta+(4<<20) > bound && delta < bound+(16<<20) {
		// The cheap counter (runtime/metrics /gc/heap/allocs:bytes, no
		// stop-the-world; small-object counts lag by at most a span per size
		// class, far below 4 MiB) is within [-4, +16) MiB of the bound: repeat
		// the decode and take the exact runtime.ReadMemStats TotalAlloc delta,
		// which is what is judged. Further away the two counters cannot disagree
		// about the verdict.
		var m0, m1 runtime.MemStats
		runtime.ReadMemStats(&m0)
		res2 := make(chan result, 1)
		go func() { res2 <- runRecovered(fn) }()
		select {
		case <-res2:
			quiesce(ng0)
			runtime.ReadMemStats(&m1)
			delta = m1.TotalAlloc - m0.TotalAlloc
		case <-time.After(10 * hangAfter):
		}
	}
	if delta > st.MaxAlloc {
		st.MaxAlloc, st.MaxAllocLen = delta, total
	}
	if f := float64(delta) / float64(bound); f > st.MaxFrac {
		st.MaxFrac = f
	}
	if total >= 256 {
		if f := float64(delta) / float64(total); f > st.MaxPerByte {
			st.MaxPerByte = f
		}
	}
	if res.panicked {
		st.Panics++
		site, _ := fuzzkey.Site(res.stack)
		rep := &Report{Target: target, Mode: mode, Kind: "panic", Key: fuzzkey.Key(target, "panic", fuzzkey.Class(res.msg), site),
			Msg: res.msg, Stack: res.stack, Corpus: corpusFile(args), InputLen: total}
		writeReport(rep)
		if strict {
			t.Fatalf("VERIF-PANIC key=%s msg=%s\n%s", rep.Key, res.msg, res.stack)
		}
		return
	}
	if delta > bound {
		st.AllocOver++
		// Naming the allocation site repeats the decode under MemProfileRate=1
		// (slow): done for the first exceedances of a (target, mode) and then for
		// every 64th; in between the last site found for that mode is reused.
		site, siteBytes, stack := st.lastSite, int64(0), "(site reused from an earlier exceedance of this mode)"
		if st.AllocOver <= 3 || st.AllocOver%64 == 0 || site == "" {
			site, siteBytes, stack = allocSite(fn, delta)
			if site == "" { // could not be profiled (re-run too slow on a loaded machine): reuse, never invent a key
				site = st.lastSite
			}
			st.lastSite = site
		}
		if site == "" {
			// measured over the bound but not attributable here (re-run too slow or
			// different on a loaded machine): hand the input to the check, which
			// repeats it alone in a fresh process before anything is concluded
			st.AllocUnsited++
			writeReport(&Report{Target: target, Mode: mode, Kind: "alloc-unsited", Key: fuzzkey.Key(target, "alloc-unsited", "", mode),
				Msg:    fmt.Sprintf("TotalAlloc delta %d B for %d input bytes exceeds bound %d B; site not attributed: %s", delta, total, bound, stack),
				Corpus: corpusFile(args), InputLen: total, Alloc: delta, Bound: bound})
			return
		}
		rep := &Report{Target: target, Mode: mode, Kind: "alloc", Key: fuzzkey.Key(target, "alloc", "", site),
			Msg:   fmt.Sprintf("TotalAlloc delta %d B for %d input bytes exceeds bound %d B (largest allocation site %s: %d B)", delta, total, bound, site, siteBytes),
			Stack: stack, Corpus: corpusFile(args), InputLen: total, Alloc: delta, Bound: bound}
		writeReport(rep)
		if strict {
			t.Fatalf("VERIF-ALLOC key=%s %s", rep.Key, rep.Msg)
		}
	}
}

// quiesce waits (bounded) until the goroutines a decode left behind have
// finished, so that their allocations fall into the measurement window of the
// call that started them: some decoders work asynchronously (the filesystem
// PackWriter parses the pack in a goroutine of its own and may still be
// allocating when UpdateObjectStorage has already returned an error).
func quiesce(ng0 int) {
	for i := 0; i < 120 && runtime.NumGoroutine() > ng0; i++ {
		if i < 20 {
			runtime.Gosched()
		} else {
			time.Sleep(time.Millisecond)
		}
	}
}

var allocSample = []metrics.Sample{{Name: "/gc/heap/allocs:bytes"}}

func heapAllocs() uint64 {
	metrics.Read(allocSample)
	return allocSample[0].Value.Uint64()
}

// processCPU is user+system CPU time consumed by this process so far.
func processCPU() time.Duration {
	var ru syscall.Rusage
	if err := syscall.Getrusage(syscall.RUSAGE_SELF, &ru); err != nil {
		return 0
	}
	return time.Duration(ru.Utime.Nano() + ru.Stime.Nano())
}

// decodeGoroutine picks, from a dump of all goroutines, the one that runs the
// guarded decode.
func decodeGoroutine(dump string) string {
	for _, g := range fuzzkey.SplitGoroutines(dump) {
		if strings.Contains(g, "verif/fuzz.runRecovered") {
			return g
		}
	}
	return ""
}

// allocSite repeats the decode with allocation profiling at 4 KiB granularity
// (every allocation that matters for a >64 MiB exceedance is sampled) and
// returns the go-git function that is responsible for the largest allocated
// volume, summed over all stacks whose innermost go-git frame it is.
func allocSite(fn func() bool, measured uint64) (site string, bytes int64, detail string) {
	old := runtime.MemProfileRate
	runtime.MemProfileRate = 4096
	defer func() { runtime.MemProfileRate = old }()
	snap := func() map[[32]uintptr]runtime.MemProfileRecord {
		// an allocation made in GC cycle C is published after cycle C+2; a third
		// cycle covers a background cycle that was already running
		runtime.GC()
		runtime.GC()
		runtime.GC()
		n, _ := runtime.MemProfile(nil, true)
		for {
			recs := make([]runtime.MemProfileRecord, n+200)
			var ok bool
			n, ok = runtime.MemProfile(recs, true)
			if ok {
				m := make(map[[32]uintptr]runtime.MemProfileRecord, n)
				for _, r := range recs[:n] {
					m[r.Stack0] = r
				}
				return m
			}
		}
	}
	before := snap()
	ng0 := runtime.NumGoroutine()
	done := make(chan result, 1)
	go func() { done <- runRecovered(fn) }()
	select {
	case <-done:
	case <-time.After(10 * hangAfter):
		return "", 0, "profiled re-run did not return"
	}
	quiesce(ng0)
	after := snap()
	bySite := map[string]int64{}
	for k, r := range after {
		d := r.AllocBytes - before[k].AllocBytes
		if d <= 0 {
			continue
		}
		var gg, first string
		own := false
		frames := runtime.CallersFrames(r.Stack())
		for {
			fr, more := frames.Next()
			if strings.HasPrefix(fr.Function, "verif/fuzz.allocSite") {
				own = true // the profiler's own snapshot buffers
			}
			if fr.Function != "" {
				if gg == "" && strings.HasPrefix(fr.Function, fuzzkey.GoGit) {
					gg = strings.TrimPrefix(fr.Function, fuzzkey.GoGit)
				}
				if first == "" && !strings.HasPrefix(fr.Function, "runtime.") && !strings.HasPrefix(fr.Function, "internal/runtime/") {
					first = fr.Function
				}
			}
			if !more {
				break
			}
		}
		if own {
			continue
		}
		if gg == "" {
			gg = first
		}
		bySite[gg] += d
	}
	type kv struct {
		k string
		v int64
	}
	var all []kv
	for k, v := range bySite {
		all = append(all, kv{k, v})
	}
	sort.Slice(all, func(i, j int) bool { return all[i].v > all[j].v })
	if len(all) == 0 {
		return "", 0, "no allocation sampled in the profiled re-run"
	}
	var sb strings.Builder
	for i, e := range all {
		if i >= 6 {
			break
		}
		fmt.Fprintf(&sb, "%s=%dB; ", e.k, e.v)
	}
	if uint64(all[0].v)*3 < measured {
		// the profiled re-run does not show where the measured volume came from
		// (non-deterministic decode): do not invent a key from a minor site
		return "", all[0].v, "profiled re-run does not account for the measured volume: " + sb.String()
	}
	return all[0].k, all[0].v, sb.String()
}

// isFuzzWorker reports whether this process is a worker of the fuzz engine.
func isFuzzWorker() bool {
	for _, a := range os.Args[1:] {
		if strings.HasPrefix(a, "-test.fuzzworker") {
			return true
		}
	}
	return false
}

func TestMain(m *testing.M) {
	if reportDir != "" && isFuzzWorker() {
		// The engine starts workers with stdout/stderr on /dev/null, which would
		// lose the runtime's crash dump of an unrecoverable failure (panic in a
		// goroutine of the decoder, fatal error). Send fd 2 to a per-process log.
		if f, err := os.OpenFile(filepath.Join(reportDir, fmt.Sprintf("stderr-%d.log", os.Getpid())), os.O_CREATE|os.O_WRONLY|os.O_APPEND, 0o644); err == nil {
			_ = syscall.Dup3(int(f.Fd()), 2, 0)
		}
	}
	if mb := envInt("VERIF_FUZZ_AS_MB", 0); mb > 0 {
		lim := syscall.Rlimit{Cur: uint64(mb) << 20, Max: uint64(mb) << 20}
		_ = syscall.Setrlimit(syscall.RLIMIT_AS, &lim)
	}
	code := m.Run()
	flushStats()
	os.Exit(code)
}

// workDir returns a per-process scratch directory for targets that need real
// files (mmap); it lives under $VERIF_FUZZ_TMP (inside the check's scratch).
var workDir = sync.OnceValue(func() string {
	root := tmpRoot
	if root == "" {
		root = os.TempDir()
	}
	d := filepath.Join(root, fmt.Sprintf("w-%d", os.Getpid()))
	_ = os.MkdirAll(d, 0o755)
	return d
})
