package fuzz

import (
	"bytes"
	"fmt"
	"io"
	"os"
	"path/filepath"
	"sync"
	"testing"
	"time"

	"github.com/go-git/go-billy/v6/memfs"
	"github.com/go-git/go-billy/v6/osfs"

	git "github.com/go-git/go-git/v6"
	"github.com/go-git/go-git/v6/config"
	"github.com/go-git/go-git/v6/plumbing"
	"github.com/go-git/go-git/v6/plumbing/cache"
	"github.com/go-git/go-git/v6/plumbing/filemode"
	formatcfg "github.com/go-git/go-git/v6/plumbing/format/config"
	"github.com/go-git/go-git/v6/plumbing/format/packfile"
	"github.com/go-git/go-git/v6/plumbing/object"
	"github.com/go-git/go-git/v6/plumbing/transport"
	"github.com/go-git/go-git/v6/storage/filesystem"
	"github.com/go-git/go-git/v6/storage/filesystem/mmap"
	"github.com/go-git/go-git/v6/storage/memory"
)

// ---------------------------------------------------------------- config

func FuzzConfig(f *testing.F) {
	f.Add([]byte("[core]\n\tbare = false\n[remote \"origin\"]\n\turl = https://example.com/x.git\n\tfetch = +refs/heads/*:refs/remotes/origin/*\n"))
	f.Fuzz(func(t *testing.T, data []byte) {
		guard(t, "FuzzConfig", "format", func() bool {
			cfg := formatcfg.New()
			if err := formatcfg.NewDecoder(bytes.NewReader(data)).Decode(cfg); err != nil {
				return false
			}
			for i, s := range cfg.Sections {
				if i > iterCap {
					break
				}
				_ = s.Options.GoString()
				for _, ss := range s.Subsections {
					_ = ss.Options.GoString()
				}
			}
			var buf bytes.Buffer
			_ = formatcfg.NewEncoder(&buf).Encode(cfg)
			return len(cfg.Sections) > 0
		}, data)
		guard(t, "FuzzConfig", "config", func() bool {
			c := config.NewConfig()
			if err := c.Unmarshal(data); err != nil {
				return false
			}
			_ = c.Validate()
			_, _ = c.Marshal()
			return true
		}, data)
		guard(t, "FuzzConfig", "read", func() bool {
			c, err := config.ReadConfig(bytes.NewReader(data))
			if err != nil {
				return false
			}
			_ = c.Validate()
			return true
		}, data)
		guard(t, "FuzzConfig", "modules", func() bool {
			m := config.NewModules()
			if err := m.Unmarshal(data); err != nil {
				return false
			}
			for _, s := range m.Submodules {
				_ = s.Validate()
			}
			_, _ = m.Marshal()
			return len(m.Submodules) > 0
		}, data)
	})
}

// ---------------------------------------------------------------- revisions

var revRepo = sync.OnceValue(func() *git.Repository {
	st := memory.NewStorage()
	r, err := git.Init(st)
	if err != nil {
		panic(err)
	}
	put := func(o interface {
		Encode(plumbing.EncodedObject) error
	}) plumbing.Hash {
		eo := st.NewEncodedObject()
		if err := o.Encode(eo); err != nil {
			panic(err)
		}
		h, err := st.SetEncodedObject(eo)
		if err != nil {
			panic(err)
		}
		return h
	}
	blob := st.NewEncodedObject()
	blob.SetType(plumbing.BlobObject)
	w, _ := blob.Writer()
	_, _ = w.Write([]byte("hello\n"))
	_ = w.Close()
	bh, _ := st.SetEncodedObject(blob)
	sub := put(&object.Tree{Entries: []object.TreeEntry{{Name: "f.txt", Mode: filemode.Regular, Hash: bh}}})
	tree := put(&object.Tree{Entries: []object.TreeEntry{
		{Name: "README", Mode: filemode.Regular, Hash: bh},
		{Name: "dir", Mode: filemode.Dir, Hash: sub},
	}})
	sig := func(i int) object.Signature {
		return object.Signature{Name: "A U Thor", Email: "a@example.com", When: time.Unix(1600000000+int64(i)*86400, 0).UTC()}
	}
	var commits []plumbing.Hash
	for i := 0; i < 6; i++ {
		c := &object.Commit{Author: sig(i), Committer: sig(i), Message: fmt.Sprintf("commit %d: fix nasty bug #%d\n", i, i), TreeHash: tree}
		if i > 0 {
			c.ParentHashes = []plumbing.Hash{commits[i-1]}
		}
		if i == 4 { // a merge
			c.ParentHashes = append(c.ParentHashes, commits[1])
		}
		commits = append(commits, put(c))
	}
	tag := put(&object.Tag{Name: "v1.0", Tagger: sig(9), Message: "release\n", TargetType: plumbing.CommitObject, Target: commits[3]})
	refs := map[string]plumbing.Hash{
		"refs/heads/master": commits[5], "refs/heads/dev": commits[2], "refs/heads/feature/x": commits[4],
		"refs/tags/v1.0": tag, "refs/tags/light": commits[1], "refs/remotes/origin/master": commits[3], "refs/remotes/origin/dev": commits[2],
	}
	for n, h := range refs {
		_ = st.SetReference(plumbing.NewHashReference(plumbing.ReferenceName(n), h))
	}
	_ = st.SetReference(plumbing.NewSymbolicReference(plumbing.HEAD, "refs/heads/master"))
	_ = st.SetReference(plumbing.NewSymbolicReference("refs/remotes/origin/HEAD", "refs/remotes/origin/master"))
	return r
})

// FuzzRevision: revision expressions through Repository.ResolveRevision on a
// fixed small repository (the parser is internal; this is its only consumer).
func FuzzRevision(f *testing.F) {
	f.Add("HEAD~2^2")
	f.Fuzz(func(t *testing.T, rev string) {
		repo := revRepo()
		guard(t, "FuzzRevision", "resolve", func() bool {
			h, err := repo.ResolveRevision(plumbing.Revision(rev))
			return err == nil && h != nil && !h.IsZero()
		}, rev)
	})
}

// ---------------------------------------------------------------- deltas

func FuzzDelta(f *testing.F) {
	f.Add([]byte("some value"), []byte("\n\f\fsomenewvalue"))
	f.Fuzz(func(t *testing.T, base, delta []byte) {
		guard(t, "FuzzDelta", "PatchDelta", func() bool {
			_, err := packfile.PatchDelta(base, delta)
			return err == nil
		}, base, delta)
		mkBase := func() plumbing.EncodedObject {
			o := &plumbing.MemoryObject{}
			o.SetType(plumbing.BlobObject)
			_, _ = o.Write(base)
			return o
		}
		guard(t, "FuzzDelta", "ApplyDelta", func() bool {
			target := &plumbing.MemoryObject{}
			return packfile.ApplyDelta(target, mkBase(), bytes.NewBuffer(append([]byte(nil), delta...))) == nil
		}, base, delta)
		guard(t, "FuzzDelta", "ReaderFromDelta", func() bool {
			rc, err := packfile.ReaderFromDelta(mkBase(), bytes.NewReader(delta))
			if err != nil {
				return false
			}
			_, err = io.Copy(io.Discard, rc)
			_ = rc.Close()
			return err == nil
		}, base, delta)
	})
}

// ---------------------------------------------------------------- mmap pack scanner

var mmapLast [3][]byte // contents last written to p.pack / p.idx / p.rev by this process

// FuzzMmapPack: pack + idx + rev as real files through the mmap scanner
// (storage/filesystem/mmap): lookups by name and by offset, object reads.
func FuzzMmapPack(f *testing.F) {
	f.Add([]byte("PACK\x00\x00\x00\x02\x00\x00\x00\x00"), []byte{0xff, 't', 'O', 'c', 0, 0, 0, 2}, []byte("RIDX\x00\x00\x00\x01\x00\x00\x00\x01"))
	f.Fuzz(func(t *testing.T, pack, idxData, revData []byte) {
		guard(t, "FuzzMmapPack", "scan", func() bool {
			dir := workDir()
			fs := osfs.New(dir)
			names := [3]string{"p.pack", "p.idx", "p.rev"}
			for i, b := range [3][]byte{pack, idxData, revData} {
				if mmapLast[i] != nil && bytes.Equal(mmapLast[i], b) {
					continue // the engine mutates one argument at a time: file already holds these bytes
				}
				if err := os.WriteFile(filepath.Join(dir, names[i]), b, 0o644); err != nil {
					mmapLast[i] = nil
					return false
				}
				mmapLast[i] = append(mmapLast[i][:0:0], b...)
				if mmapLast[i] == nil {
					mmapLast[i] = []byte{}
				}
			}
			pf, err1 := fs.Open(names[0])
			xf, err2 := fs.Open(names[1])
			rf, err3 := fs.Open(names[2])
			if err1 != nil || err2 != nil || err3 != nil {
				return false
			}
			s, err := mmap.NewPackScanner(20, pf, xf, rf)
			if err != nil {
				// NewPackScanner closes what it mapped; close the rest (double close is harmless)
				_ = pf.Close()
				_ = xf.Close()
				_ = rf.Close()
				return false
			}
			defer s.Close()
			okAny := false
			read := func(o plumbing.EncodedObject, err error) {
				if err != nil || o == nil {
					return
				}
				_ = o.Type()
				_ = o.Size()
				if r, err := o.Reader(); err == nil && r != nil {
					if _, err := io.Copy(io.Discard, r); err == nil {
						okAny = true
					}
					_ = r.Close()
				}
			}
			for _, h := range append(namesFromIdx(idxData, 20, 6), probeHashes...) {
				if off, err := s.FindOffset(h); err == nil {
					_, _ = s.FindHash(off)
					read(s.GetByOffset(off))
				}
				read(s.Get(h))
			}
			_, _ = s.FindHash(12)
			read(s.GetByOffset(12))
			return okAny
		}, pack, idxData, revData)
	})
}

// ---------------------------------------------------------------- reference files, shallow, dotgit layout

// FuzzRefs: packed-refs, a loose ref file, HEAD and the shallow file read
// through the filesystem storage.
func FuzzRefs(f *testing.F) {
	f.Add([]byte("# pack-refs with: peeled fully-peeled sorted \n6ecf0ef2c2dffb796033e5a02219af86ec6584e5 refs/heads/master\n"))
	f.Fuzz(func(t *testing.T, data []byte) {
		guard(t, "FuzzRefs", "packed-refs", func() bool {
			fs := memfs.New()
			_ = writeFile(fs, "HEAD", []byte("ref: refs/heads/master\n"))
			_ = writeFile(fs, "packed-refs", data)
			st := filesystem.NewStorage(fs, cache.NewObjectLRUDefault())
			defer st.Close()
			it, err := st.IterReferences()
			if err != nil {
				return false
			}
			n := 0
			_ = it.ForEach(func(r *plumbing.Reference) error { n++; _ = r.String(); return nil })
			_, _ = st.Reference("refs/heads/master")
			_, _ = st.Reference("refs/tags/v1.0")
			return n > 1
		}, data)
		guard(t, "FuzzRefs", "loose", func() bool {
			fs := memfs.New()
			_ = writeFile(fs, "HEAD", data)
			_ = writeFile(fs, "refs/heads/master", data)
			st := filesystem.NewStorage(fs, cache.NewObjectLRUDefault())
			defer st.Close()
			_, err1 := st.Reference(plumbing.HEAD)
			_, err2 := st.Reference("refs/heads/master")
			if it, err := st.IterReferences(); err == nil {
				_ = it.ForEach(func(r *plumbing.Reference) error { return nil })
			}
			return err1 == nil || err2 == nil
		}, data)
		guard(t, "FuzzRefs", "shallow", func() bool {
			fs := memfs.New()
			_ = writeFile(fs, "shallow", data)
			st := filesystem.NewStorage(fs, cache.NewObjectLRUDefault())
			defer st.Close()
			hs, err := st.Shallow()
			return err == nil && len(hs) > 0
		}, data)
		guard(t, "FuzzRefs", "refname", func() bool {
			n := plumbing.ReferenceName(data)
			_ = n.Short()
			_ = n.IsBranch()
			err := n.Validate()
			_, _ = plumbing.FromHex(string(data))
			_ = plumbing.IsHash(string(data))
			return err == nil
		}, data)
	})
}

// ---------------------------------------------------------------- transport URLs

func FuzzURL(f *testing.F) {
	f.Add("ssh://git@example.com:22/x/y.git")
	f.Fuzz(func(t *testing.T, s string) {
		guard(t, "FuzzURL", "parse", func() bool {
			u, err := transport.ParseURL(s)
			if err != nil {
				return false
			}
			_ = u.String()
			return true
		}, s)
	})
}

// TestMeta prints the selector table of FuzzPackp so that cmd/c53 writes its
// seeds against the order compiled into this binary.
func TestMeta(t *testing.T) {
	if os.Getenv("VERIF_FUZZ_META") == "" {
		t.Skip("meta only on request")
	}
	for i, m := range packpMessages {
		fmt.Printf("VERIF-META packp %d %s\n", i, m.name)
	}
	fmt.Printf("VERIF-META bound base=%d slope=%d maxinput=%d hang=%v\n", allocBase, allocSlope, maxInput, hangAfter)
}
