package fuzz

// One fuzz target per decoder family of property C53. Every decode call goes
// through guard() (guard_test.go). Seeds are NOT added here: cmd/c53 writes
// the structured seed corpus (git- and go-git-produced files) into
// <cwd>/testdata/fuzz/<Target>/ of its scratch working directory; only a
// trivial f.Add keeps each target runnable on its own.

import (
	"bufio"
	"bytes"
	"crypto"
	"fmt"
	"io"
	"strings"
	"testing"
	"testing/fstest"

	"github.com/go-git/go-billy/v6"
	"github.com/go-git/go-billy/v6/memfs"

	"github.com/go-git/go-git/v6/plumbing"
	"github.com/go-git/go-git/v6/plumbing/cache"
	"github.com/go-git/go-git/v6/plumbing/format/commitgraph"
	formatcfg "github.com/go-git/go-git/v6/plumbing/format/config"
	"github.com/go-git/go-git/v6/plumbing/format/gitattributes"
	"github.com/go-git/go-git/v6/plumbing/format/gitignore"
	"github.com/go-git/go-git/v6/plumbing/format/idxfile"
	"github.com/go-git/go-git/v6/plumbing/format/index"
	"github.com/go-git/go-git/v6/plumbing/format/objfile"
	"github.com/go-git/go-git/v6/plumbing/format/packfile"
	"github.com/go-git/go-git/v6/plumbing/format/pktline"
	"github.com/go-git/go-git/v6/plumbing/format/reflog"
	"github.com/go-git/go-git/v6/plumbing/format/revfile"
	"github.com/go-git/go-git/v6/plumbing/hash"
	"github.com/go-git/go-git/v6/plumbing/object"
	"github.com/go-git/go-git/v6/plumbing/protocol/capability"
	"github.com/go-git/go-git/v6/plumbing/protocol/packp"
	"github.com/go-git/go-git/v6/plumbing/protocol/packp/sideband"
	"github.com/go-git/go-git/v6/storage/filesystem"
	"github.com/go-git/go-git/v6/storage/memory"
)

const iterCap = 200 // bound on post-decode walks (entries visited per input)

// ---------------------------------------------------------------- objects

// FuzzObject: commit / tree / tag / blob bodies and identity lines.
func FuzzObject(f *testing.F) {
	f.Add(uint8(0), []byte("tree 0000000000000000000000000000000000000000\nauthor a <a> 0 +0000\ncommitter c <c> 0 +0000\n\nm\n"))
	f.Fuzz(func(t *testing.T, kind uint8, data []byte) {
		k := kind % 5
		for _, of := range []formatcfg.ObjectFormat{formatcfg.SHA1, formatcfg.SHA256} {
			mode := [...]string{"commit", "tree", "tag", "blob", "signature"}[k] + "-" + of.String()
			guard(t, "FuzzObject", mode, func() bool {
				mo := plumbing.NewMemoryObject(plumbing.FromObjectFormat(of))
				switch k {
				case 0:
					mo.SetType(plumbing.CommitObject)
					_, _ = mo.Write(data)
					c := &object.Commit{}
					if err := c.Decode(mo); err != nil {
						return false
					}
					_ = c.String()
					_ = c.NumParents()
					out := &plumbing.MemoryObject{}
					_ = c.Encode(out)
					_ = c.EncodeWithoutSignature(&plumbing.MemoryObject{})
					return true
				case 1:
					mo.SetType(plumbing.TreeObject)
					_, _ = mo.Write(data)
					tr := &object.Tree{}
					if err := tr.Decode(mo); err != nil {
						return false
					}
					for i := range tr.Entries {
						if i > iterCap {
							break
						}
						_, _ = tr.FindEntry(tr.Entries[i].Name)
					}
					_ = tr.Validate()
					_ = tr.Encode(&plumbing.MemoryObject{})
					return true
				case 2:
					mo.SetType(plumbing.TagObject)
					_, _ = mo.Write(data)
					tg := &object.Tag{}
					if err := tg.Decode(mo); err != nil {
						return false
					}
					// tg.String() resolves the target through the storer: exercised via DecodeObject below
					_ = tg.Encode(&plumbing.MemoryObject{})
					_ = tg.EncodeWithoutSignature(&plumbing.MemoryObject{})
					return true
				case 3:
					mo.SetType(plumbing.BlobObject)
					_, _ = mo.Write(data)
					b := &object.Blob{}
					if err := b.Decode(mo); err != nil {
						return false
					}
					if r, err := b.Reader(); err == nil {
						_, _ = io.Copy(io.Discard, r)
						_ = r.Close()
					}
					return true
				default:
					var s object.Signature
					s.Decode(data)
					_ = s.String()
					_ = s.Encode(io.Discard)
					return s.Name != "" || s.Email != ""
				}
			}, kind, data)
			if k >= 3 {
				break // blob / signature do not depend on the object format
			}
		}
		if k < 3 {
			// typed dispatch through object.DecodeObject over a storer
			guard(t, "FuzzObject", "DecodeObject", func() bool {
				st := memory.NewStorage()
				mo := st.NewEncodedObject()
				mo.SetType([...]plumbing.ObjectType{plumbing.CommitObject, plumbing.TreeObject, plumbing.TagObject}[k])
				w, _ := mo.Writer()
				_, _ = w.Write(data)
				_ = w.Close()
				o, err := object.DecodeObject(st, mo)
				if err != nil {
					return false
				}
				_ = o.ID()
				switch v := o.(type) {
				case *object.Tag:
					_ = v.String() // target lookup fails in the empty storer; must not crash
				case *object.Commit:
					_ = v.String()
					_, _ = v.Tree()
				case *object.Tree:
					_, _ = v.File("a")
				}
				return true
			}, kind, data)
		}
	})
}

// ---------------------------------------------------------------- loose objects

// FuzzObjfile: zlib-wrapped loose object files, through objfile.Reader and
// through the filesystem object storage (objects/xx/yyyy… on a memfs).
func FuzzObjfile(f *testing.F) {
	f.Add([]byte{})
	f.Fuzz(func(t *testing.T, data []byte) {
		for _, of := range []formatcfg.ObjectFormat{formatcfg.SHA1, formatcfg.SHA256} {
			guard(t, "FuzzObjfile", "reader-"+of.String(), func() bool {
				r, err := objfile.NewReader(bytes.NewReader(data), of)
				if err != nil {
					return false
				}
				defer r.Close()
				if _, _, err = r.Header(); err != nil {
					return false
				}
				_, err = io.Copy(io.Discard, r)
				_ = r.Hash()
				return err == nil
			}, data)
		}
		guard(t, "FuzzObjfile", "storage", func() bool {
			fs := memfs.New()
			const id = "aabbccddeeff00112233445566778899aabbccdd"
			if err := writeFile(fs, "objects/"+id[:2]+"/"+id[2:], data); err != nil {
				return false
			}
			st := filesystem.NewStorage(fs, cache.NewObjectLRUDefault())
			defer st.Close()
			h := plumbing.NewHash(id)
			_ = st.HasEncodedObject(h)
			_, _ = st.EncodedObjectSize(h)
			o, err := st.EncodedObject(plumbing.AnyObject, h)
			if err != nil {
				return false
			}
			r, err := o.Reader()
			if err != nil {
				return false
			}
			_, err = io.Copy(io.Discard, r)
			_ = r.Close()
			return err == nil
		}, data)
	})
}

func writeFile(fs billy.Filesystem, name string, data []byte) error {
	f, err := fs.Create(name)
	if err != nil {
		return err
	}
	if _, err := f.Write(data); err != nil {
		_ = f.Close()
		return err
	}
	return f.Close()
}

// ---------------------------------------------------------------- packs

type onlyReader struct{ r io.Reader }

func (o onlyReader) Read(p []byte) (int, error) { return o.r.Read(p) }

// FuzzPackScanner: the streaming pack scanner, seekable and not, SHA-1 and SHA-256.
func FuzzPackScanner(f *testing.F) {
	f.Add([]byte("PACK\x00\x00\x00\x02\x00\x00\x00\x00"))
	f.Fuzz(func(t *testing.T, data []byte) {
		scan := func(r io.Reader, opts ...packfile.ScannerOption) bool {
			s := packfile.NewScanner(r, opts...)
			n := 0
			for s.Scan() {
				d := s.Data()
				_ = d.Section
				_ = d.Value()
				n++
			}
			return s.Error() == nil && n > 0
		}
		guard(t, "FuzzPackScanner", "seekable", func() bool { return scan(bytes.NewReader(data)) }, data)
		guard(t, "FuzzPackScanner", "stream", func() bool { return scan(onlyReader{bytes.NewReader(data)}) }, data)
		guard(t, "FuzzPackScanner", "sha256", func() bool { return scan(bytes.NewReader(data), packfile.WithSHA256()) }, data)
	})
}

// FuzzPackParser: the full parser (delta resolution), without storage, with
// memory storage, from a non-seekable stream, and through the filesystem
// storage's PackfileWriter (the fetch path: UpdateObjectStorage).
func FuzzPackParser(f *testing.F) {
	f.Add([]byte("PACK\x00\x00\x00\x02\x00\x00\x00\x00"))
	f.Fuzz(func(t *testing.T, data []byte) {
		guard(t, "FuzzPackParser", "nostorage", func() bool {
			_, err := packfile.NewParser(bytes.NewReader(data)).Parse()
			return err == nil
		}, data)
		guard(t, "FuzzPackParser", "memory", func() bool {
			_, err := packfile.NewParser(bytes.NewReader(data), packfile.WithStorage(memory.NewStorage())).Parse()
			return err == nil
		}, data)
		guard(t, "FuzzPackParser", "stream-memory", func() bool {
			_, err := packfile.NewParser(onlyReader{bytes.NewReader(data)}, packfile.WithStorage(memory.NewStorage())).Parse()
			return err == nil
		}, data)
		guard(t, "FuzzPackParser", "sha256", func() bool {
			_, err := packfile.NewParser(bytes.NewReader(data), packfile.WithObjectFormat(formatcfg.SHA256),
				packfile.WithStorage(memory.NewStorage(memory.WithObjectFormat(formatcfg.SHA256)))).Parse()
			return err == nil
		}, data)
		fsUpdate(t, data)
	})
}

// fsUpdate is the fs-update mode of FuzzPackParser: the pack goes through
// packfile.UpdateObjectStorage into a filesystem storage (PackfileWriter: pack
// copied to objects/pack, idx built by idxfile.Writer) and is read back.
func fsUpdate(t *testing.T, data []byte) {
	guard(t, "FuzzPackParser", "fs-update", func() bool {
		st := filesystem.NewStorage(memfs.New(), cache.NewObjectLRUDefault())
		defer st.Close()
		if err := packfile.UpdateObjectStorage(st, bytes.NewReader(data)); err != nil {
			return false
		}
		// read everything back through the freshly written pack + idx
		it, err := st.IterEncodedObjects(plumbing.AnyObject)
		if err != nil {
			return false
		}
		n := 0
		_ = it.ForEach(func(o plumbing.EncodedObject) error {
			if n++; n > iterCap {
				return io.EOF
			}
			if r, err := o.Reader(); err == nil {
				_, _ = io.Copy(io.Discard, r)
				_ = r.Close()
			}
			return nil
		})
		return true
	}, data)
}

// FuzzPackfile: random access into a pack through an index (both hostile):
// Packfile.Get / GetByOffset / GetAll with a MemoryIndex and with a LazyIndex.
func FuzzPackfile(f *testing.F) {
	f.Add([]byte("PACK\x00\x00\x00\x02\x00\x00\x00\x00"), []byte{})
	f.Fuzz(func(t *testing.T, pack, idxData []byte) {
		for _, withFS := range []bool{false, true} {
			mode := "memidx"
			if withFS {
				mode = "memidx-fs"
			}
			guard(t, "FuzzPackfile", mode, func() bool {
				idx := idxfile.NewMemoryIndex(20)
				if err := idxfile.NewDecoder(idxInput(idxData), hash.New(crypto.SHA1)).Decode(idx); err != nil {
					return false
				}
				fs := memfs.New()
				if err := writeFile(fs, "p.pack", pack); err != nil {
					return false
				}
				pf, err := fs.Open("p.pack")
				if err != nil {
					return false
				}
				opts := []packfile.PackfileOption{packfile.WithIdx(idx)}
				if withFS {
					opts = append(opts, packfile.WithFs(fs))
				}
				p := packfile.NewPackfile(pf, opts...)
				defer p.Close()
				return walkPackfile(p, idx)
			}, pack, idxData)
		}
	})
}

func walkPackfile(p *packfile.Packfile, idx idxfile.Index) bool {
	okAny := false
	readAll := func(o plumbing.EncodedObject) {
		_ = o.Type()
		_ = o.Size()
		if r, err := o.Reader(); err == nil {
			if _, err := io.Copy(io.Discard, r); err == nil {
				okAny = true
			}
			_ = r.Close()
		}
	}
	if _, err := p.ID(); err != nil {
		return false
	}
	if it, err := idx.Entries(); err == nil {
		for i := 0; i < iterCap; i++ {
			e, err := it.Next()
			if err != nil {
				break
			}
			if o, err := p.Get(e.Hash); err == nil {
				readAll(o)
			}
			if o, err := p.GetByOffset(int64(e.Offset)); err == nil {
				readAll(o)
			}
			_, _ = p.GetSizeByOffset(int64(e.Offset))
		}
		_ = it.Close()
	}
	if it, err := p.GetAll(); err == nil {
		for i := 0; i < iterCap; i++ {
			o, err := it.Next()
			if err != nil {
				break
			}
			readAll(o)
		}
		it.Close()
	}
	return okAny
}

// ---------------------------------------------------------------- pack index / reverse index

var probeHashes = []plumbing.Hash{
	plumbing.NewHash("abcdef1234567890abcdef1234567890abcdef12"),
	plumbing.NewHash("0000000000000000000000000000000000000000"),
	plumbing.NewHash("ffffffffffffffffffffffffffffffffffffffff"),
}

func exerciseIndex(idx idxfile.Index, names []plumbing.Hash) {
	for _, h := range append(names, probeHashes...) {
		_, _ = idx.Contains(h)
		if off, err := idx.FindOffset(h); err == nil {
			_, _ = idx.FindHash(off)
		}
		_, _ = idx.FindCRC32(h)
	}
	_, _ = idx.FindHash(42)
	_, _ = idx.FindHash(12)
	_, _ = idx.Count()
	if it, err := idx.Entries(); err == nil {
		for i := 0; i < iterCap; i++ {
			if _, err := it.Next(); err != nil {
				break
			}
		}
		_ = it.Close()
	}
	if it, err := idx.EntriesByOffset(); err == nil {
		for i := 0; i < iterCap; i++ {
			e, err := it.Next()
			if err != nil {
				break
			}
			_, _ = idx.FindHash(int64(e.Offset))
		}
		_ = it.Close()
	}
	if it, err := idx.EntriesWithPrefix([]byte{0xab}); err == nil {
		for i := 0; i < iterCap; i++ {
			if _, err := it.Next(); err != nil {
				break
			}
		}
		_ = it.Close()
	}
}

// namesFromIdx pulls up to n object names out of the name table of a v2 idx
// so that lookups hit existing entries (positions come from the input, the
// table position is the one a well-formed file would have).
func namesFromIdx(idxData []byte, hashSize, n int) []plumbing.Hash {
	const tbl = 8 + 256*4
	var out []plumbing.Hash
	for i := 0; i < n; i++ {
		s := tbl + i*hashSize
		if s+hashSize > len(idxData) {
			break
		}
		var h plumbing.Hash
		h.ResetBySize(hashSize)
		_, _ = h.Write(idxData[s : s+hashSize])
		out = append(out, h)
	}
	return out
}

// idxInput adapts bytes to idxfile.Input (io.Reader + Stat).
func idxInput(b []byte) idxfile.Input {
	f, err := fstest.MapFS{"idx": {Data: b}}.Open("idx")
	if err != nil {
		panic(err)
	}
	return f
}

type nopCloserAt struct{ *bytes.Reader }

func (nopCloserAt) Close() error { return nil }

// FuzzIdx: .idx through idxfile.Decoder -> MemoryIndex (SHA-1 and SHA-256)
// and through LazyIndex together with a .rev.
func FuzzIdx(f *testing.F) {
	f.Add([]byte{0xff, 't', 'O', 'c', 0, 0, 0, 2}, []byte{})
	f.Fuzz(func(t *testing.T, idxData, revData []byte) {
		for _, hs := range []int{20, 32} {
			hh := crypto.SHA1
			if hs == 32 {
				hh = crypto.SHA256
			}
			guard(t, "FuzzIdx", fmt.Sprintf("memory-%d", hs), func() bool {
				idx := idxfile.NewMemoryIndex(hs)
				if err := idxfile.NewDecoder(idxInput(idxData), hash.New(hh)).Decode(idx); err != nil {
					return false
				}
				exerciseIndex(idx, namesFromIdx(idxData, hs, 4))
				var buf bytes.Buffer
				_ = idxfile.Encode(&buf, hash.New(hh), idx)
				return true
			}, idxData, revData)
			guard(t, "FuzzIdx", fmt.Sprintf("lazy-%d", hs), func() bool {
				var packHash plumbing.Hash
				if len(idxData) >= hs*2 {
					packHash.ResetBySize(hs)
					_, _ = packHash.Write(idxData[len(idxData)-hs*2 : len(idxData)-hs])
				}
				openIdx := func() (idxfile.ReadAtCloser, error) { return nopCloserAt{bytes.NewReader(idxData)}, nil }
				openRev := func() (idxfile.ReadAtCloser, error) { return nopCloserAt{bytes.NewReader(revData)}, nil }
				idx, err := idxfile.NewLazyIndex(openIdx, openRev, packHash)
				if err != nil {
					return false
				}
				defer idx.Close()
				exerciseIndex(idx, namesFromIdx(idxData, hs, 4))
				return true
			}, idxData, revData)
		}
	})
}

// FuzzRev: .rev through revfile.Decode (object count and pack checksum as a
// well-formed caller would pass them: taken from the file's own size/trailer).
func FuzzRev(f *testing.F) {
	f.Add([]byte("RIDX\x00\x00\x00\x01\x00\x00\x00\x01"), uint16(0))
	f.Fuzz(func(t *testing.T, data []byte, count uint16) {
		for _, hs := range []int{20, 32} {
			guard(t, "FuzzRev", fmt.Sprintf("decode-%d", hs), func() bool {
				var packID plumbing.Hash
				if len(data) >= 2*hs {
					packID.ResetBySize(hs)
					_, _ = packID.Write(data[len(data)-2*hs : len(data)-hs])
				}
				n := int64(count)
				if count == 0xffff { // the count a correct caller derives from the file size
					n = int64(len(data)-12-2*hs) / 4
				}
				out := make(chan uint32, 64)
				done := make(chan int)
				go func() {
					c := 0
					for range out {
						c++
					}
					done <- c
				}()
				err := revfile.Decode(bytes.NewReader(data), n, packID, out)
				<-done
				return err == nil
			}, data, count)
		}
	})
}

// ---------------------------------------------------------------- index file

func FuzzIndex(f *testing.F) {
	f.Add([]byte("DIRC\x00\x00\x00\x02\x00\x00\x00\x00"))
	f.Fuzz(func(t *testing.T, data []byte) {
		for _, m := range []string{"skiphash", "sha1", "sha256"} {
			guard(t, "FuzzIndex", m, func() bool {
				idx := &index.Index{}
				var d *index.Decoder
				switch m {
				case "skiphash":
					d = index.NewDecoder(bytes.NewReader(data), hash.New(crypto.SHA1), index.WithSkipHash())
				case "sha1":
					d = index.NewDecoder(bytes.NewReader(data), hash.New(crypto.SHA1))
				default:
					d = index.NewDecoder(bytes.NewReader(data), hash.New(crypto.SHA256))
				}
				if err := d.Decode(idx); err != nil {
					return false
				}
				_ = idx.String()
				for i, e := range idx.Entries {
					if i > iterCap {
						break
					}
					_, _ = idx.Entry(e.Name)
				}
				_, _ = idx.Glob("*")
				idx.SkipUnless([]string{"a"})
				var buf bytes.Buffer
				_ = index.NewEncoder(&buf, hash.New(crypto.SHA1)).Encode(idx)
				return true
			}, data)
		}
	})
}

// ---------------------------------------------------------------- commit-graph

type raCloser struct {
	io.ReaderAt
}

func (raCloser) Close() error { return nil }

func FuzzCommitGraph(f *testing.F) {
	f.Add([]byte("CGPH\x01\x01\x00\x00"))
	f.Fuzz(func(t *testing.T, data []byte) {
		guard(t, "FuzzCommitGraph", "file", func() bool {
			idx, err := commitgraph.OpenFileIndex(raCloser{bytes.NewReader(data)})
			if err != nil {
				return false
			}
			defer idx.Close()
			if walkCommitGraph(idx) {
				// only a graph whose commit data all decoded is handed to the encoder
				// (the encoder is not a decoder; it may assume a well-formed Index)
				var buf bytes.Buffer
				_ = commitgraph.NewEncoder(&buf).Encode(idx)
			}
			return true
		}, data)
		guard(t, "FuzzCommitGraph", "chain-file", func() bool {
			_, err := commitgraph.OpenChainFile(bytes.NewReader(data))
			return err == nil
		}, data)
		guard(t, "FuzzCommitGraph", "chain-dir", func() bool {
			// data as the single graph of a one-element chain, opened from a .git layout
			fs := memfs.New()
			const id = "1111111111111111111111111111111111111111"
			_ = writeFile(fs, "objects/info/commit-graphs/commit-graph-chain", []byte(id+"\n"))
			_ = writeFile(fs, "objects/info/commit-graphs/graph-"+id+".graph", data)
			idx, err := commitgraph.OpenChainOrFileIndex(fs)
			if err != nil {
				return false
			}
			defer idx.Close()
			walkCommitGraph(idx)
			return true
		}, data)
	})
}

func walkCommitGraph(idx commitgraph.Index) (allOK bool) {
	hashes := idx.Hashes()
	n := min(len(hashes), iterCap)
	allOK = len(hashes) <= iterCap
	for i := 0; i < n; i++ {
		_, _ = idx.GetIndexByHash(hashes[i])
		_, _ = idx.GetHashByIndex(uint32(i))
		if _, err := idx.GetCommitDataByIndex(uint32(i)); err != nil {
			allOK = false
		}
	}
	_, _ = idx.GetCommitDataByIndex(0xfffffff0)
	_, _ = idx.GetHashByIndex(0xfffffff0)
	_ = idx.HasGenerationV2()
	_ = idx.MaximumNumberOfHashes()
	return allOK
}

// ---------------------------------------------------------------- reflog

func FuzzReflog(f *testing.F) {
	f.Add([]byte("0000000000000000000000000000000000000000 aaaaaaaaaaaaaaaaaaaaaaaaaaaaaaaaaaaaaaaa A <a@b> 1 +0000\tm\n"))
	f.Fuzz(func(t *testing.T, data []byte) {
		guard(t, "FuzzReflog", "decode", func() bool {
			entries, err := reflog.Decode(bytes.NewReader(data))
			if err != nil {
				return false
			}
			for i, e := range entries {
				if i > iterCap {
					break
				}
				_ = reflog.Encode(io.Discard, e)
			}
			return len(entries) > 0
		}, data)
	})
}

// ---------------------------------------------------------------- ignore / attributes files

func splitPath(p string) ([]string, bool) {
	isDir := strings.HasSuffix(p, "/")
	segs := strings.Split(strings.Trim(p, "/"), "/")
	if len(segs) == 1 && segs[0] == "" {
		segs = nil
	}
	return segs, isDir
}

// FuzzGitignore: a whole ignore file (read from .gitignore, a nested
// .gitignore and .git/info/exclude on a memfs) matched against a path, plus
// the single-pattern parser.
func FuzzGitignore(f *testing.F) {
	f.Add([]byte("*.o\n!keep.o\n/build/\n"), "build/x.o")
	f.Fuzz(func(t *testing.T, file []byte, path string) {
		segs, isDir := splitPath(path)
		guard(t, "FuzzGitignore", "file", func() bool {
			fs := memfs.New()
			_ = writeFile(fs, ".gitignore", file)
			_ = writeFile(fs, "sub/.gitignore", file)
			_ = writeFile(fs, ".git/info/exclude", file)
			ps, err := gitignore.ReadPatterns(fs, nil)
			if err != nil {
				return false
			}
			m := gitignore.NewMatcher(ps)
			_ = m.Match(segs, isDir)
			_ = m.Match(append([]string{"sub"}, segs...), isDir)
			return len(ps) > 0
		}, file, path)
		guard(t, "FuzzGitignore", "scope", func() bool {
			// the per-directory evaluation that replaces the flat ReadPatterns list
			fs := memfs.New()
			_ = writeFile(fs, ".gitignore", file)
			_ = writeFile(fs, "sub/.gitignore", file)
			_ = writeFile(fs, ".git/info/exclude", file)
			root, err := gitignore.RootPatterns(fs)
			if err != nil {
				return false
			}
			sc := gitignore.NewScope(root)
			_ = sc.Match(segs, isDir)
			sub, err := sc.Descend([]string{"sub"}, func() ([]gitignore.Pattern, error) { return gitignore.DirPatterns(fs, []string{"sub"}) })
			if err != nil || sub == nil {
				return false
			}
			_ = sub.Excluded()
			_ = sub.Match(append([]string{"sub"}, segs...), isDir)
			return len(sub.Patterns()) > 0
		}, file, path)
		guard(t, "FuzzGitignore", "pattern", func() bool {
			line := string(file)
			if i := strings.IndexByte(line, '\n'); i >= 0 {
				line = line[:i]
			}
			p := gitignore.ParsePattern(line, nil)
			_ = p.Match(segs, isDir)
			p2 := gitignore.ParsePattern(line, []string{"sub"})
			_ = p2.Match(append([]string{"sub"}, segs...), isDir)
			return true
		}, file, path)
	})
}

func FuzzGitattributes(f *testing.F) {
	f.Add([]byte("*.txt text eol=lf\n[attr]binary -diff -merge -text\n*.png binary\n"), "a/b.txt")
	f.Fuzz(func(t *testing.T, file []byte, path string) {
		segs, _ := splitPath(path)
		guard(t, "FuzzGitattributes", "file", func() bool {
			attrs, err := gitattributes.ReadAttributes(bytes.NewReader(file), nil, true)
			if err != nil {
				return false
			}
			m := gitattributes.NewMatcher(attrs)
			_, _ = m.Match(segs, nil)
			_, _ = m.Match(segs, []string{"text", "eol", "binary"})
			return len(attrs) > 0
		}, file, path)
		guard(t, "FuzzGitattributes", "dir", func() bool {
			fs := memfs.New()
			_ = writeFile(fs, ".gitattributes", file)
			_ = writeFile(fs, "sub/.gitattributes", file)
			attrs, err := gitattributes.ReadPatterns(fs, nil)
			if err != nil {
				return false
			}
			_, _ = gitattributes.NewMatcher(attrs).Match(segs, nil)
			return len(attrs) > 0
		}, file, path)
	})
}

// ---------------------------------------------------------------- pkt-line / sideband

func FuzzPktline(f *testing.F) {
	f.Add([]byte("0009hello0000"))
	f.Fuzz(func(t *testing.T, data []byte) {
		guard(t, "FuzzPktline", "Read", func() bool {
			ok := false
			for _, size := range []int{0, 1, pktline.LenSize - 1, pktline.LenSize, 100, pktline.MaxSize} {
				buf := make([]byte, size)
				if _, err := pktline.Read(bytes.NewReader(data), buf); err == nil {
					ok = true
				}
			}
			return ok
		}, data)
		guard(t, "FuzzPktline", "ReadLine", func() bool {
			r := bytes.NewReader(data)
			n := 0
			for {
				before := r.Len()
				_, _, err := pktline.ReadLine(r)
				if err != nil || r.Len() == 0 || r.Len() == before {
					return err == nil && n > 0
				}
				n++
			}
		}, data)
		guard(t, "FuzzPktline", "PeekLine", func() bool {
			br := bufio.NewReader(bytes.NewReader(data))
			_, _, err := pktline.PeekLine(br)
			_, _, _ = pktline.PeekLine(br)
			_, _, _ = pktline.ReadLine(br)
			return err == nil
		}, data)
		guard(t, "FuzzPktline", "Scanner", func() bool {
			sc := pktline.NewScanner(bytes.NewReader(data))
			n := 0
			for sc.Scan() {
				_, _, _ = sc.Len(), sc.Bytes(), sc.Text()
				n++
			}
			return sc.Err() == nil && n > 0
		}, data)
		guard(t, "FuzzPktline", "ErrorLine", func() bool {
			e := &pktline.ErrorLine{}
			return e.Decode(bytes.NewReader(data)) == nil
		}, data)
		for _, typ := range []sideband.Type{sideband.Sideband, sideband.Sideband64k} {
			guard(t, "FuzzPktline", fmt.Sprintf("sideband-%d", typ), func() bool {
				d := sideband.NewDemuxer(typ, bytes.NewReader(data))
				d.Progress = io.Discard
				_, err := io.Copy(io.Discard, d)
				return err == nil
			}, data)
		}
	})
}

// ---------------------------------------------------------------- capabilities

func FuzzCapability(f *testing.F) {
	f.Add([]byte("multi_ack thin-pack side-band-64k ofs-delta agent=git/2.39.5 symref=HEAD:refs/heads/master"))
	f.Fuzz(func(t *testing.T, data []byte) {
		guard(t, "FuzzCapability", "list", func() bool {
			l := &capability.List{}
			capability.DecodeList(data, l)
			_ = l.String()
			_ = l.All()
			_ = l.Get("agent")
			_ = l.Get("symref")
			_ = l.Supports("ofs-delta")
			_ = capability.EncodeList(l)
			err := capability.Validate(l)
			l2 := &capability.List{}
			_ = l2.UnmarshalText(data)
			_, _ = l2.MarshalText()
			l.Delete("agent")
			return err == nil && !l.IsEmpty()
		}, data)
	})
}

// ---------------------------------------------------------------- protocol messages

// packpMessages is the selector table of FuzzPackp; cmd/c53 mirrors the order
// when it writes seeds (see seeds.go: packpNames).
var packpMessages = []struct {
	name string
	dec  func(r io.Reader) (any, error)
}{
	{"AdvRefs", func(r io.Reader) (any, error) { m := &packp.AdvRefs{}; return m, m.Decode(r) }},
	{"UploadRequest", func(r io.Reader) (any, error) { m := &packp.UploadRequest{}; return m, m.Decode(r) }},
	{"UploadHaves", func(r io.Reader) (any, error) { m := &packp.UploadHaves{}; return m, m.Decode(r) }},
	{"UpdateRequests", func(r io.Reader) (any, error) { m := &packp.UpdateRequests{}; return m, m.Decode(r) }},
	{"ServerResponse", func(r io.Reader) (any, error) { m := &packp.ServerResponse{}; return m, m.Decode(r) }},
	{"ShallowUpdate", func(r io.Reader) (any, error) { m := &packp.ShallowUpdate{}; return m, m.Decode(r) }},
	{"ReportStatus", func(r io.Reader) (any, error) { m := &packp.ReportStatus{}; return m, m.Decode(r) }},
	{"GitProtoRequest", func(r io.Reader) (any, error) { m := &packp.GitProtoRequest{}; return m, m.Decode(r) }},
	{"PushOptions", func(r io.Reader) (any, error) { m := &packp.PushOptions{}; return m, m.Decode(r) }},
	{"FetchArgs", func(r io.Reader) (any, error) { m := &packp.FetchArgs{}; return m, m.Decode(r) }},
	{"FetchOutput", func(r io.Reader) (any, error) { m := &packp.FetchOutput{}; return m, m.Decode(r) }},
	{"CommandRequest-lsrefs", func(r io.Reader) (any, error) {
		m := &packp.CommandRequest{Args: &packp.LsRefsArgs{}}
		return m, m.Decode(r)
	}},
	{"CommandRequest-fetch", func(r io.Reader) (any, error) {
		m := &packp.CommandRequest{Args: &packp.FetchArgs{}}
		return m, m.Decode(r)
	}},
	{"CapabilityAdv", func(r io.Reader) (any, error) { m := &packp.CapabilityAdv{}; return m, m.Decode(r) }},
	{"LsRefsArgs", func(r io.Reader) (any, error) { m := &packp.LsRefsArgs{}; return m, m.Decode(r) }},
	{"LsRefsOutput", func(r io.Reader) (any, error) { m := &packp.LsRefsOutput{}; return m, m.Decode(r) }},
	{"InfoRefs", func(r io.Reader) (any, error) { m := &packp.InfoRefs{}; return m, m.Decode(r) }},
	{"SmartReply", func(r io.Reader) (any, error) { m := &packp.SmartReply{}; return m, m.Decode(r) }},
}

type encoder interface{ Encode(io.Writer) error }

func FuzzPackp(f *testing.F) {
	f.Add(uint8(0), []byte("0000"))
	f.Fuzz(func(t *testing.T, sel uint8, data []byte) {
		m := packpMessages[int(sel)%len(packpMessages)]
		guard(t, "FuzzPackp", m.name, func() bool {
			v, err := m.dec(bytes.NewReader(data))
			if err != nil {
				return false
			}
			// a decoded message must be re-encodable without crashing
			if e, ok := v.(encoder); ok {
				_ = e.Encode(io.Discard)
			}
			if ar, ok := v.(*packp.AdvRefs); ok {
				_, _ = ar.Head()
				_, _ = ar.ResolvedHead()
				_, _ = ar.ResolvedReferences()
				_ = ar.IsEmpty()
			}
			return true
		}, sel, data)
	})
}
