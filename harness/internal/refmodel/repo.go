package refmodel

import (
	"bytes"
	"crypto/sha256"
	"encoding/hex"
	"errors"
	"fmt"
	"io"
	"math/rand"
	"sort"
	"strings"
	"time"

	"github.com/go-git/go-git/v6/config"
	"github.com/go-git/go-git/v6/plumbing"
	"github.com/go-git/go-git/v6/plumbing/filemode"
	formatcfg "github.com/go-git/go-git/v6/plumbing/format/config"
	"github.com/go-git/go-git/v6/plumbing/format/index"
	"github.com/go-git/go-git/v6/plumbing/format/packfile"
	"github.com/go-git/go-git/v6/plumbing/format/reflog"
	"github.com/go-git/go-git/v6/plumbing/storer"
	"github.com/go-git/go-git/v6/storage"
	"github.com/go-git/go-git/v6/storage/memory"
)

// UObj is one well-formed object of the universe.
type UObj struct {
	Type    plumbing.ObjectType
	Content []byte
	Hash    plumbing.Hash
}

// Universe is the small fixed world the op sequences range over.
type Universe struct {
	Format   formatcfg.ObjectFormat
	Objs     []UObj
	Commits  []int // indices of commit objects
	RefNames []string
	Reflogs  []string
	Modules  []string
}

func (u *Universe) hasher() *plumbing.ObjectHasher { return plumbing.FromObjectFormat(u.Format) }

func (u *Universe) add(t plumbing.ObjectType, content []byte) int {
	o := plumbing.NewMemoryObject(u.hasher())
	o.SetType(t)
	o.SetSize(int64(len(content)))
	w, _ := o.Writer()
	_, _ = w.Write(content)
	_ = w.Close()
	u.Objs = append(u.Objs, UObj{Type: t, Content: content, Hash: o.Hash()})
	return len(u.Objs) - 1
}

// NewUniverse builds the objects (blobs incl. one above any large-object
// threshold, trees, commits, tags incl. a nested tag). format: "sha1"|"sha256".
func NewUniverse(format string, r *rand.Rand) *Universe {
	u := &Universe{Format: formatcfg.SHA1}
	if format == "sha256" {
		u.Format = formatcfg.SHA256
	}
	big := make([]byte, 70000)
	r.Read(big)
	b0 := u.add(plumbing.BlobObject, nil)
	b1 := u.add(plumbing.BlobObject, []byte("hello\n"))
	b2 := u.add(plumbing.BlobObject, big)
	b3 := u.add(plumbing.BlobObject, bytes.Repeat([]byte("abcdefgh"), 400))
	_ = b0
	tree := func(ents ...any) []byte {
		var b bytes.Buffer
		for i := 0; i < len(ents); i += 3 {
			fmt.Fprintf(&b, "%s %s\x00", ents[i].(string), ents[i+1].(string))
			b.Write(u.Objs[ents[i+2].(int)].Hash.Bytes())
		}
		return b.Bytes()
	}
	t0 := u.add(plumbing.TreeObject, tree("100644", "a", b1))
	t1 := u.add(plumbing.TreeObject, tree("100644", "a", b1, "100644", "b", b2, "40000", "d", t0, "100755", "e", b3))
	commit := func(tr int, msg string, parents ...int) int {
		var b bytes.Buffer
		fmt.Fprintf(&b, "tree %s\n", u.Objs[tr].Hash)
		for _, p := range parents {
			fmt.Fprintf(&b, "parent %s\n", u.Objs[p].Hash)
		}
		fmt.Fprintf(&b, "author A <a@example.com> 1700000000 +0000\ncommitter C <c@example.com> 1700000000 +0000\n\n%s\n", msg)
		i := u.add(plumbing.CommitObject, b.Bytes())
		u.Commits = append(u.Commits, i)
		return i
	}
	c0 := commit(t0, "c0")
	c1 := commit(t1, "c1", c0)
	tag := func(obj int, typ, name string) int {
		return u.add(plumbing.TagObject, []byte(fmt.Sprintf("object %s\ntype %s\ntag %s\ntagger T <t@example.com> 1700000000 +0000\n\nmsg\n", u.Objs[obj].Hash, typ, name)))
	}
	g0 := tag(c0, "commit", "v0")
	tag(g0, "tag", "v0n")
	u.add(plumbing.BlobObject, []byte("x"))
	commit(t0, "c2", c1)
	commit(t1, "c3 "+fmt.Sprint(r.Int63()), c1, c0)
	u.RefNames = []string{"HEAD", "refs/heads/main", "refs/heads/dev", "refs/tags/v0", "refs/remotes/o/main"}
	u.Reflogs = []string{"HEAD", "refs/heads/main"}
	u.Modules = []string{"m1", "m2"}
	return u
}

// CommitHash returns the hex id of the k-th commit (mod count).
func (u *Universe) CommitHash(k int) string {
	return u.Objs[u.Commits[k%len(u.Commits)]].Hash.String()
}

// ---------------------------------------------------------------------------

// Op is one storage API call (or a short valid call pattern) over the universe.
type Op struct {
	K    string `json:"k"`
	I    int    `json:"i,omitempty"`    // object index / variant
	T    int    `json:"t,omitempty"`    // plumbing.ObjectType for get/iter
	Name string `json:"name,omitempty"` // ref / reflog / module name
	Val  *Ref   `json:"val,omitempty"`
	Old  *Ref   `json:"old,omitempty"`
	List []int  `json:"list,omitempty"`
}

func (o Op) String() string {
	s := o.K
	switch {
	case strings.HasPrefix(o.K, "obj.get"):
		s += fmt.Sprintf(" #%d as %s", o.I, plumbing.ObjectType(o.T))
	case o.K == "obj.iter":
		s += " " + plumbing.ObjectType(o.T).String()
	case o.K == "obj.pack" || o.K == "sh.set" || o.K == "sh.setmut":
		s += fmt.Sprint(" ", o.List)
	case strings.HasPrefix(o.K, "obj."):
		s += fmt.Sprintf(" #%d", o.I)
	case o.K == "idx.set" || o.K == "cfg.set" || o.K == "idx.setmut" || o.K == "cfg.setmut" || o.K == "idx.ext":
		s += fmt.Sprintf(" v%d", o.I)
	case o.K == "rl.append" || o.K == "rl.appendmut":
		s += fmt.Sprintf(" %s e%d", o.Name, o.I)
	}
	if o.Name != "" && !strings.HasPrefix(o.K, "rl.append") {
		s += " " + o.Name
	}
	if o.Val != nil {
		s += " " + o.Val.String()
	}
	if o.Old != nil {
		s += " old=" + o.Old.Val()
	}
	return s
}

// Res is the normalised observable result of an Op.
type Res struct {
	Kind   string // ok | not-found | changed | invalid | other | panic
	Val    string
	Detail string // raw error text etc.; not compared
}

func (r Res) Key() string { return r.Kind + "|" + r.Val }

func (r Res) String() string {
	s := r.Kind
	if r.Val != "" {
		v := r.Val
		if len(v) > 300 {
			v = v[:300] + "…"
		}
		s += ":" + v
	}
	if r.Detail != "" {
		s += " (" + r.Detail + ")"
	}
	return s
}

func errRes(err error) Res {
	switch {
	case err == nil:
		return Res{Kind: "ok"}
	case errors.Is(err, plumbing.ErrObjectNotFound), errors.Is(err, plumbing.ErrReferenceNotFound):
		return Res{Kind: "not-found", Detail: err.Error()}
	case errors.Is(err, storage.ErrReferenceHasChanged):
		return Res{Kind: "changed", Detail: err.Error()}
	case errors.Is(err, plumbing.ErrInvalidType):
		return Res{Kind: "invalid", Detail: err.Error()}
	}
	return Res{Kind: "other", Detail: err.Error()}
}

func okv(format string, a ...any) Res { return Res{Kind: "ok", Val: fmt.Sprintf(format, a...)} }

func short(b []byte) string {
	s := sha256.Sum256(b)
	return hex.EncodeToString(s[:6])
}

func toRef(r Ref) *plumbing.Reference {
	if r.Sym {
		return plumbing.NewSymbolicReference(plumbing.ReferenceName(r.Name), plumbing.ReferenceName(r.Target))
	}
	return plumbing.NewHashReference(plumbing.ReferenceName(r.Name), plumbing.NewHash(r.Hash))
}

// FromRef converts a go-git reference into the model's value.
func FromRef(r *plumbing.Reference) Ref {
	if r.Type() == plumbing.SymbolicReference {
		return Ref{Name: r.Name().String(), Sym: true, Target: r.Target().String()}
	}
	return Ref{Name: r.Name().String(), Hash: r.Hash().String()}
}

func (u *Universe) newObject(st storer.EncodedObjectStorer, i int) (plumbing.EncodedObject, error) {
	o := st.NewEncodedObject()
	o.SetType(u.Objs[i].Type)
	o.SetSize(int64(len(u.Objs[i].Content)))
	w, err := o.Writer()
	if err != nil {
		return nil, err
	}
	if _, err := w.Write(u.Objs[i].Content); err != nil {
		return nil, err
	}
	return o, w.Close()
}

// IndexVariant builds the k-th prepared index (fresh value each call).
func (u *Universe) IndexVariant(k int) *index.Index {
	idx := &index.Index{Version: 2}
	names := [][]string{{}, {"a"}, {"a", "b/c", "b/d"}, {"z", "a", "m"}, {"a", "a2", "dir/x", "dir/y", "e"}}[k%5]
	names = append([]string{}, names...)
	sort.Strings(names)
	for j, n := range names {
		idx.Entries = append(idx.Entries, &index.Entry{
			Hash: u.Objs[(j+k)%4].Hash, Name: n,
			CreatedAt: time.Unix(1700000000+int64(k), 0), ModifiedAt: time.Unix(1700000100+int64(j), 0),
			Mode: []filemode.FileMode{filemode.Regular, filemode.Executable}[(j+k)%2], Size: uint32(len(u.Objs[(j+k)%4].Content)),
			Dev: 1, Inode: uint32(10 + j), UID: 1000, GID: 1000,
		})
	}
	return idx
}

func normIndex(idx *index.Index) string {
	var b strings.Builder
	fmt.Fprintf(&b, "v%d", idx.Version)
	for _, e := range idx.Entries {
		fmt.Fprintf(&b, ";%s:%s:%o:%d:%d:%d", e.Name, e.Hash, uint32(e.Mode), e.Size, e.Stage, e.ModifiedAt.Unix())
	}
	return b.String()
}

// ApplyConfigVariant edits the fields the k-th variant stands for.
func ApplyConfigVariant(c *config.Config, k int) {
	k = k % 5
	c.User.Name = fmt.Sprintf("user%d", k)
	c.User.Email = fmt.Sprintf("u%d@example.com", k)
	c.Core.IsBare = k%2 == 1
	switch k {
	case 0, 1, 2:
		c.Remotes["origin"] = &config.RemoteConfig{Name: "origin", URLs: []string{fmt.Sprintf("https://example.com/r%d.git", k)},
			Fetch: []config.RefSpec{"+refs/heads/*:refs/remotes/origin/*"}}
		c.Branches["main"] = &config.Branch{Name: "main", Remote: "origin", Merge: "refs/heads/main"}
		if k == 2 {
			c.Remotes["up"] = &config.RemoteConfig{Name: "up", URLs: []string{"https://example.com/up.git", "https://example.com/up2.git"},
				Fetch: []config.RefSpec{"+refs/heads/*:refs/remotes/up/*"}}
		}
	case 3:
		delete(c.Remotes, "origin")
		delete(c.Remotes, "up")
		delete(c.Branches, "main")
	case 4:
		delete(c.Remotes, "up")
	}
}

func normConfig(c *config.Config) string {
	var parts []string
	parts = append(parts, fmt.Sprintf("user=%s<%s> bare=%v fmt=%s", c.User.Name, c.User.Email, c.Core.IsBare, c.Extensions.ObjectFormat))
	var rn []string
	for n := range c.Remotes {
		rn = append(rn, n)
	}
	sort.Strings(rn)
	for _, n := range rn {
		r := c.Remotes[n]
		parts = append(parts, fmt.Sprintf("remote %s %v %v", n, r.URLs, r.Fetch))
	}
	var bn []string
	for n := range c.Branches {
		bn = append(bn, n)
	}
	sort.Strings(bn)
	for _, n := range bn {
		b := c.Branches[n]
		parts = append(parts, fmt.Sprintf("branch %s %s %s", n, b.Remote, b.Merge))
	}
	return strings.Join(parts, "; ")
}

func copyConfig(c *config.Config) (*config.Config, error) {
	b, err := c.Marshal()
	if err != nil {
		return nil, err
	}
	n := config.NewConfig()
	if err := n.Unmarshal(b); err != nil {
		return nil, err
	}
	return n, nil
}

// ReflogVariant builds the k-th prepared reflog entry (fresh value each call).
func (u *Universe) ReflogVariant(k int) *reflog.Entry {
	zone := time.UTC
	if k%3 == 1 {
		zone = time.FixedZone("", 3600)
	}
	return &reflog.Entry{
		OldHash: plumbing.NewHash(u.CommitHash(k)), NewHash: plumbing.NewHash(u.CommitHash(k + 1)),
		Committer: reflog.Signature{Name: fmt.Sprintf("N %d", k), Email: fmt.Sprintf("e%d@example.com", k), When: time.Unix(1700000000+int64(k), 0).In(zone)},
		Message:   fmt.Sprintf("commit: msg %d", k),
	}
}

func normReflog(es []*reflog.Entry) string {
	var parts []string
	for _, e := range es {
		_, off := e.Committer.When.Zone()
		parts = append(parts, fmt.Sprintf("%s %s %s <%s> %d %+d %s", e.OldHash, e.NewHash, e.Committer.Name, e.Committer.Email, e.Committer.When.Unix(), off, e.Message))
	}
	return strings.Join(parts, "; ")
}

// BuildPack encodes the listed objects of the universe as a packfile.
func (u *Universe) BuildPack(list []int) ([]byte, error) {
	var opts []memory.StorageOption
	if u.Format == formatcfg.SHA256 {
		opts = append(opts, memory.WithObjectFormat(formatcfg.SHA256))
	}
	ms := memory.NewStorage(opts...)
	var hs []plumbing.Hash
	for _, i := range list {
		o, err := u.newObject(ms, i)
		if err != nil {
			return nil, err
		}
		h, err := ms.SetEncodedObject(o)
		if err != nil {
			return nil, err
		}
		hs = append(hs, h)
	}
	var buf bytes.Buffer
	if _, err := packfile.NewEncoder(&buf, ms, false).Encode(hs, 10); err != nil {
		return nil, err
	}
	return buf.Bytes(), nil
}

func normObj(o plumbing.EncodedObject) (string, error) {
	rd, err := o.Reader()
	if err != nil {
		return "", err
	}
	b, err := io.ReadAll(rd)
	_ = rd.Close()
	if err != nil {
		return "", err
	}
	return fmt.Sprintf("%s:%d:%s:%s", o.Type(), o.Size(), o.Hash(), short(b)), nil
}

func iterRefs(st storer.ReferenceStorer) Res {
	it, err := st.IterReferences()
	if err != nil {
		return errRes(err)
	}
	var lines []string
	err = it.ForEach(func(r *plumbing.Reference) error {
		x := FromRef(r)
		lines = append(lines, x.Name+" "+x.Val())
		return nil
	})
	if err != nil {
		return errRes(err)
	}
	return listRes(lines)
}

// listRes normalises a listing as a set (duplicates of identical lines are reported in Detail only).
func listRes(lines []string) Res {
	sort.Strings(lines)
	dups := 0
	var out []string
	for i, l := range lines {
		if i > 0 && lines[i-1] == l {
			dups++
			continue
		}
		out = append(out, l)
	}
	r := Res{Kind: "ok", Val: strings.Join(out, ",")}
	if dups > 0 {
		r.Detail = fmt.Sprintf("%d identical duplicate entries", dups)
	}
	return r
}

// Exec runs op against a real storer and normalises what it returned.
func Exec(st storage.Storer, u *Universe, op Op) Res {
	switch op.K {
	case "obj.set":
		o, err := u.newObject(st, op.I)
		if err != nil {
			return errRes(err)
		}
		h, err := st.SetEncodedObject(o)
		if err != nil {
			return errRes(err)
		}
		return okv("%s", h)
	case "obj.raw":
		w, err := st.RawObjectWriter(u.Objs[op.I].Type, int64(len(u.Objs[op.I].Content)))
		if err != nil {
			return errRes(err)
		}
		if _, err := w.Write(u.Objs[op.I].Content); err != nil {
			_ = w.Close()
			return errRes(err)
		}
		return errRes(w.Close())
	case "obj.pack":
		pack, err := u.BuildPack(op.List)
		if err != nil {
			return Res{Kind: "other", Detail: "harness: " + err.Error()}
		}
		return errRes(packfile.UpdateObjectStorage(st, bytes.NewReader(pack)))
	case "obj.has":
		return errRes(st.HasEncodedObject(u.Objs[op.I].Hash))
	case "obj.size":
		n, err := st.EncodedObjectSize(u.Objs[op.I].Hash)
		if err != nil {
			return errRes(err)
		}
		return okv("%d", n)
	case "obj.get":
		o, err := st.EncodedObject(plumbing.ObjectType(op.T), u.Objs[op.I].Hash)
		if err != nil {
			return errRes(err)
		}
		s, err := normObj(o)
		if err != nil {
			return errRes(err)
		}
		return okv("%s", s)
	case "obj.iter":
		it, err := st.IterEncodedObjects(plumbing.ObjectType(op.T))
		if err != nil {
			return errRes(err)
		}
		var lines []string
		err = it.ForEach(func(o plumbing.EncodedObject) error {
			lines = append(lines, fmt.Sprintf("%s/%s", o.Hash(), o.Type()))
			return nil
		})
		if err != nil {
			return errRes(err)
		}
		return listRes(lines)
	case "ref.set":
		return errRes(st.SetReference(toRef(*op.Val)))
	case "ref.cas":
		return errRes(st.CheckAndSetReference(toRef(*op.Val), toRef(*op.Old)))
	case "ref.get":
		r, err := st.Reference(plumbing.ReferenceName(op.Name))
		if err != nil {
			return errRes(err)
		}
		return okv("%s", FromRef(r).String())
	case "ref.rm":
		return errRes(st.RemoveReference(plumbing.ReferenceName(op.Name)))
	case "ref.iter":
		return iterRefs(st)
	case "ref.pack":
		return errRes(st.PackRefs())
	case "idx.set":
		return errRes(st.SetIndex(u.IndexVariant(op.I)))
	case "idx.get":
		idx, err := st.Index()
		if err != nil {
			return errRes(err)
		}
		return okv("%s", normIndex(idx))
	case "cfg.set":
		cur, err := st.Config()
		if err != nil {
			return errRes(err)
		}
		c, err := copyConfig(cur)
		if err != nil {
			return errRes(err)
		}
		ApplyConfigVariant(c, op.I)
		return errRes(st.SetConfig(c))
	case "cfg.get":
		c, err := st.Config()
		if err != nil {
			return errRes(err)
		}
		return okv("%s", normConfig(c))
	case "sh.set":
		var hs []plumbing.Hash
		for _, k := range op.List {
			hs = append(hs, plumbing.NewHash(u.CommitHash(k)))
		}
		return errRes(st.SetShallow(hs))
	case "sh.get":
		hs, err := st.Shallow()
		if err != nil {
			return errRes(err)
		}
		var l []string
		for _, h := range hs {
			l = append(l, h.String())
		}
		return okv("%s", strings.Join(l, ","))
	case "rl.append", "rl.get", "rl.del":
		rs, ok := st.(storer.ReflogStorer)
		if !ok {
			return Res{Kind: "other", Detail: "storer has no reflog support"}
		}
		switch op.K {
		case "rl.append":
			return errRes(rs.AppendReflog(plumbing.ReferenceName(op.Name), u.ReflogVariant(op.I)))
		case "rl.del":
			return errRes(rs.DeleteReflog(plumbing.ReferenceName(op.Name)))
		}
		es, err := rs.Reflog(plumbing.ReferenceName(op.Name))
		if err != nil {
			return errRes(err)
		}
		return okv("%s", normReflog(es))
	case "idx.getmut":
		// aliasing probe: the caller edits the value a getter returned and gives up (no setter call)
		idx, err := st.Index()
		if err != nil {
			return errRes(err)
		}
		mutateIndex(u, idx)
		idx2, err := st.Index()
		if err != nil {
			return errRes(err)
		}
		return okv("%s", normIndex(idx2))
	case "idx.setmut":
		// aliasing probe: the caller keeps editing the value after the setter returned
		v := u.IndexVariant(op.I)
		if err := st.SetIndex(v); err != nil {
			return errRes(err)
		}
		mutateIndex(u, v)
		idx2, err := st.Index()
		if err != nil {
			return errRes(err)
		}
		return okv("%s", normIndex(idx2))
	case "cfg.getmut":
		c, err := st.Config()
		if err != nil {
			return errRes(err)
		}
		mutateConfig(c)
		c2, err := st.Config()
		if err != nil {
			return errRes(err)
		}
		return okv("%s", normConfig(c2))
	case "cfg.setmut":
		cur, err := st.Config()
		if err != nil {
			return errRes(err)
		}
		c, err := copyConfig(cur)
		if err != nil {
			return errRes(err)
		}
		ApplyConfigVariant(c, op.I)
		if err := st.SetConfig(c); err != nil {
			return errRes(err)
		}
		mutateConfig(c)
		c2, err := st.Config()
		if err != nil {
			return errRes(err)
		}
		return okv("%s", normConfig(c2))
	case "sh.getmut":
		hs, err := st.Shallow()
		if err != nil {
			return errRes(err)
		}
		mutateHashes(hs)
		return Exec(st, u, Op{K: "sh.get"})
	case "sh.setmut":
		var hs []plumbing.Hash
		for _, k := range op.List {
			hs = append(hs, plumbing.NewHash(u.CommitHash(k)))
		}
		if err := st.SetShallow(hs); err != nil {
			return errRes(err)
		}
		mutateHashes(hs)
		return Exec(st, u, Op{K: "sh.get"})
	case "rl.getmut", "rl.appendmut":
		rs, ok := st.(storer.ReflogStorer)
		if !ok {
			return Res{Kind: "other", Detail: "storer has no reflog support"}
		}
		if op.K == "rl.appendmut" {
			e := u.ReflogVariant(op.I)
			if err := rs.AppendReflog(plumbing.ReferenceName(op.Name), e); err != nil {
				return errRes(err)
			}
			e.Message = "aliasing probe"
			e.NewHash = plumbing.ZeroHash
		} else {
			es, err := rs.Reflog(plumbing.ReferenceName(op.Name))
			if err != nil {
				return errRes(err)
			}
			for _, e := range es {
				e.Message = "aliasing probe"
				e.Committer.Name = "probe"
			}
		}
		return Exec(st, u, Op{K: "rl.get", Name: op.Name})
	case "mod.ref.set", "mod.ref.get", "mod.obj.set", "mod.obj.has":
		m, err := st.Module(op.Name)
		if err != nil {
			return errRes(err)
		}
		sub := op
		sub.K = strings.TrimPrefix(op.K, "mod.")
		sub.Name = ""
		if op.Val != nil {
			sub.Name = op.Val.Name
		}
		if sub.K == "ref.get" {
			sub.Name = "refs/heads/main"
		}
		return Exec(m, u, sub)
	}
	return Res{Kind: "other", Detail: "harness: unknown op " + op.K}
}

// mutateIndex edits an index value in place the way a half-finished worktree operation does.
func mutateIndex(u *Universe, idx *index.Index) {
	if len(idx.Entries) > 0 {
		idx.Entries[0].Hash = u.Objs[len(u.Objs)-1].Hash
		idx.Entries[0].Size += 7
		idx.Entries[0].Name += "~probe"
		idx.Entries = idx.Entries[:len(idx.Entries)-1]
	}
	idx.Entries = append(idx.Entries, &index.Entry{Name: "zz-aliasing-probe", Hash: u.Objs[0].Hash, Mode: filemode.Regular})
}

func mutateConfig(c *config.Config) {
	c.User.Name = "aliasing probe"
	c.Core.IsBare = !c.Core.IsBare
	if r, ok := c.Remotes["origin"]; ok && len(r.URLs) > 0 {
		r.URLs[0] = "https://example.com/aliasing-probe.git"
	}
	delete(c.Remotes, "up")
	delete(c.Branches, "main")
	c.Remotes["probe"] = &config.RemoteConfig{Name: "probe", URLs: []string{"https://example.com/probe.git"}}
}

func mutateHashes(hs []plumbing.Hash) {
	for i := range hs {
		hs[i] = plumbing.ZeroHash
	}
}

// Restore rewrites one subsystem of st from the model through the setters with fresh values
// (used after an aliasing probe found that a caller's edit leaked into the storage).
func Restore(st storage.Storer, u *Universe, m *Repo, sub string) error {
	switch sub {
	case "idx":
		if m.Index >= 0 {
			return st.SetIndex(u.IndexVariant(m.Index))
		}
		return st.SetIndex(&index.Index{Version: 2})
	case "cfg":
		c := m.configValue(u, m.cfg)
		if u.Format == formatcfg.SHA256 {
			c.Core.RepositoryFormatVersion = formatcfg.Version1
		}
		return st.SetConfig(c)
	case "sh":
		var hs []plumbing.Hash
		for _, k := range m.Shallow {
			hs = append(hs, plumbing.NewHash(u.CommitHash(k)))
		}
		return st.SetShallow(hs)
	case "rl":
		rs, ok := st.(storer.ReflogStorer)
		if !ok {
			return nil
		}
		for _, name := range u.Reflogs {
			if err := rs.DeleteReflog(plumbing.ReferenceName(name)); err != nil {
				return err
			}
			for _, k := range m.Reflog[name] {
				if err := rs.AppendReflog(plumbing.ReferenceName(name), u.ReflogVariant(k)); err != nil {
					return err
				}
			}
		}
	}
	return nil
}

// ---------------------------------------------------------------------------
// the abstract repository

type Repo struct {
	Objs    map[int]bool
	Refs    RefMap
	Index   int   // -1: never set
	Config  int   // -1: never set
	cfg     []int // variants applied so far (a variant edits fields, it does not replace the config)
	Shallow []int
	Reflog  map[string][]int
	Mods    map[string]*Repo
	// BaseConfig is what Config() returns before any SetConfig (differs per object format).
	Format formatcfg.ObjectFormat
}

func NewRepo(u *Universe) *Repo {
	return &Repo{Objs: map[int]bool{}, Refs: RefMap{}, Index: -1, Config: -1, Reflog: map[string][]int{}, Mods: map[string]*Repo{}, Format: u.Format}
}

func (m *Repo) Clone() *Repo {
	n := &Repo{Objs: map[int]bool{}, Refs: m.Refs.Clone(), Index: m.Index, Config: m.Config, cfg: append([]int(nil), m.cfg...), Shallow: append([]int(nil), m.Shallow...),
		Reflog: map[string][]int{}, Mods: map[string]*Repo{}, Format: m.Format}
	for k, v := range m.Objs {
		n.Objs[k] = v
	}
	for k, v := range m.Reflog {
		n.Reflog[k] = append([]int(nil), v...)
	}
	for k, v := range m.Mods {
		n.Mods[k] = v.Clone()
	}
	return n
}

func (m *Repo) configValue(u *Universe, history []int) *config.Config {
	c := config.NewConfig()
	if u.Format == formatcfg.SHA256 {
		c.Extensions.ObjectFormat = formatcfg.SHA256
	}
	for _, k := range history {
		ApplyConfigVariant(c, k)
	}
	return c
}

// Exec steps the model and returns the expected normalised result.
func (m *Repo) Exec(u *Universe, op Op) Res {
	nf := Res{Kind: "not-found"}
	switch op.K {
	case "obj.set":
		m.Objs[op.I] = true
		return okv("%s", u.Objs[op.I].Hash)
	case "obj.raw":
		m.Objs[op.I] = true
		return Res{Kind: "ok"}
	case "obj.pack":
		for _, i := range op.List {
			m.Objs[i] = true
		}
		return Res{Kind: "ok"}
	case "obj.has":
		if !m.Objs[op.I] {
			return nf
		}
		return Res{Kind: "ok"}
	case "obj.size":
		if !m.Objs[op.I] {
			return nf
		}
		return okv("%d", len(u.Objs[op.I].Content))
	case "obj.get":
		o := u.Objs[op.I]
		if !m.Objs[op.I] || (plumbing.ObjectType(op.T) != plumbing.AnyObject && plumbing.ObjectType(op.T) != o.Type) {
			return nf
		}
		return okv("%s:%d:%s:%s", o.Type, len(o.Content), o.Hash, short(o.Content))
	case "obj.iter":
		var lines []string
		for i := range m.Objs {
			o := u.Objs[i]
			if plumbing.ObjectType(op.T) == plumbing.AnyObject || plumbing.ObjectType(op.T) == o.Type {
				lines = append(lines, fmt.Sprintf("%s/%s", o.Hash, o.Type))
			}
		}
		return listRes(lines)
	case "ref.set":
		m.Refs.Set(*op.Val)
		return Res{Kind: "ok"}
	case "ref.cas":
		switch m.Refs.casHash(*op.Old) {
		case CASAbsent:
			return nf
		case CASMismatch:
			return Res{Kind: "changed"}
		}
		m.Refs.Set(*op.Val)
		return Res{Kind: "ok"}
	case "ref.get":
		r, ok := m.Refs[op.Name]
		if !ok {
			return nf
		}
		return okv("%s", r.String())
	case "ref.rm":
		m.Refs.Remove(op.Name)
		return Res{Kind: "ok"}
	case "ref.iter":
		var lines []string
		for _, r := range m.Refs {
			lines = append(lines, r.Name+" "+r.Val())
		}
		return listRes(lines)
	case "ref.pack":
		return Res{Kind: "ok"}
	case "idx.set":
		m.Index = op.I
		return Res{Kind: "ok"}
	case "idx.get":
		if m.Index < 0 {
			return okv("v2")
		}
		return okv("%s", normIndex(u.IndexVariant(m.Index)))
	case "cfg.set":
		m.cfg = append(m.cfg, op.I)
		m.Config = op.I
		return Res{Kind: "ok"}
	case "cfg.get":
		return okv("%s", normConfig(m.configValue(u, m.cfg)))
	case "sh.set":
		m.Shallow = append([]int(nil), op.List...)
		return Res{Kind: "ok"}
	case "sh.get":
		var l []string
		for _, k := range m.Shallow {
			l = append(l, u.CommitHash(k))
		}
		return okv("%s", strings.Join(l, ","))
	case "rl.append":
		m.Reflog[op.Name] = append(m.Reflog[op.Name], op.I)
		return Res{Kind: "ok"}
	case "rl.del":
		delete(m.Reflog, op.Name)
		return Res{Kind: "ok"}
	case "rl.get":
		var es []*reflog.Entry
		for _, k := range m.Reflog[op.Name] {
			es = append(es, u.ReflogVariant(k))
		}
		return okv("%s", normReflog(es))
	case "idx.getmut":
		return m.Exec(u, Op{K: "idx.get"})
	case "idx.setmut", "idx.ext":
		m.Index = op.I
		if op.K == "idx.ext" {
			return Res{Kind: "ok"}
		}
		return m.Exec(u, Op{K: "idx.get"})
	case "cfg.getmut":
		return m.Exec(u, Op{K: "cfg.get"})
	case "cfg.setmut":
		m.cfg = append(m.cfg, op.I)
		m.Config = op.I
		return m.Exec(u, Op{K: "cfg.get"})
	case "sh.getmut":
		return m.Exec(u, Op{K: "sh.get"})
	case "sh.setmut":
		m.Shallow = append([]int(nil), op.List...)
		return m.Exec(u, Op{K: "sh.get"})
	case "rl.getmut":
		return m.Exec(u, Op{K: "rl.get", Name: op.Name})
	case "rl.appendmut":
		m.Reflog[op.Name] = append(m.Reflog[op.Name], op.I)
		return m.Exec(u, Op{K: "rl.get", Name: op.Name})
	case "reopen":
		return Res{Kind: "ok"}
	case "mod.ref.set", "mod.ref.get", "mod.obj.set", "mod.obj.has":
		sub := m.Mods[op.Name]
		if sub == nil {
			sub = NewRepo(u)
			m.Mods[op.Name] = sub
		}
		o := op
		o.K = strings.TrimPrefix(op.K, "mod.")
		o.Name = ""
		if op.Val != nil {
			o.Name = op.Val.Name
		}
		if o.K == "ref.get" {
			o.Name = "refs/heads/main"
		}
		return sub.Exec(u, o)
	}
	return Res{Kind: "other", Detail: "model: unknown op " + op.K}
}

// casHash is the conditional-set rule of the storer contract as both backends
// implement it for hash references: old matches when the stored value has the
// same hash (a symbolic stored value never matches a hash old).
func (m RefMap) casHash(old Ref) CASOutcome { return m.CAS(old) }

// ReadOps lists every read of the universe (used to observe a whole storer).
func ReadOps(u *Universe, kinds map[string]bool) []Op {
	var ops []Op
	add := func(o Op) {
		if kinds == nil || kinds[strings.SplitN(o.K, ".", 2)[0]] {
			ops = append(ops, o)
		}
	}
	for i := range u.Objs {
		add(Op{K: "obj.has", I: i})
		add(Op{K: "obj.size", I: i})
		add(Op{K: "obj.get", I: i, T: int(plumbing.AnyObject)})
	}
	for _, t := range []plumbing.ObjectType{plumbing.AnyObject, plumbing.CommitObject, plumbing.TreeObject, plumbing.BlobObject, plumbing.TagObject} {
		add(Op{K: "obj.iter", T: int(t)})
	}
	for _, n := range u.RefNames {
		add(Op{K: "ref.get", Name: n})
	}
	add(Op{K: "ref.iter"})
	add(Op{K: "idx.get"})
	add(Op{K: "cfg.get"})
	add(Op{K: "sh.get"})
	for _, n := range u.Reflogs {
		add(Op{K: "rl.get", Name: n})
	}
	return ops
}

// ---------------------------------------------------------------------------
// op generator shared by the storage checks

// GenOpts selects the op classes a check wants.
type GenOpts struct {
	Subsystems   []string // of obj ref idx cfg sh rl mod
	Pack         bool     // obj.pack
	Raw          bool     // obj.raw
	PackRefs     bool     // ref.pack
	CasAbsent    bool     // conditional set on a name that does not exist
	SymHEAD      bool     // HEAD may be symbolic
	ShallowEmpty bool     // SetShallow(nil) after a non-empty list
	WriteBias    int      // percentage of writes among generated ops (default 50)
	Alias        int      // percentage of index/config/shallow/reflog ops turned into aliasing probes (get/set, edit the value, get again)
	Reopen       bool     // "reopen" (new storage instance on the same files) and "idx.ext" (index rewritten through a second instance)
}

// GenOp draws one op; m is the current expected state (used to aim conditional sets, reads of present/absent items).
func GenOp(r *rand.Rand, u *Universe, m *Repo, g GenOpts) Op {
	wb := g.WriteBias
	if wb == 0 {
		wb = 50
	}
	for {
		sub := g.Subsystems[r.Intn(len(g.Subsystems))]
		write := r.Intn(100) < wb
		switch sub {
		case "obj":
			i := r.Intn(len(u.Objs))
			if write {
				x := r.Intn(10)
				switch {
				case x < 2 && g.Raw:
					return Op{K: "obj.raw", I: i}
				case x < 4 && g.Pack:
					n := 1 + r.Intn(4)
					seen := map[int]bool{}
					var l []int
					for len(l) < n {
						k := r.Intn(len(u.Objs))
						if !seen[k] {
							seen[k] = true
							l = append(l, k)
						}
					}
					return Op{K: "obj.pack", List: l}
				}
				return Op{K: "obj.set", I: i}
			}
			types := []plumbing.ObjectType{plumbing.AnyObject, plumbing.CommitObject, plumbing.TreeObject, plumbing.BlobObject, plumbing.TagObject}
			switch r.Intn(5) {
			case 0:
				return Op{K: "obj.has", I: i}
			case 1:
				return Op{K: "obj.size", I: i}
			case 2:
				t := plumbing.AnyObject
				switch r.Intn(3) {
				case 0:
					t = u.Objs[i].Type
				case 1:
					t = types[1+r.Intn(4)]
				}
				return Op{K: "obj.get", I: i, T: int(t)}
			default:
				return Op{K: "obj.iter", T: int(types[r.Intn(len(types))])}
			}
		case "ref":
			name := u.RefNames[r.Intn(len(u.RefNames))]
			val := func() *Ref {
				if name == "HEAD" && g.SymHEAD && r.Intn(3) != 0 {
					return &Ref{Name: name, Sym: true, Target: []string{"refs/heads/main", "refs/heads/dev"}[r.Intn(2)]}
				}
				return &Ref{Name: name, Hash: u.CommitHash(r.Intn(8))}
			}
			if write {
				x := r.Intn(100)
				switch {
				case x < 40:
					return Op{K: "ref.set", Val: val()}
				case x < 70:
					cur, ok := m.Refs[name]
					y := r.Intn(100)
					switch {
					case ok && !cur.Sym && y < 55:
						old := cur
						return Op{K: "ref.cas", Val: val(), Old: &old}
					case ok:
						h := u.CommitHash(r.Intn(8))
						if !cur.Sym && h == cur.Hash {
							continue
						}
						return Op{K: "ref.cas", Val: val(), Old: &Ref{Name: name, Hash: h}}
					case g.CasAbsent:
						return Op{K: "ref.cas", Val: val(), Old: &Ref{Name: name, Hash: u.CommitHash(r.Intn(8))}}
					}
					continue
				case x < 90:
					return Op{K: "ref.rm", Name: name}
				default:
					if g.PackRefs {
						return Op{K: "ref.pack"}
					}
					continue
				}
			}
			if r.Intn(2) == 0 {
				return Op{K: "ref.iter"}
			}
			return Op{K: "ref.get", Name: name}
		case "idx":
			probe := r.Intn(100) < g.Alias
			if g.Reopen {
				switch x := r.Intn(10); {
				case x == 0:
					return Op{K: "reopen"}
				case x == 1:
					// a rewrite that changes the file size (same-size same-mtime rewrites are not detectable by stat)
					k := r.Intn(5)
					if m.Index >= 0 && k != m.Index && len(u.IndexVariant(k).Entries) == len(u.IndexVariant(m.Index).Entries) {
						k = m.Index
					}
					return Op{K: "idx.ext", I: k}
				}
			}
			if write {
				if probe {
					return Op{K: "idx.setmut", I: r.Intn(5)}
				}
				return Op{K: "idx.set", I: r.Intn(5)}
			}
			if probe {
				return Op{K: "idx.getmut"}
			}
			return Op{K: "idx.get"}
		case "cfg":
			probe := r.Intn(100) < g.Alias
			if write {
				if probe {
					return Op{K: "cfg.setmut", I: r.Intn(5)}
				}
				return Op{K: "cfg.set", I: r.Intn(5)}
			}
			if probe {
				return Op{K: "cfg.getmut"}
			}
			return Op{K: "cfg.get"}
		case "sh":
			if write {
				n := r.Intn(4)
				if n == 0 && !(g.ShallowEmpty || len(m.Shallow) == 0) {
					n = 1
				}
				var l []int
				for j := 0; j < n; j++ {
					l = append(l, r.Intn(len(u.Commits)))
				}
				if r.Intn(100) < g.Alias {
					return Op{K: "sh.setmut", List: l}
				}
				return Op{K: "sh.set", List: l}
			}
			if r.Intn(100) < g.Alias {
				return Op{K: "sh.getmut"}
			}
			return Op{K: "sh.get"}
		case "rl":
			name := u.Reflogs[r.Intn(len(u.Reflogs))]
			if write {
				if r.Intn(4) == 0 {
					return Op{K: "rl.del", Name: name}
				}
				if r.Intn(100) < g.Alias {
					return Op{K: "rl.appendmut", Name: name, I: r.Intn(6)}
				}
				return Op{K: "rl.append", Name: name, I: r.Intn(6)}
			}
			if r.Intn(100) < g.Alias {
				return Op{K: "rl.getmut", Name: name}
			}
			return Op{K: "rl.get", Name: name}
		case "mod":
			name := u.Modules[r.Intn(len(u.Modules))]
			if write {
				if r.Intn(2) == 0 {
					return Op{K: "mod.obj.set", Name: name, I: r.Intn(len(u.Objs))}
				}
				return Op{K: "mod.ref.set", Name: name, Val: &Ref{Name: "refs/heads/main", Hash: u.CommitHash(r.Intn(8))}}
			}
			if r.Intn(2) == 0 {
				return Op{K: "mod.obj.has", Name: name, I: r.Intn(len(u.Objs))}
			}
			return Op{K: "mod.ref.get", Name: name}
		}
	}
}

// IsWrite tells whether the op changes state.
func (o Op) IsWrite() bool {
	switch o.K {
	case "obj.set", "obj.raw", "obj.pack", "ref.set", "ref.cas", "ref.rm", "ref.pack", "idx.set", "cfg.set", "sh.set", "rl.append", "rl.del", "mod.ref.set", "mod.obj.set",
		"idx.setmut", "idx.ext", "cfg.setmut", "sh.setmut", "rl.appendmut":
		return true
	}
	return false
}
