// Package refmodel holds the small sequential models used as oracles by the
// storage checks (C15, C17, C19): a name->value reference map and an abstract
// repository (objects, refs, index, config, shallow, reflog).
package refmodel

import (
	"sort"
	"strings"
)

// Ref is the value of one reference: either a hash or a symbolic target.
type Ref struct {
	Name   string `json:"name"`
	Sym    bool   `json:"sym,omitempty"`
	Target string `json:"target,omitempty"` // when Sym
	Hash   string `json:"hash,omitempty"`   // hex, when !Sym
}

// Val renders the value the way a loose ref file holds it.
func (r Ref) Val() string {
	if r.Sym {
		return "ref: " + r.Target
	}
	return r.Hash
}

func (r Ref) String() string { return r.Name + "=" + r.Val() }

// RefMap is the whole model of a reference store: a plain map.
type RefMap map[string]Ref

func (m RefMap) Clone() RefMap {
	o := make(RefMap, len(m))
	for k, v := range m {
		o[k] = v
	}
	return o
}

func (m RefMap) Set(r Ref) { m[r.Name] = r }

func (m RefMap) Remove(name string) { delete(m, name) }

func (m RefMap) Get(name string) (Ref, bool) { r, ok := m[name]; return r, ok }

// CASOutcome classifies a conditional set against the current value.
type CASOutcome int

const (
	CASAbsent   CASOutcome = iota // no current value: a conditional set with an old value cannot match
	CASMatch                      // current value equals old
	CASMismatch                   // current value differs from old
)

func (o CASOutcome) String() string { return [...]string{"absent", "match", "mismatch"}[o] }

// CAS reports how old compares with the current value of old.Name.
func (m RefMap) CAS(old Ref) CASOutcome {
	cur, ok := m[old.Name]
	if !ok {
		return CASAbsent
	}
	if cur.Sym != old.Sym {
		return CASMismatch
	}
	if cur.Sym {
		if cur.Target == old.Target {
			return CASMatch
		}
		return CASMismatch
	}
	if cur.Hash == old.Hash {
		return CASMatch
	}
	return CASMismatch
}

// DFConflict reports whether name is a directory prefix of an existing name or
// has an existing name as a directory prefix (git refuses to create such refs).
func (m RefMap) DFConflict(name string) bool {
	for k := range m {
		if k == name {
			continue
		}
		if strings.HasPrefix(k, name+"/") || strings.HasPrefix(name, k+"/") {
			return true
		}
	}
	return false
}

// Resolve follows symbolic refs (up to 5 levels, like git) to a hash.
func (m RefMap) Resolve(name string) (string, bool) {
	for i := 0; i < 6; i++ {
		r, ok := m[name]
		if !ok {
			return "", false
		}
		if !r.Sym {
			return r.Hash, true
		}
		name = r.Target
	}
	return "", false
}

// Names returns the sorted names.
func (m RefMap) Names() []string {
	out := make([]string, 0, len(m))
	for k := range m {
		out = append(out, k)
	}
	sort.Strings(out)
	return out
}

// Lines renders the map as sorted "name value" lines.
func (m RefMap) Lines() []string {
	out := make([]string, 0, len(m))
	for _, k := range m.Names() {
		out = append(out, k+" "+m[k].Val())
	}
	return out
}
