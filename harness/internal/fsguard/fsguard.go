// Package fsguard observes the filesystem footprint of an operation from the
// outside: before/after digests of directory trees and inotify watches on
// sentinel directories (sees reads as well as writes).
package fsguard

import (
	"crypto/sha256"
	"encoding/hex"
	"fmt"
	"io"
	"os"
	"path/filepath"
	"sort"
	"strings"
	"sync"
	"unsafe"

	"golang.org/x/sys/unix"
)

// Entry describes one path in a snapshot.
type Entry struct {
	Mode   os.FileMode
	Size   int64
	Sum    string // sha256 of content, or link target
	MTime  int64
}

// Snapshot maps relative paths to entries.
type Snapshot map[string]Entry

// Snap walks root (not following symlinks). skip(rel) true => subtree ignored.
// withMTime includes modification times in the comparison.
func Snap(root string, skip func(rel string) bool) Snapshot {
	s := Snapshot{}
	filepath.Walk(root, func(p string, info os.FileInfo, err error) error {
		if err != nil {
			return nil
		}
		rel, _ := filepath.Rel(root, p)
		if rel == "." {
			return nil
		}
		if skip != nil && skip(rel) {
			if info.IsDir() {
				return filepath.SkipDir
			}
			return nil
		}
		e := Entry{Mode: info.Mode(), Size: info.Size(), MTime: info.ModTime().UnixNano()}
		switch {
		case info.Mode()&os.ModeSymlink != 0:
			t, _ := os.Readlink(p)
			e.Sum = "-> " + t
		case info.Mode().IsRegular():
			if f, err := os.Open(p); err == nil {
				h := sha256.New()
				io.Copy(h, f)
				f.Close()
				e.Sum = hex.EncodeToString(h.Sum(nil))
			} else {
				e.Sum = "unreadable"
			}
		case info.IsDir():
			e.Size = 0
		}
		s[rel] = e
		return nil
	})
	return s
}

// Diff lists differences between two snapshots (mtime compared only if withMTime).
func Diff(a, b Snapshot, withMTime bool) []string {
	var out []string
	for p, ea := range a {
		eb, ok := b[p]
		if !ok {
			out = append(out, "removed "+p)
			continue
		}
		if ea.Mode != eb.Mode {
			out = append(out, fmt.Sprintf("mode %s %v->%v", p, ea.Mode, eb.Mode))
		} else if ea.Sum != eb.Sum || ea.Size != eb.Size {
			out = append(out, "content "+p)
		} else if withMTime && ea.MTime != eb.MTime && !ea.Mode.IsDir() {
			out = append(out, "mtime "+p)
		}
	}
	for p := range b {
		if _, ok := a[p]; !ok {
			out = append(out, "created "+p)
		}
	}
	sort.Strings(out)
	return out
}

// Watcher collects inotify events on a set of directories (non-recursive per
// added directory; AddTree adds every directory below a root).
type Watcher struct {
	fd     int
	mu     sync.Mutex
	wds    map[int32]string
	events []string
	done   chan struct{}
	stopped bool
}

const mask = unix.IN_OPEN | unix.IN_ACCESS | unix.IN_MODIFY | unix.IN_CREATE | unix.IN_DELETE | unix.IN_ATTRIB |
	unix.IN_MOVED_FROM | unix.IN_MOVED_TO | unix.IN_DELETE_SELF | unix.IN_MOVE_SELF | unix.IN_CLOSE_WRITE

// NewWatcher starts a watcher.
func NewWatcher() (*Watcher, error) {
	fd, err := unix.InotifyInit1(unix.IN_CLOEXEC | unix.IN_NONBLOCK)
	if err != nil {
		return nil, err
	}
	w := &Watcher{fd: fd, wds: map[int32]string{}, done: make(chan struct{})}
	return w, nil
}

// Add watches one directory or file.
func (w *Watcher) Add(p string) error {
	wd, err := unix.InotifyAddWatch(w.fd, p, mask|unix.IN_DONT_FOLLOW)
	if err != nil {
		return err
	}
	w.mu.Lock()
	w.wds[int32(wd)] = p
	w.mu.Unlock()
	return nil
}

// AddTree watches every directory under root.
func (w *Watcher) AddTree(root string) error {
	return filepath.Walk(root, func(p string, info os.FileInfo, err error) error {
		if err != nil {
			return nil
		}
		if info.IsDir() {
			return w.Add(p)
		}
		return nil
	})
}

// Drain reads all pending events (call after the operation, from the same goroutine).
func (w *Watcher) Drain() []string {
	buf := make([]byte, 64*1024)
	for {
		n, err := unix.Read(w.fd, buf)
		if n <= 0 || err != nil {
			break
		}
		off := 0
		for off+unix.SizeofInotifyEvent <= n {
			ev := (*unix.InotifyEvent)(unsafe.Pointer(&buf[off]))
			name := ""
			if ev.Len > 0 {
				nb := buf[off+unix.SizeofInotifyEvent : off+unix.SizeofInotifyEvent+int(ev.Len)]
				name = strings.TrimRight(string(nb), "\x00")
			}
			w.mu.Lock()
			dir := w.wds[ev.Wd]
			w.mu.Unlock()
			if ev.Mask&unix.IN_IGNORED == 0 {
				w.events = append(w.events, fmt.Sprintf("%s %s", maskName(ev.Mask), filepath.Join(dir, name)))
			}
			off += unix.SizeofInotifyEvent + int(ev.Len)
		}
	}
	out := w.events
	w.events = nil
	return out
}

// Close releases the inotify descriptor.
func (w *Watcher) Close() { unix.Close(w.fd) }

func maskName(m uint32) string {
	var s []string
	for _, x := range []struct {
		b uint32
		n string
	}{{unix.IN_OPEN, "OPEN"}, {unix.IN_ACCESS, "ACCESS"}, {unix.IN_MODIFY, "MODIFY"}, {unix.IN_CREATE, "CREATE"}, {unix.IN_DELETE, "DELETE"},
		{unix.IN_ATTRIB, "ATTRIB"}, {unix.IN_MOVED_FROM, "MOVED_FROM"}, {unix.IN_MOVED_TO, "MOVED_TO"}, {unix.IN_DELETE_SELF, "DELETE_SELF"},
		{unix.IN_MOVE_SELF, "MOVE_SELF"}, {unix.IN_CLOSE_WRITE, "CLOSE_WRITE"}} {
		if m&x.b != 0 {
			s = append(s, x.n)
		}
	}
	if m&unix.IN_ISDIR != 0 {
		s = append(s, "ISDIR")
	}
	return strings.Join(s, "|")
}
