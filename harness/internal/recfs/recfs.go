// Package recfs wraps a billy.Filesystem to record, perturb, fault and
// crash-freeze every filesystem operation go-git performs.
//
// One *Rec is shared by the root wrapper, every Chroot derived from it and
// every file opened through them. Paths in the log are relative to the root
// wrapper.
package recfs

import (
	"errors"
	"fmt"
	"io/fs"
	"os"
	"path"
	"strings"
	"sync"
	"sync/atomic"
	"syscall"
	"time"

	"github.com/go-git/go-billy/v6"
)

// Op is one recorded filesystem call.
type Op struct {
	Seq    int    `json:"seq"`
	Kind   string `json:"kind"`
	Path   string `json:"path"`
	Path2  string `json:"path2,omitempty"`
	Flag   int    `json:"flag,omitempty"`
	N      int    `json:"n,omitempty"`   // bytes read/written
	Off    int64  `json:"off,omitempty"` // offset for *At
	File   int    `json:"file,omitempty"`
	Mut    bool   `json:"mut,omitempty"` // mutating
	MutIdx int    `json:"mutidx,omitempty"`
	Err    string `json:"err,omitempty"`
	Inj    bool   `json:"injected,omitempty"`
}

func (o Op) String() string {
	s := fmt.Sprintf("#%d %s %s", o.Seq, o.Kind, o.Path)
	if o.Path2 != "" {
		s += " -> " + o.Path2
	}
	if o.Err != "" {
		s += " ERR=" + o.Err
	}
	return s
}

// Crash is the panic value used to stop an operation at a crash point.
type Crash struct{ At int }

// ErrFrozen is returned by every mutating call after a crash point.
var ErrFrozen = errors.New("recfs: frozen (simulated process stop)")

// Rec is the shared recorder / injector state.
type Rec struct {
	mu      sync.Mutex
	ops     []Op
	nmut    int
	nfault  int
	nextFID int32
	frozen  atomic.Bool

	// Record enables the op log (cheap counters are always kept).
	Record bool
	// Hook, if set, is called before every operation (outside the lock): schedule perturbation.
	Hook func(kind, p string)
	// CrashAt >= 0: the CrashAt-th mutating op (0-based) is not applied; the wrapper
	// freezes and panics with Crash{}. Torn: if that op is a write, half of it is applied first.
	CrashAt int
	Torn    bool
	// FaultAt >= 0: the FaultAt-th op matching FaultMatch fails with FaultErr (once).
	FaultAt    int
	FaultMatch func(kind, p string) bool
	FaultErr   error
	// Faulted reports whether the fault fired.
	Faulted atomic.Bool
	// UseAfterClose counts reads/writes on a file handle after its Close.
	UseAfterClose atomic.Int64
	// OnUseAfterClose, if set, is called (with the path) when that happens.
	OnUseAfterClose func(path string)
	// OpenFiles tracks currently open handles (id -> path).
	openFiles map[int]string
	maxOpen   int
}

// New returns a recorder with no injection.
func New() *Rec {
	return &Rec{CrashAt: -1, FaultAt: -1, FaultErr: syscall.EIO, openFiles: map[int]string{}}
}

// Ops returns a copy of the log.
func (r *Rec) Ops() []Op {
	r.mu.Lock()
	defer r.mu.Unlock()
	return append([]Op(nil), r.ops...)
}

// Mutations returns the number of mutating ops seen so far.
func (r *Rec) Mutations() int {
	r.mu.Lock()
	defer r.mu.Unlock()
	return r.nmut
}

// FaultCandidates returns how many ops matched FaultMatch so far.
func (r *Rec) FaultCandidates() int {
	r.mu.Lock()
	defer r.mu.Unlock()
	return r.nfault
}

func (r *Rec) Frozen() bool { return r.frozen.Load() }

// OpenCount returns the number of currently open file handles and the maximum seen.
func (r *Rec) OpenCount() (cur, max int) {
	r.mu.Lock()
	defer r.mu.Unlock()
	return len(r.openFiles), r.maxOpen
}

// OpenPaths lists the paths of currently open handles.
func (r *Rec) OpenPaths() []string {
	r.mu.Lock()
	defer r.mu.Unlock()
	var out []string
	for _, p := range r.openFiles {
		out = append(out, p)
	}
	return out
}

// Reset clears the log and counters (not the injection settings).
func (r *Rec) Reset() {
	r.mu.Lock()
	r.ops, r.nmut, r.nfault = nil, 0, 0
	r.mu.Unlock()
	r.frozen.Store(false)
	r.Faulted.Store(false)
}

// before is called before applying an op. It returns (injectedErr, tornHalf).
// It may panic with Crash.
func (r *Rec) before(kind, p, p2 string, mut bool, isWrite bool) (opIdx int, inj error, torn bool) {
	if h := r.Hook; h != nil {
		h(kind, p)
	}
	r.mu.Lock()
	defer r.mu.Unlock()
	if mut && r.frozen.Load() {
		return -1, ErrFrozen, false
	}
	seq := len(r.ops)
	op := Op{Seq: seq, Kind: kind, Path: p, Path2: p2, Mut: mut}
	if mut {
		op.MutIdx = r.nmut
		if r.CrashAt >= 0 && r.nmut == r.CrashAt {
			r.frozen.Store(true)
			if r.Torn && isWrite {
				op.Err = "TORN+CRASH"
				if r.Record {
					r.ops = append(r.ops, op)
				}
				r.nmut++
				return seq, nil, true
			}
			op.Err = "CRASH"
			if r.Record {
				r.ops = append(r.ops, op)
			}
			panic(Crash{At: r.nmut})
		}
		r.nmut++
	}
	if r.FaultMatch != nil && r.FaultMatch(kind, p) {
		i := r.nfault
		r.nfault++
		if r.FaultAt >= 0 && i == r.FaultAt && !r.Faulted.Load() {
			r.Faulted.Store(true)
			op.Err, op.Inj = r.FaultErr.Error(), true
			if r.Record {
				r.ops = append(r.ops, op)
			}
			return seq, &fs.PathError{Op: kind, Path: p, Err: r.FaultErr}, false
		}
	}
	if r.Record {
		r.ops = append(r.ops, op)
		return seq, nil, false
	}
	return -1, nil, false
}

func (r *Rec) after(idx int, err error, n int) {
	if idx < 0 || !r.Record {
		return
	}
	r.mu.Lock()
	if idx < len(r.ops) {
		if err != nil {
			r.ops[idx].Err = err.Error()
		}
		r.ops[idx].N = n
	}
	r.mu.Unlock()
}

// FS is the wrapping filesystem.
type FS struct {
	under  billy.Filesystem
	rec    *Rec
	prefix string
}

// Wrap wraps fs with recorder rec.
func Wrap(under billy.Filesystem, rec *Rec) *FS { return &FS{under: under, rec: rec} }

func (f *FS) Rec() *Rec                    { return f.rec }
func (f *FS) Underlying() billy.Filesystem { return f.under }

func (f *FS) rel(p string) string {
	if f.prefix == "" {
		return path.Clean("/" + p)[1:]
	}
	return path.Join(f.prefix, path.Clean("/"+p))
}

func isWriteFlag(flag int) bool {
	return flag&(os.O_WRONLY|os.O_RDWR|os.O_APPEND|os.O_CREATE|os.O_TRUNC) != 0
}

func (f *FS) wrapFile(bf billy.File, p string, idx int) billy.File {
	id := int(atomic.AddInt32(&f.rec.nextFID, 1))
	f.rec.mu.Lock()
	f.rec.openFiles[id] = p
	if len(f.rec.openFiles) > f.rec.maxOpen {
		f.rec.maxOpen = len(f.rec.openFiles)
	}
	if idx >= 0 && idx < len(f.rec.ops) {
		f.rec.ops[idx].File = id
	}
	f.rec.mu.Unlock()
	return &File{File: bf, rec: f.rec, path: p, id: id}
}

func (f *FS) Create(filename string) (billy.File, error) {
	p := f.rel(filename)
	idx, inj, _ := f.rec.before("create", p, "", true, false)
	if inj != nil {
		return nil, inj
	}
	bf, err := f.under.Create(filename)
	f.rec.after(idx, err, 0)
	if err != nil {
		return nil, err
	}
	return f.wrapFile(bf, p, idx), nil
}

func (f *FS) Open(filename string) (billy.File, error) {
	p := f.rel(filename)
	idx, inj, _ := f.rec.before("open", p, "", false, false)
	if inj != nil {
		return nil, inj
	}
	bf, err := f.under.Open(filename)
	f.rec.after(idx, err, 0)
	if err != nil {
		return nil, err
	}
	return f.wrapFile(bf, p, idx), nil
}

func (f *FS) OpenFile(filename string, flag int, perm fs.FileMode) (billy.File, error) {
	p := f.rel(filename)
	mut := flag&(os.O_CREATE|os.O_TRUNC) != 0
	kind := "openfile"
	if isWriteFlag(flag) {
		kind = "openfile-w"
	}
	idx, inj, _ := f.rec.before(kind, p, "", mut, false)
	if inj != nil {
		return nil, inj
	}
	bf, err := f.under.OpenFile(filename, flag, perm)
	f.rec.after(idx, err, 0)
	if idx >= 0 {
		f.rec.mu.Lock()
		if idx < len(f.rec.ops) {
			f.rec.ops[idx].Flag = flag
		}
		f.rec.mu.Unlock()
	}
	if err != nil {
		return nil, err
	}
	return f.wrapFile(bf, p, idx), nil
}

func (f *FS) Stat(filename string) (fs.FileInfo, error) {
	p := f.rel(filename)
	idx, inj, _ := f.rec.before("stat", p, "", false, false)
	if inj != nil {
		return nil, inj
	}
	fi, err := f.under.Stat(filename)
	f.rec.after(idx, err, 0)
	return fi, err
}

func (f *FS) Lstat(filename string) (fs.FileInfo, error) {
	p := f.rel(filename)
	idx, inj, _ := f.rec.before("lstat", p, "", false, false)
	if inj != nil {
		return nil, inj
	}
	fi, err := f.under.Lstat(filename)
	f.rec.after(idx, err, 0)
	return fi, err
}

func (f *FS) Rename(oldpath, newpath string) error {
	p, p2 := f.rel(oldpath), f.rel(newpath)
	idx, inj, _ := f.rec.before("rename", p, p2, true, false)
	if inj != nil {
		return inj
	}
	err := f.under.Rename(oldpath, newpath)
	f.rec.after(idx, err, 0)
	return err
}

func (f *FS) Remove(filename string) error {
	p := f.rel(filename)
	idx, inj, _ := f.rec.before("remove", p, "", true, false)
	if inj != nil {
		return inj
	}
	err := f.under.Remove(filename)
	f.rec.after(idx, err, 0)
	return err
}

func (f *FS) Join(elem ...string) string { return f.under.Join(elem...) }

func (f *FS) TempFile(dir, prefix string) (billy.File, error) {
	p := f.rel(path.Join(dir, prefix+"*"))
	idx, inj, _ := f.rec.before("tempfile", p, "", true, false)
	if inj != nil {
		return nil, inj
	}
	bf, err := f.under.TempFile(dir, prefix)
	f.rec.after(idx, err, 0)
	if err != nil {
		return nil, err
	}
	name := bf.Name()
	// bf.Name() may be absolute or relative to the underlying root; keep what go-git sees
	rp := name
	if root := f.under.Root(); root != "" && strings.HasPrefix(name, root) {
		rp = strings.TrimPrefix(strings.TrimPrefix(name, root), "/")
	}
	rp = f.rel(rp)
	if idx >= 0 {
		f.rec.mu.Lock()
		if idx < len(f.rec.ops) {
			f.rec.ops[idx].Path2 = rp
		}
		f.rec.mu.Unlock()
	}
	return f.wrapFile(bf, rp, idx), nil
}

func (f *FS) ReadDir(p0 string) ([]fs.DirEntry, error) {
	p := f.rel(p0)
	idx, inj, _ := f.rec.before("readdir", p, "", false, false)
	if inj != nil {
		return nil, inj
	}
	es, err := f.under.ReadDir(p0)
	f.rec.after(idx, err, len(es))
	return es, err
}

func (f *FS) MkdirAll(filename string, perm fs.FileMode) error {
	p := f.rel(filename)
	idx, inj, _ := f.rec.before("mkdirall", p, "", true, false)
	if inj != nil {
		return inj
	}
	err := f.under.MkdirAll(filename, perm)
	f.rec.after(idx, err, 0)
	return err
}

func (f *FS) Symlink(target, link string) error {
	p := f.rel(link)
	idx, inj, _ := f.rec.before("symlink", p, target, true, false)
	if inj != nil {
		return inj
	}
	err := f.under.Symlink(target, link)
	f.rec.after(idx, err, 0)
	return err
}

func (f *FS) Readlink(link string) (string, error) {
	p := f.rel(link)
	idx, inj, _ := f.rec.before("readlink", p, "", false, false)
	if inj != nil {
		return "", inj
	}
	s, err := f.under.Readlink(link)
	f.rec.after(idx, err, 0)
	return s, err
}

func (f *FS) Chroot(p0 string) (billy.Filesystem, error) {
	u, err := f.under.Chroot(p0)
	if err != nil {
		return nil, err
	}
	return &FS{under: u, rec: f.rec, prefix: f.rel(p0)}, nil
}

func (f *FS) Root() string { return f.under.Root() }

func (f *FS) Capabilities() billy.Capability { return billy.Capabilities(f.under) }

// billy.Change
func (f *FS) Chmod(name string, mode fs.FileMode) error {
	ch, ok := f.under.(billy.Chmod)
	if !ok {
		return billy.ErrNotSupported
	}
	p := f.rel(name)
	idx, inj, _ := f.rec.before("chmod", p, "", true, false)
	if inj != nil {
		return inj
	}
	err := ch.Chmod(name, mode)
	f.rec.after(idx, err, 0)
	return err
}

func (f *FS) Chtimes(name string, atime, mtime time.Time) error {
	ch, ok := f.under.(billy.Change)
	if !ok {
		return billy.ErrNotSupported
	}
	p := f.rel(name)
	idx, inj, _ := f.rec.before("chtimes", p, "", true, false)
	if inj != nil {
		return inj
	}
	err := ch.Chtimes(name, atime, mtime)
	f.rec.after(idx, err, 0)
	return err
}

func (f *FS) Lchown(name string, uid, gid int) error {
	ch, ok := f.under.(billy.Change)
	if !ok {
		return billy.ErrNotSupported
	}
	return ch.Lchown(name, uid, gid)
}

func (f *FS) Chown(name string, uid, gid int) error {
	ch, ok := f.under.(billy.Change)
	if !ok {
		return billy.ErrNotSupported
	}
	return ch.Chown(name, uid, gid)
}

// File wraps a billy.File.
type File struct {
	billy.File
	rec    *Rec
	path   string
	id     int
	closed atomic.Bool
}

func (f *File) ID() int { return f.id }

func (f *File) checkClosed() {
	if f.closed.Load() {
		f.rec.UseAfterClose.Add(1)
		if cb := f.rec.OnUseAfterClose; cb != nil {
			cb(f.path)
		}
	}
}

func (f *File) Write(p []byte) (int, error) {
	f.checkClosed()
	idx, inj, torn := f.rec.before("write", f.path, "", true, true)
	if inj != nil {
		return 0, inj
	}
	if torn {
		f.File.Write(p[:len(p)/2])
		panic(Crash{At: -1})
	}
	n, err := f.File.Write(p)
	f.rec.after(idx, err, n)
	return n, err
}

func (f *File) WriteAt(p []byte, off int64) (int, error) {
	f.checkClosed()
	idx, inj, torn := f.rec.before("writeat", f.path, "", true, true)
	if inj != nil {
		return 0, inj
	}
	if torn {
		f.File.WriteAt(p[:len(p)/2], off)
		panic(Crash{At: -1})
	}
	n, err := f.File.WriteAt(p, off)
	f.rec.after(idx, err, n)
	return n, err
}

func (f *File) Read(p []byte) (int, error) {
	f.checkClosed()
	idx, inj, _ := f.rec.before("read", f.path, "", false, false)
	if inj != nil {
		return 0, inj
	}
	n, err := f.File.Read(p)
	f.rec.after(idx, nil, n)
	return n, err
}

func (f *File) ReadAt(p []byte, off int64) (int, error) {
	f.checkClosed()
	idx, inj, _ := f.rec.before("readat", f.path, "", false, false)
	if inj != nil {
		return 0, inj
	}
	n, err := f.File.ReadAt(p, off)
	f.rec.after(idx, nil, n)
	return n, err
}

func (f *File) Truncate(size int64) error {
	f.checkClosed()
	idx, inj, _ := f.rec.before("truncate", f.path, "", true, false)
	if inj != nil {
		return inj
	}
	err := f.File.Truncate(size)
	f.rec.after(idx, err, int(size))
	return err
}

func (f *File) Close() error {
	idx, inj, _ := f.rec.before("close", f.path, "", false, false)
	first := f.closed.CompareAndSwap(false, true)
	f.rec.mu.Lock()
	delete(f.rec.openFiles, f.id)
	if idx >= 0 && idx < len(f.rec.ops) {
		f.rec.ops[idx].File = f.id
	}
	f.rec.mu.Unlock()
	err := f.File.Close()
	if inj != nil && first {
		return inj
	}
	f.rec.after(idx, err, 0)
	return err
}

func (f *File) Lock() error {
	if l, ok := f.File.(billy.Locker); ok {
		idx, inj, _ := f.rec.before("lock", f.path, "", false, false)
		if inj != nil {
			return inj
		}
		err := l.Lock()
		f.rec.after(idx, err, 0)
		return err
	}
	return nil
}

func (f *File) Unlock() error {
	if l, ok := f.File.(billy.Locker); ok {
		idx, _, _ := f.rec.before("unlock", f.path, "", false, false)
		err := l.Unlock()
		f.rec.after(idx, err, 0)
		return err
	}
	return nil
}

func (f *File) Sync() error {
	if s, ok := f.File.(billy.Syncer); ok {
		idx, inj, _ := f.rec.before("sync", f.path, "", false, false)
		if inj != nil {
			return inj
		}
		err := s.Sync()
		f.rec.after(idx, err, 0)
		return err
	}
	return nil
}

// RunCrash runs fn and reports whether it was stopped by a crash point of rec.
// Once the crash point has fired (rec is frozen) any further panic raised while
// the stack unwinds (deferred clean-up running on half-written state) belongs
// to the simulated process stop as well.
func RunCrash(rec *Rec, fn func()) (crashed bool) {
	defer func() {
		if r := recover(); r != nil {
			if _, ok := r.(Crash); ok || rec.Frozen() {
				crashed = true
				return
			}
			panic(r)
		}
	}()
	fn()
	return rec.Frozen()
}
