// Package packlab holds helpers shared by the pack / object-read checks
// (C07, C08, C09, C11): seed repositories built by git, ground truth taken
// from git cat-file, an independent object hasher, a minimal pack walker and
// pack builder (independent of go-git's packfile package).
package packlab

import (
	"bufio"
	"bytes"
	"crypto/sha1"
	"crypto/sha256"
	"encoding/hex"
	"fmt"
	"hash"
	"io"
	"math/rand"
	"os"
	"path/filepath"
	"sort"
	"strconv"
	"strings"

	"github.com/go-git/go-git/v6/plumbing"
	formatcfg "github.com/go-git/go-git/v6/plumbing/format/config"
	"github.com/go-git/go-git/v6/plumbing/storer"

	"verif/internal/gen"
	"verif/internal/gitx"
)

// Obj is one git object as reported by git (ground truth) or by go-git.
type Obj struct {
	Type string
	Data []byte
}

// ObjMap maps hex object id -> object.
type ObjMap map[string]Obj

// IDs returns the sorted ids.
func (m ObjMap) IDs() []string {
	ids := make([]string, 0, len(m))
	for k := range m {
		ids = append(ids, k)
	}
	sort.Strings(ids)
	return ids
}

// GoFormat maps "sha1"/"sha256" to go-git's ObjectFormat.
func GoFormat(f string) formatcfg.ObjectFormat {
	if f == "sha256" {
		return formatcfg.SHA256
	}
	return formatcfg.SHA1
}

// HashSize returns the raw hash size of a format name.
func HashSize(f string) int {
	if f == "sha256" {
		return 32
	}
	return 20
}

// NewHash returns a fresh hash.Hash of the format (standard library, not go-git's).
func NewHash(f string) hash.Hash {
	if f == "sha256" {
		return sha256.New()
	}
	return sha1.New()
}

// HashObj computes the object id independently of go-git: H("<type> <size>\0" + data).
func HashObj(format, typ string, data []byte) string {
	h := NewHash(format)
	fmt.Fprintf(h, "%s %d\x00", typ, len(data))
	h.Write(data)
	return hex.EncodeToString(h.Sum(nil))
}

// ParseBatch parses `git cat-file --batch` output.
func ParseBatch(out []byte) (ObjMap, error) {
	m := ObjMap{}
	for len(out) > 0 {
		nl := bytes.IndexByte(out, '\n')
		if nl < 0 {
			return nil, fmt.Errorf("cat-file --batch: no newline in header %q", out)
		}
		f := strings.Fields(string(out[:nl]))
		if len(f) != 3 {
			return nil, fmt.Errorf("cat-file --batch: bad header %q", out[:nl])
		}
		sz, err := strconv.Atoi(f[2])
		if err != nil {
			return nil, err
		}
		out = out[nl+1:]
		if len(out) < sz+1 {
			return nil, fmt.Errorf("cat-file --batch: short content for %s", f[0])
		}
		m[f[0]] = Obj{Type: f[1], Data: append([]byte{}, out[:sz]...)}
		out = out[sz+1:]
	}
	return m, nil
}

// CatFileAll returns every object git can see in the repository (loose, packed, alternates).
func CatFileAll(g *gitx.Git, dir string) (ObjMap, error) {
	r := g.Run(dir, "cat-file", "--batch-all-objects", "--batch")
	if !r.OK() {
		return nil, fmt.Errorf("cat-file --batch-all-objects: %s", r)
	}
	return ParseBatch(r.Out)
}

// CatFile returns the named objects.
func CatFile(g *gitx.Git, dir string, ids []string) (ObjMap, error) {
	r := g.RunIn(dir, []byte(strings.Join(ids, "\n")+"\n"), "cat-file", "--batch")
	if !r.OK() {
		return nil, fmt.Errorf("cat-file --batch: %s", r)
	}
	return ParseBatch(r.Out)
}

// ReadObj reads one go-git object fully.
func ReadObj(o plumbing.EncodedObject) (Obj, error) {
	rd, err := o.Reader()
	if err != nil {
		return Obj{}, err
	}
	defer rd.Close()
	b, err := io.ReadAll(rd)
	if err != nil {
		return Obj{}, err
	}
	return Obj{Type: o.Type().String(), Data: b}, nil
}

// StorerObjects returns every object a go-git storer yields through IterEncodedObjects(AnyObject).
// The key is the hash the storer reports (o.Hash()).
func StorerObjects(s storer.EncodedObjectStorer) (ObjMap, error) {
	it, err := s.IterEncodedObjects(plumbing.AnyObject)
	if err != nil {
		return nil, err
	}
	defer it.Close()
	m := ObjMap{}
	for {
		o, err := it.Next()
		if err == io.EOF {
			break
		}
		if err != nil {
			return nil, err
		}
		ob, err := ReadObj(o)
		if err != nil {
			return nil, fmt.Errorf("read %s: %w", o.Hash(), err)
		}
		if int64(len(ob.Data)) != o.Size() {
			return nil, fmt.Errorf("object %s: Size()=%d but reader gave %d bytes", o.Hash(), o.Size(), len(ob.Data))
		}
		m[o.Hash().String()] = ob
	}
	return m, nil
}

// Diff describes the first difference between want (git) and got (go-git); "" if equal.
func Diff(want, got ObjMap) string {
	for _, id := range want.IDs() {
		g, ok := got[id]
		if !ok {
			return "missing:" + id
		}
		w := want[id]
		if g.Type != w.Type {
			return fmt.Sprintf("type:%s want %s got %s", id, w.Type, g.Type)
		}
		if !bytes.Equal(g.Data, w.Data) {
			return fmt.Sprintf("content:%s (%s, want %d bytes got %d)", id, w.Type, len(w.Data), len(g.Data))
		}
	}
	for _, id := range got.IDs() {
		if _, ok := want[id]; !ok {
			return "extra:" + id
		}
	}
	return ""
}

// DiffClass reduces a Diff string to its clause ("missing", "type", "content", "extra").
func DiffClass(d string) string {
	if i := strings.IndexByte(d, ':'); i > 0 {
		return d[:i]
	}
	return d
}

// ---------------------------------------------------------------------------
// Seed repositories

// SeedOpts tunes the generated history.
type SeedOpts struct {
	Format    string // sha1 | sha256
	Commits   int
	Files     int
	BigLines  int  // initial number of lines of the evolving "delta-friendly" files
	Huge      int  // size in bytes of a huge blob (0 = none); two near-identical versions are committed
	EmptyTree bool // one commit with an empty tree
	ATags     int
	Bare      bool
}

// Repo is a seed repository built by git.
type Repo struct {
	Dir     string // worktree or bare dir
	GitDir  string
	Format  string
	Commits []string // commit ids by index
	Hist    *gen.History
}

func lines(r *rand.Rand, n int) []byte {
	var b bytes.Buffer
	for i := 0; i < n; i++ {
		fmt.Fprintf(&b, "line %04d %08x %s\n", i, r.Uint32(), strings.Repeat("x", r.Intn(30)))
	}
	return b.Bytes()
}

func editLines(r *rand.Rand, in []byte) []byte {
	ls := bytes.SplitAfter(in, []byte("\n"))
	switch r.Intn(4) {
	case 0: // append
		return append(append([]byte{}, in...), lines(r, 1+r.Intn(3))...)
	case 1: // change a line in the middle
		if len(ls) > 2 {
			i := r.Intn(len(ls) - 1)
			ls[i] = []byte(fmt.Sprintf("changed %08x\n", r.Uint32()))
		}
	case 2: // delete a line
		if len(ls) > 3 {
			i := r.Intn(len(ls) - 1)
			ls = append(ls[:i:i], ls[i+1:]...)
		}
	default: // insert
		i := r.Intn(len(ls))
		ls = append(ls[:i:i], append([][]byte{[]byte(fmt.Sprintf("inserted %08x\n", r.Uint32()))}, ls[i:]...)...)
	}
	return bytes.Join(ls, nil)
}

// HugeBlob makes an n-byte blob that is moderately compressible.
func HugeBlob(r *rand.Rand, n int) []byte {
	b := make([]byte, n)
	blk := make([]byte, 4096)
	for i := 0; i < n; i += len(blk) {
		if i%(16*4096) == 0 {
			r.Read(blk)
		} else {
			blk[r.Intn(len(blk))] = byte(r.Intn(256))
		}
		copy(b[i:], blk)
	}
	return b
}

// Seed builds a repository with a generated history whose blobs delta well.
func Seed(g *gitx.Git, dir string, r *rand.Rand, o SeedOpts) (*Repo, error) {
	if o.Commits < 1 {
		o.Commits = 1
	}
	h := gen.RandomHistory(r, gen.HistOpts{N: o.Commits, MergeProb: 0.2, Octopus: true, Files: max(o.Files, 1),
		Path: gen.PathOpts{Depth: 3, Symlinks: true, Exec: true}, Branches: 2})
	// evolving files: every commit derives them from its first parent
	evo := []string{"evo/log.txt", "evo/notes.md"}
	for i := range h.Commits {
		c := &h.Commits[i]
		for k, p := range evo {
			if k == 1 && o.BigLines == 0 {
				continue
			}
			var cur []byte
			if len(c.Parents) > 0 {
				cur = h.Commits[c.Parents[0]].Tree[p].Content
			}
			if cur == nil {
				cur = lines(r, max(o.BigLines, 5)*(k+1))
			} else if r.Intn(5) > 0 {
				cur = editLines(r, cur)
			}
			c.Tree[p] = gen.File{Mode: "100644", Content: cur}
		}
		// a few near-identical small siblings (delta candidates within one tree)
		if i%3 == 0 {
			base := lines(r, 12)
			for k := 0; k < 3; k++ {
				c.Tree[fmt.Sprintf("sib/s%d_%d", i, k)] = gen.File{Mode: "100644", Content: editLines(r, base)}
			}
		}
	}
	if o.Huge > 0 {
		hb := HugeBlob(r, o.Huge)
		at := r.Intn(len(h.Commits))
		for i := at; i < len(h.Commits); i++ {
			if i > at && i == len(h.Commits)-1 {
				hb2 := append([]byte{}, hb...)
				copy(hb2[len(hb2)/2:], []byte("EDITED-IN-THE-MIDDLE"))
				hb = hb2
			}
			h.Commits[i].Tree["huge.bin"] = gen.File{Mode: "100644", Content: hb}
		}
	}
	if o.EmptyTree && len(h.Commits) > 2 {
		h.Commits[1+r.Intn(len(h.Commits)-2)].Tree = gen.Tree{}
	}
	for i := 0; i < o.ATags; i++ {
		h.ATags[fmt.Sprintf("v%d", i)] = r.Intn(len(h.Commits))
	}
	if err := g.Init(dir, o.Bare, o.Format); err != nil {
		return nil, err
	}
	ids, err := g.Import(dir, h)
	if err != nil {
		return nil, err
	}
	gd := filepath.Join(dir, ".git")
	if o.Bare {
		gd = dir
	}
	// fast-import leaves one pack; make the layout explicit for callers
	return &Repo{Dir: dir, GitDir: gd, Format: o.Format, Commits: ids, Hist: h}, nil
}

// PackFiles lists objects/pack/*.pack of a git dir (sorted).
func PackFiles(gitDir string) []string {
	m, _ := filepath.Glob(filepath.Join(gitDir, "objects", "pack", "*.pack"))
	sort.Strings(m)
	return m
}

// ---------------------------------------------------------------------------
// Minimal pack walker / builder (independent of go-git)

// Entry is one pack entry located by WalkPack.
type Entry struct {
	Off     int    // offset of the type/size header
	DataOff int    // offset of the zlib stream
	End     int    // first byte after the zlib stream
	Type    int    // 1..4, 6 (ofs), 7 (ref)
	Size    uint64 // declared inflated size
	BaseOff int    // absolute base offset for ofs-delta
	OfsLen  int    // number of bytes of the ofs varint
	BaseRef []byte // base id for ref-delta
	Data    []byte // inflated payload
}

type countingReader struct {
	b   []byte
	pos int
}

func (c *countingReader) Read(p []byte) (int, error) {
	if c.pos >= len(c.b) {
		return 0, io.EOF
	}
	// one byte at a time so that flate never reads ahead
	p[0] = c.b[c.pos]
	c.pos++
	return 1, nil
}

func (c *countingReader) ReadByte() (byte, error) {
	if c.pos >= len(c.b) {
		return 0, io.EOF
	}
	b := c.b[c.pos]
	c.pos++
	return b, nil
}

// WalkPack parses a well-formed pack into entries.
func WalkPack(pack []byte, hashSize int) ([]Entry, error) {
	if len(pack) < 12+hashSize || string(pack[:4]) != "PACK" {
		return nil, fmt.Errorf("not a pack")
	}
	n := int(uint32(pack[8])<<24 | uint32(pack[9])<<16 | uint32(pack[10])<<8 | uint32(pack[11]))
	pos := 12
	var es []Entry
	for i := 0; i < n; i++ {
		e := Entry{Off: pos}
		b := pack[pos]
		pos++
		e.Type = int(b>>4) & 7
		e.Size = uint64(b & 15)
		shift := uint(4)
		for b&0x80 != 0 {
			b = pack[pos]
			pos++
			e.Size |= uint64(b&0x7f) << shift
			shift += 7
		}
		switch e.Type {
		case 6:
			st := pos
			b = pack[pos]
			pos++
			v := int(b & 0x7f)
			for b&0x80 != 0 {
				b = pack[pos]
				pos++
				v = ((v + 1) << 7) | int(b&0x7f)
			}
			e.BaseOff = e.Off - v
			e.OfsLen = pos - st
		case 7:
			e.BaseRef = append([]byte{}, pack[pos:pos+hashSize]...)
			pos += hashSize
		}
		e.DataOff = pos
		cr := &countingReader{b: pack, pos: pos}
		zr, err := zlibNewReader(cr)
		if err != nil {
			return nil, fmt.Errorf("entry %d at %d: %w", i, e.Off, err)
		}
		e.Data, err = io.ReadAll(zr)
		if err != nil {
			return nil, fmt.Errorf("entry %d at %d: %w", i, e.Off, err)
		}
		pos = cr.pos
		e.End = pos
		es = append(es, e)
	}
	if pos != len(pack)-hashSize {
		return nil, fmt.Errorf("pack walk ended at %d, trailer expected at %d", pos, len(pack)-hashSize)
	}
	return es, nil
}

// RawEntry is an entry to be serialised by BuildPack.
type RawEntry struct {
	Type    int
	Size    uint64 // declared size (may lie)
	OfsBack int    // for type 6: distance back to the base, encoded verbatim
	BaseRef []byte // for type 7
	Payload []byte // bytes to deflate (or Raw if set)
	Raw     []byte // pre-compressed stream, used verbatim when non-nil
	Level   int    // zlib level (0 = default)
}

// EncodeEntryHeader encodes the type/size header.
func EncodeEntryHeader(typ int, size uint64) []byte {
	c := byte(typ<<4) | byte(size&15)
	size >>= 4
	var out []byte
	for size != 0 {
		out = append(out, c|0x80)
		c = byte(size & 0x7f)
		size >>= 7
	}
	return append(out, c)
}

// EncodeOfs encodes an ofs-delta distance.
func EncodeOfs(v int) []byte {
	buf := []byte{byte(v & 0x7f)}
	v >>= 7
	for v > 0 {
		v--
		buf = append([]byte{byte(v&0x7f) | 0x80}, buf...)
		v >>= 7
	}
	return buf
}

// BuildPack serialises entries and returns the pack and the offsets of the entries.
// count overrides the header object count when >= 0.
func BuildPack(entries []RawEntry, format string, count int) ([]byte, []int) {
	var b bytes.Buffer
	n := len(entries)
	if count >= 0 {
		n = count
	}
	b.WriteString("PACK")
	b.Write([]byte{0, 0, 0, 2, byte(n >> 24), byte(n >> 16), byte(n >> 8), byte(n)})
	offs := make([]int, len(entries))
	for i, e := range entries {
		offs[i] = b.Len()
		b.Write(EncodeEntryHeader(e.Type, e.Size))
		switch e.Type {
		case 6:
			b.Write(EncodeOfs(e.OfsBack))
		case 7:
			b.Write(e.BaseRef)
		}
		if e.Raw != nil {
			b.Write(e.Raw)
		} else {
			b.Write(Deflate(e.Payload, e.Level))
		}
	}
	return Retrailer(append(b.Bytes(), make([]byte, HashSize(format))...), format), offs
}

// Retrailer recomputes the trailing checksum in place (on a copy).
func Retrailer(pack []byte, format string) []byte {
	hs := HashSize(format)
	out := append([]byte{}, pack...)
	h := NewHash(format)
	h.Write(out[:len(out)-hs])
	copy(out[len(out)-hs:], h.Sum(nil))
	return out
}

// SetCount rewrites the object count in the header (on a copy, trailer untouched).
func SetCount(pack []byte, n uint32) []byte {
	out := append([]byte{}, pack...)
	out[8], out[9], out[10], out[11] = byte(n>>24), byte(n>>16), byte(n>>8), byte(n)
	return out
}

// DeltaInsertOnly builds a delta (base size, target) made only of insert instructions.
func DeltaInsertOnly(baseSize int, target []byte) []byte {
	var b bytes.Buffer
	b.Write(deltaVarint(uint64(baseSize)))
	b.Write(deltaVarint(uint64(len(target))))
	for len(target) > 0 {
		n := min(len(target), 127)
		b.WriteByte(byte(n))
		b.Write(target[:n])
		target = target[n:]
	}
	return b.Bytes()
}

// DeltaCopyAll builds a delta that copies the whole base (size>0, < 64KiB*..) and appends tail.
func DeltaCopyAll(baseSize int, tail []byte) []byte {
	var b bytes.Buffer
	b.Write(deltaVarint(uint64(baseSize)))
	b.Write(deltaVarint(uint64(baseSize + len(tail))))
	off := 0
	for off < baseSize {
		n := min(baseSize-off, 0xffff)
		// copy: offset (up to 4 bytes) + size (2 bytes)
		cmd := byte(0x80)
		var args []byte
		for k := 0; k < 4; k++ {
			if by := byte(off >> (8 * k)); by != 0 {
				cmd |= 1 << k
				args = append(args, by)
			}
		}
		for k := 0; k < 2; k++ {
			if by := byte(n >> (8 * k)); by != 0 {
				cmd |= 0x10 << k
				args = append(args, by)
			}
		}
		b.WriteByte(cmd)
		b.Write(args)
		off += n
	}
	for len(tail) > 0 {
		n := min(len(tail), 127)
		b.WriteByte(byte(n))
		b.Write(tail[:n])
		tail = tail[n:]
	}
	return b.Bytes()
}

func deltaVarint(v uint64) []byte {
	var out []byte
	for {
		c := byte(v & 0x7f)
		v >>= 7
		if v != 0 {
			out = append(out, c|0x80)
		} else {
			return append(out, c)
		}
	}
}

// ReadFile is os.ReadFile that panics on error (scratch files written a moment ago).
func ReadFile(p string) []byte {
	b, err := os.ReadFile(p)
	if err != nil {
		panic(err)
	}
	return b
}

// NonSeekable hides Seek/ReadAt of a reader.
type NonSeekable struct{ R io.Reader }

func (n NonSeekable) Read(p []byte) (int, error) { return n.R.Read(p) }

// SmallReads returns a reader that delivers data in small irregular chunks;
// the first chunk has exactly `first` bytes (if the caller's buffer allows).
func SmallReads(b []byte, r *rand.Rand, first int) io.Reader {
	return &chunkReader{br: bufio.NewReader(bytes.NewReader(b)), r: r, first: first}
}

type chunkReader struct {
	br    *bufio.Reader
	r     *rand.Rand
	first int
}

func (c *chunkReader) Read(p []byte) (int, error) {
	n := 1 + c.r.Intn(97)
	if c.first > 0 {
		n = c.first
		c.first = 0
	}
	if n > len(p) {
		n = len(p)
	}
	return c.br.Read(p[:n])
}

// IdxEntry is one entry of a v2 pack index.
type IdxEntry struct {
	ID     string
	CRC    uint32
	Offset int64
}

// ParseIdxV2 is a minimal, independent reader of git's pack index v2 (sorted by id).
func ParseIdxV2(idx []byte, hashSize int) ([]IdxEntry, error) {
	if len(idx) < 8+1024+2*hashSize || !bytes.Equal(idx[:8], []byte{0xff, 't', 'O', 'c', 0, 0, 0, 2}) {
		return nil, fmt.Errorf("not an idx v2")
	}
	be32 := func(b []byte) uint32 { return uint32(b[0])<<24 | uint32(b[1])<<16 | uint32(b[2])<<8 | uint32(b[3]) }
	n := int(be32(idx[8+255*4:]))
	names := 8 + 1024
	crcs := names + n*hashSize
	off32 := crcs + n*4
	off64 := off32 + n*4
	if off64+2*hashSize > len(idx) {
		return nil, fmt.Errorf("idx too short for %d entries", n)
	}
	es := make([]IdxEntry, n)
	for i := 0; i < n; i++ {
		es[i].ID = hex.EncodeToString(idx[names+i*hashSize : names+(i+1)*hashSize])
		es[i].CRC = be32(idx[crcs+i*4:])
		o := be32(idx[off32+i*4:])
		if o&0x80000000 != 0 {
			k := int(o &^ 0x80000000)
			p := off64 + k*8
			if p+8 > len(idx)-2*hashSize {
				return nil, fmt.Errorf("bad 64-bit offset index")
			}
			es[i].Offset = int64(uint64(be32(idx[p:]))<<32 | uint64(be32(idx[p+4:])))
		} else {
			es[i].Offset = int64(o)
		}
	}
	return es, nil
}

// MakeBare lays out an empty bare repository without running git (cheap under load).
func MakeBare(dir, format string) error {
	for _, d := range []string{"objects/info", "objects/pack", "refs/heads", "refs/tags"} {
		if err := os.MkdirAll(filepath.Join(dir, d), 0o755); err != nil {
			return err
		}
	}
	cfg := "[core]\n\trepositoryformatversion = 0\n\tfilemode = true\n\tbare = true\n"
	if format == "sha256" {
		cfg = "[core]\n\trepositoryformatversion = 1\n\tfilemode = true\n\tbare = true\n[extensions]\n\tobjectformat = sha256\n"
	}
	if err := os.WriteFile(filepath.Join(dir, "config"), []byte(cfg), 0o644); err != nil {
		return err
	}
	return os.WriteFile(filepath.Join(dir, "HEAD"), []byte("ref: refs/heads/master\n"), 0o644)
}

// ApplyDelta is an independent, strict git delta applier (40 lines, no go-git code).
func ApplyDelta(base, delta []byte) ([]byte, error) {
	pos := 0
	varint := func() (uint64, error) {
		var v uint64
		var sh uint
		for {
			if pos >= len(delta) {
				return 0, fmt.Errorf("delta: truncated size")
			}
			c := delta[pos]
			pos++
			v |= uint64(c&0x7f) << sh
			sh += 7
			if c&0x80 == 0 {
				return v, nil
			}
		}
	}
	bs, err := varint()
	if err != nil {
		return nil, err
	}
	if bs != uint64(len(base)) {
		return nil, fmt.Errorf("delta: base size %d, base has %d bytes", bs, len(base))
	}
	ts, err := varint()
	if err != nil {
		return nil, err
	}
	out := make([]byte, 0, ts)
	for pos < len(delta) {
		cmd := delta[pos]
		pos++
		switch {
		case cmd&0x80 != 0:
			var off, sz uint64
			for k := uint(0); k < 4; k++ {
				if cmd&(1<<k) != 0 {
					if pos >= len(delta) {
						return nil, fmt.Errorf("delta: truncated copy")
					}
					off |= uint64(delta[pos]) << (8 * k)
					pos++
				}
			}
			for k := uint(0); k < 3; k++ {
				if cmd&(0x10<<k) != 0 {
					if pos >= len(delta) {
						return nil, fmt.Errorf("delta: truncated copy")
					}
					sz |= uint64(delta[pos]) << (8 * k)
					pos++
				}
			}
			if sz == 0 {
				sz = 0x10000
			}
			if off+sz > uint64(len(base)) {
				return nil, fmt.Errorf("delta: copy out of bounds")
			}
			out = append(out, base[off:off+sz]...)
		case cmd != 0:
			if pos+int(cmd) > len(delta) {
				return nil, fmt.Errorf("delta: truncated insert")
			}
			out = append(out, delta[pos:pos+int(cmd)]...)
			pos += int(cmd)
		default:
			return nil, fmt.Errorf("delta: opcode 0")
		}
	}
	if uint64(len(out)) != ts {
		return nil, fmt.Errorf("delta: produced %d bytes, header says %d", len(out), ts)
	}
	return out, nil
}

// DeltaStats summarises the copy instructions of one git delta.
type DeltaStats struct {
	Copies       int
	MaxOffset    uint64 // largest base offset a copy starts at
	MaxOffsetLen int    // most offset bytes carried by a copy opcode (1..4)
	MaxCopySize  uint64
	Size64KiBOps int // copies of exactly 0x10000 bytes (encoded with no size byte)
	WellFormed   bool
}

// DeltaCopyStats walks the instructions of a delta (independent of go-git).
func DeltaCopyStats(d []byte) DeltaStats {
	var st DeltaStats
	pos := 0
	for k := 0; k < 2; k++ { // base size, target size
		for {
			if pos >= len(d) {
				return st
			}
			c := d[pos]
			pos++
			if c&0x80 == 0 {
				break
			}
		}
	}
	for pos < len(d) {
		cmd := d[pos]
		pos++
		switch {
		case cmd&0x80 != 0:
			var off, sz uint64
			n := 0
			for k := uint(0); k < 4; k++ {
				if cmd&(1<<k) != 0 {
					if pos >= len(d) {
						return st
					}
					off |= uint64(d[pos]) << (8 * k)
					pos++
					n = int(k) + 1
				}
			}
			for k := uint(0); k < 3; k++ {
				if cmd&(0x10<<k) != 0 {
					if pos >= len(d) {
						return st
					}
					sz |= uint64(d[pos]) << (8 * k)
					pos++
				}
			}
			if sz == 0 {
				sz = 0x10000
				st.Size64KiBOps++
			}
			st.Copies++
			st.MaxOffset = max(st.MaxOffset, off)
			st.MaxOffsetLen = max(st.MaxOffsetLen, n)
			st.MaxCopySize = max(st.MaxCopySize, sz)
		case cmd != 0:
			pos += int(cmd)
		default:
			return st
		}
	}
	st.WellFormed = pos == len(d)
	return st
}

// PackDeltaStats folds DeltaCopyStats over every delta entry of a pack.
func PackDeltaStats(pack []byte, hashSize int) (DeltaStats, error) {
	es, err := WalkPack(pack, hashSize)
	if err != nil {
		return DeltaStats{}, err
	}
	var all DeltaStats
	for _, e := range es {
		if e.Type < 6 {
			continue
		}
		s := DeltaCopyStats(e.Data)
		all.Copies += s.Copies
		all.Size64KiBOps += s.Size64KiBOps
		all.MaxOffset = max(all.MaxOffset, s.MaxOffset)
		all.MaxOffsetLen = max(all.MaxOffsetLen, s.MaxOffsetLen)
		all.MaxCopySize = max(all.MaxCopySize, s.MaxCopySize)
	}
	return all, nil
}

// BigPair builds a repository holding two blobs of about 17 MiB that differ in 16 bytes
// at offset 16.5 MiB (highly compressible content: 64-byte records with a counter), repacked so
// that git stores one of them as a delta of the other: its copy instructions start at base
// offsets >= 2^24 and therefore carry the fourth offset byte. Deltified reports whether git
// really stored a delta with a 4-byte copy offset.
type BigPair struct {
	*Repo
	Blob1, Blob2 string
	Deltified    bool
	Stats        DeltaStats
}

// BigBlob returns the two versions.
func BigBlob(tag byte) (v1, v2 []byte) {
	const n = 17 << 20
	v1 = make([]byte, 0, n+64)
	rec := []byte("record x 000000000000 .........................................\n")
	rec[7] = tag
	for i := 0; len(v1) < n; i++ {
		x := i * 7919
		for k := 20; k >= 9; k-- {
			rec[k] = byte('0' + x%10)
			x /= 10
		}
		v1 = append(v1, rec...)
	}
	v1 = v1[:n]
	v2 = append([]byte{}, v1...)
	copy(v2[16<<20+512<<10:], "SIXTEEN-BYTES-!!") // 16 bytes at 16.5 MiB
	return v1, v2
}

// NewBigPair builds the repository (non-bare) at dir.
func NewBigPair(g *gitx.Git, dir, format string) (*BigPair, error) {
	v1, v2 := BigBlob('a')
	if err := g.Init(dir, false, format); err != nil {
		return nil, err
	}
	// plain plumbing (hash-object / mktree / commit-tree): fast-import would spend many seconds
	// deltifying the second 17 MiB blob against the first
	out := func(stdin []byte, args ...string) (string, error) {
		res := g.RunIn(dir, stdin, args...)
		if !res.OK() {
			return "", fmt.Errorf("git %v: %s", args, res)
		}
		return strings.TrimSpace(string(res.Out)), nil
	}
	var ids []string
	parent := ""
	for k, v := range [][]byte{v1, v2} {
		blob, err := out(v, "hash-object", "-w", "--stdin")
		if err != nil {
			return nil, err
		}
		readme, err := out([]byte("big pair\n"), "hash-object", "-w", "--stdin")
		if err != nil {
			return nil, err
		}
		tree, err := out([]byte(fmt.Sprintf("100644 blob %s\tbig.bin\n100644 blob %s\treadme\n", blob, readme)), "mktree")
		if err != nil {
			return nil, err
		}
		args := []string{"commit-tree", tree, "-m", fmt.Sprintf("v%d", k+1)}
		if parent != "" {
			args = append(args, "-p", parent)
		}
		if parent, err = out(nil, args...); err != nil {
			return nil, err
		}
		ids = append(ids, parent)
	}
	if _, err := out(nil, "update-ref", "refs/heads/master", parent); err != nil {
		return nil, err
	}
	if res := g.Run(dir, "repack", "-a", "-d", "-f", "-q", "--window=10", "--depth=10"); !res.OK() {
		return nil, fmt.Errorf("repack: %s", res)
	}
	bp := &BigPair{Repo: &Repo{Dir: dir, GitDir: filepath.Join(dir, ".git"), Format: format, Commits: ids},
		Blob1: HashObj(format, "blob", v1), Blob2: HashObj(format, "blob", v2)}
	pf := PackFiles(bp.GitDir)
	if len(pf) != 1 {
		return nil, fmt.Errorf("repack left %d packs", len(pf))
	}
	st, err := PackDeltaStats(ReadFile(pf[0]), HashSize(format))
	if err != nil {
		return nil, err
	}
	bp.Stats = st
	// git's own statement that one of the two is a delta of the other
	vp := g.Run(dir, "verify-pack", "-v", strings.TrimSuffix(pf[0], ".pack")+".idx")
	if !vp.OK() {
		return nil, fmt.Errorf("verify-pack: %s", vp)
	}
	for _, ln := range strings.Split(string(vp.Out), "\n") {
		f := strings.Fields(ln)
		if len(f) == 7 && (f[0] == bp.Blob1 && f[6] == bp.Blob2 || f[0] == bp.Blob2 && f[6] == bp.Blob1) {
			bp.Deltified = st.MaxOffsetLen == 4 && st.MaxOffset >= 1<<24
		}
	}
	return bp, nil
}

// DeltaInsertRuns returns the lengths of the maximal runs of consecutive insert instructions of a
// delta (a literal longer than 127 bytes is encoded as several inserts). Parsing stops at the
// reserved opcode 0.
func DeltaInsertRuns(d []byte) (runs []int, sawOpcodeZero bool) {
	pos := 0
	for k := 0; k < 2; k++ {
		for {
			if pos >= len(d) {
				return nil, false
			}
			c := d[pos]
			pos++
			if c&0x80 == 0 {
				break
			}
		}
	}
	cur := 0
	flush := func() {
		if cur > 0 {
			runs = append(runs, cur)
			cur = 0
		}
	}
	for pos < len(d) {
		cmd := d[pos]
		pos++
		switch {
		case cmd&0x80 != 0:
			flush()
			for k := uint(0); k < 7; k++ {
				if cmd&(1<<k) != 0 {
					pos++
				}
			}
		case cmd != 0:
			cur += int(cmd)
			pos += int(cmd)
		default:
			flush()
			return runs, true
		}
	}
	flush()
	return runs, false
}
