package packlab

import (
	"bytes"
	"compress/zlib"
	"io"
)

func zlibNewReader(r io.Reader) (io.ReadCloser, error) { return zlib.NewReader(r) }

// Deflate compresses b with the standard library's zlib.
func Deflate(b []byte, level int) []byte {
	if level == 0 {
		level = zlib.DefaultCompression
	}
	var out bytes.Buffer
	w, _ := zlib.NewWriterLevel(&out, level)
	w.Write(b)
	w.Close()
	return out.Bytes()
}
