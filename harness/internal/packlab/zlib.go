package packlab

import (
	"bytes"
	"compress/zlib"
	"io"
	"sync"
)

func zlibNewReader(r io.Reader) (io.ReadCloser, error) { return zlib.NewReader(r) }

var zwPools sync.Map // level -> *sync.Pool of *zlib.Writer

// Deflate compresses b with the standard library's zlib (writers are pooled per level:
// creating one costs about a megabyte of clearing).
func Deflate(b []byte, level int) []byte {
	if level == 0 {
		level = zlib.DefaultCompression
	}
	pi, _ := zwPools.LoadOrStore(level, &sync.Pool{})
	pool := pi.(*sync.Pool)
	var out bytes.Buffer
	w, _ := pool.Get().(*zlib.Writer)
	if w == nil {
		w, _ = zlib.NewWriterLevel(&out, level)
	} else {
		w.Reset(&out)
	}
	w.Write(b)
	w.Close()
	pool.Put(w)
	return out.Bytes()
}
