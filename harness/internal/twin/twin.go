// Package twin holds helpers shared by the worktree/porcelain checks
// (C25, C27, C28, C31, C32): materialise a generated history in a non-bare
// repository, derive hostile pre-states, copy it into twins, open a copy with
// go-git (plain osfs BoundOS = production path, or recfs-wrapped), and read
// the index through git's eyes.
package twin

import (
	"crypto/sha1"
	"encoding/hex"
	"fmt"
	"math/rand"
	"os"
	"path/filepath"
	"sort"
	"strings"
	"time"

	"github.com/go-git/go-billy/v6/osfs"
	git "github.com/go-git/go-git/v6"
	"github.com/go-git/go-git/v6/plumbing/cache"
	"github.com/go-git/go-git/v6/storage/filesystem"

	"golang.org/x/sys/unix"

	"verif/internal/gen"
	"verif/internal/gitx"
	"verif/internal/recfs"
)

// Base is a generated history materialised in a non-bare repository.
type Base struct {
	Dir      string
	Hist     *gen.History
	IDs      []string // commit ids by commit index
	Branches []string // sorted short branch names
}

// NewBase creates dir (must not exist), imports h and checks out the first branch (forced) so
// that the worktree and index are populated by git itself.
func NewBase(g *gitx.Git, dir string, h *gen.History) (*Base, error) {
	if err := g.Init(dir, false, "sha1"); err != nil {
		return nil, err
	}
	ids, err := g.Import(dir, h)
	if err != nil {
		return nil, err
	}
	b := &Base{Dir: dir, Hist: h, IDs: ids}
	for n := range h.Branches {
		b.Branches = append(b.Branches, n)
	}
	sort.Strings(b.Branches)
	if len(b.Branches) == 0 {
		return nil, fmt.Errorf("history without branches")
	}
	if r := g.Run(dir, "checkout", "-q", "-f", b.Branches[0]); !r.OK() {
		return nil, fmt.Errorf("checkout -f %s: %s", b.Branches[0], r)
	}
	// small imports are exploded into loose objects: pack them and drop the sample hooks so that
	// `cp -a` of the repository stays cheap
	if r := g.Run(dir, "repack", "-a", "-d", "-q"); !r.OK() {
		return nil, fmt.Errorf("repack: %s", r)
	}
	os.RemoveAll(filepath.Join(dir, ".git", "hooks"))
	if err := MakeNonRacy(g, dir); err != nil {
		return nil, err
	}
	return b, nil
}

// Checkout forces the base worktree to a branch using git.
func (b *Base) Checkout(g *gitx.Git, rev string) error {
	if r := g.Run(b.Dir, "checkout", "-q", "-f", rev); !r.OK() {
		return fmt.Errorf("checkout -f %s: %s", rev, r)
	}
	return nil
}

// Handle is a go-git repository opened over a directory.
type Handle struct {
	Repo *git.Repository
	WT   *git.Worktree
	Rec  *recfs.Rec // nil for the plain variant
}

func (h *Handle) Close() {
	if h != nil && h.Repo != nil {
		h.Repo.Close()
	}
}

// Open opens dir with go-git. wrapped=false: git.PlainOpen (osfs BoundOS, the
// production path incl. os.Root reuse). wrapped=true: the same BoundOS
// filesystems wrapped by recfs (disables the os.Root fast path, exercises the
// generic billy path).
func Open(dir string, wrapped bool) (*Handle, error) {
	if !wrapped {
		r, err := git.PlainOpen(dir)
		if err != nil {
			return nil, err
		}
		w, err := r.Worktree()
		if err != nil {
			r.Close()
			return nil, err
		}
		return &Handle{Repo: r, WT: w}, nil
	}
	rec := recfs.New()
	wtfs := recfs.Wrap(osfs.New(dir, osfs.WithBoundOS()), rec)
	dot := osfs.New(filepath.Join(dir, ".git"), osfs.WithBoundOS())
	st := filesystem.NewStorage(dot, cache.NewObjectLRUDefault())
	r, err := git.Open(st, wtfs)
	if err != nil {
		st.Close()
		return nil, err
	}
	w, err := r.Worktree()
	if err != nil {
		r.Close()
		return nil, err
	}
	return &Handle{Repo: r, WT: w, Rec: rec}, nil
}

// TEntry is one line of `git ls-files -s -t`.
type TEntry struct {
	Tag   string // H cached, S skip-worktree, M unmerged, ...
	Mode  string
	ID    string
	Stage string
	Path  string
}

// LsFilesT reads the index of dir with `git ls-files -t -s -z` (no optional locks).
func LsFilesT(g *gitx.Git, dir string) ([]TEntry, error) {
	r := g.Run(dir, "--no-optional-locks", "ls-files", "-t", "-s", "-z")
	if !r.OK() {
		return nil, fmt.Errorf("ls-files -t: %s", r)
	}
	var out []TEntry
	for _, rec := range strings.Split(strings.TrimRight(string(r.Out), "\x00"), "\x00") {
		if rec == "" {
			continue
		}
		tab := strings.IndexByte(rec, '\t')
		if tab < 0 {
			return nil, fmt.Errorf("ls-files -t: bad record %q", rec)
		}
		f := strings.Fields(rec[:tab])
		if len(f) != 4 {
			return nil, fmt.Errorf("ls-files -t: bad record %q", rec)
		}
		out = append(out, TEntry{Tag: f[0], Mode: f[1], ID: f[2], Stage: f[3], Path: rec[tab+1:]})
	}
	return out, nil
}

// TreeEntry is one line of `git ls-tree -r`.
type TreeEntry struct{ Mode, Type, ID, Path string }

// LsTree lists rev's tree recursively.
func LsTree(g *gitx.Git, dir, rev string) ([]TreeEntry, error) {
	r := g.Run(dir, "ls-tree", "-r", "-z", rev)
	if !r.OK() {
		return nil, fmt.Errorf("ls-tree %s: %s", rev, r)
	}
	var out []TreeEntry
	for _, rec := range strings.Split(strings.TrimRight(string(r.Out), "\x00"), "\x00") {
		if rec == "" {
			continue
		}
		tab := strings.IndexByte(rec, '\t')
		f := strings.Fields(rec[:tab])
		if tab < 0 || len(f) != 3 {
			return nil, fmt.Errorf("ls-tree: bad record %q", rec)
		}
		out = append(out, TreeEntry{f[0], f[1], f[2], rec[tab+1:]})
	}
	return out, nil
}

// Dirs returns every directory path (all proper path prefixes) of the tree, sorted.
func Dirs(t gen.Tree) []string {
	m := map[string]bool{}
	for p := range t {
		for i := 0; i < len(p); i++ {
			if p[i] == '/' {
				m[p[:i]] = true
			}
		}
	}
	ds := make([]string, 0, len(m))
	for d := range m {
		ds = append(ds, d)
	}
	sort.Strings(ds)
	return ds
}

// Under reports whether path p lies inside directory d by whole path components (p==d counts).
func Under(p, d string) bool { return p == d || strings.HasPrefix(p, d+"/") }

// PreOp describes one pre-state mutation applied to a worktree (for replay files / shapes).
type PreOp struct {
	Kind string `json:"kind"`
	Path string `json:"path"`
}

// PreOpts selects which kinds of pre-state mutations Dirty may apply.
type PreOpts struct {
	Max int
	// Target is the tree the operation under test will materialise (may be nil): used to plant
	// stale files at paths the target adds and untracked files inside directories the target removes.
	Target gen.Tree
	// NoStaleAtTarget forbids creating untracked files at paths (or below/above paths) of Target.
	NoStaleAtTarget bool
	// NoTypeChange forbids replacing tracked files by directories / symlinks.
	NoTypeChange bool
}

// Dirty applies up to o.Max random pre-state mutations to the worktree at dir whose tracked
// content is cur: edits of tracked files (same size / different size), deletions, chmod, type
// changes, untracked files (top level, inside tracked dirs, inside dirs that Target removes),
// stale files at paths Target adds, empty directories. Racy mtimes: edited files get the mtime
// of the index file (never sleeps). Returns what was done.
func Dirty(r *rand.Rand, dir string, cur gen.Tree, o PreOpts) []PreOp {
	var ops []PreOp
	n := 0
	if o.Max > 0 {
		n = r.Intn(o.Max + 1)
	}
	idxTime := time.Now()
	if fi, err := os.Stat(filepath.Join(dir, ".git", "index")); err == nil {
		idxTime = fi.ModTime()
	}
	paths := cur.Paths()
	exists := func(p string) bool { _, err := os.Lstat(filepath.Join(dir, p)); return err == nil }
	conflictsTarget := func(p string) bool {
		if o.Target == nil {
			return false
		}
		for q := range o.Target {
			if q == p || strings.HasPrefix(q, p+"/") || strings.HasPrefix(p, q+"/") {
				return true
			}
		}
		return false
	}
	untrackedName := func() string { return []string{"untracked.txt", "u", "zz", "A.untracked", "a~"}[r.Intn(5)] }
	for i := 0; i < n; i++ {
		k := r.Intn(12)
		switch {
		case k <= 1 && len(paths) > 0: // edit tracked regular file, size changes
			p := paths[r.Intn(len(paths))]
			f := cur[p]
			if f.Mode == "120000" || f.Mode == "160000" || !exists(p) {
				continue
			}
			full := filepath.Join(dir, p)
			if fi, err := os.Lstat(full); err != nil || !fi.Mode().IsRegular() {
				continue
			}
			os.WriteFile(full, append(append([]byte{}, f.Content...), []byte("dirty\n")...), 0o644)
			os.Chtimes(full, idxTime, idxTime)
			ops = append(ops, PreOp{"edit", p})
		case k == 2 && len(paths) > 0: // same-size edit with racy mtime
			p := paths[r.Intn(len(paths))]
			f := cur[p]
			full := filepath.Join(dir, p)
			fi, err := os.Lstat(full)
			if err != nil || !fi.Mode().IsRegular() || len(f.Content) == 0 || (f.Mode != "100644" && f.Mode != "100755") {
				continue
			}
			nb := append([]byte{}, f.Content...)
			if nb[0] == 'Z' {
				nb[0] = 'Y'
			} else {
				nb[0] = 'Z'
			}
			os.WriteFile(full, nb, fi.Mode().Perm())
			if fi.ModTime().Before(idxTime) {
				// restoring an mtime older than the index would only be detectable through ctime/inode,
				// which no copy preserves: outside what git promises. Use the index's mtime instead.
				os.Chtimes(full, idxTime, idxTime)
				ops = append(ops, PreOp{"edit-samesize", p})
			} else {
				// racily clean entry (mtime >= index mtime, see MakeRacy): keep size AND mtime
				os.Chtimes(full, fi.ModTime(), fi.ModTime())
				ops = append(ops, PreOp{"edit-samesize-racy", p})
			}
		case k == 3 && len(paths) > 0: // delete tracked
			p := paths[r.Intn(len(paths))]
			if !exists(p) {
				continue
			}
			os.RemoveAll(filepath.Join(dir, p))
			ops = append(ops, PreOp{"delete", p})
		case k == 4 && len(paths) > 0: // chmod flip
			p := paths[r.Intn(len(paths))]
			full := filepath.Join(dir, p)
			fi, err := os.Lstat(full)
			if err != nil || !fi.Mode().IsRegular() {
				continue
			}
			os.Chmod(full, fi.Mode().Perm()^0o111)
			ops = append(ops, PreOp{"chmod", p})
		case k == 5 && len(paths) > 0 && !o.NoTypeChange: // tracked file replaced by a directory with an untracked file
			p := paths[r.Intn(len(paths))]
			full := filepath.Join(dir, p)
			if fi, err := os.Lstat(full); err != nil || fi.IsDir() {
				continue
			}
			if o.NoStaleAtTarget && conflictsTarget(p) {
				continue
			}
			os.Remove(full)
			os.MkdirAll(full, 0o755)
			os.WriteFile(filepath.Join(full, "inner"), []byte("inner\n"), 0o644)
			ops = append(ops, PreOp{"file->dir", p})
		case k == 6 && len(paths) > 0 && !o.NoTypeChange: // tracked file replaced by symlink / symlink by file
			p := paths[r.Intn(len(paths))]
			full := filepath.Join(dir, p)
			fi, err := os.Lstat(full)
			if err != nil || fi.IsDir() {
				continue
			}
			os.Remove(full)
			if fi.Mode()&os.ModeSymlink != 0 {
				os.WriteFile(full, []byte("was a link\n"), 0o644)
				ops = append(ops, PreOp{"symlink->file", p})
			} else {
				os.Symlink("elsewhere", full)
				ops = append(ops, PreOp{"file->symlink", p})
			}
		case k == 7: // untracked at top level
			p := untrackedName()
			if exists(p) || (o.NoStaleAtTarget && conflictsTarget(p)) {
				continue
			}
			if _, tracked := cur[p]; tracked {
				continue
			}
			os.WriteFile(filepath.Join(dir, p), []byte("untracked "+p+"\n"), 0o644)
			ops = append(ops, PreOp{"untracked-top", p})
		case k == 8: // untracked inside a tracked directory (prefer one that Target removes)
			ds := Dirs(cur)
			if len(ds) == 0 {
				continue
			}
			var gone []string
			if o.Target != nil {
				td := map[string]bool{}
				for _, d := range Dirs(o.Target) {
					td[d] = true
				}
				for _, d := range ds {
					if !td[d] {
						gone = append(gone, d)
					}
				}
			}
			d := ds[r.Intn(len(ds))]
			if len(gone) > 0 && r.Intn(3) > 0 {
				d = gone[r.Intn(len(gone))]
			}
			p := d + "/" + untrackedName()
			if exists(p) || (o.NoStaleAtTarget && conflictsTarget(p)) {
				continue
			}
			if fi, err := os.Lstat(filepath.Join(dir, d)); err != nil || !fi.IsDir() {
				continue
			}
			if _, tracked := cur[p]; tracked {
				continue
			}
			os.WriteFile(filepath.Join(dir, p), []byte("untracked "+p+"\n"), 0o644)
			ops = append(ops, PreOp{"untracked-in-dir", p})
		case k == 9 && o.Target != nil && !o.NoStaleAtTarget: // stale file at a path the target adds
			var adds []string
			for q := range o.Target {
				if _, ok := cur[q]; !ok && !exists(q) {
					adds = append(adds, q)
				}
			}
			if len(adds) == 0 {
				continue
			}
			sort.Strings(adds)
			p := adds[r.Intn(len(adds))]
			if err := os.MkdirAll(filepath.Dir(filepath.Join(dir, p)), 0o755); err != nil {
				continue
			}
			if err := os.WriteFile(filepath.Join(dir, p), []byte("stale\n"), 0o644); err != nil {
				continue
			}
			ops = append(ops, PreOp{"stale-at-target", p})
		case k == 10: // empty directory
			p := []string{"emptydir", "a/emptydir", "e1/e2"}[r.Intn(3)]
			if exists(p) || (o.NoStaleAtTarget && conflictsTarget(p)) {
				continue
			}
			if err := os.MkdirAll(filepath.Join(dir, p), 0o755); err != nil {
				continue
			}
			ops = append(ops, PreOp{"emptydir", p})
		case k == 11: // untracked in a new directory
			p := []string{"newdir/f", "newdir/sub/g", "a.new/h"}[r.Intn(3)]
			if exists(p) || (o.NoStaleAtTarget && conflictsTarget(p)) {
				continue
			}
			if err := os.MkdirAll(filepath.Dir(filepath.Join(dir, p)), 0o755); err != nil {
				continue
			}
			os.WriteFile(filepath.Join(dir, p), []byte("new "+p+"\n"), 0o644)
			ops = append(ops, PreOp{"untracked-newdir", p})
		}
	}
	return ops
}

// Kinds returns the sorted distinct kinds of a pre-op list joined by '+'.
func Kinds(ops []PreOp) string {
	m := map[string]bool{}
	for _, o := range ops {
		m[o.Kind] = true
	}
	ks := make([]string, 0, len(m))
	for k := range m {
		ks = append(ks, k)
	}
	sort.Strings(ks)
	if len(ks) == 0 {
		return "clean"
	}
	return strings.Join(ks, "+")
}

// ErrClass reduces an error to a short seed-independent class (first words, digits and hashes removed).
func ErrClass(err error) string {
	if err == nil {
		return "nil"
	}
	s := err.Error()
	var b strings.Builder
	words := 0
	for _, w := range strings.Fields(s) {
		if strings.ContainsAny(w, "/\\\"'") || len(w) >= 20 {
			continue
		}
		clean := strings.Map(func(r rune) rune {
			if r >= 'a' && r <= 'z' || r >= 'A' && r <= 'Z' || r == '-' {
				return r
			}
			return -1
		}, w)
		if clean == "" {
			continue
		}
		if b.Len() > 0 {
			b.WriteByte('-')
		}
		b.WriteString(strings.ToLower(clean))
		words++
		if words >= 6 {
			break
		}
	}
	return b.String()
}

// CopyTree copies a directory tree in-process (no `cp` child): regular files with permissions and
// mtimes (ns), symlinks verbatim (with their mtimes), directories with permissions and mtimes.
// Equivalent to gitx.CopyDir for the purposes of these checks (inode/ctime differ in both).
func CopyTree(src, dst string) error {
	type dirTime struct {
		p  string
		fi os.FileInfo
	}
	var dirs []dirTime
	err := filepath.Walk(src, func(p string, fi os.FileInfo, err error) error {
		if err != nil {
			return err
		}
		rel, _ := filepath.Rel(src, p)
		to := filepath.Join(dst, rel)
		switch {
		case fi.IsDir():
			if err := os.MkdirAll(to, 0o755); err != nil {
				return err
			}
			dirs = append(dirs, dirTime{to, fi})
		case fi.Mode()&os.ModeSymlink != 0:
			t, err := os.Readlink(p)
			if err != nil {
				return err
			}
			if err := os.Symlink(t, to); err != nil {
				return err
			}
			ts := []unix.Timespec{unix.NsecToTimespec(fi.ModTime().UnixNano()), unix.NsecToTimespec(fi.ModTime().UnixNano())}
			unix.UtimesNanoAt(unix.AT_FDCWD, to, ts, unix.AT_SYMLINK_NOFOLLOW)
		case fi.Mode().IsRegular():
			b, err := os.ReadFile(p)
			if err != nil {
				return err
			}
			if err := os.WriteFile(to, b, 0o600); err != nil {
				return err
			}
			if err := os.Chmod(to, fi.Mode().Perm()); err != nil {
				return err
			}
			if err := os.Chtimes(to, fi.ModTime(), fi.ModTime()); err != nil {
				return err
			}
		}
		return nil
	})
	if err != nil {
		return fmt.Errorf("copy %s -> %s: %w", src, dst, err)
	}
	for i := len(dirs) - 1; i >= 0; i-- {
		os.Chmod(dirs[i].p, dirs[i].fi.Mode().Perm())
		os.Chtimes(dirs[i].p, dirs[i].fi.ModTime(), dirs[i].fi.ModTime())
	}
	return nil
}

// setWorktreeMTimes sets the mtime of every regular file of the worktree (not .git) to t.
func setWorktreeMTimes(dir string, t time.Time) {
	filepath.Walk(dir, func(p string, fi os.FileInfo, err error) error {
		if err != nil {
			return nil
		}
		if fi.IsDir() && filepath.Base(p) == ".git" && filepath.Dir(p) == dir {
			return filepath.SkipDir
		}
		if fi.Mode().IsRegular() {
			os.Chtimes(p, t, t)
		}
		return nil
	})
}

// MakeRacy turns every tracked regular file of the worktree at dir into a racily-clean index entry:
// file mtime == recorded entry mtime == mtime of the index file == T, where T lies 50 s before the moment
// of the call (no sleeping, no dependence on timestamp ticks: all three are set explicitly). A later
// same-size edit that restores the mtime can then only be noticed by content comparison, and every later
// rewrite of the index is strictly newer than T.
func MakeRacy(g *gitx.Git, dir string) error {
	idx := filepath.Join(dir, ".git", "index")
	fi, err := os.Stat(idx)
	if err != nil {
		return err
	}
	t := fi.ModTime().Truncate(time.Second).Add(-50 * time.Second)
	setWorktreeMTimes(dir, t)
	if r := g.Run(dir, "update-index", "-q", "--really-refresh"); !r.OK() {
		return fmt.Errorf("update-index --really-refresh: %s", r)
	}
	return os.Chtimes(idx, t, t)
}

// MakeNonRacy makes every index entry of the worktree at dir definitely NOT racily clean: file mtime ==
// recorded entry mtime == T0, 100 s older than the index file. Without it, files that git happened to write
// in the same kernel timestamp tick as the index are racily clean by accident, which would make the
// behaviour of later same-size edits depend on machine speed.
func MakeNonRacy(g *gitx.Git, dir string) error {
	idx := filepath.Join(dir, ".git", "index")
	fi, err := os.Stat(idx)
	if err != nil {
		return err
	}
	setWorktreeMTimes(dir, fi.ModTime().Truncate(time.Second).Add(-100*time.Second))
	if r := g.Run(dir, "update-index", "-q", "--really-refresh"); !r.OK() {
		return fmt.Errorf("update-index --really-refresh: %s", r)
	}
	return nil
}

// CompareFile checks an on-disk path against a generated tree entry: type, bytes, exec bit, symlink
// target; a gitlink must be a directory. Returns "" when equal.
func CompareFile(full string, f gen.File) string {
	fi, err := os.Lstat(full)
	if err != nil {
		return "missing"
	}
	switch f.Mode {
	case "120000":
		if fi.Mode()&os.ModeSymlink == 0 {
			return "type: expected symlink, found " + fi.Mode().String()
		}
		t, _ := os.Readlink(full)
		if t != string(f.Content) {
			return fmt.Sprintf("content: symlink target %q, want %q", t, f.Content)
		}
	case "160000":
		if !fi.IsDir() {
			return "type: expected submodule directory, found " + fi.Mode().String()
		}
	default:
		if !fi.Mode().IsRegular() {
			return "type: expected regular file, found " + fi.Mode().String()
		}
		b, err := os.ReadFile(full)
		if err != nil {
			return "content: " + err.Error()
		}
		if string(b) != string(f.Content) {
			return fmt.Sprintf("content: %d bytes %.60q, want %d bytes %.60q", len(b), b, len(f.Content), f.Content)
		}
		if exec := fi.Mode().Perm()&0o100 != 0; exec != (f.Mode == "100755") {
			return fmt.Sprintf("mode: exec bit %v, want mode %s", exec, f.Mode)
		}
	}
	return ""
}

// Conflicts reports whether path p collides with a path of tree t (equal, or one is a directory prefix of the other).
func Conflicts(t gen.Tree, p string) bool {
	for q := range t {
		if q == p || strings.HasPrefix(q, p+"/") || strings.HasPrefix(p, q+"/") {
			return true
		}
	}
	return false
}

// BlobID is git's SHA-1 object id of a blob with the given content.
func BlobID(content []byte) string {
	h := sha1.New()
	fmt.Fprintf(h, "blob %d\x00", len(content))
	h.Write(content)
	return hex.EncodeToString(h.Sum(nil))
}

// ReadHead parses .git/HEAD directly: symref target ("detached" if HEAD holds an id) and the raw id if detached.
func ReadHead(dir string) (symref, id string) {
	b, err := os.ReadFile(filepath.Join(dir, ".git", "HEAD"))
	if err != nil {
		return "unreadable", ""
	}
	s := strings.TrimSpace(string(b))
	if strings.HasPrefix(s, "ref:") {
		return strings.TrimSpace(s[4:]), ""
	}
	return "detached", s
}

// ReadRefs reads loose refs and packed-refs of a repository in-process (loose wins). Used for the twin that
// git itself wrote; the go-git twin is always read through `git for-each-ref`.
func ReadRefs(dir string) map[string]string {
	refs := map[string]string{}
	if b, err := os.ReadFile(filepath.Join(dir, ".git", "packed-refs")); err == nil {
		for _, ln := range strings.Split(string(b), "\n") {
			if ln == "" || ln[0] == '#' || ln[0] == '^' {
				continue
			}
			if f := strings.Fields(ln); len(f) == 2 {
				refs[f[1]] = f[0]
			}
		}
	}
	root := filepath.Join(dir, ".git", "refs")
	filepath.Walk(root, func(p string, fi os.FileInfo, err error) error {
		if err != nil || fi.IsDir() {
			return nil
		}
		b, err := os.ReadFile(p)
		if err != nil {
			return nil
		}
		rel, _ := filepath.Rel(filepath.Join(dir, ".git"), p)
		refs[filepath.ToSlash(rel)] = strings.TrimSpace(string(b))
		return nil
	})
	return refs
}

// GitRefs lists refs through `git for-each-ref` (name -> id).
func GitRefs(g *gitx.Git, dir string) (map[string]string, error) {
	r := g.Run(dir, "for-each-ref", "--format=%(refname) %(objectname)")
	if !r.OK() {
		return nil, fmt.Errorf("for-each-ref: %s", r)
	}
	refs := map[string]string{}
	for _, ln := range strings.Split(strings.TrimSpace(string(r.Out)), "\n") {
		if f := strings.Fields(ln); len(f) == 2 {
			refs[f[0]] = f[1]
		}
	}
	return refs, nil
}

// SplitZ splits NUL-terminated records.
func SplitZ(b []byte) []string {
	if len(b) == 0 {
		return nil
	}
	return strings.Split(strings.TrimRight(string(b), "\x00"), "\x00")
}

// StatusZ runs `git status --porcelain=v1 -z --untracked-files=all --no-renames` without optional locks
// and returns the sorted entries ("XY path").
func StatusZ(g *gitx.Git, dir string, extra ...string) ([]string, error) {
	args := append([]string{"--no-optional-locks", "status", "--porcelain=v1", "-z", "--untracked-files=all", "--no-renames"}, extra...)
	r := g.Run(dir, args...)
	if !r.OK() {
		return nil, fmt.Errorf("status: %s", r)
	}
	s := SplitZ(r.Out)
	sort.Strings(s)
	return s, nil
}
