// Package gitx runs the reference git binary hermetically.
package gitx

import (
	"bytes"
	"context"
	"fmt"
	"os"
	"os/exec"
	"path/filepath"
	"strings"
	"sync/atomic"
	"time"
)

// Calls counts git invocations for the evidence.
var Calls atomic.Int64

// Git is a hermetic environment for running git in one scratch area.
type Git struct {
	Home    string   // fake HOME
	Extra   []string // extra -c options
	Env     []string // extra env
	Timeout time.Duration
}

// New creates a runner whose HOME lives under scratch.
func New(scratch string) *Git {
	h := filepath.Join(scratch, "githome")
	os.MkdirAll(h, 0o755)
	// generous: the machine may be heavily loaded; run.sh's watchdog is the real bound
	return &Git{Home: h, Timeout: 20 * time.Minute}
}

func (g *Git) env() []string {
	e := []string{
		"HOME=" + g.Home, "XDG_CONFIG_HOME=" + g.Home, "GIT_CONFIG_NOSYSTEM=1", "GIT_CONFIG_GLOBAL=/dev/null",
		"GIT_AUTHOR_NAME=A U Thor", "GIT_AUTHOR_EMAIL=author@example.com", "GIT_AUTHOR_DATE=1700000000 +0000",
		"GIT_COMMITTER_NAME=C O Mitter", "GIT_COMMITTER_EMAIL=committer@example.com", "GIT_COMMITTER_DATE=1700000000 +0000",
		"TZ=UTC", "LC_ALL=C", "LANG=C", "GIT_TERMINAL_PROMPT=0", "GIT_OPTIONAL_LOCKS=0", "GIT_ADVICE=0",
		"PATH=/usr/local/sbin:/usr/local/bin:/usr/sbin:/usr/bin:/sbin:/bin", "GIT_PAGER=cat", "PAGER=cat",
	}
	return append(e, g.Env...)
}

// Result of one git call.
type Result struct {
	Out  []byte
	Err  []byte
	Code int // -1 = could not run / timeout
	Timeout bool
}

func (r Result) OK() bool { return r.Code == 0 }
func (r Result) String() string {
	return fmt.Sprintf("exit=%d out=%q err=%q", r.Code, trunc(r.Out), trunc(r.Err))
}
func trunc(b []byte) string {
	if len(b) > 300 {
		return string(b[:300]) + "…"
	}
	return string(b)
}

// RunIn runs git in dir with stdin.
func (g *Git) RunIn(dir string, stdin []byte, args ...string) Result {
	Calls.Add(1)
	ctx, cancel := context.WithTimeout(context.Background(), g.Timeout)
	defer cancel()
	full := []string{"-c", "core.fsync=none", "-c", "gc.auto=0", "-c", "maintenance.auto=false", "-c", "protocol.file.allow=always", "-c", "init.defaultBranch=master"}
	full = append(full, g.Extra...)
	full = append(full, args...)
	cmd := exec.CommandContext(ctx, "/usr/bin/git", full...)
	cmd.Dir = dir
	cmd.Env = g.env()
	if stdin != nil {
		cmd.Stdin = bytes.NewReader(stdin)
	}
	var o, e bytes.Buffer
	cmd.Stdout, cmd.Stderr = &o, &e
	err := cmd.Run()
	r := Result{Out: o.Bytes(), Err: e.Bytes()}
	if ctx.Err() != nil {
		r.Code, r.Timeout = -1, true
		return r
	}
	if err != nil {
		if ee, ok := err.(*exec.ExitError); ok {
			r.Code = ee.ExitCode()
		} else {
			r.Code = -1
			r.Err = append(r.Err, []byte(err.Error())...)
		}
	}
	return r
}

// Run runs git in dir without stdin.
func (g *Git) Run(dir string, args ...string) Result { return g.RunIn(dir, nil, args...) }

// MustOut runs git and returns trimmed stdout; error if non-zero.
func (g *Git) MustOut(dir string, args ...string) (string, error) {
	r := g.Run(dir, args...)
	if !r.OK() {
		return "", fmt.Errorf("git %s: %s", strings.Join(args, " "), r)
	}
	return strings.TrimRight(string(r.Out), "\n"), nil
}

// Init creates a repository (bare or not) with the given object format.
func (g *Git) Init(dir string, bare bool, format string) error {
	os.MkdirAll(dir, 0o755)
	a := []string{"init", "-q"}
	if bare {
		a = append(a, "--bare")
	}
	if format != "" && format != "sha1" {
		a = append(a, "--object-format="+format)
	}
	a = append(a, ".")
	r := g.Run(dir, a...)
	if !r.OK() {
		return fmt.Errorf("git init: %s", r)
	}
	return nil
}

// CopyDir copies a directory tree preserving modes, mtimes and symlinks.
func CopyDir(src, dst string) error {
	cmd := exec.Command("cp", "-a", src, dst)
	out, err := cmd.CombinedOutput()
	if err != nil {
		return fmt.Errorf("cp -a %s %s: %v %s", src, dst, err, out)
	}
	return nil
}
