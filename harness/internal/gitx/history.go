package gitx

import (
	"bufio"
	"fmt"
	"os"
	"path/filepath"
	"strings"
	"sync/atomic"

	"verif/internal/gen"
)

var markSeq atomic.Int64

// Import materialises a generated history in the git repository at dir
// (already initialised) through git fast-import and returns the commit ids by
// commit index. The temporary refs/verif/* refs are deleted afterwards.
func (g *Git) Import(dir string, h *gen.History) ([]string, error) {
	marks := filepath.Join(g.Home, fmt.Sprintf("marks-%d-%d", os.Getpid(), markSeq.Add(1)))
	r := g.RunIn(dir, h.FastImport(), "fast-import", "--quiet", "--force", "--export-marks="+marks)
	if !r.OK() {
		return nil, fmt.Errorf("fast-import: %s", r)
	}
	defer os.Remove(marks)
	f, err := os.Open(marks)
	if err != nil {
		return nil, err
	}
	defer f.Close()
	ids := make([]string, len(h.Commits))
	sc := bufio.NewScanner(f)
	for sc.Scan() {
		var m int
		var id string
		if _, err := fmt.Sscanf(sc.Text(), ":%d %s", &m, &id); err == nil && m >= 1 && m <= len(ids) {
			ids[m-1] = id
		}
	}
	var del strings.Builder
	for i := range h.Commits {
		fmt.Fprintf(&del, "delete refs/verif/c%d\n", i)
	}
	if r := g.RunIn(dir, []byte(del.String()), "update-ref", "--stdin"); !r.OK() {
		return nil, fmt.Errorf("update-ref: %s", r)
	}
	for i, id := range ids {
		if id == "" {
			return nil, fmt.Errorf("no mark for commit %d", i)
		}
	}
	return ids, nil
}
