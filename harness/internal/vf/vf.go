// Package vf is the shared core of every check binary: seeded PRNG streams,
// observation counters, finding keys / known-finding matching, evidence and
// replay files, verdict and exit code.
//
// Exit codes: 0 held (maybe with KNOWN-FINDING lines), 1 violation,
// 2 inconclusive (monitor saw too little / watchdog), 3 broken machinery.
package vf

import (
	"crypto/sha256"
	"encoding/binary"
	"encoding/hex"
	"encoding/json"
	"flag"
	"fmt"
	"math/rand"
	"os"
	"path/filepath"
	"runtime/debug"
	"sort"
	"strconv"
	"strings"
	"sync"
	"time"
)

// VerifRoot is where evidence, replays and known-findings.jsonl live.
var VerifRoot = func() string {
	if v := os.Getenv("VERIF_ROOT"); v != "" {
		return v
	}
	return "/verif"
}()

// OutRoot is where evidence/ and evidence/replay/ are written (VERIF_OUT overrides; used by mutant self-tests).
var OutRoot = func() string {
	if v := os.Getenv("VERIF_OUT"); v != "" {
		return v
	}
	return VerifRoot
}()

type knownEntry struct {
	Property string `json:"property"`
	Key      string `json:"key"`
	Status   string `json:"status"` // "known" | "fixed"
	Commit   string `json:"commit,omitempty"`
	What     string `json:"what"`
}

type floor struct {
	Name string `json:"name"`
	Got  int    `json:"got"`
	Min  int    `json:"min"`
}

// Ctx is handed to the check body.
type Ctx struct {
	ID      string
	Tier    string
	Seed    int64
	Scratch string
	Level   string // evidence level
	Rule    string
	// ReplayKey, when set (--replay), restricts reporting to that finding key.
	ReplayKey string

	mu         sync.Mutex
	start      time.Time
	evals      int
	distinct   map[string]struct{}
	samples    []any
	counters   map[string]int64
	sets       map[string]map[string]struct{}
	extra      map[string]any
	assume     []string
	known      map[string]knownEntry
	knownHit   map[string]int
	knownWhat  map[string]string
	violations []violation
	violKeys   map[string]int
	floors     []floor
	broken     []string
	inconcl    []string
	maxSamples int
}

type violation struct {
	Key    string
	What   string
	Replay string
}

func (c *Ctx) Quick() bool { return c.Tier != "thorough" }

// N picks a per-tier bound.
func (c *Ctx) N(quick, thorough int) int {
	if c.Quick() {
		return quick
	}
	return thorough
}

// Rand returns a PRNG stream determined by (seed, property, parts...).
func (c *Ctx) Rand(parts ...any) *rand.Rand {
	h := sha256.New()
	fmt.Fprintf(h, "%d|%s", c.Seed, c.ID)
	for _, p := range parts {
		fmt.Fprintf(h, "|%v", p)
	}
	s := h.Sum(nil)
	return rand.New(rand.NewSource(int64(binary.LittleEndian.Uint64(s[:8]))))
}

// Eval counts one evaluated case. shape identifies the case's structure; it
// enters distinct_nontrivial only if nontrivial is true.
func (c *Ctx) Eval(shape string, nontrivial bool) {
	c.mu.Lock()
	c.evals++
	if nontrivial {
		c.distinct[shape] = struct{}{}
	}
	c.mu.Unlock()
}

// Sample keeps up to maxSamples actual cases for the evidence file.
func (c *Ctx) Sample(v any) {
	c.mu.Lock()
	if len(c.samples) < c.maxSamples {
		c.samples = append(c.samples, v)
	}
	c.mu.Unlock()
}

// Count adds n to a named evidence counter.
func (c *Ctx) Count(name string, n int) {
	c.mu.Lock()
	c.counters[name] += int64(n)
	c.mu.Unlock()
}

func (c *Ctx) Counter(name string) int {
	c.mu.Lock()
	defer c.mu.Unlock()
	return int(c.counters[name])
}

// Seen adds member to a named set; the set's size lands in the evidence.
func (c *Ctx) Seen(set, member string) {
	c.mu.Lock()
	m := c.sets[set]
	if m == nil {
		m = map[string]struct{}{}
		c.sets[set] = m
	}
	m[member] = struct{}{}
	c.mu.Unlock()
}

func (c *Ctx) SeenCount(set string) int {
	c.mu.Lock()
	defer c.mu.Unlock()
	return len(c.sets[set])
}

func (c *Ctx) Extra(k string, v any) {
	c.mu.Lock()
	c.extra[k] = v
	c.mu.Unlock()
}

func (c *Ctx) Assume(s string) {
	c.mu.Lock()
	c.assume = append(c.assume, s)
	c.mu.Unlock()
}

// Floor declares a minimum the monitors must have observed; below it the run
// is inconclusive, never "held".
func (c *Ctx) Floor(name string, got, min int) {
	c.mu.Lock()
	c.floors = append(c.floors, floor{name, got, min})
	c.mu.Unlock()
}

// Broken records a machinery failure (model mismatch, harness error).
func (c *Ctx) Broken(format string, a ...any) {
	c.mu.Lock()
	if len(c.broken) < 20 {
		c.broken = append(c.broken, fmt.Sprintf(format, a...))
	}
	c.mu.Unlock()
}

// Inconclusive records that something could not be decided (timeout etc.).
func (c *Ctx) Inconclusive(format string, a ...any) {
	c.mu.Lock()
	if len(c.inconcl) < 20 {
		c.inconcl = append(c.inconcl, fmt.Sprintf(format, a...))
	}
	c.mu.Unlock()
}

// Must aborts the check as broken machinery when err != nil.
func (c *Ctx) Must(err error, what string) {
	if err != nil {
		panic(brokenPanic{fmt.Sprintf("%s: %v", what, err)})
	}
}

type brokenPanic struct{ msg string }

// Fail reports a failed case. key is the seed-independent finding key (shape
// of the witness, without the property id); what is the human description;
// replay is the case itself (JSON-marshalable). A key listed as known in
// known-findings.jsonl becomes a KNOWN-FINDING line; anything else a
// VIOLATION.
func (c *Ctx) Fail(key, what string, replay any) {
	c.mu.Lock()
	defer c.mu.Unlock()
	if c.ReplayKey != "" && key != c.ReplayKey {
		return
	}
	full := c.ID + "/" + key
	if e, ok := c.known[full]; ok && e.Status == "known" {
		c.knownHit[key]++
		if _, seen := c.knownWhat[key]; !seen {
			c.knownWhat[key] = e.What
		}
		return
	}
	c.violKeys[key]++
	if c.violKeys[key] > 3 || len(c.violations) >= 40 {
		return // keep at most 3 replays per key
	}
	dir := filepath.Join(OutRoot, "evidence", "replay")
	os.MkdirAll(dir, 0o755)
	name := fmt.Sprintf("%s-%s-%d-%d.json", c.ID, sanitize(key), c.Seed, c.violKeys[key])
	p := filepath.Join(dir, name)
	obj := map[string]any{
		"property": c.ID, "key": key, "what": what, "seed": c.Seed, "tier": c.Tier, "case": replay,
	}
	b, err := json.MarshalIndent(obj, "", " ")
	if err != nil {
		b, _ = json.MarshalIndent(map[string]any{"property": c.ID, "key": key, "what": what, "seed": c.Seed, "tier": c.Tier, "case": fmt.Sprintf("%+v", replay)}, "", " ")
	}
	os.WriteFile(p, b, 0o644)
	c.violations = append(c.violations, violation{key, what, p})
}

func sanitize(s string) string {
	var b strings.Builder
	for _, r := range s {
		if r >= 'a' && r <= 'z' || r >= 'A' && r <= 'Z' || r >= '0' && r <= '9' || r == '-' || r == '_' || r == '.' {
			b.WriteRune(r)
		} else {
			b.WriteByte('_')
		}
	}
	if b.Len() > 80 {
		return b.String()[:80]
	}
	return b.String()
}

// TempDir creates a fresh directory under the scratch root.
func (c *Ctx) TempDir(name string) string {
	d, err := os.MkdirTemp(c.Scratch, sanitize(name)+"-")
	if err != nil {
		panic(brokenPanic{err.Error()})
	}
	return d
}

func loadKnown() map[string]knownEntry {
	m := map[string]knownEntry{}
	b, _ := os.ReadFile(filepath.Join(VerifRoot, "known-findings.jsonl"))
	// staging area used while checks are being built; merged into known-findings.jsonl
	extra, _ := filepath.Glob(filepath.Join(VerifRoot, "known-findings.d", "*.jsonl"))
	for _, f := range extra {
		if eb, err := os.ReadFile(f); err == nil {
			b = append(append(b, '\n'), eb...)
		}
	}
	for _, ln := range strings.Split(string(b), "\n") {
		ln = strings.TrimSpace(ln)
		if ln == "" || strings.HasPrefix(ln, "#") {
			continue
		}
		var e knownEntry
		if json.Unmarshal([]byte(ln), &e) == nil && e.Property != "" {
			m[e.Property+"/"+e.Key] = e
		}
	}
	return m
}

// Main is the entry point of every check binary.
//
//	cNN [-tier quick|thorough] [-replay file]
//
// VERIF_SEED and VERIF_TIER are honoured.
func Main(id, level, rule string, body func(c *Ctx)) {
	tier := flag.String("tier", envOr("VERIF_TIER", "quick"), "quick|thorough")
	replay := flag.String("replay", "", "replay file")
	seedF := flag.Int64("seed", envInt("VERIF_SEED", 1), "seed")
	flag.Parse()
	if *tier != "thorough" {
		*tier = "quick"
	}
	c := &Ctx{ID: id, Tier: *tier, Seed: *seedF, Level: level, Rule: rule,
		distinct: map[string]struct{}{}, counters: map[string]int64{}, sets: map[string]map[string]struct{}{},
		extra: map[string]any{}, known: loadKnown(), knownHit: map[string]int{}, knownWhat: map[string]string{},
		violKeys: map[string]int{}, maxSamples: 4, start: time.Now()}
	if *replay != "" {
		b, err := os.ReadFile(*replay)
		if err != nil {
			fmt.Println("cannot read replay file:", err)
			os.Exit(3)
		}
		var r struct {
			Key  string `json:"key"`
			Seed int64  `json:"seed"`
			Tier string `json:"tier"`
		}
		if err := json.Unmarshal(b, &r); err != nil {
			fmt.Println("bad replay file:", err)
			os.Exit(3)
		}
		c.Seed, c.Tier, c.ReplayKey = r.Seed, r.Tier, r.Key
		// a replay must report even listed findings
		for k, e := range c.known {
			e.Status = "replay"
			c.known[k] = e
		}
	}
	base := os.Getenv("VERIF_SCRATCH")
	if base == "" {
		base = os.TempDir()
	}
	sc, err := os.MkdirTemp(base, "verif-"+id+"-")
	if err != nil {
		fmt.Println("scratch:", err)
		os.Exit(3)
	}
	c.Scratch = sc
	code := c.run(body)
	if os.Getenv("VERIF_KEEP") == "" {
		chmodAll(sc)
		os.RemoveAll(sc)
	}
	os.Exit(code)
}

func chmodAll(root string) {
	filepath.Walk(root, func(p string, info os.FileInfo, err error) error {
		if err == nil && info.IsDir() && info.Mode().Perm()&0o700 != 0o700 {
			os.Chmod(p, 0o755)
		}
		return nil
	})
}

func (c *Ctx) run(body func(c *Ctx)) (code int) {
	func() {
		defer func() {
			if r := recover(); r != nil {
				if bp, ok := r.(brokenPanic); ok {
					c.Broken("%s", bp.msg)
				} else {
					c.Broken("panic in check body: %v\n%s", r, debug.Stack())
				}
			}
		}()
		body(c)
	}()
	return c.finish()
}

func (c *Ctx) finish() int {
	c.mu.Lock()
	defer c.mu.Unlock()
	keys := make([]string, 0, len(c.knownHit))
	for k := range c.knownHit {
		keys = append(keys, k)
	}
	sort.Strings(keys)
	for _, k := range keys {
		fmt.Printf("KNOWN-FINDING: property=%s %s %s (hit %d times this run)\n", c.ID, k, c.knownWhat[k], c.knownHit[k])
	}
	for _, v := range c.violations {
		fmt.Printf("VIOLATION property=%s replay=%s key=%s :: %s\n", c.ID, v.Replay, v.Key, oneLine(v.What))
	}
	verdict := "held"
	code := 0
	for _, f := range c.floors {
		if f.Got < f.Min {
			c.inconcl = append(c.inconcl, fmt.Sprintf("floor %q: observed %d < required %d", f.Name, f.Got, f.Min))
		}
	}
	if len(c.inconcl) > 0 {
		verdict, code = "inconclusive", 2
		for _, s := range c.inconcl {
			fmt.Printf("INCONCLUSIVE property=%s %s\n", c.ID, oneLine(s))
		}
	}
	if len(c.broken) > 0 {
		verdict, code = "broken", 3
		for _, s := range c.broken {
			fmt.Printf("BROKEN property=%s %s\n", c.ID, s)
		}
	}
	if len(c.violations) > 0 {
		verdict, code = "violated", 1
	}
	cov := map[string]any{
		"evaluations":         c.evals,
		"distinct_nontrivial": len(c.distinct),
		"rule":                c.Rule,
		"samples":             c.samples,
		"verdict":             verdict,
		"floors":              c.floors,
	}
	if len(c.samples) == 0 {
		// the check recorded no explicit samples: show the structural descriptions of a few evaluated cases instead
		var shapes []string
		for k := range c.distinct {
			shapes = append(shapes, k)
		}
		sort.Strings(shapes)
		fallback := []any{}
		for i, k := range shapes {
			if i >= 4 {
				break
			}
			fallback = append(fallback, map[string]any{"case_shape": k})
		}
		cov["samples"] = fallback
	}
	for k, v := range c.counters {
		cov[k] = v
	}
	for k, s := range c.sets {
		cov[k+"_distinct"] = len(s)
		if len(s) <= 40 {
			l := make([]string, 0, len(s))
			for m := range s {
				l = append(l, m)
			}
			sort.Strings(l)
			cov[k+"_values"] = l
		}
	}
	for k, v := range c.extra {
		cov[k] = v
	}
	if c.Level == "other" {
		if _, ok := cov["explanation"]; !ok {
			cov["explanation"] = c.Rule
		}
	}
	kf := map[string]int{}
	for k, n := range c.knownHit {
		kf[k] = n
	}
	cov["known_findings_hit"] = kf
	vk := map[string]int{}
	for k, n := range c.violKeys {
		vk[k] = n
	}
	cov["violation_keys"] = vk
	ev := map[string]any{
		"property_id": c.ID,
		"tier":        c.Tier,
		"seed":        c.Seed,
		"level":       c.Level,
		"coverage":    cov,
		"assumptions": c.assume,
		"wall_s":      time.Since(c.start).Seconds(),
		"violations":  len(c.violKeys),
	}
	if c.assume == nil {
		ev["assumptions"] = []string{}
	}
	if c.ReplayKey == "" {
		b, err := json.MarshalIndent(ev, "", " ")
		if err == nil {
			os.MkdirAll(filepath.Join(OutRoot, "evidence"), 0o755)
			err = os.WriteFile(filepath.Join(OutRoot, "evidence", c.ID+".json"), append(b, '\n'), 0o644)
		}
		if err != nil {
			fmt.Printf("BROKEN property=%s cannot write evidence: %v\n", c.ID, err)
			if code == 0 {
				code = 3
			}
		}
	}
	fmt.Printf("SUMMARY property=%s tier=%s seed=%d verdict=%s evaluations=%d distinct_nontrivial=%d known_keys=%d violation_keys=%d wall=%.1fs\n",
		c.ID, c.Tier, c.Seed, verdict, c.evals, len(c.distinct), len(c.knownHit), len(c.violKeys), time.Since(c.start).Seconds())
	return code
}

func oneLine(s string) string {
	s = strings.ReplaceAll(s, "\n", " ⏎ ")
	if len(s) > 400 {
		s = s[:400] + "…"
	}
	return s
}

func envOr(k, d string) string {
	if v := os.Getenv(k); v != "" {
		return v
	}
	return d
}

func envInt(k string, d int64) int64 {
	if v := os.Getenv(k); v != "" {
		if n, err := strconv.ParseInt(v, 10, 64); err == nil {
			return n
		}
	}
	return d
}

// Hex is a short printable form of arbitrary bytes for samples and replays.
func Hex(b []byte) string {
	if len(b) > 96 {
		return hex.EncodeToString(b[:96]) + fmt.Sprintf("…(+%d bytes)", len(b)-96)
	}
	return hex.EncodeToString(b)
}

// Q quotes bytes readably.
func Q(b []byte) string {
	if len(b) > 120 {
		return strconv.Quote(string(b[:120])) + fmt.Sprintf("…(+%d bytes)", len(b)-120)
	}
	return strconv.Quote(string(b))
}

// ShapeHash hashes a structural description down to a short id.
func ShapeHash(parts ...any) string {
	h := sha256.New()
	for _, p := range parts {
		fmt.Fprintf(h, "%v|", p)
	}
	return hex.EncodeToString(h.Sum(nil)[:8])
}

// Parallel runs f(i) for i in [0,n) on w workers.
func Parallel(n, w int, f func(i int)) {
	if w < 1 {
		w = 1
	}
	var wg sync.WaitGroup
	ch := make(chan int)
	for k := 0; k < w; k++ {
		wg.Add(1)
		go func() {
			defer wg.Done()
			for i := range ch {
				f(i)
			}
		}()
	}
	for i := 0; i < n; i++ {
		ch <- i
	}
	close(ch)
	wg.Wait()
}

// Catch runs f and returns the recovered panic value (nil if none) and stack.
func Catch(f func()) (p any, stack string) {
	defer func() {
		if r := recover(); r != nil {
			p = r
			stack = string(debug.Stack())
		}
	}()
	f()
	return nil, ""
}
