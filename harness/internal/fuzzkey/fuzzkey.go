// Package fuzzkey derives seed-independent finding keys for the C53 fuzz
// oracles from panic messages and goroutine stacks. It is shared by the fuzz
// worker (verif/fuzz, reports written while fuzzing) and by the check binary
// (cmd/c53, which also classifies the output of crashed worker processes).
//
// A key names the oracle that fired, a normalised failure class and the top
// go-git function on the failing stack (no line numbers, no argument values):
//
//	FuzzMmapPack:panic:slice-bounds-out-of-range@storage/filesystem/mmap.(*PackScanner).FindOffset
package fuzzkey

import (
	"regexp"
	"strings"
)

// GoGit is the import-path prefix of the code under test.
const GoGit = "github.com/go-git/go-git/v6/"

var (
	reArgs   = regexp.MustCompile(`\([^()]*\)$`)
	reNum    = regexp.MustCompile(`(0x[0-9a-fA-F]+|[0-9]+)`)
	reSpaces = regexp.MustCompile(`[^A-Za-z0-9:_.]+`)
)

// Class normalises a panic / fatal-error message to a short class without
// any input-dependent value.
func Class(msg string) string {
	m := msg
	m = strings.TrimPrefix(m, "panic: ")
	m = strings.TrimPrefix(m, "fatal error: ")
	m = strings.TrimPrefix(m, "runtime error: ")
	if i := strings.IndexByte(m, '\n'); i >= 0 {
		m = m[:i]
	}
	if i := strings.IndexByte(m, '['); i >= 0 { // "index out of range [5] with length 3"
		m = m[:i]
	}
	switch {
	case strings.Contains(m, "nil pointer dereference"):
		m = "nil pointer dereference"
	case strings.Contains(m, "out of memory"):
		m = "out of memory"
	case strings.Contains(m, "stack overflow") || strings.Contains(m, "goroutine stack exceeds"):
		m = "stack overflow"
	case strings.Contains(m, "all goroutines are asleep"):
		m = "deadlock"
	}
	m = reNum.ReplaceAllString(m, "N")
	m = strings.Trim(reSpaces.ReplaceAllString(m, "-"), "-")
	if len(m) > 48 {
		m = m[:48]
	}
	if m == "" {
		m = "unknown"
	}
	return strings.ToLower(m)
}

// Frames extracts the function names (arguments stripped) of one goroutine
// stack in the textual format of runtime.Stack / a crash dump, innermost
// first.
func Frames(stack string) []string {
	var out []string
	for _, ln := range strings.Split(stack, "\n") {
		if ln == "" || ln[0] == '\t' || ln[0] == ' ' || strings.HasPrefix(ln, "goroutine ") || strings.HasPrefix(ln, "created by ") {
			continue
		}
		if !strings.HasSuffix(ln, ")") {
			continue
		}
		f := reArgs.ReplaceAllString(ln, "")
		if f == "" || f == ln {
			continue
		}
		out = append(out, f)
	}
	return out
}

// CycleSite detects unbounded/deep recursion in a list of go-git frames
// (innermost first): a block of p frames that repeats at least three times,
// allowing a few non-repeating callee frames on top. Which function of the
// cycle is on top when the dump is taken is arbitrary, so the site is the
// lexicographically smallest member of the cycle.
func CycleSite(fr []string) (string, bool) {
	for off := 0; off < 12 && off < len(fr); off++ {
		for p := 1; p <= 8; p++ {
			if off+3*p > len(fr) {
				break
			}
			ok := true
			for i := off; i < off+2*p; i++ {
				if fr[i] != fr[i+p] {
					ok = false
					break
				}
			}
			if ok {
				m := fr[off]
				for _, f := range fr[off : off+p] {
					if f < m {
						m = f
					}
				}
				return "recursion:" + m, true
			}
		}
	}
	return "", false
}

func goGitInnermostFirst(fr []string) []string {
	var gg []string
	for _, f := range fr {
		if strings.HasPrefix(f, GoGit) {
			gg = append(gg, strings.TrimPrefix(f, GoGit))
		}
	}
	return gg
}

// Site returns the top go-git frame of a failing stack: the first go-git
// function below the last panic()/sigpanic frame (or from the top when there
// is none). ok is false when the stack holds no go-git frame; then the top
// frame that is neither runtime nor harness is returned.
func Site(stack string) (site string, ok bool) {
	fr := Frames(stack)
	start := 0
	for i, f := range fr {
		if f == "panic" || strings.HasPrefix(f, "runtime.sigpanic") || f == "runtime.throw" || f == "runtime.fatalthrow" {
			start = i + 1
		}
	}
	if c, ok := CycleSite(goGitInnermostFirst(fr[start:])); ok {
		return c, true
	}
	for _, f := range fr[start:] {
		if strings.HasPrefix(f, GoGit) {
			return strings.TrimPrefix(f, GoGit), true
		}
	}
	for _, f := range fr[start:] {
		if strings.HasPrefix(f, "runtime.") || strings.HasPrefix(f, "runtime/") || strings.HasPrefix(f, "verif/") || strings.HasPrefix(f, "testing.") {
			continue
		}
		return f, false
	}
	return "no-frame", false
}

// GoGitFrames returns the go-git frames of a stack, outermost first.
func GoGitFrames(stack string) []string {
	fr := Frames(stack)
	var out []string
	for i := len(fr) - 1; i >= 0; i-- {
		if strings.HasPrefix(fr[i], GoGit) {
			out = append(out, strings.TrimPrefix(fr[i], GoGit))
		}
	}
	return out
}

// CommonLoopSite takes several samples of the same (hanging) goroutine and
// returns the innermost go-git frame shared by all samples: the function
// that contains the loop.
func CommonLoopSite(stacks []string) string {
	for _, s := range stacks {
		if c, ok := CycleSite(goGitInnermostFirst(Frames(s))); ok {
			return c
		}
	}
	var common []string
	for i, s := range stacks {
		g := GoGitFrames(s)
		if i == 0 {
			common = g
			continue
		}
		n := 0
		for n < len(common) && n < len(g) && common[n] == g[n] {
			n++
		}
		common = common[:n]
	}
	if len(common) == 0 {
		return "no-gogit-frame"
	}
	return common[len(common)-1]
}

// Key assembles a finding key.
func Key(target, kind, class, site string) string {
	if class == "" {
		return target + ":" + kind + "@" + site
	}
	return target + ":" + kind + ":" + class + "@" + site
}

// SplitGoroutines splits a full dump (runtime.Stack(all) or crash output)
// into per-goroutine blocks, each starting with its "goroutine N [state]:" line.
func SplitGoroutines(dump string) []string {
	var out []string
	var cur []string
	flush := func() {
		if len(cur) > 0 {
			out = append(out, strings.Join(cur, "\n"))
			cur = nil
		}
	}
	for _, ln := range strings.Split(dump, "\n") {
		if strings.HasPrefix(ln, "goroutine ") && strings.HasSuffix(strings.TrimSpace(ln), ":") {
			flush()
			cur = append(cur, ln)
			continue
		}
		if cur != nil {
			if strings.TrimSpace(ln) == "" {
				flush()
				continue
			}
			cur = append(cur, ln)
		}
	}
	flush()
	return out
}
