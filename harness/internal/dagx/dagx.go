// Package dagx holds commit-DAG helpers shared by the history checks
// (C42, C43, C37, C47): a set-reachability model over small DAGs (<= 64
// nodes), exhaustive enumeration of small DAGs and timestamp orderings, and a
// fast-import writer that places MANY small DAGs as disconnected components
// into one repository.
package dagx

import (
	"bytes"
	"compress/zlib"
	"crypto/sha1"
	"encoding/binary"
	"fmt"
	"math/bits"
	"sort"
	"strings"

	"verif/internal/gitx"
)

// DAG is a commit graph in topological order: Parents[i] only holds indices < i.
type DAG struct {
	Parents [][]int
	Time    []int64 // committer time per node
}

func (d *DAG) N() int { return len(d.Parents) }

// Anc returns, per node, the bitmask of its ancestors INCLUDING itself.
func Anc(parents [][]int) []uint64 {
	anc := make([]uint64, len(parents))
	for i, ps := range parents {
		m := uint64(1) << uint(i)
		for _, p := range ps {
			m |= anc[p]
		}
		anc[i] = m
	}
	return anc
}

// IsAnc: a is an ancestor of (or equal to) b.
func IsAnc(anc []uint64, a, b int) bool { return anc[b]&(1<<uint(a)) != 0 }

// Maximal returns the members of set that are not reachable from another member.
func Maximal(anc []uint64, set uint64) uint64 {
	var out uint64
	for s := set; s != 0; s &= s - 1 {
		i := bits.TrailingZeros64(s)
		dominated := false
		for t := set; t != 0; t &= t - 1 {
			j := bits.TrailingZeros64(t)
			if j != i && IsAnc(anc, i, j) {
				dominated = true
				break
			}
		}
		if !dominated {
			out |= 1 << uint(i)
		}
	}
	return out
}

// MergeBases returns the best common ancestors of a and b.
func MergeBases(anc []uint64, a, b int) uint64 { return Maximal(anc, anc[a]&anc[b]) }

// Bits lists the set bits.
func Bits(m uint64) []int {
	var out []int
	for ; m != 0; m &= m - 1 {
		out = append(out, bits.TrailingZeros64(m))
	}
	return out
}

// Graft returns a copy of parents where the nodes in shallow have no parents.
func Graft(parents [][]int, shallow uint64) [][]int {
	out := make([][]int, len(parents))
	for i, ps := range parents {
		if shallow&(1<<uint(i)) == 0 {
			out[i] = ps
		}
	}
	return out
}

// EnumParents enumerates all parent assignments for n nodes in topological
// order with at most maxParents parents each (parent ORDER is canonical
// ascending; callers that care about first-parent permute themselves).
func EnumParents(n, maxParents int) [][][]int {
	var out [][][]int
	cur := make([][]int, n)
	var rec func(i int)
	rec = func(i int) {
		if i == n {
			cp := make([][]int, n)
			for k := range cur {
				cp[k] = append([]int(nil), cur[k]...)
			}
			out = append(out, cp)
			return
		}
		// subsets of {0..i-1} of size <= maxParents
		var sub func(start int, chosen []int)
		sub = func(start int, chosen []int) {
			cur[i] = append([]int(nil), chosen...)
			rec(i + 1)
			if len(chosen) == maxParents {
				return
			}
			for p := start; p < i; p++ {
				sub(p+1, append(chosen, p))
			}
		}
		sub(0, nil)
	}
	rec(0)
	return out
}

// CanonKey returns a key equal for isomorphic DAGs (n <= 6; brute force over permutations).
func CanonKey(parents [][]int) string {
	n := len(parents)
	perm := make([]int, n)
	for i := range perm {
		perm[i] = i
	}
	best := ""
	var edges []string
	var rec func(k int)
	rec = func(k int) {
		if k == n {
			edges = edges[:0]
			for i, ps := range parents {
				for _, p := range ps {
					edges = append(edges, fmt.Sprintf("%d>%d", perm[i], perm[p]))
				}
			}
			sort.Strings(edges)
			s := strings.Join(edges, ",")
			if best == "" || s < best {
				best = s
			}
			return
		}
		for i := k; i < n; i++ {
			perm[k], perm[i] = perm[i], perm[k]
			rec(k + 1)
			perm[k], perm[i] = perm[i], perm[k]
		}
	}
	rec(0)
	return fmt.Sprintf("n%d:%s", n, best)
}

// UniqueDAGs returns one labelled representative per isomorphism class.
func UniqueDAGs(n, maxParents int) [][][]int {
	seen := map[string]bool{}
	var out [][][]int
	for _, p := range EnumParents(n, maxParents) {
		k := CanonKey(p)
		if !seen[k] {
			seen[k] = true
			out = append(out, p)
		}
	}
	return out
}

// WeakOrders enumerates all rank vectors r[0..n) that are surjective onto
// {0..k-1} for some k (= all weak orderings, ties included).
func WeakOrders(n int) [][]int {
	var out [][]int
	cur := make([]int, n)
	var rec func(i int)
	rec = func(i int) {
		if i == n {
			used := 0
			mx := 0
			for _, v := range cur {
				used |= 1 << uint(v)
				if v > mx {
					mx = v
				}
			}
			if used == (1<<uint(mx+1))-1 {
				out = append(out, append([]int(nil), cur...))
			}
			return
		}
		for v := 0; v < n; v++ {
			cur[i] = v
			rec(i + 1)
		}
	}
	rec(0)
	return out
}

// TimeClass describes how committer times relate to topology:
// "monotone" (every child strictly newer than each parent), "ties" (some child
// equal to a parent, none older), "skewed" (some child older than a parent).
func TimeClass(parents [][]int, t []int64) string {
	cls := "monotone"
	for i, ps := range parents {
		for _, p := range ps {
			if t[i] < t[p] {
				return "skewed"
			}
			if t[i] == t[p] {
				cls = "ties"
			}
		}
	}
	return cls
}

// Multi is a set of small DAGs stored as disconnected components of one repository.
type Multi struct {
	Comps []DAG
	Off   []int // global index of node 0 of component k
	Total int
}

func NewMulti(comps []DAG) *Multi {
	m := &Multi{Comps: comps, Off: make([]int, len(comps))}
	for k, c := range comps {
		m.Off[k] = m.Total
		m.Total += c.N()
	}
	return m
}

// object ids and raw bodies -------------------------------------------------

func objID(typ string, body []byte) [20]byte {
	h := sha1.New()
	fmt.Fprintf(h, "%s %d\x00", typ, len(body))
	h.Write(body)
	var out [20]byte
	copy(out[:], h.Sum(nil))
	return out
}

type packWriter struct {
	buf bytes.Buffer
	n   uint32
	zw  *zlib.Writer
}

func (w *packWriter) add(typ int, body []byte) {
	// type/size header
	size := len(body)
	b := byte(typ<<4) | byte(size&0x0f)
	size >>= 4
	for size > 0 {
		w.buf.WriteByte(b | 0x80)
		b = byte(size & 0x7f)
		size >>= 7
	}
	w.buf.WriteByte(b)
	if w.zw == nil {
		w.zw, _ = zlib.NewWriterLevel(&w.buf, zlib.BestSpeed)
	} else {
		w.zw.Reset(&w.buf)
	}
	w.zw.Write(body)
	w.zw.Close()
	w.n++
}

func (w *packWriter) bytes() []byte {
	var out bytes.Buffer
	out.WriteString("PACK")
	binary.Write(&out, binary.BigEndian, uint32(2))
	binary.Write(&out, binary.BigEndian, w.n)
	out.Write(w.buf.Bytes())
	sum := sha1.Sum(out.Bytes())
	out.Write(sum[:])
	return out.Bytes()
}

// Import writes all components as an undeltified pack (one blob, one tree,
// all commits: every commit has the same one-file tree; the message carries
// (component, node) so equal-looking roots of different components are
// distinct objects), lets `git index-pack --strict` verify and index it in
// dir (an initialised repository), verifies with cat-file that every computed
// id is a commit for git, and returns the commit ids by global index.
// (git fast-import is not used here: creating many root commits in one
// stream is pathologically slow in git 2.39.)
func (m *Multi) Import(g *gitx.Git, dir string) ([]string, error) {
	pw := &packWriter{}
	blob := []byte("x\n")
	blobID := objID("blob", blob)
	pw.add(3, blob)
	tree := append([]byte("100644 f\x00"), blobID[:]...)
	treeID := objID("tree", tree)
	pw.add(2, tree)
	ids := make([]string, m.Total)
	seen := make(map[string]int, m.Total)
	var body bytes.Buffer
	for k, c := range m.Comps {
		for i, ps := range c.Parents {
			body.Reset()
			fmt.Fprintf(&body, "tree %x\n", treeID[:])
			for _, p := range ps {
				fmt.Fprintf(&body, "parent %s\n", ids[m.Off[k]+p])
			}
			fmt.Fprintf(&body, "author A U Thor <author@example.com> %d +0000\n", c.Time[i])
			fmt.Fprintf(&body, "committer C O Mitter <committer@example.com> %d +0000\n", c.Time[i])
			fmt.Fprintf(&body, "\nk%d n%d\n", k, i)
			id := objID("commit", body.Bytes())
			hex := fmt.Sprintf("%x", id[:])
			gi := m.Off[k] + i
			if j, dup := seen[hex]; dup {
				return nil, fmt.Errorf("commits %d and %d collapsed into one object %s", j, gi, hex)
			}
			seen[hex] = gi
			ids[gi] = hex
			pw.add(1, body.Bytes())
		}
	}
	r := g.RunIn(dir, pw.bytes(), "index-pack", "--stdin", "--strict")
	if !r.OK() {
		return nil, fmt.Errorf("index-pack: %s", r)
	}
	// every id must be a commit for git
	var in bytes.Buffer
	for _, id := range ids {
		in.WriteString(id + "\n")
	}
	r = g.RunIn(dir, in.Bytes(), "cat-file", "--batch-check=%(objecttype)")
	if !r.OK() {
		return nil, fmt.Errorf("cat-file: %s", r)
	}
	if strings.Count(string(r.Out), "commit\n") != len(ids) || len(r.Out) != 7*len(ids) {
		return nil, fmt.Errorf("cat-file does not see %d commits: %.200q", len(ids), r.Out)
	}
	return ids, nil
}
