// Package lab is the client/server pairing lab shared by the transfer checks
// (C36 fetch/clone, C38 push): go-git and git servers on loopback serving one
// directory of bare repositories, and helpers for go-git / git clients with a
// chosen wire-protocol version. Loopback only; every listener binds 127.0.0.1:0.
package lab

import (
	"bufio"
	"context"
	"fmt"
	"io"
	"log"
	"net"
	"net/http"
	"net/http/cgi"
	"net/http/httptest"
	"os"
	"os/exec"
	"path/filepath"
	"strings"
	"sync"
	"syscall"
	"time"

	"github.com/go-git/go-billy/v6/osfs"
	"github.com/go-git/go-git/v6/backend"
	"github.com/go-git/go-git/v6/config"
	"github.com/go-git/go-git/v6/plumbing/protocol"
	"github.com/go-git/go-git/v6/plumbing/protocol/packp"
	"github.com/go-git/go-git/v6/plumbing/transport"
	"github.com/go-git/go-git/v6/storage/filesystem"

	"verif/internal/gitx"
)

// Server is one running server over a root directory of bare repositories.
type Server struct {
	Kind  string // gg-file | gg-git | gg-http | git-daemon | git-http
	Impl  string // gogit | git
	Trans string // file | git | http
	base  string
	close func()
	// Errors collects server-side error log lines (go-git servers only).
	mu     sync.Mutex
	Errors []string
}

// URL returns the URL of the repository <name> (e.g. "s1.git") on this server.
func (s *Server) URL(name string) string { return s.base + "/" + name }

// Close stops the server.
func (s *Server) Close() {
	if s.close != nil {
		s.close()
	}
}

func (s *Server) logf(format string, a ...any) {
	s.mu.Lock()
	if len(s.Errors) < 200 {
		s.Errors = append(s.Errors, fmt.Sprintf(format, a...))
	}
	s.mu.Unlock()
}

// ErrorLog returns a copy of the collected server-side errors.
func (s *Server) ErrorLog() []string {
	s.mu.Lock()
	defer s.mu.Unlock()
	return append([]string{}, s.Errors...)
}

type logWriter struct{ s *Server }

func (w logWriter) Write(p []byte) (int, error) {
	w.s.logf("%s", strings.TrimSpace(string(p)))
	return len(p), nil
}

// GoGitFile is the in-process file transport: go-git's file:// transport runs
// go-git's own upload-pack / receive-pack against the path in the URL.
func GoGitFile(root string) *Server {
	return &Server{Kind: "gg-file", Impl: "gogit", Trans: "file", base: "file://" + root}
}

// GoGitDaemon starts a git:// acceptor built from go-git's public API:
// packp.GitProtoRequest.Decode + backend.RequestFromProto + Backend.Serve.
func GoGitDaemon(root string) (*Server, error) {
	ln, err := net.Listen("tcp", "127.0.0.1:0")
	if err != nil {
		return nil, err
	}
	s := &Server{Kind: "gg-git", Impl: "gogit", Trans: "git", base: "git://" + ln.Addr().String()}
	b := backend.New(transport.NewFilesystemLoader(osfs.New(root), false))
	var wg sync.WaitGroup
	var mu sync.Mutex
	conns := map[net.Conn]context.CancelFunc{}
	done := make(chan struct{})
	go func() {
		for {
			conn, err := ln.Accept()
			if err != nil {
				return
			}
			ctx, cancel := context.WithCancel(context.Background())
			mu.Lock()
			conns[conn] = cancel
			mu.Unlock()
			wg.Add(1)
			go func() {
				defer wg.Done()
				defer func() {
					if r := recover(); r != nil {
						s.logf("PANIC in go-git git:// server: %v", r)
					}
					conn.Close()
					cancel()
					mu.Lock()
					delete(conns, conn)
					mu.Unlock()
				}()
				br := bufio.NewReader(conn)
				var proto packp.GitProtoRequest
				if err := proto.Decode(br); err != nil {
					s.logf("decode request: %v", err)
					return
				}
				req := backend.RequestFromProto(&proto)
				if err := b.Serve(ctx, io.NopCloser(br), nopWC{conn}, req); err != nil {
					s.logf("serve %s %s: %v", req.Service, req.URL.Path, err)
				}
			}()
		}
	}()
	s.close = func() {
		select {
		case <-done:
			return
		default:
			close(done)
		}
		ln.Close()
		mu.Lock()
		for c, cancel := range conns {
			c.Close()
			cancel()
		}
		mu.Unlock()
		wg.Wait()
	}
	return s, nil
}

type nopWC struct{ io.Writer }

func (nopWC) Close() error { return nil }

// GoGitHTTP serves backend.Backend as http.Handler under httptest. Because the
// handler demands an Authorization header for receive-pack (and answers 401
// without a challenge), a front handler plays the authenticating reverse proxy
// and sets one on every request.
func GoGitHTTP(root string) *Server {
	s := &Server{Kind: "gg-http", Impl: "gogit", Trans: "http"}
	b := backend.New(transport.NewFilesystemLoader(osfs.New(root), false))
	b.ErrorLog = log.New(logWriter{s}, "", 0)
	h := http.HandlerFunc(func(w http.ResponseWriter, r *http.Request) {
		defer func() {
			if rec := recover(); rec != nil {
				s.logf("PANIC in go-git http handler: %v", rec)
				panic(http.ErrAbortHandler)
			}
		}()
		if r.Header.Get("Authorization") == "" {
			r.Header.Set("Authorization", "Basic dmVyaWY6dmVyaWY=")
		}
		b.ServeHTTP(w, r)
	})
	ts := httptest.NewServer(h)
	s.base = ts.URL
	s.close = ts.Close
	return s
}

func freePort() (int, error) {
	ln, err := net.Listen("tcp", "127.0.0.1:0")
	if err != nil {
		return 0, err
	}
	p := ln.Addr().(*net.TCPAddr).Port
	ln.Close()
	return p, nil
}

func gitEnv(g *gitx.Git) []string {
	return append([]string{
		"HOME=" + g.Home, "XDG_CONFIG_HOME=" + g.Home, "GIT_CONFIG_NOSYSTEM=1", "GIT_CONFIG_GLOBAL=/dev/null",
		"GIT_AUTHOR_NAME=A U Thor", "GIT_AUTHOR_EMAIL=author@example.com", "GIT_AUTHOR_DATE=1700000000 +0000",
		"GIT_COMMITTER_NAME=C O Mitter", "GIT_COMMITTER_EMAIL=committer@example.com", "GIT_COMMITTER_DATE=1700000000 +0000",
		"TZ=UTC", "LC_ALL=C", "LANG=C", "GIT_TERMINAL_PROMPT=0", "GIT_OPTIONAL_LOCKS=0",
		"PATH=/usr/local/sbin:/usr/local/bin:/usr/sbin:/usr/bin:/sbin:/bin",
	}, g.Env...)
}

// GitDaemon starts `git daemon` on a free loopback port and waits until it accepts.
func GitDaemon(g *gitx.Git, root string) (*Server, error) {
	var lastErr error
	for try := 0; try < 5; try++ {
		port, err := freePort()
		if err != nil {
			return nil, err
		}
		cmd := exec.Command("/usr/bin/git", "-c", "core.fsync=none", "-c", "gc.auto=0", "-c", "receive.autogc=false", "daemon",
			"--base-path="+root, "--export-all", "--enable=receive-pack", "--listen=127.0.0.1", fmt.Sprintf("--port=%d", port), "--reuseaddr", root)
		cmd.Env = gitEnv(g)
		cmd.SysProcAttr = &syscall.SysProcAttr{Setpgid: true}
		var errb strings.Builder
		cmd.Stderr = &errb
		if err := cmd.Start(); err != nil {
			return nil, err
		}
		exited := make(chan struct{})
		go func() { cmd.Wait(); close(exited) }()
		addr := fmt.Sprintf("127.0.0.1:%d", port)
		ok := false
		for i := 0; i < 600; i++ {
			select {
			case <-exited:
				i = 600
				continue
			default:
			}
			c, err := net.DialTimeout("tcp", addr, time.Second)
			if err == nil {
				c.Close()
				ok = true
				break
			}
			time.Sleep(100 * time.Millisecond)
		}
		if ok {
			s := &Server{Kind: "git-daemon", Impl: "git", Trans: "git", base: "git://" + addr}
			s.close = func() {
				syscall.Kill(-cmd.Process.Pid, syscall.SIGTERM)
				select {
				case <-exited:
				case <-time.After(10 * time.Second):
					syscall.Kill(-cmd.Process.Pid, syscall.SIGKILL)
					<-exited
				}
			}
			return s, nil
		}
		syscall.Kill(-cmd.Process.Pid, syscall.SIGKILL)
		<-exited
		lastErr = fmt.Errorf("git daemon on port %d did not come up: %s", port, errb.String())
	}
	return nil, lastErr
}

// GitHTTP serves `git http-backend` under net/http/cgi.
func GitHTTP(g *gitx.Git, root string) *Server {
	s := &Server{Kind: "git-http", Impl: "git", Trans: "http"}
	env := append(gitEnv(g), "GIT_PROJECT_ROOT="+root, "GIT_HTTP_EXPORT_ALL=1",
		"GIT_CONFIG_COUNT=3", "GIT_CONFIG_KEY_0=http.receivepack", "GIT_CONFIG_VALUE_0=true",
		"GIT_CONFIG_KEY_1=core.fsync", "GIT_CONFIG_VALUE_1=none", "GIT_CONFIG_KEY_2=gc.auto", "GIT_CONFIG_VALUE_2=0")
	h := &cgi.Handler{Path: "/usr/lib/git-core/git-http-backend", Env: env, InheritEnv: []string{}, Stderr: logWriter{s}}
	front := http.HandlerFunc(func(w http.ResponseWriter, r *http.Request) {
		// net/http/cgi passes HTTP_GIT_PROTOCOL; git http-backend reads GIT_PROTOCOL from it itself.
		h.ServeHTTP(w, r)
	})
	ts := httptest.NewServer(front)
	s.base = ts.URL
	s.close = ts.Close
	return s
}

// VersionStorage wraps a filesystem storage so that the repository
// configuration always requests the given wire-protocol version; this is how
// a go-git client is made to clone with v0/v1 (a fresh repository otherwise
// uses the default version).
type VersionStorage struct {
	*filesystem.Storage
	V protocol.Version
}

// Config overrides protocol.version.
func (s VersionStorage) Config() (*config.Config, error) {
	c, err := s.Storage.Config()
	if c != nil {
		c.Protocol.Version = s.V
	}
	return c, err
}

// ProtoVersion maps 0,1,2.
func ProtoVersion(v int) protocol.Version {
	switch v {
	case 0:
		return protocol.V0
	case 1:
		return protocol.V1
	}
	return protocol.V2
}

// GitClient returns a git runner whose client speaks the given protocol version.
func GitClient(g *gitx.Git, version int, timeout time.Duration) *gitx.Git {
	c := *g
	c.Extra = append(append([]string{}, g.Extra...), "-c", fmt.Sprintf("protocol.version=%d", version))
	c.Timeout = timeout
	return &c
}

// RawRefs reads refs (loose over packed) and the shallow file of a repository
// git directory without spawning a process.
func RawRefs(gitdir string) map[string]string {
	refs := map[string]string{}
	if b, err := os.ReadFile(filepath.Join(gitdir, "packed-refs")); err == nil {
		for _, ln := range strings.Split(string(b), "\n") {
			if ln == "" || ln[0] == '#' || ln[0] == '^' {
				continue
			}
			if f := strings.SplitN(ln, " ", 2); len(f) == 2 {
				refs[f[1]] = f[0]
			}
		}
	}
	root := filepath.Join(gitdir, "refs")
	filepath.Walk(root, func(p string, info os.FileInfo, err error) error {
		if err != nil || info.IsDir() {
			return nil
		}
		rel, _ := filepath.Rel(gitdir, p)
		b, _ := os.ReadFile(p)
		s := strings.TrimSpace(string(b))
		refs[filepath.ToSlash(rel)] = s
		return nil
	})
	return refs
}

// Shallow returns the sorted lines of the shallow file ("" if absent).
func Shallow(gitdir string) string {
	b, err := os.ReadFile(filepath.Join(gitdir, "shallow"))
	if err != nil {
		return ""
	}
	ls := strings.Fields(string(b))
	sortStrings(ls)
	return strings.Join(ls, "\n")
}

func sortStrings(a []string) {
	for i := 1; i < len(a); i++ {
		for j := i; j > 0 && a[j] < a[j-1]; j-- {
			a[j], a[j-1] = a[j-1], a[j]
		}
	}
}

// GitDir returns the git directory of a repository path (bare or not).
func GitDir(path string) string {
	if fi, err := os.Stat(filepath.Join(path, ".git")); err == nil && fi.IsDir() {
		return filepath.Join(path, ".git")
	}
	return path
}
