// Package obs observes a worktree repository through git's own eyes without
// modifying it (no optional locks, no index refresh written back).
package obs

import (
	"fmt"
	"sort"
	"strings"

	"verif/internal/fsguard"
	"verif/internal/gitx"
)

// State is the observable state of a non-bare repository.
type State struct {
	Head     string            // symbolic-ref or "detached"
	HeadID   string            // rev-parse HEAD ("" if unborn)
	Refs     map[string]string // for-each-ref
	Index    []string          // ls-files -s lines (mode id stage\tpath)
	Status   []string          // status --porcelain=v1 -z entries
	Files    fsguard.Snapshot  // worktree files without .git
	GitError string
}

// Observe collects the state of the repository at dir.
func Observe(g *gitx.Git, dir string) State {
	s := State{Refs: map[string]string{}}
	r := g.Run(dir, "symbolic-ref", "-q", "HEAD")
	if r.OK() {
		s.Head = strings.TrimSpace(string(r.Out))
	} else {
		s.Head = "detached"
	}
	if r := g.Run(dir, "rev-parse", "-q", "--verify", "HEAD"); r.OK() {
		s.HeadID = strings.TrimSpace(string(r.Out))
	}
	r = g.Run(dir, "for-each-ref", "--format=%(refname) %(objectname) %(symref)")
	if !r.OK() {
		s.GitError += "for-each-ref: " + string(r.Err)
	}
	for _, ln := range strings.Split(strings.TrimSpace(string(r.Out)), "\n") {
		if f := strings.SplitN(ln, " ", 2); len(f) == 2 {
			s.Refs[f[0]] = strings.TrimSpace(f[1])
		}
	}
	r = g.Run(dir, "--no-optional-locks", "ls-files", "-s", "-z")
	if !r.OK() {
		s.GitError += "ls-files: " + string(r.Err)
	}
	s.Index = splitZ(r.Out)
	r = g.Run(dir, "--no-optional-locks", "status", "--porcelain=v1", "-z", "--untracked-files=all", "--no-renames")
	if !r.OK() {
		s.GitError += "status: " + string(r.Err)
	}
	s.Status = splitZ(r.Out)
	sort.Strings(s.Status)
	s.Files = Worktree(dir)
	return s
}

// Worktree snapshots the worktree files (excluding .git at top level).
func Worktree(dir string) fsguard.Snapshot {
	return fsguard.Snap(dir, func(rel string) bool { return rel == ".git" })
}

func splitZ(b []byte) []string {
	if len(b) == 0 {
		return nil
	}
	parts := strings.Split(strings.TrimRight(string(b), "\x00"), "\x00")
	return parts
}

// DiffStates lists differences between two states (a = expected/before, b = observed/after).
// files: compare worktree content & modes (mtimes ignored).
func DiffStates(a, b State, files bool) []string {
	var out []string
	if a.Head != b.Head {
		out = append(out, fmt.Sprintf("HEAD symref %q vs %q", a.Head, b.Head))
	}
	if a.HeadID != b.HeadID {
		out = append(out, fmt.Sprintf("HEAD id %s vs %s", a.HeadID, b.HeadID))
	}
	for n, v := range a.Refs {
		if w, ok := b.Refs[n]; !ok {
			out = append(out, "ref missing "+n)
		} else if v != w {
			out = append(out, fmt.Sprintf("ref %s %s vs %s", n, v, w))
		}
	}
	for n := range b.Refs {
		if _, ok := a.Refs[n]; !ok {
			out = append(out, "ref extra "+n)
		}
	}
	if strings.Join(a.Index, "\n") != strings.Join(b.Index, "\n") {
		out = append(out, "index: "+firstDiff(a.Index, b.Index))
	}
	if files {
		for _, d := range fsguard.Diff(a.Files, b.Files, false) {
			out = append(out, "worktree: "+d)
		}
	}
	return out
}

func firstDiff(a, b []string) string {
	am := map[string]bool{}
	for _, x := range a {
		am[x] = true
	}
	bm := map[string]bool{}
	for _, x := range b {
		bm[x] = true
	}
	var d []string
	for _, x := range a {
		if !bm[x] {
			d = append(d, "-"+x)
		}
	}
	for _, x := range b {
		if !am[x] {
			d = append(d, "+"+x)
		}
	}
	if len(d) > 6 {
		d = d[:6]
	}
	return strings.Join(d, " ; ")
}
