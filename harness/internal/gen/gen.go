// Package gen holds the seeded, boundary-biased generators shared by checks.
package gen

import (
	"bytes"
	"fmt"
	"math/rand"
	"sort"
	"strings"
)

// Bytes returns a boundary-biased byte string.
func Bytes(r *rand.Rand, max int) []byte {
	switch r.Intn(14) {
	case 0:
		return []byte{}
	case 1:
		return []byte{byte(r.Intn(256))}
	case 2: // NUL rich
		n := 1 + r.Intn(64)
		b := make([]byte, n)
		for i := range b {
			if r.Intn(2) == 0 {
				b[i] = byte(r.Intn(256))
			}
		}
		return b
	case 3: // header-like
		hs := []string{"blob 3\x00abc", "tree 0\x00", "commit 10\x00", "blob 0\x00", "tag 5\x00hello", "blob 3", "blob -1\x00"}
		return append([]byte(hs[r.Intn(len(hs))]), randBytes(r, r.Intn(20))...)
	case 4: // around 64KiB
		n := 65536 + r.Intn(3) - 1
		if n > max {
			n = max
		}
		return compressible(r, n)
	case 5: // highly compressible
		n := r.Intn(min(max, 20000) + 1)
		return bytes.Repeat([]byte{byte('a' + r.Intn(3))}, n)
	case 6: // repeated blocks
		blk := randBytes(r, 1+r.Intn(40))
		return bytes.Repeat(blk, 1+r.Intn(50))
	case 7: // text lines
		return Text(r, r.Intn(40))
	case 8:
		return randBytes(r, r.Intn(min(max, 5000)+1))
	default:
		return randBytes(r, r.Intn(200))
	}
}

func randBytes(r *rand.Rand, n int) []byte {
	b := make([]byte, n)
	r.Read(b)
	return b
}

func compressible(r *rand.Rand, n int) []byte {
	b := make([]byte, n)
	for i := range b {
		b[i] = byte('a' + (i/7+r.Intn(2))%5)
	}
	return b
}

// Text returns n short lines.
func Text(r *rand.Rand, n int) []byte {
	var b bytes.Buffer
	words := []string{"alpha", "beta", "gamma", "delta", "x", "", "  indent", "line with spaces", "é", "tab\there"}
	for i := 0; i < n; i++ {
		b.WriteString(words[r.Intn(len(words))])
		fmt.Fprintf(&b, "%d", r.Intn(10))
		b.WriteByte('\n')
	}
	return b.Bytes()
}

// File is one worktree/tree entry.
type File struct {
	Mode    string // "100644" | "100755" | "120000" | "160000"
	Content []byte // blob bytes, symlink target, or 40-hex for gitlink
}

// Tree maps slash paths to files (no directories: implied).
type Tree map[string]File

func (t Tree) Clone() Tree {
	n := Tree{}
	for k, v := range t {
		n[k] = v
	}
	return n
}

func (t Tree) Paths() []string {
	ps := make([]string, 0, len(t))
	for p := range t {
		ps = append(ps, p)
	}
	sort.Strings(ps)
	return ps
}

// pathComponents chosen so that names sort around '/', share string prefixes, vary case.
var comps = []string{"a", "b", "ab", "A", ".a", "a.b", "a b", "é", "a-", "c", "a0", "d"}

// PathOpts tunes path generation.
type PathOpts struct {
	Depth    int      // max directory depth
	Comps    []string // component alphabet (default: comps)
	Symlinks bool
	Exec     bool
}

// Path returns a random relative path.
func Path(r *rand.Rand, o PathOpts) string {
	cs := o.Comps
	if cs == nil {
		cs = comps
	}
	d := 1 + r.Intn(max(o.Depth, 1))
	parts := make([]string, d)
	for i := range parts {
		parts[i] = cs[r.Intn(len(cs))]
	}
	return strings.Join(parts, "/")
}

// conflicts reports whether p is a prefix-dir of an existing path or vice versa.
func conflicts(t Tree, p string) bool {
	for q := range t {
		if q == p {
			continue
		}
		if strings.HasPrefix(q, p+"/") || strings.HasPrefix(p, q+"/") {
			return true
		}
	}
	return false
}

// AddRandomFile inserts a random file at a non-conflicting path; returns the path ("" if none found).
func AddRandomFile(r *rand.Rand, t Tree, o PathOpts) string {
	for try := 0; try < 20; try++ {
		p := Path(r, o)
		if conflicts(t, p) {
			continue
		}
		t[p] = RandomFile(r, o)
		return p
	}
	return ""
}

// RandomFile makes small content with a mode.
func RandomFile(r *rand.Rand, o PathOpts) File {
	f := File{Mode: "100644", Content: smallContent(r)}
	switch x := r.Intn(10); {
	case x == 0 && o.Exec:
		f.Mode = "100755"
	case x == 1 && o.Symlinks:
		f.Mode = "120000"
		f.Content = []byte([]string{"a", "../x", "b/c", "nonexistent"}[r.Intn(4)])
	}
	return f
}

func smallContent(r *rand.Rand) []byte {
	switch r.Intn(6) {
	case 0:
		return []byte{}
	case 1:
		return []byte("same\n")
	default:
		return Text(r, 1+r.Intn(6))
	}
}

// RandomTree builds a tree of n files.
func RandomTree(r *rand.Rand, n int, o PathOpts) Tree {
	t := Tree{}
	for i := 0; i < n; i++ {
		AddRandomFile(r, t, o)
	}
	return t
}

// Mutate derives a new tree: edits, deletions, additions, file<->dir swaps, mode flips.
func Mutate(r *rand.Rand, t Tree, o PathOpts) Tree {
	n := t.Clone()
	ops := 1 + r.Intn(4)
	for i := 0; i < ops; i++ {
		ps := n.Paths()
		switch k := r.Intn(7); {
		case k == 0 || len(ps) == 0:
			AddRandomFile(r, n, o)
		case k == 1:
			delete(n, ps[r.Intn(len(ps))])
		case k == 2:
			p := ps[r.Intn(len(ps))]
			f := n[p]
			if f.Mode == "100644" || f.Mode == "100755" {
				f.Content = append(append([]byte{}, f.Content...), Text(r, 1)...)
				n[p] = f
			}
		case k == 3 && o.Exec:
			p := ps[r.Intn(len(ps))]
			f := n[p]
			if f.Mode == "100644" {
				f.Mode = "100755"
			} else if f.Mode == "100755" {
				f.Mode = "100644"
			}
			n[p] = f
		case k == 4: // file -> dir
			p := ps[r.Intn(len(ps))]
			f := n[p]
			delete(n, p)
			n[p+"/"+comps[r.Intn(len(comps))]] = f
		case k == 5: // dir -> file
			p := ps[r.Intn(len(ps))]
			if i := strings.LastIndex(p, "/"); i > 0 {
				dir := p[:i]
				for q := range n {
					if strings.HasPrefix(q, dir+"/") {
						delete(n, q)
					}
				}
				if !conflicts(n, dir) {
					n[dir] = RandomFile(r, o)
				}
			}
		default:
			p := ps[r.Intn(len(ps))]
			n[p] = RandomFile(r, o)
		}
	}
	return n
}

// Commit is one node of a generated history. Parents index earlier commits.
type Commit struct {
	Parents []int
	Tree    Tree
	Time    int64 // committer time (unix)
	ATime   int64 // author time
	Zone    string
	Msg     string
}

// History is a DAG in topological order (parents before children) plus refs.
type History struct {
	Commits  []Commit
	Branches map[string]int // short branch name -> commit index
	Tags     map[string]int // lightweight tags
	ATags    map[string]int // annotated tags (tag object) -> commit index
}

// HistOpts tunes DAG generation.
type HistOpts struct {
	N         int
	MergeProb float64 // probability that a commit has 2+ parents
	Octopus   bool
	SkewTime  bool // arbitrary timestamps (children older than parents, ties)
	Files     int
	Path      PathOpts
	Branches  int
}

// RandomHistory generates a DAG with trees.
func RandomHistory(r *rand.Rand, o HistOpts) *History {
	h := &History{Branches: map[string]int{}, Tags: map[string]int{}, ATags: map[string]int{}}
	base := int64(1600000000)
	for i := 0; i < o.N; i++ {
		c := Commit{Msg: fmt.Sprintf("commit %d\n", i), Zone: "+0000"}
		if i > 0 {
			np := 1
			if r.Float64() < o.MergeProb && i >= 2 {
				np = 2
				if o.Octopus && i >= 3 && r.Intn(4) == 0 {
					np = 3 + r.Intn(min(i-2, 3))
				}
			}
			seen := map[int]bool{}
			// bias to recent commits so the graph is connected-ish
			for len(c.Parents) < np && len(seen) < i {
				var p int
				if r.Intn(3) > 0 {
					p = i - 1 - r.Intn(min(i, 3))
				} else {
					p = r.Intn(i)
				}
				if !seen[p] {
					seen[p] = true
					c.Parents = append(c.Parents, p)
				}
			}
			c.Tree = Mutate(r, h.Commits[c.Parents[0]].Tree, o.Path)
		} else {
			c.Tree = RandomTree(r, max(o.Files, 1), o.Path)
		}
		if o.SkewTime {
			switch r.Intn(3) {
			case 0:
				c.Time = base + int64(r.Intn(5))*100 // ties
			case 1:
				c.Time = base + int64(r.Intn(100000))
			default:
				c.Time = base + int64(i)*100
			}
		} else {
			c.Time = base + int64(i)*100
		}
		c.ATime = c.Time
		h.Commits = append(h.Commits, c)
	}
	// refs: tips first
	isParent := map[int]bool{}
	for _, c := range h.Commits {
		for _, p := range c.Parents {
			isParent[p] = true
		}
	}
	bi := 0
	names := []string{"master", "dev", "feature/x", "b3", "b4", "b5", "b6", "b7"}
	for i := range h.Commits {
		if !isParent[i] && bi < len(names) {
			h.Branches[names[bi]] = i
			bi++
		}
	}
	for bi < o.Branches && bi < len(names) {
		h.Branches[names[bi]] = r.Intn(len(h.Commits))
		bi++
	}
	return h
}

// FastImport renders the history as a git fast-import stream. Marks: commit i
// => :i+1; annotated tags are emitted as tag commands.
func (h *History) FastImport() []byte {
	var b bytes.Buffer
	for i, c := range h.Commits {
		fmt.Fprintf(&b, "commit refs/verif/c%d\nmark :%d\n", i, i+1)
		fmt.Fprintf(&b, "author A U Thor <author@example.com> %d %s\n", c.ATime, c.Zone)
		fmt.Fprintf(&b, "committer C O Mitter <committer@example.com> %d %s\n", c.Time, c.Zone)
		fmt.Fprintf(&b, "data %d\n%s\n", len(c.Msg), c.Msg)
		for k, p := range c.Parents {
			if k == 0 {
				fmt.Fprintf(&b, "from :%d\n", p+1)
			} else {
				fmt.Fprintf(&b, "merge :%d\n", p+1)
			}
		}
		b.WriteString("deleteall\n")
		for _, p := range c.Tree.Paths() {
			f := c.Tree[p]
			if f.Mode == "160000" {
				fmt.Fprintf(&b, "M 160000 %s %s\n", f.Content, quotePath(p))
				continue
			}
			fmt.Fprintf(&b, "M %s inline %s\ndata %d\n%s\n", f.Mode, quotePath(p), len(f.Content), f.Content)
		}
		b.WriteString("\n")
	}
	for _, n := range sortedKeys(h.Branches) {
		fmt.Fprintf(&b, "reset refs/heads/%s\nfrom :%d\n\n", n, h.Branches[n]+1)
	}
	for _, n := range sortedKeys(h.Tags) {
		fmt.Fprintf(&b, "reset refs/tags/%s\nfrom :%d\n\n", n, h.Tags[n]+1)
	}
	for _, n := range sortedKeys(h.ATags) {
		msg := "annotated " + n + "\n"
		fmt.Fprintf(&b, "tag %s\nfrom :%d\ntagger T Agger <tagger@example.com> 1600000000 +0000\ndata %d\n%s\n", n, h.ATags[n]+1, len(msg), msg)
	}
	return b.Bytes()
}

func sortedKeys(m map[string]int) []string {
	ks := make([]string, 0, len(m))
	for k := range m {
		ks = append(ks, k)
	}
	sort.Strings(ks)
	return ks
}

func quotePath(p string) string {
	if strings.ContainsAny(p, "\"\n\\") || strings.HasPrefix(p, "\"") || strings.Contains(p, " ") {
		var b strings.Builder
		b.WriteByte('"')
		for i := 0; i < len(p); i++ {
			switch ch := p[i]; ch {
			case '"', '\\':
				b.WriteByte('\\')
				b.WriteByte(ch)
			case '\n':
				b.WriteString("\\n")
			default:
				b.WriteByte(ch)
			}
		}
		b.WriteByte('"')
		return b.String()
	}
	return p
}

// Pick returns a random element.
func Pick[T any](r *rand.Rand, xs []T) T { return xs[r.Intn(len(xs))] }
