// Package wtlab builds dirty-worktree scenarios for the porcelain properties
// (C29, C30): an imported history in which every commit i is the tip of branch
// c<i>, per-case copies switched to a chosen current commit, local edits of
// named kinds placed relative to the (current -> target) tree diff, and a
// state-based analysis of which uncommitted changes survived an operation.
package wtlab

import (
	"fmt"
	"math/rand"
	"os"
	"path/filepath"
	"sort"
	"strings"
	"sync"

	"verif/internal/fsguard"
	"verif/internal/gen"
	"verif/internal/gitx"
	"verif/internal/obs"
)

var importMu sync.Mutex

// Base is an imported history. Commit i is reachable as branch c<i>.
type Base struct {
	Dir string
	H   *gen.History
	IDs []string
	// SameTree: pairs (i, j) of distinct commits with identical trees, j a descendant of i.
	SameTree [][2]int
	anc      [][]bool
}

// NewBaseSameTree is NewBase plus commits whose tree equals the tree of an earlier commit:
// two empty commits (child with the parent's tree) and one revert followed by a revert of the
// revert. SameTree lists the (commit, later commit with the identical tree) pairs.
func NewBaseSameTree(g *gitx.Git, r *rand.Rand, dir string, o gen.HistOpts) (*Base, error) {
	return newBase(g, r, dir, o, true)
}

// NewBase generates and imports a history into dir (created).
func NewBase(g *gitx.Git, r *rand.Rand, dir string, o gen.HistOpts) (*Base, error) {
	return newBase(g, r, dir, o, false)
}

func newBase(g *gitx.Git, r *rand.Rand, dir string, o gen.HistOpts, sameTree bool) (*Base, error) {
	h := gen.RandomHistory(r, o)
	var same [][2]int
	if sameTree {
		n := len(h.Commits)
		add := func(parent int, tree gen.Tree, msg string) int {
			c := h.Commits[parent]
			h.Commits = append(h.Commits, gen.Commit{Parents: []int{parent}, Tree: tree.Clone(), Time: c.Time + 50, ATime: c.Time + 50, Zone: "+0000", Msg: msg + "\n"})
			return len(h.Commits) - 1
		}
		for k := 0; k < 2; k++ {
			i := r.Intn(n)
			same = append(same, [2]int{i, add(i, h.Commits[i].Tree, "empty commit")})
		}
		for try := 0; try < 20; try++ {
			i := r.Intn(n)
			if len(h.Commits[i].Parents) == 0 {
				continue
			}
			rv := add(i, h.Commits[h.Commits[i].Parents[0]].Tree, "revert")
			same = append(same, [2]int{i, add(rv, h.Commits[i].Tree, "revert of revert")})
			break
		}
	}
	h.Branches = map[string]int{}
	for i := range h.Commits {
		h.Branches[fmt.Sprintf("c%d", i)] = i
	}
	if err := g.Init(dir, false, "sha1"); err != nil {
		return nil, err
	}
	importMu.Lock() // gitx.Import names its marks file after the call counter: not safe concurrently
	ids, err := g.Import(dir, h)
	importMu.Unlock()
	if err != nil {
		return nil, err
	}
	if res := g.Run(dir, "checkout", "-q", "-f", "-B", "cur", "c0"); !res.OK() {
		return nil, fmt.Errorf("checkout base: %s", res)
	}
	// the base is its own "origin": every copy can pull any commit i as branch c<i> from it
	if res := g.Run(dir, "remote", "add", "origin", dir); !res.OK() {
		return nil, fmt.Errorf("remote add: %s", res)
	}
	b := &Base{Dir: dir, H: h, IDs: ids, SameTree: same}
	n := len(h.Commits)
	b.anc = make([][]bool, n)
	for i := 0; i < n; i++ {
		b.anc[i] = make([]bool, n)
		b.anc[i][i] = true
		for _, p := range h.Commits[i].Parents {
			for j := 0; j < n; j++ {
				if b.anc[p][j] {
					b.anc[i][j] = true
				}
			}
		}
	}
	return b, nil
}

// IsAncestor reports whether commit a is an ancestor of (or equal to) commit d.
func (b *Base) IsAncestor(a, d int) bool { return b.anc[d][a] }

// Tree returns the tree of commit i.
func (b *Base) Tree(i int) gen.Tree { return b.H.Commits[i].Tree }

func sameFile(a, b gen.File) bool { return a.Mode == b.Mode && string(a.Content) == string(b.Content) }

func hasDir(t gen.Tree, p string) bool {
	for q := range t {
		if strings.HasPrefix(q, p+"/") {
			return true
		}
	}
	return false
}

func fileAbove(t gen.Tree, p string) bool {
	for i := 0; i < len(p); i++ {
		if p[i] == '/' {
			if _, ok := t[p[:i]]; ok {
				return true
			}
		}
	}
	return false
}

// Rel classifies path p relative to the switch cur -> tgt.
func Rel(p string, cur, tgt gen.Tree) string {
	cf, inCur := cur[p]
	tf, inTgt := tgt[p]
	switch {
	case inCur && inTgt:
		if sameFile(cf, tf) {
			return "same"
		}
		return "modified"
	case inCur:
		if hasDir(tgt, p) {
			return "deleted-t-dir"
		}
		if fileAbove(tgt, p) {
			return "deleted-t-file-above"
		}
		return "deleted"
	case inTgt:
		return "added"
	case hasDir(tgt, p):
		return "t-dir-at"
	case fileAbove(tgt, p):
		return "t-file-above"
	}
	return "none"
}

// placeable: an untracked/new file can be created at p in a worktree that holds tree t.
func placeable(t gen.Tree, p string) bool {
	if _, ok := t[p]; ok {
		return false
	}
	return !hasDir(t, p) && !fileAbove(t, p)
}

// Edit is one local (uncommitted) change.
type Edit struct {
	Kind string `json:"kind"` // unstaged-mod unstaged-del unstaged-mode staged-mod staged-mod+unstaged-mod staged-add staged-del staged-del-cached untracked
	Path string `json:"path"`
	Rel  string `json:"rel"`
	N    int    `json:"n"`
}

// TrackedKinds need an existing regular tracked file; NewKinds need a free path.
var TrackedKinds = []string{"unstaged-mod", "unstaged-del", "unstaged-mode", "staged-mod", "staged-mod+unstaged-mod", "staged-del", "staged-del-cached"}
var NewKinds = []string{"staged-add", "untracked"}

func isTrackedKind(k string) bool {
	if k == "unstaged-to-emptydir" { // not part of TrackedKinds: only used by checks that ask for it
		return true
	}
	for _, x := range TrackedKinds {
		if x == k {
			return true
		}
	}
	return false
}

// Candidates lists the paths (with relation) at which an edit of the kind is possible for cur -> tgt.
func Candidates(kind string, cur, tgt gen.Tree, n int) []Edit {
	var out []Edit
	if isTrackedKind(kind) {
		for _, p := range cur.Paths() {
			f := cur[p]
			if f.Mode != "100644" && f.Mode != "100755" {
				continue
			}
			out = append(out, Edit{Kind: kind, Path: p, Rel: Rel(p, cur, tgt), N: n})
		}
		return out
	}
	seen := map[string]bool{}
	add := func(p string) {
		if seen[p] || !placeable(cur, p) {
			return
		}
		seen[p] = true
		out = append(out, Edit{Kind: kind, Path: p, Rel: Rel(p, cur, tgt), N: n})
	}
	for _, p := range tgt.Paths() {
		add(p) // added
		for i := 0; i < len(p); i++ {
			if p[i] == '/' {
				add(p[:i]) // t-dir-at
			}
		}
		if f := tgt[p]; f.Mode != "160000" {
			add(p + fmt.Sprintf("/u%d", n)) // t-file-above (also inside a directory of cur that becomes a file)
		}
	}
	add(fmt.Sprintf("zz%d", n))
	for _, p := range cur.Paths() {
		if i := strings.LastIndex(p, "/"); i > 0 {
			add(p[:i] + fmt.Sprintf("/zz%d", n)) // inside a tracked directory
		}
	}
	return out
}

// Conflicts reports whether two edit paths collide (same path or one inside the other).
func Conflicts(a, b string) bool {
	return a == b || strings.HasPrefix(a, b+"/") || strings.HasPrefix(b, a+"/")
}

// PickEdit chooses a candidate of the kind, preferring relation wantRel ("" = any), avoiding used paths.
func PickEdit(r *rand.Rand, kind, wantRel string, cur, tgt gen.Tree, n int, used []string) (Edit, bool) {
	cs := Candidates(kind, cur, tgt, n)
	var ok, pref []Edit
	for _, e := range cs {
		bad := false
		for _, u := range used {
			if Conflicts(u, e.Path) {
				bad = true
			}
		}
		if bad {
			continue
		}
		ok = append(ok, e)
		if e.Rel == wantRel {
			pref = append(pref, e)
		}
	}
	if wantRel != "" {
		if len(pref) == 0 {
			return Edit{}, false
		}
		return pref[r.Intn(len(pref))], true
	}
	if len(ok) == 0 {
		return Edit{}, false
	}
	return ok[r.Intn(len(ok))], true
}

func payload(e Edit, round int) []byte {
	return []byte(fmt.Sprintf("LOCAL %s #%d.%d precious\n", e.Kind, e.N, round))
}

func appendFile(p string, b []byte) error {
	f, err := os.OpenFile(p, os.O_WRONLY|os.O_APPEND, 0)
	if err != nil {
		return err
	}
	if _, err := f.Write(b); err != nil {
		f.Close()
		return err
	}
	return f.Close()
}

// Apply performs the edit in the repository at dir (using real git for staging).
func Apply(g *gitx.Git, dir string, e Edit) error {
	full := filepath.Join(dir, filepath.FromSlash(e.Path))
	gitDo := func(args ...string) error {
		a := append([]string{"--literal-pathspecs"}, args...)
		if res := g.Run(dir, a...); !res.OK() {
			return fmt.Errorf("git %v: %s", args, res)
		}
		return nil
	}
	switch e.Kind {
	case "unstaged-mod":
		return appendFile(full, payload(e, 0))
	case "unstaged-del":
		return os.Remove(full)
	case "unstaged-to-emptydir": // tracked file replaced by an (empty) directory: reading it as a file fails
		if err := os.Remove(full); err != nil {
			return err
		}
		return os.Mkdir(full, 0o755)
	case "unstaged-mode":
		fi, err := os.Lstat(full)
		if err != nil {
			return err
		}
		if fi.Mode().Perm()&0o100 != 0 {
			return os.Chmod(full, 0o644)
		}
		return os.Chmod(full, 0o755)
	case "staged-mod":
		if err := appendFile(full, payload(e, 0)); err != nil {
			return err
		}
		return gitDo("add", "--", e.Path)
	case "staged-mod+unstaged-mod":
		if err := appendFile(full, payload(e, 0)); err != nil {
			return err
		}
		if err := gitDo("add", "--", e.Path); err != nil {
			return err
		}
		return appendFile(full, payload(e, 1))
	case "staged-add":
		if err := os.MkdirAll(filepath.Dir(full), 0o755); err != nil {
			return err
		}
		if err := os.WriteFile(full, payload(e, 0), 0o644); err != nil {
			return err
		}
		return gitDo("add", "--", e.Path)
	case "staged-del":
		return gitDo("rm", "-q", "--", e.Path)
	case "staged-del-cached":
		return gitDo("rm", "-q", "--cached", "--", e.Path)
	case "untracked":
		if err := os.MkdirAll(filepath.Dir(full), 0o755); err != nil {
			return err
		}
		return os.WriteFile(full, payload(e, 0), 0o644)
	}
	return fmt.Errorf("unknown edit kind %q", e.Kind)
}

// Materialize copies the base to dir, switches it to commit cur on branch "cur",
// registers the base as remote "origin" and applies the edits.
func (b *Base) Materialize(g *gitx.Git, dir string, cur int, edits []Edit) error {
	if err := CopyTree(b.Dir, dir); err != nil {
		return err
	}
	if res := g.Run(dir, "checkout", "-q", "-f", "-B", "cur", fmt.Sprintf("c%d", cur)); !res.OK() {
		return fmt.Errorf("checkout cur: %s", res)
	}
	for _, e := range edits {
		if err := Apply(g, dir, e); err != nil {
			return fmt.Errorf("edit %+v: %w", e, err)
		}
	}
	return nil
}

// Snap is the observable state plus HEAD-tree and index maps.
type Snap struct {
	St       obs.State
	HeadTree map[string]string // path -> "mode id"
	Index    map[string]string // path -> "mode id" (stage 0 only; other stages keyed path#stage)
}

// TakeLight observes only what the loss analysis needs: index entries, the
// worktree digests and (withStatus) git status. Two or one git processes.
func TakeLight(g *gitx.Git, dir string, withStatus bool) Snap {
	s := Snap{HeadTree: map[string]string{}, Index: map[string]string{}}
	s.St.Refs = map[string]string{}
	r := g.Run(dir, "--no-optional-locks", "ls-files", "-s", "-z")
	if !r.OK() {
		s.St.GitError += "ls-files: " + string(r.Err)
	}
	s.St.Index = splitZ(r.Out)
	if withStatus {
		r = g.Run(dir, "--no-optional-locks", "status", "--porcelain=v1", "-z", "--untracked-files=all", "--no-renames")
		if !r.OK() {
			s.St.GitError += "status: " + string(r.Err)
		}
		s.St.Status = splitZ(r.Out)
		sort.Strings(s.St.Status)
	}
	s.St.Files = obs.Worktree(dir)
	s.fillIndex()
	return s
}

func splitZ(b []byte) []string {
	if len(b) == 0 {
		return nil
	}
	return strings.Split(strings.TrimRight(string(b), "\x00"), "\x00")
}

// Take observes the repository at dir.
func Take(g *gitx.Git, dir string) Snap {
	s := Snap{St: obs.Observe(g, dir), HeadTree: map[string]string{}, Index: map[string]string{}}
	if s.St.HeadID != "" {
		r := g.Run(dir, "ls-tree", "-r", "-z", "HEAD")
		for _, ln := range strings.Split(strings.TrimRight(string(r.Out), "\x00"), "\x00") {
			if i := strings.IndexByte(ln, '\t'); i > 0 {
				f := strings.Fields(ln[:i])
				if len(f) == 3 {
					s.HeadTree[ln[i+1:]] = f[0] + " " + f[2]
				}
			}
		}
	}
	s.fillIndex()
	return s
}

func (s *Snap) fillIndex() {
	for _, ln := range s.St.Index {
		if i := strings.IndexByte(ln, '\t'); i > 0 {
			f := strings.Fields(ln[:i])
			if len(f) == 3 {
				k := ln[i+1:]
				if f[2] != "0" {
					k += "#" + f[2]
				}
				s.Index[k] = f[0] + " " + f[1]
			}
		}
	}
}

// Local is one path with an uncommitted change, as git status reports it.
type Local struct {
	Path string `json:"path"`
	X    byte   `json:"x"`
	Y    byte   `json:"y"`
}

// Locals parses the status entries of a snapshot.
func Locals(s Snap) []Local {
	var out []Local
	for _, e := range s.St.Status {
		if len(e) < 4 {
			continue
		}
		out = append(out, Local{Path: e[3:], X: e[0], Y: e[1]})
	}
	sort.Slice(out, func(i, j int) bool { return out[i].Path < out[j].Path })
	return out
}

// SameEntry compares two worktree entries for type, exec bit and content.
func SameEntry(a, b fsguard.Entry, aok, bok bool) (bool, string) {
	switch {
	case !aok && !bok:
		return true, ""
	case aok && !bok:
		return false, "removed"
	case !aok && bok:
		return false, "recreated"
	case a.Mode.Type() != b.Mode.Type():
		return false, "type-changed"
	case a.Sum != b.Sum || a.Size != b.Size:
		return false, "content-changed"
	case a.Mode.Perm()&0o100 != b.Mode.Perm()&0o100:
		return false, "mode-changed"
	}
	return true, ""
}

// Loss is one uncommitted change that did not survive.
type Loss struct {
	Path string `json:"path"`
	Kind string `json:"kind"` // untracked, unstaged-mod, unstaged-del, unstaged-type, staged-mod, staged-add, staged-del, staged-type
	What string `json:"what"`
}

func yKind(y byte) string {
	switch y {
	case 'M':
		return "unstaged-mod"
	case 'D':
		return "unstaged-del"
	case 'T':
		return "unstaged-type"
	case '?':
		return "untracked"
	}
	return "unstaged-" + string(y)
}

func xKind(x byte) string {
	switch x {
	case 'M':
		return "staged-mod"
	case 'A':
		return "staged-add"
	case 'D':
		return "staged-del"
	case 'T':
		return "staged-type"
	}
	return "staged-" + string(x)
}

// LocalKind names the kind(s) of a status entry.
func LocalKind(l Local) string {
	if l.X == '?' {
		return "untracked"
	}
	var k []string
	if l.X != ' ' {
		k = append(k, xKind(l.X))
	}
	if l.Y != ' ' {
		k = append(k, yKind(l.Y))
	}
	return strings.Join(k, "+")
}

// Losses lists the uncommitted changes of pre that are no longer present in post:
// worktree side – the file at a locally changed/untracked path no longer has its
// pre content, type and exec bit; index side – the staged entry changed and the
// staged content is not retained in the worktree file either.
func Losses(pre, post Snap) []Loss {
	var out []Loss
	for _, l := range Locals(pre) {
		w0, ok0 := pre.St.Files[l.Path]
		w1, ok1 := post.St.Files[l.Path]
		same, what := SameEntry(w0, w1, ok0, ok1)
		if l.X == '?' || l.Y != ' ' {
			if !same {
				out = append(out, Loss{l.Path, yKind(map[bool]byte{true: '?', false: l.Y}[l.X == '?']), "worktree-" + what})
			}
		}
		if l.X != ' ' && l.X != '?' {
			i0, iok0 := pre.Index[l.Path]
			i1, iok1 := post.Index[l.Path]
			if iok0 == iok1 && i0 == i1 {
				continue
			}
			if l.Y == ' ' && ok0 && same {
				continue // staged content still sits in the worktree file
			}
			w := "index-entry-changed"
			if !iok1 {
				w = "index-entry-removed"
			} else if !iok0 {
				w = "index-entry-restored"
			}
			out = append(out, Loss{l.Path, xKind(l.X), w})
		}
	}
	return out
}

// CopyTree copies a directory tree in-process (no child process), preserving
// modes, modification times and symlinks – enough for git's stat cache to stay
// as valid as after `cp -a`.
func CopyTree(src, dst string) error {
	return filepath.Walk(src, func(p string, info os.FileInfo, err error) error {
		if err != nil {
			return err
		}
		rel, _ := filepath.Rel(src, p)
		q := filepath.Join(dst, rel)
		switch {
		case info.IsDir():
			return os.MkdirAll(q, info.Mode().Perm()|0o700)
		case info.Mode()&os.ModeSymlink != 0:
			t, err := os.Readlink(p)
			if err != nil {
				return err
			}
			return os.Symlink(t, q)
		case info.Mode().IsRegular():
			b, err := os.ReadFile(p)
			if err != nil {
				return err
			}
			if err := os.WriteFile(q, b, info.Mode().Perm()); err != nil {
				return err
			}
			os.Chmod(q, info.Mode().Perm())
			return os.Chtimes(q, info.ModTime(), info.ModTime())
		}
		return nil
	})
}
