// C16: reference updates are atomic compare-and-swap operations.
//
// Monitor: N concurrent CAS writers + R readers (+ optional PackRefs loop) on
// one reference of a real on-disk repository, in goroutine mode (each client
// has its own Storage instance, or all share one) and in process mode (child
// processes of this binary). Every call/return is recorded at the client
// boundary with CLOCK_MONOTONIC; all written values are unique, so reads
// identify their write. Oracles: (1) version-chain check (timing-free): every
// successful CAS consumed a distinct predecessor, the chain from the initial
// value has exactly as many links as successful CASes, the final on-disk
// value is the chain end; (2) reader check: a read must return a value that
// was current at some instant of its interval (never absent/empty/stale);
// (3) porcupine linearizability of CAS+valid reads against a register.
// Race detector on.
package main

import (
	"bufio"
	"encoding/json"
	"errors"
	"fmt"
	"math/rand"
	"os"
	"os/exec"
	"path/filepath"
	"runtime"
	"sort"
	"strings"
	"sync"
	"time"

	"github.com/anishathalye/porcupine"
	"github.com/go-git/go-billy/v6/osfs"
	"golang.org/x/sys/unix"

	"github.com/go-git/go-git/v6/plumbing"
	"github.com/go-git/go-git/v6/plumbing/cache"
	"github.com/go-git/go-git/v6/storage"
	"github.com/go-git/go-git/v6/storage/filesystem"

	"verif/internal/gitx"
	"verif/internal/recfs"
	"verif/internal/vf"
)

const refName = plumbing.ReferenceName("refs/heads/x")

// values differ only in the last 4 bytes so that a comparison on a prefix would accept a wrong old value.
func value(client, n int) plumbing.Hash {
	return plumbing.NewHash(fmt.Sprintf("aaaaaaaaaaaaaaaaaaaaaaaaaaaaaaaa%02x%06x", client, n))
}

func now() int64 {
	var ts unix.Timespec
	unix.ClockGettime(unix.CLOCK_MONOTONIC, &ts)
	return ts.Nano()
}

// ev is one completed client operation.
type ev struct {
	Client int    `json:"c"`
	Kind   string `json:"k"` // "read" | "cas"
	Old    string `json:"old,omitempty"`
	New    string `json:"new,omitempty"`
	Out    string `json:"out"` // read: value | "ABSENT" | "ERR:.."; cas: "ok" | "changed" | "unknown:.."
	Call   int64  `json:"t0"`
	Ret    int64  `json:"t1"`
}

type clientCfg struct {
	id      int
	ops     int
	reader  bool
	seed    int64
	perturb bool
}

func openStorage(dir string, rec *recfs.Rec) *filesystem.Storage {
	var fs = osfs.New(filepath.Join(dir, ".git"))
	if rec != nil {
		return filesystem.NewStorage(recfs.Wrap(fs, rec), cache.NewObjectLRUDefault())
	}
	return filesystem.NewStorage(fs, cache.NewObjectLRUDefault())
}

func runClient(st *filesystem.Storage, cfg clientCfg, out *[]ev, mu *sync.Mutex) {
	r := rand.New(rand.NewSource(cfg.seed))
	n := 0
	add := func(e ev) {
		mu.Lock()
		*out = append(*out, e)
		mu.Unlock()
	}
	read := func() (string, bool) {
		t0 := now()
		ref, err := st.Reference(refName)
		t1 := now()
		e := ev{Client: cfg.id, Kind: "read", Call: t0, Ret: t1}
		ok := false
		switch {
		case err == nil && ref.Type() == plumbing.HashReference:
			e.Out = ref.Hash().String()
			ok = true
		case err == nil:
			e.Out = "ERR:not-a-hash-ref:" + ref.String()
		case errors.Is(err, plumbing.ErrReferenceNotFound):
			e.Out = "ABSENT"
		default:
			e.Out = "ERR:" + err.Error()
		}
		add(e)
		return e.Out, ok
	}
	for i := 0; i < cfg.ops; i++ {
		if cfg.perturb && r.Intn(3) == 0 {
			runtime.Gosched()
		}
		cur, ok := read()
		if cfg.reader || !ok {
			continue
		}
		n++
		nv := value(cfg.id, n)
		t0 := now()
		err := st.CheckAndSetReference(plumbing.NewHashReference(refName, nv), plumbing.NewHashReference(refName, plumbing.NewHash(cur)))
		t1 := now()
		e := ev{Client: cfg.id, Kind: "cas", Old: cur, New: nv.String(), Call: t0, Ret: t1}
		switch {
		case err == nil:
			e.Out = "ok"
		case errors.Is(err, storage.ErrReferenceHasChanged):
			e.Out = "changed"
		default:
			e.Out = "unknown:" + err.Error()
		}
		add(e)
	}
}

// child process entry: VERIF_C16_CHILD=dir|id|ops|reader|seed|logfile
func childMain(spec string) {
	f := strings.Split(spec, "|")
	var id, ops int
	var seed int64
	fmt.Sscan(f[1], &id)
	fmt.Sscan(f[2], &ops)
	fmt.Sscan(f[4], &seed)
	st := openStorage(f[0], nil)
	var evs []ev
	var mu sync.Mutex
	if f[3] == "packer" {
		for i := 0; i < ops; i++ {
			st.PackRefs()
			time.Sleep(time.Duration(50+i%7*30) * time.Microsecond)
		}
	} else {
		runClient(st, clientCfg{id: id, ops: ops, reader: f[3] == "reader", seed: seed}, &evs, &mu)
	}
	w, err := os.Create(f[5])
	if err != nil {
		os.Exit(3)
	}
	bw := bufio.NewWriter(w)
	enc := json.NewEncoder(bw)
	for _, e := range evs {
		enc.Encode(e)
	}
	bw.Flush()
	w.Close()
	os.Exit(0)
}

type history struct {
	Mode      string `json:"mode"`
	Init      string `json:"init_state"`
	Writers   int    `json:"writers"`
	Readers   int    `json:"readers"`
	Packer    bool   `json:"packer"`
	Shared    bool   `json:"shared_storage"`
	Initial   string `json:"initial"`
	Final     string `json:"final"`
	Events    []ev   `json:"events"`
	PackCalls int    `json:"pack_calls"`
}

func main() {
	if spec := os.Getenv("VERIF_C16_CHILD"); spec != "" {
		childMain(spec)
		return
	}
	vf.Main("C16", "exploration",
		"histories = N in {2,4,8} CAS writers (read current, CAS to a unique value) + R in {0,1,4} readers on one ref, initial state loose / packed-only / loose+stale-packed, optional concurrent PackRefs loop; goroutine mode (own or shared Storage, fs-call schedule perturbation) and process mode (child processes); non-trivial = history with >= 2 successful CASes by >= 2 distinct clients; distinct = order of clients along the version chain",
		run)
}

func run(c *vf.Ctx) {
	g := gitx.New(c.Scratch)
	nh := c.N(240, 1400)
	initial := value(0xee, 0)
	var hmu sync.Mutex
	totalEvents := 0
	vf.Parallel(nh, 6, func(i int) {
		r := c.Rand("hist", i)
		h := history{Initial: initial.String()}
		t0h := time.Now()
		defer func() { c.Count("wall_ms_"+h.Mode, int(time.Since(t0h).Milliseconds())) }()
		h.Writers = []int{2, 4, 8}[r.Intn(3)]
		h.Readers = []int{0, 1, 4}[r.Intn(3)]
		h.Packer = r.Intn(2) == 0
		h.Init = []string{"loose", "packed", "loose+stalepacked"}[r.Intn(3)]
		if i%4 == 3 {
			h.Mode = "process"
		} else {
			h.Mode = "goroutine"
			h.Shared = r.Intn(2) == 0
		}
		ops := 12 + r.Intn(c.N(30, 80))
		dir := c.TempDir("repo")
		defer os.RemoveAll(dir)
		if err := g.Init(dir, false, "sha1"); err != nil {
			c.Broken("git init: %v", err)
			return
		}
		gd := filepath.Join(dir, ".git")
		switch h.Init {
		case "loose":
			os.WriteFile(filepath.Join(gd, "refs/heads/x"), []byte(initial.String()+"\n"), 0o644)
		case "packed":
			os.WriteFile(filepath.Join(gd, "packed-refs"), []byte("# pack-refs with: peeled fully-peeled sorted \n"+initial.String()+" refs/heads/x\n"), 0o644)
		default:
			os.WriteFile(filepath.Join(gd, "packed-refs"), []byte("# pack-refs with: peeled fully-peeled sorted \n"+value(0xdd, 0).String()+" refs/heads/x\n"), 0o644)
			os.WriteFile(filepath.Join(gd, "refs/heads/x"), []byte(initial.String()+"\n"), 0o644)
		}
		var evs []ev
		var mu sync.Mutex
		// quiescent read before any client starts: must be the initial value
		if ref, err := openStorage(dir, nil).Reference(refName); err != nil || ref.Hash() != initial {
			c.Fail("quiescent-read-wrong:initial:"+h.Init, fmt.Sprintf("with no concurrent activity Reference() = %v, %v; expected the initial value (init=%s)", ref, err, h.Init), h)
			return
		}
		c.Count("quiescent_reads", 1)
		if h.Mode == "goroutine" {
			var wg sync.WaitGroup
			var shared *filesystem.Storage
			mkRec := func(seed int64) *recfs.Rec {
				rec := recfs.New()
				pr := rand.New(rand.NewSource(seed))
				var pmu sync.Mutex
				rec.Hook = func(kind, p string) {
					pmu.Lock()
					x := pr.Intn(20)
					pmu.Unlock()
					switch {
					case x < 6:
						runtime.Gosched()
					case x == 6:
						time.Sleep(time.Duration(20+x*10) * time.Microsecond)
					}
				}
				return rec
			}
			if h.Shared {
				shared = openStorage(dir, mkRec(r.Int63()))
			}
			stop := make(chan struct{})
			var pwg sync.WaitGroup
			if h.Packer {
				pst := shared
				if pst == nil {
					pst = openStorage(dir, mkRec(r.Int63()))
				}
				pwg.Add(1)
				go func() {
					defer pwg.Done()
					for {
						select {
						case <-stop:
							return
						default:
						}
						pst.PackRefs()
						mu.Lock()
						h.PackCalls++
						mu.Unlock()
						time.Sleep(100 * time.Microsecond)
					}
				}()
			}
			for k := 0; k < h.Writers+h.Readers; k++ {
				st := shared
				if st == nil {
					st = openStorage(dir, mkRec(r.Int63()))
				}
				cfg := clientCfg{id: k + 1, ops: ops, reader: k >= h.Writers, seed: r.Int63(), perturb: true}
				wg.Add(1)
				go func() {
					defer wg.Done()
					if p, stk := vf.Catch(func() { runClient(st, cfg, &evs, &mu) }); p != nil {
						c.Fail("panic", fmt.Sprintf("client panicked: %v\n%s", p, stk), nil)
					}
				}()
			}
			wg.Wait()
			close(stop)
			pwg.Wait()
		} else {
			var cmds []*exec.Cmd
			var logs []string
			n := h.Writers + h.Readers
			if h.Packer {
				n++
			}
			for k := 0; k < n; k++ {
				role := "writer"
				if k >= h.Writers {
					role = "reader"
				}
				if h.Packer && k == n-1 {
					role = "packer"
				}
				lf := filepath.Join(dir, fmt.Sprintf("log%d.jsonl", k))
				logs = append(logs, lf)
				cmd := exec.Command(os.Args[0])
				cmd.Env = append(os.Environ(), fmt.Sprintf("VERIF_C16_CHILD=%s|%d|%d|%s|%d|%s", dir, k+1, ops, role, r.Int63(), lf), "GORACE=halt_on_error=0")
				cmd.Stderr = nil
				cmds = append(cmds, cmd)
			}
			for _, cmd := range cmds {
				if err := cmd.Start(); err != nil {
					c.Broken("start child: %v", err)
					return
				}
			}
			for _, cmd := range cmds {
				done := make(chan error, 1)
				go func() { done <- cmd.Wait() }()
				select {
				case err := <-done:
					if err != nil {
						c.Inconclusive("child failed: %v", err)
						return
					}
				case <-time.After(5 * time.Minute):
					cmd.Process.Kill()
					c.Inconclusive("child process watchdog fired")
					return
				}
			}
			for _, lf := range logs {
				f, err := os.Open(lf)
				if err != nil {
					continue
				}
				sc := bufio.NewScanner(f)
				for sc.Scan() {
					var e ev
					if json.Unmarshal(sc.Bytes(), &e) == nil {
						evs = append(evs, e)
					}
				}
				f.Close()
			}
		}
		// final value as a fresh instance sees it, and as git sees it
		fst := openStorage(dir, nil)
		if ref, err := fst.Reference(refName); err == nil {
			h.Final = ref.Hash().String()
		} else {
			h.Final = "ERR:" + err.Error()
		}
		gitFinal, gerr := g.MustOut(dir, "rev-parse", "--verify", "-q", "refs/heads/x")
		sort.Slice(evs, func(a, b int) bool { return evs[a].Call < evs[b].Call })
		h.Events = evs
		hmu.Lock()
		totalEvents += len(evs)
		hmu.Unlock()
		check(c, &h, gitFinal, gerr)
	})
	c.Extra("events", totalEvents)
	c.Extra("git_invocations", gitx.Calls.Load())
	c.Floor("histories", c.Counter("histories"), c.N(220, 1250))
	c.Floor("histories whose CAS-only part porcupine found linearizable", c.Counter("porcupine_cas_ok"), c.N(80, 400))
	c.Floor("cross-process histories", c.Counter("process_histories"), c.N(45, 250))
	c.Floor("histories without PackRefs whose version chain is sound", c.Counter("histories_with_sound_chain"), c.N(80, 400))
	c.Floor("distinct interleavings (client order along the version chain)", c.SeenCount("interleavings"), c.N(80, 350))
	c.Floor("successful CAS observed", c.Counter("cas_ok"), c.N(3000, 15000))
	c.Floor("failed (changed) CAS observed", c.Counter("cas_changed"), c.N(300, 1200))
	c.Assume("timestamps from CLOCK_MONOTONIC taken immediately before the call and after the return at the client boundary")
	c.Assume("spurious CAS failures are not violations (the property speaks about successful updates)")
}

func check(c *vf.Ctx, h *history, gitFinal string, gerr error) {
	c.Count("histories", 1)
	if h.Mode == "process" {
		c.Count("process_histories", 1)
	}
	succ := map[string]ev{} // old -> cas
	written := map[string]ev{}
	var oks []ev
	unknown := 0
	chainBad := false
	for _, e := range h.Events {
		if e.Kind != "cas" {
			continue
		}
		switch {
		case e.Out == "ok":
			c.Count("cas_ok", 1)
			oks = append(oks, e)
			written[e.New] = e
			if prev, dup := succ[e.Old]; dup {
				c.Fail("lost-update:two-cas-consumed-same-predecessor"+suffix(h),
					fmt.Sprintf("two successful CASes expected the same old value %s: client %d -> %s and client %d -> %s (mode=%s init=%s packer=%v)", e.Old, prev.Client, prev.New, e.Client, e.New, h.Mode, h.Init, h.Packer), h)
				chainBad = true
				continue
			}
			succ[e.Old] = e
		case e.Out == "changed":
			c.Count("cas_changed", 1)
		default:
			unknown++
			c.Count("cas_unknown", 1)
			c.Seen("cas_unknown_errors", trim(e.Out))
		}
	}
	// walk the chain
	cur := h.Initial
	var order []string
	steps := 0
	for {
		e, ok := succ[cur]
		if !ok {
			break
		}
		order = append(order, fmt.Sprint(e.Client))
		cur = e.New
		steps++
		if steps > len(oks)+1 {
			break
		}
	}
	if unknown == 0 && !chainBad {
		if steps != len(oks) {
			c.Fail("lost-update:chain-broken"+suffix(h),
				fmt.Sprintf("%d successful CASes but the version chain from the initial value has %d links: some successful CAS was made against a value that was never current (mode=%s init=%s packer=%v)", len(oks), steps, h.Mode, h.Init, h.Packer), h)
			chainBad = true
		} else if h.Final != cur {
			c.Fail("lost-update:final-not-chain-end"+suffix(h),
				fmt.Sprintf("final value %s is not the end of the version chain %s (mode=%s init=%s packer=%v)", h.Final, cur, h.Mode, h.Init, h.Packer), h)
			chainBad = true
		} else if gerr != nil || gitFinal != cur {
			c.Fail("final:git-disagrees"+suffix(h), fmt.Sprintf("git rev-parse refs/heads/x = %q (%v), chain end %s", gitFinal, gerr, cur), h)
			chainBad = true
		}
	}
	clients := map[int]bool{}
	for _, e := range oks {
		clients[e.Client] = true
	}
	shape := strings.Join(order, ",")
	c.Eval(shape, len(oks) >= 2 && len(clients) >= 2)
	c.Seen("interleavings", vf.ShapeHash(shape))
	c.Seen("configs", fmt.Sprintf("%s/%s/w%d/r%d/pack=%v/shared=%v", h.Mode, h.Init, h.Writers, h.Readers, h.Packer, h.Shared))
	if h.Packer {
		c.Count("histories_with_packer", 1)
	}
	if chainBad {
		c.Count("histories_with_broken_chain", 1)
		return // reader oracles need a sound version chain
	}
	c.Count("histories_with_sound_chain", 1)
	// reader check: position of each value along the chain
	pos := map[string]int{h.Initial: 0}
	cur = h.Initial
	for i := 1; ; i++ {
		e, ok := succ[cur]
		if !ok || i > len(oks)+1 {
			break
		}
		pos[e.New] = i
		cur = e.New
	}
	var lin []porcupine.Operation
	for _, e := range h.Events {
		if e.Kind == "cas" {
			lin = append(lin, porcupine.Operation{ClientId: e.Client, Input: e, Call: e.Call, Output: e.Out, Return: e.Ret})
			continue
		}
		c.Count("reads", 1)
		switch {
		case e.Out == "ABSENT":
			c.Fail("reader-sees-absent"+suffix(h), fmt.Sprintf("a concurrent reader got 'reference not found' although the reference always had a value (mode=%s init=%s packer=%v)", h.Mode, h.Init, h.Packer), h)
			continue
		case strings.HasPrefix(e.Out, "ERR:"):
			c.Fail("reader-sees-error"+suffix(h)+":"+trim(e.Out), fmt.Sprintf("a concurrent reader got %s (mode=%s init=%s packer=%v)", e.Out, h.Mode, h.Init, h.Packer), h)
			continue
		}
		p, known := pos[e.Out]
		if !known {
			if _, w := written[e.Out]; !w && unknown == 0 {
				c.Fail("reader-sees-never-written-value"+suffix(h), fmt.Sprintf("read returned %s which no successful CAS wrote and is not the initial value (stale packed value?)", e.Out), h)
			}
			continue
		}
		// v was current from write(v).call (at the earliest) until successor(v).return (at the latest)
		if w, ok := written[e.Out]; ok && w.Call > e.Ret {
			c.Fail("reader-sees-future-value"+suffix(h), fmt.Sprintf("read returned %s before its CAS was invoked", e.Out), h)
			continue
		}
		if s, ok := succ[e.Out]; ok && s.Ret < e.Call {
			c.Fail("reader-sees-stale-value"+suffix(h), fmt.Sprintf("read (client %d) returned %s (version %d) although the CAS replacing it had already returned before the read was invoked (mode=%s init=%s packer=%v)", e.Client, e.Out, p, h.Mode, h.Init, h.Packer), h)
			continue
		}
		c.Count("reads_valid", 1)
		lin = append(lin, porcupine.Operation{ClientId: e.Client, Input: e, Call: e.Call, Output: e.Out, Return: e.Ret})
	}
	// porcupine: CAS-only history must be linearizable; then CAS + valid reads
	if unknown == 0 && len(lin) <= 400 {
		model := porcupine.Model{
			Init: func() interface{} { return h.Initial },
			Step: func(st, in, out interface{}) (bool, interface{}) {
				e := in.(ev)
				s := st.(string)
				if e.Kind == "read" {
					return out.(string) == s, s
				}
				if out.(string) == "ok" {
					return s == e.Old, e.New
				}
				return true, s // failed CAS: no effect (spurious failures tolerated)
			},
			Equal: func(a, b interface{}) bool { return a.(string) == b.(string) },
		}
		var casOnly []porcupine.Operation
		for _, o := range lin {
			if o.Input.(ev).Kind == "cas" {
				casOnly = append(casOnly, o)
			}
		}
		switch porcupine.CheckOperationsTimeout(model, casOnly, 30*time.Second) {
		case porcupine.Illegal:
			c.Fail("cas-not-linearizable"+suffix(h), fmt.Sprintf("porcupine: the CAS-only history is not linearizable w.r.t. a register (mode=%s init=%s packer=%v)", h.Mode, h.Init, h.Packer), h)
		case porcupine.Ok:
			c.Count("porcupine_cas_ok", 1)
			switch porcupine.CheckOperationsTimeout(model, lin, 30*time.Second) {
			case porcupine.Ok:
				c.Count("porcupine_ok", 1)
			case porcupine.Illegal:
				c.Fail("reader-not-linearizable"+suffix(h), fmt.Sprintf("porcupine: CAS history is linearizable but no linearization explains the values concurrent readers returned (mode=%s init=%s packer=%v)", h.Mode, h.Init, h.Packer), h)
			default:
				c.Count("porcupine_unknown", 1)
			}
		default:
			c.Count("porcupine_unknown", 1)
		}
	}
	c.Sample(map[string]any{"mode": h.Mode, "init": h.Init, "writers": h.Writers, "readers": h.Readers, "packer": h.Packer, "events": len(h.Events), "chain_clients": shape, "first_events": head(h.Events, 6)})
}

// suffix distinguishes the circumstances that matter for triage: whether PackRefs ran concurrently.
func suffix(h *history) string {
	if h.Packer {
		return ":with-concurrent-packrefs"
	}
	return ""
}

func trim(s string) string {
	if len(s) > 60 {
		s = s[:60]
	}
	return s
}

func head(e []ev, n int) []ev {
	if len(e) > n {
		return e[:n]
	}
	return e
}
