// C43: history traversal visits each reachable commit exactly once, in an order
// satisfying the order's contract; time/tail limits select git's commits;
// commit-graph-backed walks agree with object-backed walks.
//
// Monitor: real go-git Repository.Log (all LogOrder values, From/All/Since/Until/To)
// and the commit-node walkers of plumbing/object/commitgraph (object-backed and
// backed by a commit-graph file written by git) on on-disk repositories built by
// git. A set/contract model over the generated DAG screens every walk; every
// disagreement (capped per finding key) and a deterministic sample are confirmed
// with git rev-list before anything is reported.
package main

import (
	"fmt"
	"os"
	"sort"
	"strings"
	"sync"
	"sync/atomic"
	"time"

	git "github.com/go-git/go-git/v6"
	"github.com/go-git/go-git/v6/plumbing"

	"verif/internal/dagx"
	"verif/internal/gen"
	"verif/internal/gitx"
	"verif/internal/vf"
)

const workers = 8

func main() {
	vf.Main("C43", "exploration",
		"cases = (history, start, walker/order, limit); exhaustive part: every isomorphism class of DAGs with n<=N commits and <=2 parents x weak orderings of committer time (all for n=4, every sixth for n=5; parent order flipped on every second ordering) x every start x {6 Repository.Log orders, 4 commit-node walkers x {object-backed, commit-graph-backed}, Since/Until at every distinct time, To at every reachable commit}; random part: DAGs of 3..32 commits with octopus merges, skewed committer and independent author times, branches, lightweight and annotated tags (some tips reachable only through an annotated tag), HEAD walks and All walks; non-trivial = walk over >=3 commits containing a merge or a time inversion/tie; shape = (iso class or size class, time class, walker, limit kind); oracle = set reachability + per-order contract model, disagreements and a sample confirmed with git rev-list",
		run)
}

type space struct {
	name   string
	dir    string
	comps  []*hist
	off    []int
	ids    []string
	cls    []string
	refs   map[string]int // random spaces: full ref name -> node (for All), comp 0
	head   int            // node HEAD resolves to (-1 none)
	atags  map[string]int // annotated tag name -> node
	idMaps []map[plumbing.Hash]int
}

func (sp *space) id(ci, node int) string { return sp.ids[sp.off[ci]+node] }

// finding is a walk whose result disagrees with the model; confirmed with git before being reported.
type finding struct {
	Space  string `json:"space"`
	Comp   int    `json:"comp"`
	Kind   string `json:"kind"`   // walk | contract | since | until | to | all | node | node-contract | head
	Walker string `json:"walker"` // order or node walker (+ backing)
	Start  int    `json:"start"`
	Since  *int64 `json:"since,omitempty"`
	Until  *int64 `json:"until,omitempty"`
	To     int    `json:"to"`
	Seq    []int  `json:"gogit_sequence"`
	Want   []int  `json:"expected_set"`
	Err    string `json:"error,omitempty"`
	Detail string `json:"detail,omitempty"`
	Key    string `json:"-"`
	sample bool
}

type checker struct {
	c   *vf.Ctx
	g   *gitx.Git
	mu  sync.Mutex
	q   []finding
	nS  atomic.Int64
	cap map[string]int
}

func (k *checker) add(f finding) {
	k.mu.Lock()
	k.q = append(k.q, f)
	k.mu.Unlock()
}

func sampled(every int, parts ...any) bool {
	h := vf.ShapeHash(parts...)
	var v uint64
	fmt.Sscanf(h[:8], "%x", &v)
	return v%uint64(every) == 0
}

func run(c *vf.Ctx) {
	g := gitx.New(c.Scratch)
	k := &checker{c: c, g: g, cap: map[string]int{}}
	t0 := time.Now() // log only

	// ---------------- exhaustive sub-space ----------------
	maxN := c.N(4, 5)
	sp := &space{name: "exh", head: -1}
	var dcomps []dagx.DAG
	classes := 0
	for n := 4; n <= maxN; n++ {
		orders := dagx.WeakOrders(n)
		for _, ps := range dagx.UniqueDAGs(n, 2) {
			key := dagx.CanonKey(ps)
			classes++
			for oi, ord := range orders {
				if n == 5 && !c.Quick() && oi%6 != classes%6 {
					continue // n=5: every sixth time ordering per class (all 541 in rotation over classes)
				}
				h := &hist{}
				for i := range ps {
					p := append([]int(nil), ps[i]...)
					if oi%2 == 1 && len(p) == 2 {
						p[0], p[1] = p[1], p[0]
					}
					h.parents = append(h.parents, p)
					t := 1600000000 + int64(ord[i])*100
					h.ctime = append(h.ctime, t)
					h.atime = append(h.atime, t)
				}
				sp.comps = append(sp.comps, h)
				sp.cls = append(sp.cls, key)
				dcomps = append(dcomps, dagx.DAG{Parents: h.parents, Time: h.ctime})
			}
		}
	}
	m := dagx.NewMulti(dcomps)
	sp.off = m.Off
	sp.dir = c.TempDir("exh")
	c.Must(g.Init(sp.dir, false, "sha1"), "git init")
	ids, err := m.Import(g, sp.dir)
	c.Must(err, "import exhaustive space")
	sp.ids = ids
	if r := g.RunIn(sp.dir, []byte(strings.Join(ids, "\n")+"\n"), "commit-graph", "write", "--stdin-commits"); !r.OK() {
		c.Broken("commit-graph write: %s", r)
		return
	}
	c.Extra("exhaustive", false)
	c.Extra("exhaustive_subspace", fmt.Sprintf("DAGs with 4..%d commits, <=2 parents, %d isomorphism classes x weak orderings of committer time (all 75 for n=4; every sixth of the 541 for n=5) = %d components; every start, order, walker, Since/Until threshold and To commit enumerated", maxN, classes, len(sp.comps)))
	c.Count("components_exhaustive", len(sp.comps))
	fmt.Printf("phase exh import %.1fs\n", time.Since(t0).Seconds())
	k.runSpace(sp, nil)
	fmt.Printf("phase exh walks %.1fs\n", time.Since(t0).Seconds())
	k.confirm(sp)
	fmt.Printf("phase exh confirm %.1fs\n", time.Since(t0).Seconds())

	// ---------------- random sub-space ----------------
	nh := c.N(10, 60)
	var tmu sync.Mutex
	vf.Parallel(nh, workers, func(i int) {
		r := c.Rand("hist", i)
		n := 3 + r.Intn(30)
		gh := gen.RandomHistory(r, gen.HistOpts{N: n, MergeProb: 0.15 + 0.5*r.Float64(), Octopus: true, SkewTime: r.Intn(3) > 0, Files: 1, Path: gen.PathOpts{Depth: 1}, Branches: 2 + r.Intn(3)})
		h := &hist{}
		for ci := range gh.Commits {
			cm := &gh.Commits[ci]
			if r.Intn(2) == 0 {
				cm.ATime = 1600000000 + int64(r.Intn(5000))
			}
			h.parents = append(h.parents, cm.Parents)
			h.ctime = append(h.ctime, cm.Time)
			h.atime = append(h.atime, cm.ATime)
		}
		// tags; move some non-master tips from a branch to an annotated tag only
		rs := &space{name: fmt.Sprintf("rnd%d", i), comps: []*hist{h}, off: []int{0}, refs: map[string]int{}, atags: map[string]int{}, head: -1,
			cls: []string{fmt.Sprintf("rnd-n%d-m%d", n/8, min(merges(h), 6)/2)}}
		for _, name := range sortedKeys(gh.Branches) {
			if name != "master" && r.Intn(3) == 0 {
				gh.ATags["only-"+strings.ReplaceAll(name, "/", "-")] = gh.Branches[name]
				delete(gh.Branches, name)
			}
		}
		for t := 0; t < r.Intn(3); t++ {
			gh.Tags[fmt.Sprintf("lt%d", t)] = r.Intn(n)
		}
		for t := 0; t < r.Intn(2); t++ {
			gh.ATags[fmt.Sprintf("at%d", t)] = r.Intn(n)
		}
		for name, x := range gh.Branches {
			rs.refs["refs/heads/"+name] = x
		}
		for name, x := range gh.Tags {
			rs.refs["refs/tags/"+name] = x
		}
		for name, x := range gh.ATags {
			rs.atags["refs/tags/"+name] = x
		}
		if x, ok := gh.Branches["master"]; ok {
			rs.head = x
		}
		tmu.Lock()
		rs.dir = c.TempDir(rs.name)
		tmu.Unlock()
		defer os.RemoveAll(rs.dir)
		if err := g.Init(rs.dir, false, "sha1"); err != nil {
			c.Broken("init: %v", err)
			return
		}
		ids, err := gitx.New(rs.dir+".home").Import(rs.dir, gh) // own HOME per repository: gitx.Import names its marks file after the global call counter, which two parallel imports can share
		if err != nil {
			c.Broken("import: %v", err)
			return
		}
		rs.ids = ids
		if res := g.Run(rs.dir, "commit-graph", "write", "--reachable"); !res.OK() {
			c.Broken("commit-graph write --reachable: %s", res)
			return
		}
		k.runSpace(rs, r)
		k.confirm(rs)
		c.Count("random_histories", 1)
	})
	fmt.Printf("phase random %.1fs\n", time.Since(t0).Seconds())

	c.Extra("git_invocations", gitx.Calls.Load())
	for _, o := range logOrders {
		c.Floor("walks with order "+o.name, c.Counter("walk_"+o.name), c.N(2000, 20000))
	}
	for _, w := range nodeWalkers {
		c.Floor("object-backed "+w, c.Counter("node_"+w+"_object"), c.N(2000, 20000))
		c.Floor("commit-graph-backed "+w, c.Counter("node_"+w+"_graph"), c.N(2000, 20000))
	}
	c.Floor("Since/Until walks", c.Counter("limit_since")+c.Counter("limit_until")+c.Counter("limit_both"), c.N(10000, 100000))
	c.Floor("To walks", c.Counter("limit_to"), c.N(5000, 50000))
	c.Floor("All walks", c.Counter("walk_all"), c.N(50, 300))
	c.Floor("git confirmations", c.Counter("git_confirmations"), c.N(150, 500))
	c.Floor("walks over skewed or tied times", c.Counter("walks_nonmonotone"), c.N(20000, 200000))
	c.Assume("time limits: oracle is real git (`rev-list --max-age/--min-age`, default streaming walk), modelled as 'a commit older than --since is not shown and its parents are not followed'; model validated against git on the sample and on every reported case")
	c.Assume("tail limit To (documented 'go down until it reaches the commit', inclusive): git expression `rev-list from --not to^@`, evaluated as reach(from) minus reach(parents(to)) from two exact git rev-list outputs; only To commits reachable from From are in the domain")
	c.Assume("order contracts checked only as far as promised: DFS = definitional pre-order; DFSPost = documented 'merged commit before base' for two-parent merges; BSF = non-decreasing distance; CommitterTime/node-ctime = newest of the frontier; node topo/date/author-date = no parent before a child, date orders additionally newest ready commit first (git --date-order/--author-date-order)")
	c.Assume("PathFilter/FileName are outside the property statement and not exercised")
}

func merges(h *hist) int {
	n := 0
	for _, p := range h.parents {
		if len(p) > 1 {
			n++
		}
	}
	return n
}

func sortedKeys(m map[string]int) []string {
	ks := make([]string, 0, len(m))
	for k := range m {
		ks = append(ks, k)
	}
	sort.Strings(ks)
	return ks
}

// runSpace walks every component of the space. r == nil: exhaustive enumeration of starts/limits.
func (k *checker) runSpace(sp *space, r interface{ Intn(int) int }) {
	c := k.c
	nw := workers
	if r != nil {
		nw = 1
	}
	var next atomic.Int64
	var wg sync.WaitGroup
	for w := 0; w < nw; w++ {
		wg.Add(1)
		go func() {
			defer wg.Done()
			v, err := openView(sp.dir)
			if err != nil {
				c.Broken("open %s: %v", sp.dir, err)
				return
			}
			defer v.close()
			for {
				ci := int(next.Add(1) - 1)
				if ci >= len(sp.comps) {
					return
				}
				k.walkComp(sp, v, ci, r)
			}
		}()
	}
	wg.Wait()
}

func (k *checker) screen(f finding, ok bool, sampleEvery int) {
	if !ok {
		k.c.Count("model_disagreements", 1)
		k.add(f)
		return
	}
	if sampled(sampleEvery, f.Space, f.Comp, f.Kind, f.Walker, f.Start, f.To, f.Since, f.Until) {
		f.sample = true
		k.add(f)
	}
}

func (k *checker) walkComp(sp *space, v *repoView, ci int, r interface{ Intn(int) int }) {
	c := k.c
	h := sp.comps[ci]
	n := len(h.parents)
	idOf := make(map[plumbing.Hash]int, n)
	for i := 0; i < n; i++ {
		idOf[plumbing.NewHash(sp.id(ci, i))] = i
	}
	every := c.N(1500, 9000)
	if r != nil {
		every = c.N(150, 400)
	}
	var starts []int
	if r == nil {
		for i := 0; i < n; i++ {
			starts = append(starts, i)
		}
	} else {
		starts = append(starts, n-1)
		for j := 0; j < 3; j++ {
			starts = append(starts, r.Intn(n))
		}
	}
	for si, s := range starts {
		reach := h.reach(s)
		tcl := h.timeClass(reach)
		nontrivial := len(reach) >= 3 && (h.hasMerge(reach) || tcl != "monotone")
		shape := sp.cls[ci] + "|" + tcl
		startH := plumbing.NewHash(sp.id(ci, s))
		note := func(counter string) {
			c.Count(counter, 1)
			if tcl != "monotone" {
				c.Count("walks_nonmonotone", 1)
			}
		}
		// ---- 1. plain orders
		for _, o := range logOrders {
			res := v.runLog(&git.LogOptions{From: startH, Order: o.order}, idOf)
			want := reach
			if o.name == "dfspost-firstparent" {
				want = map[int]bool{}
				for _, x := range h.firstParentChain(s) {
					want[x] = true
				}
			}
			note("walk_" + o.name)
			c.Eval(shape+"|"+o.name, nontrivial)
			f := finding{Space: sp.name, Comp: ci, Kind: "walk", Walker: o.name, Start: s, To: -1, Seq: res.seq, Want: keys(want)}
			if res.panic != "" || res.err != "" {
				f.Err = res.err + res.panic
				f.Key = "walk:" + o.name + ":error"
				if res.panic != "" {
					f.Key = "walk:" + o.name + ":panic"
				}
				k.screen(f, false, every)
				continue
			}
			d := compareSet(res.seq, want)
			f.Key = "walk:" + o.name + ":" + d.kind()
			k.screen(f, d.ok(), every)
			if !d.ok() {
				continue
			}
			// order contract (definitional; nothing for git to confirm)
			var viol string
			switch o.name {
			case "default", "dfs":
				viol = h.contractDFS(res.seq, s)
			case "dfspost":
				viol = h.contractPostDoc(res.seq)
			case "bsf":
				viol = h.contractBFS(res.seq, s)
			case "ctime":
				viol = h.contractFrontierMax(res.seq, s, h.ctime)
			case "dfspost-firstparent":
				fp := h.firstParentChain(s)
				for i := range fp {
					if res.seq[i] != fp[i] {
						viol = fmt.Sprintf("position %d: node %d, first-parent chain has %d", i, res.seq[i], fp[i])
						break
					}
				}
			}
			c.Count("contract_checks", 1)
			if viol != "" {
				f.Kind, f.Detail, f.Key = "contract", viol, "contract:"+o.name+":"+tcl
				k.reportDirect(sp, f, fmt.Sprintf("Repository.Log order %s from node %d breaks the order's contract: %s", o.name, s, viol))
			}
		}
		// ---- 2. commit-node walkers, object-backed and commit-graph-backed
		for _, wk := range nodeWalkers {
			for _, graph := range []bool{false, true} {
				if graph && v.cgIdx == nil {
					continue
				}
				backing := "object"
				if graph {
					backing = "graph"
				}
				res := v.runNode(wk, graph, startH, idOf)
				note("node_" + wk + "_" + backing)
				c.Eval(shape+"|"+wk+"|"+backing, nontrivial)
				f := finding{Space: sp.name, Comp: ci, Kind: "node", Walker: wk + "/" + backing, Start: s, To: -1, Seq: res.seq, Want: keys(reach)}
				family := "node-topological" // topo/date/author-date share one iterator implementation
				if wk == "node-ctime" {
					family = "node-ctime"
				}
				if res.panic != "" || res.err != "" {
					f.Err = res.err + res.panic
					f.Key = family + ":" + backing + "-backed:error"
					if res.panic != "" {
						f.Key = family + ":" + backing + "-backed:panic"
					}
					k.screen(f, false, every)
					continue
				}
				d := compareSet(res.seq, reach)
				f.Key = family + ":" + backing + "-backed:" + d.kind()
				k.screen(f, d.ok(), every)
				if !d.ok() {
					continue
				}
				var viol string
				switch wk {
				case "node-ctime":
					viol = h.contractFrontierMax(res.seq, s, h.ctime)
				case "node-topo":
					viol = h.contractTopo(res.seq)
				case "node-date":
					viol = h.contractReadyMax(res.seq, s, h.ctime)
				case "node-authordate":
					viol = h.contractReadyMax(res.seq, s, h.atime)
				}
				c.Count("contract_checks", 1)
				if viol != "" {
					f.Kind, f.Detail = "node-contract", viol
					sub := "order"
					if strings.HasPrefix(viol, "parent ") {
						sub = "parent-before-child"
					}
					f.Key = "node-contract:" + wk + ":" + backing + ":" + sub + ":" + tcl
					k.add(f) // confirmed against git's own --topo-order/--date-order output
					c.Count("model_disagreements", 1)
				}
			}
		}
		// ---- 3. time limits
		var thresholds []int64
		{
			seen := map[int64]bool{}
			for x := range reach {
				if !seen[h.ctime[x]] {
					seen[h.ctime[x]] = true
					thresholds = append(thresholds, h.ctime[x])
				}
			}
			sort.Slice(thresholds, func(i, j int) bool { return thresholds[i] < thresholds[j] })
			if r != nil && len(thresholds) > 4 {
				// random spaces: 4 thresholds incl. one between two times
				pick := []int64{thresholds[r.Intn(len(thresholds))], thresholds[r.Intn(len(thresholds))] + 1, thresholds[len(thresholds)/2], thresholds[r.Intn(len(thresholds))] - 1}
				thresholds = pick
			}
		}
		limOrders := []int{0, 3, 4, 2} // default, bsf, ctime, dfspost
		for ti, th := range thresholds {
			th := th
			for variant := 0; variant < 3; variant++ {
				var since, until *int64
				kind := ""
				switch variant {
				case 0:
					since, kind = &th, "since"
				case 1:
					until, kind = &th, "until"
				case 2:
					if ti+1 >= len(thresholds) || thresholds[ti+1] < th {
						continue
					}
					u := thresholds[len(thresholds)-1]
					if ti+1 < len(thresholds)-1 {
						u = thresholds[ti+1]
					}
					since, until, kind = &th, &u, "both"
				}
				o := logOrders[limOrders[(ti+variant+si)%len(limOrders)]]
				opt := &git.LogOptions{From: startH, Order: o.order}
				if since != nil {
					opt.Since = tptr(*since)
				}
				if until != nil {
					opt.Until = tptr(*until)
				}
				res := v.runLog(opt, idOf)
				want := h.gitSince(s, since, until)
				note("limit_" + kind)
				c.Eval(shape+"|"+kind+"|"+o.name, nontrivial)
				f := finding{Space: sp.name, Comp: ci, Kind: kind, Walker: o.name, Start: s, To: -1, Since: since, Until: until, Seq: res.seq, Want: keys(want)}
				if res.panic != "" || res.err != "" {
					f.Err = res.err + res.panic
					f.Key = kind + ":error"
					k.screen(f, false, every)
					continue
				}
				d := compareSet(res.seq, want)
				if !d.ok() {
					filt := h.dateFilter(s, since, until)
					if since != nil && tcl == "skewed" && d.kind() == "extra" && compareSet(res.seq, filt).ok() {
						// go-git yields exactly the date-filtered reachable set: the known mechanism
						f.Key = "since-walks-past-old-commit"
					} else {
						f.Key = kind + ":" + d.kind() + ":" + tcl
					}
				}
				k.screen(f, d.ok(), every)
			}
		}
		// ---- 4. tail limit
		tos := keys(reach)
		if r != nil && len(tos) > 4 {
			tos = []int{tos[r.Intn(len(tos))], tos[r.Intn(len(tos))], tos[r.Intn(len(tos))], tos[0]}
		}
		for ti, to := range tos {
			o := logOrders[limOrders[(ti+si)%len(limOrders)]]
			res := v.runLog(&git.LogOptions{From: startH, Order: o.order, To: plumbing.NewHash(sp.id(ci, to))}, idOf)
			want := h.tailSet(s, to)
			note("limit_to")
			c.Eval(shape+"|to|"+o.name, nontrivial)
			f := finding{Space: sp.name, Comp: ci, Kind: "to", Walker: o.name, Start: s, To: to, Seq: res.seq, Want: keys(want)}
			if res.panic != "" || res.err != "" {
				f.Err = res.err + res.panic
				f.Key = "to:error"
				k.screen(f, false, every)
				continue
			}
			d := compareSet(res.seq, want)
			if !d.ok() {
				switch {
				case !h.hasMerge(reach):
					f.Key = "to:linear-history:" + d.kind()
				case len(d.Duplicate) > 0 || d.Foreign > 0:
					f.Key = "to:" + d.kind()
				default:
					// known mechanism: the unlimited walk of that order, cut right after To
					full := v.runLog(&git.LogOptions{From: startH, Order: o.order}, idOf)
					cut := -1
					for i, x := range full.seq {
						if x == to {
							cut = i
							break
						}
					}
					if cut >= 0 && equalSeq(full.seq[:cut+1], res.seq) {
						switch d.kind() {
						case "missing":
							f.Key = "tail-stops-iteration-before-other-branches"
						case "extra":
							f.Key = "tail-yields-ancestors-of-tail-visited-before-it"
						default:
							f.Key = "tail-stops-iteration-before-other-branches+yields-ancestors-of-tail"
						}
					} else {
						f.Key = "to:unexplained:" + d.kind()
					}
				}
			}
			k.screen(f, d.ok(), every)
		}
	}
	// ---- 5. HEAD and All (random spaces only)
	if r != nil {
		if sp.head >= 0 {
			res := v.runLog(&git.LogOptions{}, idOf)
			want := h.reach(sp.head)
			c.Count("walk_head", 1)
			f := finding{Space: sp.name, Comp: ci, Kind: "head", Walker: "default", Start: sp.head, To: -1, Seq: res.seq, Want: keys(want), Err: res.err + res.panic}
			d := compareSet(res.seq, want)
			f.Key = "head:" + d.kind()
			if f.Err != "" {
				f.Key = "head:error"
			}
			k.screen(f, d.ok() && f.Err == "", 3)
		}
		var tips []int
		for _, x := range sp.refs {
			tips = append(tips, x)
		}
		for _, x := range sp.atags {
			tips = append(tips, x)
		}
		if sp.head >= 0 {
			tips = append(tips, sp.head)
		}
		want := h.reach(tips...)
		branchOnly := []int{}
		for _, x := range sp.refs {
			branchOnly = append(branchOnly, x)
		}
		if sp.head >= 0 {
			branchOnly = append(branchOnly, sp.head)
		}
		noAtags := h.reach(branchOnly...)
		fullWant, fullNoAtags := want, noAtags
		for _, o := range logOrders {
			want, noAtags := fullWant, fullNoAtags
			if o.name == "dfspost-firstparent" {
				// git rev-list --first-parent --all: union of the first-parent chains of all tips
				want, noAtags = map[int]bool{}, map[int]bool{}
				for _, t := range tips {
					for _, x := range h.firstParentChain(t) {
						want[x] = true
					}
				}
				for _, t := range branchOnly {
					for _, x := range h.firstParentChain(t) {
						noAtags[x] = true
					}
				}
			}
			res := v.runLog(&git.LogOptions{All: true, Order: o.order}, idOf)
			c.Count("walk_all", 1)
			c.Eval(sp.cls[ci]+"|all|"+o.name, len(want) >= 3)
			f := finding{Space: sp.name, Comp: ci, Kind: "all", Walker: o.name, Start: -1, To: -1, Seq: res.seq, Want: keys(want), Err: res.err + res.panic}
			if f.Err != "" {
				f.Key = "all:" + o.name + ":error"
				k.screen(f, false, 7)
				continue
			}
			d := compareSet(res.seq, want)
			if !d.ok() {
				f.Key = "all:" + o.name + ":" + d.kind()
				if d.kind() == "missing" {
					// which known mechanism explains it?
					if compareSet(res.seq, noAtags).ok() {
						f.Key = "all:annotated-tag-tips-ignored"
					} else {
						// known mechanism (addReference stops walking a ref at the first commit that is already
						// listed): HEAD's own history is complete and every branch/lightweight-tag tip itself is
						// listed; only commits behind an already listed commit are lost
						got := toSet(res.seq)
						explained := true
						if sp.head >= 0 {
							hw := h.reach(sp.head)
							if o.name == "dfspost-firstparent" {
								hw = toSet(h.firstParentChain(sp.head))
							}
							for x := range hw {
								if !got[x] {
									explained = false
								}
							}
						}
						for _, t := range branchOnly {
							if !got[t] {
								explained = false
							}
						}
						if explained {
							f.Key = "all:missing-commits-behind-first-already-listed-commit"
							for _, t := range sp.atags {
								if !got[t] && want[t] { // the commit an annotated tag points at is itself missing
									f.Key += "+annotated-tag-tips-ignored"
									break
								}
							}
						} else {
							f.Key = "all:" + o.name + ":missing-unexplained"
						}
					}
				}
			}
			k.screen(f, d.ok(), 7)
		}
	}
}

func equalSeq(a, b []int) bool {
	if len(a) != len(b) {
		return false
	}
	for i := range a {
		if a[i] != b[i] {
			return false
		}
	}
	return true
}

// reportDirect reports a definitional contract violation (no git equivalent exists for the order).
func (k *checker) reportDirect(sp *space, f finding, what string) {
	h := sp.comps[f.Comp]
	k.c.Fail(f.Key, what+fmt.Sprintf(" (parents=%v ctimes=%v sequence=%v)", h.parents, rel(h.ctime), f.Seq),
		map[string]any{"parents": h.parents, "ctime": h.ctime, "finding": f})
}

func rel(t []int64) []int64 {
	out := make([]int64, len(t))
	for i, x := range t {
		out[i] = x - 1600000000
	}
	return out
}
