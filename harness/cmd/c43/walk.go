package main

import (
	"fmt"
	"os"
	"path/filepath"
	"time"

	git "github.com/go-git/go-git/v6"
	"github.com/go-git/go-git/v6/plumbing"
	fcg "github.com/go-git/go-git/v6/plumbing/format/commitgraph"
	"github.com/go-git/go-git/v6/plumbing/object"
	ocg "github.com/go-git/go-git/v6/plumbing/object/commitgraph"

	"verif/internal/vf"
)

// repoView is one opened repository plus the mapping hash -> node index of the component under test.
type repoView struct {
	repo   *git.Repository
	objIdx ocg.CommitNodeIndex
	cgIdx  ocg.CommitNodeIndex // nil when no commit-graph file
	cgFile fcg.Index
}

func openView(dir string) (*repoView, error) {
	repo, err := git.PlainOpen(dir)
	if err != nil {
		return nil, err
	}
	v := &repoView{repo: repo, objIdx: ocg.NewObjectCommitNodeIndex(repo.Storer)}
	p := filepath.Join(dir, ".git", "objects", "info", "commit-graph")
	if f, err := os.Open(p); err == nil {
		idx, err := fcg.OpenFileIndex(f)
		if err != nil {
			f.Close()
			return nil, fmt.Errorf("open commit-graph: %w", err)
		}
		v.cgFile = idx
		v.cgIdx = ocg.NewGraphCommitNodeIndex(idx, repo.Storer)
	}
	return v, nil
}

func (v *repoView) close() {
	if v.cgFile != nil {
		v.cgFile.Close()
	}
	v.repo.Close()
}

var logOrders = []struct {
	name  string
	order git.LogOrder
}{
	{"default", git.LogOrderDefault},
	{"dfs", git.LogOrderDFS},
	{"dfspost", git.LogOrderDFSPost},
	{"bsf", git.LogOrderBSF},
	{"ctime", git.LogOrderCommitterTime},
	{"dfspost-firstparent", git.LogOrderDFSPostFirstParent},
}

type walkResult struct {
	seq   []int
	err   string
	panic string
}

// runLog runs Repository.Log with the options and maps the yielded commits to node indices through idOf.
func (v *repoView) runLog(o *git.LogOptions, idOf map[plumbing.Hash]int) walkResult {
	var r walkResult
	p, st := vf.Catch(func() {
		it, err := v.repo.Log(o)
		if err != nil {
			r.err = err.Error()
			return
		}
		defer it.Close()
		n := 0
		err = it.ForEach(func(c *object.Commit) error {
			if i, ok := idOf[c.Hash]; ok {
				r.seq = append(r.seq, i)
			} else {
				r.seq = append(r.seq, -1)
			}
			n++
			if n > 100000 {
				return fmt.Errorf("runaway iteration")
			}
			return nil
		})
		if err != nil {
			r.err = err.Error()
		}
	})
	if p != nil {
		r.panic = fmt.Sprintf("%v\n%s", p, st)
	}
	return r
}

var nodeWalkers = []string{"node-ctime", "node-topo", "node-date", "node-authordate"}

// runNode runs one commit-node walker, object-backed or commit-graph-backed.
func (v *repoView) runNode(walker string, graph bool, start plumbing.Hash, idOf map[plumbing.Hash]int) walkResult {
	var r walkResult
	idx := v.objIdx
	if graph {
		idx = v.cgIdx
	}
	p, st := vf.Catch(func() {
		node, err := idx.Get(start)
		if err != nil {
			r.err = err.Error()
			return
		}
		var it ocg.CommitNodeIter
		switch walker {
		case "node-ctime":
			it = ocg.NewCommitNodeIterCTime(node, nil, nil)
		case "node-topo":
			it = ocg.NewCommitNodeIterTopoOrder(node, nil, nil)
		case "node-date":
			it = ocg.NewCommitNodeIterDateOrder(node, nil, nil)
		case "node-authordate":
			it = ocg.NewCommitNodeIterAuthorDateOrder(node, nil, nil)
		}
		defer it.Close()
		n := 0
		err = it.ForEach(func(c ocg.CommitNode) error {
			if i, ok := idOf[c.ID()]; ok {
				r.seq = append(r.seq, i)
			} else {
				r.seq = append(r.seq, -1)
			}
			n++
			if n > 100000 {
				return fmt.Errorf("runaway iteration")
			}
			return nil
		})
		if err != nil {
			r.err = err.Error()
		}
	})
	if p != nil {
		r.panic = fmt.Sprintf("%v\n%s", p, st)
	}
	return r
}

func tptr(sec int64) *time.Time {
	t := time.Unix(sec, 0).UTC()
	return &t
}
