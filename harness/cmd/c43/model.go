package main

import (
	"fmt"
	"sort"
)

// hist is one commit graph as generated (ordered parents!), with committer and author times.
type hist struct {
	parents [][]int
	ctime   []int64
	atime   []int64
}

func (h *hist) reach(starts ...int) map[int]bool {
	seen := map[int]bool{}
	st := append([]int(nil), starts...)
	for len(st) > 0 {
		x := st[len(st)-1]
		st = st[:len(st)-1]
		if seen[x] {
			continue
		}
		seen[x] = true
		st = append(st, h.parents[x]...)
	}
	return seen
}

func (h *hist) firstParentChain(start int) []int {
	var out []int
	for x := start; ; {
		out = append(out, x)
		if len(h.parents[x]) == 0 {
			return out
		}
		x = h.parents[x][0]
	}
}

// dfsPre is the definitional depth-first pre-order with parents taken in recorded order.
func (h *hist) dfsPre(start int) []int {
	seen := map[int]bool{}
	var out []int
	var visit func(x int)
	visit = func(x int) {
		seen[x] = true
		out = append(out, x)
		for _, p := range h.parents[x] {
			if !seen[p] {
				visit(p)
			}
		}
	}
	visit(start)
	return out
}

func (h *hist) timeClass(set map[int]bool) string {
	cls := "monotone"
	for x := range set {
		for _, p := range h.parents[x] {
			if h.ctime[x] < h.ctime[p] {
				return "skewed"
			}
			if h.ctime[x] == h.ctime[p] {
				cls = "ties"
			}
		}
	}
	return cls
}

func (h *hist) hasMerge(set map[int]bool) bool {
	for x := range set {
		if len(h.parents[x]) > 1 {
			return true
		}
	}
	return false
}

// gitSince models `git rev-list --max-age=S [--min-age=U] from` (streaming, unlimited walk):
// a commit older than S is neither shown nor are its parents followed; --min-age only filters.
func (h *hist) gitSince(start int, since *int64, until *int64) map[int]bool {
	out := map[int]bool{}
	seen := map[int]bool{start: true}
	st := []int{start}
	for len(st) > 0 {
		x := st[len(st)-1]
		st = st[:len(st)-1]
		if since != nil && h.ctime[x] < *since {
			continue
		}
		for _, p := range h.parents[x] {
			if !seen[p] {
				seen[p] = true
				st = append(st, p)
			}
		}
		if until != nil && h.ctime[x] > *until {
			continue
		}
		out[x] = true
	}
	return out
}

// dateFilter is the pure filter over everything reachable (what a limit iterator on top of a full walk yields).
func (h *hist) dateFilter(start int, since, until *int64) map[int]bool {
	out := map[int]bool{}
	for x := range h.reach(start) {
		if since != nil && h.ctime[x] < *since {
			continue
		}
		if until != nil && h.ctime[x] > *until {
			continue
		}
		out[x] = true
	}
	return out
}

// tailSet is `git rev-list from --not to^@`: everything reachable from start that is not reachable from to's parents.
func (h *hist) tailSet(start, to int) map[int]bool {
	ex := h.reach(h.parents[to]...)
	out := map[int]bool{}
	for x := range h.reach(start) {
		if !ex[x] {
			out[x] = true
		}
	}
	return out
}

// ---- result analysis

type setDiff struct {
	Missing   []int `json:"missing,omitempty"`
	Extra     []int `json:"extra,omitempty"`
	Duplicate []int `json:"duplicate,omitempty"`
	Foreign   int   `json:"foreign,omitempty"` // yielded hashes that are not commits of this history
}

func (d setDiff) ok() bool {
	return len(d.Missing) == 0 && len(d.Extra) == 0 && len(d.Duplicate) == 0 && d.Foreign == 0
}

func compareSet(seq []int, want map[int]bool) setDiff {
	var d setDiff
	cnt := map[int]int{}
	for _, x := range seq {
		if x < 0 {
			d.Foreign++
			continue
		}
		cnt[x]++
	}
	for x, n := range cnt {
		if n > 1 {
			d.Duplicate = append(d.Duplicate, x)
		}
		if !want[x] {
			d.Extra = append(d.Extra, x)
		}
	}
	for x := range want {
		if cnt[x] == 0 {
			d.Missing = append(d.Missing, x)
		}
	}
	sort.Ints(d.Missing)
	sort.Ints(d.Extra)
	sort.Ints(d.Duplicate)
	return d
}

func (d setDiff) kind() string {
	switch {
	case d.Foreign > 0:
		return "foreign"
	case len(d.Duplicate) > 0:
		return "duplicate"
	case len(d.Missing) > 0 && len(d.Extra) > 0:
		return "missing+extra"
	case len(d.Missing) > 0:
		return "missing"
	case len(d.Extra) > 0:
		return "extra"
	}
	return "ok"
}

// ---- order contracts (only as far as each order promises)

// contractDFS: exact definitional pre-order.
func (h *hist) contractDFS(seq []int, start int) string {
	want := h.dfsPre(start)
	if len(seq) != len(want) {
		return fmt.Sprintf("length %d != %d", len(seq), len(want))
	}
	for i := range seq {
		if seq[i] != want[i] {
			return fmt.Sprintf("position %d: got node %d, depth-first pre-order gives %d", i, seq[i], want[i])
		}
	}
	return ""
}

// contractPostDoc: documented promise of the "post-order" walker: after a merge commit the merged commit
// (second parent) is walked before the base (first parent) — checked for two-parent merges whose parents were
// both unvisited when the merge was yielded.
func (h *hist) contractPostDoc(seq []int) string {
	pos := map[int]int{}
	for i, x := range seq {
		if _, ok := pos[x]; !ok {
			pos[x] = i
		}
	}
	for i, x := range seq {
		ps := h.parents[x]
		if len(ps) != 2 || ps[0] == ps[1] {
			continue
		}
		p0, ok0 := pos[ps[0]]
		p1, ok1 := pos[ps[1]]
		if ok0 && ok1 && p0 > i && p1 > i && p1 > p0 {
			return fmt.Sprintf("merge %d: base %d (pos %d) walked before merged commit %d (pos %d)", x, ps[0], p0, ps[1], p1)
		}
	}
	return ""
}

// contractBFS: shortest distance from start never decreases.
func (h *hist) contractBFS(seq []int, start int) string {
	dist := map[int]int{start: 0}
	q := []int{start}
	for len(q) > 0 {
		x := q[0]
		q = q[1:]
		for _, p := range h.parents[x] {
			if _, ok := dist[p]; !ok {
				dist[p] = dist[x] + 1
				q = append(q, p)
			}
		}
	}
	last := -1
	for i, x := range seq {
		d, ok := dist[x]
		if !ok {
			continue
		}
		if d < last {
			return fmt.Sprintf("position %d: node %d at distance %d after distance %d", i, x, d, last)
		}
		last = d
	}
	return ""
}

// contractFrontierMax: every yielded commit is in the frontier (start, or parent of an already yielded commit)
// and has the newest time of the frontier at that moment.
func (h *hist) contractFrontierMax(seq []int, start int, t []int64) string {
	frontier := map[int]bool{start: true}
	done := map[int]bool{}
	for i, x := range seq {
		if x < 0 || done[x] {
			continue
		}
		if !frontier[x] {
			return fmt.Sprintf("position %d: node %d yielded before any of its children", i, x)
		}
		for y := range frontier {
			if t[y] > t[x] {
				return fmt.Sprintf("position %d: node %d (t=%d) yielded while node %d (t=%d) is newer in the frontier", i, x, t[x], y, t[y])
			}
		}
		delete(frontier, x)
		done[x] = true
		for _, p := range h.parents[x] {
			if !done[p] {
				frontier[p] = true
			}
		}
	}
	return ""
}

// contractTopo: no parent before any of its children (within the walked set).
func (h *hist) contractTopo(seq []int) string {
	pos := map[int]int{}
	for i, x := range seq {
		if _, ok := pos[x]; !ok {
			pos[x] = i
		}
	}
	for x, i := range pos {
		if x < 0 {
			continue
		}
		for _, p := range h.parents[x] {
			if j, ok := pos[p]; ok && j < i {
				return fmt.Sprintf("parent %d (pos %d) before child %d (pos %d)", p, j, x, i)
			}
		}
	}
	return ""
}

// contractReadyMax: topological, and among the commits whose children (inside the walk) have all been shown the
// one with the newest time t is shown next (git --date-order / --author-date-order).
func (h *hist) contractReadyMax(seq []int, start int, t []int64) string {
	if s := h.contractTopo(seq); s != "" {
		return s
	}
	set := h.reach(start)
	pending := map[int]int{}
	for x := range set {
		for _, p := range uniq(h.parents[x]) {
			pending[p]++
		}
	}
	ready := map[int]bool{start: true}
	for i, x := range seq {
		if x < 0 || !ready[x] {
			continue // set errors are reported elsewhere
		}
		for y := range ready {
			if t[y] > t[x] {
				return fmt.Sprintf("position %d: node %d (t=%d) shown while ready node %d (t=%d) is newer", i, x, t[x], y, t[y])
			}
		}
		delete(ready, x)
		for _, p := range uniq(h.parents[x]) {
			pending[p]--
			if pending[p] == 0 {
				ready[p] = true
			}
		}
	}
	return ""
}

func uniq(l []int) []int {
	if len(l) < 2 {
		return l
	}
	seen := map[int]bool{}
	var out []int
	for _, x := range l {
		if !seen[x] {
			seen[x] = true
			out = append(out, x)
		}
	}
	return out
}

func keys(m map[int]bool) []int {
	out := make([]int, 0, len(m))
	for k := range m {
		out = append(out, k)
	}
	sort.Ints(out)
	return out
}
