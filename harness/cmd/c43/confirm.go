package main

import (
	"fmt"
	"sort"
	"strings"

	"verif/internal/vf"
)

// confirm runs real git on the queued findings/samples of this space and reports.
func (k *checker) confirm(sp *space) {
	c := k.c
	k.mu.Lock()
	var mine, rest []finding
	for _, f := range k.q {
		if f.Space == sp.name {
			mine = append(mine, f)
		} else {
			rest = append(rest, f)
		}
	}
	k.q = rest
	k.mu.Unlock()
	// cap per key (deterministic choice), samples always
	capPerKey := c.N(12, 40)
	if sp.name != "exh" {
		capPerKey = 1
	}
	perKey := map[string][]finding{}
	var todo []finding
	for _, f := range mine {
		if f.sample {
			todo = append(todo, f)
		} else {
			perKey[f.Key] = append(perKey[f.Key], f)
		}
	}
	var ks []string
	for key := range perKey {
		ks = append(ks, key)
	}
	sort.Strings(ks)
	for _, key := range ks {
		fs := perKey[key]
		sort.SliceStable(fs, func(i, j int) bool {
			return vf.ShapeHash(fs[i].Comp, fs[i].Walker, fs[i].Start, fs[i].To, fs[i].Since, fs[i].Until) < vf.ShapeHash(fs[j].Comp, fs[j].Walker, fs[j].Start, fs[j].To, fs[j].Since, fs[j].Until)
		})
		if len(fs) > capPerKey {
			c.Count("disagreements_over_confirmation_cap", len(fs)-capPerKey)
			fs = fs[:capPerKey]
		}
		todo = append(todo, fs...)
	}
	w := workers
	if sp.name != "exh" {
		w = 1
	}
	vf.Parallel(len(todo), w, func(i int) { k.confirmOne(sp, todo[i]) })
}

func (k *checker) gitList(sp *space, ci int, args ...string) ([]int, bool) {
	res := k.g.Run(sp.dir, args...)
	if !res.OK() {
		k.c.Broken("git %s: %s", strings.Join(args, " "), res)
		return nil, false
	}
	rev := map[string]int{}
	for i := range sp.comps[ci].parents {
		rev[sp.id(ci, i)] = i
	}
	var out []int
	for _, ln := range strings.Fields(string(res.Out)) {
		i, ok := rev[ln]
		if !ok {
			k.c.Broken("git %s printed an id outside the component: %s", strings.Join(args, " "), ln)
			return nil, false
		}
		out = append(out, i)
	}
	return out, true
}

func toSet(l []int) map[int]bool {
	m := map[int]bool{}
	for _, x := range l {
		m[x] = true
	}
	return m
}

func sameKeys(a map[int]bool, b []int) bool {
	if len(a) != len(b) {
		return false
	}
	for _, x := range b {
		if !a[x] {
			return false
		}
	}
	return true
}

func (k *checker) confirmOne(sp *space, f finding) {
	c := k.c
	h := sp.comps[f.Comp]
	var gitSet map[int]bool
	var gitSeq []int
	ok := false
	switch f.Kind {
	case "walk", "head", "node":
		args := []string{"rev-list"}
		if f.Walker == "dfspost-firstparent" {
			args = append(args, "--first-parent")
		}
		args = append(args, sp.id(f.Comp, f.Start))
		gitSeq, ok = k.gitList(sp, f.Comp, args...)
	case "since", "until", "both":
		args := []string{"rev-list"}
		if f.Since != nil {
			args = append(args, fmt.Sprintf("--max-age=%d", *f.Since))
		}
		if f.Until != nil {
			args = append(args, fmt.Sprintf("--min-age=%d", *f.Until))
		}
		args = append(args, sp.id(f.Comp, f.Start))
		gitSeq, ok = k.gitList(sp, f.Comp, args...)
	case "to":
		var all, ex []int
		all, ok = k.gitList(sp, f.Comp, "rev-list", sp.id(f.Comp, f.Start))
		if ok && len(h.parents[f.To]) > 0 {
			args := []string{"rev-list"}
			for _, p := range h.parents[f.To] {
				args = append(args, sp.id(f.Comp, p))
			}
			ex, ok = k.gitList(sp, f.Comp, args...)
		}
		exs := toSet(ex)
		for _, x := range all {
			if !exs[x] {
				gitSeq = append(gitSeq, x)
			}
		}
	case "all":
		if f.Walker == "dfspost-firstparent" {
			gitSeq, ok = k.gitList(sp, f.Comp, "rev-list", "--first-parent", "--all")
		} else {
			gitSeq, ok = k.gitList(sp, f.Comp, "rev-list", "--all")
		}
	case "node-contract":
		flag := map[string]string{"node-topo": "--topo-order", "node-date": "--date-order", "node-authordate": "--author-date-order"}[strings.SplitN(f.Walker, "/", 2)[0]]
		if flag == "" {
			// node-ctime: frontier contract is definitional
			k.reportDirect(sp, f, fmt.Sprintf("commit-node walker %s from node %d breaks its order contract: %s", f.Walker, f.Start, f.Detail))
			return
		}
		gitSeq, ok = k.gitList(sp, f.Comp, "rev-list", flag, sp.id(f.Comp, f.Start))
		if ok {
			// git's own sequence must satisfy the contract model
			var viol string
			switch flag {
			case "--topo-order":
				viol = h.contractTopo(gitSeq)
			case "--date-order":
				viol = h.contractReadyMax(gitSeq, f.Start, h.ctime)
			case "--author-date-order":
				viol = h.contractReadyMax(gitSeq, f.Start, h.atime)
			}
			c.Count("git_confirmations", 1)
			if viol != "" {
				c.Broken("MODEL-MISMATCH: git rev-list %s from node %d does not satisfy the contract model: %s (parents=%v ctime=%v atime=%v seq=%v)", flag, f.Start, viol, h.parents, rel(h.ctime), rel(h.atime), gitSeq)
				return
			}
			c.Fail(f.Key, fmt.Sprintf("commit-node walker %s from node %d: %s; git rev-list %s gives %v, go-git %v (parents=%v ctime=%v atime=%v)", f.Walker, f.Start, f.Detail, flag, gitSeq, f.Seq, h.parents, rel(h.ctime), rel(h.atime)),
				map[string]any{"parents": h.parents, "ctime": h.ctime, "atime": h.atime, "finding": f, "git_sequence": gitSeq})
		}
		return
	default:
		c.Broken("unknown finding kind %q", f.Kind)
		return
	}
	if !ok {
		return
	}
	gitSet = toSet(gitSeq)
	if len(gitSet) != len(gitSeq) {
		c.Broken("git listed a commit twice: %v", gitSeq)
		return
	}
	c.Count("git_confirmations", 1)
	c.Count("git_confirmations_"+f.Kind, 1)
	if !sameKeys(gitSet, f.Want) {
		c.Broken("MODEL-MISMATCH: space=%s comp=%d kind=%s walker=%s start=%d to=%d since=%v until=%v: git=%v model=%v parents=%v ctime=%v", sp.name, f.Comp, f.Kind, f.Walker, f.Start, f.To, pv(f.Since), pv(f.Until), keys(gitSet), f.Want, h.parents, rel(h.ctime))
		return
	}
	if f.sample {
		if k.nS.Add(1) <= 4 {
			c.Sample(map[string]any{"parents": h.parents, "ctime": rel(h.ctime), "kind": f.Kind, "walker": f.Walker, "start": f.Start, "to": f.To, "since": pv(f.Since), "until": pv(f.Until), "gogit_sequence": f.Seq, "git_set": keys(gitSet)})
		}
		return
	}
	d := compareSet(f.Seq, gitSet)
	lim := ""
	switch f.Kind {
	case "since", "until", "both":
		lim = fmt.Sprintf(" since=%v until=%v", pv(f.Since), pv(f.Until))
	case "to":
		lim = fmt.Sprintf(" To=node %d", f.To)
	}
	what := fmt.Sprintf("%s walk (%s) from node %d%s: go-git yields %v err=%q; git gives the set %v (missing %v, extra %v, duplicates %v) over parents=%v ctime=%v",
		f.Kind, f.Walker, f.Start, lim, f.Seq, firstLine(f.Err), keys(gitSet), d.Missing, d.Extra, d.Duplicate, h.parents, rel(h.ctime))
	if f.Kind == "all" || f.Kind == "head" {
		what += fmt.Sprintf(" refs=%v annotated-tags=%v head=%d", sp.refs, sp.atags, sp.head)
	}
	c.Fail(f.Key, what, map[string]any{"parents": h.parents, "ctime": h.ctime, "atime": h.atime, "refs": sp.refs, "atags": sp.atags, "head": sp.head, "finding": f, "git_set": keys(gitSet)})
}

func pv(p *int64) any {
	if p == nil {
		return nil
	}
	return *p - 1600000000
}

func firstLine(s string) string {
	if i := strings.IndexByte(s, '\n'); i >= 0 {
		return s[:i]
	}
	return s
}
