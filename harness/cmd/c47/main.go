// C47: Repository.ResolveRevision agrees with git rev-parse '<rev>^{commit}'.
//
// Monitor (R): every generated expression is resolved by the real go-git code
// and by real git in the same on-disk repository: one `git cat-file
// --batch-check` process per repository resolves all "<expr>^{commit}" lines
// (same name resolver as rev-parse); every disagreement and a deterministic
// sample are re-confirmed with `git rev-parse --verify --quiet '<expr>^{commit}'`
// before anything is reported. Only expressions go-git ACCEPTS are judged.
package main

import (
	"bytes"
	"compress/zlib"
	"crypto/sha1"
	"encoding/hex"
	"fmt"
	"math/rand"
	"os"
	"path/filepath"
	"regexp"
	"sort"
	"strings"
	"sync"

	git "github.com/go-git/go-git/v6"
	"github.com/go-git/go-git/v6/plumbing"

	"verif/internal/gen"
	"verif/internal/gitx"
	"verif/internal/vf"
)

const workers = 6

func main() {
	vf.Main("C47", "exploration",
		"cases = (repository, expression): repositories with 8..30 commits (octopus merges, skewed times, messages built from a 6-word vocabulary so regexes match at several depths), branch/tag/remote names that collide with each other (same short name as branch and tag and remote), names that look like hex (incl. names equal to a real abbreviated id of ANOTHER commit), annotated tags on commits/tags/trees/blobs, and brute-forced objects (commit, blob, tag) whose ids share a 4..5-hex prefix with a commit; expressions = base {HEAD, @, short/long ref names, full ids, every abbreviation length 1..39 of several ids, upper-case hex} x suffix chains of {~, ~n, ^, ^n, ^{commit}, ^{}, ^{/word}, ^{/!-word}} (depth 0..3); non-trivial = expression with a suffix or an abbreviated/colliding base; shape = (base class, suffix kinds); oracle = git's own resolver on every expression, disagreements + sample re-confirmed with rev-parse --verify",
		run)
}

func looseWrite(dir, typ string, body []byte) (string, error) {
	id := objID(typ, body)
	p := filepath.Join(dir, ".git", "objects", id[:2], id[2:])
	if _, err := os.Stat(p); err == nil {
		return id, nil
	}
	if err := os.MkdirAll(filepath.Dir(p), 0o755); err != nil {
		return "", err
	}
	var b bytes.Buffer
	zw := zlib.NewWriter(&b)
	fmt.Fprintf(zw, "%s %d\x00", typ, len(body))
	zw.Write(body)
	zw.Close()
	return id, os.WriteFile(p, b.Bytes(), 0o444)
}

func objID(typ string, body []byte) string {
	h := sha1.New()
	fmt.Fprintf(h, "%s %d\x00", typ, len(body))
	h.Write(body)
	return hex.EncodeToString(h.Sum(nil))
}

// bruteForce finds a body variant (suffix counter) whose object id starts with prefix.
func bruteForce(typ string, mk func(k int) []byte, prefix string, limit int) (int, bool) {
	for k := 0; k < limit; k++ {
		if strings.HasPrefix(objID(typ, mk(k)), prefix) {
			return k, true
		}
	}
	return 0, false
}

type baseT struct{ s, class string }

type expr struct {
	s      string
	base   baseT
	sfx    []string
	suffix string // suffix kinds
	parent int    // index of the expression without the last suffix (-1: base)
}

type verdict struct {
	Expr   string `json:"expr"`
	Base   string `json:"base_class"`
	Suffix string `json:"suffix_kinds"`
	GoGit  string `json:"gogit"` // hash or "error: ..."
	Git    string `json:"git"`   // hash, "missing", "ambiguous"
	Why    string `json:"classification,omitempty"`
}

var vocab = []string{"fix", "bug", "nasty", "alpha", "beta", "omega"}

func run(c *vf.Ctx) {
	g := gitx.New(c.Scratch)
	nh := c.N(8, 40)
	var tmu sync.Mutex
	nSamples := 0
	capKey := map[string]int{}
	vf.Parallel(nh, workers, func(hi int) {
		r := c.Rand("hist", hi)
		tmu.Lock()
		dir := c.TempDir(fmt.Sprintf("h%d", hi))
		tmu.Unlock()
		defer os.RemoveAll(dir)
		if err := g.Init(dir, false, "sha1"); err != nil {
			c.Broken("init: %v", err)
			return
		}
		n := 8 + r.Intn(23)
		h := gen.RandomHistory(r, gen.HistOpts{N: n, MergeProb: 0.2 + 0.4*r.Float64(), Octopus: true, SkewTime: r.Intn(2) == 0, Files: 2, Path: gen.PathOpts{Depth: 2}, Branches: 3})
		for i := range h.Commits {
			w1, w2 := vocab[r.Intn(len(vocab))], vocab[r.Intn(len(vocab))]
			h.Commits[i].Msg = fmt.Sprintf("%s %s %d\n\nbody %s\n", w1, w2, i%7, vocab[r.Intn(len(vocab))])
		}
		h.ATags["v1"] = r.Intn(n)
		h.ATags["rel/1.0"] = r.Intn(n)
		h.Tags["light"] = r.Intn(n)
		ids, err := gitx.New(dir+".home").Import(dir, h) // own HOME per repository: gitx.Import names its marks file after the global call counter, which two parallel imports can share
		if err != nil {
			c.Broken("import: %v", err)
			return
		}
		// --- extra objects: tag of tag, tag of tree/blob, colliding commit/blob/tag
		mkTag := func(target, typ, name string, k int) []byte {
			return []byte(fmt.Sprintf("object %s\ntype %s\ntag %s\ntagger T Agger <t@example.com> 1600000000 +0000\n\n%s %d\n", target, typ, name, name, k))
		}
		v1, err := g.MustOut(dir, "rev-parse", "refs/tags/v1", ids[0]+"^{tree}")
		if err != nil {
			c.Broken("rev-parse: %v", err)
			return
		}
		v1f := strings.Fields(v1)
		tagOfTag, _ := looseWrite(dir, "tag", mkTag(v1f[0], "tag", "tt", 0))
		tagOfTree, _ := looseWrite(dir, "tag", mkTag(v1f[1], "tree", "ttree", 0))
		var upd strings.Builder
		fmt.Fprintf(&upd, "create refs/tags/tt %s\ncreate refs/tags/ttree %s\n", tagOfTag, tagOfTree)
		type coll struct {
			target string // commit whose prefix is shared
			other  string
			kind   string // commit | blob | tag
			plen   int
		}
		var colls []coll
		hx := &gen.History{Commits: append([]gen.Commit(nil), h.Commits...)}
		idsx := append([]string(nil), ids...)
		for ci := 0; ci < 3; ci++ {
			t := ids[r.Intn(n)]
			plen := 4
			if ci == 0 && !c.Quick() {
				plen = 5
			}
			kind := []string{"commit", "blob", "tag"}[ci]
			other := ids[r.Intn(n)]
			var mk func(k int) []byte
			switch kind {
			case "commit":
				mk = func(k int) []byte {
					return []byte(fmt.Sprintf("tree %s\nparent %s\nauthor A <a@e> 1600000000 +0000\ncommitter A <a@e> 1600000000 +0000\n\ncollide %d\n", v1f[1], other, k))
				}
			case "blob":
				mk = func(k int) []byte { return []byte(fmt.Sprintf("collide %d\n", k)) }
			case "tag":
				mk = func(k int) []byte { return mkTag(other, "commit", "coll", k) }
			}
			k, ok := bruteForce(kind, mk, t[:plen], 12<<(4*uint(plen)))
			if !ok {
				continue
			}
			id, err := looseWrite(dir, kind, mk(k))
			if err != nil {
				c.Broken("loose write: %v", err)
				return
			}
			colls = append(colls, coll{t, id, kind, plen})
			c.Count("collisions_"+kind, 1)
			if kind == "commit" {
				// keep the history model complete: the brute-forced commit is a child of `other`
				for oi, oid := range ids {
					if oid == other {
						hx.Commits = append(hx.Commits, gen.Commit{Parents: []int{oi}, Time: 1600000000, Msg: fmt.Sprintf("collide %d\n", k)})
						idsx = append(idsx, id)
						break
					}
				}
			}
		}
		// --- colliding names
		hexName := ids[r.Intn(n)][:4+r.Intn(4)] // a branch named like the abbreviated id of a commit
		pointAt := func() string { return ids[r.Intn(n)] }
		fmt.Fprintf(&upd, "create refs/heads/%s %s\n", hexName, pointAt())
		fmt.Fprintf(&upd, "create refs/heads/deadbeef %s\n", pointAt()) // hex-looking, matches no object (with overwhelming probability)
		fullName := ids[r.Intn(n)]
		fmt.Fprintf(&upd, "create refs/heads/%s %s\n", fullName, pointAt())      // branch named like a FULL id of (probably) another commit
		fmt.Fprintf(&upd, "create refs/heads/v1 %s\n", pointAt())                // same short name as tag v1
		fmt.Fprintf(&upd, "create refs/tags/master %s\n", pointAt())             // tag named like the branch
		fmt.Fprintf(&upd, "create refs/remotes/origin/master %s\n", pointAt())   // remote-tracking
		fmt.Fprintf(&upd, "create refs/remotes/origin/topic %s\n", pointAt())    //
		fmt.Fprintf(&upd, "create refs/heads/origin/topic %s\n", pointAt())      // heads/origin/topic vs remotes/origin/topic
		fmt.Fprintf(&upd, "create refs/heads/heads/master %s\n", pointAt())      // "heads/master" is ambiguous between refs/heads/master and refs/heads/heads/master
		fmt.Fprintf(&upd, "create refs/remotes/light/HEAD %s\n", pointAt())      // "light" also matches rule refs/remotes/%s/HEAD
		fmt.Fprintf(&upd, "create refs/remotes/onlyremote/HEAD %s\n", pointAt()) //
		fmt.Fprintf(&upd, "create refs/notes/x %s\n", pointAt())                 // reachable only as notes/x or refs/notes/x
		if res := g.RunIn(dir, []byte(upd.String()), "update-ref", "--stdin"); !res.OK() {
			c.Broken("update-ref: %s", res)
			return
		}
		if res := g.Run(dir, "symbolic-ref", "refs/remotes/origin/HEAD", "refs/remotes/origin/master"); !res.OK() {
			c.Broken("symbolic-ref: %s", res)
			return
		}
		// --- all objects (for candidate analysis of abbreviated ids)
		resAll := g.Run(dir, "cat-file", "--batch-all-objects", "--batch-check")
		if !resAll.OK() {
			c.Broken("cat-file --batch-all-objects: %s", resAll)
			return
		}
		objType := map[string]string{}
		for _, ln := range strings.Split(strings.TrimSpace(string(resAll.Out)), "\n") {
			f := strings.Fields(ln)
			if len(f) == 3 {
				objType[f[0]] = f[1]
			}
		}
		committish := func(prefix string) int {
			prefix = strings.ToLower(prefix)
			nc := 0
			for id, t := range objType {
				if strings.HasPrefix(id, prefix) && (t == "commit" || t == "tag" && id != tagOfTree) {
					nc++
				}
			}
			return nc
		}
		refNames := map[string]bool{hexName: true, "deadbeef": true}
		idIndex := map[string]int{}
		for i, id := range idsx {
			idIndex[id] = i
		}
		for name := range h.Branches {
			refNames[name] = true
		}
		for name := range h.Tags {
			refNames[name] = true
		}
		for name := range h.ATags {
			refNames[name] = true
		}
		// --- expressions: every generated chain is entered together with all of its prefixes, so that the first
		// suffix at which go-git and git part ways can be identified (minimal disagreement)
		var exprs []expr
		index := map[string]int{}
		add := func(b baseT, sfx []string) int {
			parent := -1
			for k := 0; k <= len(sfx); k++ {
				s := b.s + strings.Join(sfx[:k], "")
				if strings.ContainsAny(s, "\n") {
					return -1
				}
				if at, ok := index[s]; ok {
					parent = at
					continue
				}
				var kinds []string
				for _, sf := range sfx[:k] {
					kinds = append(kinds, suffixKind(sf))
				}
				ks := "none"
				if k > 0 {
					ks = strings.Join(kinds, "")
				}
				exprs = append(exprs, expr{s: s, base: b, sfx: append([]string(nil), sfx[:k]...), suffix: ks, parent: parent})
				index[s] = len(exprs) - 1
				parent = len(exprs) - 1
			}
			return parent
		}
		var bases []baseT
		for _, b := range []string{"HEAD", "@", "master", "dev", "feature/x", "heads/master", "refs/heads/master", "tags/v1", "refs/tags/v1", "v1", "rel/1.0", "light", "tt", "ttree",
			"origin/master", "origin", "origin/topic", "remotes/origin/master", "refs/remotes/origin/HEAD", "onlyremote", "notes/x", "refs/notes/x", "heads/heads/master", "nonexistent", "refs/heads/nonexistent"} {
			bases = append(bases, baseT{b, "name"})
		}
		bases = append(bases, baseT{hexName, "hexlike-branch-equal-to-abbrev-id"}, baseT{"deadbeef", "hexlike-branch"}, baseT{"heads/" + hexName, "name"}, baseT{fullName, "branch-named-like-full-id"})
		// full ids (3 random + tag objects + colliding ones) and their abbreviations
		var idPool []string
		for k := 0; k < 3; k++ {
			idPool = append(idPool, ids[r.Intn(n)])
		}
		idPool = append(idPool, tagOfTag, tagOfTree, v1f[0], v1f[1])
		for _, cl := range colls {
			idPool = append(idPool, cl.target, cl.other)
		}
		for pi, id := range idPool {
			cls := "id"
			for _, cl := range colls {
				if id == cl.target || id == cl.other {
					cls = "id-colliding-with-" + cl.kind
				}
			}
			bases = append(bases, baseT{id, "full-" + cls})
			for l := 1; l < 40; l++ {
				if l > 12 && l%7 != pi%7 {
					continue
				}
				lc := "abbrev" + lenClass(l) + "-" + cls
				bases = append(bases, baseT{id[:l], lc})
				if l == 6 || l == 7 {
					bases = append(bases, baseT{strings.ToUpper(id[:l]), "upper-" + lc})
				}
			}
		}
		sufPool := []string{"~", "~1", "~2", "~3", "~0", "^", "^1", "^2", "^0", "^^", "~~", "^{commit}", "^{}"}
		for _, w := range vocab {
			sufPool = append(sufPool, "^{/"+w+"}", "^{/!-"+w+"}", "^{/"+w+" "+vocab[r.Intn(len(vocab))]+"}")
		}
		sufPool = append(sufPool, "^{/body}", "^{/f.x}", "^{/[0-3]}", "^{/nomatchanywhere}")
		for _, b := range bases {
			add(b, nil)
			reps := 6
			if strings.HasPrefix(b.class, "abbrev") || strings.HasPrefix(b.class, "upper") {
				reps = 1
			}
			for k := 0; k < reps; k++ {
				depth := 1 + r.Intn(3)
				var sfx []string
				for d := 0; d < depth; d++ {
					sfx = append(sfx, sufPool[r.Intn(len(sufPool))])
				}
				add(b, sfx)
			}
		}
		// --- git: one batch process
		var in bytes.Buffer
		for _, e := range exprs {
			in.WriteString(e.s + "^{commit}\n")
		}
		res := g.RunIn(dir, in.Bytes(), "cat-file", "--batch-check")
		if !res.OK() {
			c.Broken("cat-file --batch-check: %s", res)
			return
		}
		lines := strings.Split(strings.TrimSuffix(string(res.Out), "\n"), "\n")
		if len(lines) != len(exprs) {
			c.Broken("cat-file --batch-check answered %d lines for %d expressions", len(lines), len(exprs))
			return
		}
		gitAns := make([]string, len(exprs))
		for i, ln := range lines {
			switch {
			case strings.HasSuffix(ln, " missing"), strings.HasSuffix(ln, " ambiguous"):
				gitAns[i] = "unresolved"
			default:
				f := strings.Fields(ln)
				if len(f) == 3 && len(f[0]) == 40 && f[1] == "commit" {
					gitAns[i] = f[0]
				} else {
					c.Broken("unexpected batch-check line %q for %q", ln, exprs[i].s)
					return
				}
			}
		}
		repo, err := git.PlainOpen(dir)
		if err != nil {
			c.Broken("PlainOpen: %v", err)
			return
		}
		defer repo.Close()
		disagree := make([]bool, len(exprs))
		for i, e := range exprs {
			var got *plumbing.Hash
			var gerr error
			p, stk := vf.Catch(func() { got, gerr = repo.ResolveRevision(plumbing.Revision(e.s)) })
			c.Count("expressions", 1)
			c.Eval(e.base.class+"|"+e.suffix, e.suffix != "none" || strings.Contains(e.base.class, "abbrev") || strings.Contains(e.base.class, "hexlike"))
			c.Seen("base_classes", e.base.class)
			v := verdict{Expr: e.s, Base: e.base.class, Suffix: e.suffix, Git: gitAns[i]}
			if p != nil {
				v.GoGit = fmt.Sprintf("panic: %v", p)
				c.Fail("panic", fmt.Sprintf("ResolveRevision(%q) panicked: %v\n%s", e.s, p, stk), v)
				continue
			}
			baseHex := isHex(e.base.s)
			ambiguousBase := baseHex && len(e.base.s) >= 4 && len(e.base.s) < 40 && !refNames[e.base.s] && committish(e.base.s) >= 2
			if gitAns[i] == "unresolved" {
				c.Count("git_unresolvable", 1)
				if ambiguousBase {
					c.Count("git_ambiguous", 1)
				}
			}
			if gerr != nil || got == nil {
				c.Count("gogit_refused", 1)
				if gitAns[i] != "unresolved" {
					c.Count("gogit_refused_git_resolves", 1) // not a violation of this property
				}
				continue
			}
			v.GoGit = got.String()
			c.Count("gogit_accepted", 1)
			agree := v.GoGit == gitAns[i]
			if !agree && baseHex && len(e.base.s) >= 4 && len(e.base.s) < 40 && len(e.sfx) > 0 && e.sfx[0] == "^{}" && anyObjects(objType, e.base.s) >= 2 && committish(e.base.s) == 1 {
				// oracle artefact, outside the domain: "<abbrev>^{commit}" lets git pick the only commit-ish among several
				// objects sharing the prefix, but "<abbrev>^{}" carries no type hint, so "<abbrev>^{}...^{commit}" is ambiguous for git
				c.Count("skipped_type_hint_dependent", 1)
				disagree[i] = true // do not blame longer chains either
				continue
			}
			disagree[i] = !agree
			sample := agree && (i*31+hi)%c.N(23, 61) == 0
			if agree && !sample {
				continue
			}
			key := ""
			if !agree {
				if e.parent >= 0 && disagree[e.parent] {
					c.Count("disagreements_inherited_from_prefix", 1)
					continue // the shorter expression already disagrees: reported there
				}
				dirn := "value-mismatch"
				if gitAns[i] == "unresolved" {
					dirn = "resolved-but-git-does-not"
				}
				cause := ""
				switch {
				case e.parent < 0 && baseHex && len(e.base.s) < 4 && !refNames[e.base.s]:
					cause, v.Why = "base:hex-prefix-shorter-than-4", "git never treats fewer than 4 hex digits as an abbreviated object name"
				case e.parent < 0 && baseHex && len(e.base.s) < 40 && refNames[e.base.s]:
					cause, v.Why = "base:ref-named-like-abbreviated-id", "the name is a ref AND an abbreviated id of another object: git prefers the ref for anything shorter than a full id"
				case e.parent < 0 && ambiguousBase:
					cause, v.Why = "base:ambiguous-abbreviated-id", fmt.Sprintf("%d commit-ish objects share the prefix: git reports ambiguity", committish(e.base.s))
				case e.parent < 0 && baseHex && len(e.base.s) < 40:
					cause = "base:abbreviated-id:" + lenClass(len(e.base.s))
				case e.parent < 0 && baseHex:
					cause = "base:full-id"
				case e.parent < 0:
					cause = "base:name:" + reNum.ReplaceAllString(e.base.s, "N")
				default:
					last := e.sfx[len(e.sfx)-1]
					cause = "suffix:" + suffixKind(last)
					if gitAns[e.parent] != "unresolved" {
						v.Why = "prefix " + exprs[e.parent].s + " agrees (" + gitAns[e.parent][:8] + ")"
					}
					explained := false
					if len(e.sfx) >= 2 && e.sfx[len(e.sfx)-2] == "^{}" {
						// parser mechanism (fixed upstream, kept as a recogniser): the token that follows "^{}" is
						// swallowed, so X^{}~ is evaluated as X^{} and X^{}^^ as X^{}^
						altS := strings.TrimSuffix(exprs[e.parent].s, "^{}") + last[1:]
						alt, aerr := repo.ResolveRevision(plumbing.Revision(altS))
						if aerr == nil && alt != nil && alt.String() == v.GoGit {
							cause = "parser:token-after-empty-braces-dropped"
							v.Why += "; go-git evaluates it like " + altS
							explained = true
						}
					}
					if !explained && strings.HasPrefix(last, "^{/") && gitAns[e.parent] != "unresolved" {
						// A regex step, whatever precedes it. Judged on its own terms against the history model, from
						// the commit both sides agree the prefix resolves to:
						//  - known deviation: go-git's result satisfies the step (matches / does not match the regex)
						//    and is reachable from the start, but is not the YOUNGEST such commit (which git returns);
						//  - anything else keeps a distinct key.
						neg := strings.HasPrefix(last, "^{/!-")
						fam := "caret-regex"
						if neg {
							fam = "caret-negated-regex"
						}
						start, okS := idIndex[gitAns[e.parent]]
						gi, okG := idIndex[v.GoGit]
						re, rerr := regexp.Compile(strings.TrimPrefix(strings.TrimPrefix(strings.TrimSuffix(last, "}"), "^{/"), "!-"))
						if okS && rerr == nil {
							match := func(i int) bool { return re.MatchString(hx.Commits[i].Msg) != neg }
							young := firstYoungest(hx, start, match)
							reach := reachSet(hx, start)
							modelGit := "unresolved"
							if young >= 0 {
								modelGit = idsx[young]
							}
							switch {
							case !okG || !reach[gi]:
								cause = fam + ":result-not-reachable-from-start"
							case !match(gi):
								cause = fam + ":result-does-not-satisfy-the-regex-step"
							case modelGit != gitAns[i]:
								cause = fam + ":history-model-disagrees-with-git" // classification aid only; still reported
							case gi != young:
								cause = fam + ":first-match-in-depth-first-order-instead-of-youngest"
							}
						}
					}
				}
				key = dirn + ":" + cause
				tmu.Lock()
				capKey[key]++
				over := capKey[key] > c.N(6, 12)
				tmu.Unlock()
				if over {
					c.Count("disagreements_over_confirmation_cap", 1)
					continue
				}
			}
			// re-confirm with rev-parse --verify --quiet
			rp := g.Run(dir, "rev-parse", "--verify", "--quiet", e.s+"^{commit}")
			c.Count("git_confirmations", 1)
			rpAns := strings.TrimSpace(string(rp.Out))
			if rp.Code != 0 {
				rpAns = "unresolved"
			}
			if rpAns != gitAns[i] {
				c.Broken("MODEL-MISMATCH: git cat-file --batch-check says %q, git rev-parse --verify says %q for %q", gitAns[i], rpAns, e.s+"^{commit}")
				continue
			}
			if agree {
				tmu.Lock()
				if nSamples < 4 && e.suffix != "none" {
					nSamples++
					c.Sample(v)
				}
				tmu.Unlock()
				continue
			}
			what := fmt.Sprintf("ResolveRevision(%q) = %s but git rev-parse --verify --quiet %q = %s (%s)", e.s, v.GoGit, e.s+"^{commit}", gitAns[i], v.Why)
			c.Fail(key, what, v)
		}
		c.Count("repositories", 1)
	})
	c.Extra("git_invocations", gitx.Calls.Load())
	c.Floor("expressions", c.Counter("expressions"), c.N(2000, 35000))
	c.Floor("expressions accepted by go-git", c.Counter("gogit_accepted"), c.N(1200, 15000))
	c.Floor("expressions git cannot resolve", c.Counter("git_unresolvable"), c.N(300, 7000))
	c.Floor("expressions over an abbreviated id that is ambiguous for git", c.Counter("git_ambiguous"), c.N(20, 250))
	c.Floor("rev-parse confirmations", c.Counter("git_confirmations"), c.N(60, 300))
	c.Floor("base classes", c.SeenCount("base_classes"), 10)
	c.Assume("domain = the constructs named in the statement (names, full/abbreviated ids, ~, ^, ^{/regex}) plus ^{commit}, ^{} and @; @{...}, :path, ^{tree|blob|tag} are outside (go-git parses but ignores some of them)")
	c.Assume("regexes limited to the common subset of POSIX BRE (git) and RE2 (go-git): literal words, '.', bracket ranges; git matches ^{/re} against the message like go-git")
	c.Assume("git's answer = exit status/value of rev-parse --verify --quiet '<expr>^{commit}' (a warning such as 'refname is ambiguous' with exit 0 counts as resolved to the printed value); go-git refusing an expression is never a violation")
	c.Assume("a disagreement is reported only on the SHORTEST expression showing it (every chain is evaluated together with all its prefixes); longer chains inheriting it are only counted")
}

func anyObjects(objType map[string]string, prefix string) int {
	prefix = strings.ToLower(prefix)
	n := 0
	for id := range objType {
		if strings.HasPrefix(id, prefix) {
			n++
		}
	}
	return n
}

func reachSet(h *gen.History, start int) map[int]bool {
	seen := map[int]bool{}
	st := []int{start}
	for len(st) > 0 {
		x := st[len(st)-1]
		st = st[:len(st)-1]
		if seen[x] {
			continue
		}
		seen[x] = true
		st = append(st, h.Commits[x].Parents...)
	}
	return seen
}

// firstDFS: first commit satisfying match in depth-first pre-order (parents in recorded order), start included.
func firstDFS(h *gen.History, start int, match func(int) bool) int {
	seen := map[int]bool{}
	res := -1
	var visit func(x int) bool
	visit = func(x int) bool {
		seen[x] = true
		if match(x) {
			res = x
			return true
		}
		for _, p := range h.Commits[x].Parents {
			if !seen[p] && visit(p) {
				return true
			}
		}
		return false
	}
	visit(start)
	return res
}

// firstYoungest models git's get_oid_oneline: pop the most recent commit of a date-sorted list
// (commit_list_insert_by_date: a new entry goes behind entries of equal date), start included.
func firstYoungest(h *gen.History, start int, match func(int) bool) int {
	list := []int{start}
	seen := map[int]bool{start: true}
	for len(list) > 0 {
		x := list[0]
		list = list[1:]
		for _, p := range h.Commits[x].Parents {
			if seen[p] {
				continue
			}
			seen[p] = true
			at := len(list)
			for k, y := range list {
				if h.Commits[y].Time < h.Commits[p].Time {
					at = k
					break
				}
			}
			list = append(list[:at], append([]int{p}, list[at:]...)...)
		}
		if match(x) {
			return x
		}
	}
	return -1
}

func isHex(s string) bool {
	return len(s) > 0 && strings.Trim(strings.ToLower(s), "0123456789abcdef") == ""
}

func lenClass(l int) string {
	switch {
	case l < 4:
		return "<4"
	case l == 4 || l == 5:
		return "4-5"
	case l%2 == 1:
		return "odd"
	}
	return "even"
}

var reNum = regexp.MustCompile(`[0-9]+`)

func suffixKind(s string) string {
	switch {
	case strings.HasPrefix(s, "^{/!-"):
		return "^{/!-re}"
	case strings.HasPrefix(s, "^{/"):
		return "^{/re}"
	case s == "^{commit}" || s == "^{}":
		return s
	}
	return reNum.ReplaceAllString(s, "n")
}

var _ = sort.Strings
var _ = rand.Int
