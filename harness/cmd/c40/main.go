// C40: filesystem repository loaders rooted at R never open or serve a
// repository outside R.
//
// Monitor (invariants): a fixture directory holds the root R (legitimate
// repositories, gitfiles and symlinks of every hostile kind) and, next to it,
// sentinel repositories OUTSIDE R whose refs, HEAD and objects carry markers.
// Hostile request paths are sent through every entry point that resolves a
// path with a loader bound to R: FilesystemLoader.Load (strict / non-strict),
// the file transport, backend.Serve with a git:// proto request and the
// backend HTTP handler (smart and dumb routes). Three observers: (1) the
// storage a loader returns must be rooted inside R (symlinks resolved); (2) no
// byte served may contain a marker (ref name, ids, raw content of outside
// files); (3) inotify watches on every outside directory must stay silent
// (opens and reads are seen, not only writes).
package main

import (
	"bytes"
	"context"
	"fmt"
	"io"
	"log"
	"net/http"
	"net/http/httptest"
	"net/url"
	"os"
	"path/filepath"
	"strings"
	"time"

	"github.com/go-git/go-billy/v6/osfs"
	"github.com/go-git/go-git/v6/backend"
	"github.com/go-git/go-git/v6/plumbing"
	"github.com/go-git/go-git/v6/plumbing/protocol/packp"
	"github.com/go-git/go-git/v6/plumbing/storer"
	"github.com/go-git/go-git/v6/plumbing/transport"
	"github.com/go-git/go-git/v6/plumbing/transport/file"
	"github.com/go-git/go-git/v6/storage"

	"verif/internal/fsguard"
	"verif/internal/gen"
	"verif/internal/gitx"
	"verif/internal/vf"
)

const marker = "verif-secret-marker"

func main() {
	vf.Main("C40", "exploration",
		"request paths = fixed hostile seeds (../, a/../../, %2e%2e, absolute, //, trailing .git or missing .git, NUL, prefix-sibling of R, symlinked directory, symlink climbing above R, gitfile relative/absolute/outside/symlinked, inner repository with symlinked parts) + random compositions of the same components, each sent through 9 entry points (loader strict/non-strict, file transport strict/non-strict, git:// proto -> backend.Serve, HTTP smart info/refs, HTTP dumb HEAD, info/refs and loose object); shape = generator label x entry point (+ component pattern for random paths); non-trivial = the path names something outside R lexically, by encoding, by symlink or by gitfile",
		run)
}

type lab struct {
	c        *vf.Ctx
	g        *gitx.Git
	top      string // fixture top
	root     string // R
	realR    string
	outside  []string // outside directories (watched)
	secrets  [][]byte // byte strings that must never be served
	w        *fsguard.Watcher
	strict   *transport.FilesystemLoader
	loose    *transport.FilesystemLoader
	objPath  string // objects/xx/yyyy of a loose object that exists only outside
	inPath   string // objects/xx/yyyy of a loose object of R/good.git
	lastBlob string
}

type hostile struct {
	Path  string `json:"path"`
	Label string `json:"label"`
	Out   bool   `json:"names_outside"` // the path designates something outside R
}

func (l *lab) mkRepo(dir string, bare bool, branch string, seed string) string {
	l.c.Must(l.g.Init(dir, bare, "sha1"), "init "+dir)
	h := gen.RandomHistory(l.c.Rand("repo", seed), gen.HistOpts{N: 3, Files: 2, Path: gen.PathOpts{Depth: 1}})
	ids, err := l.g.Import(dir, h)
	l.c.Must(err, "import "+dir)
	tip := ids[len(ids)-1]
	// a commit, tree and blob that exist in this repository only (content carries the branch name)
	blob := l.g.RunIn(dir, []byte("unique content of "+branch+"\n"), "hash-object", "-w", "--stdin")
	if !blob.OK() {
		l.c.Must(fmt.Errorf("%s", blob), "hash-object")
	}
	bid := strings.TrimSpace(string(blob.Out))
	tree := l.g.RunIn(dir, []byte("100644 blob "+bid+"\tunique-"+branch+"\n"), "mktree")
	if !tree.OK() {
		l.c.Must(fmt.Errorf("%s", tree), "mktree")
	}
	cm := l.g.Run(dir, "commit-tree", "-p", tip, "-m", "unique "+branch, strings.TrimSpace(string(tree.Out)))
	if !cm.OK() {
		l.c.Must(fmt.Errorf("%s", cm), "commit-tree")
	}
	tip = strings.TrimSpace(string(cm.Out))
	l.lastBlob = bid
	out, err := l.g.MustOut(dir, "for-each-ref", "--format=delete %(refname)")
	l.c.Must(err, "for-each-ref")
	in := out + "\ncreate refs/heads/" + branch + " " + tip + "\n"
	if r := l.g.RunIn(dir, []byte(strings.TrimLeft(in, "\n")), "update-ref", "--stdin"); !r.OK() {
		l.c.Must(fmt.Errorf("%s", r), "update-ref")
	}
	if r := l.g.Run(dir, "symbolic-ref", "HEAD", "refs/heads/"+branch); !r.OK() {
		l.c.Must(fmt.Errorf("%s", r), "symbolic-ref")
	}
	// dumb-protocol files so that the dumb routes have something to serve
	if r := l.g.Run(dir, "update-server-info"); !r.OK() {
		l.c.Must(fmt.Errorf("%s", r), "update-server-info")
	}
	return tip
}

func write(c *vf.Ctx, p, content string) {
	c.Must(os.MkdirAll(filepath.Dir(p), 0o755), "mkdir")
	c.Must(os.WriteFile(p, []byte(content), 0o644), "write "+p)
}

func setup(c *vf.Ctx) *lab {
	l := &lab{c: c, g: gitx.New(c.Scratch)}
	top, err := filepath.EvalSymlinks(c.Scratch)
	c.Must(err, "evalsymlinks")
	l.top = filepath.Join(top, "fx")
	l.root = filepath.Join(l.top, "R")
	l.realR = l.root
	out := filepath.Join(l.top, "outside")
	sib := filepath.Join(l.top, "R-evil") // shares R's name as a string prefix
	// inside R
	l.mkRepo(filepath.Join(l.root, "good.git"), true, "inside-main", "good")
	l.inPath = "objects/" + l.lastBlob[:2] + "/" + l.lastBlob[2:]
	l.mkRepo(filepath.Join(l.root, "wt"), false, "inside-wt", "wt")
	l.mkRepo(filepath.Join(l.root, "deep", "er", "nested.git"), true, "inside-nested", "nested")
	// outside R
	tipSecret := l.mkRepo(filepath.Join(out, "secret.git"), true, marker, "secret")
	l.objPath = "objects/" + l.lastBlob[:2] + "/" + l.lastBlob[2:]
	tipWt := l.mkRepo(filepath.Join(out, "secretwt"), false, marker+"-wt", "secretwt")
	tipSib := l.mkRepo(filepath.Join(sib, "secret.git"), true, marker+"-sib", "sib")
	l.secrets = [][]byte{[]byte(marker), []byte(tipSecret), []byte(tipWt), []byte(tipSib)}
	// the raw bytes of a loose object that exists only outside are a secret as well
	b, err := os.ReadFile(filepath.Join(out, "secret.git", filepath.FromSlash(l.objPath)))
	c.Must(err, "outside loose object")
	l.secrets = append(l.secrets, b)
	if _, err := os.Stat(filepath.Join(l.root, "good.git", filepath.FromSlash(l.inPath))); err != nil {
		c.Must(err, "inside loose object")
	}
	write(c, filepath.Join(out, "plain", "config"), "[core]\n\tbare = true\n# "+marker+"\n")
	write(c, filepath.Join(out, "gitfile-outside"), "gitdir: "+filepath.Join(out, "secret.git")+"\n")

	// gitfiles inside R
	gf := func(name, content string) { write(c, filepath.Join(l.root, name, ".git"), content) }
	gf("gf-rel-in", "gitdir: ../good.git\n")
	gf("gf-rel-out", "gitdir: ../../outside/secret.git\n")
	gf("gf-rel-out-deep", "gitdir: ../deep/../../outside/secret.git\n")
	gf("gf-abs-out", "gitdir: "+filepath.Join(out, "secret.git")+"\n")
	gf("gf-abs-out-wt", "gitdir: "+filepath.Join(out, "secretwt", ".git")+"\n")
	gf("gf-abs-in", "gitdir: "+filepath.Join(l.root, "good.git")+"\n")
	gf("gf-abs-sib", "gitdir: "+filepath.Join(sib, "secret.git")+"\n")
	gf("gf-rel-sib", "gitdir: ../../R-evil/secret.git\n")
	gf("gf-spaces", "gitdir:    ../../outside/secret.git   \n")
	gf("gf-nonl", "gitdir: ../../outside/secret.git")
	gf("gf-crlf", "gitdir: ../../outside/secret.git\r\n")
	gf("gf-dotdot-many", "gitdir: ../../../../../../../../../../.."+filepath.Join(out, "secret.git")+"\n")
	gf("gf-via-link", "gitdir: ../link-out.git\n")
	gf("gf-dslash", "gitdir: ..//..//outside//secret.git\n")
	gf("gf-nul", "gitdir: ../../outside/secret.git\x00.git\n")
	// symlinks inside R
	sl := func(target, name string) {
		p := filepath.Join(l.root, name)
		c.Must(os.MkdirAll(filepath.Dir(p), 0o755), "mkdir")
		c.Must(os.Symlink(target, p), "symlink "+name)
	}
	sl("../outside/secret.git", "link-out.git")
	sl(filepath.Join(out, "secret.git"), "link-abs-out.git")
	sl("../outside/secretwt", "link-out-wt")
	sl("../..", "sub/link-up")
	sl("..", "link-top")
	os.MkdirAll(filepath.Join(l.root, "gitlink-sym"), 0o755)
	sl("../../outside/secret.git", "gitlink-sym/.git") // .git is a symlink to an outside directory
	os.MkdirAll(filepath.Join(l.root, "gitfile-sym"), 0o755)
	sl("../../outside/gitfile-outside", "gitfile-sym/.git") // .git is a symlink to an outside gitfile
	// a repository located in R whose parts are symlinks to the outside repository
	inner := filepath.Join(l.root, "inner-sym.git")
	os.MkdirAll(inner, 0o755)
	write(c, filepath.Join(inner, "config"), "[core]\n\tbare = true\n\trepositoryformatversion = 0\n")
	for _, part := range []string{"HEAD", "refs", "objects", "packed-refs", "info"} {
		os.Symlink(filepath.Join("..", "..", "outside", "secret.git", part), filepath.Join(inner, part))
	}
	// config itself a symlink to an outside file
	inner2 := filepath.Join(l.root, "inner-cfg-sym.git")
	os.MkdirAll(inner2, 0o755)
	os.Symlink("../../outside/secret.git/config", filepath.Join(inner2, "config"))
	os.Symlink("../../outside/secret.git/HEAD", filepath.Join(inner2, "HEAD"))

	for _, d := range []string{out, sib} {
		filepath.Walk(d, func(p string, info os.FileInfo, err error) error {
			if err == nil && info.IsDir() {
				l.outside = append(l.outside, p)
			}
			return nil
		})
	}
	l.w, err = fsguard.NewWatcher()
	c.Must(err, "inotify")
	for _, d := range l.outside {
		c.Must(l.w.Add(d), "watch "+d)
	}
	l.strict = transport.NewFilesystemLoader(osfs.New(l.root), true)
	l.loose = transport.NewFilesystemLoader(osfs.New(l.root), false)
	return l
}

// seeds returns the fixed hostile paths.
func (l *lab) seeds() []hostile {
	out := filepath.Join(l.top, "outside")
	abs := filepath.Join(out, "secret.git")
	hs := []hostile{
		{"good.git", "legit", false}, {"/good.git", "legit", false}, {"good", "legit-nosuffix", false}, {"wt", "legit-worktree", false},
		{"wt/.git", "legit-worktree", false}, {"deep/er/nested.git", "legit", false}, {"gf-rel-in", "gitfile-rel-in", false},
		{"deep/../good.git", "legit-dotdot-inside", false}, {"gf-abs-in", "gitfile-abs-in", false},
		{"../outside/secret.git", "dotdot", true}, {"/../outside/secret.git", "dotdot", true}, {"../outside/secret", "dotdot-nosuffix", true},
		{"../outside/secretwt", "dotdot-worktree", true}, {"../outside/secretwt/.git", "dotdot-worktree", true},
		{"good.git/../../outside/secret.git", "nested-dotdot", true}, {"deep/er/../../../outside/secret.git", "nested-dotdot", true},
		{"nonexistent/../../outside/secret.git", "nested-dotdot-missing", true},
		{"a/../../outside/secret.git", "nested-dotdot-missing", true},
		{"../../../../../../../../../../../../" + strings.TrimPrefix(abs, "/"), "dotdot-many", true},
		{"..//outside//secret.git", "dslash", true}, {"//../outside/secret.git", "dslash", true}, {"good.git//..//..//outside/secret.git", "dslash", true},
		{abs, "absolute", true}, {"/" + abs, "absolute", true}, {abs + "/", "absolute", true}, {filepath.Join(out, "secret"), "absolute-nosuffix", true},
		{filepath.Join(out, "secretwt"), "absolute-worktree", true},
		{"%2e%2e/outside/secret.git", "encoded", true}, {"..%2foutside%2fsecret.git", "encoded", true}, {"%2e%2e%2foutside%2fsecret.git", "encoded", true},
		{"%252e%252e/outside/secret.git", "double-encoded", true}, {".%2e/outside/secret.git", "encoded", true},
		{"..\\outside\\secret.git", "backslash", true}, {"good.git\\..\\..\\outside\\secret.git", "backslash", true},
		{"../outside/secret.git\x00", "nul", true}, {"good.git\x00/../../outside/secret.git", "nul", true}, {"../outside/secret\x00.git", "nul", true},
		{"../R-evil/secret.git", "prefix-sibling", true}, {"../R-evil/secret", "prefix-sibling", true}, {filepath.Join(l.top, "R-evil", "secret.git"), "prefix-sibling-abs", true},
		{"-evil/secret.git", "prefix-sibling-concat", true},
		{"link-out.git", "symlink-dir", true}, {"link-out", "symlink-dir-nosuffix", true}, {"link-abs-out.git", "symlink-dir-abs", true}, {"link-out-wt", "symlink-worktree", true},
		{"link-out-wt/.git", "symlink-worktree", true},
		{"sub/link-up/outside/secret.git", "symlink-up", true}, {"link-top/outside/secret.git", "symlink-up", true}, {"link-top/R-evil/secret.git", "symlink-up", true},
		{"gitlink-sym", "dotgit-symlink-dir", true}, {"gitfile-sym", "dotgit-symlink-gitfile", true},
		{"gf-rel-out", "gitfile-rel-out", true}, {"gf-rel-out-deep", "gitfile-rel-out", true}, {"gf-abs-out", "gitfile-abs-out", true}, {"gf-abs-out-wt", "gitfile-abs-out", true},
		{"gf-abs-sib", "gitfile-abs-out", true}, {"gf-rel-sib", "gitfile-rel-out", true}, {"gf-spaces", "gitfile-rel-out-spaces", true}, {"gf-nonl", "gitfile-rel-out", true},
		{"gf-crlf", "gitfile-rel-out-crlf", true}, {"gf-dotdot-many", "gitfile-dotdot-many", true}, {"gf-via-link", "gitfile-via-symlink", true},
		{"gf-dslash", "gitfile-rel-out", true}, {"gf-nul", "gitfile-nul", true},
		{"inner-sym.git", "inner-symlinked-parts", true}, {"inner-cfg-sym.git", "inner-symlinked-config", true},
		{"", "empty", false}, {".", "dot", false}, {"/", "slash", false}, {"..", "dotdot-bare", true}, {"../", "dotdot-bare", true}, {"../outside", "dotdot-dir", true},
		{"../outside/plain", "dotdot-plain-config", true},
	}
	return hs
}

// randomPath composes hostile components.
func (l *lab) randomPath(i int) hostile {
	r := l.c.Rand("path", i)
	out := filepath.Join(l.top, "outside")
	comps := []string{"..", "..", "..", ".", "", "good.git", "deep", "er", "wt", ".git", "outside", "secret.git", "secret", "secretwt", "R-evil", "R", "fx",
		"link-out.git", "link-top", "sub", "link-up", "gf-rel-out", "gf-abs-out", "%2e%2e", "%2E%2E", "..%2f", "a", "nonexistent", "\x00", "..\x00", "...", " ..", ".. ",
		"..;", "link-out-wt", "gitlink-sym", "inner-sym.git", strings.TrimPrefix(out, "/"), "\\..", "..\\"}
	n := 1 + r.Intn(6)
	parts := make([]string, n)
	var pat []string
	for k := range parts {
		parts[k] = comps[r.Intn(len(comps))]
		switch p := parts[k]; {
		case p == "..":
			pat = append(pat, "U")
		case strings.Contains(p, "%"):
			pat = append(pat, "E")
		case strings.Contains(p, "\x00"):
			pat = append(pat, "0")
		case strings.HasPrefix(p, "link") || p == "sub" || p == "gitlink-sym":
			pat = append(pat, "L")
		case strings.HasPrefix(p, "gf-"):
			pat = append(pat, "G")
		case p == "" || p == ".":
			pat = append(pat, "_")
		case strings.Contains(p, "\\"):
			pat = append(pat, "B")
		case p == "secret.git" || p == "secret" || p == "secretwt" || p == "outside" || p == "R-evil":
			pat = append(pat, "S")
		default:
			pat = append(pat, "d")
		}
	}
	p := strings.Join(parts, "/")
	switch r.Intn(4) {
	case 0:
		p = "/" + p
	case 1:
		p = "//" + p
	}
	if r.Intn(5) == 0 {
		p += "/"
	}
	ps := strings.Join(pat, "")
	return hostile{p, "random:" + ps, strings.ContainsAny(ps, "UELGS0B")}
}

type result struct {
	Entry  string   `json:"entry"`
	Served []byte   `json:"-"`
	Status string   `json:"status"`
	Root   string   `json:"root,omitempty"` // root of the storage a loader returned
	Events []string `json:"events,omitempty"`
	Panic  string   `json:"panic,omitempty"`
}

func (l *lab) within(p string) bool {
	real, err := filepath.EvalSymlinks(p)
	if err != nil {
		real = filepath.Clean(p)
	}
	return real == l.realR || strings.HasPrefix(real, l.realR+string(filepath.Separator))
}

// inspect examines a storage returned by a loader (after the watcher was drained).
func (l *lab) inspect(st storage.Storer, res *result) {
	if st == nil {
		return
	}
	if fss, ok := st.(storer.FilesystemStorer); ok {
		res.Root = fss.Filesystem().Root()
	}
	var buf bytes.Buffer
	vf.Catch(func() {
		if it, err := st.IterReferences(); err == nil {
			it.ForEach(func(r *plumbing.Reference) error {
				fmt.Fprintf(&buf, "%s %s %s\n", r.Name(), r.Hash(), r.Target())
				return nil
			})
		}
	})
	res.Served = append(res.Served, buf.Bytes()...)
	if c, ok := st.(io.Closer); ok {
		c.Close()
	}
}

func (l *lab) entries() []string {
	return []string{"load-strict", "load-loose", "file-strict", "file-loose", "gitproto", "http-smart", "http-dumb-head", "http-dumb-inforefs", "http-dumb-object"}
}

// exercise sends one path through one entry point.
func (l *lab) exercise(entry string, h hostile) (res result) {
	res.Entry = entry
	l.w.Drain()
	var st storage.Storer
	p, stack := vf.Catch(func() {
		switch entry {
		case "load-strict", "load-loose":
			ld := l.strict
			if entry == "load-loose" {
				ld = l.loose
			}
			s, err := ld.Load(&url.URL{Scheme: "file", Path: h.Path})
			if err != nil {
				res.Status = "err: " + err.Error()
				return
			}
			res.Status = "loaded"
			st = s
		case "file-strict", "file-loose":
			ld := l.strict
			if entry == "file-loose" {
				ld = l.loose
			}
			t := file.NewTransport(file.Options{Loader: ld})
			ctx, cancel := context.WithTimeout(context.Background(), 60*time.Second)
			defer cancel()
			conn, err := t.Connect(ctx, &transport.Request{URL: &url.URL{Scheme: "file", Path: h.Path}, Command: transport.UploadPackService})
			if err != nil {
				res.Status = "err: " + err.Error()
				return
			}
			done := make(chan []byte, 1)
			go func() {
				// the advertisement ends with a flush; then tell the server we want nothing
				b := readUntilFlush(conn.Reader())
				conn.Writer().Write([]byte("0000"))
				conn.Writer().Close()
				done <- b
			}()
			select {
			case b := <-done:
				res.Served = b
				res.Status = "served"
			case <-ctx.Done():
				res.Status = "timeout"
			}
			conn.Close()
		case "gitproto":
			req := &packp.GitProtoRequest{RequestCommand: transport.UploadPackService, Pathname: h.Path, Host: "localhost"}
			var wire bytes.Buffer
			if err := req.Encode(&wire); err != nil {
				// cannot be put on the wire by go-git's encoder: hand the struct over as a server would after its own decoding
				res.Status = "encode-refused"
			} else {
				var dec packp.GitProtoRequest
				if err := dec.Decode(&wire); err != nil {
					res.Status = "err: decode: " + err.Error()
					return
				}
				req = &dec
			}
			b := backend.New(l.loose)
			var out bytes.Buffer
			breq := backend.RequestFromProto(req)
			breq.AdvertiseRefs = true
			breq.StatelessRPC = true
			err := b.Serve(context.Background(), nil, nopWC{&out}, breq)
			res.Served = out.Bytes()
			if err != nil {
				res.Status += "err: " + err.Error()
			} else {
				res.Status += "served"
			}
		default: // http
			b := backend.New(l.loose)
			b.ErrorLog = log.New(io.Discard, "", 0)
			var targets []string
			q := ""
			switch entry {
			case "http-smart":
				targets, q = []string{"/info/refs"}, "service=git-upload-pack"
			case "http-dumb-head":
				targets = []string{"/HEAD"}
			case "http-dumb-inforefs":
				targets = []string{"/info/refs"}
			case "http-dumb-object":
				targets = []string{"/" + l.objPath, "/" + l.inPath}
			}
			for _, target := range targets {
				path := "/" + strings.TrimPrefix(h.Path, "/")
				if strings.HasPrefix(h.Path, "//") {
					path = h.Path
				}
				path = strings.TrimSuffix(path, "/") + target
				// what net/http hands to a handler: the percent-decoded path
				dec, err := url.PathUnescape(path)
				if err != nil {
					dec = path
				}
				rq := &http.Request{Method: http.MethodGet, URL: &url.URL{Path: dec, RawQuery: q}, Header: http.Header{}, Proto: "HTTP/1.1", ProtoMajor: 1, ProtoMinor: 1, Host: "localhost", Body: http.NoBody}
				rq = rq.WithContext(context.Background())
				rec := httptest.NewRecorder()
				b.ServeHTTP(rec, rq)
				if rec.Code == 200 {
					res.Served = append(res.Served, rec.Body.Bytes()...)
					res.Status = "http 200"
				} else if res.Status == "" {
					res.Status = fmt.Sprintf("http %d", rec.Code)
				}
			}
		}
	})
	if p != nil {
		res.Panic = fmt.Sprintf("%v\n%s", p, stack)
	}
	res.Events = l.w.Drain()
	l.inspect(st, &res)
	l.w.Drain()
	return res
}

type nopWC struct{ io.Writer }

func (nopWC) Close() error { return nil }

func readUntilFlush(r io.Reader) []byte {
	var out bytes.Buffer
	hdr := make([]byte, 4)
	for {
		if _, err := io.ReadFull(r, hdr); err != nil {
			return out.Bytes()
		}
		out.Write(hdr)
		var n int
		if _, err := fmt.Sscanf(string(hdr), "%04x", &n); err != nil || n == 0 {
			return out.Bytes()
		}
		if n < 4 {
			continue
		}
		buf := make([]byte, n-4)
		if _, err := io.ReadFull(r, buf); err != nil {
			return out.Bytes()
		}
		out.Write(buf)
	}
}

func keyLabel(lbl string) string {
	if strings.HasPrefix(lbl, "random:") {
		// keep the kinds of components, not their order or number
		kinds := map[rune]bool{}
		for _, ch := range strings.TrimPrefix(lbl, "random:") {
			kinds[ch] = true
		}
		var b strings.Builder
		for _, ch := range "U0EBLGSd_" {
			if kinds[ch] {
				b.WriteRune(ch)
			}
		}
		return "random:" + b.String()
	}
	return lbl
}

func run(c *vf.Ctx) {
	l := setup(c)
	defer l.w.Close()
	// self-test of the watcher: our own open+read of an outside file must be seen
	l.w.Drain()
	if b, err := os.ReadFile(filepath.Join(l.top, "outside", "secret.git", "HEAD")); err != nil || len(b) == 0 {
		c.Broken("self-test read failed: %v", err)
	}
	os.ReadDir(filepath.Join(l.top, "R-evil", "secret.git", "refs"))
	ev := l.w.Drain()
	open, dir := 0, 0
	for _, e := range ev {
		if strings.Contains(e, "OPEN") && strings.HasSuffix(e, "secret.git/HEAD") {
			open++
		}
		if strings.Contains(e, "ISDIR") && strings.Contains(e, "R-evil") {
			dir++
		}
	}
	c.Count("watcher_selftest_events", open+dir)
	c.Floor("inotify self-test (file open + directory listing outside R seen)", min(open, 1)+min(dir, 1), 2)
	// self-test of the marker scan: the outside repository served by an UNBOUND loader must trip it
	{
		free := transport.NewFilesystemLoader(osfs.New(l.top), false)
		st, err := free.Load(&url.URL{Path: "/outside/secret.git"})
		if err != nil {
			c.Broken("self-test: unbound loader cannot load the sentinel: %v", err)
		} else {
			var r result
			l.inspect(st, &r)
			if !l.leaks(r.Served) {
				c.Broken("self-test: marker not found in the sentinel's refs")
			} else {
				c.Count("marker_selftest", 1)
			}
		}
		l.w.Drain()
	}

	cases := l.seeds()
	nRandom := c.N(150, 2600)
	for i := 0; i < nRandom; i++ {
		cases = append(cases, l.randomPath(i))
	}
	sampled := 0
	for _, h := range cases {
		for _, entry := range l.entries() {
			res := l.exercise(entry, h)
			c.Eval(h.Label+"|"+entry, h.Out)
			c.Count("requests", 1)
			c.Seen("entry_points", entry)
			c.Seen("labels", keyLabel(h.Label))
			served := res.Status == "loaded" || res.Status == "served" || res.Status == "http 200" || strings.HasSuffix(res.Status, "served")
			if served && len(res.Served) > 0 {
				c.Count("served_something", 1)
				if !h.Out {
					c.Count("legit_served", 1)
					c.Seen("legit_entry_points", entry)
				}
			} else {
				c.Count("refused", 1)
			}
			if res.Status == "timeout" {
				c.Inconclusive("file transport did not answer within 60 s for %q", h.Path)
			}
			replay := map[string]any{"path": h.Path, "label": h.Label, "entry": entry, "status": res.Status, "root": res.Root, "events": res.Events}
			what := fmt.Sprintf("entry=%s path=%q (%s) status=%q root=%q", entry, h.Path, h.Label, res.Status, res.Root)
			if res.Panic != "" {
				c.Fail("panic:"+entry+":"+keyLabel(h.Label), what+"\npanic: "+res.Panic, replay)
				continue
			}
			if res.Root != "" && !l.within(res.Root) {
				c.Fail("loader-returns-outside:"+entry+":"+keyLabel(h.Label), what+"\nthe loader bound to "+l.root+" returned a storage rooted outside it", replay)
			}
			if l.leaks(res.Served) {
				c.Fail("serves-outside:"+entry+":"+keyLabel(h.Label), what+"\nserved bytes contain a marker of a repository outside the root: "+vf.Q(res.Served), replay)
			}
			if len(res.Events) > 0 {
				c.Fail("touches-outside:"+entry+":"+keyLabel(h.Label), what+"\ninotify saw accesses outside the root: "+strings.Join(res.Events[:min(len(res.Events), 8)], "; "), replay)
			}
			if sampled < 4 && h.Out && (sampled%2 == 0) == (entry == "load-loose") {
				sampled++
				c.Sample(replay)
			}
		}
	}
	c.Floor("requests", c.Counter("requests"), c.N(800, 20000))
	c.Floor("entry points exercised", c.SeenCount("entry_points"), 9)
	c.Floor("legitimate repositories inside R served (the loaders work at all)", c.Counter("legit_served"), 40)
	c.Floor("entry points that served a legitimate repository", c.SeenCount("legit_entry_points"), 9)
	c.Floor("marker self-test", c.Counter("marker_selftest"), 1)
	c.Extra("git_invocations", gitx.Calls.Load())
	c.Assume("R is bound with osfs.New(R) (go-billy BoundOS / os.Root); transport.DefaultLoader (rooted at /) is by construction not bound and is out of scope")
	c.Assume("objects/info/alternates and worktree commondir files pointing outside R are not request paths or gitfile contents and are not exercised (git follows them too)")
	c.Assume("inotify reports opens, reads and directory listings but not stat/lstat; a bare existence probe of an outside path is therefore not observed unless it leads to a returned storage (observer 1) or served bytes (observer 2)")
	c.Assume("time-of-check/time-of-use races (symlink swapped between resolution and use) are not exercised")
}

func (l *lab) leaks(b []byte) bool {
	for _, s := range l.secrets {
		if len(s) > 0 && bytes.Contains(b, s) {
			return true
		}
	}
	return false
}
