// C21: a crash at any point leaves a readable, connected repository.
//
// Crash model: process stop - completed filesystem operations are durable and
// ordered, the interrupted write may be torn. For every mutating go-git
// operation on a generated repository, one crash-free execution over a
// recording filesystem counts the mutating fs operations M; then the
// operation is re-run from a fresh copy of the pre-state once per crash point
// k in [0,M) (the k-th mutating op is not applied, everything after it is
// refused) and once more per write op with that write half-applied. Every
// crash state is examined by git (rev-parse, for-each-ref, fsck
// --connectivity-only, rev-list --objects over the pre-state tips, status) and
// by go-git (open, iterate + resolve references, walk history and trees, read
// index and config).
package main

import (
	"fmt"
	"math/rand"
	"os"
	"path/filepath"
	"regexp"
	"strings"
	"sync"
	"time"

	"github.com/go-git/go-billy/v6/osfs"

	git "github.com/go-git/go-git/v6"
	"github.com/go-git/go-git/v6/config"
	"github.com/go-git/go-git/v6/plumbing"
	"github.com/go-git/go-git/v6/plumbing/cache"
	"github.com/go-git/go-git/v6/plumbing/object"
	"github.com/go-git/go-git/v6/storage/filesystem"

	"verif/internal/gen"
	"verif/internal/gitx"
	"verif/internal/recfs"
	"verif/internal/vf"
)

func main() {
	vf.Main("C21", "fault_enumeration",
		"cases = generated repository (history with merges, several branches, packed+loose refs, packs+loose objects, remote with extra commits) x mutating operation {add+commit, checkout, reset hard/mixed, fetch, clone, repack, prune, pack-refs, set/remove ref, create/delete branch+tag, set config, set index}; for each case EVERY prefix of the recorded sequence of mutating filesystem operations (plus a torn variant of each write) is materialised by re-running the operation with a crash point; non-trivial = crash state that differs from both the pre- and the post-state; distinct = (operation, kind and path class of the interrupted fs op)",
		run)
}

type opDef struct {
	name string
	// needs: "wt" worktree, "remote" configured remote, "empty" (clone into empty dir)
	run func(e *env) error
}

type env struct {
	dir    string
	remote string
	repo   *git.Repository
	st     *filesystem.Storage
	r      *rand.Rand
	ids    []string // commit ids of the base history
	branch []string
}

func sig() *object.Signature {
	return &object.Signature{Name: "V", Email: "v@example.com", When: time.Unix(1700000000, 0).UTC()}
}

var ops = []opDef{
	{"add+commit", func(e *env) error {
		wt, err := e.repo.Worktree()
		if err != nil {
			return err
		}
		if _, err := wt.Add("newfile.txt"); err != nil {
			return err
		}
		_, err = wt.Commit("crash test commit", &git.CommitOptions{Author: sig(), Committer: sig()})
		return err
	}},
	{"checkout-branch", func(e *env) error {
		wt, err := e.repo.Worktree()
		if err != nil {
			return err
		}
		return wt.Checkout(&git.CheckoutOptions{Branch: plumbing.NewBranchReferenceName(e.branch[1%len(e.branch)]), Force: true})
	}},
	{"checkout-create", func(e *env) error {
		wt, err := e.repo.Worktree()
		if err != nil {
			return err
		}
		return wt.Checkout(&git.CheckoutOptions{Branch: "refs/heads/created", Create: true, Hash: plumbing.NewHash(e.ids[0]), Force: true})
	}},
	{"reset-hard", func(e *env) error {
		wt, err := e.repo.Worktree()
		if err != nil {
			return err
		}
		return wt.Reset(&git.ResetOptions{Mode: git.HardReset, Commit: plumbing.NewHash(e.ids[len(e.ids)/2])})
	}},
	{"reset-mixed", func(e *env) error {
		wt, err := e.repo.Worktree()
		if err != nil {
			return err
		}
		return wt.Reset(&git.ResetOptions{Mode: git.MixedReset, Commit: plumbing.NewHash(e.ids[len(e.ids)/2])})
	}},
	{"fetch", func(e *env) error {
		err := e.repo.Fetch(&git.FetchOptions{RemoteName: "origin"})
		if err == git.NoErrAlreadyUpToDate {
			return nil
		}
		return err
	}},
	{"repack", func(e *env) error { return e.repo.RepackObjects(&git.RepackConfig{}) }},
	{"prune", func(e *env) error { return e.repo.Prune(git.PruneOptions{Handler: e.repo.DeleteObject}) }},
	{"pack-refs", func(e *env) error { return e.st.PackRefs() }},
	{"set-ref", func(e *env) error {
		return e.st.SetReference(plumbing.NewHashReference(plumbing.NewBranchReferenceName(e.branch[0]), plumbing.NewHash(e.ids[0])))
	}},
	{"cas-ref", func(e *env) error {
		old, err := e.st.Reference(plumbing.NewBranchReferenceName(e.branch[0]))
		if err != nil {
			return err
		}
		return e.st.CheckAndSetReference(plumbing.NewHashReference(old.Name(), plumbing.NewHash(e.ids[0])), old)
	}},
	{"remove-ref", func(e *env) error {
		return e.st.RemoveReference(plumbing.NewBranchReferenceName(e.branch[len(e.branch)-1]))
	}},
	{"create-tag", func(e *env) error {
		_, err := e.repo.CreateTag("crashtag", plumbing.NewHash(e.ids[0]), &git.CreateTagOptions{Tagger: sig(), Message: "annotated"})
		return err
	}},
	{"set-config", func(e *env) error {
		cfg, err := e.repo.Config()
		if err != nil {
			return err
		}
		cfg.Remotes["extra"] = &config.RemoteConfig{Name: "extra", URLs: []string{"https://example.com/x.git"}}
		cfg.User.Name = "Somebody"
		return e.repo.SetConfig(cfg)
	}},
	{"set-index", func(e *env) error {
		idx, err := e.st.Index()
		if err != nil {
			return err
		}
		if len(idx.Entries) > 0 {
			idx.Entries = idx.Entries[:len(idx.Entries)-1]
		}
		return e.st.SetIndex(idx)
	}},
	{"clone", nil}, // special: into an empty directory
}

type base struct {
	dir    string // non-bare pre-state
	remote string // bare remote with extra commits
	ids    []string
	branch []string
	tips   []string
}

func buildBase(c *vf.Ctx, g *gitx.Git, r *rand.Rand) *base {
	remote := c.TempDir("remote")
	c.Must(g.Init(remote, true, "sha1"), "init remote")
	h := gen.RandomHistory(r, gen.HistOpts{N: 8 + r.Intn(5), MergeProb: 0.25, Files: 4, Branches: 3, Path: gen.PathOpts{Depth: 2, Exec: true, Symlinks: true}})
	h.ATags["v1"] = 1
	ids, err := g.Import(remote, h)
	c.Must(err, "import")
	dir := c.TempDir("work")
	os.RemoveAll(dir)
	if res := g.Run(c.Scratch, "clone", "-q", remote, dir); !res.OK() {
		c.Must(fmt.Errorf("%s", res), "git clone")
	}
	var branches []string
	for b := range h.Branches {
		branches = append(branches, b)
	}
	sortStrings(branches)
	for _, b := range branches {
		g.Run(dir, "branch", "-f", b, "origin/"+b)
	}
	g.Run(dir, "checkout", "-q", "-f", branches[0])
	// some loose objects + a second pack + packed refs with loose overrides
	g.Run(dir, "repack", "-q", "-a", "-d")
	os.WriteFile(filepath.Join(dir, "loose1.txt"), []byte("loose one\n"), 0o644)
	g.Run(dir, "add", "loose1.txt")
	g.Run(dir, "commit", "-q", "-m", "local commit (loose objects)")
	g.Run(dir, "pack-refs", "--all")
	g.Run(dir, "branch", "-f", "looseref", "HEAD~1")
	// an unreachable loose object for prune
	g.RunIn(dir, []byte("unreachable blob\n"), "hash-object", "-w", "--stdin")
	// the remote advances so that fetch has work to do
	h2 := gen.RandomHistory(r, gen.HistOpts{N: 3, Files: 2, Path: gen.PathOpts{Depth: 1}})
	nb := map[string]int{}
	for k, v := range h2.Branches {
		nb["adv-"+strings.ReplaceAll(k, "/", "-")] = v
	}
	h2.Branches = nb
	_, err = g.Import(remote, h2)
	c.Must(err, "import2")
	// untracked new file for add+commit
	os.WriteFile(filepath.Join(dir, "newfile.txt"), []byte("to be added\n"), 0o644)
	out, _ := g.MustOut(dir, "for-each-ref", "--format=%(objectname)")
	b := &base{dir: dir, remote: remote, ids: ids, branch: branches, tips: strings.Fields(out)}
	return b
}

func sortStrings(s []string) {
	for i := range s {
		for j := i + 1; j < len(s); j++ {
			if s[j] < s[i] {
				s[i], s[j] = s[j], s[i]
			}
		}
	}
}

var hexRe = regexp.MustCompile(`[0-9a-f]{7,40}`)

// pathClass abstracts a path inside the repository directory.
func pathClass(p string) string {
	p = strings.TrimPrefix(p, ".git/")
	switch {
	case p == "HEAD" || p == "ORIG_HEAD" || p == "FETCH_HEAD" || p == "index" || p == "config" || p == "shallow" || p == "packed-refs":
		return p
	case strings.HasPrefix(p, "refs/"):
		return "refs/*"
	case strings.HasPrefix(p, "logs/"):
		return "logs/*"
	case strings.HasPrefix(p, "objects/pack/"):
		if i := strings.LastIndex(p, "."); i > 0 {
			return "objects/pack/*" + p[i:]
		}
		return "objects/pack/tmp"
	case strings.HasPrefix(p, "objects/"):
		return "objects/loose"
	case strings.HasPrefix(p, "packed-refs"):
		return "packed-refs.tmp"
	case strings.Contains(p, "tmp"):
		return "tmpfile"
	}
	if !strings.Contains(p, "/") && !strings.HasPrefix(p, ".") {
		return "worktree-file"
	}
	return "worktree/*"
}

type crashPoint struct {
	Op      string `json:"operation"`
	K       int    `json:"crash_at_mutation"`
	Torn    bool   `json:"torn_write"`
	FsOp    string `json:"interrupted_fs_op"`
	Path    string `json:"interrupted_path"`
	Symptom string `json:"symptom,omitempty"`
	Detail  string `json:"detail,omitempty"`
}

func openOver(dir string, rec *recfs.Rec) (*git.Repository, *filesystem.Storage, error) {
	dot := recfs.Wrap(osfs.New(filepath.Join(dir, ".git")), rec)
	wt := recfs.Wrap(osfs.New(dir), rec)
	st := filesystem.NewStorage(dot, cache.NewObjectLRUDefault())
	repo, err := git.Open(st, wt)
	return repo, st, err
}

func runOp(op opDef, b *base, dir string, rec *recfs.Rec, seed int64) (err error, crashed bool, panicked string) {
	p, stk := vf.Catch(func() {
		crashed = recfs.RunCrash(rec, func() {
			if op.name == "clone" {
				dot := recfs.Wrap(osfs.New(filepath.Join(dir, ".git")), rec)
				wt := recfs.Wrap(osfs.New(dir), rec)
				st := filesystem.NewStorage(dot, cache.NewObjectLRUDefault())
				_, err = git.Clone(st, wt, &git.CloneOptions{URL: b.remote})
				st.Close()
				return
			}
			repo, st, oerr := openOver(dir, rec)
			if oerr != nil {
				err = oerr
				return
			}
			defer st.Close()
			e := &env{dir: dir, remote: b.remote, repo: repo, st: st, r: rand.New(rand.NewSource(seed)), ids: b.ids, branch: b.branch}
			err = op.run(e)
		})
	})
	if p != nil {
		panicked = fmt.Sprintf("%v\n%s", p, stk)
	}
	return
}

// examine returns (symptom, detail) of a crash state, "" if healthy.
func examine(c *vf.Ctx, g *gitx.Git, dir string, preTips []string, preHeadOK bool) (string, string) {
	sym, det := examine0(c, g, dir, preTips, preHeadOK)
	// a clone starts from no repository at all: until initialisation has completed there is nothing to open
	// (git itself keeps HEAD at refs/heads/.invalid while cloning)
	if !preHeadOK && (sym == "git-cannot-open" || sym == "gogit-cannot-open") {
		c.Count("clone_states_before_repository_exists", 1)
		return "", ""
	}
	return sym, det
}

func examine0(c *vf.Ctx, g *gitx.Git, dir string, preTips []string, preHeadOK bool) (string, string) {
	r := g.Run(dir, "for-each-ref", "--format=%(refname) %(objectname)")
	if !r.OK() || len(strings.TrimSpace(string(r.Err))) > 0 {
		msg := strings.TrimSpace(string(r.Err))
		if strings.Contains(msg, "not a git repository") {
			return "git-cannot-open", oneLine(msg)
		}
		if strings.Contains(msg, "bad config") || strings.Contains(msg, "config file") {
			return "git-config-unreadable", oneLine(msg)
		}
		return "git-ref-unresolvable", oneLine(msg)
	}
	if preHeadOK {
		preTips = append([]string{"HEAD"}, preTips...)
	}
	r = g.Run(dir, "fsck", "--connectivity-only", "--no-dangling", "--no-progress")
	if !r.OK() && !preHeadOK {
		// fresh clone in progress: "invalid HEAD" (refs/heads/.invalid, as in git's own clone) alone is not a defect
		var rest []string
		for _, ln := range strings.Split(string(r.Err)+string(r.Out), "\n") {
			if ln = strings.TrimSpace(ln); ln != "" && !strings.Contains(ln, "invalid HEAD") && !strings.HasPrefix(ln, "notice:") {
				rest = append(rest, ln)
			}
		}
		if len(rest) == 0 {
			r.Code = 0
		}
	}
	if !r.OK() {
		msg := string(r.Err) + string(r.Out)
		switch {
		case strings.Contains(msg, "index file") || strings.Contains(msg, "bad index") || strings.Contains(msg, "index uses"):
			return "git-index-unreadable", oneLine(msg)
		case strings.Contains(msg, "bad config") || strings.Contains(msg, "config file"):
			return "git-config-unreadable", oneLine(msg)
		case strings.Contains(msg, "invalid sha1 pointer"):
			return "git-object-missing", oneLine(msg)
		case strings.Contains(msg, "bad ref") || strings.Contains(msg, "invalid reflog") || strings.Contains(msg, "refs/"):
			return "git-ref-unresolvable", oneLine(msg)
		}
		if strings.Contains(msg, "invalid HEAD") {
			hb, _ := os.ReadFile(filepath.Join(dir, ".git", "HEAD"))
			return "git-HEAD-unresolvable", oneLine(msg) + fmt.Sprintf(" (HEAD file = %q)", hb)
		}
		return "git-object-missing", oneLine(msg)
	}
	if len(preTips) > 0 {
		args := append([]string{"rev-list", "--objects", "--quiet"}, preTips...)
		if r := g.Run(dir, args...); !r.OK() {
			msg := string(r.Err)
			if strings.Contains(msg, "bad revision 'HEAD'") || strings.Contains(msg, "ambiguous argument 'HEAD'") {
				return "git-HEAD-unresolvable", oneLine(msg)
			}
			return "git-pre-state-object-missing", oneLine(msg)
		}
	}
	if r := g.Run(dir, "--no-optional-locks", "status", "--porcelain"); !r.OK() {
		msg := string(r.Err)
		if strings.Contains(msg, "config") {
			return "git-config-unreadable", oneLine(msg)
		}
		return "git-index-unreadable", oneLine(msg)
	}
	// go-git's own view
	var sym, det string
	p, stk := vf.Catch(func() {
		repo, err := git.PlainOpen(dir)
		if err != nil {
			sym, det = "gogit-cannot-open", err.Error()
			return
		}
		if _, err := repo.Config(); err != nil {
			sym, det = "gogit-config-unreadable", err.Error()
			return
		}
		it, err := repo.References()
		if err != nil {
			sym, det = "gogit-ref-unresolvable", err.Error()
			return
		}
		var tips []plumbing.Hash
		err = it.ForEach(func(ref *plumbing.Reference) error {
			if ref.Type() == plumbing.SymbolicReference {
				if ref.Name() == plumbing.HEAD && !preHeadOK {
					return nil
				}
				rr, err := repo.Reference(ref.Name(), true)
				if err != nil {
					return fmt.Errorf("%s: %w", ref.Name(), err)
				}
				tips = append(tips, rr.Hash())
				return nil
			}
			tips = append(tips, ref.Hash())
			return nil
		})
		if err != nil {
			sym, det = "gogit-ref-unresolvable", err.Error()
			return
		}
		seen := map[plumbing.Hash]bool{}
		for _, t := range tips {
			o, err := repo.Object(plumbing.AnyObject, t)
			if err != nil {
				sym, det = "gogit-object-missing", fmt.Sprintf("tip %s: %v", t, err)
				return
			}
			var cm *object.Commit
			switch x := o.(type) {
			case *object.Commit:
				cm = x
			case *object.Tag:
				cm, err = x.Commit()
				if err != nil {
					continue
				}
			default:
				continue
			}
			iter := object.NewCommitPreorderIter(cm, seen, nil)
			err = iter.ForEach(func(cc *object.Commit) error {
				seen[cc.Hash] = true
				tr, err := cc.Tree()
				if err != nil {
					return err
				}
				return tr.Files().ForEach(func(f *object.File) error { return nil })
			})
			if err != nil {
				sym, det = "gogit-object-missing", fmt.Sprintf("walking from %s: %v", t, err)
				return
			}
		}
		if _, err := repo.Storer.Index(); err != nil {
			sym, det = "gogit-index-unreadable", err.Error()
			return
		}
		if st, ok := repo.Storer.(*filesystem.Storage); ok {
			st.Close()
		}
	})
	if p != nil {
		return "gogit-panic", fmt.Sprintf("%v %s", p, stk)
	}
	return sym, det
}

func oneLine(s string) string {
	s = strings.TrimSpace(s)
	if i := strings.Index(s, "\n"); i > 0 {
		s = s[:i]
	}
	s = hexRe.ReplaceAllString(s, "H")
	if len(s) > 160 {
		s = s[:160]
	}
	return s
}

func run(c *vf.Ctx) {
	g := gitx.New(c.Scratch)
	nbases := c.N(1, 3)
	var bases []*base
	for i := 0; i < nbases; i++ {
		bases = append(bases, buildBase(c, g, c.Rand("base", i)))
	}
	type caseT struct {
		b  *base
		op opDef
	}
	var cases []caseT
	only := os.Getenv("VERIF_C21_OPS") // debugging aid: comma-separated operation names
	for _, b := range bases {
		for _, op := range ops {
			if only != "" && !strings.Contains(","+only+",", ","+op.name+",") {
				continue
			}
			cases = append(cases, caseT{b, op})
		}
	}
	// quick: every op on base 0 with every crash point, torn variants sampled; thorough: all bases, all torn variants
	var mu sync.Mutex
	for ci, cs := range cases {
		// 1. crash-free recorded run on a private copy
		work := c.TempDir("case")
		dir := filepath.Join(work, "r")
		prep := func(dst string) {
			os.RemoveAll(dst)
			if cs.op.name == "clone" {
				os.MkdirAll(dst, 0o755)
				return
			}
			c.Must(gitx.CopyDir(cs.b.dir, dst), "copy")
		}
		prep(dir)
		rec := recfs.New()
		rec.Record = true
		err, crashed, pan := runOp(cs.op, cs.b, dir, rec, int64(ci))
		if err != nil && pan == "" && !crashed && (cs.op.name == "repack" || cs.op.name == "prune") && strings.Contains(err.Error(), "unknown object") && strings.Contains(err.Error(), "*object.Blob") {
			// go-git's full object walk has no case for blobs reached as ordinary children (symlink tree entries): Prune and
			// RepackObjects return this error before mutating anything on a base that contains a symlink. Nothing to crash.
			c.Count("operations_refused_on_base_with_symlinks", 1)
			os.RemoveAll(work)
			continue
		}
		if pan != "" || crashed || err != nil {
			c.Broken("crash-free run of %s failed: err=%v crashed=%v panic=%s", cs.op.name, err, crashed, pan)
			os.RemoveAll(work)
			continue
		}
		preTips := cs.b.tips
		preHeadOK := cs.op.name != "clone"
		if cs.op.name == "clone" {
			preTips = nil
		}
		if sym, det := examine(c, g, dir, preTips, true); sym != "" {
			c.Broken("MACHINERY: completed %s leaves a state my examiner rejects: %s %s", cs.op.name, sym, det)
			os.RemoveAll(work)
			continue
		}
		ops := rec.Ops()
		var muts []recfs.Op
		for _, o := range ops {
			if o.Mut {
				muts = append(muts, o)
			}
		}
		M := len(muts)
		c.Count("operations", 1)
		c.Seen("op_kinds", cs.op.name)
		c.Count("mutating_fs_ops", M)
		type point struct {
			k    int
			torn bool
		}
		var pts []point
		for k := 0; k < M; k++ {
			pts = append(pts, point{k, false})
			isW := muts[k].Kind == "write" || muts[k].Kind == "writeat"
			if isW && (!c.Quick() || k%3 == 0 || M <= 12) {
				pts = append(pts, point{k, true})
			}
		}
		if c.Quick() && len(pts) > 45 {
			// quick tier: the first crash point of every distinct (fs op kind, path class, torn) plus an even spread, <= ~60 per operation
			seenShape := map[string]bool{}
			var keep []point
			step := len(pts)/30 + 1
			for i, p := range pts {
				cls := pathClass(muts[p.k].Path)
				if muts[p.k].Kind == "rename" {
					cls = pathClass(muts[p.k].Path2)
				}
				sh := fmt.Sprintf("%s|%s|%v", muts[p.k].Kind, cls, p.torn)
				if !seenShape[sh] || i%step == 0 {
					keep = append(keep, p)
				}
				seenShape[sh] = true
			}
			pts = keep
			c.Count("operations_with_sampled_points", 1)
		}
		vf.Parallel(len(pts), 12, func(pi int) {
			pt := pts[pi]
			d := filepath.Join(work, fmt.Sprintf("k%d-%v", pt.k, pt.torn))
			prep(d)
			defer os.RemoveAll(d)
			rc := recfs.New()
			rc.CrashAt, rc.Torn = pt.k, pt.torn
			_, crashed, pan := runOp(cs.op, cs.b, d, rc, int64(ci))
			cp := crashPoint{Op: cs.op.name, K: pt.k, Torn: pt.torn, FsOp: muts[pt.k].Kind, Path: muts[pt.k].Path}
			if muts[pt.k].Path2 != "" {
				cp.Path += " -> " + muts[pt.k].Path2
			}
			if pan != "" {
				mu.Lock()
				c.Fail("panic-while-crashing:"+cs.op.name, "go-git panicked (not the injected crash): "+pan, cp)
				mu.Unlock()
				return
			}
			if !crashed {
				// the run diverged from the recorded one (fewer mutations): still examine the state
				c.Count("crash_point_not_reached", 1)
			}
			sym, det := examine(c, g, d, preTips, preHeadOK)
			cls := pathClass(muts[pt.k].Path)
			if muts[pt.k].Kind == "rename" {
				cls = pathClass(muts[pt.k].Path2)
			}
			shape := fmt.Sprintf("%s|%s|%s|torn=%v", cs.op.name, muts[pt.k].Kind, cls, pt.torn)
			c.Eval(shape, pt.k > 0)
			c.Count("crash_states", 1)
			if pt.torn {
				c.Count("torn_states", 1)
			}
			if sym != "" {
				cp.Symptom, cp.Detail = sym, det
				key := fmt.Sprintf("%s:crash-at-%s-of-%s", sym, muts[pt.k].Kind, cls)
				if pt.torn {
					key += ":torn"
				}
				// files go-git rewrites in place (truncate, then write): one finding per file class, whatever the symptom
				inPlace := map[string]bool{"HEAD": true, "refs/*": true, "index": true, "config": true, "shallow": true, "ORIG_HEAD": true, "FETCH_HEAD": true}
				switch muts[pt.k].Kind {
				case "write", "writeat", "truncate", "openfile-w", "create":
					if inPlace[cls] {
						key = "in-place-rewrite-interrupted:" + cls
					}
				}
				mu.Lock()
				c.Fail(key, fmt.Sprintf("operation %s stopped at mutating fs op #%d (%s %s, torn=%v) leaves: %s — %s", cs.op.name, pt.k, muts[pt.k].Kind, cp.Path, pt.torn, sym, det), cp)
				mu.Unlock()
			}
			if pi < 2 && ci < 2 {
				c.Sample(cp)
			}
		})
		os.RemoveAll(work)
	}
	c.Extra("git_invocations", gitx.Calls.Load())
	c.Extra("exhaustive_over_recorded_prefixes", !c.Quick())
	c.Floor("operations recorded", c.Counter("operations"), c.N(13, 36))
	c.Floor("operation kinds", c.SeenCount("op_kinds"), 13)
	c.Floor("crash states examined", c.Counter("crash_states"), c.N(200, 3500))
	c.Floor("torn-write states examined", c.Counter("torn_states"), c.N(30, 600))
	c.Assume("process-stop crash model: completed fs operations are durable and ordered; no power-loss reordering; the interrupted write may be torn (half applied)")
	c.Assume("after the crash point every further mutation (including deferred clean-up in the same process) is refused, as if the process had died")
	c.Assume("index and config readability count as 'can be opened' (the property lists index and config writes among the mutations)")
}
