// C51: commit-graph files interoperate with git.
//
// Every case is a generated DAG (merges, octopus merges -> EDGE chunk, skewed
// and tied committer times, parents placed 2^31 .. 2^32+ seconds in the future
// of their children -> GDA2 offsets with the overflow bit / GDO2 chunk)
// imported with git fast-import. Ground truth per commit (tree, ordered
// parents, committer time) is what git prints from the commit objects with
// core.commitGraph=false; generation number = 1 + max(parent generations) and
// corrected commit date = max(commit time, max parent corrected date + 1) are
// computed from that by the harness (the property's own definition).
// A) git writes (`commit-graph write --reachable`, generation version 1 or 2,
//
//	--changed-paths, or a two-layer --split chain); go-git opens it with
//	OpenChainOrFileIndex and every commit's data must equal the ground truth.
//
// B) go-git writes: a MemoryIndex filled with the ground truth is encoded,
//
//	placed at objects/info/commit-graph, `git commit-graph verify` must pass,
//	git log with the graph enabled must list what it lists without it, and
//	go-git must read its own file back.
package main

import (
	"bytes"
	"fmt"
	"math/rand"
	"os"
	"path/filepath"
	"sort"
	"strconv"
	"strings"
	"sync"
	"time"

	"github.com/go-git/go-billy/v6/osfs"
	"github.com/go-git/go-git/v6/plumbing"
	"github.com/go-git/go-git/v6/plumbing/format/commitgraph"

	"verif/internal/gen"
	"verif/internal/gitx"
	"verif/internal/vf"
)

func main() {
	vf.Main("C51", "exploration",
		"DAGs = seeded random histories (3-40 commits, merge probability 0-0.5, octopus merges, skewed/tied times, optional far-future parents forcing generation-data overflow); shape = (size class, has octopus, overflow class, writer variant); non-trivial = has a merge, an octopus, an overflow or a split chain",
		run)
}

var importMu sync.Mutex

type cinfo struct {
	ID, Tree string
	Parents  []string
	Time     int64
	Gen      uint64 // topological level
	Corr     uint64 // corrected commit date
}

// groundTruth lists commits from the objects themselves (commit-graph disabled).
func groundTruth(g *gitx.Git, dir string, useGraph bool) (map[string]*cinfo, []string, error) {
	res := g.Run(dir, "-c", "core.commitGraph="+strconv.FormatBool(useGraph), "log", "--all", "--topo-order", "--format=%H %T %ct %P")
	if !res.OK() {
		return nil, nil, fmt.Errorf("git log: %s", res)
	}
	m := map[string]*cinfo{}
	var order []string
	for _, ln := range strings.Split(strings.TrimSpace(string(res.Out)), "\n") {
		f := strings.Fields(ln)
		if len(f) < 3 {
			continue
		}
		t, _ := strconv.ParseInt(f[2], 10, 64)
		m[f[0]] = &cinfo{ID: f[0], Tree: f[1], Time: t, Parents: f[3:]}
		order = append(order, f[0])
	}
	// generations: children come before parents in topo order, so walk backwards
	for i := len(order) - 1; i >= 0; i-- {
		c := m[order[i]]
		c.Gen, c.Corr = 1, uint64(c.Time)
		for _, p := range c.Parents {
			pc := m[p]
			if pc == nil {
				return nil, nil, fmt.Errorf("parent %s of %s not listed", p, c.ID)
			}
			if pc.Gen+1 > c.Gen {
				c.Gen = pc.Gen + 1
			}
			if pc.Corr+1 > c.Corr {
				c.Corr = pc.Corr + 1
			}
		}
	}
	return m, order, nil
}

type dagCase struct {
	h        *gen.History
	octopus  bool
	overflow string // none | bit31 | over32
	merges   bool
}

func genDAG(r *rand.Rand) *dagCase {
	n := 3 + r.Intn(12)
	if r.Intn(4) == 0 {
		n = 20 + r.Intn(21)
	}
	dc := &dagCase{overflow: "none"}
	h := gen.RandomHistory(r, gen.HistOpts{N: n, MergeProb: []float64{0, 0.2, 0.5}[r.Intn(3)], Octopus: r.Intn(2) == 0, SkewTime: r.Intn(2) == 0, Files: 2, Path: gen.PathOpts{Depth: 2}, Branches: 1 + r.Intn(3)})
	// far-future parents: the child's corrected date then lies 2^31.. / 2^32.. above its own time
	switch r.Intn(4) {
	case 0:
		dc.overflow = "bit31"
	case 1:
		dc.overflow = "over32"
	}
	if dc.overflow != "none" {
		for k := 0; k < 1+r.Intn(2); k++ {
			i := r.Intn(len(h.Commits))
			add := int64(1)<<31 + int64(r.Intn(1000))
			if dc.overflow == "over32" {
				add = int64(1)<<32 + int64(r.Intn(1000))
			}
			h.Commits[i].Time += add
		}
	}
	for _, c := range h.Commits {
		if len(c.Parents) > 2 {
			dc.octopus = true
		}
		if len(c.Parents) > 1 {
			dc.merges = true
		}
	}
	dc.h = h
	return dc
}

func sizeClass(n int) string {
	switch {
	case n <= 5:
		return "n<=5"
	case n <= 15:
		return "n<=15"
	}
	return "n>15"
}

func openGraph(dir string) (commitgraph.Index, error, any) {
	var idx commitgraph.Index
	var err error
	p, _ := vf.Catch(func() { idx, err = commitgraph.OpenChainOrFileIndex(osfs.New(filepath.Join(dir, ".git"))) })
	return idx, err, p
}

// compareIndex checks every commit of truth against idx. Returns the first difference.
func compareIndex(idx commitgraph.Index, truth map[string]*cinfo, order []string, wantV2 bool) (field, detail string) {
	for _, id := range order {
		t := truth[id]
		var cd *commitgraph.CommitData
		var err error
		var pos uint32
		if p, st := vf.Catch(func() {
			pos, err = idx.GetIndexByHash(plumbing.NewHash(id))
			if err == nil {
				cd, err = idx.GetCommitDataByIndex(pos)
			}
		}); p != nil {
			return "panic", fmt.Sprintf("%v\n%s", p, st)
		}
		if err != nil {
			return "lookup", fmt.Sprintf("commit %s: %v", id, err)
		}
		if h, err := idx.GetHashByIndex(pos); err != nil || h.String() != id {
			return "hash-by-index", fmt.Sprintf("commit %s at index %d: GetHashByIndex gives %s %v", id, pos, h, err)
		}
		var ps []string
		for _, p := range cd.ParentHashes {
			ps = append(ps, p.String())
		}
		switch {
		case cd.TreeHash.String() != t.Tree:
			return "tree", fmt.Sprintf("commit %s: tree %s, objects say %s", id, cd.TreeHash, t.Tree)
		case strings.Join(ps, " ") != strings.Join(t.Parents, " "):
			return fmt.Sprintf("parents:%d", min(len(t.Parents), 3)), fmt.Sprintf("commit %s: parents %v, objects say %v", id, ps, t.Parents)
		case len(cd.ParentIndexes) != len(t.Parents):
			return "parent-indexes", fmt.Sprintf("commit %s: %d parent indexes for %d parents", id, len(cd.ParentIndexes), len(t.Parents))
		case cd.When.Unix() != t.Time:
			return "time", fmt.Sprintf("commit %s: time %d, objects say %d", id, cd.When.Unix(), t.Time)
		case cd.Generation != t.Gen:
			return "generation", fmt.Sprintf("commit %s: generation %d, 1+max(parents) gives %d", id, cd.Generation, t.Gen)
		}
		if wantV2 {
			if !idx.HasGenerationV2() {
				return "generation-v2-missing", "file has a GDA2 chunk but HasGenerationV2() is false"
			}
			if cd.GenerationV2 != t.Corr {
				cls := "plain"
				if off := t.Corr - uint64(t.Time); off >= 1<<32 {
					cls = "offset>=2^32"
				} else if off >= 1<<31 {
					cls = "offset>=2^31"
				}
				return "generation-v2:" + cls, fmt.Sprintf("commit %s: corrected commit date %d, expected %d (commit time %d)", id, cd.GenerationV2, t.Corr, t.Time)
			}
		}
		for i, pi := range cd.ParentIndexes {
			if h, err := idx.GetHashByIndex(pi); err != nil || h.String() != t.Parents[i] {
				return "parent-index-resolution", fmt.Sprintf("commit %s parent %d: index %d resolves to %s %v, want %s", id, i, pi, h, err, t.Parents[i])
			}
		}
	}
	return "", ""
}

func hasChunk(dir, sig string) bool {
	files, _ := filepath.Glob(filepath.Join(dir, ".git", "objects", "info", "commit-graphs", "*.graph"))
	files = append(files, filepath.Join(dir, ".git", "objects", "info", "commit-graph"))
	for _, f := range files {
		if b, err := os.ReadFile(f); err == nil && len(b) > 8 {
			n := int(b[6])
			for i := 0; i < n && 8+12*i+4 <= len(b); i++ {
				if string(b[8+12*i:8+12*i+4]) == sig {
					return true
				}
			}
		}
	}
	return false
}

func removeGraphs(dir string) {
	os.Remove(filepath.Join(dir, ".git", "objects", "info", "commit-graph"))
	os.RemoveAll(filepath.Join(dir, ".git", "objects", "info", "commit-graphs"))
}

func run(c *vf.Ctx) {
	g := gitx.New(c.Scratch)
	n := c.N(28, 180)
	vf.Parallel(n, 6, func(i int) {
		r := c.Rand("dag", i)
		dc := genDAG(r)
		dir := c.TempDir(fmt.Sprintf("r%d", i))
		defer os.RemoveAll(dir)
		if err := g.Init(dir, false, "sha1"); err != nil {
			c.Broken("%v", err)
			return
		}
		// gitx.Import names its marks file after the global call counter: not safe for concurrent use
		importMu.Lock()
		ids, err := g.Import(dir, dc.h)
		importMu.Unlock()
		if err != nil {
			c.Broken("%v", err)
			return
		}
		truth, order, err := groundTruth(g, dir, false)
		if err != nil {
			c.Broken("%v", err)
			return
		}
		c.Count("dags", 1)
		c.Count("commits", len(order))
		base := fmt.Sprintf("%s,octopus=%v,overflow=%s", sizeClass(len(order)), dc.octopus, dc.overflow)
		replay := map[string]any{"commits": len(order), "octopus": dc.octopus, "overflow": dc.overflow, "fast_import": string(dc.h.FastImport())}

		// ---------------- A) git writes, go-git reads
		variant := []string{"v2", "v1", "changed-paths", "split"}[i%4]
		var werr gitx.Result
		switch variant {
		case "v2":
			werr = g.Run(dir, "commit-graph", "write", "--reachable")
		case "v1":
			werr = g.Run(dir, "-c", "commitGraph.generationVersion=1", "commit-graph", "write", "--reachable")
		case "changed-paths":
			werr = g.Run(dir, "commit-graph", "write", "--reachable", "--changed-paths")
		case "split":
			mid := ids[len(ids)/2]
			werr = g.RunIn(dir, []byte(mid+"\n"), "commit-graph", "write", "--split=no-merge", "--stdin-commits")
			if werr.OK() {
				werr = g.Run(dir, "commit-graph", "write", "--reachable", "--split=no-merge")
			}
		}
		if werr.Timeout {
			c.Inconclusive("git commit-graph write timed out")
			return
		}
		if !werr.OK() {
			c.Broken("git commit-graph write (%s): %s", variant, werr)
			return
		}
		layers, _ := filepath.Glob(filepath.Join(dir, ".git", "objects", "info", "commit-graphs", "*.graph"))
		wantV2 := hasChunk(dir, "GDA2") && variant != "v1"
		if variant == "split" && len(layers) > 1 {
			// a chain only has generation data if every layer has it
			for _, f := range layers {
				b, _ := os.ReadFile(f)
				if !bytes.Contains(b[:min(len(b), 200)], []byte("GDA2")) {
					wantV2 = false
				}
			}
		}
		shape := base + ",git-writes:" + variant + fmt.Sprintf(",layers=%d,gdo2=%v,edge=%v", len(layers), hasChunk(dir, "GDO2"), hasChunk(dir, "EDGE"))
		c.Eval(shape, dc.merges || dc.octopus || dc.overflow != "none" || len(layers) > 1)
		c.Seen("git_writer_variants", variant)
		if hasChunk(dir, "GDO2") {
			c.Count("git_written_with_GDO2", 1)
		}
		if hasChunk(dir, "EDGE") {
			c.Count("git_written_with_EDGE", 1)
		}
		if len(layers) > 1 {
			c.Count("git_written_chains", 1)
		}
		idx, oerr, pv := openGraph(dir)
		switch {
		case pv != nil:
			c.Fail("read-panic:"+variant, fmt.Sprintf("opening git's commit-graph panicked: %v (%s)", pv, shape), replay)
		case oerr != nil:
			c.Fail("read-open-error:"+variant, fmt.Sprintf("go-git cannot open git's commit-graph (%s): %v", shape, oerr), replay)
		default:
			c.Count("git_written_graphs_read", 1)
			if field, det := compareIndex(idx, truth, order, wantV2); field != "" {
				c.Fail("read:"+field+":"+variant, fmt.Sprintf("%s (%s)", det, shape), replay)
			}
			// the graph holds every commit reachable from a ref; a --stdin-commits layer may add an
			// imported commit that no branch reaches, nothing else
			imported := map[string]bool{}
			for _, id := range ids {
				imported[id] = true
			}
			hs := idx.Hashes()
			bad := int(idx.MaximumNumberOfHashes()) != len(hs) || len(hs) < len(order) || len(hs) > len(ids)
			seen := map[string]bool{}
			for _, h := range hs {
				if !imported[h.String()] || seen[h.String()] {
					bad = true
				}
				seen[h.String()] = true
			}
			if bad {
				c.Fail("read:hash-list:"+variant, fmt.Sprintf("graph lists %d/%d hashes (duplicates or unknown ids?), repository has %d reachable of %d imported commits (%s)", idx.MaximumNumberOfHashes(), len(hs), len(order), len(ids), shape), replay)
			}
			idx.Close()
		}
		removeGraphs(dir)

		// ---------------- B) go-git writes, git verifies
		withV2 := i%3 != 0
		mi := commitgraph.NewMemoryIndex()
		perm := r.Perm(len(order)) // insertion order must not matter
		for _, k := range perm {
			t := truth[order[k]]
			cd := &commitgraph.CommitData{TreeHash: plumbing.NewHash(t.Tree), Generation: t.Gen, When: time.Unix(t.Time, 0)}
			for _, p := range t.Parents {
				cd.ParentHashes = append(cd.ParentHashes, plumbing.NewHash(p))
			}
			if withV2 {
				cd.GenerationV2 = t.Corr
			}
			mi.Add(plumbing.NewHash(t.ID), cd)
		}
		var buf bytes.Buffer
		var eerr error
		wshape := base + fmt.Sprintf(",gogit-writes:v2=%v", withV2)
		c.Eval(wshape, dc.merges || dc.octopus || dc.overflow != "none")
		// key part: which classes of generation-data offsets (corrected date - commit time) occur
		mid, high := false, false
		for _, id := range order {
			off := truth[id].Corr - uint64(truth[id].Time)
			if off >= 1<<32 {
				high = true
			} else if off >= 1<<31 {
				mid = true
			}
		}
		ovKey := "gda2-offsets<2^31"
		switch {
		case !withV2:
			ovKey = "no-generation-data"
		case mid && high:
			ovKey = "gda2-offsets-in-[2^31,2^32)-and->=2^32"
		case mid:
			ovKey = "gda2-offsets-in-[2^31,2^32)"
		case high:
			ovKey = "gda2-offsets>=2^32"
		}
		if dc.octopus && !mid && !high {
			ovKey += "+octopus"
		}
		c.Seen("gogit_writer_offset_classes", ovKey)
		if p, st := vf.Catch(func() { eerr = commitgraph.NewEncoder(&buf).Encode(mi) }); p != nil {
			c.Fail("write-panic:"+ovKey, fmt.Sprintf("Encoder panicked (%s): %v\n%s", wshape, p, st), replay)
			return
		}
		if eerr != nil {
			c.Fail("write-error:"+ovKey, fmt.Sprintf("Encoder fails (%s): %v", wshape, eerr), replay)
			return
		}
		os.MkdirAll(filepath.Join(dir, ".git", "objects", "info"), 0o755)
		if err := os.WriteFile(filepath.Join(dir, ".git", "objects", "info", "commit-graph"), buf.Bytes(), 0o644); err != nil {
			c.Broken("%v", err)
			return
		}
		c.Count("gogit_written_graphs", 1)
		res := g.Run(dir, "commit-graph", "verify")
		if res.Timeout {
			c.Inconclusive("git commit-graph verify timed out")
			return
		}
		c.Count("git_verify_calls", 1)
		if !res.OK() || len(bytes.TrimSpace(res.Err)) > 0 {
			c.Fail("git-verify-fails:"+ovKey, fmt.Sprintf("git commit-graph verify rejects go-git's file (%s): %s", wshape, res), replay)
		} else {
			c.Count("git_verify_passed", 1)
			// git trusting the file must list what it lists from the objects
			t2, o2, err := groundTruth(g, dir, true)
			if err != nil {
				c.Fail("git-log-with-gogit-graph-fails", fmt.Sprintf("%v (%s)", err, wshape), replay)
			} else {
				same := len(o2) == len(order)
				for _, id := range order {
					a, b := truth[id], t2[id]
					if b == nil || a.Tree != b.Tree || a.Time != b.Time || strings.Join(a.Parents, " ") != strings.Join(b.Parents, " ") {
						same = false
					}
				}
				if !same {
					c.Fail("git-log-differs-with-gogit-graph:"+ovKey, fmt.Sprintf("git log with core.commitGraph=true on go-git's file differs from the objects (%s)", wshape), replay)
				}
			}
		}
		// go-git reads its own file
		idx2, oerr2, pv2 := openGraph(dir)
		if pv2 != nil || oerr2 != nil {
			c.Fail("readback-open-error:"+ovKey, fmt.Sprintf("go-git cannot open its own commit-graph (%s): %v %v", wshape, oerr2, pv2), replay)
		} else {
			if field, det := compareIndex(idx2, truth, order, withV2); field != "" {
				c.Fail("readback:"+field+":"+ovKey, fmt.Sprintf("%s (%s)", det, wshape), replay)
			}
			idx2.Close()
		}
		if i < 2 {
			ex := order[:min(3, len(order))]
			sort.Strings(ex)
			c.Sample(map[string]any{"commits": len(order), "octopus": dc.octopus, "overflow": dc.overflow, "git_variant": variant, "example_ids": ex})
		}
	})
	c.Extra("git_invocations", gitx.Calls.Load())
	c.Floor("DAGs", c.Counter("dags"), c.N(27, 172))
	c.Floor("git-written graphs read by go-git", c.Counter("git_written_graphs_read"), c.N(25, 160))
	c.Floor("go-git-written graphs given to git commit-graph verify", c.Counter("git_verify_calls"), c.N(25, 160))
	c.Floor("git-written graphs with an EDGE chunk", c.Counter("git_written_with_EDGE"), c.N(2, 14))
	c.Floor("git-written graphs with a GDO2 chunk", c.Counter("git_written_with_GDO2"), c.N(2, 10))
	c.Floor("git-written split chains", c.Counter("git_written_chains"), c.N(3, 18))
	c.Assume("ground truth (tree, ordered parents, committer time) is git's reading of the commit objects with core.commitGraph=false; generation numbers and corrected commit dates are computed from it by their definition")
	c.Assume("go-git has no writer for chains (the Encoder can only reference parents inside the same file), so only single files are written by go-git")
	c.Assume("sha1 repositories only: the Encoder and fileIndex are SHA-1 only (TODO in the source)")
}
