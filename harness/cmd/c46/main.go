// C46: go-git's blame attributes every line to the commit `git blame` names,
// and the attributed commit's version of the file contains the line.
//
// Monitor: generated histories of one file (linear, branching, merging, with
// and without skewed commit times) are imported with git fast-import, many per
// repository; git.Blame(commit, path) is compared line by line with
// `git blame --porcelain <commit> -- path`. Tier A histories have globally
// unique line texts, no re-added lines and a unique longest common subsequence
// on every parent->child edge, so the attribution does not depend on the diff
// algorithm; tier B (duplicate lines, tied moves) is keyed apart. Git-free
// invariant: the attributed commit's version of the file contains the line.
package main

import (
	"fmt"
	"math/rand"
	"os"
	"regexp"
	"sort"
	"strconv"
	"strings"
	"sync"

	git "github.com/go-git/go-git/v6"
	"github.com/go-git/go-git/v6/plumbing"

	"verif/internal/gen"
	"verif/internal/gitx"
	"verif/internal/vf"
)

func main() {
	vf.Main("C46", "exploration",
		"histories of one file: 2-12 commits, linear / branch+merge (incl. merges adding their own lines, criss-cross) / skewed commit times; edits = insert, delete, replace, move block, duplicate block, swap, append, prepend; tier A = globally unique line texts, no re-added line, unique LCS on every parent->child edge; tier B = duplicate-rich vocabulary and tied moves; blamed at the tip and at an inner commit; shape = (tier, DAG shape string, multiset of edit kinds, skew, final-newline); non-trivial = at least two commits touch the file and the blamed file is non-empty; oracle = git blame --porcelain",
		run)
}

const path = "dir/f.txt"

type hist struct {
	tier    string // A | B
	skew    bool
	commits []hcommit
	ops     []string
	noNL    bool
}

type hcommit struct {
	parents []int
	lines   []string
	present bool // file exists in this commit
	time    int64
}

func (h *hist) structure() string {
	merges, branches := 0, 0
	children := map[int]int{}
	for _, c := range h.commits {
		if len(c.parents) > 1 {
			merges++
		}
		for _, p := range c.parents {
			children[p]++
		}
	}
	for _, n := range children {
		if n > 1 {
			branches++
		}
	}
	switch {
	case merges == 0 && branches == 0:
		return "linear"
	case merges == 0:
		return "branching"
	}
	return "merge"
}

func (h *hist) dagString() string {
	var b strings.Builder
	for _, c := range h.commits {
		b.WriteString("(")
		for _, p := range c.parents {
			fmt.Fprintf(&b, "%d,", p)
		}
		b.WriteString(")")
	}
	return b.String()
}

type lineGen struct {
	r    *rand.Rand
	tier string
	uid  int
	tag  string
}

func (g *lineGen) next() string {
	g.uid++
	if g.tier == "B" {
		return []string{"foo", "bar", "}", "", "baz", "  x"}[g.r.Intn(6)]
	}
	return fmt.Sprintf("%s-%d %s", g.tag, g.uid, []string{"alpha", "beta", "", "x y"}[g.r.Intn(4)])
}

func edit(g *lineGen, in []string) (out []string, op string) {
	r := g.r
	out = append([]string{}, in...)
	n := 1 + r.Intn(3)
	pos := 0
	if len(out) > 0 {
		pos = r.Intn(len(out) + 1)
	}
	clamp := func() {
		if pos+n > len(out) {
			n = len(out) - pos
		}
	}
	switch k := r.Intn(9); {
	case k == 0 || len(out) == 0:
		ins := make([]string, n)
		for i := range ins {
			ins[i] = g.next()
		}
		out = append(out[:pos], append(ins, out[pos:]...)...)
		return out, "ins"
	case k == 1:
		clamp()
		return append(out[:pos], out[pos+n:]...), "del"
	case k == 2:
		clamp()
		for i := 0; i < n; i++ {
			out[pos+i] = g.next()
		}
		return out, "rep"
	case k == 3:
		for i := 0; i < n; i++ {
			out = append(out, g.next())
		}
		return out, "app"
	case k == 4:
		ins := make([]string, n)
		for i := range ins {
			ins[i] = g.next()
		}
		return append(ins, out...), "pre"
	case k == 5: // move a block
		clamp()
		blk := append([]string{}, out[pos:pos+n]...)
		out = append(out[:pos], out[pos+n:]...)
		at := r.Intn(len(out) + 1)
		return append(out[:at], append(blk, out[at:]...)...), "mov"
	case k == 6 && g.tier == "B": // duplicate a block
		clamp()
		blk := append([]string{}, out[pos:pos+n]...)
		at := r.Intn(len(out) + 1)
		return append(out[:at], append(blk, out[at:]...)...), "dup"
	case k == 7:
		if pos+1 < len(out) {
			out[pos], out[pos+1] = out[pos+1], out[pos]
		}
		return out, "swp"
	default: // two separate edits
		o1, _ := edit(g, out)
		o2, _ := edit(g, o1)
		return o2, "two"
	}
}

// merge3 builds the content of a merge: first parent's lines plus the second parent's own lines after their nearest
// preceding line that both share; lines the second parent deleted (relative to base knowledge we do not track) stay.
func mergeLines(a, b []string) []string {
	inA := map[string]bool{}
	for _, l := range a {
		inA[l] = true
	}
	out := append([]string{}, a...)
	anchor := "" // last common line seen in b
	pending := []string{}
	flush := func() {
		if len(pending) == 0 {
			return
		}
		at := 0
		if anchor != "" {
			for i, l := range out {
				if l == anchor {
					at = i + 1
					break
				}
			}
		}
		out = append(out[:at], append(append([]string{}, pending...), out[at:]...)...)
		pending = nil
	}
	for _, l := range b {
		if inA[l] {
			flush()
			anchor = l
			continue
		}
		pending = append(pending, l)
	}
	flush()
	return out
}

func genHist(r *rand.Rand, tier string, kind int) *hist {
	h := &hist{tier: tier}
	g := &lineGen{r: r, tier: tier, tag: "L"}
	n0 := r.Intn(10)
	if r.Intn(6) == 0 {
		n0 = 15 + r.Intn(25)
	}
	base := make([]string, n0)
	for i := range base {
		base[i] = g.next()
	}
	h.commits = append(h.commits, hcommit{lines: base, present: true})
	n := 2 + r.Intn(9)
	if kind == 0 { // linear
		for i := 1; i < n; i++ {
			prev := h.commits[i-1]
			nl, op := prev.lines, "untouched"
			if r.Intn(6) != 0 { // some commits do not touch the file
				nl, op = edit(g, prev.lines)
			}
			h.ops = append(h.ops, op)
			h.commits = append(h.commits, hcommit{parents: []int{i - 1}, lines: nl, present: true})
		}
	} else {
		heads := []int{0}
		for i := 1; i < n; i++ {
			switch {
			case len(heads) >= 2 && r.Intn(3) == 0: // merge two heads
				ai, bi := r.Intn(len(heads)), r.Intn(len(heads)-1)
				if bi >= ai {
					bi++
				}
				a, b := heads[ai], heads[bi]
				ml := mergeLines(h.commits[a].lines, h.commits[b].lines)
				op := "merge"
				if r.Intn(4) == 0 { // merge that adds its own change
					ml, _ = edit(g, ml)
					op = "evil-merge"
				}
				if r.Intn(6) == 0 { // merge that takes one side verbatim
					ml = append([]string{}, h.commits[b].lines...)
					op = "merge-theirs"
				}
				h.ops = append(h.ops, op)
				h.commits = append(h.commits, hcommit{parents: []int{a, b}, lines: ml, present: true})
				var nh []int
				for _, x := range heads {
					if x != a && x != b {
						nh = append(nh, x)
					}
				}
				heads = append(nh, i)
			case r.Intn(3) == 0: // branch off an existing commit
				p := r.Intn(i)
				nl, op := edit(g, h.commits[p].lines)
				h.ops = append(h.ops, "br-"+op)
				h.commits = append(h.commits, hcommit{parents: []int{p}, lines: nl, present: true})
				heads = append(heads, i)
			default:
				hi := r.Intn(len(heads))
				p := heads[hi]
				nl, op := edit(g, h.commits[p].lines)
				h.ops = append(h.ops, op)
				h.commits = append(h.commits, hcommit{parents: []int{p}, lines: nl, present: true})
				heads[hi] = i
			}
		}
		// tie all heads together so the tip sees everything
		for len(heads) > 1 {
			a, b := heads[0], heads[1]
			ml := mergeLines(h.commits[a].lines, h.commits[b].lines)
			h.ops = append(h.ops, "merge")
			h.commits = append(h.commits, hcommit{parents: []int{a, b}, lines: ml, present: true})
			heads = append([]int{len(h.commits) - 1}, heads[2:]...)
		}
	}
	if kind == 0 && len(h.commits) > 3 && r.Intn(4) == 0 { // the file is added only by commit k
		k := 1 + r.Intn(2)
		for i := 0; i < k; i++ {
			h.commits[i].present = false
			h.commits[i].lines = nil
		}
		h.ops = append(h.ops, "file-added-later")
	}
	h.skew = kind == 2
	for i := range h.commits {
		h.commits[i].time = 1600000000 + int64(i)*100
		if h.skew {
			switch r.Intn(3) {
			case 0:
				h.commits[i].time = 1600000000 + int64(r.Intn(4))*100
			case 1:
				h.commits[i].time = 1600000000 + int64(r.Intn(5000))
			}
		}
	}
	h.noNL = r.Intn(5) == 0
	return h
}

// lcsUnique reports whether the longest common subsequence of two sequences of globally unique strings is unique.
func lcsUnique(a, b []string) bool {
	posA := map[string]int{}
	for i, s := range a {
		posA[s] = i
	}
	var seq []int // positions in a of the common elements, in b's order
	for _, s := range b {
		if p, ok := posA[s]; ok {
			seq = append(seq, p)
		}
	}
	n := len(seq)
	if n == 0 {
		return true
	}
	length := make([]int, n)
	count := make([]float64, n)
	best, total := 0, 0.0
	for i := 0; i < n; i++ {
		length[i], count[i] = 1, 1
		for j := 0; j < i; j++ {
			if seq[j] < seq[i] {
				switch {
				case length[j]+1 > length[i]:
					length[i], count[i] = length[j]+1, count[j]
				case length[j]+1 == length[i]:
					count[i] += count[j]
				}
			}
		}
		if length[i] > best {
			best = length[i]
		}
	}
	for i := 0; i < n; i++ {
		if length[i] == best {
			total += count[i]
		}
	}
	return total == 1
}

// tierAOK: unique texts within each version, nothing re-added after deletion along any path, unique LCS on each edge.
// eff returns the lines as a diff sees them: a last line without newline is a different line than the same text with one.
func (h *hist) eff(i int) []string {
	l := h.commits[i].lines
	if h.noNL && i == len(h.commits)-1 && len(l) > 0 && l[len(l)-1] != "" {
		l = append(append([]string{}, l[:len(l)-1]...), l[len(l)-1]+"\x00no-newline")
	}
	return l
}

func (h *hist) tierAOK() bool {
	for i, c := range h.commits {
		seen := map[string]bool{}
		for _, l := range c.lines {
			if seen[l] {
				return false
			}
			seen[l] = true
		}
		anc := map[string]bool{} // texts present in any parent
		for _, p := range c.parents {
			if !lcsUnique(h.eff(p), h.eff(i)) {
				return false
			}
			for _, l := range h.commits[p].lines {
				anc[l] = true
			}
		}
		// a line that is new relative to all parents must never have existed before (no re-adding)
		for _, l := range c.lines {
			if anc[l] {
				continue
			}
			for j := 0; j < i; j++ {
				for _, x := range h.commits[j].lines {
					if x == l {
						return false
					}
				}
			}
		}
	}
	return true
}

func (h *hist) content(i int) []byte {
	c := h.commits[i]
	if len(c.lines) == 0 {
		return []byte{}
	}
	s := strings.Join(c.lines, "\n")
	if !(h.noNL && i == len(h.commits)-1 && c.lines[len(c.lines)-1] != "") { // a trailing empty line cannot lack its newline
		s += "\n"
	}
	return []byte(s)
}

var hdrRe = regexp.MustCompile(`^([0-9a-f]{40}) (\d+) (\d+)`)

type blameLine struct {
	Hash string
	Text string
}

func parsePorcelain(out string) ([]blameLine, error) {
	var res []blameLine
	cur := ""
	for _, ln := range strings.Split(out, "\n") {
		if strings.HasPrefix(ln, "\t") {
			if cur == "" {
				return nil, fmt.Errorf("content line without header")
			}
			res = append(res, blameLine{cur, ln[1:]})
			cur = ""
			continue
		}
		if m := hdrRe.FindStringSubmatch(ln); m != nil && cur == "" {
			cur = m[1]
		}
	}
	return res, nil
}

func run(c *vf.Ctx) {
	g := gitx.New(c.Scratch)
	nHist := c.N(160, 2400)
	per := 40
	type item struct {
		h    *hist
		base int // index of its first commit in the batch history
	}
	var all []*hist
	for i := 0; i < nHist; i++ {
		r := c.Rand("hist", i)
		tier := "A"
		if i%4 == 3 {
			tier = "B"
		}
		h := genHist(r, tier, i%3)
		if tier == "A" && !h.tierAOK() {
			// ambiguous by construction (tied move/swap, re-added line): evaluated under tier B rules
			h.tier = "B"
			c.Count("tierA_candidates_demoted_to_B", 1)
		}
		all = append(all, h)
	}
	nb := (len(all) + per - 1) / per
	var mu sync.Mutex
	reported := map[string]int{}
	fail := func(key, what string, replay any) {
		mu.Lock()
		reported[key]++
		n := reported[key]
		mu.Unlock()
		if n <= 40 {
			c.Fail(key, what, replay)
		}
	}
	vf.Parallel(nb, 6, func(bi int) {
		lo, hi := bi*per, min((bi+1)*per, len(all))
		gh := &gen.History{Branches: map[string]int{}, Tags: map[string]int{}, ATags: map[string]int{}}
		var items []item
		for _, h := range all[lo:hi] {
			base := len(gh.Commits)
			items = append(items, item{h, base})
			for i, hc := range h.commits {
				gc := gen.Commit{Time: hc.time, ATime: hc.time, Zone: "+0000", Msg: fmt.Sprintf("c%d\n", i),
					Tree: gen.Tree{"other": gen.File{Mode: "100644", Content: []byte(fmt.Sprintf("o%d\n", i))}}}
				if hc.present {
					gc.Tree[path] = gen.File{Mode: "100644", Content: h.content(i)}
				}
				for _, p := range hc.parents {
					gc.Parents = append(gc.Parents, base+p)
				}
				gh.Commits = append(gh.Commits, gc)
			}
		}
		gh.Branches["master"] = len(gh.Commits) - 1
		dir := c.TempDir(fmt.Sprintf("repo%d", bi))
		defer os.RemoveAll(dir)
		if err := g.Init(dir, true, "sha1"); err != nil {
			c.Broken("git init: %v", err)
			return
		}
		gi := gitx.New(c.TempDir("githome"))
		gi.Env = g.Env
		ids, err := gi.Import(dir, gh)
		if err != nil {
			c.Broken("fast-import: %v", err)
			return
		}
		repo, err := git.PlainOpen(dir)
		if err != nil {
			c.Broken("PlainOpen: %v", err)
			return
		}
		for k, it := range items {
			h := it.h
			idOf := func(i int) string { return ids[it.base+i] }
			idxOf := map[string]int{}
			for i := range h.commits {
				idxOf[idOf(i)] = i
			}
			targets := []int{len(h.commits) - 1}
			if (lo+k)%3 == 0 && len(h.commits) > 2 && h.commits[len(h.commits)/2].present {
				targets = append(targets, len(h.commits)/2)
			}
			for _, tg := range targets {
				checkOne(c, g, repo, dir, h, tg, idOf, idxOf, lo+k, fail)
			}
		}
	})
	c.Extra("git_invocations", gitx.Calls.Load())
	c.Floor("blames compared", c.Counter("blames_compared"), c.N(150, 2300))
	c.Floor("lines compared", c.Counter("lines_compared"), c.N(1200, 20000))
	c.Floor("tier A blames", c.Counter("blames_tierA"), c.N(60, 900))
	c.Floor("tier B blames", c.Counter("blames_tierB"), c.N(30, 500))
	c.Floor("merge histories", c.Counter("hist_merge"), c.N(30, 450))
	c.Floor("lines attributed to a non-tip commit", c.Counter("lines_from_older_commit"), c.N(500, 8000))
	c.Assume("git 2.39.5 `git blame --porcelain` without -M/-C/-w is the reference; the file is never renamed; every line text of a tier A history is introduced by exactly one commit and every parent->child edge has a unique LCS, so the reference does not depend on git's diff heuristics")
	c.Assume("tier B (duplicate lines, tied moves, re-added lines) is ambiguous by nature: differences are reported under tierB:* keys")
}

func opsKey(ops []string) string {
	set := map[string]bool{}
	for _, o := range ops {
		set[strings.TrimPrefix(o, "br-")] = true
	}
	var l []string
	for o := range set {
		l = append(l, o)
	}
	sort.Strings(l)
	return strings.Join(l, ",")
}

func checkOne(c *vf.Ctx, g *gitx.Git, repo *git.Repository, dir string, h *hist, tg int, idOf func(int) string, idxOf map[string]int, hidx int,
	fail func(key, what string, replay any)) {
	st := h.structure()
	c.Seen("structures", st)
	c.Count("hist_"+st, 1)
	pre := "tier" + h.tier + ":" + st
	if h.skew {
		pre += ":skewed-times"
	}
	replay := func() any {
		var cs []any
		for i, hc := range h.commits {
			cs = append(cs, map[string]any{"i": i, "id": idOf(i), "parents": hc.parents, "time": hc.time, "lines": hc.lines})
		}
		return map[string]any{"history": hidx, "tier": h.tier, "blamed_commit": tg, "commits": cs, "ops": h.ops, "no_final_newline": h.noNL}
	}
	touching := 0
	for i := 1; i <= tg; i++ {
		if len(h.commits[i].parents) == 0 || strings.Join(h.commits[i].lines, "\n") != strings.Join(h.commits[h.commits[i].parents[0]].lines, "\n") {
			touching++
		}
	}
	c.Eval(vf.ShapeHash(h.tier, h.dagString(), opsKey(h.ops), h.skew, h.noNL, tg == len(h.commits)-1), touching >= 1 && len(h.commits[tg].lines) > 0)
	// git
	res := g.Run(dir, "blame", "--porcelain", idOf(tg), "--", path)
	if res.Timeout {
		c.Inconclusive("git blame timed out")
		return
	}
	if !res.OK() {
		c.Broken("git blame failed: %s", res)
		return
	}
	want, err := parsePorcelain(string(res.Out))
	if err != nil {
		c.Broken("cannot parse git blame --porcelain: %v", err)
		return
	}
	if len(want) != len(h.commits[tg].lines) {
		c.Broken("git blame returned %d lines for a file of %d lines", len(want), len(h.commits[tg].lines))
		return
	}
	// go-git
	var br *git.BlameResult
	var berr error
	pv, stack := vf.Catch(func() {
		co, err := repo.CommitObject(plumbing.NewHash(idOf(tg)))
		if err != nil {
			berr = err
			return
		}
		br, berr = git.Blame(co, path)
	})
	if pv != nil {
		fail(pre+":panic", fmt.Sprintf("git.Blame panicked: %v\n%s", pv, stack), replay())
		return
	}
	if berr != nil {
		k := pre + ":error"
		if len(h.commits[tg].lines) == 0 {
			k += ":empty-file"
		}
		fail(k, "git.Blame failed: "+berr.Error(), replay())
		return
	}
	c.Count("blames_compared", 1)
	c.Count("blames_tier"+h.tier, 1)
	if hidx < 2 && tg == len(h.commits)-1 {
		var l []string
		for _, x := range br.Lines {
			l = append(l, fmt.Sprintf("c%d %s", idxOf[x.Hash.String()], strconv.Quote(x.Text)))
		}
		c.Sample(map[string]any{"history": replay(), "gogit_blame": l})
	}
	if len(br.Lines) != len(want) {
		fail(pre+":line-count", fmt.Sprintf("go-git blames %d lines, git %d", len(br.Lines), len(want)), replay())
		return
	}
	wrong, inv := 0, 0
	var first, firstInv string
	for i, ln := range br.Lines {
		c.Count("lines_compared", 1)
		if ln.Text != want[i].Text {
			fail(pre+":line-text", fmt.Sprintf("line %d text %q, git %q", i+1, ln.Text, want[i].Text), replay())
			return
		}
		gi, known := idxOf[ln.Hash.String()]
		if !known {
			fail(pre+":foreign-commit", fmt.Sprintf("line %d attributed to %s which is not a commit of this history", i+1, ln.Hash), replay())
			return
		}
		if gi != tg {
			c.Count("lines_from_older_commit", 1)
		}
		// invariant: the attributed commit's version contains the line
		has := false
		for _, x := range h.commits[gi].lines {
			if x == ln.Text {
				has = true
				break
			}
		}
		if !has {
			inv++
			if firstInv == "" {
				firstInv = fmt.Sprintf("line %d %q attributed to c%d whose version of the file does not contain it", i+1, ln.Text, gi)
			}
		}
		if ln.Hash.String() != want[i].Hash {
			wrong++
			if first == "" {
				first = fmt.Sprintf("line %d %q: go-git c%d, git c%d", i+1, ln.Text, gi, idxOf[want[i].Hash])
			}
		}
	}
	if h.tier == "A" { // evidence: how often the executable reading of git's rule reproduces git itself
		gm := h.model(tg, true)
		same := true
		for i := range want {
			if idOf(gm[i]) != want[i].Hash {
				same = false
			}
		}
		if same {
			c.Count("tierA_git_rule_model_reproduces_git", 1)
		} else {
			c.Count("tierA_git_rule_model_differs_from_git", 1)
		}
	}
	if inv > 0 {
		fail(pre+":attributed-commit-lacks-line", fmt.Sprintf("%d lines; first: %s", inv, firstInv), replay())
		return
	}
	if wrong > 0 && h.tier == "A" {
		// explain the difference with two executable readings of "blame through a merge" (tier A: unique texts, unique LCS)
		gitModel, altModel := h.model(tg, true), h.model(tg, false)
		gitOK, altOK := true, true
		for i, ln := range br.Lines {
			if idOf(gitModel[i]) != want[i].Hash {
				gitOK = false
			}
			if idOf(altModel[i]) != ln.Hash.String() {
				altOK = false
			}
		}
		if gitOK && altOK {
			fail("tierA:merge:identical-later-parent-not-preferred", fmt.Sprintf("%d of %d lines differ; first: %s. git passes the whole blame to a parent whose blob is identical to the merge result, whatever its position; go-git asks the parents in order", wrong, len(want), first), replay())
			return
		}
		c.Count("tierA_difference_not_explained_by_models", 1)
	}
	if wrong > 0 {
		fail(pre+":differs-from-git", fmt.Sprintf("%d of %d lines attributed to another commit than git blame; first: %s (ops %v)", wrong, len(want), first, h.ops), replay())
		return
	}
	c.Count("blames_identical", 1)
}

// lcsSet returns the members of the longest common subsequence of a and b (unique texts; in tier A the LCS is unique).
func lcsSet(a, b []string) map[string]bool {
	posA := map[string]int{}
	for i, s := range a {
		posA[s] = i
	}
	var seq []int
	var txt []string
	for _, s := range b {
		if p, ok := posA[s]; ok {
			seq = append(seq, p)
			txt = append(txt, s)
		}
	}
	n := len(seq)
	length := make([]int, n)
	prev := make([]int, n)
	best, bi := 0, -1
	for i := 0; i < n; i++ {
		length[i], prev[i] = 1, -1
		for j := 0; j < i; j++ {
			if seq[j] < seq[i] && length[j]+1 > length[i] {
				length[i], prev[i] = length[j]+1, j
			}
		}
		if length[i] > best {
			best, bi = length[i], i
		}
	}
	set := map[string]bool{}
	for i := bi; i >= 0; i = prev[i] {
		set[txt[i]] = true
	}
	return set
}

// model computes the attribution of every line of commit tg for a tier A history.
// identicalFirst=true is git's rule (a parent with the identical blob takes the whole blame, then parents in order take
// the lines their diff leaves unchanged); false asks the parents strictly in order.
func (h *hist) model(tg int, identicalFirst bool) []int {
	type key struct {
		c int
		t string
	}
	memo := map[key]int{}
	lcs := map[[2]int]map[string]bool{}
	var origin func(c int, t string) int
	origin = func(c int, t string) int {
		if v, ok := memo[key{c, t}]; ok {
			return v
		}
		res := c
		done := false
		cc := h.commits[c]
		if identicalFirst {
			for _, p := range cc.parents {
				if strings.Join(h.commits[p].lines, "\n") == strings.Join(cc.lines, "\n") {
					res, done = origin(p, t), true
					break
				}
			}
		}
		if !done {
			for _, p := range cc.parents {
				k := [2]int{p, c}
				if lcs[k] == nil {
					lcs[k] = lcsSet(h.commits[p].lines, cc.lines)
				}
				if lcs[k][t] {
					res = origin(p, t)
					break
				}
			}
		}
		memo[key{c, t}] = res
		return res
	}
	out := make([]int, len(h.commits[tg].lines))
	for i, t := range h.commits[tg].lines {
		out[i] = origin(tg, t)
	}
	return out
}
