// C20: the cached index view always equals the on-disk index.
//
// Invariant monitor: after every step of a generated sequence of worktree
// operations (add / add-all / remove / move / commit / reset mixed+hard+sparse
// / checkout / restore / status), interleaved with worktree edits and external
// rewrites of the index by git, Storer.Index() of the long-lived filesystem
// Storage (default IndexCache) is deep-compared with a fresh decode of the
// bytes of .git/index. Fault part: for the last step of each sequence the
// fault-free execution over a recording filesystem counts the fs operations
// touching the index and the worktree; the whole sequence is then replayed
// from a fresh copy once per fault point with that operation failing (EIO),
// and the invariant is checked after the failed step and after one more
// fault-free Status()/Add.
package main

import (
	"bytes"
	"crypto"
	"crypto/sha256"
	"fmt"
	"math/rand"
	"os"
	"path/filepath"
	"reflect"
	"sort"
	"strings"
	"syscall"
	"time"

	"github.com/go-git/go-billy/v6/osfs"

	git "github.com/go-git/go-git/v6"
	"github.com/go-git/go-git/v6/plumbing"
	"github.com/go-git/go-git/v6/plumbing/cache"
	"github.com/go-git/go-git/v6/plumbing/format/index"
	_ "github.com/go-git/go-git/v6/plumbing/hash"
	"github.com/go-git/go-git/v6/plumbing/object"
	"github.com/go-git/go-git/v6/storage/filesystem"

	"verif/internal/gen"
	"verif/internal/gitx"
	"verif/internal/recfs"
	"verif/internal/vf"
)

func main() {
	vf.Main("C20", "fault_enumeration",
		"sequences = 4-9 steps over {edit file, add, add-all, add-glob, remove, move, commit, reset mixed/hard/sparse, checkout branch/hash, restore staged, status, external git add/rm --cached/reset/commit} on a generated repository opened once through a filesystem Storage with the default index cache; invariant checked after every step; for the final step every fault point (fs operation on .git/index or a worktree file, EIO) of the recorded fault-free run is enumerated by replaying the sequence from a fresh copy; non-trivial = sequence containing an external rewrite or a faulted step that returned an error; distinct = sequence of step kinds (+ fault op kind)",
		run)
}

type step struct {
	Kind string   `json:"kind"`
	Args []string `json:"args,omitempty"`
}

var paths = []string{"a.txt", "b.txt", "dir/c.txt", "dir/d.txt", "dir/sub/e.txt", "ab/f.txt"}

func genSeq(r *rand.Rand, branches []string, commits []string) []step {
	n := 4 + r.Intn(6)
	var s []step
	for i := 0; i < n; i++ {
		p := paths[r.Intn(len(paths))]
		switch x := r.Intn(20); {
		case x < 3:
			s = append(s, step{"edit", []string{p, fmt.Sprintf("content %d %d\n", i, r.Intn(1000))}})
		case x < 6:
			s = append(s, step{"edit", []string{p, fmt.Sprintf("c %d\n", r.Intn(1000))}}, step{"add", []string{p}})
		case x == 6:
			s = append(s, step{"add-all", nil})
		case x == 7:
			s = append(s, step{"add-glob", []string{"dir/*"}})
		case x == 8:
			s = append(s, step{"remove", []string{p}})
		case x == 9:
			s = append(s, step{"move", []string{p, p + ".moved"}})
		case x == 10:
			s = append(s, step{"commit", nil})
		case x == 11:
			s = append(s, step{"reset-mixed", []string{commits[r.Intn(len(commits))]}})
		case x == 12:
			s = append(s, step{"reset-hard", []string{commits[r.Intn(len(commits))]}})
		case x == 13:
			s = append(s, step{"reset-sparse", []string{commits[r.Intn(len(commits))], "dir"}})
		case x == 14:
			s = append(s, step{"checkout", []string{branches[r.Intn(len(branches))]}})
		case x == 15:
			s = append(s, step{"restore-staged", []string{p}})
		case x == 16:
			s = append(s, step{"status", nil})
		case x == 17:
			s = append(s, step{"edit", []string{p, fmt.Sprintf("ext %d\n", r.Intn(1000))}}, step{"git-add", []string{p}})
		case x == 18:
			s = append(s, step{"git-rm-cached", []string{p}})
		default:
			s = append(s, step{[]string{"git-reset", "git-commit"}[r.Intn(2)], nil})
		}
	}
	return s
}

func isGoGitStep(k string) bool { return !strings.HasPrefix(k, "git-") && k != "edit" }

func sig() *object.Signature {
	return &object.Signature{Name: "V", Email: "v@example.com", When: time.Unix(1700000000, 0).UTC()}
}

type session struct {
	dir  string
	rec  *recfs.Rec
	st   *filesystem.Storage
	repo *git.Repository
	wt   *git.Worktree
	g    *gitx.Git
}

func open(g *gitx.Git, dir string) (*session, error) {
	rec := recfs.New()
	dot := recfs.Wrap(osfs.New(filepath.Join(dir, ".git")), rec)
	wfs := recfs.Wrap(osfs.New(dir), rec)
	st := filesystem.NewStorage(dot, cache.NewObjectLRUDefault())
	repo, err := git.Open(st, wfs)
	if err != nil {
		return nil, err
	}
	wt, err := repo.Worktree()
	if err != nil {
		return nil, err
	}
	return &session{dir: dir, rec: rec, st: st, repo: repo, wt: wt, g: g}, nil
}

func (s *session) do(st step) error {
	switch st.Kind {
	case "edit":
		p := filepath.Join(s.dir, st.Args[0])
		os.MkdirAll(filepath.Dir(p), 0o755)
		return os.WriteFile(p, []byte(st.Args[1]), 0o644)
	case "add":
		_, err := s.wt.Add(st.Args[0])
		return err
	case "add-all":
		return s.wt.AddWithOptions(&git.AddOptions{All: true})
	case "add-glob":
		return s.wt.AddGlob(st.Args[0])
	case "remove":
		_, err := s.wt.Remove(st.Args[0])
		return err
	case "move":
		_, err := s.wt.Move(st.Args[0], st.Args[1])
		return err
	case "commit":
		_, err := s.wt.Commit("c20", &git.CommitOptions{Author: sig(), Committer: sig(), AllowEmptyCommits: true})
		return err
	case "reset-mixed":
		return s.wt.Reset(&git.ResetOptions{Mode: git.MixedReset, Commit: plumbing.NewHash(st.Args[0])})
	case "reset-hard":
		return s.wt.Reset(&git.ResetOptions{Mode: git.HardReset, Commit: plumbing.NewHash(st.Args[0])})
	case "reset-sparse":
		return s.wt.Reset(&git.ResetOptions{Mode: git.HardReset, Commit: plumbing.NewHash(st.Args[0]), SparseDirs: st.Args[1:]})
	case "checkout":
		return s.wt.Checkout(&git.CheckoutOptions{Branch: plumbing.NewBranchReferenceName(st.Args[0]), Force: true})
	case "restore-staged":
		return s.wt.Restore(&git.RestoreOptions{Staged: true, Files: []string{st.Args[0]}})
	case "status":
		_, err := s.wt.Status()
		return err
	case "git-add":
		r := s.g.Run(s.dir, "add", "--", st.Args[0])
		return errOf(r)
	case "git-rm-cached":
		s.g.Run(s.dir, "rm", "-q", "--cached", "--ignore-unmatch", "--", st.Args[0])
		return nil
	case "git-reset":
		return errOf(s.g.Run(s.dir, "reset", "-q"))
	case "git-commit":
		s.g.Run(s.dir, "commit", "-q", "--allow-empty", "-m", "external")
		return nil
	}
	return fmt.Errorf("unknown step %s", st.Kind)
}

func errOf(r gitx.Result) error {
	if r.OK() {
		return nil
	}
	return fmt.Errorf("%s", r)
}

func normalize(idx *index.Index) *index.Index {
	cp := *idx
	cp.ModTime = time.Time{}
	es := make([]*index.Entry, len(idx.Entries))
	for i, e := range idx.Entries {
		ec := *e
		es[i] = &ec
	}
	sort.SliceStable(es, func(a, b int) bool {
		if es[a].Name != es[b].Name {
			return es[a].Name < es[b].Name
		}
		return es[a].Stage < es[b].Stage
	})
	cp.Entries = es
	if len(cp.Entries) == 0 {
		cp.Entries = nil
	}
	return &cp
}

// invariant compares Storer.Index() with a fresh decode of the on-disk bytes; "" if equal.
func (s *session) invariant() string {
	var cached *index.Index
	var cerr error
	if p, stk := vf.Catch(func() { cached, cerr = s.st.Index() }); p != nil {
		return fmt.Sprintf("PANIC in Index(): %v %s", p, stk)
	}
	b, rerr := os.ReadFile(filepath.Join(s.dir, ".git", "index"))
	if rerr != nil {
		if !os.IsNotExist(rerr) {
			return ""
		}
		if cerr != nil {
			return fmt.Sprintf("no index file on disk but Index() fails: %v", cerr)
		}
		if len(cached.Entries) != 0 {
			return fmt.Sprintf("no index file on disk but Index() returns %d entries", len(cached.Entries))
		}
		return ""
	}
	h := crypto.SHA1.New()
	disk := &index.Index{}
	derr := index.NewDecoder(bytes.NewReader(b), h).Decode(disk)
	switch {
	case derr != nil && cerr != nil:
		return ""
	case derr != nil:
		return fmt.Sprintf("on-disk index does not decode (%v) but Index() returns %d entries without error", derr, len(cached.Entries))
	case cerr != nil:
		return fmt.Sprintf("on-disk index decodes (%d entries) but Index() fails: %v", len(disk.Entries), cerr)
	}
	a, d := normalize(cached), normalize(disk)
	if reflect.DeepEqual(a, d) {
		return ""
	}
	if len(a.Entries) != len(d.Entries) {
		return fmt.Sprintf("Index() has %d entries, on-disk index %d", len(a.Entries), len(d.Entries))
	}
	for i := range a.Entries {
		if !reflect.DeepEqual(a.Entries[i], d.Entries[i]) {
			return fmt.Sprintf("entry %q differs: cached view %+v, on-disk %+v", d.Entries[i].Name, *a.Entries[i], *d.Entries[i])
		}
	}
	var ext []string
	if !reflect.DeepEqual(a.Cache, d.Cache) {
		ext = append(ext, fmt.Sprintf("cached-tree(view=%v disk=%v)", a.Cache != nil, d.Cache != nil))
	}
	if !reflect.DeepEqual(a.ResolveUndo, d.ResolveUndo) {
		ext = append(ext, fmt.Sprintf("resolve-undo(view=%v disk=%v)", a.ResolveUndo != nil, d.ResolveUndo != nil))
	}
	if !reflect.DeepEqual(a.EndOfIndexEntry, d.EndOfIndexEntry) {
		ext = append(ext, fmt.Sprintf("end-of-index-entry(view=%+v disk=%+v)", a.EndOfIndexEntry, d.EndOfIndexEntry))
	}
	if a.Version != d.Version {
		ext = append(ext, fmt.Sprintf("version(view=%d disk=%d)", a.Version, d.Version))
	}
	return "EXT:" + strings.Join(ext, ",")
}

func faultable(kind, p string) bool {
	switch kind {
	case "lock", "unlock", "sync", "mkdirall":
		return false
	}
	if strings.HasPrefix(p, "objects") || strings.HasPrefix(p, ".git/objects") || strings.HasPrefix(p, "refs") || strings.HasPrefix(p, ".git/refs") {
		return false
	}
	return p == "index" || strings.HasSuffix(p, "/index") || !strings.HasPrefix(p, ".git") && !isDotGitInternal(p)
}

func isDotGitInternal(p string) bool {
	for _, x := range []string{"HEAD", "config", "packed-refs", "logs", "ORIG_HEAD", "info", "shallow", "modules", "hooks", "description"} {
		if p == x || strings.HasPrefix(p, x+"/") {
			return true
		}
	}
	return false
}

type caseT struct {
	Steps     []step `json:"steps"`
	FaultStep int    `json:"fault_step,omitempty"`
	FaultK    int    `json:"fault_index,omitempty"`
	FaultOp   string `json:"fault_op,omitempty"`
}

func run(c *vf.Ctx) {
	g := gitx.New(c.Scratch)
	// base repository
	base := c.TempDir("base")
	c.Must(g.Init(base, false, "sha1"), "init")
	r0 := c.Rand("base")
	h := gen.RandomHistory(r0, gen.HistOpts{N: 5, MergeProb: 0.2, Files: 4, Branches: 2, Path: gen.PathOpts{Depth: 2, Comps: []string{"a.txt", "b.txt", "dir", "c.txt", "d.txt", "ab"}}})
	// deterministic small trees instead of random paths
	for i := range h.Commits {
		t := gen.Tree{}
		for k, p := range paths {
			if (i+k)%3 != 0 {
				t[p] = gen.File{Mode: "100644", Content: []byte(fmt.Sprintf("v%d of %s\n", i, p))}
			}
		}
		h.Commits[i].Tree = t
	}
	ids, err := g.Import(base, h)
	c.Must(err, "import")
	var branches []string
	for b := range h.Branches {
		branches = append(branches, b)
	}
	sort.Strings(branches)
	g.Run(base, "checkout", "-q", "-f", branches[0])

	nseq := c.N(80, 300)
	vf.Parallel(nseq, 8, func(i int) {
		r := c.Rand("seq", i)
		steps := genSeq(r, branches, ids)
		// make sure the last step is a go-git operation (the one whose fault points are enumerated)
		for len(steps) > 0 && !isGoGitStep(steps[len(steps)-1].Kind) {
			steps = steps[:len(steps)-1]
		}
		if len(steps) == 0 {
			return
		}
		kinds := make([]string, len(steps))
		external := false
		for k, s := range steps {
			kinds[k] = s.Kind
			if strings.HasPrefix(s.Kind, "git-") {
				external = true
			}
		}
		shape := strings.Join(kinds, ",")
		// 1. fault-free pass, invariant after every step
		work := c.TempDir("seq")
		dir := filepath.Join(work, "r")
		c.Must(gitx.CopyDir(base, dir), "copy")
		ses, err := open(g, dir)
		c.Must(err, "open")
		ok := true
		K := 0
		for k, s := range steps {
			last := k == len(steps)-1
			if last {
				ses.rec.FaultMatch = faultable
			}
			var serr error
			pre := statIndex(dir)
			if p, stk := vf.Catch(func() { serr = ses.do(s) }); p != nil {
				c.Fail("panic:"+s.Kind, fmt.Sprintf("%v\n%s", p, stk), caseT{Steps: steps[:k+1]})
				ok = false
				break
			}
			_ = serr
			if strings.HasPrefix(s.Kind, "git-") && ensureStatChanged(dir, pre) {
				c.Count("external_rewrites_within_one_timestamp_tick_mtime_bumped", 1)
			}
			c.Count("steps", 1)
			c.Seen("step_kinds", s.Kind)
			if strings.HasPrefix(s.Kind, "git-") {
				c.Count("external_rewrites", 1)
			}
			if d := ses.invariant(); d != "" {
				c.Fail("stale-cache:after:"+s.Kind, fmt.Sprintf("after fault-free step %d (%s %v) of %v: %s", k, s.Kind, s.Args, kinds, d), caseT{Steps: steps[:k+1]})
				ok = false
				break
			}
			c.Count("invariant_checks", 1)
			if last {
				K = ses.rec.FaultCandidates()
			}
		}
		ses.st.Close()
		c.Eval(shape, external)
		if i < 3 {
			c.Sample(map[string]any{"steps": steps, "fault_candidates_of_last_step": K})
		}
		if !ok {
			os.RemoveAll(work)
			return
		}
		// 2. enumerate fault points of the last step
		ks := make([]int, 0, K)
		for k := 0; k < K; k++ {
			ks = append(ks, k)
		}
		if maxK := c.N(16, 40); len(ks) > maxK {
			stepK := float64(len(ks)) / float64(maxK)
			var keep []int
			for j := 0; j < maxK; j++ {
				keep = append(keep, ks[int(float64(j)*stepK)])
			}
			ks = keep
		}
		for _, fk := range ks {
			d2 := filepath.Join(work, fmt.Sprintf("f%d", fk))
			c.Must(gitx.CopyDir(base, d2), "copy")
			s2, err := open(g, d2)
			c.Must(err, "open")
			bad := false
			for k, s := range steps {
				last := k == len(steps)-1
				if last {
					s2.rec.FaultMatch = faultable
					s2.rec.FaultAt = fk
					s2.rec.FaultErr = syscall.EIO
					s2.rec.Record = true
				}
				var serr error
				pre := statIndex(d2)
				defer func() { _ = pre }()
				if p, stk := vf.Catch(func() {
					serr = s2.do(s)
					if strings.HasPrefix(s.Kind, "git-") {
						ensureStatChanged(d2, pre)
					}
				}); p != nil {
					c.Fail("panic-under-fault:"+s.Kind, fmt.Sprintf("%v\n%s", p, stk), caseT{Steps: steps, FaultStep: k, FaultK: fk})
					bad = true
					break
				}
				if !last {
					continue
				}
				fop := ""
				for _, o := range s2.rec.Ops() {
					if o.Inj {
						fop = o.Kind + ":" + pathKind(o.Path)
					}
				}
				c.Count("faulted_steps", 1)
				if s2.rec.Faulted.Load() {
					c.Count("faults_injected", 1)
				}
				if serr != nil {
					c.Count("faulted_steps_that_returned_error", 1)
					c.Eval(shape+"|fault:"+fop, true)
				}
				s2.rec.FaultAt = -1
				cs := caseT{Steps: steps, FaultStep: k, FaultK: fk, FaultOp: fop}
				if d := s2.invariant(); d != "" {
					c.Fail("stale-cache:after-failed:"+s.Kind+":fault-at-"+fop, fmt.Sprintf("step %s %v with injected EIO at %s (returned err=%v): %s", s.Kind, s.Args, fop, serr, d), cs)
					break
				}
				// one more fault-free read-only operation, then again
				s2.wt.Status()
				if d := s2.invariant(); d != "" {
					c.Fail("stale-cache:after-failed:"+s.Kind+":then-status:fault-at-"+fop, fmt.Sprintf("step %s %v with injected EIO at %s (err=%v), then Status(): %s", s.Kind, s.Args, fop, serr, d), cs)
				}
			}
			_ = bad
			s2.st.Close()
			os.RemoveAll(d2)
		}
		os.RemoveAll(work)
	})
	c.Extra("git_invocations", gitx.Calls.Load())
	c.Floor("sequences", c.SeenCount("step_kinds"), 12)
	c.Floor("invariant checks after fault-free steps", c.Counter("invariant_checks"), c.N(250, 800))
	c.Floor("faulted steps", c.Counter("faulted_steps"), c.N(600, 3500))
	c.Floor("faults actually injected", c.Counter("faults_injected"), c.N(500, 2800))
	c.Floor("faulted steps that returned an error", c.Counter("faulted_steps_that_returned_error"), c.N(150, 800))
	c.Floor("external rewrites of the index by git", c.Counter("external_rewrites"), c.N(25, 75))
	c.Assume("external rewrites are done by real git commands, which change the index's size or mtime (the property's stated domain)")
	c.Assume("fault = EIO returned once by one fs operation on .git/index or a worktree path during the last step")
}

type statT struct {
	mtime time.Time
	size  int64
	sum   [32]byte
	ok    bool
}

func statIndex(dir string) statT {
	p := filepath.Join(dir, ".git", "index")
	fi, err := os.Stat(p)
	if err != nil {
		return statT{}
	}
	b, _ := os.ReadFile(p)
	return statT{fi.ModTime(), fi.Size(), sha256.Sum256(b), true}
}

// ensureStatChanged keeps external rewrites inside the property's domain ("external rewrites of the
// index that change its size or modification time"): when git rewrote the index with different bytes but
// within the same filesystem timestamp tick and with the same size, the mtime is moved forward.
func ensureStatChanged(dir string, pre statT) bool {
	post := statIndex(dir)
	if !pre.ok || !post.ok || post.sum == pre.sum {
		return false
	}
	if post.size != pre.size || !post.mtime.Equal(pre.mtime) {
		return false
	}
	nt := post.mtime.Add(10 * time.Millisecond)
	os.Chtimes(filepath.Join(dir, ".git", "index"), nt, nt)
	return true
}

func pathKind(p string) string {
	if p == "index" || strings.HasSuffix(p, "/index") {
		return "index"
	}
	return "worktree-path"
}
