// C24: an acquired pack descriptor is never closed under its reader.
//
// Monitors: (1) boundary: a recording filesystem sees every open/ReadAt/Close
// of .pack/.idx/.rev instances: ReadAt after Close of the instance, a reader
// error or wrong bytes while its cursor is open and the owner is not closed;
// (2) trace: the verif-tagged state events of sharedfile and fdpool (emitted
// under their own locks) are replayed through a small reference state
// machine (file closed with refs>0 other than by explicit Close, refs<0,
// acquire without an open file, LRU longer than capacity after eviction,
// handle registered twice); (3) quiescent invariant: open pooled instances
// <= capacity + pinned; (4) idle un-pooled handles are closed after the grace
// period. Schedule perturbation at the hook points and at every fs call.
// Race detector on.
package main

import (
	"bytes"
	"crypto/sha256"
	"encoding/hex"
	"errors"
	"fmt"
	"io"
	"math/rand"
	"os"
	"path/filepath"
	"runtime"
	"strings"
	"sync"
	"sync/atomic"
	"time"

	"github.com/go-git/go-billy/v6/osfs"

	"github.com/go-git/go-git/v6/plumbing"
	"github.com/go-git/go-git/v6/plumbing/cache"
	"github.com/go-git/go-git/v6/plumbing/format/packfile"
	"github.com/go-git/go-git/v6/storage/filesystem"
	"github.com/go-git/go-git/v6/storage/filesystem/dotgit"
	"github.com/go-git/go-git/v6/x/fdpool"
	"github.com/go-git/go-git/v6/x/verifhook"

	"verif/internal/gen"
	"verif/internal/gitx"
	"verif/internal/recfs"
	"verif/internal/vf"
)

func main() {
	vf.Main("C24", "exploration",
		"runs = one repository with 3-6 packs x pool capacity in {0 (un-pooled, grace timer),1,2,3,8} x driver {storage object reads incl. iterators, dotgit pack cursors held across operations (more cursors than capacity => all-pinned fallback), CloseIdleDescriptors, explicit Close} x 4-12 goroutines with delays injected at the sharedfile/fdpool suspension points and at every fs call; non-trivial = run in which an eviction or a grace/idle close was observed; distinct = hash of the per-run sequence of hooked event kinds",
		run)
}

type sfState struct {
	refs     int64
	open     bool
	closed   bool
	everOpen bool
}

// trace is the reference state machine over hook events.
type trace struct {
	mu      sync.Mutex
	sf      map[uintptr]*sfState
	reg     map[uintptr]bool // pool handle registered
	errs    []string
	n       int
	kinds   map[string]int
	seqHash [32]byte
}

func newTrace() *trace {
	return &trace{sf: map[uintptr]*sfState{}, reg: map[uintptr]bool{}, kinds: map[string]int{}}
}

func (t *trace) bad(format string, a ...any) {
	if len(t.errs) < 10 {
		t.errs = append(t.errs, fmt.Sprintf(format, a...))
	}
}

func (t *trace) event(kind string, id uintptr, a, b, c int64) {
	t.mu.Lock()
	defer t.mu.Unlock()
	t.n++
	t.kinds[kind]++
	h := sha256.New()
	h.Write(t.seqHash[:])
	h.Write([]byte(kind))
	copy(t.seqHash[:], h.Sum(nil))
	if strings.HasPrefix(kind, "sf.") {
		s := t.sf[id]
		if s == nil {
			s = &sfState{}
			t.sf[id] = s
		}
		refs, fileOpen, closed := a, b&1 != 0, b&2 != 0
		if refs < 0 {
			t.bad("%s: refs=%d < 0", kind, refs)
		}
		switch kind {
		case "sf.open":
			if s.open {
				t.bad("sf.open while the model says the file is already open")
			}
			s.open, s.everOpen = true, true
		case "sf.acquire":
			if !fileOpen || !s.open {
				t.bad("sf.acquire handed out a descriptor although the file is not open (impl fileOpen=%v model open=%v)", fileOpen, s.open)
			}
			if closed {
				t.bad("sf.acquire after Close")
			}
			if refs != s.refs+1 {
				t.bad("sf.acquire: refs %d -> %d", s.refs, refs)
			}
		case "sf.release":
			if refs != s.refs-1 {
				t.bad("sf.release: refs %d -> %d", s.refs, refs)
			}
		case "sf.close.immediate", "sf.close.timer", "sf.close.releasenow":
			if refs != 0 {
				t.bad("%s closed the descriptor while %d reader(s) still hold it", kind, refs)
			}
			if !s.open {
				t.bad("%s but the model says the file is not open", kind)
			}
			s.open = false
		case "sf.close.final":
			s.open = false
			s.closed = true
		case "sf.latch":
			if refs <= 0 {
				t.bad("sf.latch with refs=%d", refs)
			}
		}
		s.refs = refs
		if fileOpen != s.open && kind != "sf.close.final" {
			t.bad("%s: implementation says file open=%v, model says %v", kind, fileOpen, s.open)
		}
		return
	}
	// pool events: a = LRU length, b = capacity
	switch kind {
	case "pool.register":
		if t.reg[id] {
			t.bad("pool.register: handle registered twice")
		}
		t.reg[id] = true
		if a > b+1 {
			t.bad("pool.register: LRU length %d > capacity %d + 1", a, b)
		}
	case "pool.hit":
		if !t.reg[id] {
			t.bad("pool.hit on a handle the model does not know as registered")
		}
		if a > b {
			t.bad("pool.hit: LRU length %d > capacity %d", a, b)
		}
	case "pool.evict":
		if !t.reg[id] {
			t.bad("pool.evict of an unregistered handle")
		}
		delete(t.reg, id)
		if a > b {
			t.bad("pool.evict: LRU length %d > capacity %d after removing the victim", a, b)
		}
	case "pool.evict.done":
		if a > b {
			t.bad("pool.evict.done: LRU length %d > capacity %d", a, b)
		}
	case "pool.forget":
		delete(t.reg, id)
	}
}

type repoInfo struct {
	dir     string
	packs   []string          // pack hashes
	packRaw map[string][]byte // pack hash -> file bytes
	objs    []string
	objSum  map[string]string // hash -> sha256 of content
}

func buildRepo(c *vf.Ctx, g *gitx.Git, r *rand.Rand, idx int) *repoInfo {
	dir := c.TempDir("repo")
	c.Must(g.Init(dir, true, "sha1"), "git init")
	npacks := 3 + r.Intn(4)
	for p := 0; p < npacks; p++ {
		h := gen.RandomHistory(r, gen.HistOpts{N: 3 + r.Intn(5), MergeProb: 0.2, Files: 3, Path: gen.PathOpts{Depth: 2}})
		// make branch names unique per import
		nb := map[string]int{}
		for k, v := range h.Branches {
			nb[fmt.Sprintf("p%d-%s", p, strings.ReplaceAll(k, "/", "-"))] = v
		}
		h.Branches = nb
		_, err := g.Import(dir, h)
		c.Must(err, "import")
		// small fast-imports leave loose objects: pack them into one new pack per round
		if res := g.Run(dir, "repack", "-q"); !res.OK() {
			c.Must(errors.New(res.String()), "repack")
		}
		g.Run(dir, "prune-packed", "-q")
	}
	ri := &repoInfo{dir: dir, packRaw: map[string][]byte{}, objSum: map[string]string{}}
	ents, _ := os.ReadDir(filepath.Join(dir, "objects/pack"))
	for _, e := range ents {
		if strings.HasSuffix(e.Name(), ".pack") {
			h := strings.TrimSuffix(strings.TrimPrefix(e.Name(), "pack-"), ".pack")
			ri.packs = append(ri.packs, h)
			b, _ := os.ReadFile(filepath.Join(dir, "objects/pack", e.Name()))
			ri.packRaw[h] = b
		}
	}
	// reverse indexes so that rev handles exist too
	for _, h := range ri.packs {
		g.Run(dir, "index-pack", "--rev-index", filepath.Join("objects/pack", "pack-"+h+".pack"))
	}
	res := g.Run(dir, "cat-file", "--batch-all-objects", "--batch")
	c.Must(errIf(!res.OK(), res.String()), "cat-file")
	b := res.Out
	for len(b) > 0 {
		nl := bytes.IndexByte(b, '\n')
		if nl < 0 {
			break
		}
		var h, typ string
		var size int
		fmt.Sscanf(string(b[:nl]), "%s %s %d", &h, &typ, &size)
		content := b[nl+1 : nl+1+size]
		sum := sha256.Sum256(content)
		ri.objSum[h] = hex.EncodeToString(sum[:])
		ri.objs = append(ri.objs, h)
		b = b[nl+1+size+1:]
	}
	return ri
}

func errIf(b bool, s string) error {
	if b {
		return errors.New(s)
	}
	return nil
}

func isPackFile(p string) bool {
	return strings.Contains(p, "objects/pack/") && (strings.HasSuffix(p, ".pack") || strings.HasSuffix(p, ".idx") || strings.HasSuffix(p, ".rev"))
}

func openPackInstances(rec *recfs.Rec) int {
	n := 0
	for _, p := range rec.OpenPaths() {
		if isPackFile(p) {
			n++
		}
	}
	return n
}

func run(c *vf.Ctx) {
	g := gitx.New(c.Scratch)
	nrepos := c.N(3, 12)
	var repos []*repoInfo
	for i := 0; i < nrepos; i++ {
		repos = append(repos, buildRepo(c, g, c.Rand("repo", i), i))
	}
	runs := c.N(450, 3000)
	caps := []int{0, 1, 2, 3, 8}
	totalEvents := 0
	for i := 0; i < runs; i++ {
		r := c.Rand("run", i)
		ri := repos[r.Intn(len(repos))]
		k := caps[i%len(caps)]
		driver := []string{"storage", "dotgit", "mixed"}[(i/len(caps))%3]
		totalEvents += oneRun(c, ri, r, k, driver, i)
	}
	graceRuns(c, repos[0])
	c.Extra("trace_events", totalEvents)
	c.Floor("runs", c.Counter("runs"), c.N(420, 2700))
	c.Floor("runs without object iterators (any reader error there is a violation)", c.Counter("runs_without_iterators"), c.N(200, 1400))
	c.Floor("trace events", totalEvents, c.N(100000, 500000))
	c.Floor("evictions observed", c.Counter("ev_pool.evict"), c.N(400, 2500))
	c.Floor("all-pinned fallback observed (latch events)", c.Counter("ev_sf.latch"), c.N(5, 35))
	c.Floor("reads verified against ground truth", c.Counter("reads_ok"), c.N(40000, 200000))
	c.Floor("quiescent checks", c.Counter("quiescent_checks"), c.N(400, 2500))
	c.Floor("grace-timer closes observed", c.Counter("ev_sf.close.timer"), 3)
	c.Floor("distinct event interleavings", c.SeenCount("interleavings"), c.N(50, 350))
	c.Assume("hook events are emitted under the owning object's own mutex, so per-object event order is the real order")
	c.Assume("un-pooled idle close is checked with real time: grace period 1s, verdict only after a 60s bound (inconclusive if the machine stalls)")
}

func oneRun(c *vf.Ctx, ri *repoInfo, r *rand.Rand, capacity int, driver string, runIdx int) int {
	// iterators are enabled in one run out of three: objects yielded by an object iterator are cached
	// and alias the iterator's own pack cursor (known finding), so reader errors are keyed apart there
	iters := r.Intn(3) == 0
	iterSuffix := ""
	if iters {
		iterSuffix = ":with-concurrent-object-iterator"
	}
	tr := newTrace()
	rec := recfs.New()
	var prMu sync.Mutex
	pr := rand.New(rand.NewSource(r.Int63()))
	jitter := func() {
		prMu.Lock()
		x := pr.Intn(40)
		prMu.Unlock()
		switch {
		case x < 10:
			runtime.Gosched()
		case x == 10:
			time.Sleep(time.Duration(30+x) * time.Microsecond)
		}
	}
	rec.Hook = func(kind, p string) {
		if isPackFile(p) {
			jitter()
		}
	}
	verifhook.SetEvent(tr.event)
	verifhook.SetPoint(func(name string) {
		prMu.Lock()
		x := pr.Intn(6)
		prMu.Unlock()
		switch x {
		case 0, 1:
			runtime.Gosched()
		case 2:
			time.Sleep(80 * time.Microsecond)
		}
	})
	defer verifhook.SetEvent(nil)
	defer verifhook.SetPoint(nil)

	fs := recfs.Wrap(osfs.New(ri.dir), rec)
	pool := fdpool.New(capacity)
	var st *filesystem.Storage
	var dg *dotgit.DotGit
	if driver != "dotgit" {
		opts := filesystem.Options{Pool: pool}
		if r.Intn(3) == 0 {
			opts.UseInMemoryIdx = true
		}
		st = filesystem.NewStorageWithOptions(fs, cache.NewObjectLRU(cache.FileSize(1+r.Intn(2000))), opts)
	}
	if driver != "storage" {
		dg = dotgit.NewWithOptions(fs, dotgit.Options{Pool: pool})
	}
	var closed atomic.Bool
	var rw sync.RWMutex // workers hold R during an op; the quiescent checker takes W
	var held atomic.Int64
	var failMu sync.Mutex
	fail := func(key, what string) {
		failMu.Lock()
		defer failMu.Unlock()
		c.Fail(key, what, map[string]any{"run": runIdx, "capacity": capacity, "driver": driver, "packs": len(ri.packs)})
	}
	workers := 4 + r.Intn(9)
	opsPer := 20 + r.Intn(40)
	var wg sync.WaitGroup
	for w := 0; w < workers; w++ {
		wr := rand.New(rand.NewSource(r.Int63()))
		wg.Add(1)
		go func() {
			defer wg.Done()
			type cur struct {
				rd   packfile.RandomReader
				pack string
			}
			var mine []cur
			release := func() {
				for _, cu := range mine {
					cu.rd.Close()
					held.Add(-1)
				}
				mine = nil
			}
			defer release()
			for o := 0; o < opsPer; o++ {
				if closed.Load() {
					return
				}
				rw.RLock()
				p, stk := vf.Catch(func() {
					switch x := wr.Intn(10); {
					case st != nil && (dg == nil || x < 5):
						h := ri.objs[wr.Intn(len(ri.objs))]
						if iters && wr.Intn(12) == 0 {
							it, err := st.IterEncodedObjects(plumbing.AnyObject)
							if err == nil {
								n := 0
								it.ForEach(func(o plumbing.EncodedObject) error {
									n++
									if n > 20 {
										return io.EOF
									}
									return nil
								})
								it.Close()
							}
							return
						}
						obj, err := st.EncodedObject(plumbing.AnyObject, plumbing.NewHash(h))
						if err != nil {
							if !closed.Load() {
								fail("reader-error:storage-read"+iterSuffix, fmt.Sprintf("EncodedObject(%s) failed while the storage is open: %v", h, err))
							}
							return
						}
						rd, err := obj.Reader()
						if err != nil {
							if !closed.Load() {
								fail("reader-error:object-reader"+iterSuffix, fmt.Sprintf("Reader() of %s failed: %v", h, err))
							}
							return
						}
						b, err := io.ReadAll(rd)
						rd.Close()
						sum := sha256.Sum256(b)
						if err != nil || hex.EncodeToString(sum[:]) != ri.objSum[h] {
							if !closed.Load() {
								fail("reader-wrong-bytes:storage-read"+iterSuffix, fmt.Sprintf("object %s read back wrong (err=%v)", h, err))
							}
							return
						}
						c.Count("reads_ok", 1)
					case dg != nil:
						switch y := wr.Intn(10); {
						case y < 4 || len(mine) == 0: // open a cursor and keep it
							ph := ri.packs[wr.Intn(len(ri.packs))]
							h, err := dg.PackHandle(plumbing.NewHash(ph))
							if err != nil {
								if !closed.Load() {
									fail("reader-error:packhandle", fmt.Sprintf("PackHandle(%s): %v", ph, err))
								}
								return
							}
							rd, err := h.OpenRandomReader()
							if err != nil {
								if !closed.Load() {
									fail("reader-error:open-cursor", fmt.Sprintf("OpenRandomReader(%s): %v", ph, err))
								}
								return
							}
							mine = append(mine, cur{rd, ph})
							held.Add(1)
						case y < 8: // read through a held cursor
							cu := mine[wr.Intn(len(mine))]
							raw := ri.packRaw[cu.pack]
							off := wr.Intn(len(raw))
							n := 1 + wr.Intn(min(64, len(raw)-off))
							buf := make([]byte, n)
							m, err := cu.rd.ReadAt(buf, int64(off))
							if (err != nil && err != io.EOF) || !bytes.Equal(buf[:m], raw[off:off+m]) || m != n {
								if !closed.Load() {
									fail("reader-error:held-cursor-read", fmt.Sprintf("ReadAt through a held, unreleased cursor on pack %s failed: n=%d/%d err=%v", cu.pack, m, n, err))
								}
								return
							}
							c.Count("reads_ok", 1)
						case y == 8:
							i := wr.Intn(len(mine))
							mine[i].rd.Close()
							held.Add(-1)
							mine = append(mine[:i], mine[i+1:]...)
						default:
							dg.CloseIdleDescriptors()
							if st != nil {
								st.CloseIdleDescriptors()
							}
						}
					}
				})
				rw.RUnlock()
				if p != nil {
					fail("panic", fmt.Sprintf("panic: %v\n%s", p, stk))
					return
				}
				if wr.Intn(25) == 0 { // quiescent point
					rw.Lock()
					open := openPackInstances(rec)
					pinned := int(held.Load())
					// each storage/dotgit instance may additionally hold handles opened outside the pool? none expected.
					if capacity > 0 && open > capacity+pinned {
						fail("quiescent:open-exceeds-capacity-plus-pinned", fmt.Sprintf("at a quiescent point %d pack/idx/rev instances are open, capacity %d, pinned cursors %d: %v", open, capacity, pinned, rec.OpenPaths()))
					}
					c.Count("quiescent_checks", 1)
					rw.Unlock()
				}
			}
		}()
	}
	wg.Wait()
	// explicit close of the owners: afterwards nothing may stay open
	closed.Store(true)
	if st != nil {
		st.Close()
	}
	if dg != nil {
		dg.Close()
	}
	if n := openPackInstances(rec); n != 0 {
		fail("close:instances-left-open", fmt.Sprintf("%d pack/idx/rev instances still open after Close: %v", n, rec.OpenPaths()))
	}
	if n := rec.UseAfterClose.Load(); n != 0 {
		fail("boundary:read-after-close", fmt.Sprintf("%d ReadAt/Read calls reached a file instance after its Close", n))
	}
	tr.mu.Lock()
	for _, e := range tr.errs {
		fail("trace:"+traceKey(e), "reference state machine rejected the hook trace: "+e)
	}
	for k, n := range tr.kinds {
		c.Count("ev_"+k, n)
	}
	n := tr.n
	sh := hex.EncodeToString(tr.seqHash[:8])
	nontrivial := tr.kinds["pool.evict"] > 0 || tr.kinds["sf.close.releasenow"] > 0 || tr.kinds["sf.close.immediate"] > 0
	tr.mu.Unlock()
	c.Count("runs", 1)
	c.Seen("interleavings", sh)
	c.Eval(sh, nontrivial)
	c.Seen("configs", fmt.Sprintf("cap=%d/%s/iters=%v", capacity, driver, iters))
	if !iters {
		c.Count("runs_without_iterators", 1)
	}
	c.Sample(map[string]any{"capacity": capacity, "driver": driver, "workers": workers, "ops_per_worker": opsPer, "events": n, "event_kinds": tr.kinds})
	return n
}

func traceKey(e string) string {
	if i := strings.Index(e, ":"); i > 0 {
		e = e[:i]
	}
	return strings.ReplaceAll(e, " ", "-")
}

// graceRuns: un-pooled and no-op-pool handles must be closed after the grace period once idle.
func graceRuns(c *vf.Ctx, ri *repoInfo) {
	for _, mode := range []string{"dotgit-nil-pool", "storage-noop-pool"} {
		for rep := 0; rep < 3; rep++ {
			tr := newTrace()
			rec := recfs.New()
			verifhook.SetEvent(tr.event)
			fs := recfs.Wrap(osfs.New(ri.dir), rec)
			var closer func()
			if mode == "dotgit-nil-pool" {
				dg := dotgit.NewWithOptions(fs, dotgit.Options{})
				for _, ph := range ri.packs {
					h, err := dg.PackHandle(plumbing.NewHash(ph))
					if err != nil {
						continue
					}
					if rd, err := h.OpenRandomReader(); err == nil {
						buf := make([]byte, 4)
						rd.ReadAt(buf, 0)
						rd.Close()
					}
				}
				closer = func() { dg.Close() }
			} else {
				st := filesystem.NewStorageWithOptions(fs, cache.NewObjectLRUDefault(), filesystem.Options{Pool: fdpool.New(0)})
				for i := 0; i < 10 && i < len(ri.objs); i++ {
					st.EncodedObject(plumbing.AnyObject, plumbing.NewHash(ri.objs[i*len(ri.objs)/10]))
				}
				closer = func() { st.Close() }
			}
			opened := openPackInstances(rec)
			// idle now: wait (bounded) for the grace close
			deadline := time.Now().Add(60 * time.Second)
			for openPackInstances(rec) > 0 && time.Now().Before(deadline) {
				time.Sleep(100 * time.Millisecond)
			}
			left := openPackInstances(rec)
			c.Count("grace_runs", 1)
			if left > 0 {
				c.Fail("idle-handle-never-closed:"+mode, fmt.Sprintf("%d of %d pack/idx/rev descriptors opened by idle readers are still open 60s after the last release (grace period is 1s): %v", left, opened, rec.OpenPaths()),
					map[string]any{"mode": mode, "open_paths": rec.OpenPaths()})
			}
			closer()
			verifhook.SetEvent(nil)
			tr.mu.Lock()
			for k, n := range tr.kinds {
				c.Count("ev_"+k, n)
			}
			for _, e := range tr.errs {
				c.Fail("trace:"+traceKey(e), "reference state machine rejected the hook trace (grace run): "+e, map[string]any{"mode": mode})
			}
			tr.mu.Unlock()
			if left > 0 {
				break
			}
		}
	}
}
