// C34: pkt-line and sideband framing round-trip under any chunking.
//
// Pure model check: expected = what was written. Packet sequences are written
// with the pktline.Write* functions, the byte stream is served through readers
// that split it at every byte position (small streams), at random positions,
// one byte at a time, half reads, data+EOF together and zero-length reads, and
// read back with Read / ReadLine / PeekLine / Scanner. Sideband: Muxer output is
// demultiplexed with different Read sizes under the same chunkings.
package main

import (
	"bufio"
	"bytes"
	"errors"
	"fmt"
	"io"
	"math/rand"
	"strings"
	"testing/iotest"

	"github.com/go-git/go-git/v6/plumbing/format/pktline"
	"github.com/go-git/go-git/v6/plumbing/protocol/packp/sideband"

	"verif/internal/vf"
)

func main() {
	vf.Main("C34", "exploration",
		"packet sequences over {data (payload 0,1,small,999..1001,65515,65516), flush, delim, response-end, ERR line} written through Write/Writef/Writeln/WriteString/WriteError/ErrorLine.Encode/WriteFlush/WriteDelim/WriteResponseEnd; chunkings = every single split point (streams <= bound) and every pair of split points (tiny streams), random chunk lists, one-byte, half, data-with-EOF and zero-length-read readers; readers = Read, ReadLine, PeekLine+Discard, Scanner; plus too-small Read buffers (sync must be kept), malformed lengths injected at every packet boundary, oversize payload writes; sideband and sideband-64k mux->demux with Read sizes {1,2,3,999,1000,65519,65520,random}; shape = packet-kind sequence with size classes x chunking kind x reader; non-trivial = sequence with >= 2 packets or a boundary-size payload",
		run)
}

// ---- model ----

type pkt struct {
	kind    string // data | flush | delim | rend | err
	payload []byte // for data and err: the exact payload bytes on the wire
}

func (p pkt) wantLen() int {
	switch p.kind {
	case "flush":
		return pktline.Flush
	case "delim":
		return pktline.Delim
	case "rend":
		return pktline.ResponseEnd
	}
	return len(p.payload) + 4
}

func sizeClass(n int) string {
	switch {
	case n == 0:
		return "0"
	case n == 1:
		return "1"
	case n < 996:
		return "s"
	case n <= 1001:
		return "~1000"
	case n < 65515:
		return "L"
	default:
		return fmt.Sprint(n)
	}
}

func seqShape(seq []pkt) string {
	var b []string
	for i, p := range seq {
		if i >= 12 {
			b = append(b, "…")
			break
		}
		if p.kind == "data" {
			b = append(b, "d"+sizeClass(len(p.payload)))
		} else {
			b = append(b, p.kind)
		}
	}
	return strings.Join(b, ",")
}

// writeSeq writes the sequence with go-git's writers (rotating through the equivalent entry points).
func writeSeq(c *vf.Ctx, seq []pkt, r *rand.Rand) ([]byte, error) {
	var buf bytes.Buffer
	for _, p := range seq {
		var err error
		var n int
		switch p.kind {
		case "flush":
			err = pktline.WriteFlush(&buf)
			c.Seen("writers", "WriteFlush")
		case "delim":
			err = pktline.WriteDelim(&buf)
			c.Seen("writers", "WriteDelim")
		case "rend":
			err = pktline.WriteResponseEnd(&buf)
			c.Seen("writers", "WriteResponseEnd")
		case "err":
			msg := strings.TrimSuffix(strings.TrimPrefix(string(p.payload), "ERR "), "\n")
			if r.Intn(2) == 0 {
				n, err = pktline.WriteError(&buf, errors.New(msg))
				c.Seen("writers", "WriteError")
			} else {
				before := buf.Len()
				err = (&pktline.ErrorLine{Text: msg}).Encode(&buf)
				n = buf.Len() - before
				c.Seen("writers", "ErrorLine.Encode")
			}
		default:
			before := buf.Len()
			s := string(p.payload)
			switch k := r.Intn(4); {
			case k == 0:
				n, err = pktline.Writef(&buf, "%s", s)
				c.Seen("writers", "Writef")
			case k == 1 && strings.HasSuffix(s, "\n"):
				n, err = pktline.Writeln(&buf, strings.TrimSuffix(s, "\n"))
				c.Seen("writers", "Writeln")
			case k == 2:
				n, err = pktline.WriteString(&buf, s)
				c.Seen("writers", "WriteString")
			default:
				n, err = pktline.Write(&buf, p.payload)
				c.Seen("writers", "Write")
			}
			if err == nil && n != buf.Len()-before {
				return nil, fmt.Errorf("Write reported %d bytes but %d were written", n, buf.Len()-before)
			}
		}
		if err != nil {
			return nil, fmt.Errorf("writing %s packet (payload %d bytes): %w", p.kind, len(p.payload), err)
		}
	}
	return buf.Bytes(), nil
}

// wire is the model encoding of the sequence (pkt-line spec).
func wire(seq []pkt) []byte {
	var b bytes.Buffer
	for _, p := range seq {
		switch p.kind {
		case "flush":
			b.WriteString("0000")
		case "delim":
			b.WriteString("0001")
		case "rend":
			b.WriteString("0002")
		default:
			fmt.Fprintf(&b, "%04x", len(p.payload)+4)
			b.Write(p.payload)
		}
	}
	return b.Bytes()
}

// ---- chunking readers ----

type chunkReader struct {
	data   []byte
	cuts   []int // ascending absolute positions where a Read must stop
	pos    int
	zeroAt map[int]bool // positions before which one (0, nil) read is returned
}

func (c *chunkReader) Read(p []byte) (int, error) {
	if c.zeroAt[c.pos] {
		delete(c.zeroAt, c.pos)
		return 0, nil
	}
	if c.pos >= len(c.data) {
		return 0, io.EOF
	}
	end := len(c.data)
	for _, k := range c.cuts {
		if k > c.pos {
			end = k
			break
		}
	}
	n := copy(p, c.data[c.pos:end])
	c.pos += n
	return n, nil
}

type chunking struct {
	kind string
	mk   func(data []byte) io.Reader
}

func splitAt(cuts ...int) chunking {
	return chunking{kind: fmt.Sprintf("split%d", len(cuts)), mk: func(d []byte) io.Reader { return &chunkReader{data: d, cuts: cuts} }}
}

func stdChunkings(r *rand.Rand, n int) []chunking {
	cs := []chunking{
		{"whole", func(d []byte) io.Reader { return bytes.NewReader(d) }},
		{"onebyte", func(d []byte) io.Reader { return iotest.OneByteReader(bytes.NewReader(d)) }},
		{"half", func(d []byte) io.Reader { return iotest.HalfReader(bytes.NewReader(d)) }},
		{"dataerr", func(d []byte) io.Reader { return iotest.DataErrReader(bytes.NewReader(d)) }},
	}
	for k := 0; k < 3; k++ {
		var cuts []int
		zero := map[int]bool{}
		pos := 0
		for pos < n {
			pos += 1 + r.Intn([]int{3, 9, 70, 5000, 70000}[r.Intn(5)])
			if pos < n {
				cuts = append(cuts, pos)
				if r.Intn(5) == 0 {
					zero[pos] = true
				}
			}
		}
		kind := "random"
		if len(zero) > 0 {
			kind = "random+zero-reads"
		}
		cs = append(cs, chunking{kind, func(d []byte) io.Reader {
			z := map[int]bool{}
			for k := range zero {
				z[k] = true
			}
			return &chunkReader{data: d, cuts: cuts, zeroAt: z}
		}})
	}
	return cs
}

// ---- readers under test ----

type got struct {
	l       int
	payload []byte
	errText string // ErrorLine text, if any
}

// readAll reads the whole stream with one of the four reader APIs. It returns
// the packets read and the terminal error (nil = clean end of stream).
func readAll(api string, src io.Reader, limit int) (out []got, termErr error) {
	add := func(l int, p []byte, err error) bool {
		g := got{l: l, payload: append([]byte{}, p...)}
		var el *pktline.ErrorLine
		if errors.As(err, &el) {
			g.errText = el.Text
			err = nil
		}
		if err != nil {
			termErr = err
			return false
		}
		out = append(out, g)
		return len(out) <= limit
	}
	switch api {
	case "Read":
		buf := make([]byte, pktline.MaxSize)
		for {
			l, err := pktline.Read(src, buf)
			if err == io.EOF {
				return out, nil
			}
			var p []byte
			if l >= 4 {
				p = buf[4:l]
			}
			if !add(l, p, err) {
				return
			}
		}
	case "ReadLine":
		for {
			l, p, err := pktline.ReadLine(src)
			if err == io.EOF {
				return out, nil
			}
			if !add(l, p, err) {
				return
			}
		}
	case "PeekLine":
		br := bufio.NewReaderSize(src, pktline.MaxSize+16)
		for {
			l, p, err := pktline.PeekLine(br)
			if err == io.EOF {
				return out, nil
			}
			// peeking again must give the same answer
			l2, p2, err2 := pktline.PeekLine(br)
			if l2 != l || !bytes.Equal(p, p2) || (err == nil) != (err2 == nil) {
				termErr = fmt.Errorf("second PeekLine differs: (%d,%q,%v) then (%d,%q,%v)", l, p, err, l2, p2, err2)
				return
			}
			if !add(l, p, err) {
				return
			}
			d := l
			if d < 4 {
				d = 4
			}
			if _, derr := br.Discard(d); derr != nil {
				termErr = fmt.Errorf("discard after PeekLine: %w", derr)
				return
			}
		}
	case "Scanner":
		s := pktline.NewScanner(src)
		for s.Scan() {
			if !add(s.Len(), s.Bytes(), nil) {
				return
			}
			if s.Len() >= 4 && s.Text() != string(s.Bytes()) {
				termErr = errors.New("Scanner.Text() != Bytes()")
				return
			}
		}
		// the Scanner reports ERR lines as a terminal error
		var el *pktline.ErrorLine
		if errors.As(s.Err(), &el) {
			out = append(out, got{l: s.Len(), payload: append([]byte{}, s.Bytes()...), errText: el.Text})
			return out, errScannerStoppedAtErrLine
		}
		return out, s.Err()
	}
	return
}

var errScannerStoppedAtErrLine = errors.New("scanner stopped at ERR line")

var apis = []string{"Read", "ReadLine", "PeekLine", "Scanner"}

// compare checks packets read against the written sequence. upTo = number of packets that must match.
func compare(seq []pkt, out []got, api string) string {
	for i, p := range seq {
		if i >= len(out) {
			return fmt.Sprintf("only %d of %d packets read back", len(out), len(seq))
		}
		g := out[i]
		if g.l != p.wantLen() {
			return fmt.Sprintf("packet %d (%s, %d payload bytes): length %d, expected %d", i, p.kind, len(p.payload), g.l, p.wantLen())
		}
		switch p.kind {
		case "data", "err":
			if !bytes.Equal(g.payload, p.payload) {
				return fmt.Sprintf("packet %d (%s): payload %s, expected %s", i, p.kind, vf.Q(g.payload), vf.Q(p.payload))
			}
		default:
			if len(g.payload) != 0 {
				return fmt.Sprintf("packet %d (%s): unexpected payload %s", i, p.kind, vf.Q(g.payload))
			}
		}
		if p.kind == "err" {
			want := strings.TrimSpace(strings.TrimPrefix(string(p.payload), "ERR "))
			if g.errText != want {
				return fmt.Sprintf("packet %d: ERR line text %q, expected %q", i, g.errText, want)
			}
			if api == "Scanner" {
				return "" // the scanner stops at an ERR line by design
			}
		} else if g.errText != "" {
			return fmt.Sprintf("packet %d (%s) reported as ERR line %q", i, p.kind, g.errText)
		}
	}
	if len(out) > len(seq) {
		return fmt.Sprintf("%d packets read back, only %d written", len(out), len(seq))
	}
	return ""
}

// ---- generators ----

var boundarySizes = []int{0, 1, 2, 3, 4, 5, 995, 996, 999, 1000, 1001, 65515, 65516}

func genPayload(r *rand.Rand, n int) []byte {
	b := make([]byte, n)
	switch r.Intn(4) {
	case 0:
		r.Read(b)
	case 1:
		for i := range b {
			b[i] = "0123456789abcdef\n"[r.Intn(17)] // looks like lengths: a desynchronised reader finds plausible headers
		}
	case 2:
		copy(b, bytes.Repeat([]byte("0004"), n/4+1))
	default:
		copy(b, bytes.Repeat([]byte("want 6ecf0ef2c2dffb796033e5a02219af86ec6584e5 ofs-delta\n"), n/56+1))
	}
	if n >= 4 && string(b[:4]) == "ERR " {
		b[0] = 'e'
	}
	return b
}

func genSeq(r *rand.Rand, big bool) []pkt {
	n := 1 + r.Intn(12)
	var seq []pkt
	for i := 0; i < n; i++ {
		switch k := r.Intn(12); {
		case k == 0:
			seq = append(seq, pkt{kind: "flush"})
		case k == 1:
			seq = append(seq, pkt{kind: "delim"})
		case k == 2:
			seq = append(seq, pkt{kind: "rend"})
		case k == 3:
			msg := []string{"access denied", "x", "a b  c", "not our ref 0000", ""}[r.Intn(5)]
			seq = append(seq, pkt{kind: "err", payload: []byte("ERR " + msg + "\n")})
		default:
			var sz int
			switch r.Intn(6) {
			case 0:
				sz = boundarySizes[r.Intn(7)]
			case 1:
				if big {
					sz = boundarySizes[r.Intn(len(boundarySizes))]
				} else {
					sz = r.Intn(20)
				}
			case 2:
				if big {
					sz = r.Intn(65517)
				} else {
					sz = r.Intn(120)
				}
			default:
				sz = r.Intn(60)
			}
			seq = append(seq, pkt{kind: "data", payload: genPayload(r, sz)})
		}
	}
	return seq
}

func hasErr(seq []pkt) int {
	for i, p := range seq {
		if p.kind == "err" {
			return i
		}
	}
	return -1
}

// ---- the check ----

type reporter struct {
	c *vf.Ctx
}

func (rp reporter) fail(key, what string, seq []pkt, extra map[string]any) {
	m := map[string]any{"sequence": seqShape(seq), "stream_hex": vf.Hex(wire(seq))}
	for k, v := range extra {
		m[k] = v
	}
	rp.c.Fail(key, what+" [sequence "+seqShape(seq)+"]", m)
}

func run(c *vf.Ctx) {
	rp := reporter{c}
	nSeq := c.N(260, 4000)
	splitBound := c.N(700, 2048)
	pairBound := c.N(40, 64)
	exhaustiveStreams, exhaustiveSplits := 0, 0
	vfSeqs := make([][]pkt, nSeq)
	for i := range vfSeqs {
		vfSeqs[i] = genSeq(c.Rand("seq", i), i%8 == 7)
	}
	type partial struct{ streams, splits int }
	parts := make([]partial, nSeq)
	vf.Parallel(nSeq, 8, func(i int) {
		r := c.Rand("run", i)
		seq := vfSeqs[i]
		stream, err := writeSeq(c, seq, r)
		if err != nil {
			rp.fail("write:error", err.Error(), seq, nil)
			return
		}
		if w := wire(seq); !bytes.Equal(stream, w) {
			rp.fail("write:bytes-differ-from-spec", fmt.Sprintf("written stream %s, pkt-line encoding is %s", vf.Q(stream), vf.Q(w)), seq, nil)
			return
		}
		shape := seqShape(seq)
		nontrivial := len(seq) >= 2
		check := func(ch chunking, cutDesc string) {
			for _, api := range apis {
				exp := seq
				if api == "Scanner" {
					if e := hasErr(seq); e >= 0 {
						exp = seq[:e+1]
					}
				}
				var out []got
				var terr error
				if pv, st := vf.Catch(func() { out, terr = readAll(api, ch.mk(stream), len(seq)+2) }); pv != nil {
					rp.fail(api+":panic:"+ch.kind, fmt.Sprintf("%s panicked under chunking %s %s: %v\n%s", api, ch.kind, cutDesc, pv, st), seq, map[string]any{"chunking": ch.kind, "cuts": cutDesc})
					continue
				}
				c.Count("stream_reads", 1)
				c.Count("packets_compared", len(out))
				if terr != nil && !(api == "Scanner" && terr == errScannerStoppedAtErrLine) {
					rp.fail(api+":error-on-wellformed:"+ch.kind, fmt.Sprintf("%s returned error %q on a well-formed stream under chunking %s %s after %d packets", api, terr, ch.kind, cutDesc, len(out)), seq, map[string]any{"chunking": ch.kind, "cuts": cutDesc})
					continue
				}
				if d := compare(exp, out, api); d != "" {
					rp.fail(api+":sequence-differs:"+ch.kind, fmt.Sprintf("%s under chunking %s %s: %s", api, ch.kind, cutDesc, d), seq, map[string]any{"chunking": ch.kind, "cuts": cutDesc})
				}
			}
			c.Seen("chunkings", ch.kind)
		}
		for _, ch := range stdChunkings(r, len(stream)) {
			check(ch, "")
			c.Eval(shape+"|"+ch.kind, nontrivial)
		}
		if len(stream) <= splitBound {
			parts[i].streams++
			for k := 0; k <= len(stream); k++ {
				check(splitAt(k), fmt.Sprintf("[%d]", k))
				parts[i].splits++
			}
			c.Eval(shape+"|every-split", nontrivial)
		}
		if len(stream) <= pairBound {
			for a := 0; a <= len(stream); a++ {
				for b := a; b <= len(stream); b++ {
					check(splitAt(a, b), fmt.Sprintf("[%d,%d]", a, b))
					parts[i].splits++
				}
			}
			c.Eval(shape+"|every-split-pair", nontrivial)
		}
		if i < 3 {
			c.Sample(map[string]any{"sequence": shape, "stream_bytes": len(stream), "stream_head": vf.Q(stream)})
		}
		smallBuffers(c, rp, seq, stream, r)
		malformed(c, rp, seq, r)
	})
	for _, p := range parts {
		exhaustiveStreams += p.streams
		exhaustiveSplits += p.splits
	}
	oversize(c, rp)
	sidebandPart(c, rp)

	c.Extra("exhaustive", false)
	c.Extra("exhaustive_subspace", fmt.Sprintf("every single split point of %d generated streams of <= %d bytes and every pair of split points of streams <= %d bytes (%d split configurations x 4 reader APIs)", exhaustiveStreams, splitBound, pairBound, exhaustiveSplits))
	c.Floor("packet sequences", nSeq, nSeq)
	c.Floor("split configurations enumerated", exhaustiveSplits, c.N(20000, 400000))
	c.Floor("whole-stream reads compared", c.Counter("stream_reads"), c.N(100000, 2000000))
	c.Floor("reader APIs", len(apis), 4)
	c.Floor("writer entry points", c.SeenCount("writers"), 9)
	c.Floor("small-buffer sync cases", c.Counter("small_buffer_cases"), c.N(400, 6000))
	c.Floor("malformed-length cases", c.Counter("malformed_cases"), c.N(1500, 20000))
	c.Floor("sideband round trips", c.Counter("sideband_roundtrips"), c.N(600, 7000))
	c.Assume("the pkt-line wire format of gitprotocol-common (4 hex digits incl. themselves, 0000/0001/0002 specials, max 65520) is the model; a reader may return (0, nil) and may return data together with io.EOF (io.Reader contract)")
	c.Assume("'rejected without losing synchronisation' is checked where resynchronisation is defined: a Read buffer too small for a packet (documented to drain the packet), and a malformed length must surface as an error at exactly that packet with all earlier packets intact; pktline.Scanner stopping at an ERR line is by design")
}

// smallBuffers: Read with a buffer too small for packet i must fail and leave the stream positioned at packet i+1.
func smallBuffers(c *vf.Ctx, rp reporter, seq []pkt, stream []byte, r *rand.Rand) {
	for i, p := range seq {
		if (p.kind != "data" && p.kind != "err") || len(p.payload) == 0 {
			continue
		}
		for _, bs := range []int{4, 5, len(p.payload) + 3, 4 + r.Intn(len(p.payload))} {
			if bs >= len(p.payload)+4 || bs < 4 {
				continue
			}
			for _, ch := range stdChunkings(r, len(stream))[:5] {
				src := ch.mk(stream)
				big := make([]byte, pktline.MaxSize)
				ok := true
				var why string
				if pv, st := vf.Catch(func() {
					for j := 0; j < len(seq) && ok; j++ {
						if j == i {
							small := make([]byte, bs)
							l, err := pktline.Read(src, small)
							if err == nil || l != pktline.Err {
								ok, why = false, fmt.Sprintf("Read with a %d-byte buffer on a packet of %d bytes returned (%d, %v) instead of an error", bs, len(p.payload)+4, l, err)
							}
							continue
						}
						l, err := pktline.Read(src, big)
						var el *pktline.ErrorLine
						if errors.As(err, &el) {
							err = nil
						}
						if err != nil || l != seq[j].wantLen() || (l > 4 && !bytes.Equal(big[4:l], seq[j].payload)) {
							ok, why = false, fmt.Sprintf("after the too-small read of packet %d, packet %d read as (%d, %v, %s), expected length %d payload %s", i, j, l, err, vf.Q(big[4:max(l, 4)]), seq[j].wantLen(), vf.Q(seq[j].payload))
						}
					}
				}); pv != nil {
					ok, why = false, fmt.Sprintf("panic: %v\n%s", pv, st)
				}
				c.Count("small_buffer_cases", 1)
				if !ok {
					kind := "desync"
					if strings.HasPrefix(why, "Read with") {
						kind = "not-rejected"
					} else if strings.HasPrefix(why, "panic") {
						kind = "panic"
					}
					rp.fail("Read:small-buffer:"+kind, why+" (chunking "+ch.kind+")", seq, map[string]any{"packet": i, "buffer": bs})
					return
				}
			}
		}
	}
}

// malformed: a bad length at packet boundary j must be an error at exactly that packet.
func malformed(c *vf.Ctx, rp reporter, seq []pkt, r *rand.Rand) {
	bads := []string{"0003", "000g", "zzzz", "fff1", "ffff", "00 4", "-001", "0x10", "\x00\x00\x00\x00", "FFF1"}
	w := wire(seq)
	// packet start offsets
	offs := []int{0}
	for _, p := range seq {
		n := 4
		if p.kind == "data" || p.kind == "err" {
			n += len(p.payload)
		}
		offs = append(offs, offs[len(offs)-1]+n)
	}
	for j := 0; j <= len(seq); j++ {
		if e := hasErr(seq[:j]); e >= 0 {
			break
		}
		bad := bads[r.Intn(len(bads))]
		stream := append(append(append([]byte{}, w[:offs[j]]...), bad...), w[offs[j]:]...)
		for _, api := range apis {
			ch := stdChunkings(r, len(stream))[r.Intn(7)]
			var out []got
			var terr error
			if pv, st := vf.Catch(func() { out, terr = readAll(api, ch.mk(stream), len(seq)+3) }); pv != nil {
				rp.fail(api+":malformed-length:panic", fmt.Sprintf("%s panicked on length %q at packet %d: %v\n%s", api, bad, j, pv, st), seq, map[string]any{"bad": bad, "at": j})
				continue
			}
			c.Count("malformed_cases", 1)
			c.Seen("malformed_lengths", bad)
			if len(out) > j {
				rp.fail(api+":malformed-length:accepted", fmt.Sprintf("%s read %d packets although the length %q at packet %d is malformed (packet %d read as length %d payload %s)", api, len(out), bad, j, j, out[j].l, vf.Q(out[j].payload)), seq, map[string]any{"bad": bad, "at": j, "chunking": ch.kind})
				continue
			}
			if terr == nil {
				rp.fail(api+":malformed-length:clean-end", fmt.Sprintf("%s ended without error at the malformed length %q (packet %d)", api, bad, j), seq, map[string]any{"bad": bad, "at": j, "chunking": ch.kind})
				continue
			}
			if len(out) < j {
				rp.fail(api+":malformed-length:earlier-packets-lost", fmt.Sprintf("%s returned only %d of the %d intact packets before the malformed length %q: %v", api, len(out), j, bad, terr), seq, map[string]any{"bad": bad, "at": j, "chunking": ch.kind})
				continue
			}
			if d := compare(seq[:j], out, api); d != "" {
				rp.fail(api+":malformed-length:earlier-packets-differ", d, seq, map[string]any{"bad": bad, "at": j})
			}
		}
	}
}

func oversize(c *vf.Ctx, rp reporter) {
	for _, n := range []int{65517, 65518, 65520, 70000, 1 << 17} {
		var buf bytes.Buffer
		_, err := pktline.Write(&buf, make([]byte, n))
		c.Count("oversize_writes", 1)
		if err == nil || buf.Len() != 0 {
			rp.fail("Write:oversize-payload-not-refused", fmt.Sprintf("Write of a %d-byte payload: err=%v, %d bytes written", n, err, buf.Len()), nil, map[string]any{"size": n})
		}
	}
	var buf bytes.Buffer
	if _, err := pktline.Write(&buf, make([]byte, pktline.MaxPayloadSize)); err != nil || buf.Len() != pktline.MaxSize {
		rp.fail("Write:max-payload-refused", fmt.Sprintf("Write of the maximum payload: err=%v, %d bytes written", err, buf.Len()), nil, nil)
	}
}

// ---- sideband ----

type sbWrite struct {
	ch   sideband.Channel
	data []byte
}

func sidebandPart(c *vf.Ctx, rp reporter) {
	n := c.N(120, 1200)
	sizes := []int{0, 1, 2, 994, 995, 996, 999, 1000, 1001, 65514, 65515, 65516, 65519, 65520, 65521}
	vf.Parallel(n, 8, func(i int) {
		r := c.Rand("sideband", i)
		typ, tname, max := sideband.Sideband, "side-band", 1000
		if i%2 == 1 {
			typ, tname, max = sideband.Sideband64k, "side-band-64k", 65520
		}
		var ws []sbWrite
		var pack, progress []byte
		var shape []string
		total := 0
		for k := 0; k < 1+r.Intn(7); k++ {
			var sz int
			switch r.Intn(4) {
			case 0:
				sz = sizes[r.Intn(len(sizes))]
			case 1:
				sz = r.Intn(200)
			case 2:
				sz = r.Intn(3000)
			default:
				sz = r.Intn(150000)
			}
			if i%3 == 0 && sz > 2500 {
				sz = sz % 2500 // keep some cases small enough for 1-byte reads
			}
			d := genPayload(r, sz)
			if r.Intn(4) == 0 {
				ws = append(ws, sbWrite{sideband.ProgressMessage, d})
				progress = append(progress, d...)
				shape = append(shape, "P"+sizeClass(sz))
			} else {
				ws = append(ws, sbWrite{sideband.PackData, d})
				pack = append(pack, d...)
				shape = append(shape, "D"+sizeClass(sz))
			}
			total += sz
		}
		withErr := r.Intn(6) == 0
		var buf bytes.Buffer
		m := sideband.NewMuxer(typ, &buf)
		for _, w := range ws {
			var nw int
			var err error
			if w.ch == sideband.PackData && r.Intn(2) == 0 {
				nw, err = m.Write(w.data)
			} else {
				nw, err = m.WriteChannel(w.ch, w.data)
			}
			if err != nil || nw != len(w.data) {
				rp.fail("Muxer:write-error", fmt.Sprintf("%s: WriteChannel(%d, %d bytes) = (%d, %v)", tname, w.ch, len(w.data), nw, err), nil, map[string]any{"writes": strings.Join(shape, ",")})
				return
			}
		}
		if withErr {
			m.WriteChannel(sideband.ErrorMessage, []byte("fatal: boom"))
			shape = append(shape, "E")
		} else {
			pktline.WriteFlush(&buf)
		}
		muxed := buf.Bytes()
		// every frame respects the negotiated maximum and the channel/payload model
		var mPack, mProg []byte
		pos := 0
		for pos < len(muxed) {
			var l int
			fmt.Sscanf(string(muxed[pos:pos+4]), "%04x", &l)
			if l == 0 {
				pos += 4
				continue
			}
			if l > max || l < 5 || pos+l > len(muxed) {
				rp.fail("Muxer:frame-size:"+tname, fmt.Sprintf("%s frame of length %d at offset %d (max %d)", tname, l, pos, max), nil, map[string]any{"writes": strings.Join(shape, ",")})
				return
			}
			switch muxed[pos+4] {
			case 1:
				mPack = append(mPack, muxed[pos+5:pos+l]...)
			case 2:
				mProg = append(mProg, muxed[pos+5:pos+l]...)
			}
			pos += l
		}
		if !bytes.Equal(mPack, pack) || !bytes.Equal(mProg, progress) {
			rp.fail("Muxer:frames-lose-data:"+tname, fmt.Sprintf("%s frames carry %d pack / %d progress bytes, written %d / %d", tname, len(mPack), len(mProg), len(pack), len(progress)), nil, map[string]any{"writes": strings.Join(shape, ",")})
			return
		}
		bufSizes := []int{2, 3, 999, 1000, 65519, 65520, 1 + r.Intn(5000)}
		if total <= 3000 {
			bufSizes = append(bufSizes, 1)
		}
		chs := stdChunkings(r, len(muxed))
		for bi, bs := range bufSizes {
			ch := chs[(i+bi)%len(chs)]
			if bs <= 3 && total > 40000 {
				continue
			}
			var prog bytes.Buffer
			var outPack []byte
			var rerr error
			if pv, st := vf.Catch(func() {
				d := sideband.NewDemuxer(typ, ch.mk(muxed))
				if bi%3 != 2 || len(progress) > 0 {
					d.Progress = &prog
				}
				b := make([]byte, bs)
				for steps := 0; ; steps++ {
					nr, err := d.Read(b)
					outPack = append(outPack, b[:nr]...)
					if err != nil {
						rerr = err
						break
					}
					if nr == 0 && steps > len(muxed)+10 {
						rerr = errors.New("Read keeps returning (0, nil)")
						break
					}
				}
			}); pv != nil {
				rp.fail("Demuxer:panic", fmt.Sprintf("%s demux with %d-byte reads, chunking %s: %v\n%s", tname, bs, ch.kind, pv, st), nil, map[string]any{"writes": strings.Join(shape, ",")})
				continue
			}
			c.Count("sideband_roundtrips", 1)
			c.Seen("demux_read_sizes", fmt.Sprint(min(bs, 65521)))
			c.Eval("sideband|"+tname+"|"+strings.Join(shape, ",")+"|buf="+sizeClass(bs)+"|"+ch.kind, len(ws) > 1 || total > 900)
			extra := map[string]any{"type": tname, "writes": strings.Join(shape, ","), "read_size": bs, "chunking": ch.kind}
			if withErr {
				if rerr == nil || rerr == io.EOF || !strings.Contains(rerr.Error(), "boom") {
					rp.fail("Demuxer:error-channel-not-reported", fmt.Sprintf("%s: error-channel message not returned, got %v", tname, rerr), nil, extra)
				}
			} else if rerr != io.EOF {
				rp.fail("Demuxer:error-on-wellformed", fmt.Sprintf("%s demux (read size %d, chunking %s) ended with %v instead of io.EOF", tname, bs, ch.kind, rerr), nil, extra)
				continue
			}
			if !bytes.Equal(outPack, pack) {
				rp.fail("Demuxer:pack-bytes-differ", fmt.Sprintf("%s demux (read size %d, chunking %s): %d pack bytes out, %d written; first difference at %d", tname, bs, ch.kind, len(outPack), len(pack), firstDiff(outPack, pack)), nil, extra)
			}
			if bi%3 != 2 || len(progress) > 0 {
				if !bytes.Equal(prog.Bytes(), progress) {
					rp.fail("Demuxer:progress-bytes-differ", fmt.Sprintf("%s demux (read size %d): %d progress bytes out, %d written", tname, bs, prog.Len(), len(progress)), nil, extra)
				}
			}
		}
		if i < 2 {
			c.Sample(map[string]any{"sideband": tname, "writes": strings.Join(shape, ","), "muxed_bytes": len(muxed), "pack_bytes": len(pack), "progress_bytes": len(progress)})
		}
	})
}

func firstDiff(a, b []byte) int {
	for i := 0; i < len(a) && i < len(b); i++ {
		if a[i] != b[i] {
			return i
		}
	}
	return min(len(a), len(b))
}
