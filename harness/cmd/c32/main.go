// C32: sparse checkout materialises exactly the selected directories (by whole path components).
//
// Monitor: executable set model (p in-set <=> exists d in D: p==d or p has prefix d+"/") decides the
// expected skip-worktree partition and worktree presence; the index go-git wrote is read back through
// the real git (`git ls-files -t -s`: tag S = skip-worktree). Every disagreement and a deterministic
// sample of agreements are confirmed by letting real git perform the equivalent non-cone sparse checkout
// (patterns "/d/") in a twin copy and comparing git's own S/H partition with the model's.
package main

import (
	"bytes"
	"fmt"
	"math/rand"
	"os"
	"path/filepath"
	"sort"
	"strings"
	"sync"

	git "github.com/go-git/go-git/v6"
	"github.com/go-git/go-git/v6/plumbing"

	"verif/internal/gen"
	"verif/internal/gitx"
	"verif/internal/twin"
	"verif/internal/vf"
)

func main() {
	vf.Main("C32", "exploration",
		"cases = generated histories (paths over an alphabet with string-prefix siblings a/ab/a.b/a-/a0/'a b') x start state (full worktree, no-checkout, previous sparse selection) x sequences of 1-3 sparse operations (Checkout force by branch/hash/create, non-forced Checkout, Reset hard with and without dir validation, Reset merge) x selections D (1-3 directories of the target tree, nested, prefix-of-sibling biased), plain and recfs-wrapped worktree fs; non-trivial = target has both in-set and out-of-set entries; shape = (start, op, |D|, nested, prefix-sibling present, depth, outcome); oracle = component-wise set model on `git ls-files -t` of go-git's index + worktree walk, disagreements and a sample confirmed by real git non-cone sparse checkout in a twin",
		run)
}

type opSpec struct {
	Kind   string   `json:"kind"`
	Commit int      `json:"commit"`
	Branch string   `json:"branch,omitempty"`
	Dirs   []string `json:"dirs"`
}

type caseRec struct {
	Hist    int      `json:"hist"`
	Case    int      `json:"case"`
	Start   string   `json:"start"`
	Wrapped bool     `json:"wrapped"`
	Ops     []opSpec `json:"ops"`
	Step    int      `json:"failing_step"`
	Paths   []string `json:"target_paths,omitempty"`
	Detail  []string `json:"detail,omitempty"`
}

// hasPrefixSibling: some tracked path has string prefix d but does not lie under d component-wise.
func prefixSiblings(paths []string, d string) []string {
	var out []string
	for _, p := range paths {
		if strings.HasPrefix(p, d) && !twin.Under(p, d) {
			out = append(out, p)
		}
	}
	return out
}

func inSet(p string, D []string) bool {
	for _, d := range D {
		if twin.Under(p, d) {
			return true
		}
	}
	return false
}

// pickDirs selects 1..3 directories of tree t, biased to directories that are string prefixes of
// sibling names and to nested pairs.
func pickDirs(r *rand.Rand, t gen.Tree) []string {
	ds := twin.Dirs(t)
	if len(ds) == 0 {
		return nil
	}
	paths := t.Paths()
	var withSib []string
	for _, d := range ds {
		if len(prefixSiblings(paths, d)) > 0 {
			withSib = append(withSib, d)
		}
	}
	n := 1 + r.Intn(3)
	seen := map[string]bool{}
	var D []string
	var deep []string
	for _, d := range ds {
		if strings.Count(d, "/") >= 2 {
			deep = append(deep, d)
		}
	}
	if len(deep) > 0 && r.Intn(4) == 0 { // one deep directory alone: nothing else un-skips its ancestors
		return []string{deep[r.Intn(len(deep))]}
	}
	for len(D) < n && len(seen) < len(ds) {
		var d string
		switch {
		case len(withSib) > 0 && r.Intn(2) == 0:
			d = withSib[r.Intn(len(withSib))]
		case len(D) > 0 && r.Intn(3) == 0: // nested: a sub-directory or the parent of an already chosen one
			base := D[r.Intn(len(D))]
			var rel []string
			for _, x := range ds {
				if x != base && (twin.Under(x, base) || twin.Under(base, x)) {
					rel = append(rel, x)
				}
			}
			if len(rel) == 0 {
				d = ds[r.Intn(len(ds))]
			} else {
				d = rel[r.Intn(len(rel))]
			}
		default:
			d = ds[r.Intn(len(ds))]
		}
		if seen[d] {
			if r.Intn(4) == 0 {
				break
			}
			continue
		}
		seen[d] = true
		D = append(D, d)
	}
	return D
}

// addDeepCluster plants, in most commits, a directory chain of depth 3-4 whose every level has a tracked sibling
// that sorts BEFORE the next directory of the chain (so the index lists an out-of-set entry first at each level):
//
//	deep/b  deep/m/a  deep/m/k/f1  deep/m/k/sub/f2  deep/m/z  deep/q/r/s/t
func addDeepCluster(h *gen.History, r *rand.Rand) {
	for i := range h.Commits {
		if r.Intn(6) == 0 {
			continue
		}
		t := h.Commits[i].Tree
		t["deep/b"] = gen.File{Mode: "100644", Content: []byte("early sibling at level 1\n")}
		t["deep/m/a"] = gen.File{Mode: "100644", Content: []byte(fmt.Sprintf("early sibling at level 2, variant %d\n", i%2))}
		t["deep/m/k/f1"] = gen.File{Mode: "100644", Content: []byte(fmt.Sprintf("selected leaf, variant %d\n", i%3))}
		t["deep/m/k/sub/f2"] = gen.File{Mode: "100755", Content: []byte("deeper leaf\n")}
		t["deep/m/z"] = gen.File{Mode: "100644", Content: []byte("late sibling\n")}
		if r.Intn(2) == 0 {
			t["deep/q/r/s/t"] = gen.File{Mode: "100644", Content: []byte("second chain\n")}
		}
	}
}

func nested(D []string) bool {
	for i, a := range D {
		for j, b := range D {
			if i != j && twin.Under(a, b) {
				return true
			}
		}
	}
	return false
}

func maxDepth(D []string) int {
	m := 0
	for _, d := range D {
		if n := strings.Count(d, "/") + 1; n > m {
			m = n
		}
	}
	return m
}

var opKinds = []string{"checkout-force-branch", "checkout-force-hash", "checkout-force-create", "checkout-nonforce-branch", "checkout-nonforce-hash", "reset-hard", "reset-hard-novalidate", "reset-merge"}

func run(c *vf.Ctx) {
	g := gitx.New(c.Scratch)
	nHist := c.N(6, 36)
	perHist := c.N(12, 30)
	var mu sync.Mutex
	confirmSeen := map[string]bool{}
	confirmPerKey := map[string]int{}
	var errSamples []any
	failByOp := map[string]int{}

	only := os.Getenv("C32_ONLY") // "hist:case": run one case verbosely (triage aid)
	vf.Parallel(nHist, 6, func(hi int) {
		if only != "" && !strings.HasPrefix(only, fmt.Sprintf("%d:", hi)) {
			return
		}
		r := c.Rand("hist", hi)
		h := gen.RandomHistory(r, gen.HistOpts{N: 5 + r.Intn(5), MergeProb: 0.2, Files: 10 + r.Intn(12), Branches: 3,
			Path: gen.PathOpts{Depth: 3 + hi%2, Symlinks: true, Exec: true}})
		addDeepCluster(h, r)
		root := c.TempDir(fmt.Sprintf("h%d", hi))
		defer os.RemoveAll(root)
		base, err := twin.NewBase(g, filepath.Join(root, "base"), h)
		if err != nil {
			c.Broken("materialise history %d: %v", hi, err)
			return
		}
		baseEnts, err := twin.LsFilesT(g, base.Dir)
		if err != nil {
			c.Broken("ls-files base: %v", err)
			return
		}
		// expected index entries of a commit, computed from the generated tree (blob ids hashed in-process) and
		// validated against `git ls-tree -r` for one commit per history
		lsTree := map[int][]twin.TreeEntry{}
		treeOf := func(ci int) []twin.TreeEntry {
			if v, ok := lsTree[ci]; ok {
				return v
			}
			var v []twin.TreeEntry
			t := h.Commits[ci].Tree
			for _, p := range t.Paths() {
				v = append(v, twin.TreeEntry{Mode: t[p].Mode, Type: "blob", ID: twin.BlobID(t[p].Content), Path: p})
			}
			lsTree[ci] = v
			return v
		}
		{
			ci := r.Intn(len(h.Commits))
			gt, err := twin.LsTree(g, base.Dir, base.IDs[ci])
			mine := treeOf(ci)
			ok := err == nil && len(gt) == len(mine)
			for i := 0; ok && i < len(gt); i++ {
				ok = gt[i].Mode == mine[i].Mode && gt[i].ID == mine[i].ID && gt[i].Path == mine[i].Path
			}
			if !ok {
				c.Broken("MODEL-MISMATCH: expected index computed from the generated tree differs from git ls-tree -r of commit %d (%v)", ci, err)
				return
			}
			c.Count("expected_index_validated_by_git_ls_tree", 1)
		}

		for ci := 0; ci < perHist; ci++ {
			if only != "" && only != fmt.Sprintf("%d:%d", hi, ci) {
				continue
			}
			cr := c.Rand("case", hi, ci)
			rec := caseRec{Hist: hi, Case: ci, Wrapped: ci%3 == 2}
			B := filepath.Join(root, fmt.Sprintf("B%d", ci))
			if err := twin.CopyTree(base.Dir, B); err != nil {
				c.Broken("copy twin: %v", err)
				return
			}
			// branch positions as the sequence evolves (reset moves the checked-out branch)
			branchPos := map[string]int{}
			for b, ci := range h.Branches {
				branchPos[b] = ci
			}
			headBranch := base.Branches[0] // "" when detached
			var pre map[string]preEntry
			switch cr.Intn(4) {
			case 0:
				rec.Start = "full"
				pre = preFrom(baseEnts, B)
			case 1: // every tracked file deleted from disk, index kept: forced operations have to write everything
				rec.Start = "empty-worktree-index-present"
				ents, _ := os.ReadDir(B)
				for _, e := range ents {
					if e.Name() != ".git" {
						os.RemoveAll(filepath.Join(B, e.Name()))
					}
				}
				pre = preFrom(baseEnts, B)
			default:
				rec.Start = "nocheckout"
				ents, _ := os.ReadDir(B)
				for _, e := range ents {
					if e.Name() != ".git" {
						os.RemoveAll(filepath.Join(B, e.Name()))
					}
				}
				os.Remove(filepath.Join(B, ".git", "index"))
				pre = map[string]preEntry{}
			}
			// an untracked file that no commit of the history tracks
			os.WriteFile(filepath.Join(B, "untracked.keep"), []byte("u\n"), 0o644)
			nOps := 1 + cr.Intn(3)
			newBranchN := 0
			lastCommit := -1
			for step := 0; step < nOps; step++ {
				kind := opKinds[cr.Intn(len(opKinds))]
				if rec.Start == "nocheckout" && step == 0 && cr.Intn(2) == 0 {
					kind = "checkout-nonforce-branch" // the documented clone(NoCheckout)+Checkout(sparse) flow
				}
				op := opSpec{Kind: kind}
				op.Commit = cr.Intn(len(h.Commits))
				sameCommit := false
				if lastCommit >= 0 && cr.Intn(5) < 2 {
					op.Commit, sameCommit = lastCommit, true // switch only the selection
				}
				if strings.HasSuffix(kind, "-branch") {
					var names []string
					for b, pos := range branchPos {
						if !sameCommit || pos == lastCommit {
							names = append(names, b)
						}
					}
					if len(names) == 0 {
						for b := range branchPos {
							names = append(names, b)
						}
					}
					sort.Strings(names)
					op.Branch = names[cr.Intn(len(names))]
					op.Commit = branchPos[op.Branch]
				}
				target := h.Commits[op.Commit].Tree
				op.Dirs = pickDirs(cr, target)
				if len(op.Dirs) == 0 {
					continue
				}
				if kind == "reset-hard-novalidate" && cr.Intn(2) == 0 {
					op.Dirs = append(op.Dirs, "no/such/dir")
				}
				if kind == "checkout-force-create" {
					newBranchN++
					op.Branch = fmt.Sprintf("new%d", newBranchN)
				}
				rec.Ops = append(rec.Ops, op)
				rec.Step = len(rec.Ops) - 1

				if only != "" { // triage: keep the state before every step
					keep := filepath.Join(c.Scratch, fmt.Sprintf("c32-only-%d-%d-pre%d", hi, ci, step)) // survives with VERIF_KEEP=1
					os.RemoveAll(keep)
					twin.CopyTree(B, keep)
					fmt.Printf("KEPT %s target=%s\n", keep, base.IDs[op.Commit])
				}
				hd, err := twin.Open(B, rec.Wrapped)
				if err != nil {
					c.Broken("open twin with go-git: %v", err)
					break
				}
				var opErr error
				p, st := vf.Catch(func() { opErr = apply(hd, op, base) })
				hd.Close()
				if p != nil {
					c.Fail("panic:"+op.Kind, fmt.Sprintf("go-git panicked: %v\n%s", p, st), rec)
					break
				}
				c.Seen("op_kinds", op.Kind)
				paths := target.Paths()
				anySib := false
				for _, d := range op.Dirs {
					if len(prefixSiblings(paths, d)) > 0 {
						anySib = true
					}
				}
				nIn := 0
				for _, p := range paths {
					if inSet(p, op.Dirs) {
						nIn++
					}
				}
				nontrivial := nIn > 0 && nIn < len(paths)
				prev := "first"
				if step > 0 {
					prev = "after-sparse"
					if sameCommit {
						prev = "after-sparse-same-commit"
					}
				}
				shape := fmt.Sprintf("%s/%s|%s|n%d|nest=%v|sib=%v|depth%d|wrapped=%v", rec.Start, prev, op.Kind, len(op.Dirs), nested(op.Dirs), anySib, maxDepth(op.Dirs), rec.Wrapped)
				if opErr != nil {
					c.Count("op_errors", 1)
					c.Seen("op_error_classes", op.Kind+"/"+prev+":"+twin.ErrClass(opErr))
					mu.Lock()
					if len(errSamples) < 12 {
						errSamples = append(errSamples, map[string]any{"err": opErr.Error(), "case": rec})
					}
					mu.Unlock()
					c.Eval(shape+"|err", false)
					// a refused/failed operation is outside the property (C29 covers refusals); stop this sequence
					break
				}
				c.Count("ops_succeeded", 1)
				if maxDepth(op.Dirs) >= 3 && rec.Start != "full" && step == 0 {
					c.Count("ops_materialising_a_depth3plus_selection_from_an_empty_worktree", 1)
				}
				if anySib {
					c.Count("ops_with_prefix_sibling", 1)
				}
				if step > 0 {
					c.Count("ops_switching_selection", 1)
				}
				c.Eval(shape, nontrivial)
				// track refs like git would
				switch {
				case strings.HasPrefix(kind, "reset-"):
					if headBranch != "" {
						branchPos[headBranch] = op.Commit
					}
				case strings.HasSuffix(kind, "-hash"):
					headBranch = ""
				default:
					branchPos[op.Branch] = op.Commit
					headBranch = op.Branch
				}
				lastCommit = op.Commit

				// ---- observe through git + filesystem
				ents, err := twin.LsFilesT(g, B)
				if err != nil {
					c.Fail("index-unreadable-by-git:"+op.Kind, err.Error(), rec)
					break
				}
				c.Count("git_index_reads", 1)
				fails := evaluate(B, op, treeOf(op.Commit), target, ents, pre)
				if only != "" {
					fmt.Printf("STEP %d op=%+v\n pre=%v\n post=%v\n want=%v\n fails=%v\n", step, op, pre, ents, treeOf(op.Commit), fails)
				}
				// git's own view of tracked changes among non-skipped entries (deterministic sample)
				if len(fails) == 0 && (ci+step)%4 == 0 {
					stt := g.Run(B, "--no-optional-locks", "status", "--porcelain=v1", "-z", "--untracked-files=no", "--no-renames")
					c.Count("git_status_reads", 1)
					if stt.OK() && len(bytes.TrimSpace(stt.Out)) > 0 {
						fails = append(fails, failure{"sparse:git-status-reports-tracked-change", "git status in go-git's twin: " + vf.Q(stt.Out)})
					}
				}
				model := map[string]bool{}
				for _, p := range paths {
					model[p] = inSet(p, op.Dirs)
				}
				ck := fmt.Sprintf("%d/%d/%s", hi, op.Commit, strings.Join(op.Dirs, "\x00"))
				mu.Lock()
				need := (ci+step)%8 == 0
				for _, f := range fails {
					if confirmPerKey[f.key] < 4 {
						need = true
					}
				}
				if confirmSeen[ck] {
					need = false
				} else if need {
					confirmSeen[ck] = true
					for _, f := range fails {
						confirmPerKey[f.key]++
					}
				}
				mu.Unlock()
				if need {
					if msg := confirmWithGit(c, g, base, op, model, filepath.Join(root, fmt.Sprintf("A%d_%d", ci, step))); msg != "" {
						c.Broken("MODEL-MISMATCH: %s (case %+v)", msg, rec)
						break
					}
				}
				if len(fails) > 0 {
					seenKey := map[string]bool{}
					for _, f := range fails {
						if seenKey[f.key] {
							continue
						}
						seenKey[f.key] = true
						rr := rec
						rr.Paths = paths
						for _, f2 := range fails {
							if f2.key == f.key && len(rr.Detail) < 8 {
								rr.Detail = append(rr.Detail, f2.what)
							}
						}
						mu.Lock()
						failByOp[f.key+" @ "+op.Kind+"/"+prev]++
						mu.Unlock()
						c.Fail(f.key, fmt.Sprintf("%s with D=%q on commit %d (start=%s, step %d): %s", op.Kind, op.Dirs, op.Commit, rec.Start, step, f.what), rr)
					}
					break // later steps would start from a state that already violates the property
				}
				c.Count("ops_held", 1)
				if step > 0 {
					c.Count("ops_switching_selection_held", 1)
				}
				pre = preFrom(ents, B)
				if hi == 0 && ci < 3 {
					c.Sample(map[string]any{"start": rec.Start, "op": op, "tracked": len(paths), "in_set": nIn, "held": true})
				}
			}
			os.RemoveAll(B)
		}
	})
	c.Extra("git_invocations", gitx.Calls.Load())
	c.Extra("op_error_samples", errSamples)
	c.Extra("failures_by_key_and_op", failByOp)
	c.Floor("successful sparse operations", c.Counter("ops_succeeded"), c.N(60, 1000))
	c.Floor("operations whose selection is a string prefix of a sibling name", c.Counter("ops_with_prefix_sibling"), c.N(15, 250))
	c.Floor("operations materialising a selection of depth >= 3 from an empty worktree", c.Counter("ops_materialising_a_depth3plus_selection_from_an_empty_worktree"), c.N(6, 100))
	c.Floor("operations switching an earlier selection", c.Counter("ops_switching_selection"), c.N(10, 200))
	c.Floor("model partitions confirmed by real git sparse checkout", c.Counter("git_confirmations"), c.N(8, 60))
	c.Floor("operation kinds", c.SeenCount("op_kinds"), len(opKinds))
	c.Assume("the property's set model (not git's cone mode, which also materialises files of parent directories) is the specification; git confirms it through non-cone patterns '/d/'")
	c.Assume("MixedReset/SoftReset with SparseDirs are outside the domain: by definition they do not update the worktree")
	c.Assume("operations that return an error (ErrUnstagedChanges, failures caused by an index left stale by an earlier sparse operation) are counted, not evaluated: the property speaks about the state after a successful operation (refusals: C29)")
	c.Assume("untracked files are outside the property: only index entries and their worktree paths are compared")
}

func apply(hd *twin.Handle, op opSpec, base *twin.Base) error {
	hash := plumbing.NewHash(base.IDs[op.Commit])
	switch op.Kind {
	case "checkout-force-branch":
		return hd.WT.Checkout(&git.CheckoutOptions{Branch: plumbing.NewBranchReferenceName(op.Branch), Force: true, SparseCheckoutDirectories: op.Dirs})
	case "checkout-nonforce-branch":
		return hd.WT.Checkout(&git.CheckoutOptions{Branch: plumbing.NewBranchReferenceName(op.Branch), SparseCheckoutDirectories: op.Dirs})
	case "checkout-force-hash":
		return hd.WT.Checkout(&git.CheckoutOptions{Hash: hash, Force: true, SparseCheckoutDirectories: op.Dirs})
	case "checkout-nonforce-hash":
		return hd.WT.Checkout(&git.CheckoutOptions{Hash: hash, SparseCheckoutDirectories: op.Dirs})
	case "checkout-force-create":
		return hd.WT.Checkout(&git.CheckoutOptions{Hash: hash, Branch: plumbing.NewBranchReferenceName(op.Branch), Create: true, Force: true, SparseCheckoutDirectories: op.Dirs})
	case "reset-hard":
		return hd.WT.Reset(&git.ResetOptions{Mode: git.HardReset, Commit: hash, SparseDirs: op.Dirs})
	case "reset-hard-novalidate":
		return hd.WT.Reset(&git.ResetOptions{Mode: git.HardReset, Commit: hash, SparseDirs: op.Dirs, SkipSparseDirValidation: true})
	case "reset-merge":
		return hd.WT.Reset(&git.ResetOptions{Mode: git.MergeReset, Commit: hash, SparseDirs: op.Dirs})
	}
	return fmt.Errorf("unknown op %s", op.Kind)
}

type failure struct{ key, what string }

func forcedness(kind string) string {
	if strings.Contains(kind, "nonforce") || kind == "reset-merge" {
		return "merge-reset"
	}
	return "hard-reset"
}

type preEntry struct {
	Tag, Mode, ID string
	Present       bool
}

// preFrom records the index entries (as listed by git) and on-disk presence of every tracked path: the state before the next operation.
func preFrom(ents []twin.TEntry, B string) map[string]preEntry {
	pre := map[string]preEntry{}
	for _, e := range ents {
		_, lerr := os.Lstat(filepath.Join(B, filepath.FromSlash(e.Path)))
		pre[e.Path] = preEntry{e.Tag, e.Mode, e.ID, lerr == nil}
	}
	return pre
}

// resparseOtherCommit: the index before the operation already carried skip-worktree entries (an earlier sparse
// operation) and differs from the target commit's tree, i.e. resetIndex has to update an index with skipped entries.
func resparseOtherCommit(pre map[string]preEntry, want map[string]twin.TreeEntry) bool {
	hasSkip := false
	for _, e := range pre {
		if e.Tag == "S" {
			hasSkip = true
			break
		}
	}
	if !hasSkip {
		return false
	}
	if len(pre) != len(want) {
		return true
	}
	for p, w := range want {
		if e, ok := pre[p]; !ok || e.Mode != w.Mode || e.ID != w.ID {
			return true
		}
	}
	return false
}

// materialisedBefore: before the operation p (or, if p used to be a directory, something below it) was a
// non-skipped tracked path present on disk.
func materialisedBefore(p string, pre map[string]preEntry) bool {
	for q, e := range pre {
		if twin.Under(q, p) && e.Present && e.Tag != "S" {
			return true
		}
	}
	return false
}

// evaluate compares go-git's index (as read by git) and worktree against the model.
func evaluate(B string, op opSpec, want []twin.TreeEntry, target gen.Tree, ents []twin.TEntry, pre map[string]preEntry) []failure {
	var fails []failure
	got := map[string]twin.TEntry{}
	for _, e := range ents {
		if e.Stage != "0" {
			fails = append(fails, failure{"sparse:index-has-unmerged-stage", fmt.Sprintf("%s stage %s", e.Path, e.Stage)})
			continue
		}
		got[e.Path] = e
	}
	wantM := map[string]twin.TreeEntry{}
	var paths []string
	for _, w := range want {
		wantM[w.Path] = w
		paths = append(paths, w.Path)
	}
	sort.Strings(paths)
	badIndex := map[string]bool{}
	resparse := resparseOtherCommit(pre, wantM)
	idxKey := func(p, kind string) string {
		if resparse {
			return "sparse:resparse-other-commit:index-entry-" + kind
		}
		return "sparse:index-entry-" + kind
	}
	for _, p := range paths {
		w := wantM[p]
		e, ok := got[p]
		if !ok {
			badIndex[p] = true
			fails = append(fails, failure{idxKey(p, "missing"), fmt.Sprintf("tracked path %q of the target commit is not in the index", p)})
			continue
		}
		if e.Mode != w.Mode || e.ID != w.ID {
			badIndex[p] = true
			fails = append(fails, failure{idxKey(p, "differs-from-target"), fmt.Sprintf("%q index %s %s (tag %s), target %s %s", p, e.Mode, e.ID, e.Tag, w.Mode, w.ID)})
		}
	}
	var extra []string
	for p := range got {
		if _, ok := wantM[p]; !ok {
			extra = append(extra, p)
		}
	}
	sort.Strings(extra)
	for _, p := range extra {
		fails = append(fails, failure{idxKey(p, "not-in-target"), fmt.Sprintf("index has %q (tag %s) which the target commit does not track", p, got[p].Tag)})
	}
	mode := forcedness(op.Kind)
	collidesWithExtra := func(p string) bool { // a left-over index entry forms a file/directory conflict with p: p cannot be materialised correctly
		for _, q := range extra {
			if twin.Under(p, q) || twin.Under(q, p) {
				return true
			}
		}
		return false
	}
	for _, p := range paths {
		e, ok := got[p]
		if !ok || badIndex[p] || collidesWithExtra(p) {
			continue
		}
		in := inSet(p, op.Dirs)
		skipped := e.Tag == "S"
		fi, lerr := os.Lstat(filepath.Join(B, filepath.FromSlash(p)))
		present := lerr == nil
		pe, hadPre := pre[p]
		unchanged := hadPre && pe.Mode == e.Mode && pe.ID == e.ID // entry identical before and after: merge-style resets never touch such files
		switch {
		case in && skipped:
			fails = append(fails, failure{"sparse:in-set-entry-skipped", fmt.Sprintf("%q lies inside D=%q but is marked skip-worktree", p, op.Dirs)})
		case !in && !skipped:
			key := "sparse:out-of-set-entry-not-skipped"
			for _, d := range op.Dirs {
				if strings.HasPrefix(p, d) && !twin.Under(p, d) {
					key = "sparse:string-prefix-sibling-included"
				}
			}
			fails = append(fails, failure{key, fmt.Sprintf("%q is outside D=%q (component-wise) but is not skip-worktree (tag %s, on disk=%v)", p, op.Dirs, e.Tag, present)})
		case !in && skipped && present:
			key := "sparse:skipped-entry-present-on-disk:" + mode
			if mode == "merge-reset" && materialisedBefore(p, pre) {
				key = "sparse:merge-reset:file-leaving-the-set-stays-on-disk"
			}
			fails = append(fails, failure{key, fmt.Sprintf("%q is skip-worktree but still exists in the worktree", p)})
		case in && !skipped && !present:
			key := "sparse:in-set-entry-missing-on-disk:" + mode
			if mode == "merge-reset" && unchanged && !pe.Present {
				key = "sparse:merge-reset:unchanged-file-entering-the-set-not-materialised"
			}
			fails = append(fails, failure{key, fmt.Sprintf("%q lies inside D=%q, is not skip-worktree, but is absent from the worktree", p, op.Dirs)})
		case in && !skipped && present:
			f := target[p]
			if msg := compareFile(filepath.Join(B, filepath.FromSlash(p)), fi, f); msg != "" {
				fails = append(fails, failure{"sparse:in-set-entry-wrong-content:" + mode, fmt.Sprintf("%q: %s", p, msg)})
			}
		}
	}
	return fails
}

func compareFile(full string, fi os.FileInfo, f gen.File) string {
	switch f.Mode {
	case "120000":
		if fi.Mode()&os.ModeSymlink == 0 {
			return "expected symlink, found " + fi.Mode().String()
		}
		t, _ := os.Readlink(full)
		if t != string(f.Content) {
			return fmt.Sprintf("symlink target %q, want %q", t, f.Content)
		}
	case "160000":
		if !fi.IsDir() {
			return "expected submodule directory, found " + fi.Mode().String()
		}
	default:
		if !fi.Mode().IsRegular() {
			return "expected regular file, found " + fi.Mode().String()
		}
		b, err := os.ReadFile(full)
		if err != nil {
			return err.Error()
		}
		if !bytes.Equal(b, f.Content) {
			return fmt.Sprintf("content %s, want %s", vf.Q(b), vf.Q(f.Content))
		}
		if exec := fi.Mode().Perm()&0o100 != 0; exec != (f.Mode == "100755") {
			return fmt.Sprintf("exec bit %v, want mode %s", exec, f.Mode)
		}
	}
	return ""
}

// confirmWithGit lets real git do the equivalent non-cone sparse checkout of the same commit in a fresh
// copy and compares git's skip-worktree partition with the model. Returns "" when git agrees with the model.
func confirmWithGit(c *vf.Ctx, g *gitx.Git, base *twin.Base, op opSpec, model map[string]bool, A string) string {
	if err := twin.CopyTree(base.Dir, A); err != nil {
		return "copy: " + err.Error()
	}
	defer os.RemoveAll(A)
	var pat strings.Builder
	for _, d := range op.Dirs {
		pat.WriteString("/" + d + "/\n")
	}
	os.MkdirAll(filepath.Join(A, ".git", "info"), 0o755)
	if err := os.WriteFile(filepath.Join(A, ".git", "info", "sparse-checkout"), []byte(pat.String()), 0o644); err != nil {
		return err.Error()
	}
	cf, err := os.OpenFile(filepath.Join(A, ".git", "config"), os.O_APPEND|os.O_WRONLY, 0o644)
	if err != nil {
		return err.Error()
	}
	cf.WriteString("[core]\n\tsparseCheckout = true\n\tsparseCheckoutCone = false\n")
	cf.Close()
	if r := g.Run(A, "checkout", "-q", "-f", "--detach", base.IDs[op.Commit]); !r.OK() {
		return "git checkout: " + r.String()
	}
	ents, err := twin.LsFilesT(g, A)
	if err != nil {
		return err.Error()
	}
	seen := 0
	for _, e := range ents {
		want, ok := model[e.Path]
		if !ok {
			return fmt.Sprintf("git tracks %q which the generated tree lacks", e.Path)
		}
		seen++
		gitIn := e.Tag != "S"
		if gitIn != want {
			return fmt.Sprintf("git sparse checkout with patterns %q: %q in-set=%v, model says %v", pat.String(), e.Path, gitIn, want)
		}
		_, lerr := os.Lstat(filepath.Join(A, filepath.FromSlash(e.Path)))
		if (lerr == nil) != want {
			return fmt.Sprintf("git sparse checkout: %q present=%v, model says %v", e.Path, lerr == nil, want)
		}
	}
	if seen != len(model) {
		return fmt.Sprintf("git lists %d entries, model %d", seen, len(model))
	}
	c.Count("git_confirmations", 1)
	return ""
}
