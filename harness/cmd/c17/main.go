// C17: the in-memory storage and the filesystem storage under every option
// combination return the same observable results as an abstract model of a
// repository for any sequence of storage API calls, including error kinds.
//
// Monitor: refmodel.Repo (sequential model) generates the expected normalised
// result of every call of a generated history; the identical history is then
// replayed on memory.NewStorage and on filesystem.NewStorageWithOptions over
// memfs / a real directory under drawn option combinations, and every result
// is compared (listings as sets, errors by kind).
package main

import (
	"fmt"
	"math/rand"
	"os"
	"strings"
	"time"

	"github.com/go-git/go-billy/v6"
	"github.com/go-git/go-billy/v6/memfs"
	"github.com/go-git/go-billy/v6/osfs"
	"github.com/go-git/go-git/v6/plumbing/cache"
	formatcfg "github.com/go-git/go-git/v6/plumbing/format/config"
	"github.com/go-git/go-git/v6/plumbing/format/index"
	"github.com/go-git/go-git/v6/storage"
	"github.com/go-git/go-git/v6/storage/filesystem"
	"github.com/go-git/go-git/v6/storage/memory"

	"verif/internal/refmodel"
	"verif/internal/vf"
)

func main() {
	vf.Main("C17", "exploration",
		"case = generated history of 10-60 storage API calls (objects: set/raw writer/pack/has/size/get typed/iter typed; refs: set/cas right,wrong,absent/get/remove/iter/pack; index, config, shallow, reflog append/read/delete, module storages; 30% of the index/config/shallow/reflog calls are aliasing probes: get or set, edit the returned / passed value in place, get again; reopen of the storage instance and rewrite of the index through a second instance) over a universe of 13 objects, 5 ref names, 5 indexes, 5 configs x object format {sha1, sha256}, replayed on memory storage and on 5 (quick) / 11 (thorough) filesystem storages drawn from {memfs, osfs} x ExclusiveAccess x UseInMemoryIdx x LargeObjectThreshold x small object cache x IndexCache {default, never-caching} ; shape = format + sequence of (op kind, model state of its target); non-trivial = history contains a failing call or a call on something written earlier; oracle = refmodel.Repo",
		run)
}

type backend struct {
	name  string // "memory" or filesystem option string
	isFS  bool
	fs    billy.Filesystem
	st    storage.Storer
	close func()
	// filesystem only: names whose loose ref file was left empty by a failed conditional set
	emptyRef  map[string]bool
	stopped   bool
	coldIndex bool // filesystem: no Index/SetIndex through this instance since it was opened / since the file was rewritten externally
	// filesystem only: open another storage instance with the same / default options on the same files
	open func(sameOptions bool) *filesystem.Storage
	fsst *filesystem.Storage
}

// reopen replaces the storage instance by a fresh one on the same files (cold caches).
func (b *backend) reopen() {
	if !b.isFS {
		return
	}
	_ = b.fsst.Close()
	b.fsst = b.open(true)
	b.st = b.fsst
}

// noCache is an IndexCache that never caches.
type noCache struct{}

func (noCache) Get(time.Time, int64) *index.Index  { return nil }
func (noCache) Set(*index.Index, time.Time, int64) {}
func (noCache) Clear()                             {}

type fsOpt struct {
	osfs, excl, memidx bool
	large              int64
	cache              int64
	noIdxCache         bool
}

func (o fsOpt) String() string {
	var p []string
	if o.osfs {
		p = append(p, "osfs")
	} else {
		p = append(p, "memfs")
	}
	if o.excl {
		p = append(p, "excl")
	}
	if o.memidx {
		p = append(p, "memidx")
	}
	if o.large > 0 {
		p = append(p, fmt.Sprintf("large%d", o.large))
	}
	if o.cache > 0 {
		p = append(p, fmt.Sprintf("cache%d", o.cache))
	}
	if o.noIdxCache {
		p = append(p, "noidxcache")
	}
	return "filesystem[" + strings.Join(p, ",") + "]"
}

func newFS(c *vf.Ctx, idx int, format string, o fsOpt) *backend {
	b := &backend{name: o.String(), isFS: true, emptyRef: map[string]bool{}}
	dir := ""
	if o.osfs {
		dir = c.TempDir(fmt.Sprintf("c17-%d", idx))
		b.fs = osfs.New(dir)
	} else {
		b.fs = memfs.New()
	}
	of := formatcfg.SHA1
	if format == "sha256" {
		of = formatcfg.SHA256
	}
	b.open = func(same bool) *filesystem.Storage {
		var oc cache.Object
		if same && o.cache > 0 {
			oc = cache.NewObjectLRU(cache.FileSize(o.cache))
		} else {
			oc = cache.NewObjectLRUDefault()
		}
		opts := filesystem.Options{ObjectFormat: of}
		if same {
			opts = filesystem.Options{ExclusiveAccess: o.excl, UseInMemoryIdx: o.memidx, LargeObjectThreshold: o.large, ObjectFormat: of}
			if o.noIdxCache {
				opts.IndexCache = noCache{}
			}
		}
		return filesystem.NewStorageWithOptions(b.fs, oc, opts)
	}
	st := b.open(true)
	c.Must(st.Init(), "init filesystem storage")
	if format == "sha256" {
		cfg, err := st.Config()
		c.Must(err, "config")
		cfg.Core.RepositoryFormatVersion = formatcfg.Version1
		cfg.Extensions.ObjectFormat = formatcfg.SHA256
		c.Must(st.SetConfig(cfg), "set sha256 config")
	}
	b.st, b.fsst = st, st
	b.close = func() {
		_ = b.fsst.Close()
		if dir != "" {
			os.RemoveAll(dir)
		}
	}
	return b
}

func newMem(format string) *backend {
	b := &backend{name: "memory", close: func() {}}
	if format == "sha256" {
		b.st = memory.NewStorage(memory.WithObjectFormat(formatcfg.SHA256))
	} else {
		b.st = memory.NewStorage()
	}
	return b
}

type step struct {
	op    refmodel.Op
	want  refmodel.Res
	state string
	after *refmodel.Repo // model after the op (aliasing probes only: used to restore a backend the probe polluted)
}

// probeAPI names the storage API an aliasing probe exercises.
var probeAPI = map[string]string{
	"idx.getmut": "Index", "idx.setmut": "SetIndex", "cfg.getmut": "Config", "cfg.setmut": "SetConfig",
	"sh.getmut": "Shallow", "sh.setmut": "SetShallow", "rl.getmut": "Reflog", "rl.appendmut": "AppendReflog",
}

// modelState describes the op's target in the model before the op (for keys and shapes).
func modelState(m *refmodel.Repo, op refmodel.Op) string {
	sub := strings.SplitN(op.K, ".", 2)[0]
	switch sub {
	case "mod":
		return m.Format.String()
	case "obj":
		if op.K == "obj.iter" || op.K == "obj.pack" {
			return ""
		}
		if m.Objs[op.I] {
			return "present"
		}
		return "absent"
	case "ref":
		name := op.Name
		if op.Val != nil {
			name = op.Val.Name
		}
		if name == "" {
			return ""
		}
		cur, ok := m.Refs[name]
		switch {
		case !ok:
			return "absent"
		case cur.Sym:
			return "symbolic"
		}
		return "present"
	case "rl":
		if len(m.Reflog[op.Name]) == 0 {
			return "empty"
		}
		return "present"
	}
	return ""
}

func keyOf(class string, s step) string {
	k := class + ":" + s.op.K
	if s.state != "" {
		k += ":" + s.state
	}
	return k
}

type caseT struct {
	c      *vf.Ctx
	r      *rand.Rand
	idx    int
	format string
	u      *refmodel.Universe
	steps  []step
	feat   map[string]bool
}

func (k *caseT) dump(b *backend, upto int, extra map[string]any) map[string]any {
	var ops []string
	for i := 0; i <= upto && i < len(k.steps); i++ {
		ops = append(ops, k.steps[i].op.String()+" => "+k.steps[i].want.String())
	}
	m := map[string]any{"case": k.idx, "format": k.format, "backend": b.name, "features": k.feat, "ops_with_expected": ops}
	for a, v := range extra {
		m[a] = v
	}
	return m
}

func exec(st storage.Storer, u *refmodel.Universe, op refmodel.Op) refmodel.Res {
	var res refmodel.Res
	if p, stk := vf.Catch(func() { res = refmodel.Exec(st, u, op) }); p != nil {
		return refmodel.Res{Kind: "panic", Detail: fmt.Sprintf("%v\n%s", p, stk)}
	}
	return res
}

type mismatch struct {
	b    *backend
	i    int
	got  refmodel.Res
	note string
}

func (k *caseT) replay(b *backend) []mismatch {
	var out []mismatch
	for i, s := range k.steps {
		var got refmodel.Res
		switch s.op.K {
		case "reopen":
			b.reopen()
			got = refmodel.Res{Kind: "ok"}
		case "idx.ext":
			// the index is rewritten from outside this storage instance (another instance on the same files)
			if b.isFS {
				other := b.open(false)
				got = exec(other, k.u, refmodel.Op{K: "idx.set", I: s.op.I})
				_ = other.Close()
			} else {
				got = exec(b.st, k.u, refmodel.Op{K: "idx.set", I: s.op.I})
			}
		default:
			got = exec(b.st, k.u, s.op)
		}
		if _, isProbe := probeAPI[s.op.K]; isProbe {
			k.c.Count("aliasing_probes", 1)
			if b.isFS {
				k.c.Count("aliasing_probes_fs", 1)
				if s.op.K == "idx.getmut" && b.coldIndex {
					k.c.Count("index_probes_on_cold_cache", 1)
				}
			}
		}
		if b.isFS {
			switch s.op.K {
			case "reopen", "idx.ext":
				b.coldIndex = true
			case "idx.get", "idx.getmut", "idx.set", "idx.setmut":
				b.coldIndex = false
			}
		}
		k.c.Count("results_compared", 1)
		if b.isFS {
			k.c.Count("results_compared_fs", 1)
		}
		note := ""
		if b.isFS && s.op.K == "ref.cas" && got.Kind != "ok" {
			// did the failed conditional set leave an empty loose file behind? (diagnosis for the key only)
			if fi, err := b.fs.Stat(s.op.Val.Name); err == nil && fi.Size() == 0 {
				b.emptyRef[s.op.Val.Name] = true
			}
		}
		if b.isFS && (s.op.K == "ref.set" || s.op.K == "ref.rm" || (s.op.K == "ref.cas" && got.Kind == "ok")) {
			n := s.op.Name
			if s.op.Val != nil {
				n = s.op.Val.Name
			}
			delete(b.emptyRef, n)
		}
		if got.Key() == s.want.Key() {
			continue
		}
		if b.isFS && len(b.emptyRef) > 0 && (s.op.K == "ref.iter" || s.op.K == "ref.pack") && got.Kind == "other" && strings.Contains(got.Detail, "ref file is empty") {
			note = "empty-loose-ref-left-by-failed-cas"
		}
		out = append(out, mismatch{b: b, i: i, got: got, note: note})
		if _, isProbe := probeAPI[s.op.K]; isProbe && s.after != nil && got.Kind == "ok" {
			// the caller's edit leaked into the storage: put the model's value back and go on
			var rerr error
			if p, _ := vf.Catch(func() { rerr = refmodel.Restore(b.st, k.u, s.after, strings.SplitN(s.op.K, ".", 2)[0]) }); p == nil && rerr == nil {
				continue
			}
		}
		if s.op.IsWrite() && note == "" {
			b.stopped = true // the backend's state may now differ from the model
			k.c.Count("replays_stopped_after_write_mismatch", 1)
			break
		}
	}
	return out
}

func (k *caseT) run(nFS int) {
	c := k.c
	// 1. generate the history against the model
	m := refmodel.NewRepo(k.u)
	g := refmodel.GenOpts{
		Subsystems: []string{"obj", "obj", "obj", "ref", "ref", "ref", "idx", "cfg", "sh", "rl", "mod"},
		Pack:       true, Raw: true, PackRefs: k.feat["pack_refs"], CasAbsent: k.feat["cas_absent"], SymHEAD: true, ShallowEmpty: true, WriteBias: 50,
		Alias: 30, Reopen: true,
	}
	n := 10 + k.r.Intn(51)
	nontrivial := false
	var shape []string
	for i := 0; i < n; i++ {
		op := refmodel.GenOp(k.r, k.u, m, g)
		st := modelState(m, op)
		want := m.Exec(k.u, op)
		sp := step{op: op, want: want, state: st}
		if _, isProbe := probeAPI[op.K]; isProbe {
			sp.after = m.Clone()
		}
		k.steps = append(k.steps, sp)
		shape = append(shape, op.K+":"+st+":"+want.Kind)
		c.Seen("op_x_state_x_kind", op.K+":"+st+":"+want.Kind)
		if want.Kind != "ok" || st == "present" || st == "symbolic" {
			nontrivial = true
		}
	}
	// 2. backends
	bs := []*backend{newMem(k.format)}
	for j := 0; j < nFS; j++ {
		o := fsOpt{osfs: k.r.Intn(4) == 0, excl: k.r.Intn(2) == 0, memidx: k.r.Intn(2) == 0,
			large: []int64{0, 64, 1024}[k.r.Intn(3)], cache: []int64{0, 0, 256}[k.r.Intn(3)], noIdxCache: k.r.Intn(3) == 0}
		if j == 0 {
			o = fsOpt{} // the default filesystem storage is always present
		}
		bs = append(bs, newFS(c, k.idx, k.format, o))
		c.Seen("fs_option_combinations", o.String()+"/"+k.format)
	}
	defer func() {
		for _, b := range bs {
			b.close()
		}
	}()
	// 3. replay and compare
	var all []mismatch
	fsFail := map[int]int{} // step -> number of filesystem backends deviating there
	fsRan := map[int]int{}
	for _, b := range bs {
		ms := k.replay(b)
		c.Count("replays", 1)
		all = append(all, ms...)
		last := len(k.steps) - 1
		if b.stopped && len(ms) > 0 {
			last = ms[len(ms)-1].i
		}
		if b.isFS {
			for i := 0; i <= last; i++ {
				fsRan[i]++
			}
			for _, x := range ms {
				fsFail[x.i]++
			}
		}
	}
	for _, x := range all {
		s := k.steps[x.i]
		class := "memory"
		if x.b.isFS {
			class = "filesystem"
			if fsFail[x.i] < fsRan[x.i] {
				class = x.b.name // only some option combinations deviate: name the one
			}
		}
		key := keyOf(class, s)
		if api, isProbe := probeAPI[s.op.K]; isProbe {
			key = "aliasing:" + api + ":" + class
		}
		if x.note != "" {
			key = "filesystem:" + s.op.K + ":" + x.note
		}
		c.Fail(key, fmt.Sprintf("%s: call %d %s returned %s, the model says %s (%s; %d of %d filesystem backends deviate at this call)", x.b.name, x.i+1, s.op, x.got, s.want, k.format, fsFail[x.i], fsRan[x.i]),
			k.dump(x.b, x.i, map[string]any{"got": x.got.String(), "want": s.want.String()}))
	}
	c.Count("cases", 1)
	c.Count("ops", len(k.steps))
	c.Eval(k.format+"|"+vf.ShapeHash(shape), nontrivial)
	if k.idx < 2 {
		c.Sample(k.dump(bs[0], len(k.steps), nil))
	}
}

func run(c *vf.Ctx) {
	n := c.N(300, 2000)
	nFS := c.N(5, 11)
	us := map[string]*refmodel.Universe{"sha1": refmodel.NewUniverse("sha1", c.Rand("universe")), "sha256": refmodel.NewUniverse("sha256", c.Rand("universe"))}
	vf.Parallel(n, 6, func(i int) {
		r := c.Rand("case", i)
		k := &caseT{c: c, r: r, idx: i}
		k.format = []string{"sha1", "sha1", "sha256"}[r.Intn(3)]
		k.u = us[k.format]
		k.feat = map[string]bool{"cas_absent": r.Intn(100) < 50, "pack_refs": r.Intn(100) < 50}
		if p, stk := vf.Catch(func() { k.run(nFS) }); p != nil {
			panic(fmt.Sprintf("%v\n%s", p, stk))
		}
	})
	c.Floor("cases", c.Counter("cases"), n)
	c.Floor("backend replays", c.Counter("replays"), n*(nFS+1))
	c.Floor("results compared with the model", c.Counter("results_compared"), n*(nFS+1)*20)
	c.Floor("filesystem option combinations x format", c.SeenCount("fs_option_combinations"), c.N(60, 120))
	c.Floor("distinct (op, target state, result kind)", c.SeenCount("op_x_state_x_kind"), 45)
	c.Floor("aliasing probes on filesystem backends", c.Counter("aliasing_probes_fs"), n*nFS)
	c.Floor("Index() aliasing probes on a cold index cache (after reopen / external rewrite)", c.Counter("index_probes_on_cold_cache"), n*nFS/25)
	c.Assume("only valid inputs: well-formed objects and packs, safe flat reference names (no nested names, symbolic refs only at HEAD - C15 covers those), configs derived from the stored config; outside the aliasing probes values passed in are fresh and returned values are not mutated")
	c.Assume("listings compared as sets; errors compared by kind (ok / not-found / changed / invalid / other)")
	c.Assume("the model's conditional set on a missing reference answers not-found (the storer contract: old must match the stored value)")
}
