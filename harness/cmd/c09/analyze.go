package main

import (
	"compress/zlib"
	"io"
)

// feat are structural features of a hostile pack found by an independent,
// lenient walk; they identify the root cause behind a disagreement with git
// (finding keys are derived from them, never from the random bytes).
type feat struct {
	UndersizedObject bool // a non-delta entry inflates to fewer bytes than its header declares
	UndersizedDelta  bool // a delta entry inflates to fewer bytes than its header declares
	Oversized        bool // an entry inflates to more bytes than declared
	DeltaTruncated   bool // a delta's instruction stream ends in the middle of an instruction
	DeltaTiny        bool // a delta shorter than git's DELTA_SIZE_MIN (4 bytes)
	DeltaShortTarget bool // a delta's instructions produce fewer/more bytes than its target-size header
	WalkedAll        bool // every announced entry could be located
}

type byteSrc struct {
	b   []byte
	pos int
}

func (s *byteSrc) Read(p []byte) (int, error) {
	if s.pos >= len(s.b) {
		return 0, io.EOF
	}
	p[0] = s.b[s.pos]
	s.pos++
	return 1, nil
}

func (s *byteSrc) ReadByte() (byte, error) {
	if s.pos >= len(s.b) {
		return 0, io.EOF
	}
	c := s.b[s.pos]
	s.pos++
	return c, nil
}

func analyze(data []byte, hs int) feat {
	var f feat
	if len(data) < 12+hs || string(data[:4]) != "PACK" {
		return f
	}
	n := int(uint32(data[8])<<24 | uint32(data[9])<<16 | uint32(data[10])<<8 | uint32(data[11]))
	if n > 1<<20 {
		return f
	}
	s := &byteSrc{b: data[:len(data)-hs], pos: 12}
	for i := 0; i < n; i++ {
		c, err := s.ReadByte()
		if err != nil {
			return f
		}
		typ := int(c>>4) & 7
		size := uint64(c & 15)
		shift := uint(4)
		for c&0x80 != 0 {
			if c, err = s.ReadByte(); err != nil || shift > 60 {
				return f
			}
			size |= uint64(c&0x7f) << shift
			shift += 7
		}
		switch typ {
		case 6:
			for {
				if c, err = s.ReadByte(); err != nil {
					return f
				}
				if c&0x80 == 0 {
					break
				}
			}
		case 7:
			if s.pos+hs > len(s.b) {
				return f
			}
			s.pos += hs
		case 1, 2, 3, 4:
		default:
			return f
		}
		zr, err := zlib.NewReader(s)
		if err != nil {
			return f
		}
		out, err := io.ReadAll(io.LimitReader(zr, 64<<20))
		if err != nil {
			return f
		}
		switch {
		case uint64(len(out)) < size && typ >= 6:
			f.UndersizedDelta = true
		case uint64(len(out)) < size:
			f.UndersizedObject = true
		case uint64(len(out)) > size:
			f.Oversized = true
		}
		if typ >= 6 {
			analyzeDelta(out, &f)
		}
	}
	f.WalkedAll = true
	return f
}

func analyzeDelta(d []byte, f *feat) {
	if len(d) < 4 {
		f.DeltaTiny = true
	}
	pos := 0
	varint := func() (uint64, bool) {
		var v uint64
		var sh uint
		for {
			if pos >= len(d) {
				return 0, false
			}
			c := d[pos]
			pos++
			v |= uint64(c&0x7f) << sh
			sh += 7
			if c&0x80 == 0 {
				return v, true
			}
		}
	}
	if _, ok := varint(); !ok {
		f.DeltaTruncated = true
		return
	}
	target, ok := varint()
	if !ok {
		f.DeltaTruncated = true
		return
	}
	var produced uint64
	for pos < len(d) {
		cmd := d[pos]
		pos++
		switch {
		case cmd&0x80 != 0:
			var sz uint64
			for k := 0; k < 4; k++ {
				if cmd&(1<<k) != 0 {
					if pos >= len(d) {
						f.DeltaTruncated = true
						return
					}
					pos++
				}
			}
			for k := 0; k < 3; k++ {
				if cmd&(0x10<<k) != 0 {
					if pos >= len(d) {
						f.DeltaTruncated = true
						return
					}
					sz |= uint64(d[pos]) << (8 * k)
					pos++
				}
			}
			if sz == 0 {
				sz = 0x10000
			}
			produced += sz
		case cmd != 0:
			if pos+int(cmd) > len(d) {
				f.DeltaTruncated = true
				return
			}
			pos += int(cmd)
			produced += uint64(cmd)
		default:
			return // opcode 0: reserved
		}
	}
	if produced != target {
		f.DeltaShortTarget = true
	}
}
