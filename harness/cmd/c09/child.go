package main

import (
	"bufio"
	"bytes"
	"crypto/sha256"
	"encoding/json"
	"fmt"
	"io"
	"os"
	"path/filepath"
	"runtime/pprof"
	"sort"
	"strings"
	"time"

	billy "github.com/go-git/go-billy/v6"
	"github.com/go-git/go-billy/v6/osfs"
	"github.com/go-git/go-git/v6/plumbing"
	"github.com/go-git/go-git/v6/plumbing/cache"
	"github.com/go-git/go-git/v6/plumbing/format/idxfile"
	"github.com/go-git/go-git/v6/plumbing/format/packfile"
	"github.com/go-git/go-git/v6/plumbing/storer"
	"github.com/go-git/go-git/v6/storage/filesystem"
	"github.com/go-git/go-git/v6/storage/memory"

	"verif/internal/packlab"
	"verif/internal/vf"
)

// modeOut is what one go-git entry point did with one hostile input.
type modeOut struct {
	Acc    bool     `json:"acc"`
	Err    string   `json:"err,omitempty"`
	N      int      `json:"n"`                // objects yielded
	Digest string   `json:"digest,omitempty"` // digest of the sorted yielded ids
	Bad    []string `json:"bad,omitempty"`    // objects whose content does not hash to their name
	Panic  string   `json:"panic,omitempty"`
	Reads  int      `json:"reads,omitempty"` // idxread: successful object reads re-hashed
	Left   int      `json:"left,omitempty"`  // pack-* files left in objects/pack after a rejected PackfileWriter
	LeftTmp int     `json:"left_tmp,omitempty"` // tmp_* files left behind (informational: git ignores and prunes them)
}

type childLine struct {
	N     int                `json:"n"`
	Begin bool               `json:"begin,omitempty"`
	Mode  string             `json:"mode,omitempty"` // with Begin: the mode about to run
	Res   map[string]modeOut `json:"res,omitempty"`
	Hang  string             `json:"hang,omitempty"`
}

func idsDigest(ids []string) string {
	sort.Strings(ids)
	h := sha256.Sum256([]byte(strings.Join(ids, "\n")))
	return fmt.Sprintf("%x", h[:8])
}

// loadSeedPacks reads <dir>/<i>.{pack,idx,rev,meta}.
func loadSeedPacks(dir string) ([]*seedPack, error) {
	var sps []*seedPack
	for i := 0; ; i++ {
		meta, err := os.ReadFile(filepath.Join(dir, fmt.Sprintf("%d.meta", i)))
		if err != nil {
			break
		}
		sp := &seedPack{}
		if err := json.Unmarshal(meta, sp); err != nil {
			return nil, err
		}
		sp.Pack = packlab.ReadFile(filepath.Join(dir, fmt.Sprintf("%d.pack", i)))
		sp.Idx = packlab.ReadFile(filepath.Join(dir, fmt.Sprintf("%d.idx", i)))
		sp.Rev = packlab.ReadFile(filepath.Join(dir, fmt.Sprintf("%d.rev", i)))
		sp.Entries, err = packlab.WalkPack(sp.Pack, sp.hs())
		if err != nil {
			return nil, fmt.Errorf("seed pack %d: %w", i, err)
		}
		ies, err := packlab.ParseIdxV2(sp.Idx, sp.hs())
		if err != nil {
			return nil, err
		}
		sp.IDAt = map[int]string{}
		for _, e := range ies {
			sp.IDAt[int(e.Offset)] = e.ID
		}
		sps = append(sps, sp)
	}
	if len(sps) == 0 {
		return nil, fmt.Errorf("no seed packs in %s", dir)
	}
	return sps, nil
}

func mutFormat(sps []*seedPack, m Mut) string {
	if m.Seed >= 0 {
		return sps[m.Seed].Format
	}
	if m.B == 1 {
		return "sha256"
	}
	return "sha1"
}

// checkStorer re-hashes every object a storer yields; returns ids and the mismatches.
func checkStorer(st storer.EncodedObjectStorer, format string, out *modeOut) {
	it, err := st.IterEncodedObjects(plumbing.AnyObject)
	if err != nil {
		out.Acc, out.Err = false, "iter: "+err.Error()
		return
	}
	defer it.Close()
	var ids []string
	for {
		o, err := it.Next()
		if err == io.EOF {
			break
		}
		if err != nil {
			// an accepted pack whose objects cannot be enumerated: treated as a (late) rejection of that object
			out.Err = "iter-next: " + err.Error()
			break
		}
		id := o.Hash().String()
		ob, err := packlab.ReadObj(o)
		if err != nil {
			out.Err = "read " + id + ": " + err.Error()
			continue
		}
		ids = append(ids, id)
		if got := packlab.HashObj(format, ob.Type, ob.Data); got != id {
			out.Bad = append(out.Bad, fmt.Sprintf("%s yields %s of %d bytes hashing to %s (Size()=%d)", id, ob.Type, len(ob.Data), got, o.Size()))
		}
		// second lookup by id must agree
		if o2, err := st.EncodedObject(plumbing.AnyObject, o.Hash()); err == nil {
			if ob2, err := packlab.ReadObj(o2); err == nil && (ob2.Type != ob.Type || !bytes.Equal(ob2.Data, ob.Data)) {
				out.Bad = append(out.Bad, fmt.Sprintf("%s: EncodedObject and iterator disagree", id))
			}
		}
	}
	out.N = len(ids)
	out.Digest = idsDigest(ids)
}

func runParser(rd io.Reader, format string, st storer.EncodedObjectStorer) modeOut {
	var out modeOut
	w := new(idxfile.Writer)
	opts := []packfile.ParserOption{packfile.WithObjectFormat(packlab.GoFormat(format)), packfile.WithScannerObservers(w)}
	if st != nil {
		opts = append(opts, packfile.WithStorage(st))
	}
	_, err := packfile.NewParser(rd, opts...).Parse()
	if err != nil {
		out.Err = err.Error()
		return out
	}
	out.Acc = true
	if st != nil {
		checkStorer(st, format, &out)
		return out
	}
	mi, err := w.Index()
	if err != nil {
		out.Acc, out.Err = false, "index: "+err.Error()
		return out
	}
	it, _ := mi.Entries()
	var ids []string
	for {
		e, err := it.Next()
		if err != nil {
			break
		}
		ids = append(ids, e.Hash.String())
	}
	out.N, out.Digest = len(ids), idsDigest(ids)
	return out
}

func newFS(dir, format string) *filesystem.Storage {
	return filesystem.NewStorageWithOptions(osfs.New(dir), cache.NewObjectLRUDefault(), filesystem.Options{ObjectFormat: packlab.GoFormat(format)})
}

// streamModes lists the entry points a hostile pack stream is fed to.
var streamModes = []string{"parser-nostorage", "parser-mem-seek", "parser-mem-stream", "fs-packwriter", "fs-parser"}

func runStreamMode(mode string, data []byte, format, tmp string) modeOut {
	switch mode {
	case "parser-nostorage":
		return runParser(bytes.NewReader(data), format, nil)
	case "parser-mem-seek":
		return runParser(bytes.NewReader(data), format, memory.NewStorage(memory.WithObjectFormat(packlab.GoFormat(format))))
	case "parser-mem-stream":
		return runParser(packlab.NonSeekable{R: bytes.NewReader(data)}, format, memory.NewStorage(memory.WithObjectFormat(packlab.GoFormat(format))))
	case "fs-parser":
		dir := scratchRepo(tmp, "fsp", format)
		defer cleanObjects(dir)
		st := newFS(dir, format)
		defer st.Close()
		out := runParser(bytes.NewReader(data), format, st)
		return out
	case "fs-packwriter":
		dir := scratchRepo(tmp, "fsw", format)
		defer cleanObjects(dir)
		st := newFS(dir, format)
		var out modeOut
		err := packfile.UpdateObjectStorage(st, bytes.NewReader(data))
		st.Close()
		if err != nil {
			out.Err = err.Error()
			left, _ := filepath.Glob(filepath.Join(dir, "objects", "pack", "pack-*"))
			out.Left = len(left)
			tmpf, _ := filepath.Glob(filepath.Join(dir, "objects", "pack", "tmp_*"))
			out.LeftTmp = len(tmpf)
			return out
		}
		out.Acc = true
		st2 := newFS(dir, format)
		defer st2.Close()
		checkStorer(st2, format, &out)
		return out
	}
	panic("mode " + mode)
}

// idxread: the corrupted pack sits next to git's (valid) idx/rev; every id of the idx is read back.
var idxModes = []string{"storage", "storage-inmem-idx", "packfile-mem", "packfile-fs"}

// scratchRepo returns a reusable empty bare repository of the format.
func scratchRepo(tmp, name, format string) string {
	dir := filepath.Join(tmp, name+"-"+format)
	if _, err := os.Stat(filepath.Join(dir, "HEAD")); err != nil {
		packlab.MakeBare(dir, format)
	}
	return dir
}

// cleanObjects empties objects/ of a scratch repository.
func cleanObjects(dir string) {
	ents, _ := os.ReadDir(filepath.Join(dir, "objects"))
	for _, e := range ents {
		p := filepath.Join(dir, "objects", e.Name())
		if e.Name() == "pack" || e.Name() == "info" {
			sub, _ := os.ReadDir(p)
			for _, s := range sub {
				os.RemoveAll(filepath.Join(p, s.Name()))
			}
			continue
		}
		os.RemoveAll(p)
	}
}

// prepareIdxRead writes the corrupted pack next to git's idx/rev (once per input).
func prepareIdxRead(sp *seedPack, data []byte, tmp string) string {
	dir := scratchRepo(tmp, "idxr", sp.Format)
	cleanObjects(dir)
	name := fmt.Sprintf("%x", sp.Pack[len(sp.Pack)-sp.hs():])
	base := filepath.Join(dir, "objects", "pack", "pack-"+name)
	os.WriteFile(base+".pack", data, 0o644)
	os.WriteFile(base+".idx", sp.Idx, 0o644)
	os.WriteFile(base+".rev", sp.Rev, 0o644)
	return dir
}

func runIdxMode(mode string, sp *seedPack, dir string) modeOut {
	var out modeOut
	name := fmt.Sprintf("%x", sp.Pack[len(sp.Pack)-sp.hs():])
	base := filepath.Join(dir, "objects", "pack", "pack-"+name)
	check := func(id string, o plumbing.EncodedObject, err error) {
		if err != nil {
			return
		}
		ob, err := packlab.ReadObj(o)
		if err != nil {
			return
		}
		out.Reads++
		if got := packlab.HashObj(sp.Format, ob.Type, ob.Data); got != id || o.Hash().String() != id {
			out.Bad = append(out.Bad, fmt.Sprintf("%s read as %s of %d bytes hashing to %s (Hash()=%s)", id, ob.Type, len(ob.Data), got, o.Hash()))
		}
	}
	ids := make([]string, 0, len(sp.IDAt))
	for _, id := range sp.IDAt {
		ids = append(ids, id)
	}
	sort.Strings(ids)
	out.Acc = true
	switch mode {
	case "storage", "storage-inmem-idx":
		st := filesystem.NewStorageWithOptions(osfs.New(dir), cache.NewObjectLRUDefault(), filesystem.Options{UseInMemoryIdx: mode == "storage-inmem-idx"})
		defer st.Close()
		for _, id := range ids {
			o, err := st.EncodedObject(plumbing.AnyObject, plumbing.NewHash(id))
			check(id, o, err)
		}
	case "packfile-mem", "packfile-fs":
		fs := osfs.New(dir)
		f, err := fs.Open(filepath.Join("objects", "pack", "pack-"+name+".pack"))
		if err != nil {
			out.Err = err.Error()
			return out
		}
		mi := idxfile.NewMemoryIndex(sp.hs())
		idxF, err := os.Open(base + ".idx")
		if err != nil {
			out.Err = err.Error()
			return out
		}
		err = idxfile.NewDecoder(idxF, packlab.NewHash(sp.Format)).Decode(mi)
		idxF.Close()
		if err != nil {
			out.Err = "idx decode: " + err.Error()
			return out
		}
		opts := []packfile.PackfileOption{packfile.WithIdx(mi), packfile.WithObjectIDSize(sp.hs())}
		if mode == "packfile-fs" {
			opts = append(opts, packfile.WithFs(billy.Filesystem(fs)))
		}
		p := packfile.NewPackfile(f, opts...)
		defer p.Close()
		for k, id := range ids {
			var o plumbing.EncodedObject
			var err error
			if k%2 == 0 {
				o, err = p.Get(plumbing.NewHash(id))
			} else {
				var off int64
				if off, err = mi.FindOffset(plumbing.NewHash(id)); err == nil {
					o, err = p.GetByOffset(off)
				}
			}
			check(id, o, err)
		}
	}
	return out
}

// childMain evaluates one batch; it never touches vf's evidence.
func childMain() {
	batch := os.Getenv("C09_CHILD")
	sps, err := loadSeedPacks(os.Getenv("C09_DIR"))
	if err != nil {
		fmt.Fprintln(os.Stderr, "child: ", err)
		os.Exit(3)
	}
	var muts []Mut
	if err := json.Unmarshal(packlab.ReadFile(batch), &muts); err != nil {
		fmt.Fprintln(os.Stderr, "child: ", err)
		os.Exit(3)
	}
	outF, err := os.OpenFile(os.Getenv("C09_OUT"), os.O_CREATE|os.O_WRONLY|os.O_APPEND, 0o644)
	if err != nil {
		fmt.Fprintln(os.Stderr, "child: ", err)
		os.Exit(3)
	}
	bw := bufio.NewWriter(outF)
	emit := func(l childLine) {
		b, _ := json.Marshal(l)
		bw.Write(b)
		bw.WriteByte('\n')
		bw.Flush()
	}
	tmp := os.Getenv("C09_TMP")
	os.MkdirAll(tmp, 0o755)
	if pf := os.Getenv("C09_PROF"); pf != "" { // debugging aid only
		f, _ := os.Create(pf)
		pprof.StartCPUProfile(f)
		defer pprof.StopCPUProfile()
	}
	for _, m := range muts {
		data := Apply(sps, m)
		format := mutFormat(sps, m)
		res := map[string]modeOut{}
		modes := streamModes
		idxDir := ""
		if m.Kind == "idxread" {
			modes = idxModes
			idxDir = prepareIdxRead(sps[m.Seed], data, tmp)
		}
		for _, mode := range modes {
			if mode == "fs-parser" && m.N%8 != 0 {
				continue // loose-object writes are slow: one input in eight
			}
			emit(childLine{N: m.N, Begin: true, Mode: mode})
			done := make(chan modeOut, 1)
			go func() {
				var mo modeOut
				if p, st := vf.Catch(func() {
					if m.Kind == "idxread" {
						mo = runIdxMode(mode, sps[m.Seed], idxDir)
					} else {
						mo = runStreamMode(mode, data, format, tmp)
					}
				}); p != nil {
					mo = modeOut{Panic: fmt.Sprintf("%v\n%s", p, firstFrames(st))}
				}
				done <- mo
			}()
			select {
			case mo := <-done:
				res[mode] = mo
			case <-time.After(300 * time.Second):
				emit(childLine{N: m.N, Hang: mode})
				os.Exit(4)
			}
		}
		emit(childLine{N: m.N, Res: res})
	}
	bw.Flush()
	outF.Close()
	pprof.StopCPUProfile()
	os.Exit(0)
}

// firstFrames keeps the go-git frames of a panic stack (site identification).
func firstFrames(stack string) string {
	var keep []string
	for _, ln := range strings.Split(stack, "\n") {
		if strings.Contains(ln, "go-git/v6/") && !strings.Contains(ln, "/verif/") {
			keep = append(keep, strings.TrimSpace(ln))
			if len(keep) >= 6 {
				break
			}
		}
	}
	return strings.Join(keep, "\n")
}
