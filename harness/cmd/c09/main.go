// C09: corrupt or malicious packs never yield wrong objects; what git rejects
// structurally, go-git rejects too.
//
// Monitor: invariant (independent re-hash of every object go-git yields, with
// the standard library's sha1/sha256) + reference implementation (`git
// index-pack --stdin` exit status on the same bytes, asked for every input
// that any go-git entry point accepts and for a deterministic sample of the
// rejected ones). Hostile inputs are evaluated in child processes (a crash or
// fatal error of go-git is classified, not suffered).
package main

import (
	"bufio"
	"encoding/json"
	"fmt"
	"os"
	"os/exec"
	"path/filepath"
	"sort"
	"strings"
	"sync"

	"verif/internal/gitx"
	"verif/internal/packlab"
	"verif/internal/vf"
)

func main() {
	if os.Getenv("C09_CHILD") != "" {
		childMain()
		return
	}
	vf.Main("C09", "exploration",
		"inputs = mutations of git-made packs (every bit of every entry header / ofs offset byte, sampled ref-base / zlib / payload / delta-payload / trailer bits, truncation at every entry boundary -1/0/+1 and inside headers, declared size +-k with the stream kept, type rewrites, ofs distance 0 / to pack start / beyond start / mid-entry / other entry, ref base zero / random / self / descendant, entry swap / drop / duplicate, count +-k, junk between entries, trailing garbage, zero trailer, version) with the trailer recomputed (so that structure, not the checksum, decides) or not, plus hand-built packs (inflated length shorter/longer than declared for objects and deltas, delta base/target size lies, copy out of bounds, truncated / empty / opcode-0 deltas, dangling and mutually referencing ref-deltas, child-before-base orders, ofs and ref chains of depth 50..4097, huge counts and sizes, varint overflows) for sha1 and sha256; each input goes to 5 parser entry points, payload corruptions additionally to 4 read paths over git's valid idx; shape = (mutation class, format, accept/reject pattern over the entry points, git verdict); non-trivial = the input differs from a valid pack",
		run)
}

const nBatches = 12

type result struct {
	res  map[string]modeOut
	dead     string // child died: crash site ("<fatal error> @ <innermost go-git function>")
	deadMode string
	hang string
}

func run(c *vf.Ctx) {
	g := gitx.New(c.Scratch)
	dir := filepath.Join(c.Scratch, "seedpacks")
	os.MkdirAll(dir, 0o755)
	if err := makeSeedPacks(c, g, dir); err != nil {
		c.Broken("seed packs: %v", err)
		return
	}
	sps, err := loadSeedPacks(dir)
	if err != nil {
		c.Broken("load seed packs: %v", err)
		return
	}
	muts := generate(c, sps)
	c.Extra("inputs_generated", len(muts))

	// ---- go-git side, in children
	batches := make([][]Mut, nBatches)
	for i, m := range muts {
		batches[i%nBatches] = append(batches[i%nBatches], m)
	}
	results := make([]result, len(muts))
	var mu sync.Mutex
	vf.Parallel(nBatches, 6, func(b int) {
		rs := runBatch(c, dir, b, batches[b])
		mu.Lock()
		for n, r := range rs {
			results[n] = r
		}
		mu.Unlock()
	})

	// ---- classify, decide which inputs need git's verdict
	type gitJob struct {
		m        Mut
		accepted []string // go-git modes that accepted (empty: sampled rejection)
	}
	var jobs []gitJob
	for _, m := range muts {
		r := results[m.N]
		class := m.Class(sps)
		format := mutFormat(sps, m)
		c.Seen("classes", class)
		if r.hang != "" {
			c.Inconclusive("go-git did not finish within 300 s on input %d (%s) in mode %s", m.N, class, r.hang)
			continue
		}
		if r.dead != "" {
			c.Count("child_deaths", 1)
			c.Fail("crash:"+r.dead, fmt.Sprintf("the process died (fatal error / unrecovered panic in a go-git goroutine: %s) while mode %s processed input %s", r.dead, r.deadMode, describe(m, class)), m)
			continue
		}
		if r.res == nil {
			c.Broken("no result for input %d (%s)", m.N, class)
			continue
		}
		var acc []string
		pattern := ""
		modes := streamModes
		if m.Kind == "idxread" {
			modes = idxModes
		}
		for _, mode := range modes {
			mo, ok := r.res[mode]
			if !ok {
				pattern += "-"
				continue
			}
			c.Count("mode_runs", 1)
			if mo.Panic != "" {
				c.Fail("panic:"+panicSite(mo.Panic)+":"+mode, fmt.Sprintf("go-git panics in mode %s on %s: %s", mode, describe(m, class), mo.Panic), m)
				pattern += "P"
				continue
			}
			c.Count("objects_rehashed", mo.N+mo.Reads)
			if len(mo.Bad) > 0 {
				key := "wrong-object:" + mode + ":" + class
				if m.Kind == "idxread" {
					key = "idxread-wrong-object:" + mode + ":" + class
				} else if ft := analyze(Apply(sps, m), packlab.HashSize(format)); ft.UndersizedObject && allUndersizedNames(mo.Bad) {
					key = "undersized-object:named-by-declared-size"
				}
				c.Fail(key, fmt.Sprintf("mode %s yields an object whose content does not hash to its name on %s: %s", mode, describe(m, class), strings.Join(mo.Bad, "; ")), m)
			}
			if m.Kind == "idxread" {
				c.Count("idxread_reads", mo.Reads)
				pattern += "r"
				continue
			}
			if mo.Acc {
				acc = append(acc, mode)
				pattern += "A"
			} else {
				pattern += "R"
				if mo.Left > 0 {
					c.Fail("rejected-pack-stays-visible:"+class, fmt.Sprintf("PackfileWriter rejected %s but left %d pack-* files in objects/pack", describe(m, class), mo.Left), m)
				}
				c.Count("rejected_packwriter_tmp_files_left", mo.LeftTmp)
			}
		}
		if m.Kind == "idxread" {
			c.Eval(class+"|"+format+"|idxread", true)
			continue
		}
		if len(acc) > 0 {
			c.Count("accepted_by_some_mode", 1)
			// quick tier: inputs whose only oddity is an entry inflating to less than declared (one known root cause,
			// several hundred inputs) are confirmed with git one time in three; everything else always
			if ft := analyze(Apply(sps, m), packlab.HashSize(format)); c.Quick() && (ft.UndersizedObject || ft.UndersizedDelta) && m.N%3 != 0 {
				c.Count("accepted_undersized_not_sent_to_git", 1)
			} else {
				jobs = append(jobs, gitJob{m, acc})
			}
		} else {
			c.Count("rejected_by_all_modes", 1)
			if m.N%20 == 0 || m.Op == "none" || strings.HasPrefix(m.Op, "hand:") {
				jobs = append(jobs, gitJob{m, nil})
			}
		}
		c.Eval(class+"|"+format+"|"+pattern, m.Op != "none" && m.Op != "hand:valid")
	}

	// ---- git's verdict on the same bytes
	vf.Parallel(len(jobs), 6, func(k int) {
		j := jobs[k]
		m := j.m
		class := m.Class(sps)
		format := mutFormat(sps, m)
		data := Apply(sps, m)
		work := filepath.Join(c.Scratch, fmt.Sprintf("git%d", m.N))
		defer os.RemoveAll(work)
		if err := packlab.MakeBare(work, format); err != nil {
			c.Broken("mkbare: %v", err)
			return
		}
		res := g.RunIn(work, data, "index-pack", "--stdin")
		for try := 0; try < 3 && res.Code < 0 && !res.Timeout; try++ { // could not start git (machine under load): retry
			res = g.RunIn(work, data, "index-pack", "--stdin")
		}
		if res.Timeout || res.Code < 0 {
			c.Inconclusive("git index-pack did not finish on input %d (%s): %s", m.N, class, res)
			return
		}
		c.Count("git_confirmations", 1)
		gitOK := res.OK()
		mustAccept := m.Op == "none" || m.Op == "hand:valid"
		if mustAccept && !gitOK {
			c.Broken("git rejects a control pack (%s): %s", class, res)
			return
		}
		if len(j.accepted) == 0 {
			if gitOK {
				c.Count("gogit_stricter_than_git", 1)
				c.Seen("stricter_classes", class)
				if mustAccept {
					c.Fail("rejects-valid-control:"+class, "every go-git entry point rejects an unmodified valid pack "+describe(m, class), m)
				}
			} else {
				c.Count("both_reject", 1)
			}
			return
		}
		r := results[m.N]
		if !gitOK {
			reason := gitReason(string(res.Err))
			c.Seen("git_reject_reasons", reason)
			c.Count("accepts_git_rejects", 1)
			ft := analyze(data, packlab.HashSize(format))
			for _, mode := range j.accepted {
				key := "accepts-what-git-rejects:" + mode + ":" + class
				switch {
				case ft.UndersizedObject:
					key = "accepts-what-git-rejects:undersized-object"
				case ft.UndersizedDelta:
					key = "accepts-what-git-rejects:undersized-delta"
				case ft.DeltaTruncated && ft.WalkedAll:
					key = "accepts-what-git-rejects:delta-instruction-truncated"
				case ft.DeltaTiny && ft.WalkedAll && !ft.DeltaShortTarget:
					key = "accepts-what-git-rejects:delta-shorter-than-4-bytes"
				case m.Op == "dupentry" && strings.Contains(reason, "already resolved"):
					key = "accepts-what-git-rejects:duplicated-ref-delta-base"
				}
				c.Fail(key, fmt.Sprintf("mode %s accepts %s (yielding %d objects); git index-pack --stdin rejects the same bytes: %s", mode, describe(m, class), r.res[mode].N, strings.TrimSpace(string(res.Err))), m)
			}
			return
		}
		c.Count("both_accept", 1)
		// same object set?
		// with --stdin git copies whatever follows the pack to stdout: only the first line is the report
		f := strings.Fields(firstLine(string(res.Out)))
		if len(f) != 2 {
			c.Broken("index-pack output %q", firstLine(string(res.Out)))
			return
		}
		idx, err := os.ReadFile(filepath.Join(work, "objects", "pack", "pack-"+f[1]+".idx"))
		if err != nil {
			c.Broken("git idx: %v", err)
			return
		}
		ies, err := packlab.ParseIdxV2(idx, packlab.HashSize(format))
		if err != nil {
			c.Broken("git idx: %v", err)
			return
		}
		seen := map[string]bool{}
		var ids []string
		for _, e := range ies {
			if !seen[e.ID] {
				seen[e.ID] = true
				ids = append(ids, e.ID)
			}
		}
		want := idsDigest(ids)
		for _, mode := range j.accepted {
			mo := r.res[mode]
			if mo.Digest != want {
				c.Fail("accepted-set-differs:"+mode+":"+class,
					fmt.Sprintf("mode %s and git both accept %s but go-git yields %d objects (digest %s), git indexes %d (digest %s); go-git err=%q", mode, describe(m, class), mo.N, mo.Digest, len(ids), want, mo.Err), m)
			}
		}
		if len(j.accepted) < countModes(r) {
			c.Count("accepted_by_git_rejected_by_some_gogit_mode", 1)
		}
		if m.N%97 == 0 {
			c.Sample(map[string]any{"input": describe(m, class), "bytes": len(data), "gogit_modes_accepting": j.accepted, "git_accepts": gitOK, "objects": len(ids)})
		}
	})

	c.Extra("git_invocations", gitx.Calls.Load())
	c.Floor("hostile inputs evaluated", c.Counter("accepted_by_some_mode")+c.Counter("rejected_by_all_modes")+c.Counter("idxread_inputs"), c.N(1400, 7000))
	c.Floor("entry-point runs", c.Counter("mode_runs"), c.N(5500, 28000))
	c.Floor("mutation classes", c.SeenCount("classes"), c.N(60, 70))
	c.Floor("inputs accepted by go-git and checked against git", c.Counter("both_accept")+c.Counter("accepts_git_rejects"), c.N(150, 600))
	c.Floor("objects re-hashed independently", c.Counter("objects_rehashed"), c.N(10000, 100000))
	c.Floor("git verdicts", c.Counter("git_confirmations"), c.N(250, 900))
	c.Floor("reads through git's idx over corrupted packs", c.Counter("idxread_reads"), c.N(2000, 40000))
	c.Floor("children completed", c.Counter("children_ok"), nBatches)
	c.Assume("git 2.39.5 `index-pack --stdin` (no --strict, no fsck) is the structural acceptor: it checks signature/version, entry types, inflation and declared sizes, delta offsets/bases and application, completeness (no unresolved deltas), object count and trailer; trailing bytes after the trailer are ignored by both sides on a stream")
	c.Assume("go-git may be stricter than git (e.g. delta chain depth > 4095, duplicated REF_DELTA bases); such inputs are counted, not reported")
	c.Assume("an object is 'yielded' when an accepting entry point exposes it through the storage (iterator / EncodedObject) or, for the idx read paths, returns it from a read; objects left in a storage by a Parser call that returned an error are not counted as yielded")
}

func countModes(r result) int { return len(r.res) }

// allUndersizedNames: every mismatch is of the form "Size() larger than the bytes read" (name computed over the declared size).
func allUndersizedNames(bad []string) bool {
	for _, b := range bad {
		var id, typ, got string
		var n, sz int64
		if _, err := fmt.Sscanf(b, "%s yields %s of %d bytes hashing to %s (Size()=%d)", &id, &typ, &n, &got, &sz); err != nil || sz <= n {
			return false
		}
	}
	return true
}

func describe(m Mut, class string) string {
	b, _ := json.Marshal(m)
	return class + " " + string(b)
}

// panicSite extracts the innermost go-git function of a panic stack.
func panicSite(p string) string {
	for _, ln := range strings.Split(p, "\n")[1:] {
		if i := strings.Index(ln, "go-git/v6/"); i >= 0 {
			s := ln[i+len("go-git/v6/"):]
			if j := strings.LastIndex(s, "("); j > 0 {
				s = s[:j]
			}
			return s
		}
	}
	return "unknown"
}

// gitReason reduces git's stderr to its message class.
func gitReason(s string) string {
	s = strings.TrimSpace(s)
	if i := strings.Index(s, "\n"); i > 0 {
		s = s[:i]
	}
	s = strings.TrimPrefix(s, "fatal: ")
	s = strings.TrimPrefix(s, "error: ")
	out := strings.Map(func(r rune) rune {
		if r >= '0' && r <= '9' {
			return -1
		}
		return r
	}, s)
	if len(out) > 50 {
		out = out[:50]
	}
	return out
}

// runBatch runs one batch in child processes, restarting after a death.
func runBatch(c *vf.Ctx, dir string, b int, muts []Mut) map[int]result {
	out := map[int]result{}
	remaining := muts
	for attempt := 0; len(remaining) > 0; attempt++ {
		bf := filepath.Join(c.Scratch, fmt.Sprintf("batch-%d-%d.json", b, attempt))
		of := filepath.Join(c.Scratch, fmt.Sprintf("out-%d-%d.jsonl", b, attempt))
		js, _ := json.Marshal(remaining)
		os.WriteFile(bf, js, 0o644)
		cmd := exec.Command(os.Args[0])
		cmd.Env = append(os.Environ(), "C09_CHILD="+bf, "C09_DIR="+dir, "C09_OUT="+of, "C09_TMP="+filepath.Join(c.Scratch, fmt.Sprintf("childtmp-%d", b)))
		stderr, _ := os.Create(of + ".stderr")
		cmd.Stderr = stderr
		cmd.Stdout = stderr
		err := cmd.Run()
		stderr.Close()
		// read what the child reported
		f, ferr := os.Open(of)
		lastBegin, lastMode := -1, ""
		done := map[int]bool{}
		if ferr == nil {
			sc := bufio.NewScanner(f)
			sc.Buffer(make([]byte, 1<<20), 64<<20)
			for sc.Scan() {
				var l childLine
				if json.Unmarshal(sc.Bytes(), &l) != nil {
					continue
				}
				switch {
				case l.Begin:
					lastBegin, lastMode = l.N, l.Mode
				case l.Hang != "":
					out[l.N] = result{hang: l.Hang}
					done[l.N] = true
				case l.Res != nil:
					out[l.N] = result{res: l.Res}
					done[l.N] = true
				}
			}
			f.Close()
		}
		if err == nil {
			c.Count("children_ok", 1)
			break
		}
		// the child died: the input in flight is the culprit
		if lastBegin >= 0 && !done[lastBegin] {
			tail, _ := os.ReadFile(of + ".stderr")
			out[lastBegin] = result{dead: crashSite(string(tail)), deadMode: lastMode}
			done[lastBegin] = true
		} else if lastBegin < 0 {
			c.Broken("child %d died before starting: %v", b, err)
			break
		}
		var rest []Mut
		for _, m := range remaining {
			if !done[m.N] {
				rest = append(rest, m)
			}
		}
		if len(rest) == len(remaining) {
			c.Broken("child %d made no progress: %v", b, err)
			break
		}
		remaining = rest
		if len(remaining) == 0 {
			c.Count("children_ok", 1)
		}
		if attempt > 20 {
			c.Broken("child %d keeps dying", b)
			break
		}
	}
	return out
}

// crashSite reduces a Go crash report to "<first line> @ <innermost go-git function>".
func crashSite(stderr string) string {
	what := strings.TrimPrefix(firstLine(stderr), "fatal error: ")
	what = strings.TrimPrefix(what, "runtime: ")
	if strings.HasPrefix(what, "panic: ") {
		what = "panic"
	}
	site := "unknown"
	for _, ln := range strings.Split(stderr, "\n") {
		if i := strings.Index(ln, "github.com/go-git/go-git/v6/"); i == 0 {
			s := ln[len("github.com/go-git/go-git/v6/"):]
			if j := strings.LastIndex(s, "("); j > 0 {
				s = s[:j]
			}
			site = s
			break
		}
	}
	return strings.ReplaceAll(what, " ", "-") + "@" + site
}

func firstLine(s string) string {
	for _, ln := range strings.SplitN(s, "\n", 8) {
		ln = strings.TrimSpace(ln)
		if ln != "" {
			if len(ln) > 100 {
				ln = ln[:100]
			}
			return ln
		}
	}
	return ""
}

// makeSeedPacks builds small valid packs with git.
func makeSeedPacks(c *vf.Ctx, g *gitx.Git, dir string) error {
	type spec struct {
		name, format string
		args         []string
	}
	specs := []spec{
		{"ofs-sha1", "sha1", []string{"--delta-base-offset", "--window=10", "--depth=50"}},
		{"ref-sha1", "sha1", []string{"--window=10", "--depth=50"}},
		{"ofs-sha256", "sha256", []string{"--delta-base-offset", "--window=10", "--depth=50"}},
		{"ref-sha256", "sha256", []string{"--window=5", "--depth=3"}},
		{"nodelta-sha1", "sha1", []string{"--window=0"}},
	}
	if !c.Quick() {
		specs = append(specs, spec{"ofs2-sha1", "sha1", []string{"--delta-base-offset", "--window=50", "--depth=4095"}},
			spec{"ref2-sha256", "sha256", []string{"--window=50", "--depth=4095"}})
	}
	repos := map[string]*packlab.Repo{}
	for i, s := range specs {
		key := s.format
		if i >= 5 {
			key += "-2"
		}
		rp := repos[key]
		if rp == nil {
			r := c.Rand("seedrepo", key)
			var err error
			rp, err = packlab.Seed(g, filepath.Join(c.Scratch, "repo-"+key), r, packlab.SeedOpts{Format: s.format, Commits: c.N(3, 5) + r.Intn(3), Files: 2, BigLines: 6, ATags: 1, EmptyTree: true})
			if err != nil {
				return err
			}
			repos[key] = rp
		}
		args := append([]string{"pack-objects", "--all", "--stdout", "-q", "--no-reuse-delta"}, s.args...)
		res := g.Run(rp.Dir, args...)
		if !res.OK() {
			return fmt.Errorf("pack-objects: %s", res)
		}
		base := filepath.Join(dir, fmt.Sprintf("%d", i))
		if err := os.WriteFile(base+".pack", res.Out, 0o644); err != nil {
			return err
		}
		if r2 := g.Run(rp.Dir, "index-pack", "--rev-index", base+".pack"); !r2.OK() {
			return fmt.Errorf("index-pack: %s", r2)
		}
		meta, _ := json.Marshal(map[string]string{"Name": s.name, "Format": s.format})
		if err := os.WriteFile(base+".meta", meta, 0o644); err != nil {
			return err
		}
	}
	return nil
}

// generate enumerates the hostile inputs (deterministic in the seed).
func generate(c *vf.Ctx, sps []*seedPack) []Mut {
	var ms []Mut
	add := func(m Mut) {
		if m.Kind == "" {
			m.Kind = "stream"
		}
		m.N = len(ms)
		ms = append(ms, m)
	}
	r := c.Rand("gen")
	quick := c.Quick()
	payloadFlips := c.N(3, 12) // per entry
	idxreadFlips := c.N(2, 8)  // per entry
	pick := func(n, k int) []int { // k distinct indexes out of n (all when thorough)
		if !quick || k >= n {
			k = n
		}
		return r.Perm(n)[:k]
	}
	for si, sp := range sps {
		hs := sp.hs()
		add(Mut{Seed: si, Op: "none"})
		// pack header + trailer bits
		for off := 0; off < 12; off++ {
			for bit := 0; bit < 8; bit++ {
				if quick && off < 8 && r.Intn(3) != 0 {
					continue
				}
				// object counts >= 2^24 make go-git allocate gigabytes (see the crash finding): keep a few, they are slow
				if off == 8 && !(bit == 7 && (si == 0 || si == 2)) {
					continue
				}
				if off == 9 && bit > 3 {
					continue // 2^20..2^23 announced objects: hundreds of megabytes per parse, slow on a loaded machine
				}
				add(Mut{Seed: si, Op: "flip", A: off, B: bit, Fix: true})
			}
		}
		for k := 0; k < 4; k++ {
			add(Mut{Seed: si, Op: "flip", A: len(sp.Pack) - 1 - r.Intn(hs), B: r.Intn(8)})
		}
		add(Mut{Seed: si, Op: "zerotrailer"})
		for _, v := range []int{0, 1, 3, 4} {
			add(Mut{Seed: si, Op: "version", A: v, Fix: true})
		}
		for ei, e := range sp.Entries {
			if ei > 3 && (quick && (ei+si)%4 != 0 || !quick && (ei+si)%3 != 0) {
				continue // quick tier: every fourth entry; thorough: every third entry
			}
			// every bit of the header (type/size varint, ofs varint) for a third of the entries (all when thorough), 3 random bits otherwise; sampled bytes of a ref base
			exhaustive := !quick || (ei+si)%4 == 0
			for off := e.Off; off < e.DataOff; off++ {
				if e.Type == 7 && off >= e.DataOff-hs && r.Intn(6) != 0 {
					continue
				}
				for bit := 0; bit < 8; bit++ {
					if exhaustive || r.Intn(8) == 0 {
						add(Mut{Seed: si, Op: "flip", A: off, B: bit, Fix: true})
					}
				}
			}
			// zlib header, adler, payload
			zl := []int{e.DataOff, e.DataOff + 1, e.End - 1, e.End - 4}
			for _, k := range pick(4, 2) {
				add(Mut{Seed: si, Op: "flip", A: zl[k], B: r.Intn(8), Fix: true})
			}
			for k := 0; k < payloadFlips && e.End-e.DataOff > 6; k++ {
				add(Mut{Seed: si, Op: "flip", A: e.DataOff + 2 + r.Intn(e.End-e.DataOff-6), B: r.Intn(8), Fix: true})
			}
			// one un-fixed flip per entry: the checksum alone must catch it
			add(Mut{Seed: si, Op: "flip", A: e.Off + r.Intn(e.End-e.Off), B: r.Intn(8)})
			// payload corruption read back through git's idx
			for k := 0; k < idxreadFlips; k++ {
				add(Mut{Seed: si, Op: "flip", A: e.DataOff + r.Intn(e.End-e.DataOff), B: r.Intn(8), Kind: "idxread"})
			}
			// truncations around the boundaries and inside the header
			tr := []int{e.Off - 1, e.Off, e.Off + 1, e.DataOff, e.DataOff + 1, e.End - 1}
			for _, k := range pick(6, 2) {
				if at := tr[k]; at > 0 && at < len(sp.Pack) {
					add(Mut{Seed: si, Op: "trunc", A: at})
					add(Mut{Seed: si, Op: "trunc", A: at, Fix: true})
				}
			}
			// declared size +- k
			sz := []int{-1, 1, -int(e.Size), 7, 1 << 16, 1 << 40}
			for _, k := range pick(6, 3) {
				add(Mut{Seed: si, Op: "size", A: ei, B: sz[k], Fix: true})
			}
			// type rewrites
			for _, t := range pick(8, 3) {
				if t != e.Type {
					add(Mut{Seed: si, Op: "type", A: ei, B: t, Fix: true})
				}
			}
			if e.Type == 6 {
				for k := 0; k < 5; k++ {
					add(Mut{Seed: si, Op: "ofs", A: ei, B: k, C: r.Intn(1000), Fix: true})
				}
			}
			if e.Type == 7 {
				for k := 0; k < 4; k++ {
					add(Mut{Seed: si, Op: "refbase", A: ei, B: k, C: r.Intn(1 << 30), Fix: true})
				}
			}
			for _, k := range pick(5, 2) {
				switch k {
				case 0:
					if ei+1 < len(sp.Entries) {
						add(Mut{Seed: si, Op: "swap", A: ei, Fix: true})
					}
				case 1:
					add(Mut{Seed: si, Op: "drop", A: ei, B: 0, Fix: true})
				case 2:
					add(Mut{Seed: si, Op: "drop", A: ei, B: 1, Fix: true})
				case 3:
					add(Mut{Seed: si, Op: "dupentry", A: ei, Fix: true})
				case 4:
					add(Mut{Seed: si, Op: "gap", A: ei, B: []int{0, 0x78, 0xff}[r.Intn(3)], C: r.Intn(4), Fix: true})
				}
			}
		}
		add(Mut{Seed: si, Op: "trunc", A: len(sp.Pack) - hs})
		add(Mut{Seed: si, Op: "trunc", A: len(sp.Pack) - 1})
		add(Mut{Seed: si, Op: "trunc", A: len(sp.Pack) - hs, Fix: true})
		for _, d := range []int{-2, -1, 1, 2, 1000} {
			add(Mut{Seed: si, Op: "count", A: d, Fix: true})
			add(Mut{Seed: si, Op: "count", A: d})
		}
		for k := 0; k < 4; k++ {
			add(Mut{Seed: si, Op: "garbage", A: r.Intn(64), B: r.Intn(1 << 30)})
		}
		// double faults: two header bits at once
		for k := 0; k < c.N(25, 400); k++ {
			e1 := sp.Entries[r.Intn(len(sp.Entries))]
			e2 := sp.Entries[r.Intn(len(sp.Entries))]
			add(Mut{Seed: si, Op: "flip2", A: e1.Off + r.Intn(e1.DataOff-e1.Off), B: r.Intn(8), C: (e2.Off+r.Intn(e2.DataOff-e2.Off))*8 + r.Intn(8), Fix: r.Intn(4) > 0})
		}
	}
	// hand-built packs, both formats
	for f := 0; f < 2; f++ {
		for _, op := range []string{"hand:valid", "hand:empty-pack", "hand:delta-empty", "hand:delta-opcode-zero", "hand:delta-on-empty-base", "hand:delta-to-empty",
			"hand:dangling-ref", "hand:mutual-ref", "hand:ref-base-after-delta", "hand:ref-chain-unordered", "hand:type-0", "hand:type-5", "hand:bad-signature",
			"hand:zlib-stored-garbage", "hand:size-varint-overflow", "hand:ofs-varint-overflow", "hand:delta-inflate-long"} {
			add(Mut{Seed: -1, Op: op, B: f})
		}
		for _, op := range []string{"hand:inflate-short", "hand:inflate-long", "hand:huge-declared", "hand:delta-inflate-short", "hand:delta-base-size-mismatch",
			"hand:delta-target-size-mismatch", "hand:delta-copy-oob", "hand:delta-truncated", "hand:count-huge"} {
			for a := 0; a < c.N(3, 12); a++ {
				if op == "hand:count-huge" && a > 0 {
					break
				}
				add(Mut{Seed: -1, Op: op, A: a, B: f})
			}
		}
		depths := []int{50, 51, 4095, 4096}
		if !c.Quick() {
			depths = append(depths, 1000, 4094, 4097)
		}
		for _, d := range depths {
			add(Mut{Seed: -1, Op: "hand:ofs-depth", A: d, B: f})
			add(Mut{Seed: -1, Op: "hand:ref-depth", A: d, B: f})
		}
	}
	n := 0
	for _, m := range ms {
		if m.Kind == "idxread" {
			n++
		}
	}
	c.Count("idxread_inputs", n)
	sort.SliceStable(ms, func(a, b int) bool { return ms[a].N < ms[b].N })
	return ms
}
