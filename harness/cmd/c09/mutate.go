package main

import (
	"bytes"
	"encoding/hex"
	"fmt"
	"math/rand"
	"strings"

	"verif/internal/packlab"
)

// seedPack is a valid pack (made by git) with everything needed to mutate it.
type seedPack struct {
	Name    string
	Format  string
	Pack    []byte
	Idx     []byte // git's idx for Pack
	Rev     []byte
	Entries []packlab.Entry
	IDAt    map[int]string // entry offset -> object id (from git's idx)
}

func (sp *seedPack) hs() int { return packlab.HashSize(sp.Format) }

// Mut describes one hostile input; the bytes are a pure function of (seed packs, Mut).
type Mut struct {
	N    int    `json:"n"`    // global index
	Seed int    `json:"seed"` // index of the seed pack (-1: hand-built)
	Op   string `json:"op"`
	A    int    `json:"a"`
	B    int    `json:"b"`
	C    int    `json:"c"`
	Fix  bool   `json:"fix"`  // recompute the trailer after the mutation
	Kind string `json:"kind"` // "stream" (pack given to the parsers) | "idxread" (corrupted pack read through git's idx)
}

// Region names the part of the pack a byte offset falls into.
func (sp *seedPack) Region(off int) string {
	switch {
	case off < 4:
		return "signature"
	case off < 8:
		return "version"
	case off < 12:
		return "count"
	case off >= len(sp.Pack)-sp.hs():
		return "trailer"
	}
	for _, e := range sp.Entries {
		if off >= e.Off && off < e.End {
			hdrEnd := e.DataOff
			switch e.Type {
			case 6:
				hdrEnd -= e.OfsLen
			case 7:
				hdrEnd -= sp.hs()
			}
			switch {
			case off < hdrEnd:
				return "entry-header"
			case off < e.DataOff && e.Type == 6:
				return "ofs-offset"
			case off < e.DataOff:
				return "ref-base"
			case off < e.DataOff+2:
				return "zlib-header"
			case off >= e.End-4:
				return "zlib-adler"
			default:
				if e.Type >= 6 {
					return "delta-payload"
				}
				return "payload"
			}
		}
	}
	return "gap"
}

func typeName(t int) string {
	return map[int]string{1: "commit", 2: "tree", 3: "blob", 4: "tag", 6: "ofs", 7: "ref"}[t]
}

// Class is the structural (seed-independent) class of a mutation, used for finding keys and shapes.
func (m Mut) Class(sps []*seedPack) string {
	switch m.Op {
	case "flip":
		sp := sps[m.Seed]
		if !m.Fix {
			return "flip-stale-trailer:" + sp.Region(m.A)
		}
		return "flip:" + sp.Region(m.A)
	case "flip2":
		sp := sps[m.Seed]
		return "flip2:" + sp.Region(m.A) + "+" + sp.Region(m.C/8)
	case "size":
		e := sps[m.Seed].Entries[m.A]
		d := "plus"
		if m.B < 0 {
			d = "minus"
		}
		if m.B > 1<<20 {
			d = "huge"
		}
		return "size-" + d + ":" + typeName(e.Type)
	case "ofs":
		return "ofs:" + []string{"zero", "to-pack-start", "beyond-start", "mid-entry", "other-entry"}[m.B]
	case "refbase":
		return "refbase:" + []string{"zero", "random", "self", "descendant"}[m.B]
	case "type":
		return fmt.Sprintf("type:%s->%d", typeName(sps[m.Seed].Entries[m.A].Type), m.B)
	case "trunc":
		sp := sps[m.Seed]
		if m.Fix {
			return "trunc-retrailered:" + sp.Region(m.A)
		}
		return "trunc:" + sp.Region(m.A)
	case "count":
		if m.A > 0 {
			return "count-plus"
		}
		return "count-minus"
	}
	if strings.HasSuffix(m.Op, "-depth") {
		return fmt.Sprintf("%s-%d", m.Op, m.A)
	}
	return m.Op
}

func be32(v uint32) []byte { return []byte{byte(v >> 24), byte(v >> 16), byte(v >> 8), byte(v)} }

// Apply builds the hostile bytes.
func Apply(sps []*seedPack, m Mut) []byte {
	if m.Seed < 0 {
		return handBuilt(m)
	}
	sp := sps[m.Seed]
	hs := sp.hs()
	p := append([]byte{}, sp.Pack...)
	fix := func(b []byte) []byte {
		if m.Fix {
			return packlab.Retrailer(b, sp.Format)
		}
		return b
	}
	replaceEntry := func(i int, hdr []byte) []byte {
		e := sp.Entries[i]
		hdrEnd := e.DataOff
		switch e.Type {
		case 6:
			hdrEnd -= e.OfsLen
		case 7:
			hdrEnd -= hs
		}
		out := append([]byte{}, p[:e.Off]...)
		out = append(out, hdr...)
		out = append(out, p[hdrEnd:]...)
		return out
	}
	switch m.Op {
	case "none":
		return p
	case "flip":
		p[m.A] ^= 1 << uint(m.B)
		return fix(p)
	case "flip2":
		p[m.A] ^= 1 << uint(m.B)
		p[m.C/8] ^= 1 << uint(m.C%8)
		return fix(p)
	case "trunc":
		if !m.Fix {
			return p[:m.A]
		}
		return packlab.Retrailer(append(p[:m.A:m.A], make([]byte, hs)...), sp.Format)
	case "size":
		e := sp.Entries[m.A]
		ns := int64(e.Size) + int64(m.B)
		if ns < 0 {
			ns = 0
		}
		// same-length headers keep later ofs distances valid; a longer header shifts them (also hostile, also fine)
		return fix(replaceEntry(m.A, packlab.EncodeEntryHeader(e.Type, uint64(ns))))
	case "type":
		e := sp.Entries[m.A]
		return fix(replaceEntry(m.A, packlab.EncodeEntryHeader(m.B, e.Size)))
	case "ofs":
		e := sp.Entries[m.A]
		var dist int
		switch m.B {
		case 0:
			dist = 0
		case 1:
			dist = e.Off
		case 2:
			dist = e.Off + 1 + m.C
		case 3:
			dist = e.Off - e.BaseOff - 1
		default:
			// another entry start (the first entry of the pack)
			dist = e.Off - sp.Entries[0].Off
		}
		enc := packlab.EncodeOfs(dist)
		out := append([]byte{}, p[:e.DataOff-e.OfsLen]...)
		out = append(out, enc...)
		out = append(out, p[e.DataOff:]...)
		return fix(out)
	case "refbase":
		e := sp.Entries[m.A]
		nb := make([]byte, hs)
		switch m.B {
		case 0:
		case 1:
			rand.New(rand.NewSource(int64(m.C))).Read(nb)
		case 2:
			nb, _ = hex.DecodeString(sp.IDAt[e.Off])
		case 3:
			// a delta whose base is this entry (direct child), if any
			self, _ := hex.DecodeString(sp.IDAt[e.Off])
			nb = self
			for _, ch := range sp.Entries {
				if ch.Type == 7 && bytes.Equal(ch.BaseRef, self) {
					nb, _ = hex.DecodeString(sp.IDAt[ch.Off])
					break
				}
			}
		}
		copy(p[e.DataOff-hs:e.DataOff], nb)
		return fix(p)
	case "swap":
		a, b := sp.Entries[m.A], sp.Entries[m.A+1]
		out := append([]byte{}, p[:a.Off]...)
		out = append(out, p[b.Off:b.End]...)
		out = append(out, p[a.Off:a.End]...)
		out = append(out, p[b.End:]...)
		return fix(out)
	case "drop":
		e := sp.Entries[m.A]
		out := append(append([]byte{}, p[:e.Off]...), p[e.End:]...)
		if m.B == 1 {
			out = packlab.SetCount(out, uint32(len(sp.Entries)-1))
		}
		return fix(out)
	case "dupentry":
		e := sp.Entries[m.A]
		out := append([]byte{}, p[:len(p)-hs]...)
		out = append(out, p[e.Off:e.End]...)
		out = append(out, make([]byte, hs)...)
		out = packlab.SetCount(out, uint32(len(sp.Entries)+1))
		return fix(out)
	case "count":
		return fix(packlab.SetCount(p, uint32(len(sp.Entries)+m.A)))
	case "garbage":
		g := make([]byte, 1+m.A)
		rand.New(rand.NewSource(int64(m.B))).Read(g)
		return append(p, g...)
	case "gap":
		// junk bytes between two entries
		e := sp.Entries[m.A]
		out := append([]byte{}, p[:e.Off]...)
		out = append(out, bytes.Repeat([]byte{byte(m.B)}, 1+m.C)...)
		out = append(out, p[e.Off:]...)
		return fix(out)
	case "zerotrailer":
		copy(p[len(p)-hs:], make([]byte, hs))
		return p
	case "version":
		copy(p[4:8], be32(uint32(m.A)))
		return fix(p)
	}
	panic("unknown op " + m.Op)
}

// handBuilt packs: A = variant parameter, B = format (0 sha1, 1 sha256).
func handBuilt(m Mut) []byte {
	format := "sha1"
	if m.B == 1 {
		format = "sha256"
	}
	hs := packlab.HashSize(format)
	blob := func(b []byte) packlab.RawEntry { return packlab.RawEntry{Type: 3, Size: uint64(len(b)), Payload: b} }
	base := []byte("hello hostile world, this is the base object content\n")
	id := func(typ string, b []byte) []byte {
		h, _ := hex.DecodeString(packlab.HashObj(format, typ, b))
		return h
	}
	build := func(es []packlab.RawEntry, count int) []byte {
		p, _ := packlab.BuildPack(es, format, count)
		return p
	}
	ofsDelta := func(delta []byte, back int) packlab.RawEntry {
		return packlab.RawEntry{Type: 6, Size: uint64(len(delta)), OfsBack: back, Payload: delta}
	}
	entryLen := func(e packlab.RawEntry) int {
		p, _ := packlab.BuildPack([]packlab.RawEntry{e}, format, -1)
		return len(p) - 12 - hs
	}
	b0 := blob(base)
	l0 := entryLen(b0)
	switch m.Op {
	case "hand:valid":
		return build([]packlab.RawEntry{b0, ofsDelta(packlab.DeltaCopyAll(len(base), []byte("tail")), l0)}, -1)
	case "hand:empty-pack":
		return build(nil, -1)
	case "hand:inflate-short": // stream holds fewer bytes than declared
		e := b0
		e.Size = uint64(len(base) + 1 + m.A)
		return build([]packlab.RawEntry{e}, -1)
	case "hand:inflate-long": // stream holds more bytes than declared
		e := b0
		e.Size = uint64(len(base) - 1 - m.A%len(base))
		return build([]packlab.RawEntry{e}, -1)
	case "hand:huge-declared":
		e := b0
		e.Size = 1 << uint(31+m.A%20)
		return build([]packlab.RawEntry{e}, -1)
	case "hand:delta-inflate-short":
		d := packlab.DeltaCopyAll(len(base), []byte("tail"))
		e := ofsDelta(d, l0)
		e.Size = uint64(len(d) + 1 + m.A)
		return build([]packlab.RawEntry{b0, e}, -1)
	case "hand:delta-inflate-long":
		d := packlab.DeltaCopyAll(len(base), []byte("tail"))
		e := ofsDelta(d, l0)
		e.Size = uint64(len(d) - 1)
		return build([]packlab.RawEntry{b0, e}, -1)
	case "hand:delta-base-size-mismatch":
		d := packlab.DeltaCopyAll(len(base)+1+m.A, []byte("tail"))
		return build([]packlab.RawEntry{b0, ofsDelta(d, l0)}, -1)
	case "hand:delta-target-size-mismatch":
		d := packlab.DeltaCopyAll(len(base), []byte("tail"))
		d[1] += byte(1 + m.A%3) // target size varint (single byte here: < 128)
		return build([]packlab.RawEntry{b0, ofsDelta(d, l0)}, -1)
	case "hand:delta-copy-oob":
		d := []byte{byte(len(base)), 10, 0x80 | 0x01 | 0x10, byte(len(base) - 5 + m.A%3), 10}
		return build([]packlab.RawEntry{b0, ofsDelta(d, l0)}, -1)
	case "hand:delta-truncated":
		d := packlab.DeltaCopyAll(len(base), []byte("tail"))
		d = d[:len(d)-1-m.A%3]
		return build([]packlab.RawEntry{b0, ofsDelta(d, l0)}, -1)
	case "hand:delta-opcode-zero":
		d := []byte{byte(len(base)), 4, 0, 't', 'a', 'i', 'l'}
		return build([]packlab.RawEntry{b0, ofsDelta(d, l0)}, -1)
	case "hand:delta-empty":
		return build([]packlab.RawEntry{b0, ofsDelta([]byte{}, l0)}, -1)
	case "hand:delta-on-empty-base": // legal: pure insert on an empty base
		e0 := blob([]byte{})
		return build([]packlab.RawEntry{e0, ofsDelta(packlab.DeltaInsertOnly(0, []byte("abc")), entryLen(e0))}, -1)
	case "hand:delta-to-empty": // legal: target of size 0
		return build([]packlab.RawEntry{b0, ofsDelta([]byte{byte(len(base)), 0}, l0)}, -1)
	case "hand:dangling-ref":
		d := packlab.DeltaCopyAll(len(base), []byte("tail"))
		return build([]packlab.RawEntry{b0, {Type: 7, Size: uint64(len(d)), BaseRef: bytes.Repeat([]byte{0xab}, hs), Payload: d}}, -1)
	case "hand:mutual-ref": // two ref-deltas naming each other's (claimed) ids
		d := packlab.DeltaCopyAll(len(base), []byte("x"))
		ida, idb := bytes.Repeat([]byte{0x11}, hs), bytes.Repeat([]byte{0x22}, hs)
		return build([]packlab.RawEntry{{Type: 7, Size: uint64(len(d)), BaseRef: idb, Payload: d}, {Type: 7, Size: uint64(len(d)), BaseRef: ida, Payload: d}}, -1)
	case "hand:ref-base-after-delta": // legal: REF_DELTA placed before its base
		d := packlab.DeltaCopyAll(len(base), []byte("tail"))
		return build([]packlab.RawEntry{{Type: 7, Size: uint64(len(d)), BaseRef: id("blob", base), Payload: d}, b0}, -1)
	case "hand:ref-chain-unordered": // legal: REF_DELTA chain listed child-first
		d1 := packlab.DeltaCopyAll(len(base), []byte("1"))
		t1 := append(append([]byte{}, base...), '1')
		d2 := packlab.DeltaCopyAll(len(t1), []byte("2"))
		return build([]packlab.RawEntry{{Type: 7, Size: uint64(len(d2)), BaseRef: id("blob", t1), Payload: d2}, {Type: 7, Size: uint64(len(d1)), BaseRef: id("blob", base), Payload: d1}, b0}, -1)
	case "hand:ofs-depth", "hand:ref-depth":
		// chain of A deltas, each appending one byte
		n := m.A
		es := []packlab.RawEntry{b0}
		cur := append([]byte{}, base...)
		prevLen := l0
		for i := 0; i < n; i++ {
			d := packlab.DeltaCopyAll(len(cur), []byte{byte('a' + i%26)})
			var e packlab.RawEntry
			if m.Op == "hand:ofs-depth" {
				e = ofsDelta(d, prevLen)
			} else {
				e = packlab.RawEntry{Type: 7, Size: uint64(len(d)), BaseRef: id("blob", cur), Payload: d}
			}
			e.Raw = packlab.Deflate(d, 1)
			es = append(es, e)
			prevLen = len(packlab.EncodeEntryHeader(e.Type, e.Size)) + len(e.Raw)
			if e.Type == 6 {
				prevLen += len(packlab.EncodeOfs(e.OfsBack))
			} else {
				prevLen += hs
			}
			cur = append(cur, byte('a'+i%26))
		}
		return build(es, -1)
	case "hand:type-0", "hand:type-5":
		e := b0
		e.Type = 0
		if m.Op == "hand:type-5" {
			e.Type = 5
		}
		return build([]packlab.RawEntry{e}, -1)
	case "hand:bad-signature":
		p := build([]packlab.RawEntry{b0}, -1)
		copy(p, "PACX")
		return packlab.Retrailer(p, format)
	case "hand:zlib-stored-garbage": // valid pack followed inside the entry area by an extra zlib stream
		p := build([]packlab.RawEntry{b0}, -1)
		body := append(append([]byte{}, p[:len(p)-hs]...), packlab.Deflate([]byte("extra"), 0)...)
		return packlab.Retrailer(append(body, make([]byte, hs)...), format)
	case "hand:count-huge":
		return build([]packlab.RawEntry{b0}, 0x7fffffff-m.A)
	case "hand:size-varint-overflow":
		// header with a 12-byte size varint
		hdr := []byte{0x30 | 0x80 | 5}
		for i := 0; i < 11; i++ {
			hdr = append(hdr, 0xff)
		}
		hdr = append(hdr, 0x01)
		var b bytes.Buffer
		b.WriteString("PACK")
		b.Write([]byte{0, 0, 0, 2, 0, 0, 0, 1})
		b.Write(hdr)
		b.Write(packlab.Deflate(base, 0))
		b.Write(make([]byte, hs))
		return packlab.Retrailer(b.Bytes(), format)
	case "hand:ofs-varint-overflow":
		var b bytes.Buffer
		b.WriteString("PACK")
		b.Write([]byte{0, 0, 0, 2, 0, 0, 0, 2})
		b.Write(packlab.EncodeEntryHeader(3, uint64(len(base))))
		b.Write(packlab.Deflate(base, 0))
		d := packlab.DeltaCopyAll(len(base), []byte("t"))
		b.Write(packlab.EncodeEntryHeader(6, uint64(len(d))))
		for i := 0; i < 11; i++ {
			b.WriteByte(0xff)
		}
		b.WriteByte(0x7f)
		b.Write(packlab.Deflate(d, 0))
		b.Write(make([]byte, hs))
		return packlab.Retrailer(b.Bytes(), format)
	}
	panic("unknown hand-built op " + m.Op)
}
