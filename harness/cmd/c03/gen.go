package main

import (
	"bytes"
	"fmt"
	"math/rand"
	"strings"
)

// hline is one header of a raw commit/tag: "key SP val LF" followed by continuation lines " cont LF".
type hline struct {
	key  string
	val  string
	cont []string
	nosp bool // emit "key LF" (no space, no value)
}

func (h hline) value() string { // value as git's read_commit_extra_header_lines assembles it
	if len(h.cont) == 0 {
		return h.val
	}
	return h.val + "\n" + strings.Join(h.cont, "\n")
}

type rawObj struct {
	kind      string // commit | tag
	h         []hline
	blank     bool   // header/body separator present
	msg       string // bytes after the separator
	noFinalNL bool   // only when !blank: last header line lacks its LF
	idLen     int    // hex length of ids
}

func (o *rawObj) clone() *rawObj {
	n := *o
	n.h = make([]hline, len(o.h))
	for i, h := range o.h {
		n.h[i] = h
		n.h[i].cont = append([]string(nil), h.cont...)
	}
	return &n
}

func (o *rawObj) bytes() []byte {
	var b bytes.Buffer
	for _, h := range o.h {
		b.WriteString(h.key)
		if !h.nosp {
			b.WriteByte(' ')
			b.WriteString(h.val)
		}
		b.WriteByte('\n')
		for _, c := range h.cont {
			b.WriteByte(' ')
			b.WriteString(c)
			b.WriteByte('\n')
		}
	}
	if o.blank {
		b.WriteByte('\n')
		b.WriteString(o.msg)
	} else if o.noFinalNL && b.Len() > 0 {
		b.Truncate(b.Len() - 1)
	}
	return b.Bytes()
}

func (o *rawObj) find(key string) int {
	for i, h := range o.h {
		if h.key == key {
			return i
		}
	}
	return -1
}

func (o *rawObj) findAll(key string) []int {
	var out []int
	for i, h := range o.h {
		if h.key == key {
			out = append(out, i)
		}
	}
	return out
}

func (o *rawObj) insert(at int, h hline) {
	if at > len(o.h) {
		at = len(o.h)
	}
	o.h = append(o.h, hline{})
	copy(o.h[at+1:], o.h[at:])
	o.h[at] = h
}

func (o *rawObj) remove(at int) hline {
	h := o.h[at]
	o.h = append(o.h[:at], o.h[at+1:]...)
	return h
}

func (o *rawObj) move(from, to int) {
	h := o.remove(from)
	if to > from {
		to--
	}
	o.insert(to, h)
}

func hexID(r *rand.Rand, n int) string {
	b := make([]byte, n/2)
	r.Read(b)
	return fmt.Sprintf("%x", b)
}

var names = []string{"A U Thor", "C O Mitter", "Jos\xc3\xa9 N\xc3\xba\xc3\xb1ez", "x", "Dr. Who, PhD", "J\xe9r\xf4me", "a-b_c.d", "O'Neil \"Q\"", "名前"}
var emails = []string{"author@example.com", "c@x", "user+tag@sub.example.org", "x@localhost", "weird email@x", "a@b.c"}
var zones = []string{"+0000", "+0100", "-0500", "+0530", "+0545", "-0330", "+1400", "-1200", "+0930"}

func normalIdent(r *rand.Rand) string {
	return fmt.Sprintf("%s <%s> %d %s", names[r.Intn(len(names))], emails[r.Intn(len(emails))], 1+r.Int63n(2000000000), zones[r.Intn(len(zones))])
}

var pgpSig = []string{"-----BEGIN PGP SIGNATURE-----", "", "iQEzBAABCAAdFiEE0123456789abcdefFAKE", "=AbCd", "-----END PGP SIGNATURE-----"}
var sshSig = []string{"-----BEGIN SSH SIGNATURE-----", "U1NIU0lHAAAAAQAAADMAAAALc3NoLWVkMjU1MTkAAAAg", "AAAAQFAKEFAKEFAKE", "-----END SSH SIGNATURE-----"}
var x509Sig = []string{"-----BEGIN SIGNED MESSAGE-----", "MIAGCSqGSIb3DQEHAqCAMIACAQExDzANBglghkgBZQMEAgEFADCABgkqhkiG9w0B", "-----END SIGNED MESSAGE-----"}

func sigLines(r *rand.Rand) []string {
	s := [][]string{pgpSig, pgpSig, sshSig, x509Sig}[r.Intn(4)]
	return append([]string(nil), s...)
}

func sigHeader(key string, lines []string) hline {
	return hline{key: key, val: lines[0], cont: lines[1:]}
}

var messages = []string{"subject\n", "subject\n\nbody line 1\nbody line 2\n", "no trailing newline", "", "\n", "\n\nleading blank lines\n", "subject\n\n\n", "Merge branch 'x'\n\n* x:\n  a\n  b\n",
	"tabs\tand  spaces \n", "l\xe9gende latin1\n", "unicode \xe2\x9c\x93\n", "subject\n\nSigned-off-by: A <a@b>\n", "tree 0000000000000000000000000000000000000000\nauthor fake <f@f> 1 +0000\n",
	" leading space line\n", "gpgsig not a header\n -----BEGIN PGP SIGNATURE-----\n", "a\r\nb\r\n"}

// baseCommit builds a commit in canonical form (the form git itself writes).
func baseCommit(r *rand.Rand, idLen int) (*rawObj, []string) {
	o := &rawObj{kind: "commit", blank: true, idLen: idLen}
	var feat []string
	o.h = append(o.h, hline{key: "tree", val: hexID(r, idLen)})
	np := []int{0, 1, 1, 1, 2, 2, 3}[r.Intn(7)]
	for i := 0; i < np; i++ {
		o.h = append(o.h, hline{key: "parent", val: hexID(r, idLen)})
	}
	feat = append(feat, fmt.Sprintf("p%d", np))
	o.h = append(o.h, hline{key: "author", val: normalIdent(r)})
	o.h = append(o.h, hline{key: "committer", val: normalIdent(r)})
	if r.Intn(4) == 0 {
		o.h = append(o.h, hline{key: "encoding", val: []string{"ISO-8859-1", "utf-8", "latin1", "KOI8-R"}[r.Intn(4)]})
		feat = append(feat, "enc")
	}
	switch r.Intn(6) {
	case 0:
		o.h = append(o.h, mergetagHeader(r, idLen))
		feat = append(feat, "mergetag")
	case 1:
		o.h = append(o.h, hline{key: "HG:rename-source", val: "hg"})
		o.h = append(o.h, hline{key: "change-id", val: "I" + hexID(r, 40)})
		feat = append(feat, "extra2")
	case 2:
		o.h = append(o.h, hline{key: "x-multi", val: "line one", cont: []string{"line two", "", "line four"}})
		feat = append(feat, "extra-multi")
	}
	if r.Intn(4) != 0 {
		o.h = append(o.h, sigHeader("gpgsig", sigLines(r)))
		feat = append(feat, "gpgsig")
	}
	if r.Intn(10) == 0 {
		o.h = append(o.h, sigHeader("gpgsig-sha256", sigLines(r)))
		feat = append(feat, "gpgsig256")
	}
	o.msg = messages[r.Intn(len(messages))]
	return o, feat
}

func mergetagHeader(r *rand.Rand, idLen int) hline {
	lines := []string{"object " + hexID(r, idLen), "type commit", "tag v1.0", "tagger T <t@x> 1500000000 +0000", "", "release", "-----BEGIN PGP SIGNATURE-----", "", "FAKE", "-----END PGP SIGNATURE-----"}
	return hline{key: "mergetag", val: lines[0], cont: lines[1:]}
}

// identVariants: class -> ident line value. Every variant keeps one '<' ... '>' pair unless its name says otherwise.
var identVariants = []struct{ name, val string }{
	{"empty-name", "<e@x> 1234567890 +0100"},
	{"empty-name-with-space", " <e@x> 1234567890 +0100"},
	{"empty-email", "Name <> 1234567890 +0100"},
	{"no-gt", "Name <e@x 1234567890 +0100"},
	{"no-lt", "Name e@x> 1234567890 +0100"},
	{"no-brackets", "Name e@x 1234567890 +0100"},
	{"double-lt", "Name <<e@x> 1234567890 +0100"},
	{"double-gt", "Name <e@x>> 1234567890 +0100"},
	{"two-bracket-pairs", "Name <e@x> <f@y> 1234567890 +0100"},
	{"name-trailing-spaces", "Name    <e@x> 1234567890 +0100"},
	{"name-leading-space", " Name <e@x> 1234567890 +0100"},
	{"name-inner-double-space", "First  Last <e@x> 1234567890 +0100"},
	{"no-space-before-lt", "Name<e@x> 1234567890 +0100"},
	{"email-with-spaces", "Name < e@x > 1234567890 +0100"},
	{"gt-in-name", "Na>me <e@x> 1234567890 +0100"},
	{"lt-in-email", "Name <e<x@y> 1234567890 +0100"},
	{"no-date", "Name <e@x>"},
	{"no-date-trailing-space", "Name <e@x> "},
	{"no-tz", "Name <e@x> 1234567890"},
	{"negative-ts", "Name <e@x> -1234567890 +0100"},
	{"ts-2pow40", "Name <e@x> 1099511627776 +0100"},
	{"ts-overflow-int64", "Name <e@x> 99999999999999999999 +0100"},
	{"ts-zero", "Name <e@x> 0 +0000"},
	{"ts-leading-zeros", "Name <e@x> 0001234567890 +0100"},
	{"ts-plus-sign", "Name <e@x> +1234567890 +0100"},
	{"ts-non-numeric", "Name <e@x> yesterday +0100"},
	{"tz-minus-0000", "Name <e@x> 1234567890 -0000"},
	{"tz-9999", "Name <e@x> 1234567890 +9999"},
	{"tz-minus-9959", "Name <e@x> 1234567890 -9959"},
	{"tz-minutes-60plus", "Name <e@x> 1234567890 +0175"},
	{"tz-3-digits", "Name <e@x> 1234567890 +053"},
	{"tz-6-digits", "Name <e@x> 1234567890 +053000"},
	{"tz-no-sign", "Name <e@x> 1234567890 0100"},
	{"tz-alpha", "Name <e@x> 1234567890 CEST"},
	{"double-space-before-ts", "Name <e@x>  1234567890 +0100"},
	{"double-space-before-tz", "Name <e@x> 1234567890  +0100"},
	{"trailing-junk", "Name <e@x> 1234567890 +0100 junk"},
	{"trailing-space", "Name <e@x> 1234567890 +0100 "},
	{"latin1-name", "J\xe9r\xf4me <e@x> 1234567890 +0100"},
	{"name-with-lf-escape", "Na\\nme <e@x> 1234567890 +0100"},
	{"empty-ident", ""},
}

// perturbation names; apply() is a pure function of (object, name, r).
var commitPerturbations = []string{
	"dup-tree-before-author", "dup-tree-after-committer", "parent-after-author", "parent-after-committer", "dup-author", "dup-committer", "dup-encoding", "author-missing", "committer-missing", "author-committer-swapped",
	"extra-before-author", "extra-between-author-committer", "encoding-after-extra", "encoding-before-author", "encoding-utf8-explicit", "encoding-empty",
	"gpgsig-before-encoding", "gpgsig-before-extra", "gpgsig256-before-gpgsig", "gpgsig-twice", "gpgsig-before-author", "gpgsig-single-line", "gpgsig-empty-value",
	"gpgsig-cont-empty-line-no-space-after", "extra-empty-value-with-space", "extra-no-space", "extra-trailing-empty-continuation", "extra-value-leading-space", "extra-value-trailing-space", "extra-dup-key", "extra-after-gpgsig",
	"extra-key-like-standard-prefix", "mergetag-twice", "no-blank-line", "no-blank-no-final-nl", "uppercase-hex-tree", "uppercase-hex-parent", "message-with-nul-free-binary",
	"author-tab-separator", "header-cont-at-start",
	"gpgsig-thrice", "gpgsig-like-header", "gpgsig-like-header-multiline", "gpgsig-in-message", "gpgsig256-only", "gpgsig-and-256", "gpgsig-cont-tab", "gpgsig-no-space-line", "gpgsig-256-twice",
	"gpgsig-between-parents", "mergetag-with-gpgsig-lines", "gpgsig-after-other-sig-cont",
}

func init() {
	for _, v := range identVariants {
		commitPerturbations = append(commitPerturbations, "author-ident:"+v.name, "committer-ident:"+v.name)
	}
}

func identVal(name string) string {
	for _, v := range identVariants {
		if v.name == name {
			return v.val
		}
	}
	panic("unknown ident variant " + name)
}

// ensure makes sure a header exists (inserted at its canonical position) and returns its index.
func (o *rawObj) ensure(key string, r *rand.Rand) int {
	if i := o.find(key); i >= 0 {
		return i
	}
	switch key {
	case "encoding":
		i := o.find("committer")
		if i < 0 {
			i = o.find("author")
		}
		o.insert(i+1, hline{key: "encoding", val: "ISO-8859-1"})
		return i + 1
	case "x-extra":
		at := len(o.h)
		for i, h := range o.h {
			if h.key == "gpgsig" || h.key == "gpgsig-sha256" {
				at = i
				break
			}
		}
		o.insert(at, hline{key: "x-extra", val: "value"})
		return at
	case "gpgsig":
		at := len(o.h)
		if i := o.find("gpgsig-sha256"); i >= 0 {
			at = i
		}
		o.insert(at, sigHeader("gpgsig", sigLines(r)))
		return at
	case "gpgsig-sha256":
		o.h = append(o.h, sigHeader("gpgsig-sha256", sigLines(r)))
		return len(o.h) - 1
	case "parent":
		o.insert(1, hline{key: "parent", val: hexID(r, o.idLen)})
		return 1
	}
	panic("ensure " + key)
}

func (o *rawObj) firstExtra() int {
	for i, h := range o.h {
		switch h.key {
		case "tree", "parent", "author", "committer", "encoding", "gpgsig", "gpgsig-sha256":
		default:
			return i
		}
	}
	return -1
}

// applyCommit applies one named perturbation. Returns false if it is not applicable.
func applyCommit(o *rawObj, p string, r *rand.Rand) bool {
	if strings.HasPrefix(p, "author-ident:") {
		if o.find("author") < 0 {
			return false
		}
		o.h[o.find("author")].val = identVal(strings.TrimPrefix(p, "author-ident:"))
		return true
	}
	if strings.HasPrefix(p, "committer-ident:") {
		if o.find("committer") < 0 {
			return false
		}
		o.h[o.find("committer")].val = identVal(strings.TrimPrefix(p, "committer-ident:"))
		return true
	}
	a, c := o.find("author"), o.find("committer")
	if a < 0 || c < 0 {
		return false
	}
	switch p {
	case "dup-tree-before-author":
		o.insert(a, hline{key: "tree", val: hexID(r, o.idLen)})
	case "dup-tree-after-committer":
		o.insert(c+1, hline{key: "tree", val: hexID(r, o.idLen)})
	case "parent-after-author":
		o.insert(a+1, hline{key: "parent", val: hexID(r, o.idLen)})
	case "parent-after-committer":
		o.insert(c+1, hline{key: "parent", val: hexID(r, o.idLen)})
	case "dup-author":
		o.insert(c+1, hline{key: "author", val: normalIdent(r)})
	case "dup-committer":
		o.insert(c+1, hline{key: "committer", val: normalIdent(r)})
	case "dup-encoding":
		i := o.ensure("encoding", r)
		o.insert(i+1, hline{key: "encoding", val: "KOI8-R"})
	case "author-missing":
		o.remove(a)
	case "committer-missing":
		o.remove(c)
	case "author-committer-swapped":
		o.h[a], o.h[c] = o.h[c], o.h[a]
	case "extra-before-author":
		o.insert(a, hline{key: "x-early", val: "v"})
	case "extra-between-author-committer":
		o.insert(c, hline{key: "x-mid", val: "v"})
	case "encoding-after-extra":
		e := o.ensure("encoding", r)
		x := o.ensure("x-extra", r)
		if x < e {
			return false
		}
		o.move(e, x+1)
	case "encoding-before-author":
		e := o.ensure("encoding", r)
		o.move(e, o.find("author"))
	case "encoding-utf8-explicit":
		o.h[o.ensure("encoding", r)].val = "UTF-8"
	case "encoding-empty":
		o.h[o.ensure("encoding", r)].val = ""
	case "gpgsig-before-encoding":
		o.ensure("encoding", r)
		g := o.ensure("gpgsig", r)
		o.move(g, o.find("encoding"))
	case "gpgsig-before-extra":
		o.ensure("x-extra", r)
		g := o.ensure("gpgsig", r)
		o.move(g, o.firstExtra())
	case "gpgsig256-before-gpgsig":
		o.ensure("gpgsig", r)
		g := o.ensure("gpgsig-sha256", r)
		o.move(g, o.find("gpgsig"))
	case "gpgsig-twice":
		g := o.ensure("gpgsig", r)
		o.insert(g+1, sigHeader("gpgsig", sshSig))
	case "gpgsig-before-author":
		g := o.ensure("gpgsig", r)
		o.move(g, o.find("author"))
	case "gpgsig-single-line":
		g := o.ensure("gpgsig", r)
		o.h[g].val, o.h[g].cont = "one-line-signature", nil
	case "gpgsig-empty-value":
		g := o.ensure("gpgsig", r)
		o.h[g].val, o.h[g].cont = "", nil
	case "gpgsig-cont-empty-line-no-space-after":
		g := o.ensure("gpgsig", r)
		o.h[g].cont = append(o.h[g].cont, "")
	case "extra-empty-value-with-space":
		o.h[o.ensure("x-extra", r)].val = ""
	case "extra-no-space":
		i := o.ensure("x-extra", r)
		o.h[i].val, o.h[i].nosp = "", true
	case "extra-trailing-empty-continuation":
		i := o.ensure("x-extra", r)
		o.h[i].cont = append(o.h[i].cont, "more", "", "")
	case "extra-value-leading-space":
		o.h[o.ensure("x-extra", r)].val = " padded"
	case "extra-value-trailing-space":
		o.h[o.ensure("x-extra", r)].val = "padded  "
	case "extra-dup-key":
		i := o.ensure("x-extra", r)
		o.insert(i+1, hline{key: "x-extra", val: "second"})
	case "extra-after-gpgsig":
		g := o.ensure("gpgsig", r)
		o.insert(g+1, hline{key: "x-late", val: "after signature"})
	case "extra-key-like-standard-prefix":
		at := c + 1
		if e := o.find("encoding"); e >= 0 {
			at = e + 1
		}
		o.insert(at, hline{key: "authored-by", val: "x"})
		o.insert(at+1, hline{key: "gpgsigx", val: "y"})
		o.insert(at+2, hline{key: "treeish", val: "z"})
	case "mergetag-twice":
		x := o.firstExtra()
		if x < 0 {
			x = c + 1
		}
		o.insert(x, mergetagHeader(r, o.idLen))
		o.insert(x+1, mergetagHeader(r, o.idLen))
	case "no-blank-line":
		o.blank, o.msg = false, ""
	case "no-blank-no-final-nl":
		o.blank, o.msg, o.noFinalNL = false, "", true
	case "uppercase-hex-tree":
		o.h[0].val = strings.ToUpper(o.h[0].val)
	case "uppercase-hex-parent":
		i := o.ensure("parent", r)
		o.h[i].val = strings.ToUpper(o.h[i].val)
	case "message-with-nul-free-binary":
		b := make([]byte, 40)
		for i := range b {
			b[i] = byte(4 + r.Intn(250))
		}
		o.msg = string(b)
	case "gpgsig-thrice":
		g := o.ensure("gpgsig", r)
		o.insert(g+1, sigHeader("gpgsig", sshSig))
		o.insert(g+2, sigHeader("gpgsig", x509Sig))
	case "gpgsig-like-header":
		o.insert(c+1, hline{key: "gpgsig-foo", val: "bar"})
	case "gpgsig-like-header-multiline":
		o.insert(c+1, hline{key: "gpgsigx", val: "bar", cont: []string{"more", "lines"}})
	case "gpgsig-in-message":
		o.msg = "subject\n\ngpgsig -----BEGIN PGP SIGNATURE-----\n fake\n -----END PGP SIGNATURE-----\ngpgsig-sha256 x\n"
	case "gpgsig256-only":
		if g := o.find("gpgsig"); g >= 0 {
			o.remove(g)
		}
		o.ensure("gpgsig-sha256", r)
	case "gpgsig-and-256":
		o.ensure("gpgsig", r)
		o.ensure("gpgsig-sha256", r)
	case "gpgsig-cont-tab":
		g := o.ensure("gpgsig", r)
		o.h[g].cont = append([]string{"\tindented with tab"}, o.h[g].cont...)
	case "gpgsig-no-space-line":
		// a header line that is exactly "gpgsig" (no space, no value)
		o.insert(c+1, hline{key: "gpgsig", nosp: true})
	case "gpgsig-256-twice":
		g := o.ensure("gpgsig-sha256", r)
		o.insert(g+1, sigHeader("gpgsig-sha256", sshSig))
	case "gpgsig-between-parents":
		g := o.ensure("gpgsig", r)
		o.ensure("parent", r)
		o.move(g, 1)
	case "mergetag-with-gpgsig-lines":
		mt := mergetagHeader(r, o.idLen)
		mt.cont = append(mt.cont, "gpgsig nested", " deeper")
		o.insert(c+1, mt)
	case "gpgsig-after-other-sig-cont":
		g := o.ensure("gpgsig", r)
		o.insert(g, hline{key: "gpgsig-sha512", val: "other", cont: []string{"cont1", "cont2"}})
	case "author-tab-separator":
		// "author\tName ..." is not an author header for git (needs "author ")
		h := o.remove(a)
		o.insert(a, hline{key: "author\t" + h.val, nosp: true})
	case "header-cont-at-start":
		// continuation line directly after tree: belongs to no extra header
		o.h[0].cont = []string{"stray continuation"}
	default:
		panic("unknown perturbation " + p)
	}
	return true
}

// ---------- tags ----------

func baseTag(r *rand.Rand, idLen int) (*rawObj, []string) {
	o := &rawObj{kind: "tag", blank: true, idLen: idLen}
	var feat []string
	o.h = append(o.h, hline{key: "object", val: hexID(r, idLen)})
	ty := []string{"commit", "commit", "tree", "blob", "tag"}[r.Intn(5)]
	o.h = append(o.h, hline{key: "type", val: ty})
	o.h = append(o.h, hline{key: "tag", val: []string{"v1.0", "release/2024-01", "x", "v1.0-rc1+build", "名前"}[r.Intn(5)]})
	o.h = append(o.h, hline{key: "tagger", val: normalIdent(r)})
	feat = append(feat, "t-"+ty)
	o.msg = []string{"release\n", "release\n\nnotes\nmore\n", "", "no newline", "subject\n\n\n"}[r.Intn(5)]
	if r.Intn(4) != 0 && (o.msg == "" || strings.HasSuffix(o.msg, "\n")) {
		o.msg += strings.Join(sigLines(r), "\n") + "\n"
		feat = append(feat, "inline-sig")
	}
	return o, feat
}

var tagPerturbations = []string{
	"tagger-missing", "tag-header-missing", "dup-tagger", "dup-object", "extra-header", "extra-header-multiline", "gpgsig-sha256-header", "gpgsig-header",
	"no-blank-line", "no-blank-no-final-nl", "uppercase-hex-object", "two-inline-signatures", "inline-sig-not-at-end", "inline-sig-no-final-nl", "inline-sig-only-begin-line",
	"message-leading-blank-lines", "tag-name-empty", "tag-name-with-spaces", "type-unknown",
	"three-gpgsig-headers", "gpgsig-like-header", "sig-begin-mid-line", "ssh-then-pgp", "pgp-message-block", "sig-after-blank-lines", "gpgsig-in-body",
}

func init() {
	for _, v := range identVariants {
		tagPerturbations = append(tagPerturbations, "tagger-ident:"+v.name)
	}
}

func applyTag(o *rawObj, p string, r *rand.Rand) bool {
	if strings.HasPrefix(p, "tagger-ident:") {
		if o.find("tagger") < 0 {
			return false
		}
		o.h[o.find("tagger")].val = identVal(strings.TrimPrefix(p, "tagger-ident:"))
		return true
	}
	tg := o.find("tagger")
	if tg < 0 || o.find("tag") < 0 {
		return false
	}
	switch p {
	case "tagger-missing":
		o.remove(tg)
	case "tag-header-missing":
		o.remove(o.find("tag"))
	case "dup-tagger":
		o.insert(tg+1, hline{key: "tagger", val: normalIdent(r)})
	case "dup-object":
		o.insert(tg+1, hline{key: "object", val: hexID(r, o.idLen)})
	case "extra-header":
		o.insert(tg+1, hline{key: "x-extra", val: "v"})
	case "extra-header-multiline":
		o.insert(tg+1, hline{key: "x-extra", val: "v", cont: []string{"w", ""}})
	case "gpgsig-sha256-header":
		o.insert(tg+1, sigHeader("gpgsig-sha256", sigLines(r)))
	case "gpgsig-header":
		o.insert(tg+1, sigHeader("gpgsig", sigLines(r)))
	case "no-blank-line":
		o.blank, o.msg = false, ""
	case "no-blank-no-final-nl":
		o.blank, o.msg, o.noFinalNL = false, "", true
	case "uppercase-hex-object":
		o.h[0].val = strings.ToUpper(o.h[0].val)
	case "two-inline-signatures":
		o.msg = "msg\n" + strings.Join(pgpSig, "\n") + "\n" + strings.Join(sshSig, "\n") + "\n"
	case "inline-sig-not-at-end":
		o.msg = "msg\n" + strings.Join(pgpSig, "\n") + "\ntrailing text\n"
	case "inline-sig-no-final-nl":
		o.msg = "msg\n" + strings.Join(pgpSig, "\n")
	case "inline-sig-only-begin-line":
		o.msg = "msg\n-----BEGIN PGP SIGNATURE-----\n"
	case "three-gpgsig-headers":
		o.insert(tg+1, sigHeader("gpgsig", pgpSig))
		o.insert(tg+2, sigHeader("gpgsig-sha256", sshSig))
		o.insert(tg+3, sigHeader("gpgsig", x509Sig))
	case "gpgsig-like-header":
		o.insert(tg+1, hline{key: "gpgsigx", val: "v", cont: []string{"w"}})
	case "sig-begin-mid-line":
		o.msg = "msg -----BEGIN PGP SIGNATURE-----\nnot a block\n"
	case "ssh-then-pgp":
		o.msg = "msg\n" + strings.Join(sshSig, "\n") + "\n" + strings.Join(pgpSig, "\n") + "\n"
	case "pgp-message-block":
		o.msg = "msg\n-----BEGIN PGP MESSAGE-----\nabc\n-----END PGP MESSAGE-----\n"
	case "sig-after-blank-lines":
		o.msg = "msg\n\n\n" + strings.Join(x509Sig, "\n") + "\n"
	case "gpgsig-in-body":
		o.msg = "msg\ngpgsig fake\n cont\n" + strings.Join(pgpSig, "\n") + "\n"
	case "message-leading-blank-lines":
		o.msg = "\n\nmsg\n"
	case "tag-name-empty":
		o.h[o.find("tag")].val = ""
	case "tag-name-with-spaces":
		o.h[o.find("tag")].val = "a b  c "
	case "type-unknown":
		o.h[1].val = "banana"
	default:
		panic("unknown tag perturbation " + p)
	}
	return true
}
