// C03: the payload and signature go-git uses for verification equal what git
// hands to its verifier.
//
// Oracle: git verify-commit / verify-tag --raw with gpg.program,
// gpg.x509.program and gpg.ssh.program pointing to stub scripts that copy
// their stdin (the payload) and the signature file into a per-case directory.
// go-git side: Commit/Tag.EncodeWithoutSignature and the Signature field (the
// inputs of Commit.Verify / Tag.Verify).
package main

import (
	"bytes"
	"fmt"
	"io"
	"math/rand"
	"os"
	"path/filepath"
	"sort"
	"strings"
	"sync"
	"time"

	"github.com/go-git/go-billy/v6/osfs"
	"github.com/go-git/go-git/v6/plumbing"
	"github.com/go-git/go-git/v6/plumbing/cache"
	"github.com/go-git/go-git/v6/plumbing/object"
	"github.com/go-git/go-git/v6/storage/filesystem"

	"verif/internal/gitx"
	"verif/internal/vf"
)

func main() {
	vf.Main("C03", "exploration",
		"cases = stored commits/tags built from a canonical base (with gpgsig in 3 of 4 commits, inline PGP/SSH/X.509 signature in 3 of 4 tags) + 0..3 named perturbations (0/1/2/3 gpgsig headers, gpgsig-sha256 alone/with gpgsig/twice, signature headers in every header position, continuation-line shapes, headers that merely start with 'gpgsig', signature text inside mergetag or message, several inline blocks in a tag, block not at end, PGP MESSAGE blocks, plus all header-order/identity perturbations of C02), in sha1 and sha256 repositories, each multi-perturbation case with its single-perturbation siblings; plus commits and tags signed by git itself through a stub signer; plus decoded objects whose fields were mutated (oracle = git verifying the object go-git encodes from the mutated struct); shape = (kind, format, base features, perturbation set); non-trivial = carries at least one signature or perturbation",
		run)
}

type kase struct {
	kind, fname string
	group       int
	perts, feat []string
	obj         *rawObj
	raw         []byte
	id          string
	origin      string

	gitCalled  bool
	gitPayload []byte
	gitSig     []byte
	gitProg    string
	gitRes     gitx.Result
	fails      map[string]string
}

// Stub programs (POSIX sh; a shell start is several times cheaper than re-executing this binary).
//
//	gpg/gpgsm:  <prog> --keyid-format=long --status-fd=1 --verify <sigfile> -      (payload on stdin)
//	ssh-keygen: <prog> -Y find-principals -f <allowed> -s <sigfile> ...            (prints principals)
//	            <prog> -Y verify|check-novalidate ... -s <sigfile>                 (payload on stdin)
//	signing:    <prog> --status-fd=2 -bsau <key>                                   (payload on stdin, armor on stdout)
const gpgStub = `#!/bin/sh
sig=""; prev=""
for a in "$@"; do if [ "$prev" = "--verify" ]; then sig="$a"; fi; prev="$a"; done
cat > "$C03_OUT/payload"
cat "$sig" > "$C03_OUT/sig"
echo "${0##*/}" > "$C03_OUT/prog"
echo "[GNUPG:] NEWSIG
[GNUPG:] GOODSIG 0123456789ABCDEF Stub Signer <stub@example.com>
[GNUPG:] VALIDSIG 0123456789ABCDEF0123456789ABCDEF01234567 2020-01-01 1577836800 0 4 0 1 8 00 0123456789ABCDEF0123456789ABCDEF01234567
[GNUPG:] TRUST_ULTIMATE 0 pgp"
exit 0
`

const sshStub = `#!/bin/sh
mode=""; sig=""; prev=""
for a in "$@"; do
  if [ "$prev" = "-Y" ]; then mode="$a"; fi
  if [ "$prev" = "-s" ]; then sig="$a"; fi
  prev="$a"
done
case "$mode" in
  find-principals) echo "stub@example.com"; exit 0;;
  verify|check-novalidate) cat > "$C03_OUT/payload"; cat "$sig" > "$C03_OUT/sig"; echo "${0##*/}" > "$C03_OUT/prog"
     echo 'Good "git" signature for stub@example.com with ED25519 key SHA256:stubstubstubstubstubstubstubstubstubstubstub'; exit 0;;
esac
exit 1
`

const signStub = `#!/bin/sh
cat > /dev/null
echo "[GNUPG:] SIG_CREATED D 1 8 00 1577836800 0123456789ABCDEF0123456789ABCDEF01234567" >&2
echo "-----BEGIN PGP SIGNATURE-----

c3R1YiBzaWduYXR1cmU=
=stub
-----END PGP SIGNATURE-----"
exit 0
`

func openStorage(dir string) *filesystem.Storage {
	return filesystem.NewStorageWithOptions(osfs.New(filepath.Join(dir, ".git")), cache.NewObjectLRU(1<<20), filesystem.Options{})
}

func readAll(o plumbing.EncodedObject) []byte {
	r, err := o.Reader()
	if err != nil {
		return nil
	}
	defer r.Close()
	b, _ := io.ReadAll(r)
	return b
}

func run(c *vf.Ctx) {
	g := gitx.New(c.Scratch)
	g.Timeout = 20 * time.Minute
	bin := c.TempDir("stubs")
	for name, body := range map[string]string{"gpg-stub": gpgStub, "gpgsm-stub": gpgStub, "ssh-stub": sshStub, "sign-stub": signStub} {
		c.Must(os.WriteFile(filepath.Join(bin, name), []byte(body), 0o755), "write stub")
	}
	allowed := filepath.Join(bin, "allowed_signers")
	c.Must(os.WriteFile(allowed, []byte("stub@example.com ssh-ed25519 AAAAC3NzaC1lZDI1NTE5AAAAIstub\n"), 0o644), "allowed signers")
	g.Extra = []string{"-c", "gpg.program=" + filepath.Join(bin, "gpg-stub"), "-c", "gpg.x509.program=" + filepath.Join(bin, "gpgsm-stub"),
		"-c", "gpg.ssh.program=" + filepath.Join(bin, "ssh-stub"), "-c", "gpg.ssh.allowedSignersFile=" + allowed}

	for _, fname := range []string{"sha1", "sha256"} {
		idLen := 40
		nC, nT := c.N(90, 700), c.N(40, 250)
		if fname == "sha256" {
			idLen = 64
			nC, nT = c.N(30, 250), c.N(15, 100)
		}
		if !side(c, g, bin, fname, idLen, nC, nT) {
			return
		}
	}
	c.Extra("git_invocations", gitx.Calls.Load())
	c.Floor("objects where git called its verifier", c.Counter("git_verifier_calls"), c.N(130, 1100))
	c.Floor("payload comparisons", c.Counter("payload_comparisons"), c.N(130, 1100))
	c.Floor("objects without signature (both sides must refuse)", c.Counter("unsigned_objects"), c.N(30, 150))
	c.Floor("mutated-after-decode objects", c.Counter("mutated_cases"), c.N(25, 200))
	c.Floor("objects signed by git", c.Counter("git_signed_objects"), 8)
	c.Floor("verifier programs seen", c.SeenCount("verifier_programs"), 3)
	c.Floor("distinct perturbations exercised", c.SeenCount("perturbations"), 80)
	c.Assume("go-git has no pluggable verifier: the payload is Commit/Tag.EncodeWithoutSignature and the signature is the Signature field, exactly the two inputs of Commit.Verify / Tag.Verify")
	c.Assume("acceptance itself is not compared (the stub accepts everything); equality of (payload, signature) pairs and of 'no signature => verifier not called' is")
	c.Assume("objects on which git verify-commit/verify-tag dies before reaching the verifier although a signature header exists (unknown signature format) are not judged")
	c.Assume("for mutated structs the signature is compared modulo one final LF (struct field vs. header re-parsed by git)")
	c.Assume("for mutated structs the reference is git verifying the object go-git itself encodes from the mutated struct")
}

func side(c *vf.Ctx, g *gitx.Git, bin, fname string, idLen, nCommits, nTags int) bool {
	dir := c.TempDir("repo-" + fname)
	c.Must(g.Init(dir, false, fname), "git init")
	r := c.Rand("raw", fname)
	var cases []*kase
	add := func(kind string, group int, perts, feat []string, o *rawObj) {
		cases = append(cases, &kase{kind: kind, fname: fname, group: group, perts: perts, feat: feat, obj: o, raw: o.bytes(), origin: "generated", fails: map[string]string{}})
	}
	sigFirst := func(plist []string) []string { // signature-related perturbations first, so that the walk-through covers them even in small runs
		var a, b []string
		for _, p := range plist {
			if strings.Contains(p, "sig") || strings.Contains(p, "mergetag") || strings.Contains(p, "extra-key-like") || strings.Contains(p, "blank") {
				a = append(a, p)
			} else {
				b = append(b, p)
			}
		}
		return append(a, b...)
	}
	cp, tp := sigFirst(commitPerturbations), sigFirst(tagPerturbations)
	mk := func(kind string, group int, plist []string, base func(*rand.Rand, int) (*rawObj, []string), apply func(*rawObj, string, *rand.Rand) bool) {
		seed := r.Int63()
		b, feat := base(rand.New(rand.NewSource(seed)), idLen)
		var L []string
		if group < len(plist) && fname == "sha1" {
			L = []string{plist[group]}
		} else {
			for k := []int{0, 1, 1, 1, 2, 2, 3}[r.Intn(7)]; k > 0; k-- {
				p := plist[r.Intn(len(plist))]
				if r.Intn(2) == 0 {
					p = plist[r.Intn(len(plist)/3)] // bias to the signature-related third
				}
				dup := false
				for _, q := range L {
					if q == p || (strings.Contains(p, "-ident:") && strings.HasPrefix(q, p[:strings.Index(p, ":")])) {
						dup = true
					}
				}
				if !dup {
					L = append(L, p)
				}
			}
		}
		try := func(ps []string) *rawObj {
			o := b.clone()
			for _, p := range ps {
				var okp bool
				if pv, _ := vf.Catch(func() { okp = apply(o, p, rand.New(rand.NewSource(seed^int64(len(p))*7919))) }); pv != nil || !okp {
					return nil
				}
			}
			return o
		}
		if len(L) != 1 {
			add(kind, group, nil, feat, b)
		}
		for _, p := range L {
			if o := try([]string{p}); o != nil {
				add(kind, group, []string{p}, feat, o)
			}
		}
		if len(L) > 1 {
			if o := try(L); o != nil {
				add(kind, group, append([]string(nil), L...), feat, o)
			}
		}
	}
	for i := 0; i < nCommits; i++ {
		mk("commit", i, cp, baseCommit, applyCommit)
	}
	for i := 0; i < nTags; i++ {
		mk("tag", i, tp, baseTag, applyTag)
	}
	// store generated objects
	for _, kind := range []string{"commit", "tag"} {
		var sub []*kase
		var bodies [][]byte
		for _, k := range cases {
			if k.kind == kind {
				sub = append(sub, k)
				bodies = append(bodies, k.raw)
			}
		}
		ids, ok := storeRaw(c, g, dir, kind, bodies, kind+"-"+fname)
		if !ok {
			return false
		}
		for i, k := range sub {
			k.id = ids[i]
		}
	}
	// objects signed by git through the signing stub
	signed, ok := gitSigned(c, g, bin, dir, fname)
	if !ok {
		return false
	}
	cases = append(cases, signed...)

	// mutated-after-decode objects: decode, mutate a field, encode fully -> a new stored object whose payload git defines
	st := openStorage(dir)
	defer st.Close()
	type mut struct {
		k       *kase
		name    string
		payload []byte // go-git's EncodeWithoutSignature of the mutated struct
		sig     string
		sig256  string
		err     error
	}
	var muts []*mut
	mr := c.Rand("mutate", fname)
	for _, k := range cases {
		if k.origin != "generated" || len(k.perts) > 1 || mr.Intn(3) != 0 {
			continue
		}
		h, _ := plumbing.FromHex(k.id)
		var full, payload []byte
		var sig, sig256, name string
		var err error
		pv, _ := vf.Catch(func() {
			if k.kind == "commit" {
				var cm *object.Commit
				cm, err = object.GetCommit(st, h)
				if err != nil {
					return
				}
				switch mr.Intn(5) {
				case 0:
					cm.Message += "mutated\n"
					name = "message"
				case 1:
					cm.Author.Name = "Mutated Author"
					name = "author-name"
				case 2:
					cm.Committer.When = cm.Committer.When.Add(time.Hour)
					name = "committer-time"
				case 3:
					cm.ParentHashes = append(cm.ParentHashes, cm.TreeHash)
					name = "parents"
				default:
					cm.ExtraHeaders = append(cm.ExtraHeaders, object.ExtraHeader{Key: "x-added", Value: "l1\nl2"})
					name = "extra-header"
				}
				mo, po := &plumbing.MemoryObject{}, &plumbing.MemoryObject{}
				if err = cm.Encode(mo); err != nil {
					return
				}
				if err = cm.EncodeWithoutSignature(po); err != nil {
					return
				}
				full, payload, sig, sig256 = readAll(mo), readAll(po), cm.Signature, cm.SignatureSHA256
			} else {
				var tg *object.Tag
				tg, err = object.GetTag(st, h)
				if err != nil {
					return
				}
				switch mr.Intn(3) {
				case 0:
					if tg.Message != "" && !strings.HasSuffix(tg.Message, "\n") {
						tg.Message += "\n"
					}
					tg.Message = "mutated\n" + tg.Message
					name = "message"
				case 1:
					tg.Name += "-mutated"
					name = "name"
				default:
					tg.Tagger.Email = "mutated@example.com"
					name = "tagger-email"
				}
				mo, po := &plumbing.MemoryObject{}, &plumbing.MemoryObject{}
				if err = tg.Encode(mo); err != nil {
					return
				}
				if err = tg.EncodeWithoutSignature(po); err != nil {
					return
				}
				full, payload, sig, sig256 = readAll(mo), readAll(po), tg.Signature, tg.SignatureSHA256
			}
		})
		if pv != nil {
			k.fails["panic-mutate"] = fmt.Sprintf("panic while mutating/encoding: %v", pv)
			continue
		}
		if err != nil || full == nil {
			continue // undecodable objects are C02's business
		}
		nk := &kase{kind: k.kind, fname: fname, group: k.group, perts: k.perts, feat: append(append([]string{}, k.feat...), "mutated-"+name), raw: full, origin: "mutated", fails: map[string]string{}}
		muts = append(muts, &mut{k: nk, name: name, payload: payload, sig: sig, sig256: sig256})
	}
	for _, kind := range []string{"commit", "tag"} {
		var sub []*mut
		var bodies [][]byte
		for _, m := range muts {
			if m.k.kind == kind {
				sub = append(sub, m)
				bodies = append(bodies, m.k.raw)
			}
		}
		ids, ok := storeRaw(c, g, dir, kind, bodies, "mut-"+kind+"-"+fname)
		if !ok {
			return false
		}
		for i, m := range sub {
			m.k.id = ids[i]
		}
	}
	mutOf := map[*kase]*mut{}
	for _, m := range muts {
		cases = append(cases, m.k)
		mutOf[m.k] = m
	}

	// git side: one verify per object, stub captures payload + signature
	outRoot := c.TempDir("out-" + fname)
	timedOut := false
	var mu sync.Mutex
	vf.Parallel(len(cases), 8, func(i int) {
		k := cases[i]
		out := filepath.Join(outRoot, fmt.Sprintf("%06d", i))
		os.MkdirAll(out, 0o755)
		gg := *g
		gg.Env = append(append([]string{}, g.Env...), "C03_OUT="+out)
		cmd := "verify-commit"
		if k.kind == "tag" {
			cmd = "verify-tag"
		}
		res := gg.Run(dir, cmd, "--raw", k.id)
		if res.Timeout {
			mu.Lock()
			timedOut = true
			mu.Unlock()
			return
		}
		k.gitRes = res
		if p, err := os.ReadFile(filepath.Join(out, "payload")); err == nil {
			k.gitCalled = true
			k.gitPayload = p
			k.gitSig, _ = os.ReadFile(filepath.Join(out, "sig"))
			pr, _ := os.ReadFile(filepath.Join(out, "prog"))
			k.gitProg = filepath.Base(strings.TrimSpace(string(pr)))
		}
		os.RemoveAll(out)
	})
	if timedOut {
		c.Inconclusive("git verify timed out")
		return false
	}

	// go-git side
	for _, k := range cases {
		for _, p := range k.perts {
			c.Seen("perturbations", k.kind+":"+p)
		}
		nontrivial := len(k.perts) > 0 || k.gitCalled || k.origin != "generated"
		c.Eval(fmt.Sprintf("%s %s %s %v [%s]", k.kind, fname, k.origin, k.feat, strings.Join(k.perts, "+")), nontrivial)
		var payload []byte
		var sig, sig256 string
		if m := mutOf[k]; m != nil {
			payload, sig, sig256 = m.payload, m.sig, m.sig256
			c.Count("mutated_cases", 1)
		} else {
			h, _ := plumbing.FromHex(k.id)
			var err error
			pv, stk := vf.Catch(func() {
				po := &plumbing.MemoryObject{}
				if k.kind == "commit" {
					var cm *object.Commit
					if cm, err = object.GetCommit(st, h); err != nil {
						return
					}
					if err = cm.EncodeWithoutSignature(po); err != nil {
						return
					}
					sig, sig256 = cm.Signature, cm.SignatureSHA256
				} else {
					var tg *object.Tag
					if tg, err = object.GetTag(st, h); err != nil {
						return
					}
					if err = tg.EncodeWithoutSignature(po); err != nil {
						return
					}
					sig, sig256 = tg.Signature, tg.SignatureSHA256
				}
				payload = readAll(po)
			})
			if pv != nil {
				k.fails["panic"] = fmt.Sprintf("go-git panicked: %v\n%s", pv, stk)
				continue
			}
			if err != nil {
				// verify-tag/verify-commit do not parse much; whether go-git must decode such an object is C02's question
				c.Count("objects_gogit_cannot_decode", 1)
				continue
			}
		}
		if !k.gitCalled {
			// git found no signature (or died before the verifier): go-git must have no signature to verify either
			errText := strings.TrimSpace(string(k.gitRes.Err))
			if strings.Contains(errText, "no signature found") || (k.kind == "commit" && k.gitRes.Code == 1 && errText == "" && !hasHeader(k.raw, map[string]string{"sha1": "gpgsig ", "sha256": "gpgsig-sha256 "}[fname])) {
				c.Count("unsigned_objects", 1)
				if sig != "" && k.kind == "commit" && fname == "sha256" {
					k.fails["signature-sha256-repo-uses-gpgsig-sha256"] = fmt.Sprintf("in a SHA-256 repository git finds no signature (no gpgsig-sha256 header) and does not call its verifier; go-git's Commit.Signature = %q (gpgsig header)", sig)
				} else if sig != "" {
					k.fails["signature-where-git-has-none"] = fmt.Sprintf("git finds no signature and does not call its verifier; go-git Signature = %q", sig)
				}
			} else {
				c.Count("git_died_before_verifier", 1)
				if os.Getenv("VERIF_DEBUG") != "" {
					fmt.Fprintf(os.Stderr, "DIED %s %v :: %s\n", k.kind, k.perts, strings.SplitN(string(k.gitRes.Err), "\n", 2)[0])
				}
			}
			continue
		}
		if k.kind == "tag" && countSigHeaders(k.raw) >= 2 {
			c.Count("tags_with_several_signature_headers_not_judged", 1)
			continue
		}
		c.Count("git_verifier_calls", 1)
		c.Seen("verifier_programs", k.gitProg)
		c.Count("payload_comparisons", 1)
		if !bytes.Equal(payload, k.gitPayload) && k.kind == "commit" && !keepsRealSigHeader(payload) && bytes.Equal(stripGpgsigPrefixed(payload), k.gitPayload) {
			k.fails["payload-keeps-header-starting-with-gpgsig"] = fmt.Sprintf("git drops every header line that starts with \"gpgsig\" (and its continuation lines) from the commit payload; go-git drops only gpgsig and gpgsig-sha256: go-git %s, git %s", vf.Q(payload), vf.Q(k.gitPayload))
		} else if !bytes.Equal(payload, k.gitPayload) {
			k.fails["payload"] = fmt.Sprintf("payload differs: go-git %s, git hands its verifier %s", vf.Q(payload), vf.Q(k.gitPayload))
		}
		if mutOf[k] != nil && strings.TrimSuffix(sig, "\n") == strings.TrimSuffix(string(k.gitSig), "\n") {
			// struct field vs. re-parsed header: a final LF is added by the header syntax itself
		} else if sig != string(k.gitSig) {
			if k.kind == "commit" && fname == "sha256" && sig256 == string(k.gitSig) {
				k.fails["signature-sha256-repo-uses-gpgsig-sha256"] = fmt.Sprintf("in a SHA-256 repository git verifies the gpgsig-sha256 header (%q); go-git's Commit.Verify uses Commit.Signature = %q (gpgsig) and keeps git's signature in SignatureSHA256", k.gitSig, sig)
			} else {
				k.fails["signature"] = fmt.Sprintf("signature differs: go-git %q, git hands its verifier %q", sig, k.gitSig)
			}
		}
		if len(k.fails) == 0 && len(k.perts) > 0 && k.group%40 == 3 {
			c.Sample(map[string]any{"kind": k.kind, "format": fname, "perturbations": k.perts, "raw": vf.Q(k.raw), "payload_bytes": len(payload), "verifier": k.gitProg, "agree": true})
		}
	}
	report(c, cases)
	return true
}

func headerPart(raw []byte) []string {
	var out []string
	for _, ln := range strings.SplitAfter(string(raw), "\n") {
		if ln == "\n" || ln == "" {
			break
		}
		out = append(out, ln)
	}
	return out
}

// keepsRealSigHeader: the payload still contains a genuine gpgsig / gpgsig-sha256 header (never part of the known finding).
func keepsRealSigHeader(p []byte) bool {
	return hasHeader(p, "gpgsig ") || hasHeader(p, "gpgsig-sha256 ")
}

func hasHeader(raw []byte, prefix string) bool {
	for _, ln := range headerPart(raw) {
		if strings.HasPrefix(ln, prefix) {
			return true
		}
	}
	return false
}

func countSigHeaders(raw []byte) int {
	n := 0
	for _, ln := range headerPart(raw) {
		if strings.HasPrefix(ln, "gpgsig") {
			n++
		}
	}
	return n
}

// stripGpgsigPrefixed removes header lines starting with "gpgsig" and their continuation lines (git's rule for commit payloads).
func stripGpgsigPrefixed(p []byte) []byte {
	var b bytes.Buffer
	lines := strings.SplitAfter(string(p), "\n")
	skipping, body := false, false
	for _, ln := range lines {
		if body {
			b.WriteString(ln)
			continue
		}
		switch {
		case ln == "\n":
			body = true
			b.WriteString(ln)
		case skipping && strings.HasPrefix(ln, " "):
		case strings.HasPrefix(ln, "gpgsig"):
			skipping = true
		default:
			skipping = false
			b.WriteString(ln)
		}
	}
	return b.Bytes()
}

// report keys failures by the minimal perturbation.
func report(c *vf.Ctx, cases []*kase) {
	type gk struct {
		kind, origin string
		group        int
	}
	singles := map[gk]map[string]*kase{}
	for _, k := range cases {
		if len(k.perts) == 1 {
			m := singles[gk{k.kind, k.origin, k.group}]
			if m == nil {
				m = map[string]*kase{}
				singles[gk{k.kind, k.origin, k.group}] = m
			}
			m[k.perts[0]] = k
		}
	}
	for _, k := range cases {
		cls := make([]string, 0, len(k.fails))
		for cl := range k.fails {
			cls = append(cls, cl)
		}
		sort.Strings(cls)
		for _, cl := range cls {
			what := k.fails[cl]
			if cl == "signature-where-git-has-none" && len(k.perts) == 1 && k.perts[0] == "gpgsig-no-space-line" && k.origin == "generated" {
				cl = "signature" // same root cause as the known bare-"gpgsig"-line finding: the empty line is all go-git has
			}
			origin := ""
			if k.origin != "generated" {
				origin = ":" + k.origin
				if k.origin == "mutated" {
					origin += ":" + k.feat[len(k.feat)-1]
				}
			}
			var key string
			switch {
			case cl == "signature-sha256-repo-uses-gpgsig-sha256" || cl == "payload-keeps-header-starting-with-gpgsig":
				key = cl
			case k.origin == "git-signed":
				key = fmt.Sprintf("%s:%s:%s:git-signed:%s", cl, k.kind, k.fname, strings.Join(k.feat, ","))
			case len(k.perts) == 0:
				key = fmt.Sprintf("%s:%s%s:canonical:%s:%s", cl, k.kind, origin, k.fname, strings.Join(k.feat, ","))
			case len(k.perts) == 1:
				key = fmt.Sprintf("%s:%s%s:%s", cl, k.kind, origin, k.perts[0])
			default:
				explained := false
				for _, p := range k.perts {
					if s := singles[gk{k.kind, "generated", k.group}][p]; s != nil {
						if _, f := s.fails[cl]; f {
							explained = true
						}
					}
				}
				if explained {
					c.Count("multi_perturbation_failures_explained_by_a_single", 1)
					continue
				}
				ps := append([]string(nil), k.perts...)
				sort.Strings(ps)
				key = fmt.Sprintf("%s:%s%s:combo:%s", cl, k.kind, origin, strings.Join(ps, "+"))
			}
			if os.Getenv("VERIF_DEBUG") != "" {
				fmt.Fprintf(os.Stderr, "DBG %s :: %s :: raw=%s\n", key, what, vf.Q(k.raw))
			}
			c.Fail(key, fmt.Sprintf("%s %s (%s, %s; base %v; perturbations %v): %s", k.kind, k.id, k.fname, k.origin, k.feat, k.perts, what),
				map[string]any{"kind": k.kind, "format": k.fname, "origin": k.origin, "raw": vf.Q(k.raw), "raw_hex": vf.Hex(k.raw), "perturbations": k.perts, "clause": cl})
		}
	}
}

// storeRaw writes bodies with git hash-object --literally and returns their ids.
func storeRaw(c *vf.Ctx, g *gitx.Git, dir, typ string, bodies [][]byte, tag string) ([]string, bool) {
	if len(bodies) == 0 {
		return nil, true
	}
	tmp := c.TempDir("raw-" + tag)
	defer os.RemoveAll(tmp)
	var paths []string
	for i, b := range bodies {
		p := filepath.Join(tmp, fmt.Sprintf("o%06d", i))
		c.Must(os.WriteFile(p, b, 0o644), "write raw object")
		paths = append(paths, p)
	}
	var ids []string
	for at := 0; at < len(paths); at += 1000 {
		chunk := paths[at:min(at+1000, len(paths))]
		res := g.RunIn(dir, []byte(strings.Join(chunk, "\n")+"\n"), "hash-object", "-t", typ, "--literally", "-w", "--no-filters", "--stdin-paths")
		if res.Timeout {
			c.Inconclusive("git hash-object timed out")
			return nil, false
		}
		got := strings.Fields(string(res.Out))
		if res.Code != 0 || len(got) != len(chunk) {
			c.Broken("git hash-object -t %s --literally: %s", typ, res)
			return nil, false
		}
		ids = append(ids, got...)
	}
	return ids, true
}

// gitSigned lets git itself create signed commits and tags (signing stub).
func gitSigned(c *vf.Ctx, g *gitx.Git, bin, dir, fname string) ([]*kase, bool) {
	gs := *g
	gs.Extra = append(append([]string{}, g.Extra...), "-c", "gpg.program="+filepath.Join(bin, "sign-stub"), "-c", "user.signingkey=0123456789ABCDEF")
	tree, err := gs.MustOut(dir, "mktree")
	if err != nil {
		c.Broken("mktree: %v", err)
		return nil, false
	}
	var out []*kase
	var ids []string
	var prev string
	for i, msg := range []string{"signed\n", "signed\n\nbody\n", "no newline", "\nleading\n"} {
		args := []string{"commit-tree", "-S", tree}
		if prev != "" {
			args = append(args, "-p", prev)
		}
		res := gs.RunIn(dir, []byte(msg), args...)
		if res.Code != 0 {
			c.Broken("commit-tree -S: %s", res)
			return nil, false
		}
		prev = strings.TrimSpace(string(res.Out))
		out = append(out, &kase{kind: "commit", fname: fname, origin: "git-signed", feat: []string{fmt.Sprintf("commit-tree-S-%d", i)}, id: prev, fails: map[string]string{}})
		ids = append(ids, prev)
	}
	if r := gs.Run(dir, "update-ref", "refs/heads/master", prev); r.Code != 0 {
		c.Broken("update-ref: %s", r)
		return nil, false
	}
	for i, msg := range []string{"tag message\n", "tag\n\nwith body\n"} {
		name := fmt.Sprintf("signed-%d", i)
		if r := gs.Run(dir, "tag", "-s", "-m", msg, name, prev); r.Code != 0 {
			c.Broken("git tag -s: %s", r)
			return nil, false
		}
		id, err := gs.MustOut(dir, "rev-parse", "refs/tags/"+name)
		if err != nil {
			c.Broken("rev-parse: %v", err)
			return nil, false
		}
		out = append(out, &kase{kind: "tag", fname: fname, origin: "git-signed", feat: []string{fmt.Sprintf("tag-s-%d", i)}, id: id, fails: map[string]string{}})
		ids = append(ids, id)
	}
	res := g.RunIn(dir, []byte(strings.Join(ids, "\n")+"\n"), "cat-file", "--batch")
	if res.Code != 0 {
		c.Broken("cat-file --batch: %s", res)
		return nil, false
	}
	rest := res.Out
	for _, k := range out {
		nl := bytes.IndexByte(rest, '\n')
		var id, typ string
		var sz int
		fmt.Sscanf(string(rest[:nl]), "%s %s %d", &id, &typ, &sz)
		k.raw = append([]byte(nil), rest[nl+1:nl+1+sz]...)
		rest = rest[nl+1+sz+1:]
	}
	c.Count("git_signed_objects", len(out))
	return out, true
}
