// C15: the filesystem reference store behaves like a name->value map across
// Set / CheckAndSet / Remove / PackRefs sequences, git sees the same refs, and
// packing never changes, drops or corrupts a reference.
//
// Monitor: a map model (refmodel.RefMap) is stepped alongside the real
// filesystem.Storage on a real .git directory whose start state was written by
// git (loose, packed with peel lines, packed+loose, old header formats) or by
// go-git itself. After every operation go-git's Reference/IterReferences are
// compared with the map; an on-disk screen of packed-refs/loose files plus
// sampled positions trigger a comparison of `git for-each-ref`,
// `git show-ref --head -d` and `git symbolic-ref` on the same directory with
// the map (any git complaint on stderr is a failure).
package main

import (
	"errors"
	"fmt"
	"math/rand"
	"os"
	"path/filepath"
	"sort"
	"strings"

	"github.com/go-git/go-billy/v6/osfs"
	"github.com/go-git/go-git/v6/plumbing"
	"github.com/go-git/go-git/v6/plumbing/cache"
	"github.com/go-git/go-git/v6/storage"
	"github.com/go-git/go-git/v6/storage/filesystem"

	"verif/internal/gitx"
	"verif/internal/refmodel"
	"verif/internal/vf"
)

func main() {
	vf.Main("C15", "exploration",
		"case = start state (empty | git loose | git packed with peel lines | git packed+loose | packed --no-prune duplicates | re-headered/unsorted packed-refs) x generated sequence (6-40 ops) of go-git Set/CheckAndSet(right,wrong,absent old)/Remove/PackRefs/reopen and interleaved git pack-refs/update-ref over {HEAD, refs/heads/a, refs/heads/a/b, refs/heads/b, refs/tags/t, refs/tags/t2, refs/x/sym} plus, in 35% of the histories, four more symbolic refs (refs/heads/sym1, refs/remotes/o/HEAD, refs/x/y/sym3, refs/zz/sym4) with few direct refs and PackRefs aimed at moments with one or two loose direct refs; shape = start kind + sequence of (op kind, on-disk class of target); non-trivial = sequence touches a packed ref or packs; oracle = map model for go-git reads after every op, real git view of the same directory at start, after 65% of the PackRefs calls, at screen hits, at sampled positions and at the end",
		run)
}

// ---------------------------------------------------------------------------
// template repositories (objects only)

type pool struct {
	format  string
	dir     string            // template .git parent
	commits []string          // commit ids
	tags    []string          // tag object ids
	peel    map[string]string // tag object id -> fully peeled id
}

func buildTemplate(c *vf.Ctx, g *gitx.Git, format string) *pool {
	p := &pool{format: format, dir: c.TempDir("tmpl-" + format), peel: map[string]string{}}
	a := []string{"init", "-q", "--template="}
	if format == "sha256" {
		a = append(a, "--object-format=sha256")
	}
	a = append(a, ".")
	if r := g.Run(p.dir, a...); !r.OK() {
		c.Must(fmt.Errorf("%s", r), "git init template")
	}
	tree, err := g.MustOut(p.dir, "hash-object", "-t", "tree", "-w", "/dev/null")
	c.Must(err, "empty tree")
	parent := ""
	for i := 0; i < 4; i++ {
		args := []string{"commit-tree", "-m", fmt.Sprintf("c%d", i)}
		if parent != "" {
			args = append(args, "-p", parent)
		}
		args = append(args, tree)
		id, err := g.MustOut(p.dir, args...)
		c.Must(err, "commit-tree")
		p.commits = append(p.commits, id)
		parent = id
	}
	mktag := func(obj, typ, name string) string {
		in := fmt.Sprintf("object %s\ntype %s\ntag %s\ntagger T <t@example.com> 1700000000 +0000\n\nmsg\n", obj, typ, name)
		r := g.RunIn(p.dir, []byte(in), "mktag")
		if !r.OK() {
			c.Must(fmt.Errorf("%s", r), "mktag")
		}
		return strings.TrimSpace(string(r.Out))
	}
	t0 := mktag(p.commits[0], "commit", "t0")
	t1 := mktag(p.commits[1], "commit", "t1")
	tt := mktag(t0, "tag", "tt")
	p.tags = []string{t0, t1, tt}
	p.peel[t0] = p.commits[0]
	p.peel[t1] = p.commits[1]
	p.peel[tt] = p.commits[0]
	return p
}

func copyTree(src, dst string) error {
	return filepath.Walk(src, func(path string, info os.FileInfo, err error) error {
		if err != nil {
			return err
		}
		rel, _ := filepath.Rel(src, path)
		target := filepath.Join(dst, rel)
		if info.IsDir() {
			return os.MkdirAll(target, 0o755)
		}
		b, err := os.ReadFile(path)
		if err != nil {
			return err
		}
		return os.WriteFile(target, b, 0o644)
	})
}

// ---------------------------------------------------------------------------
// on-disk inspection (diagnosis and screening only; never decides alone)

type packedRec struct {
	line string // "<hex> <name>" or malformed
	name string
	hash string
	peel string // without '^'; "" if none
}

type disk struct {
	header   string
	recs     []packedRec
	bad      []string          // lines that are neither header, ref line nor a peel line attached to a ref line
	loose    map[string]string // name -> trimmed content ("" = empty file)
	emptyDir map[string]bool   // ref-name paths that are directories without any file below
	dirs     map[string]bool   // ref-name paths that are directories
}

// shadow tells what sits on the loose path of a name that has no loose file:
// "" (nothing), "empty-dir", "nonempty-dir", "parent-is-file".
func (d *disk) shadow(name string) string {
	if d.dirs[name] {
		if d.emptyDir[name] {
			return "empty-dir"
		}
		return "nonempty-dir"
	}
	parts := strings.Split(name, "/")
	for i := 1; i < len(parts); i++ {
		if _, ok := d.loose[strings.Join(parts[:i], "/")]; ok {
			return "parent-is-file"
		}
	}
	return ""
}

func isHex(s string, n int) bool {
	if len(s) != n {
		return false
	}
	for i := 0; i < len(s); i++ {
		ch := s[i]
		if !(ch >= '0' && ch <= '9' || ch >= 'a' && ch <= 'f') {
			return false
		}
	}
	return true
}

func readDisk(gitdir string, hexLen int) *disk {
	d := &disk{loose: map[string]string{}, emptyDir: map[string]bool{}, dirs: map[string]bool{}}
	if b, err := os.ReadFile(filepath.Join(gitdir, "packed-refs")); err == nil {
		lines := strings.Split(string(b), "\n")
		if len(lines) > 0 && lines[len(lines)-1] == "" {
			lines = lines[:len(lines)-1]
		}
		prevIsRef := false
		for i, ln := range lines {
			switch {
			case i == 0 && strings.HasPrefix(ln, "# pack-refs with:"):
				d.header = ln
				prevIsRef = false
			case strings.HasPrefix(ln, "^"):
				if prevIsRef && isHex(ln[1:], hexLen) && d.recs[len(d.recs)-1].peel == "" {
					d.recs[len(d.recs)-1].peel = ln[1:]
				} else {
					d.bad = append(d.bad, ln)
				}
				prevIsRef = prevIsRef && false
				// a second '^' line after the same ref is not attached to anything
			default:
				ws := strings.Split(ln, " ")
				if len(ws) == 2 && isHex(ws[0], hexLen) && strings.HasPrefix(ws[1], "refs/") {
					d.recs = append(d.recs, packedRec{line: ln, name: ws[1], hash: ws[0]})
					prevIsRef = true
				} else {
					d.bad = append(d.bad, ln)
					prevIsRef = false
				}
			}
		}
	}
	root := filepath.Join(gitdir, "refs")
	var walk func(dir string) int
	walk = func(dir string) int {
		ents, _ := os.ReadDir(dir)
		files := 0
		for _, e := range ents {
			p := filepath.Join(dir, e.Name())
			if e.IsDir() {
				n := walk(p)
				rel, _ := filepath.Rel(gitdir, p)
				d.dirs[filepath.ToSlash(rel)] = true
				if n == 0 {
					d.emptyDir[filepath.ToSlash(rel)] = true
				}
				files += n
				continue
			}
			files++
			b, _ := os.ReadFile(p)
			rel, _ := filepath.Rel(gitdir, p)
			d.loose[filepath.ToSlash(rel)] = strings.TrimSpace(string(b))
		}
		return files
	}
	walk(root)
	if b, err := os.ReadFile(filepath.Join(gitdir, "HEAD")); err == nil {
		d.loose["HEAD"] = strings.TrimSpace(string(b))
	}
	return d
}

func (d *disk) packed(name string) *packedRec {
	for i := range d.recs {
		if d.recs[i].name == name {
			return &d.recs[i]
		}
	}
	return nil
}

// class of a name: absent | loose | packed | both ; "+peel" when its packed record carries a peel line.
func (d *disk) class(name string) string {
	_, l := d.loose[name]
	p := d.packed(name)
	s := "absent"
	switch {
	case l && p != nil:
		s = "both"
	case l:
		s = "loose"
	case p != nil:
		s = "packed"
	}
	if p != nil && p.peel != "" {
		s += "+peel"
	}
	return s
}

// screen returns reasons why git might not read this directory the way the map says.
func (d *disk) screen(p *pool) []string {
	var out []string
	for _, b := range d.bad {
		out = append(out, "packed-refs line not attributable: "+b)
	}
	sorted := strings.Contains(d.header, " sorted")
	fully := strings.Contains(d.header, " fully-peeled")
	for i, r := range d.recs {
		if sorted && i > 0 && d.recs[i-1].name >= r.name {
			out = append(out, "header says sorted but "+d.recs[i-1].name+" >= "+r.name)
		}
		want := p.peel[r.hash]
		if r.peel != "" && r.peel != want {
			out = append(out, "peel line of "+r.name+" does not match its value")
		}
		if r.peel == "" && want != "" && fully {
			out = append(out, "fully-peeled header but tag-valued "+r.name+" has no peel line")
		}
	}
	for n, v := range d.loose {
		if v == "" {
			out = append(out, "empty loose ref file "+n)
		}
	}
	return out
}

// ---------------------------------------------------------------------------
// one sequence

type feat struct {
	Nested   bool   `json:"nested"`    // refs/heads/a/b in the universe
	Sym      bool   `json:"sym"`       // refs/x/sym (symbolic ref under refs/) in the universe
	RmPeeled bool   `json:"rm_peeled"` // may remove refs whose packed record has a peel line
	CasMiss  bool   `json:"cas_miss"`  // may issue failing CAS on names without a loose file
	ManySyms bool   `json:"many_syms"` // several symbolic refs under refs/ (in different directories, one nested) and few direct refs
	CasSym   bool   `json:"cas_sym"`   // may issue CAS with a symbolic old value whose target differs
	GitOps   bool   `json:"git_ops"`   // interleave git pack-refs/update-ref
	Format   string `json:"format"`
}

type seq struct {
	forced     []string // follow-up op kinds queued by the generator ("set-direct", "pack")
	c          *vf.Ctx
	g          *gitx.Git
	p          *pool
	r          *rand.Rand
	idx        int
	f          feat
	start      string
	work       string // worktree dir
	gitdir     string
	st         *filesystem.Storage
	m          refmodel.RefMap
	uni        []string
	log        []string
	shape      []string
	nontrivial bool
	hexLen     int
	views      int
}

type failure struct {
	clause string
	detail string
	names  []string // git-view: the names whose lines differ
}

// lineNames extracts the ref names from differing view lines.
func lineNames(diff string) []string {
	seen := map[string]bool{}
	var out []string
	for _, part := range strings.Split(diff, "}") {
		i := strings.Index(part, "{")
		if i < 0 {
			continue
		}
		for _, w := range strings.Fields(part[i+1:]) {
			w = strings.TrimSuffix(w, "^{}")
			if (w == "HEAD" || strings.HasPrefix(w, "refs/")) && !seen[w] {
				seen[w] = true
				out = append(out, w)
				break
			}
		}
	}
	return out
}

func (s *seq) open() {
	if s.st != nil {
		_ = s.st.Close()
	}
	s.st = filesystem.NewStorage(osfs.New(s.gitdir), cache.NewObjectLRUDefault())
}

func (s *seq) toRef(r refmodel.Ref) *plumbing.Reference {
	if r.Sym {
		return plumbing.NewSymbolicReference(plumbing.ReferenceName(r.Name), plumbing.ReferenceName(r.Target))
	}
	return plumbing.NewHashReference(plumbing.ReferenceName(r.Name), plumbing.NewHash(r.Hash))
}

func fromRef(r *plumbing.Reference) refmodel.Ref {
	if r.Type() == plumbing.SymbolicReference {
		return refmodel.Ref{Name: r.Name().String(), Sym: true, Target: r.Target().String()}
	}
	return refmodel.Ref{Name: r.Name().String(), Hash: r.Hash().String()}
}

// randomValue picks a valid value for name.
// extraSyms are further symbolic refs under refs/: next to branches, below refs/remotes, nested
// below the directory that holds refs/x/sym, and in a directory that sorts last.
var extraSyms = []string{"refs/heads/sym1", "refs/remotes/o/HEAD", "refs/x/y/sym3", "refs/zz/sym4"}

func isExtraSym(name string) bool {
	for _, n := range extraSyms {
		if n == name {
			return true
		}
	}
	return false
}

func (s *seq) randomValue(name string) refmodel.Ref {
	r := s.r
	switch {
	case isExtraSym(name):
		if r.Intn(10) == 0 {
			return refmodel.Ref{Name: name, Hash: s.p.commits[r.Intn(len(s.p.commits))]}
		}
		t := []string{"refs/heads/a", "refs/heads/b", "refs/tags/t", "refs/heads/master"}
		return refmodel.Ref{Name: name, Sym: true, Target: t[r.Intn(len(t))]}
	case name == "HEAD":
		if r.Intn(4) == 0 {
			return refmodel.Ref{Name: name, Hash: s.p.commits[r.Intn(len(s.p.commits))]}
		}
		t := []string{"refs/heads/a", "refs/heads/b", "refs/heads/master"}
		if s.f.Nested {
			t = append(t, "refs/heads/a/b")
		}
		return refmodel.Ref{Name: name, Sym: true, Target: t[r.Intn(len(t))]}
	case name == "refs/x/sym":
		if r.Intn(6) == 0 {
			return refmodel.Ref{Name: name, Hash: s.p.commits[r.Intn(len(s.p.commits))]}
		}
		t := []string{"refs/heads/a", "refs/heads/b", "refs/tags/t"}
		return refmodel.Ref{Name: name, Sym: true, Target: t[r.Intn(len(t))]}
	case strings.HasPrefix(name, "refs/tags/"):
		if r.Intn(3) == 0 {
			return refmodel.Ref{Name: name, Hash: s.p.commits[r.Intn(len(s.p.commits))]}
		}
		return refmodel.Ref{Name: name, Hash: s.p.tags[r.Intn(len(s.p.tags))]}
	default:
		return refmodel.Ref{Name: name, Hash: s.p.commits[r.Intn(len(s.p.commits))]}
	}
}

func (s *seq) otherHash(not string) string {
	all := append(append([]string{}, s.p.commits...), s.p.tags...)
	for {
		h := all[s.r.Intn(len(all))]
		if h != not {
			return h
		}
	}
}

// gitSet writes one ref with git (start states and interleaved git ops).
func (s *seq) gitSet(v refmodel.Ref) bool {
	var res gitx.Result
	if v.Sym {
		res = s.g.Run(s.work, "symbolic-ref", v.Name, v.Target)
	} else {
		res = s.g.Run(s.work, "update-ref", "--no-deref", v.Name, v.Hash)
	}
	return res.OK()
}

func (s *seq) setupStart() {
	r := s.r
	kinds := []string{"empty", "git-loose", "git-packed", "git-packed+loose", "git-packed-noprune", "reheadered"}
	s.start = kinds[r.Intn(len(kinds))]
	if s.f.ManySyms && r.Intn(100) < 50 {
		s.start = kinds[r.Intn(2)] // empty | git-loose: nothing is packed-only when the first PackRefs runs
	}
	s.m = refmodel.RefMap{"HEAD": {Name: "HEAD", Sym: true, Target: "refs/heads/master"}}
	if s.start == "empty" {
		return
	}
	populate := func(prob int) {
		var batch strings.Builder
		var hashRefs, symRefs []refmodel.Ref
		trial := s.m.Clone()
		for _, n := range s.uni {
			pr := prob
			if s.f.ManySyms && n != "HEAD" {
				pr = prob / 3 // few direct refs ...
				if isExtraSym(n) || n == "refs/x/sym" {
					pr = 85 // ... and most of the symbolic ones
				}
			}
			if r.Intn(100) >= pr {
				continue
			}
			v := s.randomValue(n)
			if _, exists := trial[n]; !exists && trial.DFConflict(n) {
				continue
			}
			trial.Set(v)
			if v.Sym && isExtraSym(n) {
				// the bytes `git symbolic-ref` writes; the start state as a whole is validated against git below
				path := filepath.Join(s.gitdir, filepath.FromSlash(n))
				s.c.Must(os.MkdirAll(filepath.Dir(path), 0o755), "mkdir for symbolic ref")
				s.c.Must(os.WriteFile(path, []byte("ref: "+v.Target+"\n"), 0o644), "write symbolic ref")
				s.m.Set(v)
				continue
			}
			if v.Sym || n == "HEAD" {
				symRefs = append(symRefs, v) // one git call each (HEAD cannot share a transaction with its referent)
			} else {
				hashRefs = append(hashRefs, v)
				fmt.Fprintf(&batch, "option no-deref\nupdate %s %s\n", v.Name, v.Hash)
			}
		}
		if len(hashRefs) > 0 {
			if res := s.g.RunIn(s.work, []byte(batch.String()), "update-ref", "--stdin"); !res.OK() {
				s.c.Broken("start state: git update-ref --stdin refused %v: %s", hashRefs, res)
				return
			}
			for _, v := range hashRefs {
				s.m.Set(v)
			}
		}
		for _, v := range symRefs {
			if !s.gitSet(v) {
				s.c.Broken("start state: git refused %v", v)
				continue
			}
			s.m.Set(v)
		}
	}
	populate(75)
	if s.start == "git-loose" {
		return
	}
	args := []string{"pack-refs", "--all"}
	if s.start == "git-packed-noprune" {
		args = append(args, "--no-prune")
	}
	if res := s.g.Run(s.work, args...); !res.OK() {
		s.c.Broken("start state: git pack-refs: %s", res)
	}
	switch s.start {
	case "git-packed+loose", "git-packed-noprune":
		populate(40)
		// git deletes a packed ref
		for _, n := range s.uni {
			if n == "HEAD" || r.Intn(8) != 0 {
				continue
			}
			if _, ok := s.m[n]; ok {
				if res := s.g.Run(s.work, "update-ref", "--no-deref", "-d", n); res.OK() {
					s.m.Remove(n)
				}
			}
		}
	case "reheadered":
		// packed-refs as older git / other writers leave it: no header or a header without
		// "sorted"/"fully-peeled", records in arbitrary order (peel lines stay attached).
		d := readDisk(s.gitdir, s.hexLen)
		recs := append([]packedRec{}, d.recs...)
		r.Shuffle(len(recs), func(i, j int) { recs[i], recs[j] = recs[j], recs[i] })
		var b strings.Builder
		switch r.Intn(3) {
		case 0:
		case 1:
			b.WriteString("# pack-refs with: peeled \n")
		case 2:
			b.WriteString("# pack-refs with: peeled fully-peeled \n")
		}
		for _, rec := range recs {
			b.WriteString(rec.line + "\n")
			if rec.peel != "" {
				b.WriteString("^" + rec.peel + "\n")
			}
		}
		if len(recs) > 0 {
			s.c.Must(os.WriteFile(filepath.Join(s.gitdir, "packed-refs"), []byte(b.String()), 0o644), "rewrite packed-refs")
		}
		if r.Intn(2) == 0 {
			populate(30)
		}
	}
}

// ---------------------------------------------------------------------------
// git's view of the directory vs the map

type view struct {
	forEach []string
	showRef []string
	syms    map[string]string // name -> target ("" = not symbolic)
	stderr  string
}

func (s *seq) expectedView() view {
	v := view{syms: map[string]string{}}
	for _, n := range s.m.Names() {
		ref := s.m[n]
		h, ok := s.m.Resolve(n)
		if n == "HEAD" {
			if ok {
				v.showRef = append(v.showRef, h+" HEAD")
			}
			continue
		}
		if !ok {
			continue
		}
		sym := ""
		if ref.Sym {
			sym = ref.Target
		}
		v.forEach = append(v.forEach, strings.TrimRight(n+" "+h+" "+sym, " "))
		v.showRef = append(v.showRef, h+" "+n)
		if pl, isTag := s.p.peel[h]; isTag {
			v.showRef = append(v.showRef, pl+" "+n+"^{}")
		}
	}
	for _, n := range []string{"HEAD", "refs/x/sym"} {
		if ref, ok := s.m[n]; ok {
			if ref.Sym {
				v.syms[n] = ref.Target
			} else {
				v.syms[n] = ""
			}
		}
	}
	sort.Strings(v.forEach)
	sort.Strings(v.showRef)
	return v
}

func splitLines(b []byte) []string {
	var out []string
	for _, l := range strings.Split(string(b), "\n") {
		l = strings.TrimRight(l, " ")
		if l != "" {
			out = append(out, l)
		}
	}
	sort.Strings(out)
	return out
}

func (s *seq) gitView(full bool) (view, bool) {
	v := view{syms: map[string]string{}}
	var errs []string
	fe := s.g.Run(s.work, "for-each-ref", "--format=%(refname) %(objectname) %(symref)")
	sr := s.g.Run(s.work, "show-ref", "--head", "-d")
	if fe.Timeout || sr.Timeout {
		return v, false
	}
	v.forEach = splitLines(fe.Out)
	v.showRef = splitLines(sr.Out)
	if fe.Code != 0 {
		errs = append(errs, fmt.Sprintf("for-each-ref exit %d", fe.Code))
	}
	if sr.Code != 0 && !(sr.Code == 1 && len(sr.Out) == 0 && len(sr.Err) == 0) {
		errs = append(errs, fmt.Sprintf("show-ref exit %d", sr.Code))
	}
	if len(fe.Err) > 0 {
		errs = append(errs, "for-each-ref: "+strings.TrimSpace(string(fe.Err)))
	}
	if len(sr.Err) > 0 {
		errs = append(errs, "show-ref: "+strings.TrimSpace(string(sr.Err)))
	}
	for _, n := range []string{"HEAD", "refs/x/sym"} {
		if _, ok := s.m[n]; !ok || (!full && n != "HEAD") {
			continue
		}
		res := s.g.Run(s.work, "symbolic-ref", "-q", n)
		if res.Timeout {
			return v, false
		}
		switch {
		case res.Code == 0:
			v.syms[n] = strings.TrimSpace(string(res.Out))
		case res.Code == 1 && len(res.Err) == 0:
			v.syms[n] = ""
		default:
			errs = append(errs, fmt.Sprintf("symbolic-ref %s exit %d: %s", n, res.Code, strings.TrimSpace(string(res.Err))))
		}
	}
	v.stderr = strings.Join(errs, " | ")
	s.views++
	return v, true
}

func diffLines(a, b []string) string {
	am, bm := map[string]bool{}, map[string]bool{}
	for _, x := range a {
		am[x] = true
	}
	for _, x := range b {
		bm[x] = true
	}
	var out []string
	for _, x := range a {
		if !bm[x] {
			out = append(out, "model-only{"+x+"}")
		}
	}
	for _, x := range b {
		if !am[x] {
			out = append(out, "git-only{"+x+"}")
		}
	}
	if len(a) != len(b) && len(out) == 0 {
		out = append(out, fmt.Sprintf("multiplicity differs: model %d lines, git %d lines", len(a), len(b)))
	}
	return strings.Join(out, " ")
}

// compareGit returns nil when git's view of the directory equals the map.
func (s *seq) compareGit(full bool) *failure {
	got, ok := s.gitView(full)
	if !ok {
		s.c.Inconclusive("git timed out in sequence %d", s.idx)
		return nil
	}
	if got.stderr != "" {
		return &failure{clause: "git-error", detail: got.stderr}
	}
	want := s.expectedView()
	if d := diffLines(want.forEach, got.forEach); d != "" {
		return &failure{clause: "git-view", detail: "for-each-ref: " + d, names: lineNames(d)}
	}
	if d := diffLines(want.showRef, got.showRef); d != "" {
		return &failure{clause: "git-view", detail: "show-ref --head -d: " + d, names: lineNames(d)}
	}
	for n, t := range want.syms {
		if g, asked := got.syms[n]; asked && g != t {
			return &failure{clause: "git-view", detail: fmt.Sprintf("symbolic-ref %s: model %q git %q", n, t, got.syms[n]), names: []string{n}}
		}
	}
	s.c.Count("git_views_agreeing", 1)
	return nil
}

// ---------------------------------------------------------------------------
// go-git reads vs the map

func (s *seq) compareReads() *failure {
	names := append(append([]string{}, s.uni...), "refs/heads/never")
	for _, n := range names {
		var ref *plumbing.Reference
		var err error
		if p, st := vf.Catch(func() { ref, err = s.st.Reference(plumbing.ReferenceName(n)) }); p != nil {
			return &failure{clause: "panic", detail: fmt.Sprintf("Reference(%s) panicked: %v\n%s", n, p, st)}
		}
		s.c.Count("reads", 1)
		want, ok := s.m[n]
		switch {
		case ok && err != nil:
			return &failure{clause: "read", detail: fmt.Sprintf("Reference(%s): error %q, map holds %s", n, err, want.Val())}
		case ok && fromRef(ref) != want:
			return &failure{clause: "read", detail: fmt.Sprintf("Reference(%s) = %s, map holds %s", n, fromRef(ref).Val(), want.Val())}
		case !ok && err == nil:
			return &failure{clause: "read", detail: fmt.Sprintf("Reference(%s) = %s, map has no such name", n, fromRef(ref).Val())}
		case !ok && !errors.Is(err, plumbing.ErrReferenceNotFound):
			return &failure{clause: "read", detail: fmt.Sprintf("Reference(%s): error %q instead of reference-not-found", n, err)}
		}
	}
	var got []string
	var err error
	if p, st := vf.Catch(func() {
		it, e := s.st.IterReferences()
		if e != nil {
			err = e
			return
		}
		err = it.ForEach(func(r *plumbing.Reference) error {
			x := fromRef(r)
			got = append(got, x.Name+" "+x.Val())
			return nil
		})
	}); p != nil {
		return &failure{clause: "panic", detail: fmt.Sprintf("IterReferences panicked: %v\n%s", p, st)}
	}
	s.c.Count("listings", 1)
	if err != nil {
		return &failure{clause: "iter", detail: fmt.Sprintf("IterReferences: error %q", err)}
	}
	sort.Strings(got)
	want := s.m.Lines()
	sort.Strings(want)
	if d := diffLines(want, got); d != "" {
		return &failure{clause: "iter", detail: "IterReferences: " + strings.ReplaceAll(d, "git-only", "gogit-only")}
	}
	return nil
}

// ---------------------------------------------------------------------------
// operations

type op struct {
	kind string // set cas remove pack reopen git-pack git-pack-noprune git-update git-delete
	name string
	val  refmodel.Ref
	old  *refmodel.Ref
	cas  refmodel.CASOutcome
}

func (o op) String() string {
	switch o.kind {
	case "set", "git-update":
		return fmt.Sprintf("%s %s", o.kind, o.val)
	case "cas":
		return fmt.Sprintf("cas %s old=%s (model: %s)", o.val, o.old.Val(), o.cas)
	case "remove", "git-delete":
		return o.kind + " " + o.name
	}
	return o.kind
}

// nextOp draws the next op. In many-symbolic-refs histories PackRefs is aimed at moments when
// only one or two direct refs are loose: right after a PackRefs plus one Set, and after removals.
func (s *seq) nextOp(d *disk) op {
	if len(s.forced) > 0 {
		k := s.forced[0]
		s.forced = s.forced[1:]
		if k == "pack" {
			return op{kind: "pack"}
		}
		direct := []string{"refs/heads/a", "refs/heads/b", "refs/tags/t", "refs/tags/t2"}
		name := direct[s.r.Intn(len(direct))]
		return op{kind: "set", name: name, val: s.randomValue(name)}
	}
	o := s.pickOp(d)
	if s.f.ManySyms {
		switch {
		case o.kind == "pack" && s.r.Intn(100) < 50:
			s.forced = append(s.forced, "set-direct", "pack")
		case o.kind == "remove" && s.r.Intn(100) < 40:
			s.forced = append(s.forced, "pack")
		}
	}
	return o
}

func (s *seq) pickOp(d *disk) op {
	r := s.r
	for tries := 0; tries < 50; tries++ {
		x := r.Intn(100)
		name := s.uni[r.Intn(len(s.uni))]
		cur, present := s.m[name]
		switch {
		case x < 30:
			return op{kind: "set", name: name, val: s.randomValue(name)}
		case x < 52:
			o := op{kind: "cas", name: name, val: s.randomValue(name)}
			_, hasLoose := d.loose[name]
			y := r.Intn(100)
			switch {
			case present && y < 55:
				old := cur
				o.old = &old
			case present && cur.Sym && s.f.CasSym && y < 70:
				o.old = &refmodel.Ref{Name: name, Sym: true, Target: "refs/heads/other"}
			case present:
				if !hasLoose && !s.f.CasMiss {
					continue
				}
				h := ""
				if !cur.Sym {
					h = cur.Hash
				}
				o.old = &refmodel.Ref{Name: name, Hash: s.otherHash(h)}
			default:
				if !s.f.CasMiss {
					continue
				}
				o.old = &refmodel.Ref{Name: name, Hash: s.otherHash("")}
			}
			o.cas = s.m.CAS(*o.old)
			return o
		case x < 68:
			if s.f.ManySyms && r.Intn(2) == 0 {
				// prefer a packed-only name: fewer packed-only refs at the next PackRefs
				var po []string
				for _, n := range s.uni {
					if d.class(n) == "packed" || d.class(n) == "packed+peel" {
						po = append(po, n)
					}
				}
				if len(po) > 0 {
					name = po[r.Intn(len(po))]
					_, present = s.m[name]
				}
			}
			if name == "HEAD" {
				continue
			}
			if p := d.packed(name); p != nil && p.peel != "" && !s.f.RmPeeled {
				continue
			}
			if !present && r.Intn(3) != 0 {
				continue
			}
			return op{kind: "remove", name: name}
		case x < 80:
			return op{kind: "pack"}
		case x < 84:
			return op{kind: "reopen"}
		case !s.f.GitOps:
			continue
		case x < 89:
			if r.Intn(2) == 0 {
				return op{kind: "git-pack-noprune"}
			}
			return op{kind: "git-pack"}
		case x < 96:
			return op{kind: "git-update", name: name, val: s.randomValue(name)}
		default:
			if name == "HEAD" || !present {
				continue
			}
			return op{kind: "git-delete", name: name}
		}
	}
	return op{kind: "pack"}
}

func packSummary(d *disk) string {
	l, p := 0, len(d.recs)
	for n := range d.loose {
		if n != "HEAD" {
			l++
		}
	}
	f := func(n int) string {
		switch {
		case n == 0:
			return "0"
		case n == 1:
			return "1"
		}
		return "n"
	}
	return "loose" + f(l) + "-packed" + f(p)
}

// apply runs one op; returns a failure (first failing clause) or nil.
func (s *seq) apply(o op, pre *disk) (*failure, string) {
	cls := ""
	if o.name != "" {
		cls = pre.class(o.name)
	} else {
		cls = packSummary(pre)
	}
	s.c.Seen("op_x_class", o.kind+":"+cls)
	s.c.Count("op_"+o.kind, 1)
	if strings.Contains(cls, "packed") || strings.Contains(cls, "both") || o.kind == "pack" || o.kind == "git-pack" {
		s.nontrivial = true
	}
	var err error
	run := func(f func() error) *failure {
		if p, st := vf.Catch(func() { err = f() }); p != nil {
			return &failure{clause: "panic", detail: fmt.Sprintf("%s panicked: %v\n%s", o, p, st)}
		}
		return nil
	}
	switch o.kind {
	case "set":
		if f := run(func() error { return s.st.SetReference(s.toRef(o.val)) }); f != nil {
			return f, cls
		}
		_, exists := s.m[o.name]
		conflict := !exists && s.m.DFConflict(o.name)
		if err != nil {
			if !conflict {
				return &failure{clause: "op-refused", detail: fmt.Sprintf("SetReference(%s) failed: %v (%s)", o.val, err, map[bool]string{true: "the name already exists in the store", false: "no conflicting name exists"}[exists])}, cls
			}
			s.c.Count("df_conflict_refused", 1)
		} else {
			if conflict {
				s.c.Count("df_conflict_accepted", 1)
			}
			s.m.Set(o.val)
		}
	case "cas":
		if f := run(func() error { return s.st.CheckAndSetReference(s.toRef(o.val), s.toRef(*o.old)) }); f != nil {
			return f, cls
		}
		s.c.Seen("cas_outcomes", fmt.Sprintf("%s:%v", o.cas, err != nil))
		switch o.cas {
		case refmodel.CASMatch:
			if err != nil {
				return &failure{clause: "op-refused", detail: fmt.Sprintf("CheckAndSetReference(%s, old=%s) failed: %v although old equals the stored value", o.val, o.old.Val(), err)}, cls
			}
			s.m.Set(o.val)
		default:
			if err == nil {
				return &failure{clause: "op-accepted", detail: fmt.Sprintf("CheckAndSetReference(%s, old=%s) succeeded although the stored value is %s", o.val, o.old.Val(), curVal(s.m, o.name))}, cls
			}
			if o.cas == refmodel.CASMismatch && !errors.Is(err, storage.ErrReferenceHasChanged) {
				s.c.Count("cas_mismatch_other_error", 1)
			}
		}
	case "remove":
		if f := run(func() error { return s.st.RemoveReference(plumbing.ReferenceName(o.name)) }); f != nil {
			return f, cls
		}
		if err != nil {
			if _, exists := s.m[o.name]; exists {
				return &failure{clause: "op-refused", detail: fmt.Sprintf("RemoveReference(%s) failed: %v; the reference stays", o.name, err)}, cls
			}
			s.c.Count("remove_absent_returned_error", 1)
		}
		s.m.Remove(o.name)
	case "pack":
		// evidence: how often PackRefs runs while loose symbolic refs under refs/ outnumber the
		// direct loose refs plus the packed-only refs
		nsym, ndirect, npackedOnly := 0, 0, 0
		for n, v := range pre.loose {
			if n == "HEAD" {
				continue
			}
			if strings.HasPrefix(v, "ref: ") {
				nsym++
			} else {
				ndirect++
			}
		}
		for _, rec := range pre.recs {
			if _, l := pre.loose[rec.name]; !l {
				npackedOnly++
			}
		}
		if nsym > 0 && ndirect > 0 {
			s.c.Count("packs_with_loose_symbolic_and_direct_refs", 1)
			if nsym > ndirect+npackedOnly {
				s.c.Count("packs_with_symbolic_refs_outnumbering_direct_and_packed_only", 1)
			}
		}
		if f := run(func() error { return s.st.PackRefs() }); f != nil {
			return f, cls
		}
		if err != nil {
			return &failure{clause: "op-refused", detail: fmt.Sprintf("PackRefs failed: %v", err)}, cls
		}
	case "reopen":
		s.open()
	case "git-pack", "git-pack-noprune":
		args := []string{"pack-refs", "--all"}
		if o.kind == "git-pack-noprune" {
			args = append(args, "--no-prune")
		}
		if res := s.g.Run(s.work, args...); !res.OK() {
			return &failure{clause: "git-error", detail: fmt.Sprintf("git pack-refs failed on the directory go-git maintained: %s", res)}, cls
		}
	case "git-update":
		if s.gitSet(o.val) {
			s.m.Set(o.val)
		} else {
			s.c.Count("git_update_refused", 1)
		}
	case "git-delete":
		if res := s.g.Run(s.work, "update-ref", "--no-deref", "-d", o.name); res.OK() {
			s.m.Remove(o.name)
		} else {
			s.c.Count("git_delete_refused", 1)
		}
	}
	return nil, cls
}

func curVal(m refmodel.RefMap, n string) string {
	if r, ok := m[n]; ok {
		return r.Val()
	}
	return "<absent>"
}

// key derives the seed-independent finding key from the failing clause, the op and on-disk diagnosis.
func (s *seq) key(f *failure, o op, cls string, pre, post *disk) string {
	gitClause := f.clause == "git-error" || f.clause == "git-view"
	switch o.kind {
	case "pack":
		if f.clause == "read" || f.clause == "iter" || gitClause {
			for _, b := range post.bad {
				if strings.HasPrefix(b, "ref: ") {
					return "packrefs:symbolic-ref-line-in-packed-refs"
				}
			}
		}
	case "remove":
		if gitClause {
			if p := pre.packed(o.name); p != nil && p.peel != "" && post.packed(o.name) == nil {
				// the record is gone; is its peel line still there (now unattached or attached to the previous record)?
				before := 0
				for _, r := range pre.recs {
					if r.peel == p.peel {
						before++
					}
				}
				after := 0
				for _, r := range post.recs {
					if r.peel == p.peel {
						after++
					}
				}
				for _, b := range post.bad {
					if b == "^"+p.peel {
						after++
					}
				}
				if after == before {
					return "remove:peel-line-of-removed-packed-tag-kept"
				}
			}
		}
	case "cas":
		if f.clause == "iter" || gitClause {
			_, hadLoose := pre.loose[o.name]
			if v, has := post.loose[o.name]; has && v == "" && !hadLoose && o.cas != refmodel.CASMatch {
				return "cas-failed:empty-loose-ref-file-left"
			}
		}
		if f.clause == "op-accepted" && o.old.Sym {
			if cur, ok := s.m[o.name]; ok && cur.Sym && cur.Target != o.old.Target {
				return "cas-accepted:symbolic-old-target-differs"
			}
		}
	}
	if f.clause == "git-view" && len(f.names) > 0 {
		// git cannot resolve a packed-only ref whose loose path is occupied by a nested/parent loose ref
		// that go-git accepted (a state git itself never creates)
		all := true
		for _, n := range f.names {
			if n == "HEAD" {
				if h, ok := s.m["HEAD"]; ok && h.Sym {
					n = h.Target
				}
			}
			sh := post.shadow(n)
			if !(strings.HasPrefix(post.class(n), "packed") && (sh == "nonempty-dir" || sh == "parent-is-file")) {
				all = false
			}
		}
		if all {
			return "git-view:packed-ref-shadowed-by-nested-loose-ref"
		}
	}
	if f.clause == "op-refused" && (o.kind == "set" || o.kind == "cas" || o.kind == "remove") {
		verb := "write"
		if o.kind == "remove" {
			verb = "remove"
		}
		switch pre.shadow(o.name) {
		case "empty-dir":
			return verb + "-refused:empty-directory-at-ref-path"
		case "nonempty-dir", "parent-is-file":
			// only reachable after go-git itself accepted a name nested below / above a packed-only ref
			if strings.HasPrefix(cls, "packed") {
				return verb + "-refused:packed-ref-shadowed-by-nested-loose-ref"
			}
		}
	}
	k := f.clause + ":" + o.kind
	if cls != "" {
		k += ":" + cls
	}
	return k
}

func (s *seq) dump(d *disk) map[string]any {
	var packed []string
	if b, err := os.ReadFile(filepath.Join(s.gitdir, "packed-refs")); err == nil {
		packed = strings.Split(strings.TrimRight(string(b), "\n"), "\n")
	}
	return map[string]any{"sequence": s.idx, "start": s.start, "features": s.f, "ops": s.log,
		"model": s.m.Lines(), "packed_refs": packed, "loose": d.loose}
}

func (s *seq) run() {
	c := s.c
	s.work = c.TempDir(fmt.Sprintf("seq%d", s.idx))
	defer os.RemoveAll(s.work)
	s.gitdir = filepath.Join(s.work, ".git")
	c.Must(copyTree(filepath.Join(s.p.dir, ".git"), s.gitdir), "copy template")
	s.hexLen = len(s.p.commits[0])
	s.uni = []string{"HEAD", "refs/heads/a", "refs/heads/b", "refs/tags/t", "refs/tags/t2"}
	if s.f.Nested {
		s.uni = append(s.uni, "refs/heads/a/b")
	}
	if s.f.Sym {
		s.uni = append(s.uni, "refs/x/sym")
	}
	if s.f.ManySyms {
		s.uni = append(s.uni, extraSyms...)
	}
	s.setupStart()
	c.Seen("start_kinds", s.start)
	s.open()
	defer func() { _ = s.st.Close() }()

	// the start state was written by git alone: git must agree with the map (validates the
	// rendering of git's view), and go-git must read it like the map.
	if f := s.compareGit(true); f != nil {
		c.Broken("MODEL-MISMATCH: start state %s of sequence %d: git view differs from the map: %s: %s", s.start, s.idx, f.clause, f.detail)
		return
	}
	c.Count("git_confirmations", 1)
	d0 := readDisk(s.gitdir, s.hexLen)
	if f := s.compareReads(); f != nil {
		c.Fail("start:"+f.clause+":"+s.start, fmt.Sprintf("go-git reads a %s start state written by git differently from git: %s", s.start, f.detail), s.dump(d0))
		c.Eval(s.start+"|start-fail", true)
		return
	}

	n := 6 + s.r.Intn(35)
	pre := d0
	for i := 0; i < n; i++ {
		o := s.nextOp(pre)
		s.log = append(s.log, o.String())
		f, cls := s.apply(o, pre)
		s.shape = append(s.shape, o.kind+":"+cls)
		post := readDisk(s.gitdir, s.hexLen)
		if f == nil {
			f = s.compareReads()
		}
		if f == nil {
			flags := post.screen(s.p)
			sampled := s.r.Intn(100) < 8
			afterPack := o.kind == "pack" && s.r.Intn(100) < 65
			if len(flags) > 0 || afterPack || sampled || i == n-1 {
				if len(flags) > 0 {
					c.Count("screen_hits", 1)
				}
				f = s.compareGit(i == n-1)
				if f == nil {
					c.Count("git_confirmations", 1)
					if len(flags) > 0 {
						c.Count("screen_hits_git_unconcerned", 1)
					}
				}
			}
		}
		if f != nil {
			key := s.key(f, o, cls, pre, post)
			what := fmt.Sprintf("after op %d (%s; target on disk before: %s; start %s): %s", i+1, o, cls, s.start, f.detail)
			// for a go-git read disagreement add git's opinion of the same directory to the report
			if f.clause == "read" || f.clause == "iter" {
				if gf := s.compareGit(true); gf != nil {
					what += " || git on the same directory: " + gf.clause + ": " + gf.detail
				} else {
					what += " || git's view of the same directory equals the map"
				}
			}
			c.Fail(key, what, s.dump(post))
			c.Count("sequences_stopped_at_failure", 1)
			break
		}
		pre = post
	}
	c.Count("ops", len(s.log))
	c.Eval(s.start+"|"+vf.ShapeHash(s.shape), s.nontrivial)
	if s.idx < 2 {
		c.Sample(map[string]any{"sequence": s.idx, "start": s.start, "features": s.f, "ops": s.log, "final_model": s.m.Lines()})
	}
}

func run(c *vf.Ctx) {
	g := gitx.New(c.Scratch)
	pools := map[string]*pool{"sha1": buildTemplate(c, g, "sha1"), "sha256": buildTemplate(c, g, "sha256")}
	nSeq := c.N(150, 900)
	vf.Parallel(nSeq, 6, func(i int) {
		r := c.Rand("seq", i)
		f := feat{
			Nested:   r.Intn(100) < 50,
			Sym:      r.Intn(100) < 55,
			RmPeeled: r.Intn(100) < 80,
			CasMiss:  r.Intn(100) < 50,
			ManySyms: r.Intn(100) < 35,
			CasSym:   r.Intn(100) < 25,
			GitOps:   r.Intn(100) < 50,
			Format:   "sha1",
		}
		if r.Intn(100) < 20 {
			f.Format = "sha256"
		}
		if f.ManySyms {
			f.Sym = true
		}
		s := &seq{c: c, g: g, p: pools[f.Format], r: r, idx: i, f: f}
		c.Seen("formats", f.Format)
		if p, st := vf.Catch(s.run); p != nil {
			panic(fmt.Sprintf("%v\n%s", p, st))
		}
		c.Count("sequences", 1)
	})
	c.Extra("git_invocations", gitx.Calls.Load())
	c.Floor("sequences", c.Counter("sequences"), nSeq)
	c.Floor("operations applied", c.Counter("ops"), nSeq*8)
	c.Floor("go-git reads compared with the map", c.Counter("reads"), nSeq*50)
	c.Floor("git views agreeing with the map", c.Counter("git_views_agreeing"), nSeq*2)
	c.Floor("go-git PackRefs calls", c.Counter("op_pack"), nSeq/2)
	c.Floor("PackRefs with loose symbolic and direct refs", c.Counter("packs_with_loose_symbolic_and_direct_refs"), nSeq/3)
	c.Floor("PackRefs while loose symbolic refs outnumber direct loose + packed-only refs", c.Counter("packs_with_symbolic_refs_outnumbering_direct_and_packed_only"), nSeq/10)
	c.Floor("distinct (op, on-disk class) pairs", c.SeenCount("op_x_class"), 25)
	c.Floor("start kinds", c.SeenCount("start_kinds"), 6)
	c.Assume("RemoveReference(HEAD) is outside the domain: git does not recognise a directory without HEAD as a repository")
	c.Assume("where the map already holds a name that is a directory prefix of (or below) the name being set, both refusing (git's behaviour) and accepting (a plain map's behaviour) are allowed; a refusal must leave the store unchanged")
	c.Assume("all reference values are ids of existing commits/tags; branches hold commits only")
	c.Assume("git 2.39.5 is the reference reader; packed-refs header traits (peeled, fully-peeled, sorted) are unchanged up to current git")
}
