package main

import (
	"fmt"
	"os"
	"os/exec"

	"github.com/go-git/go-billy/v6/osfs"
	"github.com/go-git/go-git/v6/plumbing"
	"github.com/go-git/go-git/v6/plumbing/cache"
	"github.com/go-git/go-git/v6/storage/filesystem"
)

func sh(dir, s string) string {
	cmd := exec.Command("bash", "-c", s)
	cmd.Dir = dir
	cmd.Env = append(os.Environ(), "GIT_AUTHOR_NAME=a", "GIT_AUTHOR_EMAIL=a@b", "GIT_COMMITTER_NAME=a", "GIT_COMMITTER_EMAIL=a@b")
	b, _ := cmd.CombinedOutput()
	return string(b)
}

func main() {
	d, _ := os.MkdirTemp("", "sp")
	defer os.RemoveAll(d)
	fmt.Print(sh(d, "git init -q . && git commit -q --allow-empty -m c0 && git commit -q --allow-empty -m c1"))
	c1 := plumbing.NewHash(sh(d, "git rev-parse HEAD")[:40])
	c0 := plumbing.NewHash(sh(d, "git rev-parse HEAD~1")[:40])
	st := filesystem.NewStorage(osfs.New(d+"/.git"), cache.NewObjectLRUDefault())
	a := plumbing.ReferenceName("refs/heads/a")
	ab := plumbing.ReferenceName("refs/heads/a/b")
	fmt.Println("set a/b", st.SetReference(plumbing.NewHashReference(ab, c0)))
	fmt.Println("set a (loose a/b exists)", st.SetReference(plumbing.NewHashReference(a, c0)))
	fmt.Println("rm a/b", st.RemoveReference(ab))
	fmt.Println("set a (after rm a/b)", st.SetReference(plumbing.NewHashReference(a, c0)))
	fmt.Print(sh(d, "ls -R .git/refs; git update-ref refs/heads/a "+c0.String()+"; echo rc=$?; git show-ref"))
	// now a exists loose. set a/b
	fmt.Println("set a/b (loose a exists)", st.SetReference(plumbing.NewHashReference(ab, c0)))
	fmt.Println("pack", st.PackRefs())
	fmt.Println("set a/b (packed a exists)", st.SetReference(plumbing.NewHashReference(ab, c1)))
	it, err := st.IterReferences()
	fmt.Println(err)
	it.ForEach(func(r *plumbing.Reference) error { fmt.Println("  ", r); return nil })
	fmt.Println("pack", st.PackRefs())
	fmt.Print(sh(d, "ls -R .git/refs; cat .git/packed-refs"))
	fmt.Println("set a (packed a, a/b; empty dir a)", st.SetReference(plumbing.NewHashReference(a, c1)))
	r, err := st.Reference(a)
	fmt.Println(r, err)
	// CAS symbolic
	s := plumbing.ReferenceName("refs/x/sym")
	fmt.Println(st.SetReference(plumbing.NewSymbolicReference(s, a)))
	fmt.Println("cas sym old wrong target", st.CheckAndSetReference(plumbing.NewSymbolicReference(s, ab), plumbing.NewSymbolicReference(s, "refs/heads/zzz")))
	r, err = st.Reference(s)
	fmt.Println(r, err)
	fmt.Println("cas absent", st.CheckAndSetReference(plumbing.NewHashReference("refs/heads/q", c0), plumbing.NewHashReference("refs/heads/q", c1)))
	_, err = st.IterReferences()
	fmt.Println("iter:", err)
	fmt.Print(sh(d, "git for-each-ref; echo rc=$?"))
	fmt.Println("rm q", st.RemoveReference("refs/heads/q"))
	_, err = st.IterReferences()
	fmt.Println("iter:", err)
	fmt.Println("rm absent", st.RemoveReference("refs/heads/zz"))
	fmt.Println("HEAD rm", st.RemoveReference("HEAD"))
	fmt.Print(sh(d, "ls .git"))
}
