// C28: add / remove / move / clean / commit produce git's index, remaining files and trees.
//
// Twin-repository monitor: the same generated start state + pre-state (dirty tracked files, deletions, type
// changes, untracked and ignored files, empty-directory leftovers) is copied twice; sequences of 1-3
// equivalent operations are applied by real git in twin A and by go-git in twin B; after every operation
// `git ls-files -s` of both twins (paths, modes, ids, stages) and the remaining worktree files are compared;
// a commit must record exactly the tree `git write-tree` produces from twin B's index, with the old HEAD as
// parent and HEAD/branch advanced as in twin A.
package main

import (
	"crypto"
	_ "crypto/sha1"
	"fmt"
	"math/rand"
	"os"
	"path/filepath"
	"sort"
	"strings"
	"sync"
	"time"

	git "github.com/go-git/go-git/v6"
	"github.com/go-git/go-git/v6/plumbing/format/index"
	"github.com/go-git/go-git/v6/plumbing/object"

	"verif/internal/fsguard"
	"verif/internal/gen"
	"verif/internal/gitx"
	"verif/internal/obs"
	"verif/internal/twin"
	"verif/internal/vf"
)

func main() {
	vf.Main("C28", "exploration",
		"cases = generated history checked out by git x pre-state (0-7 mutations: edits, deletions, chmod, file->dir, file<->symlink, untracked files/dirs, empty dirs, root .gitignore with matching untracked files) x sequences of 1-3 operations drawn from add-file, add-dir, add-all, add-glob, remove-file, remove-dir, remove-glob, move, clean, clean-dirs, commit, commit-all with arguments picked from tracked / modified / deleted / untracked / ignored / directory paths; git runs the equivalent command in a twin; non-trivial = the operation changed index or worktree in at least one twin; shape = (op sequence, argument kinds, pre-state kinds); oracle = real git on the twin (ls-files -s, worktree digest, write-tree, commit object)",
		run)
}

type opSpec struct {
	Kind string `json:"kind"`
	Arg  string `json:"arg,omitempty"`
	Arg2 string `json:"arg2,omitempty"`
	// ArgKind: what the argument refers to (tracked-clean, tracked-modified, tracked-deleted, untracked, ignored, dir, ...)
	ArgKind string `json:"arg_kind,omitempty"`
}

type caseRec struct {
	Hist    int          `json:"hist"`
	Case    int          `json:"case"`
	Wrapped bool         `json:"wrapped"`
	Pre     []twin.PreOp `json:"pre"`
	Ignore  bool         `json:"gitignore"`
	Ops     []opSpec     `json:"ops"`
	Step    int          `json:"failing_step"`
	GitErr  string       `json:"git_error,omitempty"`
	GoErr   string       `json:"gogit_error,omitempty"`
	Detail  []string     `json:"detail,omitempty"`
}

var opKinds = []string{"add-file", "add-dir", "add-all", "add-glob", "remove-file", "remove-dir", "remove-glob", "move", "clean", "clean-dirs", "commit", "commit-all"}

var sig = &object.Signature{Name: "A U Thor", Email: "author@example.com", When: time.Unix(1700000000, 0).UTC()}
var csig = &object.Signature{Name: "C O Mitter", Email: "committer@example.com", When: time.Unix(1700000000, 0).UTC()}

// pathKind classifies a worktree path of the current state (before the operation).
func pathKind(dir string, tracked map[string]bool, ignored func(string) bool, p string) string {
	fi, err := os.Lstat(filepath.Join(dir, filepath.FromSlash(p)))
	switch {
	case err != nil && tracked[p]:
		return "tracked-deleted"
	case err != nil:
		return "absent"
	case fi.IsDir():
		if tracked[p] {
			return "tracked-file-now-dir"
		}
		return "dir"
	case tracked[p]:
		if fi.Mode()&os.ModeSymlink != 0 {
			return "tracked-symlink"
		}
		return "tracked"
	case ignored(p):
		return "ignored"
	}
	return "untracked"
}

func listFiles(dir string) (files, dirs []string) {
	filepath.Walk(dir, func(p string, fi os.FileInfo, err error) error {
		if err != nil {
			return nil
		}
		rel, _ := filepath.Rel(dir, p)
		if rel == "." {
			return nil
		}
		if rel == ".git" {
			return filepath.SkipDir
		}
		if fi.IsDir() {
			dirs = append(dirs, filepath.ToSlash(rel))
		} else {
			files = append(files, filepath.ToSlash(rel))
		}
		return nil
	})
	sort.Strings(files)
	sort.Strings(dirs)
	return
}

var globs = []string{"*", "a*", "*.log", "*b", "a?", "*/a*", "[ab]*", "d/*", "a b/*", "*/*/c"}

func pick(r *rand.Rand, xs []string) string {
	if len(xs) == 0 {
		return ""
	}
	return xs[r.Intn(len(xs))]
}

func indexPaths(lines []string) map[string]bool {
	m := map[string]bool{}
	for _, ln := range lines {
		if tab := strings.IndexByte(ln, '\t'); tab > 0 {
			m[ln[tab+1:]] = true
		}
	}
	return m
}

// decodeIndex renders .git/index of dir as `git ls-files -s` lines ("mode id stage\tpath", sorted like git does).
func decodeIndex(dir string) ([]string, error) {
	f, err := os.Open(filepath.Join(dir, ".git", "index"))
	if err != nil {
		return nil, err
	}
	defer f.Close()
	idx := &index.Index{}
	if err := index.NewDecoder(f, crypto.SHA1.New()).Decode(idx); err != nil {
		return nil, err
	}
	type ent struct {
		name string
		st   int
		line string
	}
	var es []ent
	for _, e := range idx.Entries {
		es = append(es, ent{e.Name, int(e.Stage), fmt.Sprintf("%06o %s %d\t%s", uint32(e.Mode), e.Hash.String(), e.Stage, e.Name)})
	}
	sort.Slice(es, func(i, j int) bool {
		if es[i].name != es[j].name {
			return es[i].name < es[j].name
		}
		return es[i].st < es[j].st
	})
	out := make([]string, len(es))
	for i, e := range es {
		out[i] = e.line
	}
	return out, nil
}

func lsFiles(g *gitx.Git, dir string) ([]string, error) {
	r := g.Run(dir, "--no-optional-locks", "ls-files", "-s", "-z")
	if !r.OK() {
		return nil, fmt.Errorf("ls-files: %s", r)
	}
	return twin.SplitZ(r.Out), nil
}

func run(c *vf.Ctx) {
	g := gitx.New(c.Scratch)
	nHist := c.N(5, 16)
	perHist := c.N(12, 30)
	var mu sync.Mutex
	failCount := map[string]int{}
	refusals := map[string]int{}

	vf.Parallel(nHist, 6, func(hi int) {
		r := c.Rand("hist", hi)
		h := gen.RandomHistory(r, gen.HistOpts{N: 3 + r.Intn(3), MergeProb: 0.1, Files: 8 + r.Intn(12), Branches: 2,
			Path: gen.PathOpts{Depth: 2 + r.Intn(2), Symlinks: true, Exec: true}})
		root := c.TempDir(fmt.Sprintf("h%d", hi))
		defer os.RemoveAll(root)
		base, err := twin.NewBase(g, filepath.Join(root, "base"), h)
		if err != nil {
			c.Broken("materialise history %d: %v", hi, err)
			return
		}
		headTree := h.Commits[h.Branches[base.Branches[0]]].Tree
		baseIdx, err := lsFiles(g, base.Dir)
		if err != nil {
			c.Broken("%v", err)
			return
		}

		for ci := 0; ci < perHist; ci++ {
			cr := c.Rand("case", hi, ci)
			rec := caseRec{Hist: hi, Case: ci, Wrapped: ci%3 == 2}
			A := filepath.Join(root, fmt.Sprintf("A%d", ci))
			B := filepath.Join(root, fmt.Sprintf("B%d", ci))
			if err := twin.CopyTree(base.Dir, A); err != nil {
				c.Broken("copy: %v", err)
				return
			}
			rec.Pre = twin.Dirty(cr, A, headTree, twin.PreOpts{Max: 7})
			// unstaged deletions (rm from disk only) of tracked files: destinations / arguments that exist in the
			// index but not in the worktree
			if ps := headTree.Paths(); cr.Intn(2) == 0 {
				for k := 0; k < 1+cr.Intn(2); k++ {
					p := ps[cr.Intn(len(ps))]
					if fi, err := os.Lstat(filepath.Join(A, filepath.FromSlash(p))); err == nil && !fi.IsDir() {
						os.Remove(filepath.Join(A, filepath.FromSlash(p)))
						rec.Pre = append(rec.Pre, twin.PreOp{Kind: "delete", Path: p})
					}
				}
			}
			rec.Ignore = cr.Intn(3) == 0
			if rec.Ignore {
				os.WriteFile(filepath.Join(A, ".gitignore"), []byte("*.log\nbuild/\n"), 0o644)
				os.WriteFile(filepath.Join(A, "x.log"), []byte("ignored\n"), 0o644)
				os.MkdirAll(filepath.Join(A, "build"), 0o755)
				os.WriteFile(filepath.Join(A, "build", "out"), []byte("ignored too\n"), 0o644)
				if ds := twin.Dirs(headTree); len(ds) > 0 {
					d := ds[cr.Intn(len(ds))]
					if fi, err := os.Lstat(filepath.Join(A, d)); err == nil && fi.IsDir() {
						os.WriteFile(filepath.Join(A, d, "y.log"), []byte("ignored\n"), 0o644)
					}
				}
			}
			ignored := func(p string) bool {
				if !rec.Ignore {
					return false
				}
				if _, err := os.Lstat(filepath.Join(A, ".gitignore")); err != nil {
					return false // an earlier clean removed the (untracked) .gitignore: nothing is ignored any more
				}
				return strings.HasSuffix(p, ".log") || p == "build" || strings.HasPrefix(p, "build/")
			}
			if err := twin.CopyTree(A, B); err != nil {
				c.Broken("copy: %v", err)
				return
			}
			idxA := baseIdx // index lines of twin A before the next operation
			nOps := 1 + cr.Intn(3)
			var kindsSeq []string
			for step := 0; step < nOps; step++ {
				tracked := indexPaths(idxA)
				files, dirs := listFiles(A)
				var trackedList []string
				for p := range tracked {
					trackedList = append(trackedList, p)
				}
				sort.Strings(trackedList)
				// paths in the index whose file is missing (unstaged deletion), and paths of the start commit that are
				// neither in the index nor on disk any more (deletion already staged)
				var trackedDeleted, stagedDeleted, trackedOnDisk []string
				for _, p := range trackedList {
					if fi, err := os.Lstat(filepath.Join(A, filepath.FromSlash(p))); err != nil {
						trackedDeleted = append(trackedDeleted, p)
					} else if !fi.IsDir() {
						trackedOnDisk = append(trackedOnDisk, p)
					}
				}
				for _, p := range headTree.Paths() {
					if _, err := os.Lstat(filepath.Join(A, filepath.FromSlash(p))); err != nil && !tracked[p] {
						stagedDeleted = append(stagedDeleted, p)
					}
				}
				op := opSpec{Kind: opKinds[cr.Intn(len(opKinds))]}
				forcedDest := ""
				if x := cr.Intn(8); len(trackedOnDisk) > 0 {
					switch {
					case x == 0 && len(trackedDeleted) > 0:
						op.Kind, forcedDest = "move", pick(cr, trackedDeleted)
					case x == 1 && len(stagedDeleted) > 0:
						op.Kind, forcedDest = "move", pick(cr, stagedDeleted)
					}
				}
				if n := len(rec.Ops); n > 0 && forcedDest == "" && cr.Intn(5) < 2 {
					if k := rec.Ops[n-1].Kind; strings.HasPrefix(k, "add") || strings.HasPrefix(k, "remove") || k == "move" {
						op.Kind = "commit" // something is probably staged now
					}
				}
				// paths the pre-state touched (modified, deleted, untracked, type-changed ...) are the interesting arguments
				var hot []string
				for _, o := range rec.Pre {
					if !ignored(o.Path) && o.Kind != "emptydir" {
						hot = append(hot, o.Path)
					}
				}
				switch op.Kind {
				case "add-file":
					// modified/deleted tracked paths and untracked files; explicit add of an ignored file is not used
					// (git add refuses without -f, go-git documents adding it anyway: no equivalent command)
					var cands []string
					for _, p := range files {
						if !ignored(p) {
							cands = append(cands, p)
						}
					}
					cands = append(cands, trackedList...)
					op.Arg = pick(cr, cands)
					if len(hot) > 0 && cr.Intn(3) > 0 {
						op.Arg = pick(cr, hot)
					}
				case "add-dir", "remove-dir":
					var cands []string
					for _, d := range dirs {
						if !ignored(d) {
							cands = append(cands, d)
						}
					}
					op.Arg = pick(cr, cands)
				case "add-glob", "remove-glob":
					op.Arg = pick(cr, globs)
				case "remove-file":
					switch x := cr.Intn(6); {
					case x == 0:
						op.Arg = pick(cr, files)
					case x <= 2 && len(hot) > 0:
						op.Arg = pick(cr, hot)
					default:
						op.Arg = pick(cr, trackedList)
					}
				case "move":
					op.Arg = pick(cr, trackedList)
					if len(hot) > 0 && cr.Intn(3) == 0 {
						op.Arg = pick(cr, hot)
					}
					switch cr.Intn(4) {
					case 0:
						op.Arg2 = op.Arg + ".mv"
					case 1:
						op.Arg2 = "moved-top"
					case 2:
						if d := pick(cr, dirs); d != "" && !ignored(d) {
							op.Arg2 = d + "/moved-here"
						} else {
							op.Arg2 = op.Arg + ".mv"
						}
					default:
						op.Arg2 = pick(cr, files) // existing destination: both must refuse
					}
					switch {
					case forcedDest != "": // onto a tracked path whose file is gone (deletion unstaged or staged)
						op.Arg, op.Arg2 = pick(cr, trackedOnDisk), forcedDest
					case cr.Intn(6) == 0: // an untracked path in a directory that does not exist yet
						op.Arg2 = "mvnew/sub/" + filepath.Base(op.Arg)
					}
				}
				if op.Arg == "" && (strings.HasPrefix(op.Kind, "add-") && op.Kind != "add-all" || strings.HasPrefix(op.Kind, "remove") || op.Kind == "move") {
					continue
				}
				if op.Kind == "move" && (op.Arg2 == "" || op.Arg2 == op.Arg) {
					continue
				}
				if op.Arg != "" && !strings.Contains(op.Kind, "glob") {
					op.ArgKind = pathKind(A, tracked, ignored, op.Arg)
					if op.ArgKind == "tracked" {
						for i := len(rec.Pre) - 1; i >= 0; i-- {
							if rec.Pre[i].Path == op.Arg {
								op.ArgKind = "tracked-" + rec.Pre[i].Kind
								break
							}
						}
					}
					if op.Kind == "move" {
						dk := pathKind(A, tracked, ignored, op.Arg2)
						if _, inHead := headTree[op.Arg2]; dk == "absent" && inHead {
							dk = "staged-deleted"
						} else if dk == "absent" && strings.HasPrefix(op.Arg2, "mvnew/") {
							dk = "absent-in-new-dir"
						}
						op.ArgKind += "->" + dk
						if dk == "tracked-deleted" || dk == "staged-deleted" {
							c.Count("moves_onto_tracked_path_missing_on_disk", 1)
						}
					}
				}
				if op.Kind == "move" && strings.Contains(strings.SplitN(op.ArgKind, "->", 2)[0], "dir") {
					continue // Move documents that directories are not supported
				}
				rec.Ops = append(rec.Ops, op)
				rec.Step = len(rec.Ops) - 1
				kindsSeq = append(kindsSeq, op.Kind+"("+op.ArgKind+")")
				destDirMissing := false
				if op.Kind == "move" {
					if d := filepath.Dir(filepath.FromSlash(op.Arg2)); d != "." {
						if _, err := os.Lstat(filepath.Join(A, d)); err != nil {
							if cr.Intn(2) == 0 { // create the destination directory in both twins: git mv then proceeds as well
								os.MkdirAll(filepath.Join(A, d), 0o755)
								os.MkdirAll(filepath.Join(B, d), 0o755)
								op.ArgKind += "(dir-precreated)"
							} else {
								destDirMissing = true
								op.ArgKind += "(dir-missing)"
							}
							rec.Ops[len(rec.Ops)-1] = op
						}
					}
				}
				beforeA, beforeB := obs.Worktree(A), obs.Worktree(B)
				ignoredBefore := map[string]bool{}
				for p := range beforeA {
					if ignored(p) {
						ignoredBefore[p] = true
					}
				}
				wasIgnored := func(p string) bool { return ignoredBefore[p] }

				// ---- git in A
				var res gitx.Result
				skipOp := false
				switch op.Kind {
				case "add-file", "add-dir":
					res = g.Run(A, "add", "--", op.Arg)
				case "add-all":
					res = g.Run(A, "add", "-A")
				case "add-glob":
					// AddGlob expands the pattern over the worktree (filepath.Glob semantics) and adds every match, a
					// directory recursively: the equivalent command is git add with the shell-expanded argument list
					matches, _ := filepath.Glob(filepath.Join(A, op.Arg))
					args := []string{"add", "--"}
					for _, m := range matches {
						rel, _ := filepath.Rel(A, m)
						if rel == ".git" || strings.HasPrefix(rel, ".git/") {
							continue
						}
						if ignored(filepath.ToSlash(rel)) {
							skipOp = true // a directly matched ignored path: git add refuses, go-git adds it (no equivalent command)
						}
						args = append(args, filepath.ToSlash(rel))
					}
					if skipOp {
						break
					}
					if len(args) > 2 {
						res = g.Run(A, args...)
					} else {
						res = gitx.Result{Err: []byte("glob matches nothing")}
						res.Code = 1
					}
				case "remove-file":
					res = g.Run(A, "rm", "-q", "-f", "--", op.Arg)
				case "remove-dir":
					res = g.Run(A, "rm", "-q", "-f", "-r", "--", op.Arg)
				case "remove-glob":
					// RemoveGlob matches index entries with a full-path matcher whose * crosses '/': git's default pathspec
					res = g.Run(A, "rm", "-q", "-f", "--", op.Arg)
				case "move":
					res = g.Run(A, "mv", "--", op.Arg, op.Arg2)
				case "clean":
					res = g.Run(A, "clean", "-f", "-q")
				case "clean-dirs":
					res = g.Run(A, "clean", "-f", "-d", "-q")
				case "commit":
					res = g.Run(A, "commit", "-q", "-m", "msg")
				case "commit-all":
					res = g.Run(A, "commit", "-q", "-a", "-m", "msg")
				}
				if skipOp {
					rec.Ops = rec.Ops[:len(rec.Ops)-1]
					kindsSeq = kindsSeq[:len(kindsSeq)-1]
					continue
				}
				c.Count("git_operations", 1)
				rec.GitErr = ""
				if !res.OK() {
					rec.GitErr = strings.TrimSpace(string(res.Err) + string(res.Out))
				}

				// ---- go-git in B
				hd, err := twin.Open(B, rec.Wrapped)
				if err != nil {
					c.Fail("open-failed:"+twin.ErrClass(err), fmt.Sprintf("go-git cannot open twin B: %v", err), rec)
					break
				}
				var opErr error
				p, stk := vf.Catch(func() {
					w := hd.WT
					switch op.Kind {
					case "add-file", "add-dir":
						_, opErr = w.Add(op.Arg)
					case "add-all":
						opErr = w.AddWithOptions(&git.AddOptions{All: true})
					case "add-glob":
						if cr.Intn(2) == 0 {
							opErr = w.AddGlob(op.Arg)
						} else {
							opErr = w.AddWithOptions(&git.AddOptions{Glob: op.Arg})
						}
					case "remove-file", "remove-dir":
						_, opErr = w.Remove(op.Arg)
					case "remove-glob":
						opErr = w.RemoveGlob(op.Arg)
					case "move":
						_, opErr = w.Move(op.Arg, op.Arg2)
					case "clean":
						opErr = w.Clean(&git.CleanOptions{})
					case "clean-dirs":
						opErr = w.Clean(&git.CleanOptions{Dir: true})
					case "commit":
						_, opErr = w.Commit("msg\n", &git.CommitOptions{Author: sig, Committer: csig})
					case "commit-all":
						_, opErr = w.Commit("msg\n", &git.CommitOptions{All: true, Author: sig, Committer: csig})
					}
				})
				hd.Close()
				if p != nil {
					c.Fail("panic:"+op.Kind, fmt.Sprintf("go-git panicked: %v\n%s", p, stk), rec)
					break
				}
				rec.GoErr = ""
				if opErr != nil {
					rec.GoErr = opErr.Error()
				}
				c.Seen("op_kinds", op.Kind)
				c.Seen("arg_kinds", op.Kind+":"+op.ArgKind)
				outcome := "both-ok"
				switch {
				case rec.GitErr != "" && rec.GoErr != "":
					outcome = "both-refuse"
				case rec.GitErr != "":
					outcome = "git-refuses"
				case rec.GoErr != "":
					outcome = "gogit-refuses"
				}
				if outcome != "both-ok" {
					mu.Lock()
					refusals[op.Kind+"("+op.ArgKind+"):"+outcome]++
					mu.Unlock()
				}

				// ---- observe both twins
				// twin A's index was written by git itself: it is read in-process with go-git's index decoder (validated
				// against `git ls-files -s` on a deterministic sample); twin B's index is always read by real git
				ia, errA := decodeIndex(A)
				if (ci+step)%5 == 0 || errA != nil {
					ga, gerr := lsFiles(g, A)
					c.Count("index_decoder_validated_by_git", 1)
					if gerr != nil || errA != nil || strings.Join(ga, "\n") != strings.Join(ia, "\n") {
						c.Broken("MODEL-MISMATCH: in-process reading of git's index in twin A differs from git ls-files -s (%v / %v)", errA, gerr)
						break
					}
				}
				ib, errB := lsFiles(g, B)
				c.Count("git_index_reads", 1)
				if errA != nil {
					c.Broken("git cannot read its own twin: %v", errA)
					break
				}
				fa, fb := obs.Worktree(A), obs.Worktree(B)
				changed := strings.Join(ia, "\n") != strings.Join(idxA, "\n") || len(fsguard.Diff(beforeA, fa, false)) > 0 || strings.Join(ia, "\n") != strings.Join(ib, "\n")
				c.Eval(fmt.Sprintf("%s|pre=%s|ignore=%v|%s|wrapped=%v", strings.Join(kindsSeq, ">"), twin.Kinds(rec.Pre), rec.Ignore, outcome, rec.Wrapped), changed)
				c.Count("steps_compared", 1)
				var fails []failure
				if errB != nil {
					fails = append(fails, failure{op.Kind + ":index-unreadable-by-git", errB.Error()})
				} else {
					fails = append(fails, diffIndex(op, ia, ib, beforeA, rec, wasIgnored)...)
				}
				fails = append(fails, diffFiles(op, beforeA, beforeB, fa, fb, tracked, wasIgnored, rec)...)
				if (op.Kind == "commit" || op.Kind == "commit-all") && len(fails) == 0 {
					fails = append(fails, checkCommit(c, g, A, B, op, rec)...)
				}
				if len(fails) > 0 && outcome == "git-refuses" && op.Kind == "move" && destDirMissing && rec.GoErr == "" && strings.Contains(rec.GitErr, "No such file or directory") {
					// git mv refuses a destination whose parent directory does not exist; go-git creates it. There is no
					// result of "the equivalent git command" to compare with: counted, not judged.
					c.Count("move_into_missing_directory_git_refuses", 1)
					break
				}
				if len(fails) > 0 {
					seen := map[string]bool{}
					for _, f := range fails {
						key := f.key
						switch outcome {
						case "gogit-refuses": // go-git returned an error where git succeeded: every difference is a consequence
							key = op.Kind + ":gogit-fails-where-git-succeeds:" + errClass(rec.GoErr)
						case "git-refuses":
							key += ":git-refuses-gogit-proceeds"
						}
						if seen[key] {
							continue
						}
						seen[key] = true
						rr := rec
						for _, f2 := range fails {
							if f2.key == f.key && len(rr.Detail) < 6 {
								rr.Detail = append(rr.Detail, f2.what)
							}
						}
						mu.Lock()
						failCount[key]++
						mu.Unlock()
						c.Fail(key, fmt.Sprintf("%s %q %q (%s; pre=%s; git err=%.80q; go-git err=%.80q): %s", op.Kind, op.Arg, op.Arg2, op.ArgKind, twin.Kinds(rec.Pre), rec.GitErr, rec.GoErr, f.what), rr)
					}
					break // the twins have diverged
				}
				c.Count("steps_agreed", 1)
				if hi < 2 && ci < 2 {
					c.Sample(map[string]any{"op": op, "pre": rec.Pre, "outcome": outcome, "index_entries": len(ia), "agree": true})
				}
				idxA = ia
			}
			os.RemoveAll(A)
			os.RemoveAll(B)
		}
	})
	c.Extra("git_invocations", gitx.Calls.Load())
	c.Extra("failures_by_key", failCount)
	c.Extra("refusals", refusals)
	c.Floor("operation steps compared", c.Counter("steps_compared"), c.N(70, 700))
	c.Floor("operation kinds", c.SeenCount("op_kinds"), len(opKinds))
	c.Floor("operation x argument kinds", c.SeenCount("arg_kinds"), c.N(14, 24))
	c.Floor("moves whose destination is a tracked or formerly tracked path missing on disk", c.Counter("moves_onto_tracked_path_missing_on_disk"), c.N(5, 40))
	c.Floor("commits whose tree was compared with git write-tree", c.Counter("commit_trees_confirmed_by_write_tree"), c.N(4, 40))
	c.Assume("equivalences: Add(path|dir)=git add -- p; AddWithOptions{All}=git add -A; AddGlob(g)=git add -- <filepath.Glob expansion of g over the worktree, .git excluded> (shell-style expansion, directories recursively); Remove=git rm -f [-r]; RemoveGlob(g)=git rm -f -- g (default pathspec: * crosses /, as go-git's index matcher does); Move=git mv; Clean{}=git clean -f; Clean{Dir}=git clean -f -d; Commit{All}=git commit [-a] with identical author/committer/date/message")
	c.Assume("explicit Add of an ignored file is not generated (git add refuses without -f, go-git documents adding it: no equivalent command); Move of directories is documented as unsupported and not generated; .git/info/exclude is not used (C27 finding)")
	c.Assume("Move into a directory that does not exist: git mv refuses (No such file or directory) while go-git creates the directory; no equivalent git result exists, such steps are counted (move_into_missing_directory_git_refuses) and not judged")
	c.Assume("twin A (written by git) is read with go-git's index decoder, validated against git ls-files -s on every 5th step; twin B (written by go-git) is always read by git")
	c.Assume("racily-clean index entries are kept out of this check: twin.NewBase sets every tracked file's mtime (and the recorded entry mtime) 100 s before the index file, so a same-size edit is always visible through size or mtime; go-git's missing racy-git protection is covered by C25/C27 known findings")
	c.Assume("index stat fields, cache-tree/untracked-cache extensions and commit ids are not compared; only paths, modes, ids, stages, remaining files, recorded tree, parents and HEAD")
}

type failure struct{ key, what string }

func errClass(msg string) string {
	switch {
	case strings.Contains(msg, "is a directory"):
		return "is-a-directory"
	case strings.Contains(msg, "invalid path component") && strings.Contains(msg, ".git"):
		return "invalid-path-component-dotgit"
	case strings.Contains(msg, "not a directory"):
		return "not-a-directory"
	case strings.Contains(msg, "directory not empty"):
		return "directory-not-empty"
	case strings.Contains(msg, "no such file or directory"):
		return "no-such-file-or-directory"
	}
	return twin.ErrClass(fmt.Errorf("%s", msg))
}

func parseIdx(lines []string) map[string]string {
	m := map[string]string{}
	for _, ln := range lines {
		if tab := strings.IndexByte(ln, '\t'); tab > 0 {
			f := strings.Fields(ln[:tab])
			if len(f) == 3 {
				m[ln[tab+1:]+"#"+f[2]] = f[0] + " " + f[1]
			}
		}
	}
	return m
}

// diffIndex compares `ls-files -s` of the twins; the key carries the operation, the clause and what the path was before.
func diffIndex(op opSpec, ia, ib []string, before fsguard.Snapshot, rec caseRec, ignored func(string) bool) []failure {
	var fails []failure
	ma, mb := parseIdx(ia), parseIdx(ib)
	// ls-files -s lists are compared as multisets: the same (path, stage) listed twice is an index git cannot produce
	seenB := map[string]int{}
	for _, ln := range ib {
		if tab := strings.IndexByte(ln, '\t'); tab > 0 {
			if f := strings.Fields(ln[:tab]); len(f) == 3 {
				k := ln[tab+1:] + "#" + f[2]
				if seenB[k]++; seenB[k] == 2 {
					fails = append(fails, failure{op.Kind + ":index-duplicate-entry:" + strings.SplitN(op.ArgKind+"->", "->", 3)[1], fmt.Sprintf("go-git's index lists %s twice (git's index: %d entries, go-git's: %d)", k, len(ia), len(ib))})
				}
			}
		}
	}
	feat := func(ps string) string {
		p := ps[:strings.LastIndexByte(ps, '#')]
		k := "none"
		for i := len(rec.Pre) - 1; i >= 0; i-- {
			o := rec.Pre[i]
			if o.Path == p || strings.HasPrefix(p, o.Path+"/") || strings.HasPrefix(o.Path, p+"/") {
				k = o.Kind
				break
			}
		}
		if ignored(p) {
			k += "+ignored"
		}
		return k
	}
	var keys []string
	for k := range ma {
		keys = append(keys, k)
	}
	for k := range mb {
		if _, ok := ma[k]; !ok {
			keys = append(keys, k)
		}
	}
	sort.Strings(keys)
	for _, k := range keys {
		a, inA := ma[k]
		b, inB := mb[k]
		switch {
		case inA && !inB:
			fails = append(fails, failure{fmt.Sprintf("%s:index-entry-missing:pre=%s", op.Kind, feat(k)), fmt.Sprintf("git's index has %s (%s), go-git's lacks it", k, a)})
		case !inA && inB:
			key := fmt.Sprintf("%s:index-entry-extra:pre=%s", op.Kind, feat(k))
			p := k[:strings.LastIndexByte(k, '#')]
			if e, onDisk := before[p]; op.Kind == "remove-dir" && (!onDisk || e.Mode.IsDir()) && strings.HasPrefix(p, op.Arg+"/") {
				key = "remove-dir:index-entry-of-file-missing-on-disk-kept"
			}
			fails = append(fails, failure{key, fmt.Sprintf("go-git's index has %s (%s), git's lacks it", k, b)})
		case a != b:
			what := "id"
			if strings.Fields(a)[0] != strings.Fields(b)[0] {
				what = "mode"
			}
			key := fmt.Sprintf("%s:index-entry-%s-differs:pre=%s", op.Kind, what, feat(k))
			if op.Kind == "move" {
				key = fmt.Sprintf("move:index-entry-%s-differs:%s", what, strings.SplitN(op.ArgKind, "->", 2)[0])
				// did go-git take the mode from the file on disk (git moves the index entry untouched)?
				if e, ok := before[op.Arg]; ok && what == "mode" && k == op.Arg2+"#0" {
					disk := "100644"
					switch {
					case e.Mode&os.ModeSymlink != 0:
						disk = "120000"
					case e.Mode.Perm()&0o100 != 0:
						disk = "100755"
					}
					if strings.Fields(b)[0] == disk {
						key = "move:index-entry-mode-differs:mode-taken-from-worktree-file"
					}
				}
			}
			fails = append(fails, failure{key, fmt.Sprintf("%s: git %s, go-git %s", k, a, b)})
		}
	}
	return fails
}

// diffFiles compares the remaining worktree files. Directories are compared only for the clean operations and only
// as changes made by the operation itself (a directory both twins had before and exactly one of them removed):
// empty-directory leftovers of earlier operations are not tracked content.
func diffFiles(op opSpec, beforeA, beforeB, fa, fb fsguard.Snapshot, tracked map[string]bool, ignored func(string) bool, rec caseRec) []failure {
	var fails []failure
	hasEntries := func(d string) bool {
		if tracked[d] {
			return true
		}
		for q := range tracked {
			if strings.HasPrefix(q, d+"/") {
				return true
			}
		}
		return false
	}
	if strings.HasPrefix(op.Kind, "clean") {
		var ds []string
		for d, e := range beforeA {
			if eb, ok := beforeB[d]; ok && e.Mode.IsDir() && eb.Mode.IsDir() {
				ds = append(ds, d)
			}
		}
		sort.Strings(ds)
		for _, d := range ds {
			_, inA := fa[d]
			_, inB := fb[d]
			if inA == inB {
				continue
			}
			who := "gogit"
			if inB {
				who = "git"
			}
			class := "without-index-entries"
			if hasEntries(d) {
				class = "with-index-entries"
			}
			fails = append(fails, failure{fmt.Sprintf("%s:directory-removed-only-by-%s:%s", op.Kind, who, class), fmt.Sprintf("directory %q", d)})
		}
	}
	for _, d := range fsguard.Diff(fa, fb, false) {
		f := strings.SplitN(d, " ", 2)
		if len(f) != 2 {
			continue
		}
		what, p := f[0], f[1]
		if what == "mode" {
			if i := strings.IndexByte(p, ' '); i > 0 {
				p = p[:i]
			}
		}
		e, ok := fa[p]
		if !ok {
			e = fb[p]
		}
		if e.Mode.IsDir() {
			continue
		}
		kind := "untracked"
		switch {
		case tracked[p]:
			kind = "tracked"
		case ignored(p):
			kind = "ignored"
		default:
			if i := strings.LastIndexByte(p, '/'); i > 0 {
				kind = "untracked-in-untracked-dir"
				if hasEntries(p[:i]) {
					kind = "untracked-in-tracked-dir"
				}
				for k := 0; k < len(p); k++ {
					if p[k] == '/' && tracked[p[:k]] {
						kind = "untracked-below-index-entry"
					}
				}
			}
		}
		pre := "none"
		for i := len(rec.Pre) - 1; i >= 0; i-- {
			o := rec.Pre[i]
			if o.Path == p || strings.HasPrefix(p, o.Path+"/") || strings.HasPrefix(o.Path, p+"/") {
				pre = o.Kind
				break
			}
		}
		// fsguard.Diff(a=git, b=go-git): "removed" = present after git, absent after go-git
		clause := map[string]string{"removed": "file-missing-after-gogit", "created": "file-left-by-gogit", "content": "file-content-differs", "mode": "file-mode-differs"}[what]
		key := fmt.Sprintf("%s:%s:%s:pre=%s", op.Kind, clause, kind, pre)
		if strings.HasPrefix(op.Kind, "clean") {
			key = fmt.Sprintf("%s:%s:%s", op.Kind, clause, kind)
		}
		fails = append(fails, failure{key, fmt.Sprintf("%s (%s)", d, kind)})
	}
	return fails
}

// checkCommit: the commit go-git made records `git write-tree` of twin B's index, has the same parents as git's
// commit and HEAD/branch moved like in twin A.
func checkCommit(c *vf.Ctx, g *gitx.Git, A, B string, op opSpec, rec caseRec) []failure {
	var fails []failure
	ha, _ := twin.ReadHead(A)
	hb, _ := twin.ReadHead(B)
	if ha != hb {
		fails = append(fails, failure{op.Kind + ":head-symref-differs", fmt.Sprintf("HEAD %q, git %q", hb, ha)})
	}
	ca := g.Run(A, "cat-file", "-p", "HEAD")
	cb := g.Run(B, "cat-file", "-p", "HEAD")
	if !ca.OK() {
		c.Broken("git cat-file HEAD in twin A: %s", ca)
		return nil
	}
	if !cb.OK() {
		return append(fails, failure{op.Kind + ":head-commit-unreadable", cb.String()})
	}
	hdr := func(b []byte) (tree string, parents []string, rest []string) {
		for _, ln := range strings.Split(string(b), "\n") {
			switch {
			case strings.HasPrefix(ln, "tree "):
				tree = ln[5:]
			case strings.HasPrefix(ln, "parent "):
				parents = append(parents, ln[7:])
			default:
				rest = append(rest, ln)
			}
		}
		return
	}
	ta, pa, ra := hdr(ca.Out)
	tb, pb, rb := hdr(cb.Out)
	if (rec.GitErr == "") != (rec.GoErr == "") {
		// index and worktree are equal (checked before) but only one side created a commit
		return append(fails, failure{op.Kind + ":only-one-side-committed", fmt.Sprintf("git error %q, go-git error %q; HEAD tree git %s / go-git %s, parents git %v / go-git %v", rec.GitErr, rec.GoErr, ta, tb, pa, pb)})
	}
	if rec.GitErr != "" {
		return fails
	}
	wt := g.Run(B, "write-tree")
	if !wt.OK() {
		return append(fails, failure{op.Kind + ":write-tree-fails-on-gogit-index", wt.String()})
	}
	c.Count("commit_trees_confirmed_by_write_tree", 1)
	if w := strings.TrimSpace(string(wt.Out)); w != tb {
		fails = append(fails, failure{op.Kind + ":commit-tree-differs-from-write-tree", fmt.Sprintf("commit records tree %s, git write-tree of the same index gives %s", tb, w)})
	}
	if ta != tb {
		fails = append(fails, failure{op.Kind + ":commit-tree-differs-from-git", fmt.Sprintf("tree %s, git's commit has %s", tb, ta)})
	}
	if strings.Join(pa, ",") != strings.Join(pb, ",") {
		fails = append(fails, failure{op.Kind + ":commit-parents-differ", fmt.Sprintf("parents %v, git %v", pb, pa)})
	}
	if strings.Join(ra, "\n") != strings.Join(rb, "\n") {
		fails = append(fails, failure{op.Kind + ":commit-header-or-message-differs", fmt.Sprintf("go-git %q, git %q", strings.Join(rb, "\n"), strings.Join(ra, "\n"))})
	}
	return fails
}
