// C45: unified patches produced by go-git apply with `git apply` and reproduce
// the target; FileStats equal `git diff --numstat`.
//
// Monitor: generated tree pairs are imported with git fast-import (one repository
// per batch of cases), go-git opens that repository and produces the patch
// (object.DiffTree(...).Patch(), UnifiedEncoder with several context sizes);
// the OLD files are materialised as plain files in a scratch directory outside
// any repository, `git apply` is run on go-git's patch text and the resulting
// directory is compared with the NEW tree (content, exec bit, symlinks,
// additions, deletions). Per-file attribution and feature minimisation use an
// in-memory go-git repository plus `git apply` again.
package main

import (
	"bytes"
	"fmt"
	"os"
	"path/filepath"
	"sort"
	"strconv"
	"strings"
	"sync"

	git "github.com/go-git/go-git/v6"
	"github.com/go-git/go-git/v6/plumbing"
	"github.com/go-git/go-git/v6/plumbing/filemode"
	fdiff "github.com/go-git/go-git/v6/plumbing/format/diff"
	"github.com/go-git/go-git/v6/plumbing/object"
	"github.com/go-git/go-git/v6/plumbing/storer"
	"github.com/go-git/go-git/v6/storage/memory"

	"verif/internal/gen"
	"verif/internal/gitx"
	"verif/internal/vf"
)

func main() {
	vf.Main("C45", "exploration",
		"cases = tree pairs of 1-8 file pairs (text edits with 1-4 edits 0-8 lines apart, empty sides, missing final newline on either side, CRLF, duplicate-rich text, patch-syntax-looking lines, long lines, long common runs, exec-bit flips, adds, deletes, binary, symlinks, type changes, odd paths) x encoder context {3 default,0,1,2,5,7}; shape = sorted multiset of (kind, feature set) of the file pairs + context; non-trivial = at least one changed file; oracle = git apply on plain files + directory comparison, git diff-tree --numstat",
		run)
}

type tcase struct {
	idx   int
	pairs []fpair
	ctx   int // -1: Patch.Encode (default 3)
}

type snapEntry struct {
	Mode    string
	Content []byte
}

func snapshot(dir string) (map[string]snapEntry, error) {
	out := map[string]snapEntry{}
	err := filepath.Walk(dir, func(p string, info os.FileInfo, err error) error {
		if err != nil {
			return err
		}
		rel, _ := filepath.Rel(dir, p)
		if info.IsDir() {
			return nil
		}
		if info.Mode()&os.ModeSymlink != 0 {
			t, err := os.Readlink(p)
			if err != nil {
				return err
			}
			out[filepath.ToSlash(rel)] = snapEntry{"120000", []byte(t)}
			return nil
		}
		b, err := os.ReadFile(p)
		if err != nil {
			return err
		}
		m := "100644"
		if info.Mode()&0o100 != 0 {
			m = "100755"
		}
		out[filepath.ToSlash(rel)] = snapEntry{m, b}
		return nil
	})
	return out, err
}

func materialise(dir string, t gen.Tree) error {
	for p, f := range t {
		full := filepath.Join(dir, filepath.FromSlash(p))
		if err := os.MkdirAll(filepath.Dir(full), 0o755); err != nil {
			return err
		}
		if f.Mode == "120000" {
			if err := os.Symlink(string(f.Content), full); err != nil {
				return err
			}
			continue
		}
		perm := os.FileMode(0o644)
		if f.Mode == "100755" {
			perm = 0o755
		}
		if err := os.WriteFile(full, f.Content, perm); err != nil {
			return err
		}
	}
	return nil
}

// diffSnap describes the first differences between a directory snapshot and the expected tree.
func diffSnap(got map[string]snapEntry, want gen.Tree) []string {
	var d []string
	for p, w := range want {
		g, ok := got[p]
		switch {
		case !ok:
			d = append(d, fmt.Sprintf("%q missing", p))
		case g.Mode != w.Mode:
			d = append(d, fmt.Sprintf("%q mode %s want %s", p, g.Mode, w.Mode))
		case !bytes.Equal(g.Content, w.Content):
			d = append(d, fmt.Sprintf("%q content %s want %s", p, vf.Q(g.Content), vf.Q(w.Content)))
		}
	}
	for p := range got {
		if _, ok := want[p]; !ok {
			d = append(d, fmt.Sprintf("%q should not exist", p))
		}
	}
	sort.Strings(d)
	return d
}

type onePatch struct{ fps []fdiff.FilePatch }

func (o onePatch) FilePatches() []fdiff.FilePatch { return o.fps }
func (o onePatch) Message() string                { return "" }

func encode(fps []fdiff.FilePatch, ctx int) (string, any) {
	var buf bytes.Buffer
	var err error
	p, _ := vf.Catch(func() {
		c := ctx
		if c < 0 {
			c = fdiff.DefaultContextLines
		}
		err = fdiff.NewUnifiedEncoder(&buf, c).Encode(onePatch{fps})
	})
	if p != nil {
		return "", p
	}
	if err != nil {
		return "", err
	}
	return buf.String(), nil
}

// hasBinaryMarker: does the encoded section of this file patch carry git's binary marker line?
func hasBinaryMarker(fp fdiff.FilePatch) bool {
	t, err := encode([]fdiff.FilePatch{fp}, -1)
	if err != nil {
		return false
	}
	for _, ln := range strings.Split(t, "\n") {
		if strings.HasPrefix(ln, "Binary files ") && strings.HasSuffix(ln, " differ") {
			return true
		}
		if strings.HasPrefix(ln, "@@") {
			break
		}
	}
	return false
}

func fpPath(fp fdiff.FilePatch) string {
	from, to := fp.Files()
	if to != nil {
		return to.Path()
	}
	if from != nil {
		return from.Path()
	}
	return ""
}

// ---- in-memory go-git repository for attribution / minimisation ----

func putBlob(s storer.EncodedObjectStorer, b []byte) (plumbing.Hash, error) {
	o := s.NewEncodedObject()
	o.SetType(plumbing.BlobObject)
	w, err := o.Writer()
	if err != nil {
		return plumbing.ZeroHash, err
	}
	if _, err := w.Write(b); err != nil {
		return plumbing.ZeroHash, err
	}
	w.Close()
	return s.SetEncodedObject(o)
}

func putTree(s storer.EncodedObjectStorer, t gen.Tree, prefix string) (plumbing.Hash, error) {
	type ent struct {
		name  string
		isDir bool
	}
	seen := map[string]bool{}
	var ents []ent
	for p := range t {
		if !strings.HasPrefix(p, prefix) {
			continue
		}
		rest := p[len(prefix):]
		if i := strings.IndexByte(rest, '/'); i >= 0 {
			if !seen[rest[:i]] {
				seen[rest[:i]] = true
				ents = append(ents, ent{rest[:i], true})
			}
		} else {
			ents = append(ents, ent{rest, false})
		}
	}
	tr := &object.Tree{}
	for _, e := range ents {
		if e.isDir {
			h, err := putTree(s, t, prefix+e.name+"/")
			if err != nil {
				return h, err
			}
			tr.Entries = append(tr.Entries, object.TreeEntry{Name: e.name, Mode: filemode.Dir, Hash: h})
			continue
		}
		f := t[prefix+e.name]
		h, err := putBlob(s, f.Content)
		if err != nil {
			return h, err
		}
		m, _ := filemode.New(f.Mode)
		tr.Entries = append(tr.Entries, object.TreeEntry{Name: e.name, Mode: m, Hash: h})
	}
	sort.Sort(object.TreeEntrySorter(tr.Entries))
	o := s.NewEncodedObject()
	if err := tr.Encode(o); err != nil {
		return plumbing.ZeroHash, err
	}
	return s.SetEncodedObject(o)
}

// memPatch computes go-git's file patches for the pairs in a fresh memory storage.
func memPatch(pairs []fpair) (fps []fdiff.FilePatch, err error) {
	st := memory.NewStorage()
	old, nw := trees(pairs)
	ho, err := putTree(st, old, "")
	if err != nil {
		return nil, err
	}
	hn, err := putTree(st, nw, "")
	if err != nil {
		return nil, err
	}
	p, stack := vf.Catch(func() {
		var to, tn *object.Tree
		if to, err = object.GetTree(st, ho); err != nil {
			return
		}
		if tn, err = object.GetTree(st, hn); err != nil {
			return
		}
		var ch object.Changes
		if ch, err = object.DiffTree(to, tn); err != nil {
			return
		}
		var pa *object.Patch
		if pa, err = ch.Patch(); err != nil {
			return
		}
		fps = pa.FilePatches()
	})
	if p != nil {
		return nil, fmt.Errorf("panic: %v\n%s", p, stack)
	}
	return fps, err
}

type checker struct {
	c *vf.Ctx
	g *gitx.Git
}

// applyIn materialises old, runs git apply on text, returns (accepted, stderr, differences vs want).
func (k *checker) applyIn(old gen.Tree, text string, ctx int, want gen.Tree) (ok bool, stderr string, diffs []string, err error) {
	dir := k.c.TempDir("apply")
	defer os.RemoveAll(dir)
	work := filepath.Join(dir, "w")
	os.MkdirAll(work, 0o755)
	if err := materialise(work, old); err != nil {
		return false, "", nil, err
	}
	pf := filepath.Join(dir, "p.diff")
	if err := os.WriteFile(pf, []byte(text), 0o644); err != nil {
		return false, "", nil, err
	}
	args := []string{"apply"}
	if ctx == 0 {
		args = append(args, "--unidiff-zero")
	}
	args = append(args, pf)
	res := k.g.Run(work, args...)
	k.c.Count("git_apply_runs", 1)
	if res.Timeout {
		return false, "", nil, fmt.Errorf("git apply timed out")
	}
	snap, err := snapshot(work)
	if err != nil {
		return false, "", nil, err
	}
	if res.Code != 0 {
		// a refused patch must leave the files alone (git apply is atomic) - that is git's business, but it tells us the harness is sane
		if d := diffSnap(snap, old); len(d) > 0 {
			return false, string(res.Err), nil, fmt.Errorf("git apply failed (%s) but changed files: %v", res.Err, d)
		}
		return false, string(res.Err), nil, nil
	}
	return true, string(res.Err), diffSnap(snap, want), nil
}

// singleFails reproduces one file pair alone through the in-memory path; returns the failing clause ("" = fine).
func (k *checker) singleFails(p fpair, ctx int) (clause, detail string) {
	fps, err := memPatch([]fpair{p})
	if err != nil {
		return "gogit-error", err.Error()
	}
	if p.kind() == "same" || p.kind() == "none" {
		if len(fps) != 0 {
			return "file-set", "unchanged file in patch"
		}
		return "", ""
	}
	if len(fps) != 1 {
		return "file-set", fmt.Sprintf("%d file patches for one changed file", len(fps))
	}
	gitBinary := (p.Old != nil && p.Old.Mode != "120000" && isBin(p.Old.Content)) || (p.New != nil && p.New.Mode != "120000" && isBin(p.New.Content))
	if m := hasBinaryMarker(fps[0]); m != gitBinary {
		if m {
			return "false-binary", "go-git marks a text pair as binary"
		}
		return "missed-binary", "go-git treats a binary pair as text"
	}
	if gitBinary {
		return "", ""
	}
	text, perr := encode(fps, ctx)
	if perr != nil {
		return "encode-error", fmt.Sprint(perr)
	}
	old, nw := trees([]fpair{p})
	ok, stderr, diffs, err := k.applyIn(old, text, ctx, nw)
	if err != nil {
		k.c.Broken("harness: %v", err)
		return "", ""
	}
	if !ok {
		return "apply-rejected", strings.TrimSpace(stderr) + " :: patch " + strconv.Quote(trunc(text, 600))
	}
	if len(diffs) > 0 {
		return "apply-wrong-result", strings.Join(diffs, "; ") + " :: patch " + strconv.Quote(trunc(text, 600))
	}
	return "", ""
}

func trunc(s string, n int) string {
	if len(s) > n {
		return s[:n] + "..."
	}
	return s
}

// simplifications: each removes one removable feature from a file pair.
var simplifications = []struct {
	feature string
	f       func(p fpair) fpair
}{
	{"path", func(p fpair) fpair { p.Path = "f.txt"; return p }},
	{"cr", func(p fpair) fpair {
		return mapContent(p, func(b []byte) []byte { return bytes.ReplaceAll(b, []byte("\r"), nil) })
	}},
	{"old-nonl", func(p fpair) fpair {
		if p.Old != nil && p.Old.Mode != "120000" && len(p.Old.Content) > 0 && p.Old.Content[len(p.Old.Content)-1] != '\n' {
			o := *p.Old
			o.Content = append(append([]byte{}, o.Content...), '\n')
			p.Old = &o
		}
		return p
	}},
	{"new-nonl", func(p fpair) fpair {
		if p.New != nil && p.New.Mode != "120000" && len(p.New.Content) > 0 && p.New.Content[len(p.New.Content)-1] != '\n' {
			o := *p.New
			o.Content = append(append([]byte{}, o.Content...), '\n')
			p.New = &o
		}
		return p
	}},
	{"patchlike", func(p fpair) fpair {
		return mapContent(p, func(b []byte) []byte {
			if len(b) == 0 {
				return b
			}
			lines := strings.SplitAfter(string(b), "\n")
			for i, ln := range lines {
				if ln != "" {
					lines[i] = "x" + ln
				}
			}
			return []byte(strings.Join(lines, ""))
		})
	}},
	{"longline", func(p fpair) fpair {
		return mapContent(p, func(b []byte) []byte {
			lines := strings.SplitAfter(string(b), "\n")
			for i, ln := range lines {
				if len(ln) > 2000 {
					lines[i] = ln[:10] + ln[len(ln)-20:]
				}
			}
			return []byte(strings.Join(lines, ""))
		})
	}},
	{"exec", func(p fpair) fpair {
		if p.kind() == "mode-only" || p.kind() == "modify+mode" {
			return p
		}
		for _, f := range []**gen.File{&p.Old, &p.New} {
			if *f != nil && (*f).Mode == "100755" {
				o := **f
				o.Mode = "100644"
				*f = &o
			}
		}
		return p
	}},
	{"late-nul", func(p fpair) fpair {
		return mapContent(p, func(b []byte) []byte { return bytes.ReplaceAll(b, []byte{0}, []byte("0")) })
	}},
}

func mapContent(p fpair, f func([]byte) []byte) fpair {
	for _, s := range []**gen.File{&p.Old, &p.New} {
		if *s != nil && (*s).Mode != "120000" && !isBin((*s).Content) {
			o := **s
			o.Content = f(append([]byte{}, o.Content...))
			*s = &o
		}
	}
	return p
}

var keyCache sync.Map

// findingKey minimises the failing pair feature-wise and derives the key: clause:kind[:features][:ctxN].
func (k *checker) findingKey(clause string, p fpair, ctx int) string {
	pre := clause + "|" + p.kind() + "|" + strings.Join(p.features(), ",") + "|" + strconv.Itoa(ctx)
	if v, ok := keyCache.Load(pre); ok {
		return v.(string)
	}
	cur := p
	curCtx := ctx
	if curCtx != -1 {
		if cl, _ := k.singleFails(cur, -1); cl == clause {
			curCtx = -1
		}
	}
	for _, s := range simplifications {
		cand := s.f(cur)
		if cand.kind() != cur.kind() {
			continue
		}
		if strings.Join(cand.features(), ",") == strings.Join(cur.features(), ",") && cand.Path == cur.Path {
			continue
		}
		if cl, _ := k.singleFails(cand, curCtx); cl == clause {
			cur = cand
		}
	}
	key := clause + ":" + cur.kind()
	var feats []string
	for _, f := range cur.features() {
		switch {
		case cur.kind() == "typechange" && !strings.HasPrefix(f, "path"):
			continue // a type change is one defect class whatever the contents are
		case cur.kind() == "mode-only" && !strings.HasPrefix(f, "path"):
			continue // identical contents never reach the patch text
		case cur.kind() == "modify+mode" && f == "exec":
			continue // intrinsic to the kind
		}
		feats = append(feats, f)
	}
	if len(feats) > 0 {
		key += ":" + strings.Join(feats, "+")
	}
	if curCtx != -1 {
		key += ":ctx" + strconv.Itoa(curCtx)
	}
	keyCache.Store(pre, key)
	return key
}

func replayOf(p fpair, ctx int) map[string]any {
	m := map[string]any{"path": p.Path, "tag": p.Tag, "kind": p.kind(), "features": p.features(), "context": ctx}
	if p.Old != nil {
		m["old_mode"], m["old"] = p.Old.Mode, vf.Q(p.Old.Content)
	}
	if p.New != nil {
		m["new_mode"], m["new"] = p.New.Mode, vf.Q(p.New.Content)
	}
	return m
}

type numstat struct {
	add, del int
	binary   bool
}

func parseNumstatZ(out []byte, ids []string) (map[string]map[string]numstat, error) {
	res := map[string]map[string]numstat{}
	isID := map[string]bool{}
	for _, id := range ids {
		isID[id] = true
	}
	cur := ""
	for _, rec := range bytes.Split(out, []byte{0}) {
		s := string(rec)
		if s == "" {
			continue
		}
		if isID[s] {
			cur = s
			res[cur] = map[string]numstat{}
			continue
		}
		parts := strings.SplitN(s, "\t", 3)
		if len(parts) != 3 || cur == "" {
			return nil, fmt.Errorf("unparsable numstat record %q", s)
		}
		var n numstat
		if parts[0] == "-" {
			n.binary = true
		} else {
			a, e1 := strconv.Atoi(parts[0])
			d, e2 := strconv.Atoi(parts[1])
			if e1 != nil || e2 != nil {
				return nil, fmt.Errorf("unparsable numstat record %q", s)
			}
			n.add, n.del = a, d
		}
		res[cur][parts[2]] = n
	}
	return res, nil
}

func countLines(b []byte) int {
	if len(b) == 0 {
		return 0
	}
	n := bytes.Count(b, []byte("\n"))
	if b[len(b)-1] != '\n' {
		n++
	}
	return n
}

func run(c *vf.Ctx) {
	g := gitx.New(c.Scratch)
	g.Env = append(g.Env, "GIT_CEILING_DIRECTORIES="+c.Scratch)
	k := &checker{c, g}
	nCases := c.N(220, 2000)
	batchSize := 50
	// all generation up front, sequentially (deterministic)
	var cases []tcase
	for i := 0; i < nCases; i++ {
		r := c.Rand("case", i)
		tc := tcase{idx: i, pairs: genPairs(r, i%9 == 0), ctx: -1}
		if r.Intn(10) < 3 {
			tc.ctx = []int{0, 1, 2, 5, 7}[r.Intn(5)]
		}
		cases = append(cases, tc)
	}
	nBatches := (len(cases) + batchSize - 1) / batchSize
	var mu sync.Mutex
	reported := map[string]int{}
	vf.Parallel(nBatches, 6, func(bi int) {
		lo, hi := bi*batchSize, min((bi+1)*batchSize, len(cases))
		batch := cases[lo:hi]
		// repository with one (old,new) commit pair per case
		h := &gen.History{Branches: map[string]int{}, Tags: map[string]int{}, ATags: map[string]int{}}
		for j, tc := range batch {
			old, nw := trees(tc.pairs)
			h.Commits = append(h.Commits, gen.Commit{Tree: old, Time: 1600000000, ATime: 1600000000, Zone: "+0000", Msg: "old\n"})
			h.Commits = append(h.Commits, gen.Commit{Parents: []int{2 * j}, Tree: nw, Time: 1600000100, ATime: 1600000100, Zone: "+0000", Msg: "new\n"})
		}
		h.Branches["master"] = len(h.Commits) - 1
		repo := c.TempDir(fmt.Sprintf("repo%d", bi))
		defer os.RemoveAll(repo)
		if err := g.Init(repo, true, "sha1"); err != nil {
			c.Broken("git init: %v", err)
			return
		}
		gi := gitx.New(c.TempDir("githome"))
		gi.Env = g.Env
		ids, err := gi.Import(repo, h)
		if err != nil {
			c.Broken("fast-import: %v", err)
			return
		}
		var stdin strings.Builder
		var newIDs []string
		for j := range batch {
			stdin.WriteString(ids[2*j+1] + "\n")
			newIDs = append(newIDs, ids[2*j+1])
		}
		res := g.RunIn(repo, []byte(stdin.String()), "diff-tree", "--stdin", "-r", "--numstat", "--no-renames", "-z", "--root")
		if !res.OK() {
			c.Broken("git diff-tree --numstat failed: %s", res)
			return
		}
		c.Count("git_numstat_batches", 1)
		nums, err := parseNumstatZ(res.Out, newIDs)
		if err != nil {
			c.Broken("numstat parse: %v", err)
			return
		}
		r, err := git.PlainOpen(repo)
		if err != nil {
			c.Broken("go-git PlainOpen: %v", err)
			return
		}
		for j, tc := range batch {
			k.checkCase(r, tc, ids[2*j], ids[2*j+1], nums[ids[2*j+1]], &mu, reported)
		}
	})
	c.Extra("git_invocations", gitx.Calls.Load())
	c.Floor("cases", c.Counter("cases_checked"), c.N(200, 1900))
	c.Floor("git apply runs accepted with identical result", c.Counter("apply_ok"), c.N(130, 1300))
	c.Floor("text file patches applied", c.Counter("file_patches_applied"), c.N(450, 4000))
	c.Floor("stats compared with git numstat", c.Counter("stats_compared"), c.N(450, 4000))
	c.Floor("binary pairs", c.Counter("binary_pairs"), c.N(8, 80))
	c.Floor("patches with rename sections applied", c.Counter("rename_patches"), c.N(1, 20))
	c.Floor("distinct tags", c.SeenCount("tags"), 25)
	c.Assume("git 2.39.5 `git apply` (outside a repository, plain files) and `git diff-tree --numstat --no-renames` are the reference; rename detection is off on both sides (object.DiffTree)")
	c.Assume("a pair is binary when either side has a NUL in its first 8000 bytes (git's and go-git's rule); for such pairs only the marker and git's consistent refusal/acceptance are checked")
	c.Assume("gitlinks (submodules) are not generated")
}

func (k *checker) fail(mu *sync.Mutex, reported map[string]int, key, what string, replay any) {
	mu.Lock()
	reported[key]++
	n := reported[key]
	mu.Unlock()
	if n > 50 {
		k.c.Count("failures_beyond_50_per_key_not_reported", 1)
		return
	}
	k.c.Fail(key, what, replay)
}

func (k *checker) checkCase(r *git.Repository, tc tcase, oldID, newID string, nums map[string]numstat, mu *sync.Mutex, reported map[string]int) {
	c := k.c
	byPath := map[string]fpair{}
	var shapeParts []string
	changed := 0
	for _, p := range tc.pairs {
		byPath[p.Path] = p
		c.Seen("tags", strings.SplitN(p.Tag, ":", 2)[0])
		c.Seen("kinds", p.kind())
		shapeParts = append(shapeParts, p.kind()+"["+strings.Join(p.features(), "+")+"]")
		if p.kind() != "same" && p.kind() != "none" {
			changed++
		}
	}
	sort.Strings(shapeParts)
	c.Eval(vf.ShapeHash(shapeParts, tc.ctx), changed > 0)
	c.Count("cases_checked", 1)
	caseReplay := func() any {
		var l []any
		for _, p := range tc.pairs {
			l = append(l, replayOf(p, tc.ctx))
		}
		return map[string]any{"case": tc.idx, "context": tc.ctx, "pairs": l}
	}
	// ---- go-git
	var fps []fdiff.FilePatch
	var stats object.FileStats
	var err error
	pv, stack := vf.Catch(func() {
		var co, cn *object.Commit
		if co, err = r.CommitObject(plumbing.NewHash(oldID)); err != nil {
			return
		}
		if cn, err = r.CommitObject(plumbing.NewHash(newID)); err != nil {
			return
		}
		var to, tn *object.Tree
		if to, err = co.Tree(); err != nil {
			return
		}
		if tn, err = cn.Tree(); err != nil {
			return
		}
		var ch object.Changes
		if ch, err = object.DiffTree(to, tn); err != nil {
			return
		}
		var pa *object.Patch
		if pa, err = ch.Patch(); err != nil {
			return
		}
		fps = pa.FilePatches()
		stats = pa.Stats()
	})
	if pv != nil {
		k.fail(mu, reported, "panic:patch", fmt.Sprintf("panic computing the patch: %v\n%s", pv, stack), caseReplay())
		return
	}
	if err != nil {
		k.fail(mu, reported, "gogit-error:patch", "error computing the patch: "+err.Error(), caseReplay())
		return
	}
	if tc.idx < 2 {
		t, _ := encode(fps, tc.ctx)
		c.Sample(map[string]any{"case": caseReplay(), "patch": trunc(t, 1500)})
	}
	// ---- clause file-set: the patch has exactly the files git reports as changed
	gog := map[string]fdiff.FilePatch{}
	for _, fp := range fps {
		gog[fpPath(fp)] = fp
	}
	for p := range nums {
		if _, ok := gog[p]; !ok {
			k.fail(mu, reported, "file-set:missing:"+byPath[p].kind(), fmt.Sprintf("git reports %q changed, go-git's patch has no section for it", p), caseReplay())
		}
	}
	for p := range gog {
		if _, ok := nums[p]; !ok {
			k.fail(mu, reported, "file-set:extra:"+byPath[p].kind(), fmt.Sprintf("go-git's patch has a section for %q which git does not report as changed", p), caseReplay())
		}
	}
	// ---- clause binary markers + invariant: chunks reconstruct both sides
	var textFps []fdiff.FilePatch
	excluded := map[string]bool{}
	hasBinary := false
	for _, fp := range fps {
		path := fpPath(fp)
		p, known := byPath[path]
		ns, inGit := nums[path]
		if !known || !inGit {
			excluded[path] = true
			continue
		}
		if ns.binary {
			hasBinary = true
			c.Count("binary_pairs", 1)
		}
		marker := hasBinaryMarker(fp)
		if marker {
			c.Count("binary_markers_seen", 1)
		}
		if marker != ns.binary {
			clause := "missed-binary"
			if marker {
				clause = "false-binary"
			}
			key := k.findingKey(clause, p, -1)
			k.fail(mu, reported, key, fmt.Sprintf("%q: go-git's patch has a `Binary files ... differ` marker=%v (IsBinary()=%v, %d chunks), git numstat binary=%v", path, marker, fp.IsBinary(), len(fp.Chunks()), ns.binary), replayOf(p, tc.ctx))
			excluded[path] = true
			continue
		}
		if ns.binary {
			excluded[path] = true
			continue
		}
		// invariant (git-free): the chunks are a diff between exactly the two blobs
		var src, dst strings.Builder
		for _, ch := range fp.Chunks() {
			if ch.Type() != fdiff.Add {
				src.WriteString(ch.Content())
			}
			if ch.Type() != fdiff.Delete {
				dst.WriteString(ch.Content())
			}
		}
		var oc, ncn []byte
		if p.Old != nil {
			oc = p.Old.Content
		}
		if p.New != nil {
			ncn = p.New.Content
		}
		if src.String() != string(oc) || dst.String() != string(ncn) {
			k.fail(mu, reported, "chunks-do-not-reconstruct:"+p.kind(), fmt.Sprintf("%q: concatenated chunks differ from the blobs", path), replayOf(p, tc.ctx))
		}
		c.Count("chunk_invariant_checks", 1)
		textFps = append(textFps, fp)
	}
	// ---- clause apply: text sections must apply and give the new versions
	old, nw := trees(tc.pairs)
	want := gen.Tree{}
	for p, f := range nw {
		want[p] = f
	}
	for p := range excluded { // excluded files stay as they were
		delete(want, p)
		if f, ok := old[p]; ok {
			want[p] = f
		}
	}
	textOK := true
	if len(textFps) > 0 {
		textOK = false
		text, perr := encode(textFps, tc.ctx)
		if perr != nil {
			k.fail(mu, reported, "encode-error", fmt.Sprintf("UnifiedEncoder failed: %v", perr), caseReplay())
			return
		}
		ok, stderr, diffs, err := k.applyIn(old, text, tc.ctx, want)
		if err != nil {
			c.Broken("harness: %v", err)
			return
		}
		if ok && len(diffs) == 0 {
			textOK = true
			c.Count("apply_ok", 1)
			c.Count("file_patches_applied", len(textFps))
		} else {
			// attribute to single files: first the files git's error output names, then the rest in one go
			attributed := false
			failing := map[string]bool{}
			tryOne := func(fp fdiff.FilePatch) {
				p := byPath[fpPath(fp)]
				clause, detail := k.singleFails(p, tc.ctx)
				if clause == "" {
					return
				}
				attributed = true
				failing[p.Path] = true
				key := k.findingKey(clause, p, tc.ctx)
				k.fail(mu, reported, key, fmt.Sprintf("%q (%s): %s", p.Path, p.Tag, detail), replayOf(p, tc.ctx))
			}
			tried := map[string]bool{}
			for _, fp := range textFps {
				pth := fpPath(fp)
				if strings.Contains(stderr, pth) || byPath[pth].kind() == "typechange" {
					tried[pth] = true
					tryOne(fp)
				}
			}
			var rest []fdiff.FilePatch
			wantRest := gen.Tree{}
			for p, f := range old {
				wantRest[p] = f
			}
			for _, fp := range textFps {
				pth := fpPath(fp)
				if failing[pth] {
					continue
				}
				rest = append(rest, fp)
				delete(wantRest, pth)
				if f, ok := nw[pth]; ok {
					wantRest[pth] = f
				}
			}
			restOK := false
			if attributed && len(rest) > 0 {
				if t2, perr := encode(rest, tc.ctx); perr == nil {
					if ok2, _, d2, err2 := k.applyIn(old, t2, tc.ctx, wantRest); err2 == nil && ok2 && len(d2) == 0 {
						restOK = true
						c.Count("file_patches_applied", len(rest))
					}
				}
			}
			if !restOK {
				for _, fp := range rest {
					if !tried[fpPath(fp)] {
						tryOne(fp)
					}
				}
			}
			if !attributed {
				what := "git apply rejected the multi-file patch: " + strings.TrimSpace(stderr)
				if ok {
					what = "git apply accepted the multi-file patch but the result differs: " + strings.Join(diffs, "; ")
				}
				var kinds []string
				for _, fp := range textFps {
					kinds = append(kinds, byPath[fpPath(fp)].kind())
				}
				sort.Strings(kinds)
				k.fail(mu, reported, "apply-multi-file-only:"+strings.Join(uniqStr(kinds), "+"), what+" (every file patch applies on its own) :: patch "+strconv.Quote(trunc(text, 800)), caseReplay())
			}
		}
	}
	// ---- clause binary refusal: the full patch is either refused because of the binary section, or gives the new tree
	if hasBinary && !textOK {
		c.Count("binary_clause_skipped_text_part_failed", 1)
	}
	if hasBinary && textOK {
		var sel []fdiff.FilePatch
		for _, fp := range fps {
			if pth := fpPath(fp); !excluded[pth] || nums[pth].binary {
				sel = append(sel, fp)
			}
		}
		wantB := gen.Tree{}
		for p, f := range want {
			wantB[p] = f
		}
		for p, ns := range nums {
			if ns.binary {
				delete(wantB, p)
				if f, ok := nw[p]; ok {
					wantB[p] = f
				}
			}
		}
		text, perr := encode(sel, tc.ctx)
		if perr == nil {
			ok, stderr, diffs, err := k.applyIn(old, text, tc.ctx, wantB)
			if err != nil {
				c.Broken("harness: %v", err)
			} else if ok {
				c.Count("binary_patch_accepted", 1)
				if len(diffs) > 0 {
					k.fail(mu, reported, "binary:accepted-wrong-result", "git apply accepted a patch with binary markers but the result differs: "+strings.Join(diffs, "; "), caseReplay())
				}
			} else {
				c.Count("binary_patch_refused", 1)
				if !strings.Contains(stderr, "binary patch") && !strings.Contains(stderr, "without full index") {
					// the refusal must be about the binary section; if the text part was fine above this is a different problem
					bkey := "binary:refused-for-other-reason"
					for pth, ns := range nums {
						if ns.binary && pathFeature(pth) == "path-needs-cquote" {
							bkey += ":path-needs-cquote"
							break
						}
					}
					k.fail(mu, reported, bkey, "git apply refused the full patch, not because of missing binary data: "+strings.TrimSpace(stderr), caseReplay())
				}
			}
		}
	}
	// ---- clause rename-patch: the same pair through Commit.Patch (rename detection on). Without detected renames the
	// text must be identical to the DiffTree one; with renames git apply must still reproduce the new tree.
	if textOK && len(excluded) == 0 {
		var rfps []fdiff.FilePatch
		var rerr error
		pv, stack := vf.Catch(func() {
			co, err := r.CommitObject(plumbing.NewHash(oldID))
			if err != nil {
				rerr = err
				return
			}
			cn, err := r.CommitObject(plumbing.NewHash(newID))
			if err != nil {
				rerr = err
				return
			}
			pa, err := co.Patch(cn)
			if err != nil {
				rerr = err
				return
			}
			rfps = pa.FilePatches()
		})
		switch {
		case pv != nil:
			k.fail(mu, reported, "panic:commit-patch", fmt.Sprintf("Commit.Patch panicked: %v\n%s", pv, stack), caseReplay())
		case rerr != nil:
			k.fail(mu, reported, "gogit-error:commit-patch", "Commit.Patch: "+rerr.Error(), caseReplay())
		default:
			renames := 0
			for _, fp := range rfps {
				from, to := fp.Files()
				if from != nil && to != nil && from.Path() != to.Path() {
					renames++
				}
			}
			c.Count("commit_patch_calls", 1)
			t1, e1 := encode(fps, tc.ctx)
			t2, e2 := encode(rfps, tc.ctx)
			switch {
			case e1 != nil || e2 != nil:
			case renames == 0:
				if sectionSet(t1) != sectionSet(t2) { // the order of the sections is not part of the property
					k.fail(mu, reported, "rename-patch:differs-without-renames", "Commit.Patch (rename detection on, no rename found) differs from DiffTree().Patch(): "+sectionDiff(t1, t2), caseReplay())
				}
			default:
				c.Count("rename_patches", 1)
				ok, stderr, diffs, err := k.applyIn(old, t2, tc.ctx, nw)
				switch {
				case err != nil:
					c.Broken("harness: %v", err)
				case !ok:
					k.fail(mu, reported, "rename-patch:apply-rejected", "git apply rejected the patch with rename sections: "+strings.TrimSpace(stderr)+" :: "+strconv.Quote(trunc(t2, 700)), caseReplay())
				case len(diffs) > 0:
					k.fail(mu, reported, "rename-patch:apply-wrong-result", strings.Join(diffs, "; ")+" :: "+strconv.Quote(trunc(t2, 700)), caseReplay())
				default:
					c.Count("rename_patches_applied", 1)
				}
			}
		}
	}
	// ---- clause stats
	st := map[string]object.FileStat{}
	for _, s := range stats {
		st[s.Name] = s
	}
	for path, ns := range nums {
		p, known := byPath[path]
		if !known || ns.binary || excluded[path] {
			continue
		}
		c.Count("stats_compared", 1)
		s, ok := st[path]
		if !ok {
			key := k.statsKey("stats-missing", p)
			k.fail(mu, reported, key, fmt.Sprintf("%q: git numstat %d/%d, go-git FileStats has no entry", path, ns.add, ns.del), replayOf(p, tc.ctx))
			continue
		}
		if s.Addition == ns.add && s.Deletion == ns.del {
			continue
		}
		var oc, ncn []byte
		if p.Old != nil {
			oc = p.Old.Content
		}
		if p.New != nil {
			ncn = p.New.Content
		}
		net := countLines(ncn) - countLines(oc)
		clause := "stats-differ"
		switch {
		case s.Addition-s.Deletion != net:
			clause = "stats-wrong-net"
		case s.Addition > ns.add:
			clause = "stats-gogit-diff-not-minimal"
		case s.Addition < ns.add:
			clause = "stats-git-diff-not-minimal"
		}
		if clause == "stats-git-diff-not-minimal" {
			// git's own heuristic produced the longer script: not a go-git defect (the statement compares with git's default output; a shorter, valid script is not wrong)
			c.Count("stats_git_not_minimal_skipped", 1)
			continue
		}
		key := k.statsKey(clause, p)
		if clause == "stats-gogit-diff-not-minimal" {
			key = clause // one cause whatever the file kind: the line diff itself is longer than git's
		}
		k.fail(mu, reported, key, fmt.Sprintf("%q: go-git +%d -%d, git numstat +%d -%d (net line change %d)", path, s.Addition, s.Deletion, ns.add, ns.del, net), replayOf(p, tc.ctx))
	}
	for name := range st {
		if _, ok := nums[name]; !ok {
			k.fail(mu, reported, "stats-extra", fmt.Sprintf("FileStats has %q which git numstat does not list", name), caseReplay())
		}
	}
}

func (k *checker) statsKey(clause string, p fpair) string {
	f := p.features()
	var keep []string
	for _, x := range f {
		switch x {
		case "old-empty", "new-empty", "old-symlink", "new-symlink", "old-nonl", "new-nonl":
			keep = append(keep, x)
		}
	}
	key := clause + ":" + p.kind()
	if len(keep) > 0 {
		key += ":" + strings.Join(keep, "+")
	}
	return key
}

func uniqStr(in []string) []string {
	var out []string
	for i, s := range in {
		if i == 0 || s != in[i-1] {
			out = append(out, s)
		}
	}
	return out
}

// sectionSet canonicalises a patch text as the sorted multiset of its per-file sections.
func sectionSet(t string) string {
	parts := strings.Split("\n"+strings.TrimSuffix(t, "\n"), "\ndiff --git ")
	sort.Strings(parts)
	return strings.Join(parts, "\ndiff --git ")
}

func sectionDiff(a, b string) string {
	pa := strings.Split("\n"+strings.TrimSuffix(a, "\n"), "\ndiff --git ")
	pb := strings.Split("\n"+strings.TrimSuffix(b, "\n"), "\ndiff --git ")
	in := func(l []string, x string) bool {
		for _, y := range l {
			if x == y {
				return true
			}
		}
		return false
	}
	var out []string
	for _, x := range pa {
		if !in(pb, x) {
			out = append(out, "only DiffTree: "+strconv.Quote(trunc(x, 400)))
		}
	}
	for _, x := range pb {
		if !in(pa, x) {
			out = append(out, "only Commit.Patch: "+strconv.Quote(trunc(x, 400)))
		}
	}
	return strings.Join(out, " || ")
}
