package main

import (
	"bytes"
	"fmt"
	"math/rand"
	"sort"
	"strings"

	"verif/internal/gen"
)

// fpair is one path with its old and new version (nil = absent).
type fpair struct {
	Path string
	Old  *gen.File
	New  *gen.File
	Tag  string // generator label of the main intended feature
}

func (p fpair) kind() string {
	switch {
	case p.Old == nil && p.New == nil:
		return "none"
	case p.Old == nil:
		return "add"
	case p.New == nil:
		return "delete"
	case p.Old.Mode != p.New.Mode && (p.Old.Mode == "120000" || p.New.Mode == "120000"):
		return "typechange"
	case bytes.Equal(p.Old.Content, p.New.Content) && p.Old.Mode != p.New.Mode:
		return "mode-only"
	case bytes.Equal(p.Old.Content, p.New.Content):
		return "same"
	case p.Old.Mode != p.New.Mode:
		return "modify+mode"
	}
	return "modify"
}

func isBin(b []byte) bool {
	n := len(b)
	if n > 8000 {
		n = 8000
	}
	return bytes.IndexByte(b[:n], 0) >= 0
}

var patchlike = []string{"-", "+", " ", "--- a/f", "+++ b/f", "@@ -1,2 +1,2 @@", "\\ No newline at end of file", "diff --git a/x b/x",
	"-- ", "index 0000000..1111111 100644", "Binary files a/x and b/x differ", "--", "++", "@@", "---", "+++", "new file mode 100644", "deleted file mode 100644", "rename from a"}

func pathFeature(p string) string {
	switch {
	case strings.ContainsAny(p, "\"\\\t\n"):
		return "path-needs-cquote"
	case strings.Contains(p, " "):
		return "path-space"
	}
	for i := 0; i < len(p); i++ {
		if p[i] >= 0x80 {
			return "path-nonascii"
		}
	}
	return ""
}

// features of a file pair; only those that a simplification step can remove, plus intrinsic ones.
func (p fpair) features() []string {
	set := map[string]bool{}
	if f := pathFeature(p.Path); f != "" {
		set[f] = true
	}
	side := func(name string, f *gen.File) {
		if f == nil {
			return
		}
		if f.Mode == "120000" {
			set[name+"-symlink"] = true
			return
		}
		if f.Mode == "100755" {
			set["exec"] = true
		}
		c := f.Content
		if len(c) == 0 {
			set[name+"-empty"] = true
			return
		}
		if isBin(c) {
			set[name+"-binary"] = true
			return
		}
		if bytes.IndexByte(c, 0) >= 0 {
			set["late-nul"] = true
		}
		if c[len(c)-1] != '\n' {
			set[name+"-nonl"] = true
		}
		if bytes.Contains(c, []byte("\r")) {
			set["cr"] = true
		}
		for _, ln := range strings.Split(string(c), "\n") {
			ln = strings.TrimSuffix(ln, "\r")
			for _, pl := range patchlike {
				if ln == pl {
					set["patchlike"] = true
				}
			}
			if len(ln) > 2000 {
				set["longline"] = true
			}
		}
	}
	side("old", p.Old)
	side("new", p.New)
	var l []string
	for k := range set {
		l = append(l, k)
	}
	sort.Strings(l)
	return l
}

// ---- text generation ----

type textSpec struct {
	N       int
	Dup     bool // small vocabulary: many duplicate lines
	Hostile bool // lines that look like patch syntax, odd bytes
	Long    bool
}

func baseLines(r *rand.Rand, s textSpec) []string {
	vocab := []string{"foo", "bar", "", "}", "\t}", "baz"}
	lines := make([]string, 0, s.N)
	for i := 0; i < s.N; i++ {
		var ln string
		switch {
		case s.Dup:
			ln = vocab[r.Intn(len(vocab))]
		default:
			ln = fmt.Sprintf("line %d %s", i, []string{"alpha", "beta", "gamma", "", "  x"}[r.Intn(5)])
		}
		if s.Hostile && r.Intn(5) == 0 {
			switch r.Intn(6) {
			case 0, 1, 2:
				ln = patchlike[r.Intn(len(patchlike))]
			case 3:
				ln = "bytes \xff\xfe\x01 é"
			case 4:
				ln = "lone\rCR"
			default:
				ln = "\t  "
			}
		}
		if s.Long && r.Intn(10) == 0 {
			ln = strings.Repeat("long", 600+r.Intn(600)) + fmt.Sprint(i)
		}
		lines = append(lines, ln)
	}
	return lines
}

var uniq int

func newLine(r *rand.Rand, s textSpec) string {
	uniq++
	if s.Dup {
		return []string{"foo", "bar", "", "}", "qux"}[r.Intn(5)]
	}
	if s.Hostile && r.Intn(3) == 0 {
		return patchlike[r.Intn(len(patchlike))]
	}
	return fmt.Sprintf("new %d-%d", uniq, r.Intn(1000))
}

// editLines applies 1..4 edits; consecutive edits are placed 0..8 lines apart so that hunk contexts touch, overlap or separate.
func editLines(r *rand.Rand, in []string, s textSpec) (out []string, ops []string) {
	out = append([]string{}, in...)
	k := 1 + r.Intn(4)
	pos := 0
	switch r.Intn(4) {
	case 0:
		pos = 0
	case 1:
		pos = len(out)
	default:
		if len(out) > 0 {
			pos = r.Intn(len(out) + 1)
		}
	}
	for e := 0; e < k; e++ {
		if pos > len(out) {
			pos = len(out)
		}
		n := 1 + r.Intn(3)
		switch op := r.Intn(6); {
		case op == 0 || len(out) == 0: // insert
			ins := make([]string, n)
			for i := range ins {
				ins[i] = newLine(r, s)
			}
			out = append(out[:pos], append(ins, out[pos:]...)...)
			pos += n
			ops = append(ops, "ins")
		case op == 1: // delete
			if pos+n > len(out) {
				n = len(out) - pos
			}
			out = append(out[:pos], out[pos+n:]...)
			ops = append(ops, "del")
		case op == 2: // replace
			if pos+n > len(out) {
				n = len(out) - pos
			}
			for i := 0; i < n; i++ {
				out[pos+i] = newLine(r, s)
			}
			pos += n
			ops = append(ops, "rep")
		case op == 3: // duplicate a block elsewhere
			if pos+n > len(out) {
				n = len(out) - pos
			}
			blk := append([]string{}, out[pos:pos+n]...)
			at := r.Intn(len(out) + 1)
			out = append(out[:at], append(blk, out[at:]...)...)
			ops = append(ops, "dup")
		case op == 4: // move a block
			if pos+n > len(out) {
				n = len(out) - pos
			}
			blk := append([]string{}, out[pos:pos+n]...)
			out = append(out[:pos], out[pos+n:]...)
			at := r.Intn(len(out) + 1)
			out = append(out[:at], append(blk, out[at:]...)...)
			ops = append(ops, "mov")
		default: // swap adjacent
			if pos+1 < len(out) {
				out[pos], out[pos+1] = out[pos+1], out[pos]
			}
			ops = append(ops, "swp")
		}
		pos += r.Intn(9) // distance to the next edit: 0..8 (context is 3)
		if r.Intn(4) == 0 && len(out) > 0 {
			pos = r.Intn(len(out) + 1)
		}
	}
	return out, ops
}

func join(lines []string, eol string, finalNL bool) []byte {
	if len(lines) == 0 {
		return []byte{}
	}
	s := strings.Join(lines, eol)
	if finalNL {
		s += eol
	}
	return []byte(s)
}

func binBytes(r *rand.Rand) []byte {
	n := 1 + r.Intn(300)
	b := make([]byte, n)
	r.Read(b)
	b[r.Intn(n)] = 0
	return b
}

var plainPaths = []string{"a", "b.txt", "dir/f", "dir/sub/g.go", "x-y", "Makefile", "d2/h", "z", "dir/a", "c.c", "d2/sub/deep/file"}
var oddPaths = []string{"a b", "dir/sp ace", "é", "dir/üñí", "q\"uote", "back\\slash", "-dash", "a  b/c", "dir with space/f g"}

// genPairs builds one case: 1..8 file pairs under distinct, non-conflicting paths.
func genPairs(r *rand.Rand, big bool) []fpair {
	n := 1 + r.Intn(7)
	used := map[string]bool{}
	var out []fpair
	pickPath := func(odd bool) string {
		for try := 0; try < 30; try++ {
			var p string
			if odd {
				p = oddPaths[r.Intn(len(oddPaths))]
			} else {
				p = plainPaths[r.Intn(len(plainPaths))]
			}
			if r.Intn(4) == 0 {
				p = fmt.Sprintf("g%d/%s", r.Intn(3), p)
			}
			ok := !used[p]
			for q := range used {
				if strings.HasPrefix(q, p+"/") || strings.HasPrefix(p, q+"/") {
					ok = false
				}
			}
			if ok {
				used[p] = true
				return p
			}
		}
		return ""
	}
	for i := 0; i < n; i++ {
		tag := ""
		odd := r.Intn(12) == 0
		p := pickPath(odd)
		if p == "" {
			continue
		}
		fp := fpair{Path: p}
		spec := textSpec{N: []int{0, 1, 2, 3, 5, 8, 12, 20, 40}[r.Intn(9)]}
		if big && r.Intn(3) == 0 {
			spec.N = 200 + r.Intn(1500)
		}
		eol := "\n"
		oldNL, newNL := true, true
		mode := "100644"
		feature := r.Intn(14)
		switch feature {
		case 0:
			spec.Dup = true
			tag = "dup"
		case 1:
			spec.Hostile = true
			tag = "hostile"
		case 2:
			eol = "\r\n"
			tag = "crlf"
		case 3:
			oldNL = false
			tag = "old-nonl"
		case 4:
			newNL = false
			tag = "new-nonl"
		case 5:
			oldNL, newNL = false, false
			tag = "both-nonl"
		case 6:
			mode = "100755"
			tag = "exec"
		case 7:
			spec.Long = true
			tag = "longline"
		}
		old := baseLines(r, spec)
		nw, ops := editLines(r, old, spec)
		oc, nc := join(old, eol, oldNL), join(nw, eol, newNL)
		if eol == "\r\n" && r.Intn(2) == 0 { // mixed endings: new side converts to LF
			nc = join(nw, "\n", newNL)
			tag = "crlf-to-lf"
		}
		fp.Old = &gen.File{Mode: mode, Content: oc}
		fp.New = &gen.File{Mode: mode, Content: nc}
		if tag == "" {
			tag = "text:" + strings.Join(ops, ",")
		}
		// structural variants
		switch v := r.Intn(24); {
		case v == 0:
			fp.Old = nil
			tag += "/add"
		case v == 1:
			fp.New = nil
			tag += "/delete"
		case v == 2:
			fp.Old = nil
			fp.New.Content = []byte{}
			tag = "add-empty"
		case v == 3:
			fp.New = nil
			fp.Old.Content = []byte{}
			tag = "delete-empty"
		case v == 4:
			fp.Old.Content = []byte{}
			tag += "/from-empty"
		case v == 5:
			fp.New.Content = []byte{}
			tag += "/to-empty"
		case v == 6:
			fp.New.Content = fp.Old.Content
			fp.New.Mode = flip(fp.Old.Mode)
			tag = "mode-only"
		case v == 7:
			fp.New.Mode = flip(fp.Old.Mode)
			tag += "/mode+content"
		case v == 8:
			fp.Old.Content = []byte{}
			fp.New.Content = []byte{}
			fp.New.Mode = flip(fp.Old.Mode)
			tag = "mode-only-empty"
		case v == 9: // binary modify / add / delete
			fp.Old.Content = binBytes(r)
			fp.New.Content = binBytes(r)
			tag = "binary-modify"
			switch r.Intn(4) {
			case 0:
				fp.Old = nil
				tag = "binary-add"
			case 1:
				fp.New = nil
				tag = "binary-delete"
			}
		case v == 10:
			if r.Intn(2) == 0 {
				fp.Old.Content = binBytes(r)
				tag = "binary-to-text"
			} else {
				fp.New.Content = binBytes(r)
				tag = "text-to-binary"
			}
		case v == 11: // symlinks
			fp.Old = &gen.File{Mode: "120000", Content: []byte("target/one")}
			fp.New = &gen.File{Mode: "120000", Content: []byte("other target")}
			tag = "symlink-modify"
			switch r.Intn(3) {
			case 0:
				fp.Old = nil
				tag = "symlink-add"
			case 1:
				fp.New = nil
				tag = "symlink-delete"
			}
		case v == 12 && r.Intn(2) == 0:
			if r.Intn(2) == 0 {
				fp.New = &gen.File{Mode: "120000", Content: []byte("a")}
				tag = "file-to-symlink"
			} else {
				fp.Old = &gen.File{Mode: "120000", Content: []byte("a")}
				tag = "symlink-to-file"
			}
		case v == 13 && big: // NUL beyond the 8000-byte sniff window: text for git and go-git
			pad := bytes.Repeat([]byte("padding line\n"), 700)
			fp.Old.Content = append(append([]byte{}, pad...), []byte("a\x00b\nlast\n")...)
			fp.New.Content = append(append([]byte{}, pad...), []byte("a\x00c\nlast\n")...)
			tag = "late-nul"
		case v == 14:
			fp.New.Content = fp.Old.Content // unchanged file: must not appear in the patch
			tag = "unchanged"
		}
		fp.Tag = tag
		out = append(out, fp)
	}
	// sometimes: one modified text file moves to another path (delete + add; a rename for Tree.Patch's rename detection)
	if r.Intn(7) == 0 {
		for i, fp := range out {
			if fp.kind() == "modify" && fp.Old.Mode != "120000" && !isBin(fp.Old.Content) && !isBin(fp.New.Content) && len(fp.Old.Content) > 40 && !used["moved/"+fp.Path] {
				used["moved/"+fp.Path] = true
				nw := fp.New
				if r.Intn(2) == 0 {
					nw = &gen.File{Mode: fp.Old.Mode, Content: fp.Old.Content} // exact rename
				}
				out[i] = fpair{Path: fp.Path, Old: fp.Old, Tag: "rename-src"}
				out = append(out, fpair{Path: "moved/" + fp.Path, New: nw, Tag: "rename-dst"})
				break
			}
		}
	}
	// rarely: a file replaced by a directory (or vice versa)
	if r.Intn(25) == 0 {
		p := "swap"
		if !used[p] {
			f := &gen.File{Mode: "100644", Content: []byte("was a file\n")}
			g := &gen.File{Mode: "100644", Content: []byte("now below a dir\n")}
			if r.Intn(2) == 0 {
				out = append(out, fpair{Path: p, Old: f, Tag: "df-swap"}, fpair{Path: p + "/inner", New: g, Tag: "df-swap"})
			} else {
				out = append(out, fpair{Path: p + "/inner", Old: g, Tag: "df-swap"}, fpair{Path: p, New: f, Tag: "df-swap"})
			}
		}
	}
	return out
}

func flip(m string) string {
	if m == "100644" {
		return "100755"
	}
	return "100644"
}

func trees(pairs []fpair) (old, nw gen.Tree) {
	old, nw = gen.Tree{}, gen.Tree{}
	for _, p := range pairs {
		if p.Old != nil {
			old[p.Path] = *p.Old
		}
		if p.New != nil {
			nw[p.Path] = *p.New
		}
	}
	return
}
