// C50: archives produced by go-git have git archive's content.
//
// Monitor: generated repositories (git fast-import) are opened by go-git;
// for each request (format x tree-ish x prefix x path filter) the archive from
// Repository.Archive and the one from `git archive` are parsed with Go's
// archive/tar, compress/gzip, archive/zip and compared entry by entry (name,
// type, permission bits, size, mtime, link target, content hash, pax global
// header / zip comment). Compression bytes and entry order are not compared.
package main

import (
	"archive/tar"
	"archive/zip"
	"bytes"
	"compress/gzip"
	"crypto/sha256"
	"encoding/hex"
	"fmt"
	"io"
	"math/rand"
	"os"
	"sort"
	"strings"
	"sync"
	"time"

	git "github.com/go-git/go-git/v6"

	"verif/internal/gen"
	"verif/internal/gitx"
	"verif/internal/vf"
)

func main() {
	vf.Main("C50", "exploration",
		"requests = format {tar, tar.gz, tgz, zip} x tree-ish {branch, full ref, HEAD, commit id, lightweight tag, annotated tag, tree id, rev:subdir} x prefix {none, dir/, nested/dir/, no-slash, with space} x path filter {none, dir, dir/, file, several, glob, nested, missing} over generated repositories (exec files, symlinks, gitlinks, empty files and trees, names >100 and paths >255 bytes, non-ASCII and space names, 70 kB blobs, skewed commit times); shape = (format, tree-ish kind, prefix kind, filter kind, tree feature set); non-trivial = archive has at least one entry; oracle = git archive parsed with the same Go readers",
		run)
}

type ent struct {
	Name    string
	Type    string // file | dir | symlink | pax-global | zip-comment | other:X
	Mode    int64
	Size    int64
	Mtime   int64
	Link    string
	Sum     string
	Comment string
}

func (e ent) String() string {
	return fmt.Sprintf("{%q %s mode=%o size=%d mtime=%d link=%q sum=%.8s comment=%q}", e.Name, e.Type, e.Mode, e.Size, e.Mtime, e.Link, e.Sum, e.Comment)
}

func sum(b []byte) string {
	h := sha256.Sum256(b)
	return hex.EncodeToString(h[:])
}

func parseTar(b []byte) ([]ent, error) {
	tr := tar.NewReader(bytes.NewReader(b))
	var out []ent
	for {
		h, err := tr.Next()
		if err == io.EOF {
			return out, nil
		}
		if err != nil {
			return out, err
		}
		e := ent{Name: h.Name, Mode: h.Mode & 0o7777, Size: h.Size, Mtime: h.ModTime.Unix(), Link: h.Linkname}
		switch h.Typeflag {
		case tar.TypeReg:
			e.Type = "file"
			c, err := io.ReadAll(tr)
			if err != nil {
				return out, err
			}
			e.Sum = sum(c)
		case tar.TypeDir:
			e.Type = "dir"
		case tar.TypeSymlink:
			e.Type = "symlink"
		case tar.TypeXGlobalHeader:
			e.Type = "pax-global"
			e.Comment = h.PAXRecords["comment"]
			e.Mode, e.Mtime, e.Size = 0, 0, 0
			e.Name = "pax_global_header"
		default:
			e.Type = "other:" + string(h.Typeflag)
		}
		out = append(out, e)
	}
}

func parseZip(b []byte) ([]ent, error) {
	zr, err := zip.NewReader(bytes.NewReader(b), int64(len(b)))
	if err != nil {
		return nil, err
	}
	var out []ent
	for _, f := range zr.File {
		e := ent{Name: f.Name, Mtime: f.Modified.Unix()}
		m := f.Mode()
		rc, err := f.Open()
		if err != nil {
			return out, err
		}
		c, err := io.ReadAll(rc)
		rc.Close()
		if err != nil {
			return out, err
		}
		switch {
		case strings.HasSuffix(f.Name, "/") || m.IsDir():
			e.Type = "dir"
		case m&os.ModeSymlink != 0:
			e.Type = "symlink"
			e.Link = string(c)
		default:
			e.Type = "file"
			e.Size = int64(len(c))
			e.Sum = sum(c)
			// zip: git stores unix permissions only for executables and symlinks; the comparable part is the exec bit
			if m&0o100 != 0 {
				e.Mode = 1
			}
		}
		out = append(out, e)
	}
	if zr.Comment != "" {
		out = append(out, ent{Name: "(zip comment)", Type: "zip-comment", Comment: zr.Comment})
	}
	return out, nil
}

func parseArchive(format string, b []byte) ([]ent, error) {
	switch format {
	case "tar":
		return parseTar(b)
	case "tar.gz", "tgz":
		gr, err := gzip.NewReader(bytes.NewReader(b))
		if err != nil {
			return nil, err
		}
		raw, err := io.ReadAll(gr)
		if err != nil {
			return nil, err
		}
		return parseTar(raw)
	case "zip":
		return parseZip(b)
	}
	return nil, fmt.Errorf("format %s", format)
}

type request struct {
	Format  string
	Treeish string
	TKind   string
	Prefix  string
	PKind   string
	Paths   []string
	FKind   string
	NowTime bool // git uses the current time (tree-ish is a tree): mtimes are not compared
}

func (rq request) args() []string {
	a := []string{"archive", "--format=" + rq.Format}
	if rq.Prefix != "" {
		a = append(a, "--prefix="+rq.Prefix)
	}
	a = append(a, rq.Treeish)
	if len(rq.Paths) > 0 {
		a = append(a, "--")
		a = append(a, rq.Paths...)
	}
	return a
}

type difference struct {
	Kind string // missing-entry | extra-entry | mode | size | mtime | link | content | comment | type | duplicate
	Type string // entry type
	Text string
}

// compare matches entries by name (multiset) and lists field differences. got = go-git, want = git.
func compare(got, want []ent, skipMtime bool) []difference {
	var d []difference
	idx := func(l []ent) map[string][]ent {
		m := map[string][]ent{}
		for _, e := range l {
			m[e.Name] = append(m[e.Name], e)
		}
		return m
	}
	g, w := idx(got), idx(want)
	var names []string
	for n := range w {
		names = append(names, n)
	}
	for n := range g {
		if _, ok := w[n]; !ok {
			names = append(names, n)
		}
	}
	sort.Strings(names)
	for _, n := range names {
		ge, we := g[n], w[n]
		switch {
		case len(ge) == 0:
			d = append(d, difference{"missing-entry", we[0].Type, fmt.Sprintf("git has %v, go-git has no entry of that name", we[0])})
			continue
		case len(we) == 0:
			d = append(d, difference{"extra-entry", ge[0].Type, fmt.Sprintf("go-git has %v, git has no entry of that name", ge[0])})
			continue
		case len(ge) != len(we):
			d = append(d, difference{"duplicate", we[0].Type, fmt.Sprintf("%q occurs %d times in go-git's archive, %d times in git's", n, len(ge), len(we))})
			continue
		}
		for i := range we {
			a, b := ge[i], we[i]
			switch {
			case a.Type != b.Type:
				d = append(d, difference{"type", b.Type, fmt.Sprintf("go-git %v, git %v", a, b)})
			case a.Mode != b.Mode:
				d = append(d, difference{"mode", b.Type, fmt.Sprintf("go-git %v, git %v", a, b)})
			case a.Size != b.Size:
				d = append(d, difference{"size", b.Type, fmt.Sprintf("go-git %v, git %v", a, b)})
			case a.Link != b.Link:
				d = append(d, difference{"link", b.Type, fmt.Sprintf("go-git %v, git %v", a, b)})
			case a.Sum != b.Sum:
				d = append(d, difference{"content", b.Type, fmt.Sprintf("go-git %v, git %v", a, b)})
			case a.Comment != b.Comment:
				d = append(d, difference{"comment", b.Type, fmt.Sprintf("go-git %v, git %v", a, b)})
			case !skipMtime && a.Mtime != b.Mtime:
				d = append(d, difference{"mtime", b.Type, fmt.Sprintf("go-git %v, git %v", a, b)})
			}
		}
	}
	return d
}

type repoCase struct {
	h        *gen.History
	features []string
	dirs     []string // directories of the tip tree
	files    []string
}

var longComp = strings.Repeat("L", 110)

func genRepo(r *rand.Rand, i int) *repoCase {
	h := gen.RandomHistory(r, gen.HistOpts{N: 3 + r.Intn(3), MergeProb: 0.2, SkewTime: i%3 == 0, Files: 3 + r.Intn(6),
		Path: gen.PathOpts{Depth: 3, Symlinks: true, Exec: true}, Branches: 2})
	rc := &repoCase{h: h}
	for ci := range h.Commits { // author time differs from committer time: archives must use the committer's
		h.Commits[ci].ATime = h.Commits[ci].Time - int64(1000*(ci+1))
	}
	tip := h.Branches["master"]
	t := h.Commits[tip].Tree
	feat := map[string]bool{}
	add := func(p string, f gen.File, name string) {
		for q := range t {
			if q == p || strings.HasPrefix(q, p+"/") || strings.HasPrefix(p, q+"/") {
				return
			}
		}
		t[p] = f
		feat[name] = true
	}
	if r.Intn(3) == 0 {
		add("long/"+longComp+".txt", gen.File{Mode: "100644", Content: []byte("long name\n")}, "name>100")
	}
	if r.Intn(4) == 0 {
		add("deep/"+longComp+"/"+longComp+"/"+strings.Repeat("M", 60)+"/f", gen.File{Mode: "100755", Content: []byte("deep\n")}, "path>255")
	}
	if r.Intn(3) == 0 {
		add("sub/module", gen.File{Mode: "160000", Content: []byte("1234567890abcdef1234567890abcdef12345678")}, "gitlink")
	}
	if r.Intn(2) == 0 {
		add("bin/run.sh", gen.File{Mode: "100755", Content: []byte("#!/bin/sh\necho hi\n")}, "exec")
		add("tool", gen.File{Mode: "100755", Content: []byte("x")}, "exec")
	}
	if r.Intn(3) == 0 {
		add("empty.txt", gen.File{Mode: "100644", Content: []byte{}}, "empty-file")
	}
	if r.Intn(4) == 0 {
		add("big.bin", gen.File{Mode: "100644", Content: bytes.Repeat([]byte("0123456789abcdef\x00\xff"), 4000)}, "big-file")
	}
	if r.Intn(3) == 0 {
		add("docs/readme.txt", gen.File{Mode: "100644", Content: []byte("readme\n")}, "txt")
		add("docs/guide/intro.txt", gen.File{Mode: "100644", Content: []byte("intro\n")}, "txt")
		add("top.txt", gen.File{Mode: "100644", Content: []byte("top\n")}, "txt")
	}
	if r.Intn(4) == 0 {
		add("link-long", gen.File{Mode: "120000", Content: []byte(strings.Repeat("t/", 80) + "x")}, "symlink-target>100")
	}
	if r.Intn(8) == 0 {
		for p := range t {
			delete(t, p)
		}
		feat = map[string]bool{"empty-tree": true}
	}
	for p, f := range t {
		switch f.Mode {
		case "100755":
			feat["exec"] = true
		case "120000":
			feat["symlink"] = true
		}
		for i := 0; i < len(p); i++ {
			if p[i] >= 0x80 {
				feat["nonascii-name"] = true
			}
			if p[i] == ' ' {
				feat["space-name"] = true
			}
		}
		rc.files = append(rc.files, p)
		parts := strings.Split(p, "/")
		for k := 1; k < len(parts); k++ {
			rc.dirs = append(rc.dirs, strings.Join(parts[:k], "/"))
		}
	}
	sort.Strings(rc.files)
	sort.Strings(rc.dirs)
	rc.dirs = uniq(rc.dirs)
	h.Tags["light"] = tip
	h.ATags["annot"] = tip
	for k := range feat {
		rc.features = append(rc.features, k)
	}
	sort.Strings(rc.features)
	return rc
}

func uniq(in []string) []string {
	var out []string
	for i, s := range in {
		if i == 0 || s != in[i-1] {
			out = append(out, s)
		}
	}
	return out
}

func genRequests(r *rand.Rand, rc *repoCase, tipID, treeID string, n int) []request {
	var out []request
	for i := 0; i < n; i++ {
		rq := request{Format: []string{"tar", "tar", "zip", "zip", "tar.gz", "tgz"}[r.Intn(6)]}
		switch r.Intn(10) {
		case 0:
			rq.Treeish, rq.TKind = "master", "branch"
		case 1:
			rq.Treeish, rq.TKind = "refs/heads/master", "full-ref"
		case 2:
			rq.Treeish, rq.TKind = "HEAD", "HEAD"
		case 3, 4:
			rq.Treeish, rq.TKind = tipID, "commit-id"
		case 5:
			rq.Treeish, rq.TKind = "light", "light-tag"
		case 6:
			rq.Treeish, rq.TKind = "annot", "annotated-tag"
		case 7:
			rq.Treeish, rq.TKind, rq.NowTime = treeID, "tree-id", true
		case 8:
			if len(rc.dirs) > 0 {
				rq.Treeish, rq.TKind, rq.NowTime = "master:"+rc.dirs[r.Intn(len(rc.dirs))], "rev:subdir", true
			} else {
				rq.Treeish, rq.TKind = "master", "branch"
			}
		default:
			rq.Treeish, rq.TKind = "dev", "other-branch"
		}
		switch r.Intn(8) {
		case 0, 1, 2:
			rq.PKind = "none"
		case 3, 4:
			rq.Prefix, rq.PKind = "proj-1.0/", "dir/"
		case 5:
			rq.Prefix, rq.PKind = "a/b c/", "nested/space/"
		case 6:
			rq.Prefix, rq.PKind = "pre-", "no-slash"
		default:
			rq.Prefix, rq.PKind = strings.Repeat("P", 120)+"/", "long/"
		}
		rq.FKind = "none"
		if rq.TKind != "rev:subdir" && rq.TKind != "other-branch" {
			switch r.Intn(12) {
			case 0, 1:
				if len(rc.dirs) > 0 {
					rq.Paths, rq.FKind = []string{rc.dirs[r.Intn(len(rc.dirs))]}, "dir"
				}
			case 2:
				if len(rc.dirs) > 0 {
					rq.Paths, rq.FKind = []string{rc.dirs[r.Intn(len(rc.dirs))] + "/"}, "dir/"
				}
			case 3, 4:
				if len(rc.files) > 0 {
					rq.Paths, rq.FKind = []string{rc.files[r.Intn(len(rc.files))]}, "file"
				}
			case 5:
				if len(rc.files) > 1 && len(rc.dirs) > 0 {
					rq.Paths, rq.FKind = []string{rc.files[r.Intn(len(rc.files))], rc.dirs[r.Intn(len(rc.dirs))]}, "several"
				}
			case 6:
				rq.Paths, rq.FKind = []string{"*.txt"}, "glob"
			case 7:
				rq.Paths, rq.FKind = []string{"no/such/path"}, "missing"
			}
		}
		out = append(out, rq)
	}
	return out
}

type checker struct {
	c  *vf.Ctx
	g  *gitx.Git
	mu sync.Mutex
	kc map[string]string
}

type outcome struct {
	data []byte
	err  string
}

func (k *checker) gogit(repo *git.Repository, rq request) (o outcome, pv any, stack string) {
	pv, stack = vf.Catch(func() {
		rc, err := repo.Archive(&git.ArchiveOptions{Format: rq.Format, Prefix: rq.Prefix, Treeish: rq.Treeish, Paths: rq.Paths})
		if err != nil {
			o.err = err.Error()
			return
		}
		b, err := io.ReadAll(rc)
		rc.Close()
		if err != nil {
			o.err = err.Error()
			return
		}
		o.data = b
	})
	return
}

func (k *checker) git(dir string, rq request) (outcome, bool) {
	res := k.g.Run(dir, rq.args()...)
	k.c.Count("git_archive_runs", 1)
	if res.Timeout {
		return outcome{}, false
	}
	if res.Code != 0 {
		return outcome{err: strings.TrimSpace(string(res.Err))}, true
	}
	return outcome{data: res.Out}, true
}

// evaluate runs one request on both sides; returns list of differences (or an error-mismatch pseudo difference).
func (k *checker) evaluate(repo *git.Repository, dir string, rq request) (diffs []difference, nEntries int, ok bool) {
	before := time.Now().Unix()
	go1, pv, stack := k.gogit(repo, rq)
	if pv != nil {
		return []difference{{"panic", "", fmt.Sprintf("Repository.Archive panicked: %v\n%s", pv, stack)}}, 0, true
	}
	gi, ok := k.git(dir, rq)
	after := time.Now().Unix()
	if !ok {
		k.c.Inconclusive("git archive timed out")
		return nil, 0, false
	}
	switch {
	case go1.err != "" && gi.err != "":
		k.c.Count("both_refuse", 1)
		return nil, 0, true
	case go1.err != "":
		return []difference{{"gogit-refuses", "", fmt.Sprintf("go-git fails (%s) where git archive succeeds", go1.err)}}, 0, true
	case gi.err != "":
		return []difference{{"gogit-accepts", "", fmt.Sprintf("git archive fails (%s) where go-git produces an archive", gi.err)}}, 0, true
	}
	ge, err := parseArchive(rq.Format, go1.data)
	if err != nil {
		return []difference{{"unreadable", "", fmt.Sprintf("go-git's %s archive cannot be read back by Go's reader: %v", rq.Format, err)}}, 0, true
	}
	we, err := parseArchive(rq.Format, gi.data)
	if err != nil {
		k.c.Broken("git's %s archive cannot be parsed: %v", rq.Format, err)
		return nil, 0, false
	}
	if rq.NowTime {
		// both sides use "now": every mtime must lie in the window of this evaluation (2 s slack for zip's DOS resolution)
		for _, e := range ge {
			if e.Type != "pax-global" && e.Type != "zip-comment" && (e.Mtime < before-2 || e.Mtime > after+2) {
				diffs = append(diffs, difference{"mtime-not-now", "", fmt.Sprintf("tree-ish without commit: git uses the current time, go-git entry %v has an mtime outside [%d,%d]", e, before, after)})
				break
			}
		}
	}
	diffs = append(diffs, compare(ge, we, rq.NowTime)...)
	return diffs, len(we), true
}

func fmtClass(f string) string {
	if f == "zip" {
		return "zip"
	}
	return "tar"
}

// keyFor minimises the request feature-wise: which of (filter, prefix, tree-ish kind) are needed for this difference kind.
func (k *checker) keyFor(repo *git.Repository, dir string, rq request, d difference, commitOf map[string]string) string {
	pre := fmt.Sprintf("%s|%s|%s|%s|%s|%s", fmtClass(rq.Format), d.Kind, d.Type, rq.TKind, rq.PKind, rq.FKind)
	k.mu.Lock()
	if v, ok := k.kc[pre]; ok {
		k.mu.Unlock()
		return v
	}
	k.mu.Unlock()
	still := func(x request) bool {
		ds, _, ok := k.evaluate(repo, dir, x)
		if !ok {
			return false
		}
		for _, y := range ds {
			if y.Kind == d.Kind && (d.Type == "" || y.Type == d.Type) {
				return true
			}
		}
		return false
	}
	cur := rq
	if cur.FKind != "none" {
		x := cur
		x.Paths, x.FKind = nil, "none"
		if still(x) {
			cur = x
		}
	}
	if cur.PKind != "none" {
		x := cur
		x.Prefix, x.PKind = "", "none"
		if still(x) {
			cur = x
		}
	}
	if id := commitOf[cur.Treeish]; cur.TKind != "commit-id" && id != "" { // same commit, named by its id
		x := cur
		x.Treeish, x.TKind, x.NowTime = id, "commit-id", false
		if still(x) {
			cur = x
		}
	}
	// is the difference specific to the container format?
	fc := fmtClass(rq.Format)
	{
		x := cur
		if fc == "zip" {
			x.Format = "tar"
		} else {
			x.Format = "zip"
		}
		if still(x) {
			fc = "any"
		}
	}
	if d.Kind == "mtime-not-now" {
		fc = "any" // by nature independent of the container (a zip of a sub-tree may simply have no entry to show it)
	}
	key := fc + ":" + d.Kind
	if d.Type != "" && cur.FKind == "none" { // with a path filter the entry type is incidental
		key += ":" + d.Type
	}
	// the tree-ish only decides which tree, time and commit id are used: it is part of the key only for differences
	// about time / commit id / acceptance; for entry-level differences it is incidental
	treeishMatters := d.Kind == "mtime-not-now" || d.Kind == "mtime" || d.Kind == "comment" || d.Type == "pax-global" || d.Type == "zip-comment" ||
		d.Kind == "gogit-refuses" || d.Kind == "gogit-accepts" || d.Kind == "panic" || d.Kind == "unreadable"
	if cur.TKind != "commit-id" && treeishMatters {
		key += ":treeish=" + cur.TKind
	}
	switch {
	case cur.PKind == "none":
	case strings.HasSuffix(cur.Prefix, "/"):
		key += ":prefix=slash"
	default:
		key += ":prefix=" + cur.PKind
	}
	if cur.FKind != "none" {
		key += ":filter=" + cur.FKind
	}
	k.mu.Lock()
	k.kc[pre] = key
	k.mu.Unlock()
	return key
}

func run(c *vf.Ctx) {
	g := gitx.New(c.Scratch)
	k := &checker{c: c, g: g, kc: map[string]string{}}
	nRepos := c.N(10, 60)
	perRepo := c.N(12, 20)
	var repMu sync.Mutex
	reported := map[string]int{}
	vf.Parallel(nRepos, 6, func(i int) {
		r := c.Rand("repo", i)
		rc := genRepo(r, i)
		dir := c.TempDir(fmt.Sprintf("repo%d", i))
		defer os.RemoveAll(dir)
		if err := g.Init(dir, true, "sha1"); err != nil {
			c.Broken("git init: %v", err)
			return
		}
		gi := gitx.New(c.TempDir("githome"))
		gi.Env = g.Env
		ids, err := gi.Import(dir, rc.h)
		if err != nil {
			c.Broken("fast-import: %v", err)
			return
		}
		tip := ids[rc.h.Branches["master"]]
		treeID, err := g.MustOut(dir, "rev-parse", tip+"^{tree}")
		if err != nil {
			c.Broken("rev-parse: %v", err)
			return
		}
		repo, err := git.PlainOpen(dir)
		if err != nil {
			c.Broken("PlainOpen: %v", err)
			return
		}
		commitOf := map[string]string{treeID: tip, "master": tip, "refs/heads/master": tip, "HEAD": tip, "light": tip, "annot": tip}
		if di, ok := rc.h.Branches["dev"]; ok {
			commitOf["dev"] = ids[di]
		}
		for _, f := range rc.features {
			c.Seen("tree_features", f)
		}
		for j, rq := range genRequests(r, rc, tip, treeID, perRepo) {
			diffs, n, ok := k.evaluate(repo, dir, rq)
			if !ok {
				continue
			}
			c.Count("requests_compared", 1)
			c.Count("entries_compared", n)
			c.Seen("formats", rq.Format)
			c.Seen("treeish_kinds", rq.TKind)
			c.Seen("prefix_kinds", rq.PKind)
			c.Seen("filter_kinds", rq.FKind)
			c.Eval(vf.ShapeHash(rq.Format, rq.TKind, rq.PKind, rq.FKind, rc.features), n > 0)
			if i == 0 && j < 2 {
				c.Sample(map[string]any{"request": rq.args(), "tree_features": rc.features, "entries": n, "differences": len(diffs)})
			}
			if len(diffs) == 0 {
				c.Count("requests_identical", 1)
				continue
			}
			seen := map[string]bool{}
			for _, d := range diffs {
				if seen[d.Kind+d.Type] {
					continue
				}
				seen[d.Kind+d.Type] = true
				key := k.keyFor(repo, dir, rq, d, commitOf)
				repMu.Lock()
				reported[key]++
				nrep := reported[key]
				repMu.Unlock()
				if nrep > 30 {
					continue
				}
				c.Fail(key, fmt.Sprintf("git %s :: %s", strings.Join(rq.args(), " "), d.Text),
					map[string]any{"request": rq.args(), "tree_features": rc.features, "files": rc.files, "difference": d.Text, "fast_import": string(rc.h.FastImport())})
			}
		}
	})
	c.Extra("git_invocations", gitx.Calls.Load())
	c.Floor("requests compared", c.Counter("requests_compared"), c.N(100, 1000))
	c.Floor("entries compared", c.Counter("entries_compared"), c.N(500, 5000))
	c.Floor("formats", c.SeenCount("formats"), 4)
	c.Floor("tree-ish kinds", c.SeenCount("treeish_kinds"), c.N(7, 9))
	c.Floor("filter kinds", c.SeenCount("filter_kinds"), c.N(5, 7))
	c.Floor("tree features", c.SeenCount("tree_features"), c.N(7, 10))
	c.Assume("git 2.39.5 `git archive` (tar.umask default 002, no export-ignore/export-subst attributes, bare repository) is the reference")
	c.Assume("compared per entry name: type, size, content SHA-256, link target, mtime, pax global header comment / zip comment; tar permission bits exactly, zip only the exec bit (git stores no unix mode for non-executable files in zip); entry order, uid/gid/uname, compression level and zip extra fields are not compared")
	c.Assume("for tree-ish without a commit (tree id, rev:path) both sides use the current time; only 'is within the evaluation window' is checked")
}
