// C06: delta encoding round-trips and all delta appliers agree with git.
//
// Monitor: a transcription of git's patch-delta.c screens every (base, delta)
// case; every applier go-git exposes is run on the case (buffer appliers
// PatchDelta / ApplyDelta, the streaming ReaderFromDelta under several chunkings,
// the pack parser in its storage / seekability modes, Packfile object lookup,
// UpdateObjectStorage on filesystem storage and the mmap pack scanner, the last
// four through hand-built packs with a ref-delta or ofs-delta entry). Every
// disagreement and a deterministic sample of agreements are confirmed with the
// real git (index-pack --stdin on the same hand-built pack + cat-file).
package main

import (
	"bytes"
	"encoding/hex"
	"fmt"
	"os"
	"path/filepath"
	"runtime/pprof"
	"strings"
	"sync"
	"time"

	"github.com/go-git/go-git/v6/plumbing"
	"github.com/go-git/go-git/v6/plumbing/format/packfile"

	"verif/internal/gitx"
	"verif/internal/vf"
)

func main() {
	vf.Main("C06", "exploration",
		"cases = (base, delta) with deltas from three sources: DiffDelta/GetDelta output for generated (src,tgt) pairs (identical, prefix/suffix, edits, shuffled blocks, >64KiB copies, empty sides, around the 16-byte block size), structured synthetic deltas (header size kinds x copy/insert/opcode-0 sequences incl. non-canonical encodings, size-0 copies, out-of-range copies) and byte-level mutations of both (every truncation point of short deltas, trailing bytes, flips, drops); shape = header kinds + op-kind sequence + mutation kind and position class + base size class; non-trivial = has at least one command or a malformed header/mutation; oracle = transcription of patch-delta.c, disagreements and a sample of agreements confirmed by git index-pack + cat-file",
		run)
}

type disagreement struct {
	applier string
	dir     string // rejects-valid | accepts-invalid | wrong-output | panic | harness
	detail  string
	key     string
}

type caseResult struct {
	v        verdict
	skipped  bool
	dis      []disagreement
	appliers []string
	rtFail   string // round-trip failure description ("" = none)
	rtKey    string
}

func smallCase(cs *dcase, v verdict) bool {
	return len(cs.delta) <= 600 && len(cs.base) <= 4096 && len(v.out) <= 4096
}

// classify compares one applier result with the model verdict: "" = agree.
func classify(v verdict, r res) string {
	switch {
	case r.harness != "":
		return "harness"
	case r.panicked:
		return "panic"
	case v.ok && !r.ok:
		return "rejects-valid"
	case !v.ok && r.ok:
		return "accepts-invalid"
	case v.ok && r.ok:
		if r.hashOnly {
			if r.hash != blobID(v.out) {
				return "wrong-output"
			}
		} else if !bytes.Equal(r.out, v.out) {
			return "wrong-output"
		}
	}
	return ""
}

func describe(v verdict, r res, dir string) string {
	switch dir {
	case "harness":
		return r.harness
	case "panic":
		return r.err + "\n" + r.stack
	case "rejects-valid":
		return "error: " + r.err
	case "accepts-invalid":
		return fmt.Sprintf("reported success with %d bytes %s although git rejects (%s)", len(r.out), vf.Q(r.out), v.reason)
	case "wrong-output":
		if r.hashOnly {
			return fmt.Sprintf("object id %x, expected %x", r.hash, blobID(v.out))
		}
		return fmt.Sprintf("got %d bytes %s, expected %d bytes %s", len(r.out), vf.Q(r.out), len(v.out), vf.Q(v.out))
	}
	return ""
}

// selectAppliers picks which appliers run on case i: everything cheap on small
// cases, a rotating subset of the pack-embedded ones otherwise.
func selectAppliers(i int, small, full bool, outLen, baseLen int) []applier {
	if full && baseLen <= 1<<20 {
		return registry
	}
	var sel []applier
	sel = append(sel, byGroup("buffer")...)
	readers := byGroup("reader")
	if baseLen > 1<<20 { // very large base: one representative per implementation
		return append(sel, readers[2], byGroup("parser")[6+i%6], byGroup("packfile")[i%8], byGroup("mmap")[i%2])
	}
	if small {
		sel = append(sel, readers...)
	} else {
		sel = append(sel, readers[2]) // bytes, 64 KiB
		x := readers[i%len(readers)]
		if strings.HasSuffix(x.name, "buf=1]") && outLen > 20000 {
			x = readers[(i%4)*3+1]
		}
		sel = append(sel, x)
	}
	parsers := byGroup("parser") // 12
	np := 2
	if small {
		np = 5
	}
	for k := 0; k < np; k++ {
		sel = append(sel, parsers[(i*5+k*7)%len(parsers)])
	}
	pfs := byGroup("packfile") // 8
	sel = append(sel, pfs[i%8])
	if small {
		sel = append(sel, pfs[(i+3)%8], pfs[(i+6)%8])
	}
	sel = append(sel, byGroup("update")[i%2])
	if i%24 == 0 {
		sel = append(sel, byGroup("mmap")[(i/24)%2])
	}
	return sel
}

func evalCase(mmDir string, i int, cs *dcase) caseResult {
	var cr caseResult
	v := gitPatchDelta(cs.base, cs.delta)
	cr.v = v
	if v.undefined {
		cr.skipped = true
		return cr
	}
	p := &pcase{base: cs.base, delta: cs.delta, level: cs.level, v: v, mmDir: mmDir}
	var results []res
	for _, a := range selectAppliers(i, smallCase(cs, v), cs.full, len(v.out), len(cs.base)) {
		r := a.run(p)
		results = append(results, r)
		cr.appliers = append(cr.appliers, a.name)
		dir := classify(v, r)
		if dir == "" {
			continue
		}
		d := disagreement{applier: a.name, dir: dir, detail: describe(v, r, dir)}
		feat := v.reason
		if v.ok {
			feat = causalFeatures(p, a, dir)
		} else if dir == "panic" && len(v.feat) > 0 {
			feat += "+" + strings.Join(uniqFeat(v.feat), "+")
		}
		d.key = family(a.name) + ":" + dir + ":" + feat
		cr.dis = append(cr.dis, d)
	}
	// round-trip clause: go-git's own delta applied to the source gives the target.
	if cs.hasTgt {
		if v.ok && !bytes.Equal(v.out, cs.target) {
			cr.rtFail = fmt.Sprintf("delta computed by go-git applied (per git's patch-delta) to the source gives %d bytes %s, target was %d bytes %s", len(v.out), vf.Q(v.out), len(cs.target), vf.Q(cs.target))
		}
		for _, r := range results[:2] { // the buffer appliers on go-git's own delta
			if r.ok && !bytes.Equal(r.out, cs.target) {
				cr.rtFail = fmt.Sprintf("%s(src, DiffDelta(src,tgt)) gives %d bytes %s, target was %d bytes %s", r.name, len(r.out), vf.Q(r.out), len(cs.target), vf.Q(cs.target))
			}
			if !r.ok && len(cs.base) > 0 && !r.panicked {
				cr.rtFail = fmt.Sprintf("%s rejects the delta go-git itself computed for a non-empty source: %s", r.name, r.err)
			}
		}
	}
	return cr
}

func featKey(v verdict) string {
	if !v.ok {
		return v.reason
	}
	f := uniqFeat(v.feat)
	if len(f) == 0 {
		return "plain"
	}
	return strings.Join(f, "+")
}

func run(c *vf.Ctx) {
	if pf := os.Getenv("C06_PROF"); pf != "" {
		f, _ := os.Create(pf)
		pprof.StartCPUProfile(f)
		defer pprof.StopCPUProfile()
	}
	g := gitx.New(c.Scratch)
	if one := os.Getenv("C06_ONE"); one != "" { // triage helper: C06_ONE=<basehex>:<deltahex>
		debugOne(c, g, one)
		return
	}
	var cases []dcase

	// 1. round-trip pairs
	nPairs := c.N(500, 6000)
	rp := c.Rand("pairs")
	var diffCases []int
	for i := 0; i < nPairs; i++ {
		src, tgt, kind := pickPair(rp)
		var d []byte
		viaObj := i%5 == 4
		if p, st := vf.Catch(func() {
			if viaObj {
				o, err := packfile.GetDelta(memObj(src), memObj(tgt))
				if err != nil {
					panic("GetDelta error: " + err.Error())
				}
				d, _ = readObj(o)
			} else {
				d = packfile.DiffDelta(src, tgt)
			}
		}); p != nil {
			c.Fail("diffdelta-panic:"+kind, fmt.Sprintf("DiffDelta panicked on src=%d bytes tgt=%d bytes (%s): %v\n%s", len(src), len(tgt), kind, p, st),
				map[string]any{"src": vf.Hex(src), "tgt": vf.Hex(tgt)})
			continue
		}
		api := "DiffDelta"
		if viaObj {
			api = "GetDelta"
		}
		c.Seen("entry_points", api)
		diffCases = append(diffCases, len(cases))
		cases = append(cases, dcase{base: src, delta: d, origin: "diff", target: tgt, hasTgt: true, level: []int{-1, 0, 9}[i%3],
			shape: "diff/" + kind + "/" + opSummary(d) + "/src=" + sizeClass(len(src)) + "/tgt=" + sizeClass(len(tgt))})
	}
	// 2. mutations of go-git's own deltas
	rm := c.Rand("diffmut")
	nDiffMut := c.N(900, 12000)
	for i := 0; i < nDiffMut && len(diffCases) > 0; i++ {
		b := cases[diffCases[rm.Intn(len(diffCases))]]
		if len(b.delta) > 3000 {
			continue
		}
		segs := parseSegs(b.delta)
		m, label := mutate(rm, b.delta, segs)
		cases = append(cases, dcase{base: b.base, delta: m, origin: "diff-mut", level: -1,
			shape: "diffmut/" + label + "/" + opSummary(b.delta) + "/src=" + sizeClass(len(b.base))})
	}
	// 3. synthetic structured deltas, plain and mutated
	rs := c.Rand("synth")
	nSynth := c.N(2300, 35000)
	var truncSeeds []int
	for i := 0; i < nSynth; i++ {
		base := pickBase(rs)
		d, shape, segs := synth(rs, base)
		mut := "none"
		if rs.Intn(3) == 0 {
			d, mut = mutate(rs, d, segs)
		} else if len(d) <= 48 && len(truncSeeds) < c.N(40, 400) {
			truncSeeds = append(truncSeeds, len(cases))
		}
		cases = append(cases, dcase{base: base, delta: d, origin: "synth", level: []int{-1, 0}[i%2], shape: shape + "/mut=" + mut})
	}
	// 4. every truncation point of short deltas
	for _, si := range truncSeeds {
		b := cases[si]
		segs := parseSegs(b.delta)
		for p := 0; p < len(b.delta); p++ {
			cases = append(cases, dcase{base: b.base, delta: append([]byte{}, b.delta[:p]...), origin: "trunc", level: -1,
				shape: b.shape + "/trunc:" + posClass(segs, p)})
		}
	}
	// 5. random bytes behind a correct source size
	rr := c.Rand("random")
	for i := 0; i < c.N(450, 5000); i++ {
		base := pickBase(rr)
		body := make([]byte, rr.Intn(24))
		rr.Read(body)
		d := append(leb(uint64(len(base))), body...)
		cases = append(cases, dcase{base: base, delta: d, origin: "random", level: -1, shape: fmt.Sprintf("random/len=%s/base=%s", sizeClass(len(body)), sizeClass(len(base)))})
	}
	// 6. a fixed large-offset case: copy from beyond 16 MiB (4-byte offsets)
	{
		big := compressible(c.Rand("big"), 17<<20)
		var d bytes.Buffer
		d.Write(leb(uint64(len(big))))
		d.Write(leb(300 + 5))
		d.Write(encodeCopy(nil, 1<<24+12345, 300, "min"))
		d.Write([]byte{5, 'h', 'e', 'l', 'l', 'o'})
		cases = append(cases, dcase{base: big, delta: d.Bytes(), origin: "synth", level: 1, shape: "bigbase/copy-offset>16MiB,insert"})
		d2 := append([]byte{}, d.Bytes()...)
		cases = append(cases, dcase{base: big, delta: d2[:len(d2)-1], origin: "synth", level: 1, shape: "bigbase/copy-offset>16MiB,insert/trunc-last"})
	}

	// the first cases of every model class (git's reject reason / accepted feature set, per origin) get every
	// applier variant, so that the set of finding keys a seed can hit does not depend on the rotation
	perModelClass := map[string]int{}
	for i := range cases {
		v := gitPatchDelta(cases[i].base, cases[i].delta)
		if v.undefined || !smallCase(&cases[i], v) {
			continue
		}
		cl := featKey(v)
		if perModelClass[cl] < c.N(6, 20) {
			cases[i].full = true
			c.Count("cases_run_on_every_applier_variant", 1)
		}
		perModelClass[cl]++
	}

	mmDir := c.TempDir("mmap")
	results := make([]caseResult, len(cases))
	timing := map[string]time.Duration{}
	var tmu sync.Mutex
	vf.Parallel(len(cases), 8, func(i int) {
		t0 := time.Now()
		results[i] = evalCase(mmDir, i, &cases[i])
		if os.Getenv("C06_TIMING") != "" { // diagnostics only, never part of a verdict
			tmu.Lock()
			k := fmt.Sprintf("base=%s full=%v", sizeClass(len(cases[i].base)), cases[i].full)
			timing[k] += time.Since(t0)
			timing[k+" n"]++
			tmu.Unlock()
		}
	})
	if os.Getenv("C06_TIMING") != "" {
		for k, v := range timing {
			fmt.Println("TIMING", k, v)
		}
	}

	// accounting and selection of cases for git confirmation
	type conf struct {
		idx    int
		sample bool
	}
	var confirm []conf
	perClass := map[string]int{}
	perKey := map[string]int{}
	const maxConfirmPerKey = 6
	sampleEvery := 40
	for i := range cases {
		cs, cr := &cases[i], &results[i]
		if cr.skipped {
			c.Count("skipped_git_behaviour_undefined", 1)
			continue
		}
		nontrivial := len(cs.delta) > 2
		c.Eval(cs.shape, nontrivial)
		for _, a := range cr.appliers {
			c.Seen("appliers", a)
			c.Seen("applier_families", family(a))
			c.Count("applier_runs", 1)
		}
		c.Seen("origins", cs.origin)
		if cr.v.ok {
			c.Count("model_accepts", 1)
			c.Seen("accepted_features", featKey(cr.v))
		} else {
			c.Count("model_rejects", 1)
			c.Seen("reject_reasons", cr.v.reason)
		}
		cls := featKey(cr.v) + "|" + cs.origin
		perClass[cls]++
		switch {
		case len(cr.dis) > 0 || cr.rtFail != "":
			// every finding key is confirmed by git on its first maxConfirmPerKey witnesses; only
			// git-confirmed witnesses are reported, the others are counted.
			need := false
			if cr.rtFail != "" {
				cr.rtKey = "roundtrip:" + strings.SplitN(cs.shape, "/", 3)[1]
				if perKey[cr.rtKey] < maxConfirmPerKey {
					need = true
				}
				perKey[cr.rtKey]++
			}
			for _, d := range cr.dis {
				if perKey[d.key] < maxConfirmPerKey {
					need = true
				}
				perKey[d.key]++
			}
			if need {
				confirm = append(confirm, conf{i, false})
			} else {
				c.Count("disagreements_of_already_confirmed_keys_not_resubmitted_to_git", 1)
			}
		case i%sampleEvery == 0 || perClass[cls] <= 2:
			confirm = append(confirm, conf{i, true})
		}
		if i%1500 == 7 {
			c.Sample(map[string]any{"origin": cs.origin, "shape": cs.shape, "base_len": len(cs.base), "delta": vf.Hex(cs.delta),
				"git_model": map[string]any{"ok": cr.v.ok, "reason": cr.v.reason, "out_len": len(cr.v.out)}, "appliers_run": len(cr.appliers), "disagreements": len(cr.dis)})
		}
	}

	// git confirmation
	repos := make(chan string, 8)
	for k := 0; k < 8; k++ {
		d := filepath.Join(c.Scratch, fmt.Sprintf("repo%d", k))
		c.Must(g.Init(d, true, "sha1"), "git init")
		repos <- d
	}
	var mu sync.Mutex
	gitOK := make(map[int]bool)
	vf.Parallel(len(confirm), 8, func(k int) {
		cf := confirm[k]
		cs, cr := &cases[cf.idx], &results[cf.idx]
		repo := <-repos
		defer func() { repos <- repo }()
		ok, out, raw, inconcl := gitApply(g, repo, cs.base, cs.delta, cr.v)
		if inconcl != "" {
			c.Inconclusive("git confirmation could not run: %s", inconcl)
			return
		}
		c.Count("git_confirmations", 1)
		if cf.sample {
			c.Count("git_confirmed_agreements", 1)
		}
		if ok != cr.v.ok || (ok && !bytes.Equal(out, cr.v.out)) {
			c.Broken("MODEL-MISMATCH: base=%s delta=%s: model ok=%v reason=%q out=%s; git ok=%v out=%s (%s)",
				vf.Hex(cs.base), vf.Hex(cs.delta), cr.v.ok, cr.v.reason, vf.Q(cr.v.out), ok, vf.Q(out), raw)
			return
		}
		mu.Lock()
		gitOK[cf.idx] = true
		mu.Unlock()
	})
	c.Extra("git_invocations", gitx.Calls.Load())

	// report confirmed disagreements
	witnessed := map[string]bool{}
	for _, cf := range confirm {
		if cf.sample || !gitOK[cf.idx] {
			continue
		}
		cs, cr := &cases[cf.idx], &results[cf.idx]
		replay := map[string]any{"base_hex": fmt.Sprintf("%x", capBytes(cs.base)), "base_len": len(cs.base), "delta_hex": fmt.Sprintf("%x", capBytes(cs.delta)),
			"origin": cs.origin, "shape": cs.shape, "git": map[string]any{"ok": cr.v.ok, "reason": cr.v.reason, "out_len": len(cr.v.out)}}
		if cr.rtFail != "" {
			c.Fail(cr.rtKey, cr.rtFail+fmt.Sprintf(" [src %d bytes, delta %s]", len(cs.base), vf.Hex(cs.delta)), replay)
		}
		seen := map[string]bool{}
		for _, d := range cr.dis {
			if d.dir == "harness" {
				c.Broken("harness failure in %s: %s", d.applier, d.detail)
				continue
			}
			if seen[d.key] {
				continue
			}
			seen[d.key] = true
			c.Count("disagreements_confirmed_by_git", 1)
			if !witnessed[d.key] {
				witnessed[d.key] = true
				fmt.Printf("WITNESS key=%s applier=%s base=%s delta=%s :: %s\n", d.key, d.applier, vf.Hex(cs.base), vf.Hex(cs.delta), strings.SplitN(d.detail, "\n", 2)[0])
			}
			c.Fail(d.key, fmt.Sprintf("%s on base of %d bytes, delta %s (%s): %s; git (index-pack, confirmed): ok=%v %s", d.applier, len(cs.base), vf.Hex(cs.delta), cs.shape, d.detail, cr.v.ok, cr.v.reason), replay)
		}
	}

	c.Floor("cases evaluated", c.Counter("model_accepts")+c.Counter("model_rejects"), c.N(4000, 50000))
	c.Floor("cases git accepts", c.Counter("model_accepts"), c.N(1100, 12000))
	c.Floor("cases git rejects", c.Counter("model_rejects"), c.N(1800, 20000))
	c.Floor("applier runs", c.Counter("applier_runs"), c.N(60000, 600000))
	c.Floor("distinct appliers/variants driven", c.SeenCount("appliers"), 38)
	c.Floor("distinct model reject reasons exercised", c.SeenCount("reject_reasons"), 10)
	c.Floor("git confirmations", c.Counter("git_confirmations"), c.N(200, 1000))
	c.Assume("git 2.39.5 index-pack/patch-delta.c is the reference; the delta format has not changed since")
	c.Assume("deltas whose size headers need a shift >= 64 in get_delta_hdr_size (C undefined behaviour) or whose declared target exceeds 256 MiB are outside the domain")
	c.Assume("base and target objects are blobs; pack entries are zlib streams whose inflated size equals the entry header (pack-level malformations belong to C07/C09)")
	_ = plumbing.ZeroHash
}

func capBytes(b []byte) []byte {
	if len(b) > 4096 {
		return b[:4096]
	}
	return b
}

// gitApply lets real git apply the delta: index-pack --stdin on a hand-built
// two-entry pack, then cat-file of the resolved object.
func gitApply(g *gitx.Git, repo string, base, delta []byte, v verdict) (ok bool, out []byte, raw string, inconclusive string) {
	bp := twoObjectPack(base, delta, true, -1) // ofs-delta: a ref-delta resolving to its own base id makes index-pack die ("already resolved")
	defer func() {
		m, _ := filepath.Glob(filepath.Join(repo, "objects", "pack", "*"))
		for _, f := range m {
			os.Remove(f)
		}
	}()
	r := g.RunIn(repo, bp.bytes, "index-pack", "--stdin")
	if r.Timeout || r.Code == -1 {
		return false, nil, "", "index-pack: " + r.String()
	}
	raw = strings.TrimSpace(string(r.Err))
	if r.Code != 0 {
		if !strings.Contains(raw, "failed to apply delta") && !strings.Contains(raw, "delta") && !strings.Contains(raw, "overflow") && !strings.Contains(raw, "Out of memory") {
			return false, nil, raw, "index-pack failed for a reason unrelated to the delta: " + raw
		}
		return false, nil, raw, ""
	}
	var id string
	if v.ok {
		id = fmt.Sprintf("%x", blobID(v.out))
	} else {
		bid := fmt.Sprintf("%x", blobID(base))
		l := g.Run(repo, "cat-file", "--batch-all-objects", "--batch-check")
		for _, ln := range strings.Split(string(l.Out), "\n") {
			f := strings.Fields(ln)
			if len(f) == 3 && f[0] != bid {
				id = f[0]
			}
		}
		if id == "" {
			id = bid
		}
	}
	if v.ok && len(v.out) == 0 {
		// git cannot read back a deltified object of size 0 (packed_object_info treats a delta result size of 0 as
		// an error) although index-pack/patch_delta resolved it; take the id index-pack computed from show-index.
		m, _ := filepath.Glob(filepath.Join(repo, "objects", "pack", "*.idx"))
		if len(m) != 1 {
			return false, nil, "", "no idx after index-pack"
		}
		ib, _ := os.ReadFile(m[0])
		si := g.RunIn(repo, ib, "show-index")
		if si.Code != 0 {
			return false, nil, "", "show-index: " + si.String()
		}
		if strings.Contains(string(si.Out), " "+id+" ") {
			return true, []byte{}, "index-pack ok (empty result, id seen in show-index)", ""
		}
		return true, []byte("\x00<empty blob id not in idx>"), "index-pack ok, show-index: " + string(si.Out), ""
	}
	cf := g.Run(repo, "cat-file", "blob", id)
	if cf.Timeout || cf.Code == -1 {
		return false, nil, "", "cat-file: " + cf.String()
	}
	if cf.Code != 0 {
		return true, []byte("\x00<cat-file failed>"), "index-pack ok but cat-file " + id + " failed: " + string(cf.Err), ""
	}
	if cf.Out == nil {
		cf.Out = []byte{}
	}
	return true, cf.Out, "index-pack ok", ""
}

func debugOne(c *vf.Ctx, g *gitx.Git, one string) {
	parts := strings.SplitN(one, ":", 2)
	base, _ := hex.DecodeString(parts[0])
	delta, _ := hex.DecodeString(parts[1])
	cs := dcase{base: base, delta: delta, level: -1, shape: "debug"}
	cr := evalCase(c.TempDir("mm"), 0, &cs)
	fmt.Printf("model: ok=%v reason=%q feat=%v undefined=%v out=%s\n", cr.v.ok, cr.v.reason, cr.v.feat, cr.v.undefined, vf.Q(cr.v.out))
	repo := filepath.Join(c.Scratch, "dbgrepo")
	g.Init(repo, true, "sha1")
	ok, out, raw, inc := gitApply(g, repo, base, delta, cr.v)
	fmt.Printf("git: ok=%v out=%s raw=%q inconclusive=%q\n", ok, vf.Q(out), raw, inc)
	for _, d := range cr.dis {
		fmt.Printf("DISAGREE key=%s %s %s\n", d.key, d.applier, strings.SplitN(d.detail, "\n", 2)[0])
	}
	fmt.Printf("appliers run: %d\n", len(cr.appliers))
}
