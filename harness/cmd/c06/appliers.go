package main

import (
	"bytes"
	"crypto/sha1"
	"fmt"
	"hash/crc32"
	"io"
	"os"
	"path/filepath"
	"testing/iotest"

	"github.com/go-git/go-billy/v6/memfs"
	"github.com/go-git/go-billy/v6/osfs"
	"github.com/go-git/go-git/v6/plumbing"
	"github.com/go-git/go-git/v6/plumbing/cache"
	"github.com/go-git/go-git/v6/plumbing/format/idxfile"
	"github.com/go-git/go-git/v6/plumbing/format/packfile"
	"github.com/go-git/go-git/v6/plumbing/format/revfile"
	"github.com/go-git/go-git/v6/plumbing/storer"
	"github.com/go-git/go-git/v6/storage/filesystem"
	"github.com/go-git/go-git/v6/storage/filesystem/mmap"
	"github.com/go-git/go-git/v6/storage/memory"

	"verif/internal/vf"
)

// res is what one applier did with one (base, delta).
type res struct {
	name     string
	ok       bool   // applier reported success (clean EOF for streams)
	out      []byte // bytes produced (also the partial bytes of a failed stream)
	hashOnly bool   // only the object id is observable (parser without storage)
	hash     [20]byte
	err      string
	panicked bool
	stack    string
	harness  string // failure of the harness itself (not of go-git)
}

type harnessErr string

func memObj(content []byte) *plumbing.MemoryObject {
	o := &plumbing.MemoryObject{}
	o.SetType(plumbing.BlobObject)
	o.Write(content)
	return o
}

func catchRes(name string, f func(r *res)) res {
	r := res{name: name}
	if p, st := vf.Catch(func() { f(&r) }); p != nil {
		if he, ok := p.(harnessErr); ok {
			r.ok, r.harness = false, string(he)
			return r
		}
		r.panicked, r.ok = true, false
		r.err = fmt.Sprint(p)
		r.stack = st
	}
	return r
}

func errStr(err error) string {
	if err == nil {
		return ""
	}
	return err.Error()
}

func applyPatchDelta(base, delta []byte) res {
	return catchRes("PatchDelta", func(r *res) {
		out, err := packfile.PatchDelta(base, delta)
		r.ok, r.out, r.err = err == nil, out, errStr(err)
	})
}

func applyApplyDelta(base, delta []byte) res {
	return catchRes("ApplyDelta", func(r *res) {
		target := &plumbing.MemoryObject{}
		target.SetType(plumbing.BlobObject)
		err := packfile.ApplyDelta(target, memObj(base), bytes.NewBuffer(append([]byte{}, delta...)))
		r.ok, r.err = err == nil, errStr(err)
		rd, _ := target.Reader()
		r.out, _ = io.ReadAll(rd)
		if err == nil && target.Size() != int64(len(r.out)) {
			r.ok = false
			r.err = fmt.Sprintf("target.Size()=%d but %d bytes written", target.Size(), len(r.out))
		}
	})
}

// applyReader drives the streaming applier. deltaKind selects how the delta
// bytes are served, bufSize the size of the Read calls on the result.
func applyReaderName(deltaKind string, bufSize int) string {
	return fmt.Sprintf("ReaderFromDelta[%s,buf=%d]", deltaKind, bufSize)
}

func packfileName(kind string, withFs, byOffset bool) string {
	return fmt.Sprintf("Packfile[%s,fs=%v,byOffset=%v]", kind, withFs, byOffset)
}

func applyReader(base, delta []byte, deltaKind string, bufSize int) res {
	name := applyReaderName(deltaKind, bufSize)
	return catchRes(name, func(r *res) {
		var dr io.Reader = bytes.NewReader(delta)
		switch deltaKind {
		case "onebyte":
			dr = iotest.OneByteReader(dr)
		case "dataerr":
			dr = iotest.DataErrReader(dr)
		case "half":
			dr = iotest.HalfReader(dr)
		}
		rc, err := packfile.ReaderFromDelta(memObj(base), dr)
		if err != nil {
			r.err = err.Error()
			return
		}
		defer rc.Close()
		buf := make([]byte, bufSize)
		var out []byte
		for {
			n, err := rc.Read(buf)
			out = append(out, buf[:n]...)
			if err == io.EOF {
				r.ok = true
				break
			}
			if err != nil {
				r.err = err.Error()
				break
			}
		}
		r.out = out
	})
}

// twoObjectPack builds base blob + one delta entry.
func twoObjectPack(base, delta []byte, ofs bool, level int) builtPack {
	id := blobID(base)
	e := packEntry{typ: objRefDelta, data: delta, refBase: id[:]}
	if ofs {
		e = packEntry{typ: objOfsDelta, data: delta, ofsBase: 0}
	}
	bp := buildPack([]packEntry{{typ: objBlob, data: base}, e}, level)
	for i, off := range bp.offsets {
		end := int64(len(bp.bytes) - 20)
		if i+1 < len(bp.offsets) {
			end = bp.offsets[i+1]
		}
		bp.crcs = append(bp.crcs, crc32.ChecksumIEEE(bp.bytes[off:end]))
	}
	return bp
}

type obsRec struct {
	byPos map[int64]plumbing.Hash
}

func (o *obsRec) OnHeader(uint32) error                                          { return nil }
func (o *obsRec) OnInflatedObjectHeader(plumbing.ObjectType, int64, int64) error { return nil }
func (o *obsRec) OnInflatedObjectContent(h plumbing.Hash, pos int64, _ uint32, _ []byte) error {
	o.byPos[pos] = h
	return nil
}
func (o *obsRec) OnFooter(plumbing.Hash) error { return nil }

type onlyReader struct{ r io.Reader }

func (o onlyReader) Read(p []byte) (int, error) { return o.r.Read(p) }

func readObj(o plumbing.EncodedObject) ([]byte, error) {
	rd, err := o.Reader()
	if err != nil {
		return nil, err
	}
	defer rd.Close()
	return io.ReadAll(rd)
}

// applyParser parses a hand-built pack. mode: seek | noseek | seek+mem | noseek+mem | seek+fs | noseek+fs.
func applyParser(bp builtPack, kind, mode string) res {
	name := fmt.Sprintf("Parser[%s,%s]", kind, mode)
	return catchRes(name, func(r *res) {
		var src io.Reader = bytes.NewReader(bp.bytes)
		seek := mode[:4] == "seek"
		if !seek {
			src = onlyReader{bytes.NewReader(bp.bytes)}
		}
		obs := &obsRec{byPos: map[int64]plumbing.Hash{}}
		opts := []packfile.ParserOption{packfile.WithScannerObservers(obs)}
		var st storer.EncodedObjectStorer
		switch {
		case len(mode) > 4 && mode[len(mode)-3:] == "mem":
			st = memory.NewStorage()
		case len(mode) > 3 && mode[len(mode)-2:] == "fs":
			fst := filesystem.NewStorage(memfs.New(), cache.NewObjectLRUDefault())
			defer fst.Close()
			st = fst
		}
		if st != nil {
			opts = append(opts, packfile.WithStorage(st))
		}
		_, err := packfile.NewParser(src, opts...).Parse()
		if err != nil {
			r.err = err.Error()
			return
		}
		h, ok := obs.byPos[bp.offsets[1]]
		if !ok {
			r.err = "parse succeeded but the delta entry was never reported to the observer"
			return
		}
		copy(r.hash[:], h.Bytes())
		if st == nil {
			r.ok, r.hashOnly = true, true
			return
		}
		o, err := st.EncodedObject(plumbing.AnyObject, h)
		if err != nil {
			r.err = "parse succeeded, observer saw " + h.String() + " but storage lookup failed: " + err.Error()
			return
		}
		out, err := readObj(o)
		if err != nil {
			r.err = "parse succeeded but stored object unreadable: " + err.Error()
			return
		}
		r.ok, r.out = true, out
	})
}

func dummyID(base, delta []byte) plumbing.Hash {
	h := sha1.New()
	h.Write([]byte("delta-entry"))
	h.Write(delta)
	h.Write(base)
	id, _ := plumbing.FromBytes(h.Sum(nil))
	return id
}

func buildIdx(bp builtPack, base, delta []byte) (*idxfile.MemoryIndex, plumbing.Hash, error) {
	w := new(idxfile.Writer)
	w.OnHeader(2)
	bid := blobID(base)
	bh, _ := plumbing.FromBytes(bid[:])
	did := dummyID(base, delta)
	w.OnInflatedObjectContent(bh, bp.offsets[0], bp.crcs[0], nil)
	w.OnInflatedObjectContent(did, bp.offsets[1], bp.crcs[1], nil)
	ph, _ := plumbing.FromBytes(bp.sum[:])
	if err := w.OnFooter(ph); err != nil {
		return nil, did, err
	}
	idx, err := w.Index()
	return idx, did, err
}

// applyPackfile reads the delta entry through packfile.Packfile (buffer applier via ApplyDelta).
func applyPackfile(bp builtPack, base, delta []byte, kind string, withFs, byOffset bool) res {
	name := packfileName(kind, withFs, byOffset)
	return catchRes(name, func(r *res) {
		idx, did, err := buildIdx(bp, base, delta)
		if err != nil {
			panic(harnessErr("idx build: " + err.Error()))
		}
		fs := memfs.New()
		f, _ := fs.Create("p.pack")
		f.Write(bp.bytes)
		f.Seek(0, io.SeekStart)
		opts := []packfile.PackfileOption{packfile.WithIdx(idx)}
		if withFs {
			opts = append(opts, packfile.WithFs(fs))
		}
		p := packfile.NewPackfile(f, opts...)
		defer p.Close()
		var o plumbing.EncodedObject
		if byOffset {
			o, err = p.GetByOffset(bp.offsets[1])
		} else {
			o, err = p.Get(did)
		}
		if err != nil {
			r.err = err.Error()
			return
		}
		out, err := readObj(o)
		if err != nil {
			r.err = err.Error()
			return
		}
		if o.Size() != int64(len(out)) {
			r.err = fmt.Sprintf("object Size()=%d but %d bytes read", o.Size(), len(out))
			r.out = out
			return
		}
		r.ok, r.out = true, out
	})
}

// applyMmap reads the delta entry through the memory-mapped pack scanner (real files).
func applyMmap(dir string, bp builtPack, base, delta []byte, kind string) res {
	name := fmt.Sprintf("mmap.PackScanner[%s]", kind)
	return catchRes(name, func(r *res) {
		idx, did, err := buildIdx(bp, base, delta)
		if err != nil {
			panic(harnessErr("idx build: " + err.Error()))
		}
		var ib, rb bytes.Buffer
		if err := idxfile.Encode(&ib, sha1.New(), idx); err != nil {
			panic(harnessErr("idx encode: " + err.Error()))
		}
		if err := revfile.Encode(&rb, sha1.New(), idx); err != nil {
			panic(harnessErr("rev encode: " + err.Error()))
		}
		d, err := os.MkdirTemp(dir, "mm")
		if err != nil {
			panic(harnessErr(err.Error()))
		}
		defer os.RemoveAll(d)
		os.WriteFile(filepath.Join(d, "p.pack"), bp.bytes, 0o644)
		os.WriteFile(filepath.Join(d, "p.idx"), ib.Bytes(), 0o644)
		os.WriteFile(filepath.Join(d, "p.rev"), rb.Bytes(), 0o644)
		fs := osfs.New(d)
		pf, e1 := fs.Open("p.pack")
		xf, e2 := fs.Open("p.idx")
		rf, e3 := fs.Open("p.rev")
		if e1 != nil || e2 != nil || e3 != nil {
			panic(harnessErr(fmt.Sprint("open: ", e1, e2, e3)))
		}
		s, err := mmap.NewPackScanner(20, pf, xf, rf)
		if err != nil {
			panic(harnessErr("NewPackScanner on well-formed files: " + err.Error()))
		}
		defer s.Close()
		o, err := s.Get(did)
		if err != nil {
			r.err = err.Error()
			return
		}
		out, err := readObj(o)
		if err != nil {
			r.err = err.Error()
			return
		}
		r.ok, r.out = true, out
	})
}

// applyUpdateStorage feeds the pack to packfile.UpdateObjectStorage on a
// filesystem storage (the production receive path: PackfileWriter + background
// index build) and then reads the resolved object back. want is the id the
// model expects for the delta entry (nil when the model rejects the delta).
func applyUpdateStorage(bp builtPack, base []byte, kind string, want *[20]byte) res {
	name := fmt.Sprintf("UpdateObjectStorage[%s,filesystem]", kind)
	return catchRes(name, func(r *res) {
		st := filesystem.NewStorage(memfs.New(), cache.NewObjectLRUDefault())
		defer st.Close()
		if err := st.Init(); err != nil {
			panic(harnessErr("storage init: " + err.Error()))
		}
		err := packfile.UpdateObjectStorage(st, bytes.NewReader(bp.bytes))
		if err != nil {
			r.err = err.Error()
			return
		}
		bid := blobID(base)
		if want != nil {
			o, err := st.EncodedObject(plumbing.AnyObject, mustHash(want[:]))
			if err != nil {
				r.err = "pack stored without error but expected object " + mustHash(want[:]).String() + " not found: " + err.Error()
				return
			}
			out, err := readObj(o)
			if err != nil {
				r.err = "pack stored without error but object unreadable: " + err.Error()
				return
			}
			r.ok, r.out, r.hash = true, out, *want
			return
		}
		// The model rejects the delta but the pack was stored: report what is readable.
		r.ok = true
		it, err := st.IterEncodedObjects(plumbing.AnyObject)
		if err != nil {
			return
		}
		defer it.Close()
		for {
			o, err := it.Next()
			if err != nil {
				break
			}
			h := o.Hash()
			if bytes.Equal(h.Bytes(), bid[:]) {
				continue
			}
			if out, err := readObj(o); err == nil {
				r.out = out
				copy(r.hash[:], h.Bytes())
			}
		}
	})
}

func mustHash(b []byte) plumbing.Hash {
	h, _ := plumbing.FromBytes(b)
	return h
}
