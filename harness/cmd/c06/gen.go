package main

import (
	"bytes"
	"fmt"
	"math/rand"
	"strings"

	"verif/internal/gen"
)

// dcase is one (base, delta) workload item.
type dcase struct {
	base   []byte
	delta  []byte
	shape  string // structural id: header kinds, op kinds, mutation kind and position class
	origin string // synth | diff | diff-mut | random | trunc
	target []byte // for origin diff: the target DiffDelta was asked to encode
	hasTgt bool
	level  int  // zlib level used when the delta is embedded in a pack
	full   bool // run every applier variant (first cases of each model class)
}

func leb(v uint64) []byte {
	var out []byte
	for {
		b := byte(v & 0x7f)
		v >>= 7
		if v == 0 {
			return append(out, b)
		}
		out = append(out, b|0x80)
	}
}

// lebPadded encodes v in exactly n bytes (n >= minimal) using redundant continuation bytes.
func lebPadded(v uint64, n int) []byte {
	out := leb(v)
	for len(out) < n {
		out[len(out)-1] |= 0x80
		out = append(out, 0x00)
	}
	return out
}

func pickBase(r *rand.Rand) []byte {
	switch r.Intn(40) {
	case 0:
		return []byte{}
	case 1:
		return []byte{byte(r.Intn(256))}
	case 2:
		n := 65535 + r.Intn(3)
		return compressible(r, n)
	case 3:
		return compressible(r, 65536+r.Intn(140000))
	case 4, 5:
		b := make([]byte, 16+r.Intn(3)-1)
		r.Read(b)
		return b
	default:
		for {
			b := gen.Bytes(r, 6000)
			if len(b) > 0 || r.Intn(8) == 0 {
				return b
			}
		}
	}
}

func compressible(r *rand.Rand, n int) []byte {
	b := make([]byte, n)
	w := []byte("the quick brown fox jumps over the lazy dog 0123456789\n")
	for i := range b {
		b[i] = w[(i+i/97)%len(w)]
	}
	for k := 0; k < 20; k++ {
		b[r.Intn(n)] = byte(r.Intn(256))
	}
	return b
}

type seg struct {
	end   int
	label string
}

// encodeCopy encodes a copy command. mode: min | full | rand. A size of 0x10000
// in min mode is encoded as "no size bytes" (size 0 means 0x10000).
func encodeCopy(r *rand.Rand, off, size uint64, mode string) []byte {
	cmd := byte(0x80)
	var params []byte
	szField := size
	if size == 0x10000 && mode == "min" {
		szField = 0
	}
	for i := uint(0); i < 4; i++ {
		b := byte(off >> (8 * i))
		inc := b != 0
		if mode == "full" || (mode == "rand" && r.Intn(2) == 0) {
			inc = true
		}
		if inc {
			cmd |= 1 << i
			params = append(params, b)
		}
	}
	for i := uint(0); i < 3; i++ {
		b := byte(szField >> (8 * i))
		inc := b != 0
		if mode == "full" || (mode == "rand" && r.Intn(2) == 0) {
			inc = true
		}
		if inc {
			cmd |= 0x10 << i
			params = append(params, b)
		}
	}
	return append([]byte{cmd}, params...)
}

// synth builds a structured delta for base.
func synth(r *rand.Rand, base []byte) (delta []byte, shape string, segs []seg) {
	n := uint64(len(base))
	var body bytes.Buffer
	var kinds []string
	var produced uint64
	type piece struct {
		b     []byte
		label string
	}
	var pieces []piece
	nops := []int{0, 1, 1, 1, 2, 2, 3, 4, 6, 12}[r.Intn(10)]
	wantValid := r.Intn(2) == 0 // half of the deltas are built from valid parts only (encodings may still be non-canonical)
	for i := 0; i < nops; i++ {
		k := r.Intn(20)
		if wantValid && k >= 8 && k < 13 {
			k = 13 + r.Intn(7)
		}
		if wantValid && n == 0 {
			k = 13
		}
		switch {
		case k < 6 && n > 0: // valid copy
			off := uint64(r.Int63n(int64(n)))
			max := n - off
			if max > 0xffffff {
				max = 0xffffff
			}
			var size uint64
			switch r.Intn(5) {
			case 0:
				size = 1
			case 1:
				size = max
			case 2:
				off, size = 0, min64(n, 0xffffff)
			default:
				size = 1 + uint64(r.Int63n(int64(max)))
			}
			mode := []string{"min", "min", "full", "rand"}[r.Intn(4)]
			pieces = append(pieces, piece{encodeCopy(r, off, size, mode), "copy"})
			kinds = append(kinds, "cp-"+mode)
			produced += size
		case k < 8 && n >= 0x10000: // copy of exactly 64 KiB encoded as size 0
			off := uint64(r.Int63n(int64(n - 0x10000 + 1)))
			pieces = append(pieces, piece{encodeCopy(r, off, 0x10000, "min"), "copy"})
			kinds = append(kinds, "cp-size0")
			produced += 0x10000
		case k < 9: // size 0 (=64 KiB) against whatever base
			off := uint64(0)
			if n > 0 {
				off = uint64(r.Int63n(int64(n)))
			}
			pieces = append(pieces, piece{encodeCopy(r, off, 0x10000, "min"), "copy"})
			kinds = append(kinds, "cp-size0-any")
			produced += 0x10000
		case k < 11: // beyond the source by a little
			off := uint64(0)
			if n > 0 {
				off = uint64(r.Int63n(int64(n + 1)))
			}
			size := n - off + 1 + uint64(r.Intn(3))
			if size > 0xffffff {
				size = 0xffffff
			}
			pieces = append(pieces, piece{encodeCopy(r, off, size, "min"), "copy"})
			kinds = append(kinds, "cp-oob")
			produced += size
		case k < 12: // huge offset
			off := uint64(1)<<24 + uint64(r.Int63n(1<<31))
			size := uint64(1 + r.Intn(300))
			pieces = append(pieces, piece{encodeCopy(r, off, size, "min"), "copy"})
			kinds = append(kinds, "cp-bigoff")
			produced += size
		case k < 13:
			pieces = append(pieces, piece{[]byte{0}, "op0"})
			kinds = append(kinds, "op0")
		default: // insert
			m := 1 + r.Intn(127)
			switch r.Intn(4) {
			case 0:
				m = 1
			case 1:
				m = 127
			}
			b := make([]byte, m+1)
			r.Read(b)
			b[0] = byte(m)
			pieces = append(pieces, piece{b, "insert"})
			kinds = append(kinds, fmt.Sprintf("ins%s", sizeClass(m)))
			produced += uint64(m)
		}
	}
	// headers
	srcKind, tgtKind := "ok", "ok"
	srcB := leb(n)
	hk := r.Intn(24)
	if wantValid {
		hk = []int{0, 1, 2, 0, 23, 23, 23, 23, 23, 23, 23, 23, 23, 23, 23, 23, 23, 23, 23, 23, 23, 23, 23, 23}[r.Intn(24)]
	}
	switch hk {
	case 0:
		srcKind, srcB = "pad1", lebPadded(n, len(srcB)+1)
	case 1:
		srcKind, srcB = "pad-to-9", lebPadded(n, 9)
	case 2:
		srcKind, srcB = "pad-to-10", lebPadded(n, 10)
	case 3:
		srcKind, srcB = "plus1", leb(n+1)
	case 4:
		if n > 0 {
			srcKind, srcB = "minus1", leb(n-1)
		}
	case 5:
		if n > 0 {
			srcKind, srcB = "zero", leb(0)
		}
	case 6:
		srcKind, srcB = "unterminated", append(lebPadded(n, len(srcB)+1)[:len(srcB)], []byte{}...)
	case 7:
		srcKind, srcB = "overflow64", []byte{0xff, 0xff, 0xff, 0xff, 0xff, 0xff, 0xff, 0xff, 0xff, 0x7f}
	}
	tgtB := leb(produced)
	hk = r.Intn(24)
	if wantValid {
		hk = []int{0, 1, 8, 0, 23, 23, 23, 23, 23, 23, 23, 23, 23, 23, 23, 23, 23, 23, 23, 23, 23, 23, 23, 23}[r.Intn(24)]
	}
	switch hk {
	case 0:
		tgtKind, tgtB = "pad1", lebPadded(produced, len(tgtB)+1)
	case 1:
		tgtKind, tgtB = "pad-to-10", lebPadded(produced, 10)
	case 2:
		tgtKind, tgtB = "plus1", leb(produced+1)
	case 3:
		if produced > 0 {
			tgtKind, tgtB = "minus1", leb(produced-1)
		}
	case 4:
		if produced > 0 {
			tgtKind, tgtB = "zero", leb(0)
		}
	case 5:
		tgtKind, tgtB = "huge", leb(1<<33+produced)
	case 6:
		tgtKind, tgtB = "unterminated", lebPadded(produced, len(tgtB)+1)[:len(tgtB)]
	case 7:
		tgtKind, tgtB = "overflow64", []byte{0xff, 0xff, 0xff, 0xff, 0xff, 0xff, 0xff, 0xff, 0xff, 0x7f}
	case 8:
		tgtKind, tgtB = "pad-to-9", lebPadded(produced, 9)
	}
	body.Write(srcB)
	segs = append(segs, seg{body.Len(), "hdr-src"})
	body.Write(tgtB)
	segs = append(segs, seg{body.Len(), "hdr-tgt"})
	for _, p := range pieces {
		body.Write(p.b)
		segs = append(segs, seg{body.Len(), p.label})
	}
	shape = "src=" + srcKind + "/tgt=" + tgtKind + "/" + strings.Join(compact(kinds), ",") + "/base=" + sizeClass(len(base))
	return body.Bytes(), shape, segs
}

func min64(a, b uint64) uint64 {
	if a < b {
		return a
	}
	return b
}

func sizeClass(n int) string {
	switch {
	case n == 0:
		return "0"
	case n == 1:
		return "1"
	case n < 16:
		return "<16"
	case n < 127:
		return "<127"
	case n == 127:
		return "127"
	case n < 65536:
		return "<64K"
	case n == 65536:
		return "64K"
	default:
		return ">64K"
	}
}

// compact collapses runs so the shape stays structural and bounded.
func compact(k []string) []string {
	var out []string
	for i, s := range k {
		if i > 0 && k[i-1] == s {
			if !strings.HasSuffix(out[len(out)-1], "+") {
				out[len(out)-1] += "+"
			}
			continue
		}
		out = append(out, s)
	}
	if len(out) > 8 {
		out = append(out[:8], "…")
	}
	return out
}

// posClass names where a byte position falls in a structured delta.
func posClass(segs []seg, pos int) string {
	prev := 0
	for _, s := range segs {
		if pos == prev {
			return "at-" + s.label + "-start"
		}
		if pos < s.end {
			return "inside-" + s.label
		}
		prev = s.end
	}
	return "at-end"
}

// mutate applies one byte-level mutation; returns the mutated delta and its label.
func mutate(r *rand.Rand, d []byte, segs []seg) ([]byte, string) {
	if len(d) == 0 {
		return d, "none"
	}
	switch r.Intn(9) {
	case 0, 1:
		p := r.Intn(len(d))
		return append([]byte{}, d[:p]...), "trunc:" + posClass(segs, p)
	case 2:
		return append(append([]byte{}, d...), byte(r.Intn(256))), "trail1"
	case 3:
		return append(append([]byte{}, d...), 0), "trail-op0"
	case 4:
		t := make([]byte, 1+r.Intn(40))
		r.Read(t)
		return append(append([]byte{}, d...), t...), "trailN"
	case 5, 6:
		p := r.Intn(len(d))
		m := append([]byte{}, d...)
		m[p] ^= 1 << uint(r.Intn(8))
		return m, "flip:" + posClass(segs, p)
	case 7:
		p := r.Intn(len(d))
		return append(append([]byte{}, d[:p]...), d[p+1:]...), "drop:" + posClass(segs, p)
	default:
		p := r.Intn(len(d))
		m := append([]byte{}, d[:p]...)
		m = append(m, byte(r.Intn(256)))
		return append(m, d[p:]...), "insertbyte:" + posClass(segs, p)
	}
}

// parseSegs recovers segment boundaries of an arbitrary (go-git produced) delta for position classes.
func parseSegs(d []byte) []seg {
	var segs []seg
	pos := 0
	for h := 0; h < 2; h++ {
		for pos < len(d) {
			b := d[pos]
			pos++
			if b&0x80 == 0 {
				break
			}
		}
		segs = append(segs, seg{pos, []string{"hdr-src", "hdr-tgt"}[h]})
	}
	for pos < len(d) {
		cmd := d[pos]
		pos++
		if cmd&0x80 != 0 {
			for m := byte(1); m < 0x80; m <<= 1 {
				if cmd&m != 0 {
					pos++
				}
			}
			if pos > len(d) {
				pos = len(d)
			}
			segs = append(segs, seg{pos, "copy"})
		} else if cmd != 0 {
			pos += int(cmd)
			if pos > len(d) {
				pos = len(d)
			}
			segs = append(segs, seg{pos, "insert"})
		} else {
			segs = append(segs, seg{pos, "op0"})
		}
	}
	return segs
}

// opSummary gives the op-kind sequence of a delta (for shapes of diff-derived deltas).
func opSummary(d []byte) string {
	var k []string
	for _, s := range parseSegs(d) {
		if s.label != "hdr-src" && s.label != "hdr-tgt" {
			k = append(k, s.label)
		}
	}
	return strings.Join(compact(k), ",")
}

// pickPair makes a (src, tgt) pair for the round-trip clause.
func pickPair(r *rand.Rand) (src, tgt []byte, kind string) {
	src = pickBase(r)
	n := len(src)
	switch r.Intn(14) {
	case 0:
		return src, append([]byte{}, src...), "tgt=src"
	case 1:
		if n > 0 {
			return src, append([]byte{}, src[:r.Intn(n+1)]...), "tgt=prefix"
		}
		return src, []byte{}, "tgt=empty"
	case 2:
		if n > 0 {
			return src, append([]byte{}, src[r.Intn(n):]...), "tgt=suffix"
		}
		return src, []byte("x"), "src=empty"
	case 3:
		return src, []byte{}, "tgt=empty"
	case 4:
		return src, gen.Bytes(r, 5000), "unrelated"
	case 5:
		t := bytes.Repeat(src, 1+r.Intn(3))
		if len(t) > 400000 {
			t = t[:400000]
		}
		return src, t, "tgt=src-repeated"
	case 6: // blocks of src in another order
		var t []byte
		for i := 0; i < 1+r.Intn(6) && n > 0; i++ {
			a := r.Intn(n)
			b := a + r.Intn(n-a+1)
			t = append(t, src[a:b]...)
		}
		return src, t, "tgt=shuffled-blocks"
	case 7: // around the 16-byte block size
		s := make([]byte, 14+r.Intn(6))
		r.Read(s)
		t := append([]byte{}, s...)
		if len(t) > 0 {
			t[r.Intn(len(t))] ^= 0xff
		}
		return s, t, "around-blocksize"
	case 8: // long run > 64 KiB copied
		s := compressible(r, 70000+r.Intn(100000))
		a := r.Intn(3000)
		t := append([]byte("head"), s[a:]...)
		t = append(t, []byte("tail")...)
		return s, t, "copy>64K"
	default: // edits
		t := append([]byte{}, src...)
		for e := 0; e < 1+r.Intn(5); e++ {
			switch r.Intn(3) {
			case 0:
				p := r.Intn(len(t) + 1)
				ins := gen.Bytes(r, 300)
				t = append(t[:p], append(ins, t[p:]...)...)
			case 1:
				if len(t) > 0 {
					p := r.Intn(len(t))
					q := p + r.Intn(len(t)-p+1)
					t = append(t[:p], t[q:]...)
				}
			default:
				if len(t) > 0 {
					t[r.Intn(len(t))] ^= byte(1 + r.Intn(255))
				}
			}
		}
		return src, t, "edited"
	}
}
