package main

// Model: transcription of git's patch-delta.c:patch_delta and
// delta.h:get_delta_hdr_size (git 2.39, 64-bit unsigned long / size_t).

const deltaSizeMin = 4

type verdict struct {
	ok        bool
	out       []byte
	reason    string   // reject reason (model's name of the failing clause)
	undefined bool     // git's behaviour is undefined or resource dependent: case is skipped
	feat      []string // features of the (accepted or rejected) delta that matter for finding keys

	srcHdrEnd, tgtHdrEnd int
	srcSize, tgtSize     uint64
}

// hdrSize transcribes get_delta_hdr_size. status: "" ok, "die" (st_left_shift
// overflow -> git dies), "undef" (shift >= 64: C undefined behaviour).
func hdrSize(d []byte, pos int) (size uint64, npos int, nbytes int, status string) {
	i := uint(0)
	for {
		cmd := d[pos]
		pos++
		nbytes++
		v := uint64(cmd & 0x7f)
		if i >= 64 {
			return 0, pos, nbytes, "undef"
		}
		if v > (^uint64(0))>>i {
			return 0, pos, nbytes, "die"
		}
		size |= v << i
		i += 7
		if cmd&0x80 == 0 || pos >= len(d) {
			break
		}
	}
	return size, pos, nbytes, ""
}

func lebLen(v uint64) int {
	n := 1
	for v >>= 7; v != 0; v >>= 7 {
		n++
	}
	return n
}

const modelMaxTarget = 1 << 28

// gitPatchDelta is the oracle model.
func gitPatchDelta(src, delta []byte) (v verdict) {
	if len(src) == 0 {
		v.feat = append(v.feat, "empty-base")
	}
	if len(delta) < deltaSizeMin {
		v.reason = "delta-shorter-than-4"
		return v
	}
	size, pos, nb, st := hdrSize(delta, 0)
	switch st {
	case "undef":
		v.undefined = true
		return v
	case "die":
		v.reason = "src-size-leb-overflow"
		return v
	}
	if nb > lebLen(size) {
		if nb >= 10 {
			v.feat = append(v.feat, "src-hdr-10-bytes")
		} else {
			v.feat = append(v.feat, "src-hdr-padded")
		}
	}
	v.srcHdrEnd = pos
	if size != uint64(len(src)) {
		v.reason = "src-size-mismatch"
		return v
	}
	if pos >= len(delta) {
		// git reads one byte past the buffer (the NUL of xmallocz in index-pack); whatever it
		// reads, data ends beyond top and the final sanity check fails.
		v.reason = "header-overruns-delta"
		return v
	}
	tsize, pos, nb, st := hdrSize(delta, pos)
	switch st {
	case "undef":
		v.undefined = true
		return v
	case "die":
		v.reason = "target-size-leb-overflow"
		return v
	}
	switch {
	case nb >= 10:
		v.feat = append(v.feat, "tgt-hdr-10-bytes")
	case delta[pos-1]&0x80 != 0:
		// target size header ran into the end of the delta with the continuation bit set
		v.feat = append(v.feat, "tgt-hdr-unterminated")
	case nb > lebLen(tsize):
		v.feat = append(v.feat, "tgt-hdr-padded")
	}
	v.tgtHdrEnd, v.srcSize, v.tgtSize = pos, size, tsize
	dry := tsize > modelMaxTarget
	remaining := tsize
	var out []byte
	if !dry {
		out = make([]byte, 0, int(min(tsize, 1<<16)))
	}
	top := len(delta)
	var prevEnd uint64 // end of the previous copy in the source
	rewound, fwdAfterRewind := false, false
	defer func() {
		if fwdAfterRewind {
			v.feat = append(v.feat, "copy-forward-after-backward")
		}
	}()
	for pos < top {
		cmd := delta[pos]
		pos++
		if cmd&0x80 != 0 {
			var cpOff, cpSize uint64
			c := cmd
			for _, sh := range []uint{0, 8, 16, 24} {
				if c&1 != 0 {
					if pos >= top {
						v.reason = "truncated-copy-param"
						return v
					}
					cpOff |= uint64(delta[pos]) << sh
					pos++
				}
				c >>= 1
			}
			for _, sh := range []uint{0, 8, 16} {
				if c&1 != 0 {
					if pos >= top {
						v.reason = "truncated-copy-param"
						return v
					}
					cpSize |= uint64(delta[pos]) << sh
					pos++
				}
				c >>= 1
			}
			if cpSize == 0 {
				cpSize = 0x10000
				v.feat = append(v.feat, "copy-size-0")
			}
			if cpOff+cpSize > uint64(len(src)) {
				v.reason = "copy-beyond-source"
				return v
			}
			if cpSize > remaining {
				v.reason = "copy-exceeds-target"
				return v
			}
			if !dry {
				out = append(out, src[cpOff:cpOff+cpSize]...)
			}
			if cpOff < prevEnd {
				rewound = true
			} else if rewound {
				fwdAfterRewind = true
			}
			prevEnd = cpOff + cpSize
			remaining -= cpSize
		} else if cmd != 0 {
			n := uint64(cmd)
			if n > remaining {
				v.reason = "insert-exceeds-target"
				return v
			}
			if n > uint64(top-pos) {
				v.reason = "truncated-insert"
				return v
			}
			if !dry {
				out = append(out, delta[pos:pos+int(n)]...)
			}
			pos += int(n)
			remaining -= n
		} else {
			v.reason = "opcode-0"
			return v
		}
	}
	if remaining != 0 {
		v.reason = "target-underrun"
		return v
	}
	if dry {
		v.undefined = true
		return v
	}
	v.ok = true
	v.out = out
	return v
}
