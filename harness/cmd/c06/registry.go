package main

import (
	"sort"
	"strings"
)

// pcase is one (base, delta) with lazily built packs.
type pcase struct {
	base, delta []byte
	level       int
	v           verdict
	mmDir       string
	packs       map[string]*builtPack
}

func (p *pcase) pack(kind string) builtPack {
	if p.packs == nil {
		p.packs = map[string]*builtPack{}
	}
	if bp := p.packs[kind]; bp != nil {
		return *bp
	}
	bp := twoObjectPack(p.base, p.delta, kind == "ofs", p.level)
	p.packs[kind] = &bp
	return bp
}

func (p *pcase) want() *[20]byte {
	if !p.v.ok {
		return nil
	}
	id := blobID(p.v.out)
	return &id
}

type applier struct {
	name  string
	group string // reader | parser | packfile | update | mmap | buffer
	run   func(p *pcase) res
}

var registry = func() []applier {
	var a []applier
	a = append(a, applier{"PatchDelta", "buffer", func(p *pcase) res { return applyPatchDelta(p.base, p.delta) }})
	a = append(a, applier{"ApplyDelta", "buffer", func(p *pcase) res { return applyApplyDelta(p.base, p.delta) }})
	for _, k := range []string{"bytes", "onebyte", "dataerr", "half"} {
		for _, b := range []int{1, 7, 65536} {
			k, b := k, b
			a = append(a, applier{"", "reader", func(p *pcase) res { return applyReader(p.base, p.delta, k, b) }})
			a[len(a)-1].name = applyReaderName(k, b)
		}
	}
	for _, kind := range []string{"ref", "ofs"} {
		for _, m := range []string{"seek", "noseek", "seek+mem", "noseek+mem", "seek+fs", "noseek+fs"} {
			kind, m := kind, m
			a = append(a, applier{"Parser[" + kind + "," + m + "]", "parser", func(p *pcase) res { return applyParser(p.pack(kind), kind, m) }})
		}
	}
	for _, kind := range []string{"ref", "ofs"} {
		for _, withFs := range []bool{false, true} {
			for _, byOff := range []bool{false, true} {
				kind, withFs, byOff := kind, withFs, byOff
				a = append(a, applier{packfileName(kind, withFs, byOff), "packfile", func(p *pcase) res {
					return applyPackfile(p.pack(kind), p.base, p.delta, kind, withFs, byOff)
				}})
			}
		}
	}
	for _, kind := range []string{"ref", "ofs"} {
		kind := kind
		a = append(a, applier{"UpdateObjectStorage[" + kind + ",filesystem]", "update", func(p *pcase) res {
			return applyUpdateStorage(p.pack(kind), p.base, kind, p.want())
		}})
		a = append(a, applier{"mmap.PackScanner[" + kind + "]", "mmap", func(p *pcase) res {
			return applyMmap(p.mmDir, p.pack(kind), p.base, p.delta, kind)
		}})
	}
	return a
}()

func byGroup(g string) []applier {
	var out []applier
	for _, a := range registry {
		if a.group == g {
			out = append(out, a)
		}
	}
	return out
}

// family is the applier identity used in finding keys: the implementation
// reached, without the ref/ofs pack encoding, chunking or lookup variant.
func family(name string) string {
	i := strings.IndexByte(name, '[')
	if i < 0 {
		return name
	}
	fam := name[:i]
	inner := strings.TrimSuffix(name[i+1:], "]")
	if fam == "Parser" {
		return "Parser[" + strings.SplitN(inner, ",", 2)[1] + "]"
	}
	return fam
}

func uniqFeat(f []string) []string {
	f = append([]string{}, f...)
	sort.Strings(f)
	var u []string
	for i, s := range f {
		if i == 0 || f[i-1] != s {
			u = append(u, s)
		}
	}
	return u
}

// without returns a variant of (base, delta) that has the same meaning for git
// but lacks feature f. ok=false when the feature cannot be removed.
func without(base, delta []byte, v verdict, f string) (b2, d2 []byte, ok bool) {
	srcHdr := delta[:v.srcHdrEnd]
	tgtHdr := delta[v.srcHdrEnd:v.tgtHdrEnd]
	ops := delta[v.tgtHdrEnd:]
	join := func(a, b, c []byte) []byte { return append(append(append([]byte{}, a...), b...), c...) }
	switch f {
	case "empty-base":
		return []byte{'x'}, join(lebPadded(1, len(srcHdr)), tgtHdr, ops), true
	case "src-hdr-padded", "src-hdr-10-bytes":
		return base, join(leb(v.srcSize), tgtHdr, ops), true
	case "tgt-hdr-padded", "tgt-hdr-10-bytes":
		return base, join(srcHdr, leb(v.tgtSize), ops), true
	case "tgt-hdr-unterminated":
		// same bytes with the dangling continuation bit cleared: same value, same delta length
		t2 := append([]byte{}, tgtHdr...)
		t2[len(t2)-1] &= 0x7f
		return base, join(srcHdr, t2, ops), true
	case "copy-size-0":
		var out []byte
		pos := 0
		for pos < len(ops) {
			cmd := ops[pos]
			if cmd&0x80 == 0 {
				out = append(out, ops[pos:pos+1+int(cmd)]...)
				pos += 1 + int(cmd)
				continue
			}
			n := 0
			for m := byte(1); m < 0x80; m <<= 1 {
				if cmd&m != 0 {
					n++
				}
			}
			nOff := 0
			for m := byte(1); m < 0x10; m <<= 1 {
				if cmd&m != 0 {
					nOff++
				}
			}
			sizeZero := true
			for _, b := range ops[pos+1+nOff : pos+1+n] {
				if b != 0 {
					sizeZero = false
				}
			}
			if sizeZero {
				// explicit 0x10000: size bytes 00 00 01
				out = append(out, cmd|0x70)
				out = append(out, ops[pos+1:pos+1+nOff]...)
				out = append(out, 0, 0, 1)
			} else {
				out = append(out, ops[pos:pos+1+n]...)
			}
			pos += 1 + n
		}
		return base, join(srcHdr, tgtHdr, out), true
	}
	return nil, nil, false
}

// causalFeatures reduces the features of an accepted delta to a 1-minimal set
// that still makes applier a disagree in direction dir: features are removed
// one at a time (in sorted order) as long as the disagreement persists.
func causalFeatures(p *pcase, a applier, dir string) string {
	feats := uniqFeat(p.v.feat)
	if len(feats) == 0 {
		return "plain"
	}
	if len(feats) == 1 {
		return feats[0]
	}
	cur := p
	var kept, fixed []string // kept: removal makes the applier agree; fixed: cannot be removed without changing git's verdict
	for _, f := range feats {
		b2, d2, ok := without(cur.base, cur.delta, cur.v, f)
		if !ok {
			fixed = append(fixed, f)
			continue
		}
		v2 := gitPatchDelta(b2, d2)
		if !v2.ok || v2.undefined {
			fixed = append(fixed, f)
			continue
		}
		p2 := &pcase{base: b2, delta: d2, level: p.level, v: v2, mmDir: p.mmDir}
		if classify(v2, a.run(p2)) == dir {
			cur = p2 // still disagrees without f: f is not needed
		} else {
			kept = append(kept, f)
		}
	}
	if len(kept) > 0 {
		return strings.Join(kept, "+")
	}
	if len(fixed) > 0 {
		return strings.Join(fixed, "+")
	}
	return "plain"
}
