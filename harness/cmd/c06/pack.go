package main

import (
	"bytes"
	"compress/zlib"
	"crypto/sha1"
	"encoding/binary"
	"fmt"
	"sync"
)

const (
	objBlob     = 3
	objOfsDelta = 6
	objRefDelta = 7
)

type packEntry struct {
	typ     int
	data    []byte // inflated payload (object bytes or delta bytes)
	refBase []byte // for ref-delta: base object id
	ofsBase int    // for ofs-delta: index of the base entry in the pack
}

type builtPack struct {
	bytes   []byte
	offsets []int64
	crcs    []uint32
	sum     [20]byte
}

func blobID(content []byte) [20]byte {
	h := sha1.New()
	fmt.Fprintf(h, "blob %d\x00", len(content))
	h.Write(content)
	var id [20]byte
	copy(id[:], h.Sum(nil))
	return id
}

var zpools = map[int]*sync.Pool{}
var zpoolMu sync.Mutex

func zdeflate(b []byte, level int) []byte {
	zpoolMu.Lock()
	pl := zpools[level]
	if pl == nil {
		pl = &sync.Pool{}
		zpools[level] = pl
	}
	zpoolMu.Unlock()
	var buf bytes.Buffer
	w, _ := pl.Get().(*zlib.Writer)
	if w == nil {
		w, _ = zlib.NewWriterLevel(&buf, level)
	} else {
		w.Reset(&buf)
	}
	w.Write(b)
	w.Close()
	pl.Put(w)
	return buf.Bytes()
}

func entryHeader(typ int, size uint64) []byte {
	b := byte(typ<<4) | byte(size&0x0f)
	size >>= 4
	var out []byte
	for size != 0 {
		out = append(out, b|0x80)
		b = byte(size & 0x7f)
		size >>= 7
	}
	return append(out, b)
}

func ofsEncode(off uint64) []byte {
	var tmp [10]byte
	pos := len(tmp) - 1
	tmp[pos] = byte(off & 0x7f)
	for off >>= 7; off != 0; off >>= 7 {
		off--
		pos--
		tmp[pos] = 0x80 | byte(off&0x7f)
	}
	return tmp[pos:]
}

// buildPack assembles a version-2 pack from the entries, in order.
func buildPack(entries []packEntry, level int) builtPack {
	var buf bytes.Buffer
	buf.WriteString("PACK")
	binary.Write(&buf, binary.BigEndian, uint32(2))
	binary.Write(&buf, binary.BigEndian, uint32(len(entries)))
	bp := builtPack{}
	for _, e := range entries {
		off := int64(buf.Len())
		bp.offsets = append(bp.offsets, off)
		buf.Write(entryHeader(e.typ, uint64(len(e.data))))
		switch e.typ {
		case objRefDelta:
			buf.Write(e.refBase)
		case objOfsDelta:
			buf.Write(ofsEncode(uint64(off - bp.offsets[e.ofsBase])))
		}
		buf.Write(zdeflate(e.data, level))
	}
	s := sha1.Sum(buf.Bytes())
	buf.Write(s[:])
	bp.bytes = buf.Bytes()
	bp.sum = s
	return bp
}
