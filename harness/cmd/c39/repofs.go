package main

// Process-free helpers for bare repositories on disk: copying the template,
// writing the initial refs in git's on-disk format, reading refs back and
// testing object presence (loose file or pack index v2). They exist because a
// git process per step is too slow on a loaded machine; each of them is
// validated against the real git in the confirmation steps (advertisement of
// `git receive-pack`, `git for-each-ref`, `git cat-file --batch-check`).

import (
	"bytes"
	"encoding/binary"
	"encoding/hex"
	"fmt"
	"io"
	"os"
	"path/filepath"
	"sort"
	"strings"
)

func copyTree(src, dst string) error {
	return filepath.Walk(src, func(p string, info os.FileInfo, err error) error {
		if err != nil {
			return err
		}
		rel, _ := filepath.Rel(src, p)
		t := filepath.Join(dst, rel)
		if info.IsDir() {
			return os.MkdirAll(t, 0o755)
		}
		in, err := os.Open(p)
		if err != nil {
			return err
		}
		defer in.Close()
		out, err := os.OpenFile(t, os.O_CREATE|os.O_WRONLY|os.O_TRUNC, info.Mode().Perm()|0o200)
		if err != nil {
			return err
		}
		if _, err := io.Copy(out, in); err != nil {
			out.Close()
			return err
		}
		return out.Close()
	})
}

// writeRefs installs refs either as loose files or as a packed-refs file.
func writeRefs(dir string, refs map[string]string, packed bool) error {
	if len(refs) == 0 {
		return nil
	}
	names := make([]string, 0, len(refs))
	for n := range refs {
		names = append(names, n)
	}
	sort.Strings(names)
	if packed {
		var b bytes.Buffer
		b.WriteString("# pack-refs with: peeled fully-peeled sorted \n")
		for _, n := range names {
			fmt.Fprintf(&b, "%s %s\n", refs[n], n)
		}
		return os.WriteFile(filepath.Join(dir, "packed-refs"), b.Bytes(), 0o644)
	}
	for _, n := range names {
		p := filepath.Join(dir, filepath.FromSlash(n))
		if err := os.MkdirAll(filepath.Dir(p), 0o755); err != nil {
			return err
		}
		if err := os.WriteFile(p, []byte(refs[n]+"\n"), 0o644); err != nil {
			return err
		}
	}
	return nil
}

// readRefsRaw reads the refs of a bare repository straight from disk (git's
// on-disk definition: loose files override packed-refs), without relying on
// go-git and without git refusing to list refs whose object is missing.
func readRefsRaw(dir string) (map[string]string, []string) {
	refs := map[string]string{}
	var odd []string
	if b, err := os.ReadFile(filepath.Join(dir, "packed-refs")); err == nil {
		for _, ln := range strings.Split(string(b), "\n") {
			if ln == "" || ln[0] == '#' || ln[0] == '^' {
				continue
			}
			f := strings.SplitN(ln, " ", 2)
			if len(f) == 2 && len(f[0]) == 40 {
				refs[f[1]] = f[0]
			} else {
				odd = append(odd, "packed-refs line "+ln)
			}
		}
	}
	root := filepath.Join(dir, "refs")
	filepath.Walk(root, func(p string, info os.FileInfo, err error) error {
		if err != nil || info.IsDir() {
			return nil
		}
		rel, _ := filepath.Rel(dir, p)
		if strings.HasSuffix(rel, ".lock") {
			odd = append(odd, "leftover "+rel)
			return nil
		}
		b, _ := os.ReadFile(p)
		s := strings.TrimSpace(string(b))
		if len(s) == 40 {
			refs[filepath.ToSlash(rel)] = s
		} else {
			odd = append(odd, fmt.Sprintf("loose %s = %q", rel, s))
		}
		return nil
	})
	return refs, odd
}

// existsOnDisk reports which ids are present as loose objects or in a pack
// index (version 2) of the repository at dir.
func existsOnDisk(dir string, ids []string) (map[string]bool, error) {
	res := map[string]bool{}
	var idxs [][]byte
	loaded := false
	for _, id := range ids {
		if len(id) != 40 {
			res[id] = false
			continue
		}
		if _, err := os.Stat(filepath.Join(dir, "objects", id[:2], id[2:])); err == nil {
			res[id] = true
			continue
		}
		if !loaded {
			loaded = true
			files, _ := filepath.Glob(filepath.Join(dir, "objects", "pack", "*.idx"))
			for _, f := range files {
				b, err := os.ReadFile(f)
				if err != nil {
					return nil, err
				}
				if len(b) < 8+256*4 || !bytes.Equal(b[:8], []byte{0xff, 't', 'O', 'c', 0, 0, 0, 2}) {
					return nil, fmt.Errorf("%s: not a version-2 pack index", f)
				}
				// an index counts only if its pack file is there too
				if _, err := os.Stat(strings.TrimSuffix(f, ".idx") + ".pack"); err != nil {
					continue
				}
				idxs = append(idxs, b)
			}
		}
		raw, err := hex.DecodeString(id)
		if err != nil {
			res[id] = false
			continue
		}
		found := false
		for _, b := range idxs {
			n := int(binary.BigEndian.Uint32(b[8+255*4:]))
			if len(b) < 8+1024+n*20 {
				return nil, fmt.Errorf("truncated pack index")
			}
			lo := 0
			if raw[0] > 0 {
				lo = int(binary.BigEndian.Uint32(b[8+(int(raw[0])-1)*4:]))
			}
			hi := int(binary.BigEndian.Uint32(b[8+int(raw[0])*4:]))
			tbl := b[8+1024:]
			k := sort.Search(hi-lo, func(i int) bool { return bytes.Compare(tbl[(lo+i)*20:(lo+i+1)*20], raw) >= 0 })
			if lo+k < hi && bytes.Equal(tbl[(lo+k)*20:(lo+k+1)*20], raw) {
				found = true
				break
			}
		}
		res[id] = found
	}
	return res, nil
}
