package main

import (
	"github.com/go-git/go-git/v6/plumbing"
	"github.com/go-git/go-git/v6/storage/filesystem"
	"github.com/go-git/go-git/v6/storage/memory"
)

// refOp is one mutating reference call the server made on its storage. The
// log is used only to attribute a violation to the right commands (finding
// key); whether an outcome violates the property is decided from the
// observable final state and report alone.
type refOp struct {
	Op   string `json:"op"` // set | cas | remove
	Name string `json:"name"`
	Val  string `json:"val,omitempty"`
	OK   bool   `json:"ok"`
}

type recLog struct{ ops *[]refOp }

func (l recLog) add(op string, name plumbing.ReferenceName, val string, err error) {
	*l.ops = append(*l.ops, refOp{op, name.String(), val, err == nil})
}

type memRec struct {
	*memory.Storage
	recLog
}

func (m memRec) SetReference(r *plumbing.Reference) error {
	err := m.Storage.SetReference(r)
	m.add("set", r.Name(), r.Hash().String(), err)
	return err
}

func (m memRec) CheckAndSetReference(n, o *plumbing.Reference) error {
	err := m.Storage.CheckAndSetReference(n, o)
	m.add("cas", n.Name(), n.Hash().String(), err)
	return err
}

func (m memRec) RemoveReference(n plumbing.ReferenceName) error {
	err := m.Storage.RemoveReference(n)
	m.add("remove", n, "", err)
	return err
}

type fsRec struct {
	*filesystem.Storage
	recLog
}

func (m fsRec) SetReference(r *plumbing.Reference) error {
	err := m.Storage.SetReference(r)
	m.add("set", r.Name(), r.Hash().String(), err)
	return err
}

func (m fsRec) CheckAndSetReference(n, o *plumbing.Reference) error {
	err := m.Storage.CheckAndSetReference(n, o)
	m.add("cas", n.Name(), n.Hash().String(), err)
	return err
}

func (m fsRec) RemoveReference(n plumbing.ReferenceName) error {
	err := m.Storage.RemoveReference(n)
	m.add("remove", n, "", err)
	return err
}

// maskFromLog matches the successful mutating calls, in order, to the
// commands, in order; -1 if the log cannot be matched that way.
func maskFromLog(cmds []Cmd, log []refOp) int {
	mask, k := 0, 0
	var ok []refOp
	for _, op := range log {
		if op.OK {
			ok = append(ok, op)
		}
	}
	for i, c := range cmds {
		if k >= len(ok) {
			break
		}
		op := ok[k]
		if op.Name != c.Name {
			continue
		}
		if (c.Action() == "delete" && op.Op == "remove") || (c.Action() != "delete" && op.Op != "remove" && op.Val == c.New) {
			mask |= 1 << i
			k++
		}
	}
	if k != len(ok) {
		return -1
	}
	return mask
}

// logConsistent reports whether the commands selected by mask, in order, are
// exactly the successful mutating calls of the log, in order.
func logConsistent(cmds []Cmd, mask int, log []refOp) bool {
	k := 0
	var ok []refOp
	for _, op := range log {
		if op.OK {
			ok = append(ok, op)
		}
	}
	for i, c := range cmds {
		if mask&(1<<i) == 0 {
			continue
		}
		if k >= len(ok) {
			return false
		}
		op := ok[k]
		if op.Name != c.Name {
			return false
		}
		if !((c.Action() == "delete" && op.Op == "remove") || (c.Action() != "delete" && op.Op != "remove" && op.Val == c.New)) {
			return false
		}
		k++
	}
	return k == len(ok)
}
