package main

import (
	"bytes"
	"context"
	"encoding/json"
	"fmt"
	"io"
	"net/url"
	"os"
	"os/exec"
	"path/filepath"
	"strings"
	"sync"
	"time"

	"github.com/go-git/go-billy/v6/osfs"
	"github.com/go-git/go-git/v6/backend"
	"github.com/go-git/go-git/v6/plumbing"
	"github.com/go-git/go-git/v6/plumbing/cache"
	"github.com/go-git/go-git/v6/plumbing/transport"
	"github.com/go-git/go-git/v6/plumbing/transport/file"
	"github.com/go-git/go-git/v6/storage/filesystem"
	"github.com/go-git/go-git/v6/storage/memory"

	"verif/internal/gen"
	"verif/internal/vf"
)

// ---- job description shared by parent and child ----

type push struct {
	Cmds []Cmd  `json:"cmds"`
	Req  []byte `json:"req"`
}

type round struct {
	Idx    int               `json:"idx"`
	Kind   string            `json:"kind"`  // update | create | delete-vs-update | mixed
	Entry  string            `json:"entry"` // direct | backend | file
	Root   string            `json:"root"`  // loader root; repository is Root/r.git
	Init   map[string]string `json:"init"`
	Pushes []push            `json:"pushes"`
}

type pushResult struct {
	Out     []byte `json:"out"`
	Err     string `json:"err"`
	Panic   string `json:"panic"`
	Timeout bool   `json:"timeout"`
}

type seqItem struct {
	Idx       int               `json:"idx"`
	Init      map[string]string `json:"init"`
	Stateless bool              `json:"stateless"`
	Req       []byte            `json:"req"`
	Dir       string            `json:"dir"`
	IDs       []string          `json:"ids"` // ids whose presence in the memory storage is reported back
}

type seqResult struct {
	MemOut, FsOut     []byte
	MemErr, FsErr     string
	MemPanic, FsPanic string
	MemLog, FsLog     []refOp
	MemFinal          map[string]string
	MemExists         map[string]bool
}

type job struct {
	Template string         `json:"template"`
	Seq      []seqItem      `json:"seq"`
	SeqRes   []seqResult    `json:"seq_res"`
	Rounds   []round        `json:"rounds"`
	Results  [][]pushResult `json:"results"`
	RoundMs  []int64        `json:"round_ms"`
}

const sharedRef = "refs/heads/a"

// ---- child: only go-git code runs here (race detector on) ----

func childMain(path string) {
	b, err := os.ReadFile(path)
	if err != nil {
		fmt.Println("child: read job:", err)
		os.Exit(3)
	}
	var j job
	if err := json.Unmarshal(b, &j); err != nil {
		fmt.Println("child: parse job:", err)
		os.Exit(3)
	}
	if len(j.Seq) > 0 {
		objs, err := loadObjs(j.Template)
		if err != nil {
			fmt.Println("child: template:", err)
			os.Exit(3)
		}
		j.SeqRes = make([]seqResult, len(j.Seq))
		for i := range j.Seq {
			j.SeqRes[i] = runSeq(objs, &j.Seq[i])
		}
	}
	j.Results = make([][]pushResult, len(j.Rounds))
	j.RoundMs = make([]int64, len(j.Rounds))
	for i := range j.Rounds {
		t0 := time.Now()
		j.Results[i] = runRound(&j.Rounds[i])
		j.RoundMs[i] = time.Since(t0).Milliseconds()
	}
	out, _ := json.Marshal(&j)
	if err := os.WriteFile(path+".out", out, 0o644); err != nil {
		fmt.Println("child: write:", err)
		os.Exit(3)
	}
}

func runSeq(objs []raw, it *seqItem) (res seqResult) {
	mst, err := newMem(objs, it.Init)
	if err != nil {
		res.MemErr = "harness: " + err.Error()
		return res
	}
	res.MemOut, res.MemErr, res.MemPanic = runGoGit(memRec{mst, recLog{&res.MemLog}}, it.Stateless, it.Req)
	res.MemFinal = memRefs(mst)
	res.MemExists = map[string]bool{}
	ids := append([]string{}, it.IDs...)
	for _, v := range res.MemFinal {
		ids = append(ids, v)
	}
	for _, id := range ids {
		if len(id) == 40 {
			res.MemExists[id] = mst.HasEncodedObject(plumbing.NewHash(id)) == nil
		}
	}
	fst := filesystem.NewStorage(osfs.New(it.Dir), cache.NewObjectLRUDefault())
	res.FsOut, res.FsErr, res.FsPanic = runGoGit(fsRec{fst, recLog{&res.FsLog}}, it.Stateless, it.Req)
	fst.Close()
	return res
}

func runRound(r *round) []pushResult {
	res := make([]pushResult, len(r.Pushes))
	start := make(chan struct{})
	var wg sync.WaitGroup
	for k := range r.Pushes {
		wg.Add(1)
		go func(k int) {
			defer wg.Done()
			<-start
			done := make(chan pushResult, 1)
			ctx, cancel := context.WithTimeout(context.Background(), 120*time.Second)
			defer cancel()
			go func() {
				var pr pushResult
				p, st := vf.Catch(func() { pr.Out, pr.Err = onePush(ctx, r, r.Pushes[k].Req) })
				if p != nil {
					pr.Panic = fmt.Sprintf("%v\n%s", p, st)
				}
				done <- pr
			}()
			select {
			case pr := <-done:
				res[k] = pr
			case <-time.After(150 * time.Second):
				res[k] = pushResult{Timeout: true}
			}
		}(k)
	}
	close(start)
	wg.Wait()
	return res
}

func onePush(ctx context.Context, r *round, req []byte) ([]byte, string) {
	var buf bytes.Buffer
	errS := func(err error) string {
		if err != nil {
			return err.Error()
		}
		return ""
	}
	switch r.Entry {
	case "direct":
		st := filesystem.NewStorage(osfs.New(filepath.Join(r.Root, "r.git")), cache.NewObjectLRUDefault())
		defer st.Close()
		err := transport.ReceivePack(ctx, st, nopRC{bytes.NewReader(req)}, nopWC{&buf}, &transport.ReceivePackRequest{StatelessRPC: true})
		return buf.Bytes(), errS(err)
	case "backend":
		b := backend.New(transport.NewFilesystemLoader(osfs.New(r.Root), true))
		err := b.Serve(ctx, nopRC{bytes.NewReader(req)}, nopWC{&buf}, &backend.Request{
			URL: &url.URL{Scheme: "git", Host: "localhost", Path: "/r.git"}, Service: transport.ReceivePackService, StatelessRPC: true})
		return buf.Bytes(), errS(err)
	case "file":
		t := file.NewTransport(file.Options{Loader: transport.NewFilesystemLoader(osfs.New(r.Root), false)})
		conn, err := t.Connect(ctx, &transport.Request{URL: &url.URL{Scheme: "file", Path: "/r.git"}, Command: transport.ReceivePackService})
		if err != nil {
			return nil, "connect: " + err.Error()
		}
		rd := make(chan error, 1)
		go func() {
			_, err := io.Copy(&buf, conn.Reader())
			rd <- err
		}()
		_, werr := conn.Writer().Write(req)
		conn.Writer().Close()
		var rerr error
		select {
		case rerr = <-rd:
		case <-ctx.Done():
			rerr = ctx.Err()
		}
		cerr := conn.Close()
		_ = cerr
		if werr != nil {
			return buf.Bytes(), "write: " + werr.Error()
		}
		return buf.Bytes(), errS(rerr)
	}
	return nil, "unknown entry " + r.Entry
}

// ---- parent: generation, observation, judgement ----

func runConcurrent(c *vf.Ctx, e *env) {
	n := c.N(36, 180)
	per := 150
	for start := 0; start < n; start += per {
		end := min(start+per, n)
		runConcurrentBatch(c, e, start, end)
	}
	c.Floor("concurrent rounds judged", c.Counter("concurrent_rounds"), c.N(30, 150))
	c.Floor("concurrent pushes answered", c.Counter("concurrent_pushes"), c.N(90, 450))
}

func runConcurrentBatch(c *vf.Ctx, e *env, from, to int) {
	var j job
	for i := from; i < to; i++ {
		r := c.Rand("conc", i)
		rd := round{Idx: i, Init: map[string]string{}}
		rd.Kind = []string{"update", "update", "create", "delete-vs-update", "mixed"}[r.Intn(5)]
		rd.Entry = []string{"direct", "backend", "file"}[(i+i/3)%3]
		rd.Root = filepath.Join(c.Scratch, fmt.Sprintf("conc-%d", i))
		k := 2 + r.Intn(5)
		base := gen.Pick(r, e.pool)
		if rd.Kind != "create" {
			rd.Init[sharedRef] = base
		}
		os.MkdirAll(rd.Root, 0o755)
		if _, err := e.prepDirAt(filepath.Join(rd.Root, "r.git"), rd.Init, r.Intn(3) == 0); err != nil {
			c.Broken("concurrent prep: %v", err)
			return
		}
		cli := memory.NewStorage()
		for p := 0; p < k; p++ {
			nw := e.clientCommit(cli, base, fmt.Sprintf("c39 conc seed %d round %d push %d", c.Seed, i, p))
			old := base
			if rd.Kind == "create" {
				old = zero40
			}
			cmds := []Cmd{{Old: old, New: nw, Name: sharedRef}}
			if rd.Kind == "delete-vs-update" && p == 0 {
				cmds = []Cmd{{Old: base, New: zero40, Name: sharedRef}}
			}
			if rd.Kind == "mixed" {
				cmds = append(cmds, Cmd{Old: zero40, New: nw, Name: fmt.Sprintf("refs/heads/own-%d", p)})
			}
			var pack []byte
			if cmds[0].New != zero40 {
				var err error
				pack, err = encodePack(cli, []string{nw})
				c.Must(err, "encode pack")
			}
			caps := []string{"report-status", "delete-refs", "agent=verif/1"}
			if r.Intn(3) == 0 {
				caps = append(caps, "side-band-64k")
			}
			rd.Pushes = append(rd.Pushes, push{Cmds: cmds, Req: buildRequest(cmds, caps, pack)})
		}
		j.Rounds = append(j.Rounds, rd)
	}
	const cw = 3
	parts := make([]job, cw)
	for i, rd := range j.Rounds {
		parts[i%cw].Rounds = append(parts[i%cw].Rounds, rd)
	}
	outs := make([]*job, cw)
	vf.Parallel(cw, cw, func(w int) {
		if len(parts[w].Rounds) > 0 {
			outs[w] = spawnChild(c, &parts[w], fmt.Sprintf("conc-%d-%d", from, w))
		}
	})
	jr := &job{}
	for w := range outs {
		if outs[w] == nil {
			if len(parts[w].Rounds) > 0 {
				return
			}
			continue
		}
		jr.Rounds = append(jr.Rounds, outs[w].Rounds...)
		for i, ms := range outs[w].RoundMs {
			c.Count("info_round_ms_"+outs[w].Rounds[i].Entry, int(ms))
		}
		jr.Results = append(jr.Results, outs[w].Results...)
	}
	vf.Parallel(len(jr.Rounds), 8, func(i int) {
		judgeRound(c, e, &jr.Rounds[i], jr.Results[i])
		os.RemoveAll(jr.Rounds[i].Root)
	})
}

// spawnChild runs the job in a child process of this binary (race detector
// on, reports to a log file) and returns the job with results, or nil after
// recording why not.
func spawnChild(c *vf.Ctx, j *job, label string) *job {
	jobPath := filepath.Join(c.Scratch, "job-"+label+".json")
	b, _ := json.Marshal(j)
	c.Must(os.WriteFile(jobPath, b, 0o644), "write job")
	raceBase := filepath.Join(c.Scratch, "race-"+label)
	ctx, cancel := context.WithTimeout(context.Background(), 25*time.Minute)
	defer cancel()
	cmd := exec.CommandContext(ctx, os.Args[0])
	cmd.Env = append(os.Environ(), "C39_CHILD="+jobPath, "GORACE=halt_on_error=0 exitcode=0 log_path="+raceBase)
	var cout bytes.Buffer
	cmd.Stdout, cmd.Stderr = &cout, &cout
	err := cmd.Run()
	if ctx.Err() != nil {
		c.Inconclusive("child %s did not finish within 25 min", label)
		return nil
	}
	if err != nil {
		txt := cout.String()
		if strings.Contains(txt, "fatal error:") {
			line := txt[strings.Index(txt, "fatal error:"):]
			if k := strings.IndexByte(line, '\n'); k > 0 {
				line = line[:k]
			}
			c.Fail("fatal:"+vf.ShapeHash(line), "go-git server code died ("+label+"): "+line+"\n"+tail(txt, 3000), map[string]any{"job": label})
			return nil
		}
		c.Broken("child %s failed: %v\n%s", label, err, tail(txt, 2000))
		return nil
	}
	logs, _ := filepath.Glob(raceBase + ".*")
	for _, lf := range logs {
		lb, _ := os.ReadFile(lf)
		for _, rep := range strings.Split(string(lb), "==================") {
			if !strings.Contains(rep, "DATA RACE") {
				continue
			}
			c.Count("race_reports", 1)
			c.Fail("race:"+firstGoGitFrame(rep), "data race in the go-git server code ("+label+"; one Storage per connection)\n"+tail(rep, 3500), map[string]any{"job": label})
		}
	}
	ob, err := os.ReadFile(jobPath + ".out")
	c.Must(err, "child results")
	os.Remove(jobPath)
	os.Remove(jobPath + ".out")
	var jr job
	c.Must(json.Unmarshal(ob, &jr), "parse child results")
	return &jr
}

// runSeqChildren distributes the pending cases over worker children.
func (e *env) runSeqChildren(ps []*pending, start int) bool {
	const workers = 6
	jobs := make([]job, workers)
	owner := make([][]int, workers)
	for i, p := range ps {
		if p.dir == "" {
			continue
		}
		w := i % workers
		jobs[w].Template = e.template
		jobs[w].Seq = append(jobs[w].Seq, seqItem{Idx: p.cs.Idx, Init: p.cs.Init, Stateless: p.cs.Stateless, Req: p.req, Dir: p.dir, IDs: idsOfInterest(p.cs, nil)})
		owner[w] = append(owner[w], i)
	}
	ok := true
	var mu sync.Mutex
	vf.Parallel(workers, workers, func(w int) {
		if len(jobs[w].Seq) == 0 {
			return
		}
		jr := spawnChild(e.c, &jobs[w], fmt.Sprintf("seq-%d-%d", start, w))
		if jr == nil || len(jr.SeqRes) != len(owner[w]) {
			mu.Lock()
			ok = false
			mu.Unlock()
			return
		}
		for k, i := range owner[w] {
			p, r := ps[i], jr.SeqRes[k]
			om := &Outcome{Server: "gogit-mem", Err: r.MemErr, Panic: r.MemPanic, Final: r.MemFinal, Exists: r.MemExists, Hint: maskFromLog(p.cs.Cmds, r.MemLog), Log: nonNil(r.MemLog)}
			if om.Final == nil {
				om.Final = map[string]string{}
			}
			om.Report, _ = parseOutput(r.MemOut, !p.cs.Stateless, p.cs.sideband())
			of := &Outcome{Server: "gogit-fs", Err: r.FsErr, Panic: r.FsPanic, Hint: maskFromLog(p.cs.Cmds, r.FsLog), Log: nonNil(r.FsLog)}
			of.Report, _ = parseOutput(r.FsOut, !p.cs.Stateless, p.cs.sideband())
			p.outs = []*Outcome{om, of}
		}
	})
	return ok
}

func tail(s string, n int) string {
	if len(s) > n {
		return "…" + s[len(s)-n:]
	}
	return s
}

func firstGoGitFrame(rep string) string {
	for _, ln := range strings.Split(rep, "\n") {
		ln = strings.TrimSpace(ln)
		if strings.HasPrefix(ln, "github.com/go-git/go-git/v6/") {
			ln = strings.TrimPrefix(ln, "github.com/go-git/go-git/v6/")
			if k := strings.IndexByte(ln, '('); k > 0 {
				// keep "pkg.(*T).Method" intact: cut only the argument list at the end
				if j := strings.LastIndexByte(ln, '('); j > 0 {
					ln = ln[:j]
				}
			}
			return ln
		}
	}
	return "unknown"
}

func (e *env) prepDirAt(dir string, init map[string]string, packed bool) (string, error) {
	rel, err := filepath.Rel(e.c.Scratch, dir)
	if err != nil {
		return "", err
	}
	return e.prepDir(rel, init, packed)
}

func judgeRound(c *vf.Ctx, e *env, r *round, res []pushResult) {
	dir := filepath.Join(r.Root, "r.git")
	final, _ := readRefsRaw(dir)
	var ids []string
	for _, v := range final {
		ids = append(ids, v)
	}
	exists, err := existsOnDisk(dir, ids)
	if err != nil {
		c.Broken("concurrent observe: %v", err)
		return
	}
	replay := map[string]any{"round": r.Idx, "kind": r.Kind, "entry": r.Entry, "k": len(r.Pushes), "init": r.Init, "final": final}
	var okIdx []int
	var desc []string
	for k, pr := range res {
		if pr.Timeout {
			c.Inconclusive("concurrent round %d push %d: no answer within 150 s", r.Idx, k)
			return
		}
		if pr.Panic != "" {
			c.Fail("concurrent:panic", "push panicked: "+pr.Panic, replay)
			return
		}
		sb := bytes.Contains(r.Pushes[k].Req[:min(len(r.Pushes[k].Req), 400)], []byte("side-band-64k"))
		rep, _ := parseOutput(pr.Out, r.Entry == "file", sb)
		c.Count("concurrent_pushes", 1)
		st := "no-report"
		if rep.Present {
			st = "unpack=" + rep.Unpack
			for _, l := range rep.Lines {
				if l.Name == sharedRef {
					if l.OK && rep.Unpack == "ok" {
						okIdx = append(okIdx, k)
						st += " ok"
					} else {
						st += " ng(" + l.Msg + ")"
					}
				}
			}
		}
		desc = append(desc, fmt.Sprintf("push%d %s->%s: %s err=%q", k, r.Pushes[k].Cmds[0].Old[:7], r.Pushes[k].Cmds[0].New[:7], st, pr.Err))
	}
	c.Count("concurrent_rounds", 1)
	c.Eval(fmt.Sprintf("concurrent|%s|%s|k=%d|ok=%d", r.Kind, r.Entry, len(r.Pushes), len(okIdx)), true)
	c.Seen("concurrent_cells", r.Kind+"/"+r.Entry)
	replay["pushes"] = desc
	what := fmt.Sprintf("round %d kind=%s entry=%s init=%v final=%v\n%s", r.Idx, r.Kind, r.Entry, r.Init, final, strings.Join(desc, "\n"))
	for n, v := range final {
		if !exists[v] {
			c.Fail("concurrent:final-missing-object", fmt.Sprintf("ref %s points to %s which is not in the repository\n%s", n, v, what), replay)
		}
	}
	fin, has := final[sharedRef]
	switch {
	case len(okIdx) > 1:
		c.Fail("concurrent:multiple-ok:"+r.Kind, fmt.Sprintf("%d pushes with the same old value were all reported ok (lost update)\n%s", len(okIdx), what), replay)
	case len(okIdx) == 1:
		w := r.Pushes[okIdx[0]].Cmds[0]
		if (w.New == zero40 && has) || (w.New != zero40 && fin != w.New) {
			c.Fail("concurrent:final-not-winner:"+r.Kind, "the only push reported ok is not the final value\n"+what, replay)
		}
	default:
		if fin != r.Init[sharedRef] {
			c.Fail("concurrent:applied-without-ok:"+r.Kind, "no push was reported ok but the ref changed\n"+what, replay)
		}
	}
	if fr := e.g.Run(dir, "fsck", "--connectivity-only"); !fr.OK() && len(okIdx) <= 1 {
		// with a lost update already reported, fsck adds nothing; otherwise the store must stay sound
		c.Fail("concurrent:fsck", "git fsck --connectivity-only fails after concurrent pushes: "+fr.String()+"\n"+what, replay)
	}
}

func nonNil(l []refOp) []refOp {
	if l == nil {
		return []refOp{}
	}
	return l
}
