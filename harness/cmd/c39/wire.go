package main

import (
	"bytes"
	"fmt"
	"io"
	"strings"

	"github.com/go-git/go-git/v6/plumbing"
	"github.com/go-git/go-git/v6/plumbing/format/packfile"
	"github.com/go-git/go-git/v6/plumbing/storer"
)

// Cmd is one receive-pack command as written on the wire (hex ids).
type Cmd struct {
	Old  string `json:"old"`
	New  string `json:"new"`
	Name string `json:"name"`
}

const zero40 = "0000000000000000000000000000000000000000"

func (c Cmd) Action() string {
	switch {
	case c.Old == zero40 && c.New == zero40:
		return "invalid"
	case c.Old == zero40:
		return "create"
	case c.New == zero40:
		return "delete"
	}
	return "update"
}

func pkt(w *bytes.Buffer, payload string) {
	fmt.Fprintf(w, "%04x%s", len(payload)+4, payload)
}

// buildRequest writes the command list (first line carries the capabilities)
// followed by a flush and the raw pack bytes (possibly none).
func buildRequest(cmds []Cmd, caps []string, pack []byte) []byte {
	var b bytes.Buffer
	for i, c := range cmds {
		line := c.Old + " " + c.New + " " + c.Name
		if i == 0 {
			line += "\x00 " + strings.Join(caps, " ")
		}
		pkt(&b, line)
	}
	b.WriteString("0000")
	b.Write(pack)
	return b.Bytes()
}

// encodePack builds a pack with exactly the given objects taken from st.
func encodePack(st storer.EncodedObjectStorer, ids []string) ([]byte, error) {
	var b bytes.Buffer
	hs := make([]plumbing.Hash, len(ids))
	for i, id := range ids {
		hs[i] = plumbing.NewHash(id)
	}
	e := packfile.NewEncoder(&b, st, false)
	if _, err := e.Encode(hs, 0); err != nil {
		return nil, err
	}
	return b.Bytes(), nil
}

// StatusLine is one line of a report-status.
type StatusLine struct {
	Name string `json:"name"`
	OK   bool   `json:"ok"`
	Msg  string `json:"msg,omitempty"`
}

// Report is a parsed report-status message.
type Report struct {
	Present   bool         `json:"present"`
	Unpack    string       `json:"unpack"`
	Lines     []StatusLine `json:"lines"`
	Malformed string       `json:"malformed,omitempty"`
}

// readPkts splits a byte stream into pkt-lines; flush = nil payload with ok.
type pktItem struct {
	flush   bool
	payload []byte
}

func readPkts(b []byte) (items []pktItem, rest []byte, err error) {
	for len(b) > 0 {
		if len(b) < 4 {
			return items, b, fmt.Errorf("short pkt header %q", b)
		}
		var n int
		if _, e := fmt.Sscanf(string(b[:4]), "%04x", &n); e != nil {
			return items, b, fmt.Errorf("bad pkt length %q", b[:4])
		}
		if n == 0 {
			items = append(items, pktItem{flush: true})
			b = b[4:]
			continue
		}
		if n < 4 || n > len(b) {
			return items, b, fmt.Errorf("bad pkt length %d (have %d)", n, len(b))
		}
		items = append(items, pktItem{payload: b[4:n]})
		b = b[n:]
	}
	return items, nil, nil
}

// parseOutput parses what the server wrote: optionally an advertisement
// (everything up to and including the first flush), then the report-status,
// either plain or wrapped in sideband channel 1.
func parseOutput(out []byte, advertised, sideband bool) (rep Report, adv []string) {
	items, _, err := readPkts(out)
	if err != nil {
		rep.Malformed = err.Error()
	}
	i := 0
	if advertised {
		for i < len(items) && !items[i].flush {
			adv = append(adv, string(items[i].payload))
			i++
		}
		if i < len(items) {
			i++ // flush
		}
	}
	items = items[i:]
	if len(items) == 0 {
		return rep, adv
	}
	if sideband {
		var inner bytes.Buffer
		for _, it := range items {
			if it.flush {
				break
			}
			if len(it.payload) > 0 && it.payload[0] == 1 {
				inner.Write(it.payload[1:])
			}
		}
		var e2 error
		items, _, e2 = readPkts(inner.Bytes())
		if e2 != nil {
			rep.Malformed = "sideband inner: " + e2.Error()
		}
	}
	if len(items) == 0 {
		return rep, adv
	}
	rep.Present = true
	first := strings.TrimSuffix(string(items[0].payload), "\n")
	if !strings.HasPrefix(first, "unpack ") {
		rep.Malformed = fmt.Sprintf("first report line %q", first)
		return rep, adv
	}
	rep.Unpack = strings.TrimPrefix(first, "unpack ")
	flushed := false
	for _, it := range items[1:] {
		if it.flush {
			flushed = true
			break
		}
		ln := strings.TrimSuffix(string(it.payload), "\n")
		f := strings.SplitN(ln, " ", 3)
		switch {
		case len(f) >= 2 && f[0] == "ok":
			rep.Lines = append(rep.Lines, StatusLine{Name: strings.Join(f[1:], " "), OK: true})
		case len(f) >= 2 && f[0] == "ng":
			msg := ""
			if len(f) == 3 {
				msg = f[2]
			}
			rep.Lines = append(rep.Lines, StatusLine{Name: f[1], OK: false, Msg: msg})
		default:
			rep.Malformed = fmt.Sprintf("report line %q", ln)
		}
	}
	if !flushed && rep.Malformed == "" {
		rep.Malformed = "report-status without final flush"
	}
	return rep, adv
}

type nopWC struct{ io.Writer }

func (nopWC) Close() error { return nil }
