package main

import (
	"fmt"
	"math/bits"
	"sort"
	"strings"
)

// Case is one hand-built receive-pack request against a known initial state.
type Case struct {
	Idx       int               `json:"idx"`
	Init      map[string]string `json:"init"` // ref -> id before the request
	Packed    bool              `json:"packed_refs"`
	Cmds      []Cmd             `json:"cmds"`
	Caps      []string          `json:"caps"`
	PackKind  string            `json:"pack_kind"` // none | empty | objs | corrupt
	PackIDs   []string          `json:"pack_ids"`
	Stateless bool              `json:"stateless"`
	Desc      []string          `json:"desc"` // per-command generator classes
}

func (c *Case) wantsReport() bool {
	for _, x := range c.Caps {
		if x == "report-status" || x == "report-status-v2" {
			return true
		}
	}
	return false
}

func (c *Case) sideband() bool {
	for _, x := range c.Caps {
		if x == "side-band-64k" || x == "side-band" {
			return true
		}
	}
	return false
}

// Outcome is what one server did with a case.
type Outcome struct {
	Server string            `json:"server"` // gogit-mem | gogit-fs | git
	Report Report            `json:"report"`
	Final  map[string]string `json:"final"`
	Exists map[string]bool   `json:"exists"` // for every command's new id and every final value: present in the repository afterwards
	Err    string            `json:"err,omitempty"`
	Panic  string            `json:"panic,omitempty"`
	Hint   int               `json:"applied_mask_from_call_log"` // -1: none; attribution only
	Log    []refOp           `json:"ref_calls,omitempty"`
}

// Viol is one clause of the property that an outcome cannot be explained without breaking.
type Viol struct {
	Clause string // stale-old | missing-object | report | unpack | final
	Detail string
	Cmd    int
}

func (v Viol) Key() string { return v.Clause + ":" + v.Detail }

func sameState(a, b map[string]string) bool {
	if len(a) != len(b) {
		return false
	}
	for k, v := range a {
		if b[k] != v {
			return false
		}
	}
	return true
}

// explain searches the subsets of commands ("applied" sets) for the one that
// reproduces the observed final state with the fewest broken clauses under
// per-command compare-and-swap semantics. Cost 0 means the outcome is
// consistent with the property. ok=false means no subset reproduces the final
// state at all.
func explain(cs *Case, o *Outcome) (best []Viol, ok bool) {
	m := len(cs.Cmds)
	bestCost, bestPop := -1, -1
	dupName := map[string]int{}
	for _, c := range cs.Cmds {
		dupName[c.Name]++
	}
	var hinted []Viol
	hintOK := false
	for mask := 0; mask < 1<<m; mask++ {
		state := map[string]string{}
		for k, v := range cs.Init {
			state[k] = v
		}
		var vs []Viol
		absentAt := make([]bool, m)
		valid := true
		for i, c := range cs.Cmds {
			cur, exists := state[c.Name]
			absentAt[i] = !exists
			if mask&(1<<i) == 0 {
				continue
			}
			act := c.Action()
			switch act {
			case "create":
				if exists {
					vs = append(vs, Viol{"stale-old", "create:exists", i})
				}
			case "update", "delete":
				if !exists {
					if act == "delete" {
						valid = false // deleting an absent ref applies nothing; covered by the mask without i
					}
					vs = append(vs, Viol{"stale-old", act + ":absent", i})
				} else if cur != c.Old && !(act == "delete" && !o.Exists[c.Old]) {
					// git itself skips the comparison for a delete whose old id names no object
					// in the repository (builtin/receive-pack.c: old_oid = NULL); not judged.
					vs = append(vs, Viol{"stale-old", act, i})
				}
			default:
				vs = append(vs, Viol{"final", "invalid-command-applied", i})
			}
			if act == "delete" {
				delete(state, c.Name)
			} else {
				if !o.Exists[c.New] {
					vs = append(vs, Viol{"missing-object", act, i})
				}
				state[c.Name] = c.New
			}
		}
		if !valid || !sameState(state, o.Final) {
			continue
		}
		vs = append(vs, reportViols(cs, o, mask, absentAt, dupName)...)
		if o.Server != "git" && o.Log != nil && logConsistent(cs.Cmds, mask, o.Log) && (!hintOK || len(vs) < len(hinted)) {
			hinted, hintOK = vs, true
		}
		pop := bits.OnesCount(uint(mask))
		if bestCost < 0 || len(vs) < bestCost || (len(vs) == bestCost && pop > bestPop) {
			bestCost, bestPop = len(vs), pop
			best = vs
		}
	}
	if bestCost < 0 {
		return nil, false
	}
	// The verdict is the minimum over all explanations (observable behaviour only). When it is a
	// violation and the server's own call log names an applied set that reproduces the final
	// state, the clauses are attributed according to that set.
	if bestCost > 0 && hintOK && len(hinted) > 0 {
		return hinted, true
	}
	return best, true
}

func reportViols(cs *Case, o *Outcome, mask int, absentAt []bool, dupName map[string]int) []Viol {
	var vs []Viol
	applied := func(i int) bool { return mask&(1<<i) != 0 }
	if !cs.wantsReport() {
		if o.Report.Present {
			vs = append(vs, Viol{"report", "unrequested", -1})
		}
		return vs
	}
	if !o.Report.Present {
		// a refusal without report (protocol error) is acceptable only if nothing was applied
		if mask != 0 {
			vs = append(vs, Viol{"report", "applied-but-no-report", -1})
		}
		return vs
	}
	if o.Report.Malformed != "" {
		vs = append(vs, Viol{"report", "malformed", -1})
		return vs
	}
	if o.Report.Unpack != "ok" && len(o.Report.Lines) == 0 {
		if mask != 0 {
			vs = append(vs, Viol{"unpack", "applied-despite-unpack-error", -1})
		}
		return vs
	}
	// An "unpack <error>" line accompanied by per-reference lines is judged by those lines only:
	// go-git puts the first command error into the unpack line although unpacking succeeded; the
	// statement speaks about per-reference outcomes (counted as an observation by the caller).
	byName := map[string][]int{}
	for i, c := range cs.Cmds {
		byName[c.Name] = append(byName[c.Name], i)
	}
	linesBy := map[string][]StatusLine{}
	for _, l := range o.Report.Lines {
		linesBy[l.Name] = append(linesBy[l.Name], l)
	}
	names := make([]string, 0, len(byName))
	for n := range byName {
		names = append(names, n)
	}
	sort.Strings(names)
	for n := range linesBy {
		if _, ok := byName[n]; !ok {
			vs = append(vs, Viol{"report", "line-for-unrequested-ref", -1})
		}
	}
	for _, n := range names {
		idx := byName[n]
		ls := linesBy[n]
		dup := ""
		if len(idx) > 1 {
			dup = ":dup"
		}
		switch {
		case len(ls) == 0:
			vs = append(vs, Viol{"report", "missing-line" + dup, idx[0]})
		case len(ls) > len(idx):
			vs = append(vs, Viol{"report", "extra-line" + dup, idx[0]})
		case len(ls) == len(idx):
			for k, i := range idx {
				act := cs.Cmds[i].Action()
				if applied(i) && !ls[k].OK {
					vs = append(vs, Viol{"report", "applied-but-ng:" + act + dup, i})
				}
				if !applied(i) && ls[k].OK && !(act == "delete" && absentAt[i]) {
					vs = append(vs, Viol{"report", "ok-but-not-applied:" + act + dup, i})
				}
			}
		default: // fewer lines than commands for this name (collapsed report)
			anyApplied, anyNoop, first := false, false, idx[0]
			for _, i := range idx {
				if applied(i) {
					anyApplied = true
					first = i
				}
				if cs.Cmds[i].Action() == "delete" && absentAt[i] {
					anyNoop = true
				}
			}
			anyOK := false
			for _, l := range ls {
				if l.OK {
					anyOK = true
				}
			}
			if anyApplied && !anyOK {
				vs = append(vs, Viol{"report", "applied-but-ng:" + cs.Cmds[first].Action() + dup, first})
			}
			if anyOK && !anyApplied && !anyNoop {
				vs = append(vs, Viol{"report", "ok-but-not-applied:" + cs.Cmds[first].Action() + dup, first})
			}
		}
	}
	return vs
}

func describe(cs *Case, o *Outcome) string {
	var b strings.Builder
	fmt.Fprintf(&b, "server=%s init=%v packed=%v pack=%s%v caps=%v\n", o.Server, cs.Init, cs.Packed, cs.PackKind, short(cs.PackIDs), cs.Caps)
	for i, c := range cs.Cmds {
		fmt.Fprintf(&b, " cmd%d %s %s..->%s.. %s\n", i, c.Action(), c.Old[:7], c.New[:7], c.Name)
	}
	fmt.Fprintf(&b, " report present=%v unpack=%q lines=%v malformed=%q err=%q\n final=%v exists=%v", o.Report.Present, o.Report.Unpack, o.Report.Lines, o.Report.Malformed, o.Err, o.Final, o.Exists)
	return b.String()
}

func short(ids []string) []string {
	out := make([]string, len(ids))
	for i, s := range ids {
		if len(s) > 7 {
			s = s[:7]
		}
		out[i] = s
	}
	return out
}

// permittedButRefused counts commands a strict compare-and-swap server would
// have applied (old equals the stored value at that point of the sequence, new
// object present) but that were answered ng. Observation only: the statement is
// a safety property; the counter shows whether a repair over-refuses.
func permittedButRefused(cs *Case, o *Outcome) (n int, first string) {
	if !o.Report.Present || o.Report.Unpack != "ok" && len(o.Report.Lines) == 0 || o.Report.Malformed != "" {
		return 0, ""
	}
	byName := map[string][]int{}
	for i, c := range cs.Cmds {
		byName[c.Name] = append(byName[c.Name], i)
	}
	linesBy := map[string][]StatusLine{}
	for _, l := range o.Report.Lines {
		linesBy[l.Name] = append(linesBy[l.Name], l)
	}
	state := map[string]string{}
	for k, v := range cs.Init {
		state[k] = v
	}
	pos := map[string]int{}
	for i, c := range cs.Cmds {
		cur, exists := state[c.Name]
		act := c.Action()
		ok := false
		switch act {
		case "create":
			ok = !exists && o.Exists[c.New]
		case "update":
			ok = exists && cur == c.Old && o.Exists[c.New]
		case "delete":
			ok = exists && cur == c.Old
		}
		k := pos[c.Name]
		pos[c.Name]++
		if len(linesBy[c.Name]) != len(byName[c.Name]) {
			// collapsed report: cannot tell which command a line belongs to
			if ok {
				if act == "delete" {
					delete(state, c.Name)
				} else {
					state[c.Name] = c.New
				}
			}
			continue
		}
		line := linesBy[c.Name][k]
		if ok && !line.OK {
			n++
			if first == "" {
				first = fmt.Sprintf("cmd%d %s %s: ng %s", i, act, c.Name, line.Msg)
			}
		}
		if line.OK { // follow what the server says it did
			if act == "delete" {
				delete(state, c.Name)
			} else {
				state[c.Name] = c.New
			}
		}
	}
	return n, first
}
