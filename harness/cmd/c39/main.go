// C39: go-git's receive-pack server applies only consistent ref updates.
//
// Monitor: hand-built receive-pack requests (pkt-lines written by the harness,
// so stale old values, missing new objects, duplicate names, create-of-existing
// and delete-of-absent occur) are fed to transport.ReceivePack over memory and
// filesystem storage. Oracle: sequential compare-and-swap model — the observed
// final refs + report-status must be explainable by some subset of commands
// applied in order where every applied command's old value matched, its new
// object exists and the report says exactly what was applied. Every violation
// and a deterministic sample of passes are replayed against the real
// `git receive-pack` on a twin repository (same bytes): git's outcome must
// satisfy the same oracle (else MODEL-MISMATCH) and must refuse what go-git
// wrongly applied. Concurrent part (child process, race detector on): K
// goroutines push different new values for one ref with the same old value.
package main

import (
	"bytes"
	"context"
	"fmt"
	"math/rand"
	"os"
	"path/filepath"
	"sort"
	"strings"
	"sync"
	"time"

	"github.com/go-git/go-billy/v6/osfs"
	"github.com/go-git/go-git/v6/plumbing"
	"github.com/go-git/go-git/v6/plumbing/cache"
	"github.com/go-git/go-git/v6/plumbing/object"
	"github.com/go-git/go-git/v6/plumbing/storer"
	"github.com/go-git/go-git/v6/plumbing/transport"
	"github.com/go-git/go-git/v6/storage"
	"github.com/go-git/go-git/v6/storage/filesystem"
	"github.com/go-git/go-git/v6/storage/memory"

	"verif/internal/gen"
	"verif/internal/gitx"
	"verif/internal/vf"
)

func main() {
	if job := os.Getenv("C39_CHILD"); job != "" {
		childMain(job)
		return
	}
	vf.Main("C39", "exploration",
		"requests = 1-4 commands over 5 ref names x {create,update,delete} x old {current, other pool commit, client commit, random, zero-on-existing, nonzero-on-absent} x new {pool commit, commit in pack, commit NOT in pack, random id} x pack {objs, empty, none, corrupt} x caps {report-status, side-band-64k, none} x {stateless, stateful} x {memory, filesystem (loose/packed refs)}; shape = sorted per-command classes + pack kind + report/sideband + storage; non-trivial = at least one command with a stale old value, a missing new object, a duplicate name or a damaged pack; concurrent rounds = K goroutines, same ref, same old value, distinct new values, through ReceivePack / backend.Serve / file transport on one directory",
		run)
}

type raw struct {
	typ  plumbing.ObjectType
	data []byte
}

type env struct {
	c        *vf.Ctx
	g        *gitx.Git
	template string   // bare repository with the pool objects, no refs
	pool     []string // pool commit ids
	trees    map[string]string
	objs     []raw // every object of the template (for memory storages)
	names    []string
}

func setup(c *vf.Ctx) *env {
	e := &env{c: c, g: gitx.New(c.Scratch), trees: map[string]string{}}
	e.names = []string{"refs/heads/a", "refs/heads/b", "refs/heads/d/e", "refs/tags/t", "refs/notes/n"}
	e.template = filepath.Join(c.Scratch, "template.git")
	c.Must(e.g.Init(e.template, true, "sha1"), "init template")
	h := gen.RandomHistory(c.Rand("pool"), gen.HistOpts{N: 6, MergeProb: 0.3, Files: 3, Path: gen.PathOpts{Depth: 2}})
	ids, err := e.g.Import(e.template, h)
	c.Must(err, "import pool")
	e.pool = ids
	// drop the branch refs fast-import created: cases install their own
	out, err := e.g.MustOut(e.template, "for-each-ref", "--format=delete %(refname)")
	c.Must(err, "for-each-ref")
	if out != "" {
		if r := e.g.RunIn(e.template, []byte(out+"\n"), "update-ref", "--stdin"); !r.OK() {
			c.Must(fmt.Errorf("%s", r), "clear refs")
		}
	}
	if r := e.g.Run(e.template, "repack", "-adq"); !r.OK() {
		c.Must(fmt.Errorf("%s", r), "repack template")
	}
	os.RemoveAll(filepath.Join(e.template, "hooks"))
	os.RemoveAll(filepath.Join(e.template, "objects", "info", "commit-graph"))
	var err2 error
	e.objs, err2 = loadObjs(e.template)
	c.Must(err2, "read template objects")
	st := filesystem.NewStorage(osfs.New(e.template), cache.NewObjectLRUDefault())
	for _, id := range e.pool {
		cm, err := object.GetCommit(st, plumbing.NewHash(id))
		c.Must(err, "pool commit")
		e.trees[id] = cm.TreeHash.String()
	}
	st.Close()
	return e
}

// loadObjs reads every object of the repository at dir.
func loadObjs(dir string) ([]raw, error) {
	st := filesystem.NewStorage(osfs.New(dir), cache.NewObjectLRUDefault())
	defer st.Close()
	it, err := st.IterEncodedObjects(plumbing.AnyObject)
	if err != nil {
		return nil, err
	}
	var objs []raw
	err = it.ForEach(func(o plumbing.EncodedObject) error {
		rd, err := o.Reader()
		if err != nil {
			return err
		}
		var b bytes.Buffer
		if _, err := b.ReadFrom(rd); err != nil {
			return err
		}
		rd.Close()
		objs = append(objs, raw{o.Type(), b.Bytes()})
		return nil
	})
	return objs, err
}

func putRaw(st storer.EncodedObjectStorer, t plumbing.ObjectType, data []byte) (plumbing.Hash, error) {
	o := st.NewEncodedObject()
	o.SetType(t)
	o.SetSize(int64(len(data)))
	w, err := o.Writer()
	if err != nil {
		return plumbing.ZeroHash, err
	}
	if _, err := w.Write(data); err != nil {
		return plumbing.ZeroHash, err
	}
	if err := w.Close(); err != nil {
		return plumbing.ZeroHash, err
	}
	return st.SetEncodedObject(o)
}

// newMem builds a memory storage holding the pool objects and the case's refs.
func newMem(objs []raw, init map[string]string) (*memory.Storage, error) {
	st := memory.NewStorage()
	for _, o := range objs {
		if _, err := putRaw(st, o.typ, o.data); err != nil {
			return nil, err
		}
	}
	for n, id := range init {
		if err := st.SetReference(plumbing.NewHashReference(plumbing.ReferenceName(n), plumbing.NewHash(id))); err != nil {
			return nil, err
		}
	}
	return st, nil
}

// prepDir creates a bare repository directory holding the case's initial state.
func (e *env) prepDir(name string, init map[string]string, packed bool) (string, error) {
	dir := filepath.Join(e.c.Scratch, name)
	if err := copyTree(e.template, dir); err != nil {
		return "", err
	}
	return dir, writeRefs(dir, init, packed)
}

func sortedKeys(m map[string]string) []string {
	ks := make([]string, 0, len(m))
	for k := range m {
		ks = append(ks, k)
	}
	sort.Strings(ks)
	return ks
}

// existsGit asks git which of ids are present in the repository.
func (e *env) existsGit(dir string, ids []string) (map[string]bool, error) {
	res := map[string]bool{}
	if len(ids) == 0 {
		return res, nil
	}
	r := e.g.RunIn(dir, []byte(strings.Join(ids, "\n")+"\n"), "cat-file", "--batch-check")
	if !r.OK() {
		return nil, fmt.Errorf("cat-file: %s", r)
	}
	lines := strings.Split(strings.TrimSpace(string(r.Out)), "\n")
	if len(lines) != len(ids) {
		return nil, fmt.Errorf("cat-file: %d answers for %d ids", len(lines), len(ids))
	}
	for i, ln := range lines {
		res[ids[i]] = !strings.HasSuffix(ln, " missing")
	}
	return res, nil
}

func idsOfInterest(cs *Case, final map[string]string) []string {
	seen := map[string]bool{}
	var ids []string
	add := func(s string) {
		if s != zero40 && !seen[s] {
			seen[s] = true
			ids = append(ids, s)
		}
	}
	for _, c := range cs.Cmds {
		add(c.New)
		add(c.Old)
	}
	for _, n := range sortedKeys(final) {
		add(final[n])
	}
	return ids
}

// clientCommit makes a fresh commit object in the client store.
func (e *env) clientCommit(cli *memory.Storage, parent, tag string) string {
	body := fmt.Sprintf("tree %s\nparent %s\nauthor A <a@example.com> 1700000000 +0000\ncommitter A <a@example.com> 1700000000 +0000\n\n%s\n", e.trees[parent], parent, tag)
	h, err := putRaw(cli, plumbing.CommitObject, []byte(body))
	e.c.Must(err, "client commit")
	return h.String()
}

func randID(r *rand.Rand) string {
	b := make([]byte, 20)
	r.Read(b)
	b[0] |= 1
	return fmt.Sprintf("%x", b)
}

// genCase generates a case and the request bytes.
func (e *env) genCase(idx int) (*Case, []byte) {
	r := e.c.Rand("case", idx)
	cs := &Case{Idx: idx, Init: map[string]string{}}
	for _, n := range e.names {
		if r.Intn(5) < 3 {
			cs.Init[n] = gen.Pick(r, e.pool)
		}
	}
	cs.Packed = r.Intn(3) == 0
	cs.Stateless = r.Intn(2) == 0
	cli := memory.NewStorage()
	var fresh []string
	for j := 0; j < 3; j++ {
		fresh = append(fresh, e.clientCommit(cli, gen.Pick(r, e.pool), fmt.Sprintf("c39 seed %d case %d obj %d", e.c.Seed, idx, j)))
	}
	inPack := map[string]bool{}
	ncmd := []int{1, 1, 1, 2, 2, 3, 4}[r.Intn(7)]
	model := map[string]string{}
	for k, v := range cs.Init {
		model[k] = v
	}
	forceDup := ncmd > 1 && r.Intn(4) == 0
	for i := 0; i < ncmd; i++ {
		var c Cmd
		c.Name = gen.Pick(r, e.names)
		if forceDup && i > 0 {
			c.Name = cs.Cmds[0].Name
		}
		cur, exists := model[c.Name]
		if r.Intn(8) == 0 { // judge old against the state before the request
			cur, exists = cs.Init[c.Name], cs.Init[c.Name] != ""
		}
		var oldClass, newClass string
		// old value
		switch x := r.Intn(20); {
		case x < 11:
			oldClass = "cur"
			if exists {
				c.Old = cur
			} else {
				c.Old = zero40
			}
		case x < 14:
			oldClass = "pool"
			c.Old = gen.Pick(r, e.pool)
			if c.Old == cur {
				oldClass = "cur"
			}
		case x < 16:
			oldClass = "client"
			c.Old = gen.Pick(r, fresh)
		case x < 18:
			oldClass = "random"
			c.Old = randID(r)
		default:
			oldClass = "zero"
			c.Old = zero40
			if !exists {
				oldClass = "cur"
			}
		}
		if !exists && c.Old != zero40 {
			oldClass += "-absent"
		}
		// new value
		switch x := r.Intn(20); {
		case x < 5 && c.Old != zero40:
			newClass = "delete"
			c.New = zero40
		case x < 10:
			newClass = "pool"
			c.New = gen.Pick(r, e.pool)
		case x < 16:
			newClass = "packed"
			c.New = gen.Pick(r, fresh)
			inPack[c.New] = true
		case x < 18:
			newClass = "unsent"
			c.New = e.clientCommit(cli, gen.Pick(r, e.pool), fmt.Sprintf("c39 unsent seed %d case %d cmd %d", e.c.Seed, idx, i))
		default:
			newClass = "random"
			c.New = randID(r)
		}
		// commands naming the same ref carry distinct new values, so that the server's call log
		// identifies which of them was applied (attribution of findings only)
		for _, prev := range cs.Cmds {
			if prev.Name == c.Name && prev.New == c.New && c.New != zero40 {
				newClass = "unsent"
				c.New = e.clientCommit(cli, gen.Pick(r, e.pool), fmt.Sprintf("c39 unsent-dup seed %d case %d cmd %d", e.c.Seed, idx, i))
			}
		}
		if c.New == zero40 {
			delete(model, c.Name)
		} else {
			model[c.Name] = c.New
		}
		cs.Cmds = append(cs.Cmds, c)
		cs.Desc = append(cs.Desc, c.Action()+"/"+oldClass+"/"+newClass)
	}
	// capabilities
	switch x := r.Intn(10); {
	case x == 0:
		cs.Caps = []string{"delete-refs", "agent=verif/1"}
	case x < 4:
		cs.Caps = []string{"report-status", "delete-refs", "side-band-64k", "agent=verif/1"}
	case x < 5:
		cs.Caps = []string{"report-status", "delete-refs", "side-band-64k", "quiet", "object-format=sha1", "agent=verif/1"}
	default:
		cs.Caps = []string{"report-status", "delete-refs", "agent=verif/1"}
	}
	// pack
	needPack := false
	for _, c := range cs.Cmds {
		if c.Action() != "delete" {
			needPack = true
		}
	}
	var pack []byte
	if needPack {
		for _, id := range fresh {
			if inPack[id] {
				cs.PackIDs = append(cs.PackIDs, id)
			}
		}
		var err error
		pack, err = encodePack(cli, cs.PackIDs)
		e.c.Must(err, "encode pack")
		cs.PackKind = "objs"
		if len(cs.PackIDs) == 0 {
			cs.PackKind = "empty"
		}
		switch x := r.Intn(20); {
		case x == 0:
			cs.PackKind, pack = "none", nil
		case x == 1:
			cs.PackKind = "corrupt"
			pack = append([]byte{}, pack...)
			pack[len(pack)-1-r.Intn(20)] ^= 0x40 // damage the trailer checksum
		case x == 2 && len(pack) > 40:
			cs.PackKind = "corrupt"
			pack = pack[:len(pack)-21-r.Intn(10)] // truncated
		}
	} else {
		cs.PackKind = "none"
	}
	return cs, buildRequest(cs.Cmds, cs.Caps, pack)
}

func (cs *Case) shape(server string) (string, bool) {
	d := append([]string{}, cs.Desc...)
	sort.Strings(d)
	names := map[string]bool{}
	dup := false
	for _, c := range cs.Cmds {
		if names[c.Name] {
			dup = true
		}
		names[c.Name] = true
	}
	nontrivial := dup || cs.PackKind == "corrupt" || (cs.PackKind == "none" && strings.Contains(strings.Join(d, " "), "/p"))
	for _, x := range d {
		f := strings.Split(x, "/")
		if f[1] != "cur" || f[2] == "unsent" || f[2] == "random" {
			nontrivial = true
		}
	}
	return fmt.Sprintf("%s|dup=%v|pack=%s|rep=%v|sb=%v|%s", strings.Join(d, ","), dup, cs.PackKind, cs.wantsReport(), cs.sideband(), server), nontrivial
}

// runGoGit feeds the request to transport.ReceivePack over st.
func runGoGit(st storage.Storer, stateless bool, req []byte) (out []byte, errS, panicS string) {
	var buf bytes.Buffer
	p, stack := vf.Catch(func() {
		err := transport.ReceivePack(context.Background(), st, nopRC{bytes.NewReader(req)}, nopWC{&buf},
			&transport.ReceivePackRequest{StatelessRPC: stateless})
		if err != nil {
			errS = err.Error()
		}
	})
	if p != nil {
		panicS = fmt.Sprintf("%v\n%s", p, stack)
	}
	return buf.Bytes(), errS, panicS
}

type nopRC struct{ *bytes.Reader }

func (nopRC) Close() error { return nil }

func memRefs(st *memory.Storage) map[string]string {
	res := map[string]string{}
	it, err := st.IterReferences()
	if err != nil {
		return res
	}
	it.ForEach(func(r *plumbing.Reference) error {
		if r.Type() == plumbing.HashReference {
			res[r.Name().String()] = r.Hash().String()
		} else {
			res[r.Name().String()] = "symref:" + r.Target().String()
		}
		return nil
	})
	return res
}

type pending struct {
	cs   *Case
	req  []byte
	dir  string
	outs []*Outcome
}

func run(c *vf.Ctx) {
	e := setup(c)
	nCases := c.N(220, 1200)
	batch := 600
	sampleEvery := c.N(8, 20)
	var mu sync.Mutex
	sampled := 0
	confirmed := map[string]int{}
	confirmCap := c.N(2, 10)
	phase := map[string]float64{}
	tick := func(name string, t0 time.Time) { phase[name] += time.Since(t0).Seconds() }
	for start := 0; start < nCases; start += batch {
		end := min(start+batch, nCases)
		ps := make([]*pending, end-start)
		for i := range ps {
			cs, req := e.genCase(start + i)
			ps[i] = &pending{cs: cs, req: req}
		}
		t0 := time.Now()
		// phase 1 (parallel, git only): filesystem twins of the initial state
		vf.Parallel(len(ps), 8, func(i int) {
			d, err := e.prepDir(fmt.Sprintf("fs-%d", ps[i].cs.Idx), ps[i].cs.Init, ps[i].cs.Packed)
			if err != nil {
				c.Broken("prepDir: %v", err)
				return
			}
			ps[i].dir = d
		})
		tick("prep", t0)
		t0 = time.Now()
		// phase 2: the go-git server code, in child processes (each child sequential; race detector
		// reports and fatal errors of a child are classified by the parent)
		if !e.runSeqChildren(ps, start) {
			return
		}
		tick("gogit", t0)
		t0 = time.Now()
		// phase 3 (parallel, git only): observe, judge, confirm
		vf.Parallel(len(ps), 8, func(i int) {
			p := ps[i]
			if p.dir == "" || len(p.outs) != 2 {
				return
			}
			defer os.RemoveAll(p.dir)
			of := p.outs[1]
			var odd []string
			of.Final, odd = readRefsRaw(p.dir)
			ids := idsOfInterest(p.cs, of.Final)
			ex, err := existsOnDisk(p.dir, ids)
			if err != nil {
				c.Broken("observe %s: %v", p.dir, err)
				return
			}
			of.Exists = ex
			if len(odd) > 0 {
				c.Count("fs_odd_ref_files", 1) // residue (empty loose file, .lock): a ref-store matter (C15/C17), not part of this statement
			}
			type found struct {
				o  *Outcome
				vs []Viol
			}
			var fs []found
			for _, o := range p.outs {
				shape, nt := p.cs.shape(o.Server)
				c.Eval(shape, nt)
				c.Count("requests_"+o.Server, 1)
				if o.Panic != "" {
					c.Fail("panic", "ReceivePack panicked: "+o.Panic+"\n"+describe(p.cs, o), map[string]any{"case": p.cs})
					continue
				}
				vs, ok := explain(p.cs, o)
				if !ok {
					vs = []Viol{{"final", "unexplained", -1}}
				}
				for _, l := range o.Report.Lines {
					if l.OK {
						c.Count("ok_lines", 1)
					} else {
						c.Count("ng_lines", 1)
					}
				}
				if o.Report.Present && o.Report.Unpack != "ok" {
					c.Count("unpack_errors", 1)
					if len(o.Report.Lines) > 0 {
						c.Count("obs_unpack_line_carries_command_error", 1)
					}
				}
				if len(vs) > 0 {
					fs = append(fs, found{o, vs})
				} else {
					c.Count("consistent_outcomes", 1)
				}
				if n, first := permittedButRefused(p.cs, o); n > 0 {
					c.Count("obs_permitted_but_refused", n)
					c.Seen("obs_permitted_but_refused_examples", o.Server+": "+first)
				}
			}
			// git confirms: every violation key until it has been confirmed confirmCap times in this
			// run (per key and storage), plus a deterministic sample of all cases.
			needConfirm := false
			mu.Lock()
			for _, f := range fs {
				for _, v := range f.vs {
					k := f.o.Server + "|" + v.Key()
					if confirmed[k] < confirmCap {
						confirmed[k]++
						needConfirm = true
					}
				}
			}
			mu.Unlock()
			doSample := p.cs.Idx%sampleEvery == 0
			var og *Outcome
			if needConfirm || doSample {
				og, err = e.runGit(p.cs, p.req)
				if err != nil {
					c.Broken("git twin: %v", err)
					return
				}
				c.Count("git_confirmations", 1)
				gvs, ok := explain(p.cs, og)
				if !ok || len(gvs) > 0 {
					c.Broken("MODEL-MISMATCH: real git's outcome does not satisfy the oracle (%v ok=%v)\n%s", gvs, ok, describe(p.cs, og))
					return
				}
				// validate the process-free object-presence reader on go-git's directory
				gex, err := e.existsGit(p.dir, ids)
				if err != nil {
					c.Broken("cat-file: %v", err)
					return
				}
				for _, id := range ids {
					if gex[id] != ex[id] {
						c.Broken("READER-MISMATCH: object %s present per git=%v, per pack-index reader=%v in %s", id, gex[id], ex[id], p.dir)
					}
				}
				c.Count("reader_validations", 1)
				mu.Lock()
				if sampled < 4 && (len(fs) > 0 || p.cs.Idx%3 == 0) {
					sampled++
					c.Sample(map[string]any{"case": p.cs, "gogit_fs": of, "git": og})
				}
				mu.Unlock()
			}
			for _, f := range fs {
				for _, v := range f.vs {
					what := fmt.Sprintf("clause %s on command %d\n%s", v.Key(), v.Cmd, describe(p.cs, f.o))
					rp := map[string]any{"case": p.cs, "gogit": f.o}
					if og != nil {
						// git must refuse what go-git applied (for state clauses)
						if v.Cmd >= 0 && (v.Clause == "stale-old" || v.Clause == "missing-object") {
							nm := p.cs.Cmds[v.Cmd].Name
							if og.Final[nm] == f.o.Final[nm] && og.Final[nm] != p.cs.Init[nm] && !hasDupName(p.cs, nm) {
								c.Broken("MODEL-MISMATCH: git applied the same update go-git is blamed for (%s)\n%s\n%s", v.Key(), describe(p.cs, f.o), describe(p.cs, og))
								continue
							}
						}
						c.Count("violations_git_confirmed", 1)
						what += "\n--- real git on the same bytes ---\n" + describe(p.cs, og)
						rp["git"] = og
					} else {
						c.Count("violations_beyond_confirmation_cap", 1)
					}
					c.Fail(v.Key(), what, rp)
				}
			}
		})
		tick("observe+confirm", t0)
	}
	t0 := time.Now()
	runConcurrent(c, e)
	tick("concurrent", t0)
	c.Extra("phase_seconds_informational", phase)
	c.Extra("git_invocations", gitx.Calls.Load())
	c.Floor("requests", c.Counter("requests_gogit-mem")+c.Counter("requests_gogit-fs"), c.N(400, 2400))
	c.Floor("git confirmations", c.Counter("git_confirmations"), c.N(25, 60))
	c.Floor("ok report lines (updates really applied)", c.Counter("ok_lines"), c.N(100, 600))
	c.Floor("ng report lines (updates really refused)", c.Counter("ng_lines"), c.N(50, 300))
	c.Assume("the final reference state of filesystem repositories is read straight from loose ref files and packed-refs (git's on-disk format); object presence from loose files / version-2 pack indexes; both readers and the ref writer are validated against git (receive-pack advertisement, for-each-ref, cat-file --batch-check) in every confirmation step")
	c.Assume("git confirmation: every violation key is replayed against real git receive-pack until confirmed 3 (quick) / 10 (thorough) times per run and storage kind; further hits of an already confirmed key are reported without a git run (process spawns are the bottleneck)")
	c.Assume("a delete whose old id names no object of the repository is not judged for old-value equality: git itself skips the comparison there (builtin/receive-pack.c sets old_oid = NULL)")
	c.Assume("the text of the unpack line is not judged when per-reference lines are present (go-git repeats the first command error there; observation counter obs_unpack_line_carries_command_error)")
	c.Assume("a delete of an absent ref may be reported ok (git does, with a warning) as long as nothing changes; a permitted update that the server refuses is not a violation of the statement (safety only) and is only counted")
	c.Assume("memory storage is exercised sequentially only (it is not documented as safe for concurrent use); concurrent pushes use one filesystem.Storage per connection on a shared directory, as the loaders do")
}

func hasDupName(cs *Case, n string) bool {
	k := 0
	for _, c := range cs.Cmds {
		if c.Name == n {
			k++
		}
	}
	return k > 1
}

// runGit replays the request bytes against real git receive-pack on a fresh
// twin of the initial state. The advertisement git prints validates the ref
// writer; git for-each-ref afterwards validates the ref reader.
func (e *env) runGit(cs *Case, req []byte) (*Outcome, error) {
	dir, err := e.prepDir(fmt.Sprintf("git-%d", cs.Idx), cs.Init, cs.Packed)
	if err != nil {
		return nil, err
	}
	defer os.RemoveAll(dir)
	r := e.g.RunIn(dir, req, "receive-pack", ".")
	if r.Timeout {
		return nil, fmt.Errorf("git receive-pack timed out")
	}
	o := &Outcome{Server: "git", Hint: -1}
	if r.Code != 0 {
		o.Err = fmt.Sprintf("exit %d: %s", r.Code, strings.TrimSpace(string(r.Err)))
	}
	var adv []string
	o.Report, adv = parseOutput(r.Out, true, cs.sideband())
	seen := map[string]string{}
	for _, a := range adv {
		a = strings.TrimSuffix(strings.SplitN(a, "\x00", 2)[0], "\n")
		f := strings.SplitN(a, " ", 2)
		if len(f) == 2 && strings.HasPrefix(f[1], "refs/") {
			seen[f[1]] = f[0]
		}
	}
	if !sameState(seen, cs.Init) {
		return nil, fmt.Errorf("WRITER-MISMATCH: git advertises %v for an initial state written as %v", seen, cs.Init)
	}
	o.Final, _ = readRefsRaw(dir)
	fr := e.g.Run(dir, "for-each-ref", "--format=%(refname) %(objectname)")
	if !fr.OK() {
		return nil, fmt.Errorf("for-each-ref on the git twin: %s", fr)
	}
	gitRefs := map[string]string{}
	for _, ln := range strings.Split(strings.TrimSpace(string(fr.Out)), "\n") {
		if f := strings.SplitN(ln, " ", 2); len(f) == 2 {
			gitRefs[f[0]] = f[1]
		}
	}
	if !sameState(gitRefs, o.Final) {
		return nil, fmt.Errorf("READER-MISMATCH: git for-each-ref %v vs raw reader %v", gitRefs, o.Final)
	}
	o.Exists, err = e.existsGit(dir, idsOfInterest(cs, o.Final))
	return o, err
}
