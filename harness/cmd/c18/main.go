// C18: once an object write or pack write has returned successfully, the object
// is visible to every lookup on the same storage (has, size, get, type
// iteration, prefix search), whatever caching / exclusive-access options are
// set and whatever reads or still-open writers were interleaved.
//
// Monitor: set model. Generated single-goroutine histories open
// RawObjectWriter / LazyWriter / PackfileWriter handles on a real
// filesystem.Storage, feed them in pieces, run lookups and listings while they
// are open, close them in any order and mix in SetEncodedObject. After every
// successful SetEncodedObject / Close the objects it wrote are "committed":
// from then on HasEncodedObject, EncodedObjectSize, EncodedObject (any/own
// type, content compared), IterEncodedObjects(any/own type) and
// HashesWithPrefix must find them - checked immediately and again later.
package main

import (
	"bytes"
	"fmt"
	"io"
	"math/rand"
	"os"
	"strings"

	"github.com/go-git/go-billy/v6"
	"github.com/go-git/go-billy/v6/memfs"
	"github.com/go-git/go-billy/v6/osfs"
	"github.com/go-git/go-git/v6/plumbing"
	"github.com/go-git/go-git/v6/plumbing/cache"
	formatcfg "github.com/go-git/go-git/v6/plumbing/format/config"
	"github.com/go-git/go-git/v6/storage/filesystem"

	"verif/internal/refmodel"
	"verif/internal/vf"
)

func main() {
	vf.Main("C18", "exploration",
		"case = storage options (ExclusiveAccess x UseInMemoryIdx x LargeObjectThreshold x object-cache size x memfs/osfs x sha1/sha256) x generated history of 10-45 events: open raw/lazy/pack writer, partial write, close (any order), SetEncodedObject, lookups (has/size/get/iter/prefix) also while writers are open, reopen; shape = options + sequence of (event kind, list-cache class); non-trivial = a lookup ran while a writer was open; oracle = set model: every object of a successfully returned write must be found by all five lookups immediately and at later positions",
		run)
}

type optsT struct {
	Exclusive bool   `json:"exclusive_access"`
	MemIdx    bool   `json:"in_memory_idx"`
	LargeThr  int64  `json:"large_object_threshold"`
	CacheSize int64  `json:"object_cache_bytes"` // 0 = default
	FS        string `json:"fs"`
	Format    string `json:"format"`
	// history features (so that part of the exclusive-access cases stays clear of the listed findings' triggers)
	Prefix        bool `json:"prefix_lookups"`
	ReadWhileOpen bool `json:"lookups_while_writer_open"`
}

func (o optsT) String() string {
	return fmt.Sprintf("excl=%v memidx=%v large=%d cache=%d fs=%s %s prefix=%v read-while-open=%v", o.Exclusive, o.MemIdx, o.LargeThr, o.CacheSize, o.FS, o.Format, o.Prefix, o.ReadWhileOpen)
}

type writer struct {
	id      int
	kind    string // raw | lazy | pack
	objs    []int  // universe indices this writer stores
	data    []byte // bytes still to be written
	w       io.WriteCloser
	wh      func(plumbing.ObjectType, int64) error // lazy header, nil once called
	readsIn int                                    // lookups executed while this writer was open
}

type committed struct {
	family string // loose | pack
	class  string // list-cached-while-open | fresh
	via    string // set raw lazy pack
}

type caseT struct {
	c     *vf.Ctx
	r     *rand.Rand
	idx   int
	u     *refmodel.Universe
	o     optsT
	fs    billy.Filesystem
	dir   string
	st    *filesystem.Storage
	open  []*writer
	nextW int
	done  map[int]committed // universe index -> how it was committed (first time)
	log   []string
	shape []string
	nontr bool
	// list-cache tracking: true when a lookup ran since the last creation of a writer of that family
	looseListMaybeCached bool
	packListMaybeCached  bool
	// a writer of that family closed successfully while the list may have been cached, and no writer of the
	// family has been created since (creation clears the cache): the cached list may lack committed objects
	looseStale bool
	packStale  bool
	// HashesWithPrefix ran (exclusive mode, at least one pack present) since the loose list was last rebuilt
	prefixAliased bool
	packsExist    bool
	pendingVerify []int
}

func (k *caseT) cacheState() string {
	if !k.o.Exclusive {
		return "shared"
	}
	var f []string
	if k.looseStale {
		f = append(f, "loose-list-cached-before-close")
	}
	if k.packStale {
		f = append(f, "pack-list-cached-before-close")
	}
	if k.prefixAliased {
		f = append(f, "prefix-search-appended-to-cached-loose-list")
	}
	if len(f) == 0 {
		return "exclusive:lists-fresh"
	}
	return "exclusive:" + strings.Join(f, "+")
}

func (k *caseT) openStorage() {
	of := formatcfg.SHA1
	if k.o.Format == "sha256" {
		of = formatcfg.SHA256
	}
	var oc cache.Object
	if k.o.CacheSize > 0 {
		oc = cache.NewObjectLRU(cache.FileSize(k.o.CacheSize))
	} else {
		oc = cache.NewObjectLRUDefault()
	}
	k.st = filesystem.NewStorageWithOptions(k.fs, oc, filesystem.Options{
		ExclusiveAccess: k.o.Exclusive, UseInMemoryIdx: k.o.MemIdx, LargeObjectThreshold: k.o.LargeThr, ObjectFormat: of,
	})
}

func (k *caseT) dump(extra map[string]any) map[string]any {
	m := map[string]any{"case": k.idx, "options": k.o, "events": k.log}
	for a, b := range extra {
		m[a] = b
	}
	return m
}

func (k *caseT) logf(format string, a ...any) {
	k.log = append(k.log, fmt.Sprintf(format, a...))
}

// lookups ---------------------------------------------------------------

func (k *caseT) noteRead() {
	k.looseListMaybeCached = true
	k.packListMaybeCached = true
	for _, w := range k.open {
		w.readsIn++
	}
	if len(k.open) > 0 {
		k.nontr = true
		k.c.Count("lookups_while_writer_open", 1)
	}
}

// lookup runs one lookup kind for object i; returns "" when the object was found correctly.
func (k *caseT) lookup(kind string, i int) (problem string) {
	o := k.u.Objs[i]
	k.noteRead()
	k.c.Count("lookups", 1)
	p, stk := vf.Catch(func() {
		switch kind {
		case "has":
			if err := k.st.HasEncodedObject(o.Hash); err != nil {
				problem = fmt.Sprintf("HasEncodedObject: %v", err)
			}
		case "size":
			n, err := k.st.EncodedObjectSize(o.Hash)
			if err != nil {
				problem = fmt.Sprintf("EncodedObjectSize: %v", err)
			} else if n != int64(len(o.Content)) {
				problem = fmt.Sprintf("EncodedObjectSize = %d, written %d bytes", n, len(o.Content))
			}
		case "get-any", "get-typed":
			t := plumbing.AnyObject
			if kind == "get-typed" {
				t = o.Type
			}
			got, err := k.st.EncodedObject(t, o.Hash)
			if err != nil {
				problem = fmt.Sprintf("EncodedObject(%s): %v", t, err)
				return
			}
			rd, err := got.Reader()
			if err != nil {
				problem = fmt.Sprintf("EncodedObject(%s).Reader: %v", t, err)
				return
			}
			b, err := io.ReadAll(rd)
			_ = rd.Close()
			switch {
			case err != nil:
				problem = fmt.Sprintf("reading EncodedObject(%s): %v", t, err)
			case got.Type() != o.Type || got.Hash() != o.Hash || !bytes.Equal(b, o.Content):
				problem = fmt.Sprintf("EncodedObject(%s) returned type %s hash %s with %d bytes; written %s %s %d bytes", t, got.Type(), got.Hash(), len(b), o.Type, o.Hash, len(o.Content))
			}
		case "iter-any", "iter-typed":
			t := plumbing.AnyObject
			if kind == "iter-typed" {
				t = o.Type
			}
			it, err := k.st.IterEncodedObjects(t)
			if err != nil {
				problem = fmt.Sprintf("IterEncodedObjects(%s): %v", t, err)
				return
			}
			found := false
			err = it.ForEach(func(x plumbing.EncodedObject) error {
				if x.Hash() == o.Hash {
					found = true
				}
				return nil
			})
			if err != nil {
				problem = fmt.Sprintf("IterEncodedObjects(%s) iteration: %v", t, err)
			} else if !found {
				problem = fmt.Sprintf("IterEncodedObjects(%s) does not list it", t)
			}
		case "prefix":
			if k.o.Exclusive && k.packsExist {
				k.prefixAliased = true
			}
			n := 1 + k.r.Intn(4)
			hs, err := k.st.HashesWithPrefix(o.Hash.Bytes()[:n])
			if err != nil {
				problem = fmt.Sprintf("HashesWithPrefix(%d bytes): %v", n, err)
				return
			}
			found := false
			for _, h := range hs {
				if h == o.Hash {
					found = true
				}
			}
			if !found {
				problem = fmt.Sprintf("HashesWithPrefix(%d bytes) does not list it", n)
			}
		}
	})
	if p != nil {
		return fmt.Sprintf("%s panicked: %v\n%s", kind, p, stk)
	}
	return problem
}

var lookupKinds = []string{"has", "size", "get-any", "get-typed", "iter-any", "iter-typed", "prefix"}

func lookupClass(kind string) string { return strings.SplitN(kind, "-", 2)[0] }

// verify checks one committed object with the given lookup kinds.
func (k *caseT) verify(i int, when string, kinds []string) {
	cm := k.done[i]
	for _, kind := range kinds {
		if kind == "prefix" && !k.o.Prefix {
			continue
		}
		if prob := k.lookup(kind, i); prob != "" {
			key := k.cacheState()
			if key == "shared" || key == "exclusive:lists-fresh" {
				key += ":" + lookupClass(kind) // no listed cache defect is active: the lookup kind is the feature
			}
			k.c.Fail(key, fmt.Sprintf("object #%d (%s %s, stored via %s, %s) not visible %s: %s [%s; cache state %s]", i, k.u.Objs[i].Type, k.u.Objs[i].Hash, cm.via, cm.class, when, prob, k.o, k.cacheState()),
				k.dump(map[string]any{"object": i, "lookup": kind, "problem": prob, "when": when}))
		}
		k.c.Count("committed_object_lookups", 1)
	}
}

func (k *caseT) commit(objs []int, family, via string, cached bool) {
	class := "fresh"
	if cached {
		class = "list-cached-while-open"
	}
	for _, i := range objs {
		if _, ok := k.done[i]; !ok {
			k.done[i] = committed{family: family, class: class, via: via}
		}
	}
	k.c.Seen("commit_classes", via+":"+class)
	if len(k.open) > 0 && !k.o.ReadWhileOpen {
		k.pendingVerify = append(k.pendingVerify, objs...) // verified as soon as no writer is open
		return
	}
	for _, i := range objs {
		k.verify(i, "immediately after the write returned", lookupKinds)
	}
}

// events ------------------------------------------------------------------

func (k *caseT) openWriter(kind string) {
	w := &writer{id: k.nextW, kind: kind}
	k.nextW++
	var err error
	p, stk := vf.Catch(func() {
		switch kind {
		case "raw":
			i := k.r.Intn(len(k.u.Objs))
			w.objs = []int{i}
			w.data = k.u.Objs[i].Content
			w.w, err = k.st.RawObjectWriter(k.u.Objs[i].Type, int64(len(w.data)))
			k.looseListMaybeCached, k.looseStale, k.prefixAliased = false, false, false
		case "lazy":
			i := k.r.Intn(len(k.u.Objs))
			w.objs = []int{i}
			w.data = k.u.Objs[i].Content
			w.w, w.wh, err = k.st.LazyWriter()
			k.looseListMaybeCached, k.looseStale, k.prefixAliased = false, false, false
		case "pack":
			n := 1 + k.r.Intn(5)
			seen := map[int]bool{}
			for len(w.objs) < n {
				i := k.r.Intn(len(k.u.Objs))
				if !seen[i] {
					seen[i] = true
					w.objs = append(w.objs, i)
				}
			}
			var perr error
			w.data, perr = k.u.BuildPack(w.objs)
			k.c.Must(perr, "build pack")
			w.w, err = k.st.PackfileWriter()
			k.packListMaybeCached, k.packStale = false, false
		}
	})
	k.logf("open %s writer w%d for %v", kind, w.id, w.objs)
	if p != nil {
		k.c.Fail("panic:open-"+kind, fmt.Sprintf("opening %s writer panicked: %v\n%s", kind, p, stk), k.dump(nil))
		return
	}
	if err != nil {
		k.c.Count("writer_open_errors", 1)
		k.logf("  -> error %v", err)
		return
	}
	k.open = append(k.open, w)
	k.c.Count("writers_opened_"+kind, 1)
}

// feed writes up to n bytes (all when n < 0); returns false if the writer failed.
func (k *caseT) feed(w *writer, n int) bool {
	if w.wh != nil {
		i := w.objs[0]
		if err := w.wh(k.u.Objs[i].Type, int64(len(k.u.Objs[i].Content))); err != nil {
			k.logf("  w%d header error %v", w.id, err)
			return false
		}
		w.wh = nil
	}
	if n < 0 || n > len(w.data) {
		n = len(w.data)
	}
	if n == 0 {
		return true
	}
	m, err := w.w.Write(w.data[:n])
	w.data = w.data[m:]
	if err != nil {
		k.logf("  w%d write error %v", w.id, err)
		return false
	}
	return true
}

func (k *caseT) closeWriter(pos int) {
	w := k.open[pos]
	k.open = append(k.open[:pos], k.open[pos+1:]...)
	ok := true
	var err error
	p, stk := vf.Catch(func() {
		ok = k.feed(w, -1)
		err = w.w.Close()
	})
	cached := k.looseListMaybeCached
	family := "loose"
	if w.kind == "pack" {
		cached = k.packListMaybeCached
		family = "pack"
	}
	k.logf("close w%d (%s %v, %d lookups while open, list maybe cached=%v) -> ok=%v err=%v", w.id, w.kind, w.objs, w.readsIn, cached, ok, err)
	k.shape = append(k.shape, fmt.Sprintf("close-%s:%v:%v", w.kind, cached, len(k.open) > 0))
	if p != nil {
		k.c.Fail("panic:close-"+w.kind, fmt.Sprintf("closing %s writer panicked: %v\n%s", w.kind, p, stk), k.dump(nil))
		return
	}
	if !ok || err != nil {
		k.c.Count("writer_close_errors", 1)
		k.c.Seen("writer_errors", w.kind+": "+fmt.Sprint(err))
		return
	}
	k.c.Count("writers_closed_ok_"+w.kind, 1)
	if w.kind == "pack" {
		k.packsExist = true
	}
	if cached {
		k.c.Count("closes_after_lookup_while_open_"+family, 1)
		if family == "pack" {
			k.packStale = true
		} else {
			k.looseStale = true
		}
	}
	k.commit(w.objs, family, w.kind, cached)
}

func (k *caseT) run() {
	c := k.c
	switch k.o.FS {
	case "memfs":
		k.fs = memfs.New()
	default:
		k.dir = c.TempDir(fmt.Sprintf("c18-%d", k.idx))
		defer os.RemoveAll(k.dir)
		k.fs = osfs.New(k.dir)
	}
	k.openStorage()
	c.Must(k.st.Init(), "init storage")
	if k.o.Format == "sha256" {
		cfg, err := k.st.Config()
		c.Must(err, "config")
		cfg.Core.RepositoryFormatVersion = formatcfg.Version1
		cfg.Extensions.ObjectFormat = formatcfg.SHA256
		c.Must(k.st.SetConfig(cfg), "set config")
	}
	defer func() { _ = k.st.Close() }()
	k.done = map[int]committed{}
	n := 10 + k.r.Intn(36)
	for ev := 0; ev < n; ev++ {
		x := k.r.Intn(100)
		switch {
		case x < 10:
			i := k.r.Intn(len(k.u.Objs))
			var err error
			p, stk := vf.Catch(func() {
				o := k.st.NewEncodedObject()
				o.SetType(k.u.Objs[i].Type)
				o.SetSize(int64(len(k.u.Objs[i].Content)))
				w, _ := o.Writer()
				_, _ = w.Write(k.u.Objs[i].Content)
				_ = w.Close()
				_, err = k.st.SetEncodedObject(o)
			})
			k.looseListMaybeCached, k.looseStale, k.prefixAliased = false, false, false
			k.logf("set #%d -> %v", i, err)
			k.shape = append(k.shape, "set")
			if p != nil {
				c.Fail("panic:set", fmt.Sprintf("SetEncodedObject panicked: %v\n%s", p, stk), k.dump(nil))
				continue
			}
			if err != nil {
				c.Count("set_errors", 1)
				c.Seen("writer_errors", "set: "+err.Error())
				continue
			}
			c.Count("sets_ok", 1)
			k.commit([]int{i}, "loose", "set", false)
		case x < 30 && len(k.open) < 4:
			kind := []string{"raw", "lazy", "pack", "pack"}[k.r.Intn(4)]
			k.openWriter(kind)
			k.shape = append(k.shape, "open-"+kind)
		case x < 45 && len(k.open) > 0:
			w := k.open[k.r.Intn(len(k.open))]
			nb := 0
			if len(w.data) > 0 {
				nb = 1 + k.r.Intn(len(w.data))
			}
			var ok bool
			if p, stk := vf.Catch(func() { ok = k.feed(w, nb) }); p != nil {
				c.Fail("panic:write-"+w.kind, fmt.Sprintf("Write panicked: %v\n%s", p, stk), k.dump(nil))
			}
			k.logf("write %d bytes to w%d -> %v", nb, w.id, ok)
			k.shape = append(k.shape, "write-"+w.kind)
		case x < 62 && len(k.open) > 0:
			k.closeWriter(k.r.Intn(len(k.open)))
			k.flushPending()
		case x < 65 && len(k.open) == 0:
			_ = k.st.Close()
			k.openStorage()
			k.looseListMaybeCached, k.packListMaybeCached = false, false
			k.looseStale, k.packStale, k.prefixAliased = false, false, false
			k.logf("reopen storage")
			k.shape = append(k.shape, "reopen")
			for i := range k.done {
				k.verify(i, "after reopening the storage", []string{"has", "get-any"})
			}
		default:
			// a lookup (of a committed object when there is one, otherwise of anything): may populate list caches
			kind := lookupKinds[k.r.Intn(len(lookupKinds))]
			if (len(k.open) > 0 && !k.o.ReadWhileOpen) || (kind == "prefix" && !k.o.Prefix) {
				continue
			}
			var cand []int
			for i := range k.done {
				cand = append(cand, i)
			}
			k.shape = append(k.shape, fmt.Sprintf("look-%s:%v", lookupClass(kind), len(k.open) > 0))
			if len(cand) > 0 && k.r.Intn(4) != 0 {
				// deterministic choice: smallest index offset by a draw
				i := pick(cand, k.r)
				k.logf("lookup %s #%d (committed), %d writers open", kind, i, len(k.open))
				k.verify(i, fmt.Sprintf("at a later lookup (%d writers open)", len(k.open)), []string{kind})
			} else {
				i := k.r.Intn(len(k.u.Objs))
				prob := k.lookup(kind, i)
				k.logf("lookup %s #%d, %d writers open -> %q", kind, i, len(k.open), prob)
				if _, isDone := k.done[i]; !isDone && prob == "" {
					c.Count("uncommitted_object_found", 1) // e.g. being written by an open writer of identical content: not judged
				}
			}
		}
	}
	for len(k.open) > 0 {
		k.closeWriter(len(k.open) - 1)
	}
	for i := range k.done {
		k.verify(i, "at the end of the history", lookupKinds)
	}
	c.Count("events", len(k.log))
}

func (k *caseT) flushPending() {
	if len(k.open) > 0 {
		return
	}
	for _, i := range k.pendingVerify {
		k.verify(i, "right after the last open writer was closed", lookupKinds)
	}
	k.pendingVerify = nil
}

func pick(cand []int, r *rand.Rand) int {
	// map iteration order is random: sort for determinism
	for i := 1; i < len(cand); i++ {
		for j := i; j > 0 && cand[j-1] > cand[j]; j-- {
			cand[j-1], cand[j] = cand[j], cand[j-1]
		}
	}
	return cand[r.Intn(len(cand))]
}

func run(c *vf.Ctx) {
	n := c.N(400, 6000)
	us := map[string]*refmodel.Universe{"sha1": refmodel.NewUniverse("sha1", c.Rand("universe")), "sha256": refmodel.NewUniverse("sha256", c.Rand("universe"))}
	only := os.Getenv("C18_ONLY")
	vf.Parallel(n, 6, func(i int) {
		if only != "" && only != fmt.Sprint(i) {
			return
		}
		r := c.Rand("case", i)
		k := &caseT{c: c, r: r, idx: i}
		k.o = optsT{
			Exclusive: r.Intn(2) == 0, MemIdx: r.Intn(2) == 0,
			LargeThr:  []int64{0, 64, 1024}[r.Intn(3)],
			CacheSize: []int64{0, 0, 512}[r.Intn(3)],
			FS:        []string{"memfs", "memfs", "osfs"}[r.Intn(3)],
			Format:    []string{"sha1", "sha1", "sha1", "sha256"}[r.Intn(4)],
			Prefix:    r.Intn(100) < 60, ReadWhileOpen: r.Intn(100) < 65,
		}
		k.u = us[k.o.Format]
		c.Seen("option_combinations", k.o.String())
		if p, stk := vf.Catch(k.run); p != nil {
			panic(fmt.Sprintf("%v\n%s", p, stk))
		}
		c.Count("cases", 1)
		c.Eval(k.o.String()+"|"+vf.ShapeHash(k.shape), k.nontr)
		if i < 2 {
			c.Sample(k.dump(nil))
		}
	})
	closes := c.Counter("writers_closed_ok_raw") + c.Counter("writers_closed_ok_lazy") + c.Counter("writers_closed_ok_pack")
	c.Floor("cases", c.Counter("cases"), n)
	c.Floor("writers closed successfully", closes, n*2)
	c.Floor("pack writers closed successfully", c.Counter("writers_closed_ok_pack"), n/2)
	c.Floor("SetEncodedObject calls", c.Counter("sets_ok"), n)
	c.Floor("lookups of committed objects", c.Counter("committed_object_lookups"), n*60)
	c.Floor("lookups while a writer was open", c.Counter("lookups_while_writer_open"), n*4)
	c.Floor("loose closes after a lookup while open", c.Counter("closes_after_lookup_while_open_loose"), n/5)
	c.Floor("pack closes after a lookup while open", c.Counter("closes_after_lookup_while_open_pack"), n/5)
	c.Floor("option combinations", c.SeenCount("option_combinations"), c.N(60, 100))
	if c.Counter("writer_close_errors")+c.Counter("set_errors")+c.Counter("writer_open_errors") > closes/20 {
		c.Inconclusive("too many writes failed (%d close, %d set, %d open errors): the histories do not exercise successful writes", c.Counter("writer_close_errors"), c.Counter("set_errors"), c.Counter("writer_open_errors"))
	}
	c.Assume("single goroutine: interleaving means call order (writers held open across other calls), not parallel execution")
	c.Assume("only objects whose write call returned nil are judged; visibility of objects still being written is not judged")
	c.Assume("well-formed objects and packs (packfile.Encoder output, ofs-deltas allowed)")
}
