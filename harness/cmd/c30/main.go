// C30: non-forced checkout, merge/keep reset (and pull / ff-merge) never lose
// local changes: every uncommitted modification (staged or not) and every
// untracked file is preserved byte-for-byte, or the call is refused.
//
// Monitor: before/after observation through git's own eyes (status, ls-files,
// ls-tree HEAD) and worktree digests around each go-git call; every loss is
// re-run with the real git on an identically prepared twin and is reported
// only when git itself preserves (or refuses) there.
package main

import (
	"errors"
	"fmt"
	"os"
	"path/filepath"
	"sort"
	"strings"
	"sync"

	"github.com/go-git/go-billy/v6/osfs"
	git "github.com/go-git/go-git/v6"
	"github.com/go-git/go-git/v6/plumbing"
	"github.com/go-git/go-git/v6/plumbing/cache"
	"github.com/go-git/go-git/v6/storage/filesystem"

	"verif/internal/gen"
	"verif/internal/gitx"
	"verif/internal/recfs"
	"verif/internal/vf"
	"verif/internal/wtlab"
)

func main() {
	vf.Main("C30", "exploration",
		"cases = (operation, current commit, target commit, local edits) over generated histories; stratified: every operation x every (local-change kind, relation of the path to the current->target diff) once per run where the history admits it, plus random 1-3 edit combinations; non-trivial = at least one uncommitted change or untracked file exists before the call and target != current; shape = operation + sorted (kind:relation) list + outcome class; oracle = per-path digests/index entries before vs after, each loss confirmed against real git on a twin",
		run)
}

var mainOps = []string{"checkout-branch", "checkout-hash", "checkout-create", "reset-merge", "reset-keep", "pull"}
var minorOps = []string{"checkout-keep", "merge-ff"}

type stratum struct{ kind, rel string }

func strata() []stratum {
	var s []stratum
	for _, k := range wtlab.TrackedKinds {
		for _, r := range []string{"same", "modified", "deleted"} {
			s = append(s, stratum{k, r})
		}
	}
	for _, k := range wtlab.NewKinds {
		for _, r := range []string{"added", "t-dir-at", "t-file-above", "none"} {
			s = append(s, stratum{k, r})
		}
	}
	return s
}

type caseT struct {
	I       int          `json:"i"`
	Op      string       `json:"op"`
	Base    int          `json:"base"`
	Cur     int          `json:"cur"`
	Tgt     int          `json:"tgt"`
	Edits   []wtlab.Edit `json:"edits"`
	Wrapped bool         `json:"wrapped_fs"`
	Stratum string       `json:"stratum,omitempty"`
	Files   []string     `json:"files,omitempty"` // ResetOptions.Files (reset-keep-files)
}

func needsDescendant(op string) bool { return op == "pull" || op == "merge-ff" }

func run(c *vf.Ctx) {
	g := gitx.New(c.Scratch)
	nb := c.N(6, 24)
	bases := make([]*wtlab.Base, nb)
	var mu sync.Mutex
	vf.Parallel(nb, 8, func(i int) {
		r := c.Rand("base", i)
		b, err := wtlab.NewBaseSameTree(g, r, filepath.Join(c.Scratch, fmt.Sprintf("base%d", i)), gen.HistOpts{
			N: 7 + r.Intn(4), MergeProb: 0.15, Files: 4 + r.Intn(3), Path: gen.PathOpts{Depth: 2, Symlinks: true, Exec: true},
		})
		if err != nil {
			c.Broken("base %d: %v", i, err)
			return
		}
		mu.Lock()
		bases[i] = b
		mu.Unlock()
	})
	for _, b := range bases {
		if b == nil {
			return
		}
	}

	// ---- case plan
	var cases []caseT
	pickPair := func(r interface{ Intn(int) int }, b *wtlab.Base, op string) (int, int, bool) {
		n := len(b.IDs)
		for try := 0; try < 60; try++ {
			cur, tgt := r.Intn(n), r.Intn(n)
			if cur == tgt {
				continue
			}
			if needsDescendant(op) && !b.IsAncestor(cur, tgt) {
				continue
			}
			return cur, tgt, true
		}
		return 0, 0, false
	}
	st := strata()
	rounds := c.N(1, 6)
	for round := 0; round < rounds; round++ {
		for oi, op := range mainOps {
			for si, s := range st {
				r := c.Rand("stratum", round, op, s.kind, s.rel)
				found := false
				for bt := 0; bt < nb && !found; bt++ {
					bi := (round*7 + oi + si + bt) % nb
					b := bases[bi]
					n := len(b.IDs)
					perm := r.Perm(n * n)
					for _, x := range perm {
						cur, tgt := x/n, x%n
						if cur == tgt || (needsDescendant(op) && !b.IsAncestor(cur, tgt)) {
							continue
						}
						e, ok := wtlab.PickEdit(r, s.kind, s.rel, b.Tree(cur), b.Tree(tgt), len(cases), nil)
						if !ok {
							continue
						}
						cases = append(cases, caseT{Op: op, Base: bi, Cur: cur, Tgt: tgt, Edits: []wtlab.Edit{e}, Stratum: op + "|" + s.kind + "|" + s.rel})
						found = true
						break
					}
				}
				if !found {
					c.Count("strata_infeasible", 1)
				} else {
					c.Seen("strata_planned", op+"|"+s.kind+"|"+s.rel)
				}
			}
		}
	}
	// stratum "victim + blocker": a second, untracked path that makes go-git fail half-way
	victims := []stratum{{"staged-mod", "same"}, {"staged-add", "none"}, {"untracked", "added"}, {"unstaged-mod", "same"}}
	for round := 0; round < rounds; round++ {
		for oi, op := range mainOps {
			for vi, v := range victims {
				r := c.Rand("midway", round, op, v.kind)
				found := false
				for bt := 0; bt < nb && !found; bt++ {
					bi := (round*5 + oi + vi + bt) % nb
					b := bases[bi]
					n := len(b.IDs)
					for _, x := range r.Perm(n * n) {
						cur, tgt := x/n, x%n
						if cur == tgt || (needsDescendant(op) && !b.IsAncestor(cur, tgt)) {
							continue
						}
						e, ok := wtlab.PickEdit(r, v.kind, v.rel, b.Tree(cur), b.Tree(tgt), len(cases)*4, nil)
						if !ok {
							continue
						}
						blk, ok := wtlab.PickEdit(r, "untracked", []string{"t-file-above", "t-dir-at"}[r.Intn(2)], b.Tree(cur), b.Tree(tgt), len(cases)*4+1, []string{e.Path})
						if !ok {
							continue
						}
						cases = append(cases, caseT{Op: op, Base: bi, Cur: cur, Tgt: tgt, Edits: []wtlab.Edit{e, blk}, Stratum: op + "|midway|" + v.kind})
						found = true
						break
					}
				}
			}
		}
	}
	// stratum "same tree": the target's tree equals the current one (the commit itself, an empty
	// commit, a revert of a revert); every local change must simply survive or the call be refused
	sameOps := []string{"checkout-branch", "checkout-hash", "checkout-create", "reset-merge", "reset-keep", "pull"}
	sameKinds := append(append([]string{}, wtlab.TrackedKinds...), wtlab.NewKinds...)
	for round := 0; round < rounds; round++ {
		for oi, op := range sameOps {
			for ki, kind := range sameKinds {
				r := c.Rand("sametree", round, op, kind)
				b := bases[(round+oi+ki)%nb]
				bi := (round + oi + ki) % nb
				var cur, tgt int
				switch v := (oi + ki + round) % 3; {
				case v == 0 && op != "pull":
					cur = r.Intn(len(b.IDs))
					tgt = cur
				default:
					if len(b.SameTree) == 0 {
						continue
					}
					p := b.SameTree[r.Intn(len(b.SameTree))]
					cur, tgt = p[0], p[1]
				}
				rel := "same"
				if kind == "staged-add" || kind == "untracked" {
					rel = "none"
				}
				e, ok := wtlab.PickEdit(r, kind, rel, b.Tree(cur), b.Tree(tgt), len(cases)*4, nil)
				if !ok {
					continue
				}
				edits := []wtlab.Edit{e}
				if e2, ok := wtlab.PickEdit(r, []string{"unstaged-mod", "unstaged-del", "untracked"}[r.Intn(3)], "", b.Tree(cur), b.Tree(tgt), len(cases)*4+1, []string{e.Path}); ok && r.Intn(2) == 0 {
					edits = append(edits, e2)
				}
				cases = append(cases, caseT{Op: op, Base: bi, Cur: cur, Tgt: tgt, Edits: edits, Stratum: op + "|sametree|" + kind})
				c.Count("same_tree_cases_planned", 1)
			}
		}
		// KeepReset restricted to Files that do not differ between current and target
		for ki, kind := range sameKinds {
			r := c.Rand("keepfiles", round, kind)
			bi := (round + ki) % nb
			b := bases[bi]
			n := len(b.IDs)
			for _, x := range r.Perm(n * n) {
				cur, tgt := x/n, x%n
				if cur == tgt {
					continue
				}
				var unchanged []string
				for _, p := range b.Tree(cur).Paths() {
					if wtlab.Rel(p, b.Tree(cur), b.Tree(tgt)) == "same" {
						unchanged = append(unchanged, p)
					}
				}
				if len(unchanged) == 0 {
					continue
				}
				rel := "same"
				if kind == "staged-add" || kind == "untracked" {
					rel = "none"
				}
				e, ok := wtlab.PickEdit(r, kind, rel, b.Tree(cur), b.Tree(tgt), len(cases)*4, nil)
				if !ok {
					continue
				}
				files := []string{unchanged[r.Intn(len(unchanged))]}
				if _, tracked := b.Tree(cur)[e.Path]; tracked && r.Intn(2) == 0 {
					files = []string{e.Path}
				}
				cases = append(cases, caseT{Op: "reset-keep-files", Base: bi, Cur: cur, Tgt: tgt, Edits: []wtlab.Edit{e}, Files: files, Stratum: "reset-keep-files|" + kind})
				c.Count("keep_files_cases_planned", 1)
				break
			}
		}
	}
	allKinds := append(append([]string{}, wtlab.TrackedKinds...), wtlab.NewKinds...)
	nRandom := c.N(150, 2000)
	for k := 0; k < nRandom; k++ {
		r := c.Rand("random", k)
		op := mainOps[k%len(mainOps)]
		if k%12 == 11 {
			op = minorOps[(k/12)%2]
		}
		bi := r.Intn(nb)
		b := bases[bi]
		cur, tgt, ok := pickPair(r, b, op)
		if !ok {
			continue
		}
		ne := 1 + r.Intn(3)
		var edits []wtlab.Edit
		var used []string
		for j := 0; j < ne; j++ {
			kind := allKinds[r.Intn(len(allKinds))]
			if r.Intn(3) == 0 {
				kind = "untracked"
			}
			e, ok := wtlab.PickEdit(r, kind, "", b.Tree(cur), b.Tree(tgt), len(cases)*4+j, used)
			if ok {
				edits = append(edits, e)
				used = append(used, e.Path)
			}
		}
		cases = append(cases, caseT{Op: op, Base: bi, Cur: cur, Tgt: tgt, Edits: edits})
	}
	for i := range cases {
		cases[i].I = i
		cases[i].Wrapped = i%4 == 3
	}
	if f := os.Getenv("VERIF_DEBUG_FILTER"); f != "" { // development aid only
		var keep []caseT
		for _, k := range cases {
			if strings.Contains(k.Op+"|"+k.Stratum, f) {
				keep = append(keep, k)
			}
		}
		cases = keep
	}

	vf.Parallel(len(cases), 8, func(i int) { runCase(c, g, bases, cases[i]) })

	c.Extra("git_invocations", gitx.Calls.Load())
	c.Floor("cases with local changes evaluated", c.Counter("cases_nontrivial"), c.N(300, 3000))
	c.Floor("successful operations with local changes", c.Counter("op_ok_with_locals"), c.N(80, 700))
	c.Floor("refused operations", c.Counter("op_refused"), c.N(40, 400))
	c.Floor("local paths checked", c.Counter("local_paths_checked"), c.N(350, 3500))
	c.Floor("strata planned (op x kind x relation)", c.SeenCount("strata_planned"), 150)
	c.Floor("cases whose target has the same tree as the current commit", c.Counter("same_tree_cases_planned"), c.N(40, 240))
	c.Floor("KeepReset cases restricted to unchanged Files", c.Counter("keep_files_cases_planned"), c.N(6, 36))
	c.Floor("untracked-at-target-path cases", c.Counter("untracked_at_target_path"), c.N(12, 100))
	c.Assume("ignored files are outside the domain (no .gitignore is generated): git itself overwrites ignored untracked files on checkout")
	c.Assume("a loss is reported only when real git 2.39.5, run on an identically prepared twin, preserves the same path (or refuses); losses git shares (e.g. reset --merge discarding staged changes, recreation of a worktree-deleted file) are counted as git_same_loss, not reported")
	c.Assume("edits always change the file size, so racy-clean detection (same mtime second) is not what is being tested here")
}

func errClass(err error) string {
	switch {
	case err == nil:
		return "ok"
	case errors.Is(err, git.ErrUnstagedChanges):
		return "ErrUnstagedChanges"
	case errors.Is(err, git.ErrLocalChanges):
		return "ErrLocalChanges"
	case errors.Is(err, git.NoErrAlreadyUpToDate):
		return "already-up-to-date"
	case errors.Is(err, git.ErrNonFastForwardUpdate):
		return "non-ff"
	}
	s := err.Error()
	if len(s) > 40 {
		s = s[:40]
	}
	return "other:" + s
}

func openRepo(dir string, wrapped bool) (*git.Repository, error) {
	if !wrapped {
		return git.PlainOpen(dir)
	}
	rec := recfs.New()
	root := recfs.Wrap(osfs.New(dir), rec)
	dot, err := root.Chroot(".git")
	if err != nil {
		return nil, err
	}
	return git.Open(filesystem.NewStorage(dot, cache.NewObjectLRUDefault()), root)
}

func goOp(repo *git.Repository, op string, tgtBranch, tgtID string, files []string) error {
	w, err := repo.Worktree()
	if err != nil {
		return err
	}
	h := plumbing.NewHash(tgtID)
	switch op {
	case "checkout-branch":
		return w.Checkout(&git.CheckoutOptions{Branch: plumbing.NewBranchReferenceName(tgtBranch)})
	case "checkout-hash":
		return w.Checkout(&git.CheckoutOptions{Hash: h})
	case "checkout-create":
		return w.Checkout(&git.CheckoutOptions{Branch: plumbing.NewBranchReferenceName("newb"), Create: true, Hash: h})
	case "checkout-keep":
		return w.Checkout(&git.CheckoutOptions{Branch: plumbing.NewBranchReferenceName(tgtBranch), Keep: true})
	case "reset-merge":
		return w.Reset(&git.ResetOptions{Commit: h, Mode: git.MergeReset})
	case "reset-keep":
		return w.Reset(&git.ResetOptions{Commit: h, Mode: git.KeepReset})
	case "reset-keep-files":
		return w.Reset(&git.ResetOptions{Commit: h, Mode: git.KeepReset, Files: files})
	case "pull":
		return w.Pull(&git.PullOptions{RemoteName: "origin", ReferenceName: plumbing.NewBranchReferenceName(tgtBranch)})
	case "merge-ff":
		return repo.Merge(*plumbing.NewHashReference(plumbing.NewBranchReferenceName(tgtBranch), h), git.MergeOptions{Strategy: git.FastForwardMerge})
	}
	return fmt.Errorf("unknown op %s", op)
}

func gitOp(g *gitx.Git, dir, op, tgtBranch, tgtID string) gitx.Result {
	switch op {
	case "checkout-branch", "checkout-keep":
		return g.Run(dir, "checkout", "-q", tgtBranch)
	case "checkout-hash":
		return g.Run(dir, "checkout", "-q", "--detach", tgtID)
	case "checkout-create":
		return g.Run(dir, "checkout", "-q", "-b", "newb", tgtID)
	case "reset-merge":
		return g.Run(dir, "reset", "-q", "--merge", tgtID)
	case "reset-keep", "reset-keep-files": // git has no path-limited --keep: the unrestricted form is the reference for "would git lose it"
		return g.Run(dir, "reset", "-q", "--keep", tgtID)
	case "pull":
		return g.Run(dir, "pull", "-q", "--ff-only", "origin", tgtBranch)
	case "merge-ff":
		return g.Run(dir, "merge", "-q", "--ff-only", tgtBranch)
	}
	return gitx.Result{Code: -1}
}

func lossKind(l wtlab.Loss, cur, tgt gen.Tree) string {
	if l.Kind == "untracked" {
		rel := wtlab.Rel(l.Path, cur, tgt)
		if strings.HasPrefix(rel, "deleted") {
			rel = "deleted" // deleted-t-dir / deleted-t-file-above: the target also puts a directory / file around the path
		}
		return "untracked@" + rel
	}
	return l.Kind
}

// keyKind: for KeepReset the defect depends on whether the switch touches the path
// (go-git refuses on touched paths and loses changes on untouched ones), so the
// relation is part of the finding key there.
func keyKind(fam string, l wtlab.Loss, cur, tgt gen.Tree) string {
	k := lossKind(l, cur, tgt)
	if fam == "reset-keep" && l.Kind != "untracked" {
		rel := wtlab.Rel(l.Path, cur, tgt)
		if strings.HasPrefix(rel, "deleted") {
			rel = "deleted"
		}
		k += "@" + rel
	}
	return k
}

func runCase(c *vf.Ctx, g *gitx.Git, bases []*wtlab.Base, k caseT) {
	b := bases[k.Base]
	dir := filepath.Join(c.Scratch, fmt.Sprintf("case%d", k.I))
	defer os.RemoveAll(dir)
	if err := b.Materialize(g, dir, k.Cur, k.Edits); err != nil {
		c.Broken("materialize case %d: %v", k.I, err)
		return
	}
	tgtBranch, tgtID := fmt.Sprintf("c%d", k.Tgt), b.IDs[k.Tgt]
	cur, tgt := b.Tree(k.Cur), b.Tree(k.Tgt)
	pre := wtlab.TakeLight(g, dir, true)
	if pre.St.GitError != "" {
		c.Broken("case %d: git cannot observe pre-state: %s", k.I, pre.St.GitError)
		return
	}
	locals := wtlab.Locals(pre)

	repo, err := openRepo(dir, k.Wrapped)
	if err != nil {
		c.Broken("case %d: open: %v", k.I, err)
		return
	}
	var opErr error
	p, stack := vf.Catch(func() { opErr = goOp(repo, k.Op, tgtBranch, tgtID, k.Files) })
	repo.Close()
	if p != nil {
		c.Fail("panic:"+k.Op, fmt.Sprintf("%s panicked: %v\n%s", k.Op, p, stack), k)
		return
	}
	post := wtlab.TakeLight(g, dir, false)
	c.Count("git_confirmations", 2)
	losses := wtlab.Losses(pre, post)

	var lk []string
	for _, l := range locals {
		kind := wtlab.LocalKind(l)
		rel := wtlab.Rel(l.Path, cur, tgt)
		lk = append(lk, kind+":"+rel)
		c.Seen("local_kinds", kind+":"+rel)
		if kind == "untracked" && (rel == "added" || rel == "t-dir-at" || rel == "t-file-above") {
			c.Count("untracked_at_target_path", 1)
		}
	}
	sort.Strings(lk)
	ec := errClass(opErr)
	var lossTags []string
	for _, l := range losses {
		lossTags = append(lossTags, lossKind(l, cur, tgt)+":"+lossWhat(l))
	}
	sort.Strings(lossTags)
	nontrivial := len(locals) > 0
	c.Eval(vf.ShapeHash(k.Op, strings.Join(lk, ","), ec, strings.Join(lossTags, ",")), nontrivial)
	c.Seen("ops", k.Op)
	c.Seen("outcomes", k.Op+"="+ec)
	if nontrivial {
		c.Count("cases_nontrivial", 1)
		c.Count("local_paths_checked", len(locals))
		if opErr == nil {
			c.Count("op_ok_with_locals", 1)
		} else {
			c.Count("op_refused", 1)
		}
	}
	if k.Wrapped {
		c.Count("cases_wrapped_fs", 1)
	} else {
		c.Count("cases_boundos_fs", 1)
	}
	if k.I%97 == 0 || (len(losses) > 0 && k.I%7 == 0) {
		c.Sample(map[string]any{"case": k, "locals": lk, "result": ec, "losses": losses})
	}
	if len(losses) == 0 {
		if nontrivial && opErr == nil {
			c.Count("preserved_after_success", 1)
		}
		return
	}

	// ---- confirm every loss against real git: one twin per lost path, prepared with only the
	// edits at that path, so that git's verdict on the path does not depend on the other edits.
	for li, l := range losses {
		var rel []wtlab.Edit
		for _, e := range k.Edits {
			if e.Path == l.Path {
				rel = append(rel, e)
			}
		}
		if len(rel) == 0 {
			rel = k.Edits
		}
		twin := filepath.Join(c.Scratch, fmt.Sprintf("twin%d-%d", k.I, li))
		if err := b.Materialize(g, twin, k.Cur, rel); err != nil {
			os.RemoveAll(twin)
			c.Broken("materialize twin %d: %v", k.I, err)
			return
		}
		tpre := wtlab.TakeLight(g, twin, true)
		gres := gitOp(g, twin, k.Op, tgtBranch, tgtID)
		tpost := wtlab.TakeLight(g, twin, false)
		os.RemoveAll(twin)
		c.Count("git_twin_runs", 1)
		c.Count("git_confirmations", 1)
		var inPre bool
		for _, tl := range wtlab.Locals(tpre) {
			if tl.Path == l.Path {
				inPre = true
			}
		}
		if !inPre {
			c.Broken("case %d: twin pre-state has no local change at %q (status %q)", k.I, l.Path, tpre.St.Status)
			return
		}
		gitSame := false
		for _, tl := range wtlab.Losses(tpre, tpost) {
			if tl.Path == l.Path && tl.Kind == l.Kind {
				gitSame = true
			}
		}
		what := lossWhat(l)
		fam := opFamily(k.Op)
		kind := keyKind(fam, l, cur, tgt)
		if os.Getenv("VERIF_DEBUG_LOSS") != "" {
			fmt.Printf("LOSS case=%d op=%s cur=c%d tgt=c%d edits=%+v loss=%+v rel=%s goerr=%v git=%s gitSame=%v prestatus=%q\n", k.I, k.Op, k.Cur, k.Tgt, k.Edits, l, wtlab.Rel(l.Path, cur, tgt), opErr, gres.String(), gitSame, pre.St.Status)
		}
		if gitSame {
			c.Count("git_same_loss", 1)
			c.Seen("git_same_loss_kinds", fam+":"+kind+":"+what)
			continue
		}
		var key string
		switch {
		case opErr == nil:
			key = fam + ":" + kind + ":" + what
		case isRefusal(opErr):
			key = fam + ":refused(" + ec + "):" + kind + ":" + what
		default:
			// the call started to modify the repository and then hit an I/O-level conflict
			// (e.g. an untracked directory where a file must be written): whatever had been
			// discarded by then is collateral of that one cause
			key = fam + ":failed-midway:local-changes-lost"
		}
		gitDid := "refused (exit " + fmt.Sprint(gres.Code) + ")"
		if gres.OK() {
			gitDid = "succeeded and preserved it"
		}
		c.Fail(key, fmt.Sprintf("%s cur=c%d tgt=c%d: local change %s at %q (relation of the path to the switch: %s) lost: %s; go-git returned %v; real git on a twin holding only this path's edit %s",
			k.Op, k.Cur, k.Tgt, l.Kind, l.Path, wtlab.Rel(l.Path, cur, tgt), l.What, opErr, gitDid),
			map[string]any{"case": k, "loss": l, "gogit_err": fmt.Sprint(opErr), "git": gres.String(), "pre_status": pre.St.Status, "post_index": post.St.Index})
	}
}

func opFamily(op string) string {
	switch op {
	case "checkout-branch", "checkout-hash", "checkout-create":
		return "checkout" // same code path: HEAD update, then Reset{MergeReset}
	case "reset-keep-files":
		return "reset-keep"
	}
	return op
}

func isRefusal(err error) bool {
	return errors.Is(err, git.ErrUnstagedChanges) || errors.Is(err, git.ErrLocalChanges) || errors.Is(err, git.NoErrAlreadyUpToDate) ||
		errors.Is(err, git.ErrNonFastForwardUpdate) || errors.Is(err, git.ErrFastForwardMergeNotPossible)
}

// lossWhat folds the observed difference into: staged-change-discarded | overwritten | removed | recreated | lost (untracked files).
func lossWhat(l wtlab.Loss) string {
	if l.Kind == "untracked" {
		return "lost" // overwritten, replaced by a directory or removed: the untracked content is gone
	}
	switch {
	case strings.HasPrefix(l.What, "index-entry-"):
		return "staged-change-discarded"
	case l.What == "worktree-removed":
		return "removed"
	case l.What == "worktree-recreated":
		return "recreated"
	}
	return "overwritten"
}
