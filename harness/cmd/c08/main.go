// C08: packs git writes are parsed / indexed exactly as git index-pack does.
//
// Monitor (reference implementation): git pack-objects / repack / fast-import
// produce packs over generated histories; the same bytes are indexed by
// `git index-pack --rev-index` and parsed by go-git's Parser in every mode
// (no storage, memory storage, filesystem storage low/high memory, seekable /
// streaming reader, PackfileWriter). Compared: per-object (id, type, size,
// offset, crc), object contents, and the .idx / .rev bytes. Thin packs are
// completed by git (--fix-thin) and by go-git (Parser WithStorage over a
// storage holding the bases); the resulting object sets are compared.
package main

import (
	"bytes"
	"errors"
	"fmt"
	"io"
	"os"
	"path/filepath"
	"sort"
	"strconv"
	"strings"
	"sync"
	"time"

	"github.com/go-git/go-billy/v6/osfs"
	"github.com/go-git/go-git/v6/plumbing"
	"github.com/go-git/go-git/v6/plumbing/cache"
	"github.com/go-git/go-git/v6/plumbing/format/idxfile"
	"github.com/go-git/go-git/v6/plumbing/format/packfile"
	"github.com/go-git/go-git/v6/plumbing/format/revfile"
	"github.com/go-git/go-git/v6/plumbing/storer"
	"github.com/go-git/go-git/v6/storage/filesystem"
	"github.com/go-git/go-git/v6/storage/memory"

	"verif/internal/gitx"
	"verif/internal/packlab"
	"verif/internal/vf"
)

func main() {
	vf.Main("C08", "exploration",
		"packs = git pack-objects/repack/fast-import output over generated histories (delta-friendly evolving blobs, >1MiB blobs, tags, empty tree) with window in {0,1,10,250} x depth in {1,50,4095} x --delta-base-offset on/off x compression level x full/partial/thin/duplicated-entries x sha1/sha256; each pack is parsed by go-git in up to 7 modes; shape = (kind, format, window, depth, ofs, mode, delta-depth class, size class); non-trivial = the pack contains at least one delta entry (or is thin/duplicated); oracle = git index-pack --rev-index on the same bytes (cmp idx/rev; ids/offsets/crcs from git's idx; contents from git cat-file)",
		run)
}

var (
	depthMu         sync.Mutex
	maxDepthSeen    int
	copyOffBytesMax int
	copyOffsetMax   uint64
	bigBuildMs      int64
)

type seedRepo struct {
	*packlab.Repo
	truth    packlab.ObjMap
	idx      int
	huge     bool
	thinOnce sync.Once
	thinDir  string
	thinErr  error
}

type packCase struct {
	repo   *seedRepo
	kind   string // full | partial | thin | dup | fastimport | repack
	window int
	depth  int
	ofs    bool
	level  int
	tip    string
	have   string
	pack   []byte
	desc   string
}

// gitEntry is one pack entry as seen by git (or reported by go-git's observers).
type gitEntry struct {
	ID     string
	Type   string
	Size   int64
	Offset int64
	CRC    uint32
}

type recObserver struct {
	pending []struct {
		t    plumbing.ObjectType
		size int64
		pos  int64
	}
	entries []gitEntry
}

func (o *recObserver) OnHeader(uint32) error { return nil }
func (o *recObserver) OnInflatedObjectHeader(t plumbing.ObjectType, sz, pos int64) error {
	o.pending = append(o.pending, struct {
		t    plumbing.ObjectType
		size int64
		pos  int64
	}{t, sz, pos})
	return nil
}
func (o *recObserver) OnInflatedObjectContent(h plumbing.Hash, pos int64, crc uint32, _ []byte) error {
	e := gitEntry{ID: h.String(), Offset: pos, CRC: crc, Size: -1}
	for i := len(o.pending) - 1; i >= 0; i-- {
		if o.pending[i].pos == pos {
			e.Type = o.pending[i].t.String()
			e.Size = o.pending[i].size
			break
		}
	}
	o.entries = append(o.entries, e)
	return nil
}
func (o *recObserver) OnFooter(plumbing.Hash) error { return nil }

func run(c *vf.Ctx) {
	g := gitx.New(c.Scratch)
	nRepos := c.N(5, 14)
	perRepo := c.N(13, 30)

	// ---- the >16 MiB pair is built while the seed repositories are
	type bigRes struct {
		bp  *packlab.BigPair
		err error
	}
	bigCh := make(chan bigRes, 1)
	go func() {
		t0 := time.Now()
		bp, err := packlab.NewBigPair(g, filepath.Join(c.Scratch, "bigpair"), "sha1")
		bigBuildMs = time.Since(t0).Milliseconds()
		bigCh <- bigRes{bp, err}
	}()

	// ---- seed repositories
	repos := make([]*seedRepo, nRepos)
	vf.Parallel(nRepos, 5, func(i int) {
		r := c.Rand("repo", i)
		o := packlab.SeedOpts{Format: "sha1", Commits: 8 + r.Intn(c.N(22, 40)), Files: 3 + r.Intn(8), BigLines: 20 + r.Intn(200),
			EmptyTree: r.Intn(3) == 0, ATags: r.Intn(3)}
		if i%3 == 1 {
			o.Format = "sha256"
		}
		if i%4 == 2 {
			o.Huge = 1<<20 + 4096 + r.Intn(c.N(1<<19, 2<<20))
			o.Commits = 6 + r.Intn(10)
		}
		if i%5 == 4 {
			o.Commits = c.N(70, 120) // long evolving chains
			o.Files = 2
		}
		dir := filepath.Join(c.Scratch, fmt.Sprintf("seed%d", i))
		rp, err := packlab.Seed(g, dir, r, o)
		if err != nil {
			c.Broken("seed repo %d: %v", i, err)
			return
		}
		truth, err := packlab.CatFileAll(g, dir)
		if err != nil {
			c.Broken("ground truth repo %d: %v", i, err)
			return
		}
		for id, ob := range truth { // independent sanity of the ground truth itself
			if packlab.HashObj(o.Format, ob.Type, ob.Data) != id {
				c.Broken("ground truth object %s does not hash to its name", id)
			}
		}
		repos[i] = &seedRepo{Repo: rp, truth: truth, idx: i, huge: o.Huge > 0}
		c.Count("seed_objects", len(truth))
	})
	for _, r := range repos {
		if r == nil {
			return
		}
	}
	for _, f := range []string{"sha1", "sha256"} {
		if err := g.Init(filepath.Join(c.Scratch, "oracle-"+f), true, f); err != nil {
			c.Broken("oracle repo: %v", err)
			return
		}
	}

	// ---- a pair of blobs > 16 MiB, one stored as a delta of the other: copy offsets >= 2^24 (4 offset bytes)
	var cases []*packCase
	bigOK := false
	defer func() { c.Extra("bigpair_build_ms_informational", bigBuildMs) }()
	br := <-bigCh
	if bp, err := br.bp, br.err; err != nil {
		c.Broken("big pair repository: %v", err)
		return
	} else if !bp.Deltified {
		c.Count("bigdelta_skipped_git_did_not_deltify", 1)
	} else {
		truth, err := packlab.CatFileAll(g, bp.Dir)
		if err != nil {
			c.Broken("big pair ground truth: %v", err)
			return
		}
		bigOK = true
		brp := &seedRepo{Repo: bp.Repo, truth: truth, idx: nRepos, huge: true}
		// the pack git repack wrote (OFS_DELTA), and the same delta re-used as REF_DELTA
		cases = append(cases,
			&packCase{repo: brp, kind: "bigpair", window: 10, depth: 10, ofs: true, level: -1, pack: packlab.ReadFile(packlab.PackFiles(bp.GitDir)[0]), desc: "bigpair repack window=10 depth=10 (OFS_DELTA, copy offsets >= 2^24)"})
		if !c.Quick() { // every mode moves 34 MiB: the REF_DELTA variant and the full mode matrix are thorough-only
			cases = append(cases, &packCase{repo: brp, kind: "bigpair", window: 10, depth: 10, ofs: false, level: -1})
		}
	}
	for _, rp := range repos {
		r := c.Rand("cases", rp.idx)
		if pf := packlab.PackFiles(rp.GitDir); len(pf) == 1 { // the pack fast-import wrote
			cases = append(cases, &packCase{repo: rp, kind: "fastimport", window: -1, depth: -1, pack: packlab.ReadFile(pf[0]), desc: "fast-import pack"})
		}
		for k := 0; k < perRepo; k++ {
			pc := &packCase{repo: rp,
				window: []int{0, 1, 10, 250}[r.Intn(4)], depth: []int{1, 50, 4095}[r.Intn(3)], ofs: r.Intn(2) == 0,
				level: []int{-1, -1, 0, 1, 9}[r.Intn(5)]}
			switch x := r.Intn(20); {
			case x < 6:
				pc.kind = "full"
			case x < 10:
				pc.kind = "partial"
			case x < 16:
				pc.kind = "thin"
			case x < 18:
				pc.kind = "dup"
			default:
				pc.kind = "repack"
			}
			if pc.kind == "dup" {
				pc.ofs = true // git itself dies on a duplicated REF_DELTA base ("already resolved (duplicate base)")
			}
			if rp.huge && pc.window == 250 {
				pc.window = 10 // keep huge-blob delta search cheap
			}
			if len(rp.Commits) < 3 && (pc.kind == "partial" || pc.kind == "thin") {
				pc.kind = "full"
			}
			if pc.kind == "partial" || pc.kind == "thin" {
				t := 1 + r.Intn(len(rp.Commits)-1)
				h := r.Intn(t)
				pc.tip, pc.have = rp.Commits[t], rp.Commits[h]
			}
			cases = append(cases, pc)
		}
	}

	// ---- produce the packs with git, then evaluate
	vf.Parallel(len(cases), 6, func(i int) {
		pc := cases[i]
		if pc.pack == nil {
			if err := producePack(c, g, pc, i); err != nil {
				c.Broken("producing pack %d (%s): %v", i, pc.kind, err)
				return
			}
		}
		evalCase(c, g, pc, i)
		pc.pack = nil
	})

	c.Extra("git_invocations", gitx.Calls.Load())
	c.Extra("max_delta_depth_seen", maxDepthSeen)
	c.Extra("delta_copy_offset_bytes_max", copyOffBytesMax)
	c.Extra("delta_copy_offset_max", copyOffsetMax)
	c.Floor("delta copy instructions with a 3-byte base offset (>= 64 KiB) present", c.Counter("deltas_with_copy_offset_of_3_or_more_bytes"), 1)
	c.Floor("delta copy instructions of 0x10000 bytes present", c.Counter("delta_copy_ops_of_64KiB"), 1)
	if bigOK {
		c.Floor("packs whose deltas copy from base offsets >= 2^24 (4-byte copy offsets)", c.Counter("deltas_with_copy_offset_of_4_bytes"), c.N(1, 2))
	} else {
		c.Assume("git did not store the 17 MiB pair as a delta in this run: 4-byte copy offsets were not exercised (counted as bigdelta_skipped_git_did_not_deltify)")
	}
	c.Floor("packs evaluated", c.Counter("packs"), c.N(60, 320))
	c.Floor("pack x mode evaluations", c.Counter("mode_runs"), c.N(280, 1500))
	c.Floor("idx files compared byte-for-byte", c.Counter("idx_cmp"), c.N(120, 650))
	c.Floor("rev files compared byte-for-byte", c.Counter("rev_cmp"), c.N(120, 650))
	c.Floor("delta entries resolved and compared", c.Counter("delta_entries"), c.N(800, 5000))
	c.Floor("thin packs completed by both", c.Counter("thin_packs_completed"), c.N(6, 35))
	c.Floor("thin external bases resolved", c.Counter("thin_external_bases"), c.N(8, 50))
	c.Floor("sha256 packs", c.Counter("sha256_packs"), c.N(8, 60))
	c.Floor("packs with object > 1MiB", c.Counter("huge_packs"), c.N(3, 20))
	c.Floor("max delta depth seen", maxDepthSeen, 10)
	c.Floor("go-git output read by git", c.Counter("git_reads_gogit_output"), c.N(50, 320))
	c.Assume("git 2.39.5 index-pack/pack-objects are the reference; pack v2 / idx v2 / rev v1 formats are unchanged through git 2.54")
	c.Assume("packs with duplicated entries are hand-concatenated from git's own entries (git accepts them in index-pack/fetch but never emits them itself; only OFS_DELTA packs, since git dies on a duplicated REF_DELTA base)")
	c.Assume("idx entries with 64-bit offsets (packs > 2 GiB) are not produced here; covered synthetically by C10")
	c.Assume("thin packs are completed through Parser+WithStorage (go-git's transport never negotiates thin-pack and advertises no-thin, so PackfileWriter is not required to accept them)")
	c.Assume("per-entry types and sizes come from git cat-file of the seed repository keyed by the ids in git's idx; delta depth from an independent pack walker cross-checked against git's idx offsets")
}

func producePack(c *vf.Ctx, g *gitx.Git, pc *packCase, i int) error {
	rp := pc.repo
	gx := *g
	gx.Extra = append([]string{}, g.Extra...)
	if pc.level >= 0 {
		gx.Extra = append(gx.Extra, "-c", "pack.compression="+strconv.Itoa(pc.level))
	}
	if rp.huge && i%2 == 0 {
		gx.Extra = append(gx.Extra, "-c", "core.bigFileThreshold=600k")
	}
	args := []string{"pack-objects", "--stdout", "-q", "--window=" + strconv.Itoa(pc.window), "--depth=" + strconv.Itoa(pc.depth)}
	if pc.ofs {
		args = append(args, "--delta-base-offset")
	}
	pc.desc = fmt.Sprintf("%s window=%d depth=%d ofs=%v level=%d tip=%s have=%s", pc.kind, pc.window, pc.depth, pc.ofs, pc.level, pc.tip, pc.have)
	switch pc.kind {
	case "bigpair":
		res := gx.Run(rp.Dir, append(args, "--all")...) // re-uses the stored delta
		if !res.OK() {
			return fmt.Errorf("%s", res)
		}
		pc.pack = res.Out
	case "full", "dup":
		args = append(args, "--all", "--no-reuse-delta")
		res := gx.Run(rp.Dir, args...)
		if !res.OK() {
			return fmt.Errorf("%s", res)
		}
		pc.pack = res.Out
		if pc.kind == "dup" {
			return makeDup(c, pc, i)
		}
	case "partial", "thin":
		args = append(args, "--revs", "--include-tag")
		if pc.kind == "thin" {
			args = append(args, "--thin")
		}
		res := gx.RunIn(rp.Dir, []byte(pc.tip+"\n^"+pc.have+"\n"), args...)
		if !res.OK() {
			return fmt.Errorf("%s", res)
		}
		pc.pack = res.Out
	case "repack":
		cp := filepath.Join(c.Scratch, fmt.Sprintf("rp%d", i))
		if err := gitx.CopyDir(rp.Dir, cp); err != nil {
			return err
		}
		defer os.RemoveAll(cp)
		a := []string{"repack", "-a", "-d", "-f", "-q", "--window=" + strconv.Itoa(pc.window), "--depth=" + strconv.Itoa(pc.depth)}
		if !pc.ofs {
			gx.Extra = append(gx.Extra, "-c", "repack.useDeltaBaseOffset=false")
		}
		if res := gx.Run(cp, a...); !res.OK() {
			return fmt.Errorf("%s", res)
		}
		pf := packlab.PackFiles(filepath.Join(cp, ".git"))
		if len(pf) != 1 {
			return fmt.Errorf("repack left %d packs", len(pf))
		}
		pc.pack = packlab.ReadFile(pf[0])
	}
	return nil
}

// makeDup appends raw copies of some non-delta entries to the pack (duplicate objects).
func makeDup(c *vf.Ctx, pc *packCase, i int) error {
	hs := packlab.HashSize(pc.repo.Format)
	es, err := packlab.WalkPack(pc.pack, hs)
	if err != nil {
		return fmt.Errorf("walk: %w", err)
	}
	r := c.Rand("dup", i)
	body := append([]byte{}, pc.pack[:len(pc.pack)-hs]...)
	added := 0
	for _, e := range es {
		if e.Type <= 4 && r.Intn(4) == 0 && added < 5 {
			body = append(body, pc.pack[e.Off:e.End]...)
			added++
		}
	}
	if added == 0 {
		e := es[0]
		body = append(body, pc.pack[e.Off:e.End]...)
		added++
	}
	body = append(body, make([]byte, hs)...)
	body = packlab.SetCount(body, uint32(len(es)+added))
	pc.pack = packlab.Retrailer(body, pc.repo.Format)
	return nil
}

func sizeClass(n int) string {
	switch {
	case n < 4<<10:
		return "S"
	case n < 256<<10:
		return "M"
	case n < 1<<20:
		return "L"
	default:
		return "XL"
	}
}

func depthClass(d int) string {
	switch {
	case d == 0:
		return "d0"
	case d == 1:
		return "d1"
	case d <= 10:
		return "d2-10"
	case d <= 50:
		return "d11-50"
	default:
		return "d>50"
	}
}

func errClass(err error) string {
	switch {
	case err == nil:
		return "nil"
	case errors.Is(err, packfile.ErrReferenceDeltaNotFound):
		return "ref-delta-not-found"
	case errors.Is(err, plumbing.ErrObjectNotFound):
		return "object-not-found"
	case errors.Is(err, packfile.ErrMalformedPackfile):
		return "malformed"
	case errors.Is(err, packfile.ErrInflatedSizeMismatch):
		return "inflated-size"
	}
	s := err.Error()
	if len(s) > 40 {
		s = s[:40]
	}
	return strings.Map(func(r rune) rune {
		if r >= '0' && r <= '9' {
			return -1
		}
		return r
	}, s)
}

type gitView struct {
	entries  []gitEntry // sorted by offset (non-thin)
	idx      []byte
	rev      []byte
	objects  packlab.ObjMap // expected object set after the pack is stored (thin: includes the have closure)
	maxDepth int
	deltas   int
	haveIDs  []string
	// thin only
	nExternal         int
	chainedOnExternal bool
}

// gitIndex runs git over the pack bytes and collects the oracle view.
func gitIndex(c *vf.Ctx, g *gitx.Git, pc *packCase, i int) (*gitView, error) {
	gv := &gitView{objects: packlab.ObjMap{}}
	rp := pc.repo
	hs := packlab.HashSize(rp.Format)
	es, err := packlab.WalkPack(pc.pack, hs)
	if err != nil {
		return nil, fmt.Errorf("independent pack walker fails on a git pack: %w", err)
	}
	for _, e := range es { // which copy-instruction encodings does this pack exercise?
		if e.Type >= 6 {
			st := packlab.DeltaCopyStats(e.Data)
			c.Count("delta_copy_ops_of_64KiB", st.Size64KiBOps)
			if st.MaxOffsetLen >= 3 {
				c.Count("deltas_with_copy_offset_of_3_or_more_bytes", 1)
			}
			if st.MaxOffsetLen == 4 {
				c.Count("deltas_with_copy_offset_of_4_bytes", 1)
			}
			depthMu.Lock()
			copyOffBytesMax = max(copyOffBytesMax, st.MaxOffsetLen)
			copyOffsetMax = max(copyOffsetMax, st.MaxOffset)
			depthMu.Unlock()
		}
	}
	if pc.kind == "thin" {
		rp.thinOnce.Do(func() {
			rp.thinDir = filepath.Join(c.Scratch, fmt.Sprintf("thinfix%d", rp.idx))
			rp.thinErr = gitx.CopyDir(rp.Dir, rp.thinDir)
		})
		if rp.thinErr != nil {
			return nil, rp.thinErr
		}
		res := g.RunIn(rp.Dir, []byte(pc.have+"\n"), "rev-list", "--objects", "--stdin")
		if !res.OK() {
			return nil, fmt.Errorf("rev-list: %s", res)
		}
		pre := map[string]bool{}
		for _, ln := range strings.Split(strings.TrimSpace(string(res.Out)), "\n") {
			id := strings.Fields(ln)[0]
			gv.haveIDs = append(gv.haveIDs, id)
			pre[id] = true
			gv.objects[id] = rp.truth[id]
		}
		// git completes the thin pack (bases taken from the repository)
		res = g.RunIn(rp.thinDir, pc.pack, "index-pack", "--fix-thin", "--stdin")
		if !res.OK() {
			return nil, fmt.Errorf("index-pack --fix-thin: %s", res)
		}
		f := strings.Fields(string(res.Out))
		if len(f) != 2 {
			return nil, fmt.Errorf("index-pack --fix-thin output %q", res.Out)
		}
		idx := packlab.ReadFile(filepath.Join(rp.thinDir, ".git", "objects", "pack", "pack-"+f[1]+".idx"))
		ies, err := packlab.ParseIdxV2(idx, hs)
		if err != nil {
			return nil, err
		}
		if len(ies) < len(es) {
			return nil, fmt.Errorf("fixed pack has fewer entries than the thin pack")
		}
		for _, e := range ies {
			ob, ok := rp.truth[e.ID]
			if !ok {
				return nil, fmt.Errorf("completed pack object %s unknown to the seed repository", e.ID)
			}
			gv.objects[e.ID] = ob
		}
		extRoot := map[int]bool{} // entry offset -> chain rooted at an external-base ref-delta
		for _, e := range es {
			switch e.Type {
			case 7:
				if pre[fmt.Sprintf("%x", e.BaseRef)] {
					gv.nExternal++
					extRoot[e.Off] = true
				}
			case 6:
				if extRoot[e.BaseOff] {
					extRoot[e.Off] = true
					gv.chainedOnExternal = true
				}
			}
			if e.Type >= 6 {
				gv.deltas++
			}
		}
		return gv, nil
	}
	work := filepath.Join(c.Scratch, "oracle-"+rp.Format)
	name := fmt.Sprintf("c%d", i)
	if err := os.WriteFile(filepath.Join(work, name+".pack"), pc.pack, 0o644); err != nil {
		return nil, err
	}
	defer func() {
		for _, ext := range []string{".pack", ".idx", ".rev"} {
			os.Remove(filepath.Join(work, name+ext))
		}
	}()
	if res := g.Run(work, "index-pack", "--rev-index", name+".pack"); !res.OK() {
		return nil, fmt.Errorf("index-pack: %s", res)
	}
	gv.idx = packlab.ReadFile(filepath.Join(work, name+".idx"))
	gv.rev = packlab.ReadFile(filepath.Join(work, name+".rev"))
	ies, err := packlab.ParseIdxV2(gv.idx, hs)
	if err != nil {
		return nil, err
	}
	if len(ies) != len(es) {
		return nil, fmt.Errorf("git idx has %d entries, walker found %d", len(ies), len(es))
	}
	atOff := map[int64]packlab.IdxEntry{}
	offOf := map[string]int{}
	for _, e := range ies {
		atOff[e.Offset] = e
		offOf[e.ID] = int(e.Offset)
	}
	depth := map[int]int{}
	for _, e := range es {
		ie, ok := atOff[int64(e.Off)]
		if !ok {
			return nil, fmt.Errorf("walker entry at %d not in git's idx", e.Off)
		}
		ob, ok := rp.truth[ie.ID]
		if !ok {
			return nil, fmt.Errorf("pack object %s unknown to the seed repository", ie.ID)
		}
		gv.entries = append(gv.entries, gitEntry{ID: ie.ID, Type: ob.Type, Size: int64(len(ob.Data)), Offset: ie.Offset, CRC: ie.CRC})
		gv.objects[ie.ID] = ob
		switch e.Type {
		case 6:
			depth[e.Off] = depth[e.BaseOff] + 1
		case 7:
			depth[e.Off] = depth[offOf[fmt.Sprintf("%x", e.BaseRef)]] + 1
		}
		if e.Type >= 6 {
			gv.deltas++
			gv.maxDepth = max(gv.maxDepth, depth[e.Off])
		}
	}
	return gv, nil
}

var errGitCannotRead = errors.New("git cannot read through go-git's idx")

type modeResult struct {
	err     error
	entries []gitEntry
	idx     []byte
	rev     []byte
	objects packlab.ObjMap
	footer  string
}

func encodeIdxRev(w *idxfile.Writer, format string) (idx, rev []byte, err error) {
	mi, err := w.Index()
	if err != nil {
		return nil, nil, err
	}
	var ib, rb bytes.Buffer
	if err := idxfile.Encode(&ib, packlab.NewHash(format), mi); err != nil {
		return nil, nil, fmt.Errorf("idx encode: %w", err)
	}
	if err := revfile.Encode(&rb, packlab.NewHash(format), mi); err != nil {
		return nil, nil, fmt.Errorf("rev encode: %w", err)
	}
	return ib.Bytes(), rb.Bytes(), nil
}

func parseWith(rd io.Reader, format string, st storer.EncodedObjectStorer, high bool) modeResult {
	var mr modeResult
	w := new(idxfile.Writer)
	rec := &recObserver{}
	opts := []packfile.ParserOption{packfile.WithObjectFormat(packlab.GoFormat(format)), packfile.WithScannerObservers(w, rec)}
	if st != nil {
		opts = append(opts, packfile.WithStorage(st))
	}
	if high {
		opts = append(opts, packfile.WithHighMemoryMode())
	}
	p := packfile.NewParser(rd, opts...)
	h, err := p.Parse()
	if err != nil {
		mr.err = err
		return mr
	}
	mr.footer = h.String()
	mr.entries = rec.entries
	sort.SliceStable(mr.entries, func(a, b int) bool { return mr.entries[a].Offset < mr.entries[b].Offset })
	mr.idx, mr.rev, mr.err = encodeIdxRev(w, format)
	return mr
}

func newFS(dir string, high bool, format string) *filesystem.Storage {
	return filesystem.NewStorageWithOptions(osfs.New(dir), cache.NewObjectLRUDefault(),
		filesystem.Options{HighMemoryMode: high, ObjectFormat: packlab.GoFormat(format)})
}

func evalCase(c *vf.Ctx, g *gitx.Git, pc *packCase, i int) {
	rp := pc.repo
	if pc.kind == "bigpair" {
		defer func(t0 time.Time) { c.Count("ms_bigpair_cases_informational", int(time.Since(t0).Milliseconds())) }(time.Now())
	}
	t00 := time.Now()
	gv, err := gitIndex(c, g, pc, i)
	c.Count("ms_git_oracle", int(time.Since(t00).Milliseconds()))
	if err != nil {
		c.Broken("git oracle failed on its own pack %d (%s): %v", i, pc.desc, err)
		return
	}
	c.Count("packs", 1)
	c.Count("git_confirmations", 1)
	if rp.Format == "sha256" {
		c.Count("sha256_packs", 1)
	}
	if rp.huge {
		for _, e := range gv.entries {
			if e.Size > 1<<20 {
				c.Count("huge_packs", 1)
				break
			}
		}
	}
	c.Count("delta_entries", gv.deltas)
	depthMu.Lock()
	maxDepthSeen = max(maxDepthSeen, gv.maxDepth)
	depthMu.Unlock()
	c.Seen("kinds", pc.kind)
	thin := pc.kind == "thin"
	dup := pc.kind == "dup"
	hs := packlab.HashSize(rp.Format)
	trailer := fmt.Sprintf("%x", pc.pack[len(pc.pack)-hs:])
	if thin {
		c.Count("thin_packs", 1)
		if gv.chainedOnExternal {
			c.Count("thin_packs_with_ofs_chain_on_external_base", 1)
		}
	}

	type mode struct {
		name string
		run  func() modeResult
	}
	repoCase := map[string]any{"seed": c.Seed, "tier": c.Tier, "case": i, "repo": rp.idx, "format": rp.Format, "desc": pc.desc, "pack_len": len(pc.pack), "trailer": trailer}

	preload := func(st storer.EncodedObjectStorer) error {
		// thin: bases = closure of have, loaded through go-git's own API
		for _, id := range gv.haveIDs {
			ob := rp.truth[id]
			o := st.NewEncodedObject()
			t, _ := plumbing.ParseObjectType(ob.Type)
			o.SetType(t)
			o.SetSize(int64(len(ob.Data)))
			w, _ := o.Writer()
			w.Write(ob.Data)
			w.Close()
			if _, err := st.SetEncodedObject(o); err != nil {
				return err
			}
		}
		return nil
	}
	memMode := func(name string, rd func() io.Reader) mode {
		return mode{name, func() modeResult {
			st := memory.NewStorage(memory.WithObjectFormat(packlab.GoFormat(rp.Format)))
			if err := preload(st); err != nil {
				return modeResult{err: fmt.Errorf("preload: %w", err)}
			}
			mr := parseWith(rd(), rp.Format, st, false)
			if mr.err == nil {
				mr.objects, mr.err = packlab.StorerObjects(st)
			}
			return mr
		}}
	}
	fsMode := func(name string, high, stream bool) mode {
		return mode{name, func() modeResult {
			dir := filepath.Join(c.Scratch, fmt.Sprintf("fs%d-%s", i, name))
			defer os.RemoveAll(dir)
			if err := packlab.MakeBare(dir, rp.Format); err != nil {
				return modeResult{err: err}
			}
			st := newFS(dir, high, rp.Format)
			defer st.Close()
			if err := preload(st); err != nil {
				return modeResult{err: fmt.Errorf("preload: %w", err)}
			}
			var rd io.Reader = bytes.NewReader(pc.pack)
			if stream {
				rd = packlab.NonSeekable{R: bytes.NewReader(pc.pack)}
			}
			mr := parseWith(rd, rp.Format, st, high)
			if mr.err != nil {
				return mr
			}
			// what git reads from the directory go-git wrote
			all, err := packlab.CatFileAll(g, dir)
			if err != nil {
				mr.err = fmt.Errorf("git cannot read go-git's output: %w", err)
				return mr
			}
			c.Count("git_reads_gogit_output", 1)
			mr.objects = all
			// and what go-git reads back through a fresh instance
			st2 := newFS(dir, high, rp.Format)
			defer st2.Close()
			back, err := packlab.StorerObjects(st2)
			if err != nil {
				mr.err = fmt.Errorf("go-git cannot read back: %w", err)
				return mr
			}
			if d := packlab.Diff(all, back); d != "" {
				mr.err = fmt.Errorf("go-git read-back differs from git's view of the same directory: %s", d)
			}
			return mr
		}}
	}
	pwMode := mode{"fs-packwriter", func() modeResult {
		dir := filepath.Join(c.Scratch, fmt.Sprintf("fs%d-pw", i))
		defer os.RemoveAll(dir)
		if err := packlab.MakeBare(dir, rp.Format); err != nil {
			return modeResult{err: err}
		}
		st := newFS(dir, false, rp.Format)
		defer st.Close()
		var mr modeResult
		if err := packfile.UpdateObjectStorage(st, packlab.SmallReads(pc.pack, c.Rand("pw", i), 4+i%5)); err != nil {
			mr.err = err
			return mr
		}
		base := filepath.Join(dir, "objects", "pack", "pack-"+trailer)
		pk, err := os.ReadFile(base + ".pack")
		if err != nil {
			mr.err = fmt.Errorf("stored pack: %w", err)
			return mr
		}
		if !bytes.Equal(pk, pc.pack) {
			mr.err = fmt.Errorf("stored pack bytes differ from the input")
			return mr
		}
		if mr.idx, err = os.ReadFile(base + ".idx"); err != nil {
			mr.err = err
			return mr
		}
		if mr.rev, err = os.ReadFile(base + ".rev"); err != nil {
			mr.err = err
			return mr
		}
		// git reads the objects through go-git's idx/rev
		all, err := packlab.CatFileAll(g, dir)
		if err != nil {
			mr.err = fmt.Errorf("%w: %v", errGitCannotRead, err)
			return mr
		}
		c.Count("git_reads_gogit_output", 1)
		mr.objects = all
		// read through the storage instance that wrote it
		back, err := packlab.StorerObjects(st)
		if err != nil {
			mr.err = fmt.Errorf("go-git cannot read back: %w", err)
			return mr
		}
		if d := packlab.Diff(all, back); d != "" {
			mr.err = fmt.Errorf("go-git read-back (writer instance) differs from git's view of the same directory: %s", d)
		}
		return mr
	}}

	var modes []mode
	if !thin {
		modes = append(modes,
			mode{"nostorage-seek", func() modeResult { return parseWith(bytes.NewReader(pc.pack), rp.Format, nil, false) }},
			mode{"nostorage-stream", func() modeResult {
				return parseWith(packlab.NonSeekable{R: bytes.NewReader(pc.pack)}, rp.Format, nil, false)
			}},
		)
	}
	modes = append(modes,
		memMode("memory-seek", func() io.Reader { return bytes.NewReader(pc.pack) }),
		memMode("memory-stream", func() io.Reader { return packlab.SmallReads(pc.pack, c.Rand("chunks", i), 4+i%9) }),
	)
	if i%6 == 0 {
		modes = append(modes, memMode("memory-stream-short-first-read", func() io.Reader { return packlab.SmallReads(pc.pack, c.Rand("chunks1", i), 1+(i/6)%3) }))
	}
	// the filesystem modes write one loose object per pack object: rotate them over the packs
	fsModes := []mode{fsMode("fs-low-seek", false, false), fsMode("fs-high-seek", true, false), fsMode("fs-low-stream", false, true)}
	switch {
	case c.Tier == "thorough" || thin:
		modes = append(modes, fsModes[i%3])
	case i%2 == 0 && len(pc.pack) < 600<<10, i%6 == 0:
		modes = append(modes, fsModes[(i/2)%3])
	}
	if !thin {
		modes = append(modes, pwMode)
	}

	if pc.kind == "bigpair" && c.Quick() {
		// quick tier: the plain parser and the production path (PackfileWriter) only
		modes = []mode{{"nostorage-seek", func() modeResult { return parseWith(bytes.NewReader(pc.pack), rp.Format, nil, false) }}, pwMode}
	}
	thinCompleted := false
	for _, m := range modes {
		var mr modeResult
		t0 := time.Now()
		p, st := vf.Catch(func() { mr = m.run() })
		c.Count("ms_"+m.name, int(time.Since(t0).Milliseconds())) // informational only
		c.Count("mode_runs", 1)
		c.Seen("modes", m.name)
		shape := strings.Join([]string{pc.kind, rp.Format, strconv.Itoa(pc.window), strconv.Itoa(pc.depth), strconv.FormatBool(pc.ofs), m.name, depthClass(gv.maxDepth), sizeClass(len(pc.pack))}, "|")
		c.Eval(shape, gv.deltas > 0 || thin || dup)
		fail := func(clause, what string) {
			key := m.name + ":" + clause
			if thin {
				key = "thin:" + key
			} else if dup {
				key = "dup:" + key
			}
			rc := map[string]any{"mode": m.name}
			for k, v := range repoCase {
				rc[k] = v
			}
			c.Fail(key, fmt.Sprintf("pack[%s] mode %s: %s", pc.desc, m.name, what), rc)
		}
		if p != nil {
			fail("panic", fmt.Sprintf("panic: %v\n%s", p, st))
			continue
		}
		if mr.err != nil {
			ec := errClass(mr.err)
			switch {
			case thin && gv.chainedOnExternal && ec == "object-not-found" && strings.Contains(mr.err.Error(), "processing ofs-delta"):
				// mode-independent: Parser.resolveDeltas
				c.Fail("thin:ofs-delta-chained-on-external-base-delta:error:object-not-found",
					fmt.Sprintf("pack[%s] mode %s: thin pack in which an OFS_DELTA's base is a REF_DELTA with an external base: git index-pack --fix-thin completes it, go-git: %v", pc.desc, m.name, mr.err), repoCase)
			case m.name == "memory-stream-short-first-read" && ec == "malformed" && strings.Contains(mr.err.Error(), "bad signature"):
				c.Fail("stream-first-read-shorter-than-4-bytes:bad-signature",
					fmt.Sprintf("pack[%s]: the reader returned fewer than 4 bytes on its first Read (allowed by io.Reader); go-git: %v", pc.desc, mr.err), repoCase)
			case dup && m.name == "fs-packwriter" && errors.Is(mr.err, errGitCannotRead) && dupIdxShort(mr.idx, gv.idx, hs):
				c.Fail("dup:fs-packwriter:git-cannot-read-pack",
					fmt.Sprintf("pack[%s]: pack with duplicated entries stored through PackfileWriter; go-git's idx has fewer entries than the pack header announces and git refuses every object of the pack: %v", pc.desc, mr.err), repoCase)
			default:
				fail("error:"+ec, "go-git fails on a pack git indexes: "+mr.err.Error())
			}
			continue
		}
		if mr.footer != "" && mr.footer != trailer {
			fail("checksum", fmt.Sprintf("Parse returned checksum %s, trailer is %s", mr.footer, trailer))
		}
		// per-entry view
		if mr.entries != nil && !thin && !dup {
			if d := cmpEntries(gv.entries, mr.entries); d != "" {
				fail("entries:"+strings.SplitN(d, " ", 2)[0], d)
			}
			c.Count("entries_compared", len(gv.entries))
		}
		// idx / rev bytes
		if mr.idx != nil && !thin {
			if dup {
				c.Count("dup_idx_cmp", 1)
				if !bytes.Equal(mr.idx, gv.idx) {
					if dupIdxShort(mr.idx, gv.idx, hs) {
						c.Fail("dup:idx-omits-duplicate-entries",
							fmt.Sprintf("pack[%s] mode %s: pack with duplicated entries: git index-pack writes one idx entry per pack entry, go-git's idx Writer drops the repeated ids (entry count below the pack header's object count)", pc.desc, m.name), repoCase)
					} else {
						fail("idx-bytes", fmt.Sprintf("idx differs from git's: %s", firstDiff(gv.idx, mr.idx)))
					}
				}
			} else {
				c.Count("idx_cmp", 1)
				if !bytes.Equal(mr.idx, gv.idx) {
					fail("idx-bytes", fmt.Sprintf("idx differs from git's: %s", firstDiff(gv.idx, mr.idx)))
				}
				c.Count("rev_cmp", 1)
				if !bytes.Equal(mr.rev, gv.rev) {
					fail("rev-bytes", fmt.Sprintf("rev differs from git's: %s", firstDiff(gv.rev, mr.rev)))
				}
			}
		}
		// resolved objects
		if mr.objects != nil {
			if d := packlab.Diff(gv.objects, mr.objects); d != "" {
				fail("objects:"+packlab.DiffClass(d), "resolved objects differ from git's: "+d)
			}
			c.Count("objects_compared", len(gv.objects))
			if thin && !thinCompleted {
				thinCompleted = true
				c.Count("thin_packs_completed", 1)
				c.Count("thin_external_bases", gv.nExternal)
			}
		}
	}
	if i%17 == 0 || thin && c.Counter("thin_packs") <= 1 {
		c.Sample(map[string]any{"pack": pc.desc, "format": rp.Format, "bytes": len(pc.pack), "entries": len(gv.entries), "deltas": gv.deltas, "max_depth": gv.maxDepth, "objects_expected": len(gv.objects)})
	}
}

// dupIdxShort reports whether go-git's idx is git's idx minus the repeated ids (and nothing else differs in the id set).
func dupIdxShort(gogit, git []byte, hs int) bool {
	a, err1 := packlab.ParseIdxV2(gogit, hs)
	b, err2 := packlab.ParseIdxV2(git, hs)
	if err1 != nil || err2 != nil || len(a) >= len(b) {
		return false
	}
	seen := map[string]bool{}
	n := 0
	for _, e := range b {
		if !seen[e.ID] {
			seen[e.ID] = true
			n++
		}
	}
	if n != len(a) {
		return false
	}
	for _, e := range a {
		if !seen[e.ID] {
			return false
		}
	}
	return true
}

func cmpEntries(want, got []gitEntry) string {
	if len(want) != len(got) {
		return fmt.Sprintf("count git=%d go-git=%d", len(want), len(got))
	}
	for i := range want {
		w, g := want[i], got[i]
		switch {
		case w.Offset != g.Offset:
			return fmt.Sprintf("offset entry %d: git %d go-git %d", i, w.Offset, g.Offset)
		case w.ID != g.ID:
			return fmt.Sprintf("id at offset %d: git %s go-git %s", w.Offset, w.ID, g.ID)
		case w.Type != g.Type:
			return fmt.Sprintf("type of %s: git %s go-git %s", w.ID, w.Type, g.Type)
		case w.Size != g.Size:
			return fmt.Sprintf("size of %s: git %d go-git %d", w.ID, w.Size, g.Size)
		case w.CRC != g.CRC:
			return fmt.Sprintf("crc of %s: git %08x go-git %08x", w.ID, w.CRC, g.CRC)
		}
	}
	return ""
}

func firstDiff(a, b []byte) string {
	n := min(len(a), len(b))
	for i := 0; i < n; i++ {
		if a[i] != b[i] {
			return fmt.Sprintf("first difference at byte %d (git %02x, go-git %02x); lengths %d/%d", i, a[i], b[i], len(a), len(b))
		}
	}
	return fmt.Sprintf("lengths git=%d go-git=%d, common prefix equal", len(a), len(b))
}
