// C53: decoders of untrusted input never crash, hang or over-allocate.
//
// Monitor: coverage-guided native Go fuzzing of the real go-git decoders
// (verif/fuzz, one target per decoder family) with three oracles applied to
// every execution (panic, CPU-time watchdog, allocation bound), seeded from
// structured corpora that this check generates with real git and with
// go-git's own encoders. The fuzz test binary is built once
// (`go test -c -fuzz=. -tags verif`, against $VERIF_REPO or /repo) and run
// from a scratch working directory, so corpus, cache and crasher files stay
// inside c.Scratch. The repository's own Fuzz* targets are run on a scratch
// copy of the repository.
package main

import (
	"bufio"
	"bytes"
	"context"
	"encoding/base64"
	"encoding/json"
	"flag"
	"fmt"
	"os"
	"os/exec"
	"path/filepath"
	"regexp"
	"sort"
	"strconv"
	"strings"
	"sync"
	"time"

	"verif/internal/fuzzkey"
	"verif/internal/gitx"
	"verif/internal/vf"
)

// plan: target -> relative share of the execution budget.
var plan = []struct {
	name   string
	weight int
}{
	{"FuzzObject", 3}, {"FuzzObjfile", 2}, {"FuzzPackScanner", 2}, {"FuzzPackParser", 3}, {"FuzzPackfile", 2},
	{"FuzzIdx", 3}, {"FuzzMmapPack", 2}, {"FuzzRev", 1}, {"FuzzIndex", 3}, {"FuzzCommitGraph", 3},
	{"FuzzConfig", 2}, {"FuzzGitignore", 2}, {"FuzzGitattributes", 1}, {"FuzzReflog", 1}, {"FuzzPktline", 2},
	{"FuzzPackp", 6}, {"FuzzCapability", 1}, {"FuzzRevision", 2}, {"FuzzDelta", 2}, {"FuzzRefs", 2}, {"FuzzURL", 1},
}

const (
	toolchain = "/root/go/pkg/mod/golang.org/toolchain@v0.0.1-go1.26.0.linux-amd64/bin"
)

type runner struct {
	c       *vf.Ctx
	harness string
	repo    string
	bin     string
	work    string // cwd of the test binary: testdata/fuzz/<Target>/ lives here
	cache   string
	tmp     string
	env     []string
	mu      sync.Mutex
	failed  map[string]bool // report files already turned into findings
	known   map[string]bool // finding keys listed as known for C53
	unknown map[string]bool // targets (key prefix up to ':') with a finding that is not listed
}

// fail reports a finding and remembers whether its key is a listed one: the
// fuzz loop resumes a target after a worker death only for listed findings
// (to finish the budget on the unchanged tree); an unlisted one already fails
// the run, and replaying heavy crashers again and again would only cost time.
func (r *runner) fail(key, what string, replay any) {
	if !r.known[key] {
		r.mu.Lock()
		r.unknown[strings.SplitN(key, ":", 2)[0]] = true
		r.mu.Unlock()
	}
	r.c.Fail(key, what, replay)
}

// failRep reports one oracle report produced by a single-input run.
func (r *runner) failRep(x report, origin string) {
	if x.Kind == "alloc-unsited" {
		r.c.Inconclusive("%s mode=%s: allocation-bound exceedance (%d B for %d input bytes) whose site could not be attributed", x.Target, x.Mode, x.Alloc, x.InputLen)
		return
	}
	r.fail(x.Key, fmt.Sprintf("%s mode=%s input_len=%d: %s: %s", x.Target, x.Mode, x.InputLen, x.Kind, x.Msg), replayCase(x.Target, x.Corpus, origin))
}

func loadKnownKeys() map[string]bool {
	m := map[string]bool{}
	files, _ := filepath.Glob(filepath.Join(vf.VerifRoot, "known-findings.d", "*.jsonl"))
	files = append(files, filepath.Join(vf.VerifRoot, "known-findings.jsonl"))
	for _, f := range files {
		b, err := os.ReadFile(f)
		if err != nil {
			continue
		}
		for _, ln := range strings.Split(string(b), "\n") {
			var e struct{ Property, Key, Status string }
			if json.Unmarshal([]byte(strings.TrimSpace(ln)), &e) == nil && e.Property == "C53" && e.Status == "known" {
				m[e.Key] = true
			}
		}
	}
	return m
}

func main() {
	vf.Main("C53", "exploration",
		"cases = executions of native Go fuzz targets (one per decoder family: objects, loose objects, pack scanner/parser/random access, idx, mmap pack, rev, index, commit-graph, config, gitignore, gitattributes, reflog, pkt-line+sideband, 18 packp messages, capability lists, revisions, deltas, ref files, URLs) mutated by the coverage-guided engine from git-/go-git-produced seeds; every execution is judged by three oracles (panic, CPU-time watchdog, TotalAlloc bound 64MiB+4096*len); non-trivial/distinct = a (target, decode mode) pair in which at least one input was accepted by the decoder (success path reached) during this run",
		run)
}

func goEnv() []string {
	env := os.Environ()
	has := func(k string) bool { return os.Getenv(k) != "" }
	if !strings.Contains(os.Getenv("PATH"), "toolchain@v0.0.1-go1.26.0") {
		env = append(env, "PATH="+toolchain+":"+os.Getenv("PATH"))
	}
	if !has("GOTOOLCHAIN") {
		env = append(env, "GOTOOLCHAIN=local")
	}
	if !has("GOFLAGS") {
		env = append(env, "GOFLAGS=-mod=mod")
	}
	if !has("GOPROXY") {
		env = append(env, "GOPROXY=off")
	}
	if !has("GONOSUMDB") {
		env = append(env, "GONOSUMDB=*", "GONOSUMCHECK=1")
	}
	return env
}

type cmdResult struct {
	out     string
	code    int
	timeout bool
	wall    time.Duration
}

func runCmd(dir string, env []string, timeout time.Duration, name string, args ...string) cmdResult {
	ctx, cancel := context.WithTimeout(context.Background(), timeout)
	defer cancel()
	cmd := exec.CommandContext(ctx, name, args...)
	cmd.Dir = dir
	cmd.Env = env
	cmd.WaitDelay = 10 * time.Second
	var out bytes.Buffer
	cmd.Stdout, cmd.Stderr = &out, &out
	t0 := time.Now()
	err := cmd.Run()
	r := cmdResult{out: out.String(), wall: time.Since(t0)}
	if ctx.Err() != nil {
		r.timeout, r.code = true, -1
		return r
	}
	if err != nil {
		if ee, ok := err.(*exec.ExitError); ok {
			r.code = ee.ExitCode()
		} else {
			r.code = -1
			r.out += "\n" + err.Error()
		}
	}
	return r
}

func (r *runner) build() bool {
	c := r.c
	args := []string{"test", "-c", "-fuzz=.", "-tags", "verif", "-trimpath"}
	if r.repo != "/repo" {
		// self-test against a mutated copy of the repository (mutate.sh): same recipe as run.sh
		mod, err := os.ReadFile(filepath.Join(r.harness, "go.mod"))
		c.Must(err, "read go.mod")
		alt := strings.Replace(string(mod), "=> /repo", "=> "+r.repo, 1)
		if alt == string(mod) {
			c.Broken("go.mod has no `=> /repo` replace directive to redirect to %s", r.repo)
			return false
		}
		mf := filepath.Join(c.Scratch, "go.alt.mod")
		c.Must(os.WriteFile(mf, []byte(alt), 0o644), "write alt go.mod")
		sum, _ := os.ReadFile(filepath.Join(r.harness, "go.sum"))
		c.Must(os.WriteFile(filepath.Join(c.Scratch, "go.alt.sum"), sum, 0o644), "write alt go.sum")
		args = append(args, "-modfile="+mf)
	}
	args = append(args, "-o", r.bin, "./fuzz")
	res := runCmd(r.harness, r.env, 40*time.Minute, "go", args...)
	c.Extra("build_wall_s", res.wall.Seconds())
	if res.timeout {
		c.Inconclusive("building the instrumented fuzz binary timed out after %v", res.wall)
		return false
	}
	if res.code != 0 {
		c.Broken("go test -c -fuzz failed: %s", tail(res.out, 2000))
		return false
	}
	return true
}

func tail(s string, n int) string {
	if len(s) > n {
		return "…" + s[len(s)-n:]
	}
	return s
}

// testEnv is the environment of one run of the fuzz binary.
func (r *runner) testEnv(reportDir string, extra ...string) []string {
	env := append([]string{}, r.env...)
	env = append(env, "VERIF_FUZZ_REPORT="+reportDir, "VERIF_FUZZ_TMP="+r.tmp, "GOMAXPROCS=2", "VERIF_FUZZ_AS_MB=8192", "GOTRACEBACK=all")
	return append(env, extra...)
}

type modeStats struct {
	Execs        int64   `json:"execs"`
	OK           int64   `json:"ok"`
	Skipped      int64   `json:"skipped"`
	Panics       int64   `json:"panics"`
	AllocOver    int64   `json:"alloc_over"`
	AllocUnsited int64   `json:"alloc_over_site_unknown"`
	MaxAlloc     uint64  `json:"max_alloc"`
	MaxAllocLen  int     `json:"max_alloc_len"`
	MaxFrac      float64 `json:"max_frac_of_bound"`
	MaxPerByte   float64 `json:"max_alloc_per_input_byte"`
}

type report struct {
	Target   string `json:"target"`
	Mode     string `json:"mode"`
	Kind     string `json:"kind"`
	Key      string `json:"key"`
	Msg      string `json:"msg"`
	Stack    string `json:"stack"`
	Corpus   string `json:"corpus"`
	InputLen int    `json:"input_len"`
	Alloc    uint64 `json:"alloc_bytes"`
	Bound    uint64 `json:"alloc_bound"`
	file     string
}

func readStats(dir string) map[string]*modeStats {
	total := map[string]*modeStats{}
	files, _ := filepath.Glob(filepath.Join(dir, "stats-*.json"))
	for _, f := range files {
		b, err := os.ReadFile(f)
		if err != nil {
			continue
		}
		m := map[string]*modeStats{}
		if json.Unmarshal(b, &m) != nil {
			continue
		}
		for k, v := range m {
			t := total[k]
			if t == nil {
				t = &modeStats{}
				total[k] = t
			}
			t.Execs += v.Execs
			t.OK += v.OK
			t.Skipped += v.Skipped
			t.Panics += v.Panics
			t.AllocOver += v.AllocOver
			t.AllocUnsited += v.AllocUnsited
			if v.MaxAlloc > t.MaxAlloc {
				t.MaxAlloc, t.MaxAllocLen = v.MaxAlloc, v.MaxAllocLen
			}
			if v.MaxFrac > t.MaxFrac {
				t.MaxFrac = v.MaxFrac
			}
			if v.MaxPerByte > t.MaxPerByte {
				t.MaxPerByte = v.MaxPerByte
			}
		}
	}
	return total
}

func readReports(dir string) []report {
	var out []report
	files, _ := filepath.Glob(filepath.Join(dir, "report-*.json"))
	sort.Strings(files)
	for _, f := range files {
		b, err := os.ReadFile(f)
		if err != nil {
			continue
		}
		var rp report
		if json.Unmarshal(b, &rp) == nil && rp.Key != "" {
			rp.file = f
			out = append(out, rp)
		}
	}
	return out
}

// replayCase is what lands in the replay file of a finding.
func replayCase(target, corpus, origin string) map[string]any {
	return map[string]any{"target": target, "corpus_file_base64": base64.StdEncoding.EncodeToString([]byte(corpus)), "origin": origin,
		"how": "write corpus_file (base64-decoded) to <dir>/testdata/fuzz/" + target + "/x and run the fuzz test binary in <dir> with -test.run '^" + target + "$/^x$'; ./run.sh C53 --replay <this file> does that"}
}

// failReports turns oracle reports of the fuzz workers into findings. Hang
// reports are only suspects here (see confirmHang).
func (r *runner) failReports(dir, origin string) (hangs []report) {
	for _, rp := range readReports(dir) {
		r.mu.Lock()
		seen := r.failed[rp.file]
		r.failed[rp.file] = true
		r.mu.Unlock()
		if seen {
			continue
		}
		if rp.Kind == "hang" {
			hangs = append(hangs, rp)
			continue
		}
		if rp.Kind == "alloc-unsited" {
			// over the bound in the worker, but the worker could not name the site (loaded
			// machine): repeat the input alone, where the profiled re-run has the process to itself
			_, reps := r.runSingle(rp.Target, rp.Corpus, "unsited", 45*time.Minute)
			done := false
			for _, x := range reps {
				if x.Kind == "alloc" || x.Kind == "panic" {
					r.failRep(x, origin)
					done = true
				}
			}
			if !done {
				r.c.Inconclusive("%s mode=%s: an allocation-bound exceedance (%d B for %d input bytes) could not be attributed to a site, neither in the worker nor when repeated alone", rp.Target, rp.Mode, rp.Alloc, rp.InputLen)
			}
			continue
		}
		what := fmt.Sprintf("%s mode=%s input_len=%d: %s: %s | top of stack: %s", rp.Target, rp.Mode, rp.InputLen, rp.Kind, rp.Msg, firstLines(stackAfterPanic(rp.Stack), 6))
		r.fail(rp.Key, what, replayCase(rp.Target, rp.Corpus, origin))
		r.c.Count("oracle_reports_"+rp.Kind, 1)
	}
	return hangs
}

func stackAfterPanic(st string) string {
	if i := strings.LastIndex(st, "\npanic("); i >= 0 {
		return st[i+1:]
	}
	return st
}

func firstLines(s string, n int) string {
	ls := strings.Split(strings.TrimSpace(s), "\n")
	if len(ls) > n {
		ls = ls[:n]
	}
	for i := range ls {
		ls[i] = strings.TrimSpace(ls[i])
	}
	return strings.Join(ls, " < ")
}

// runSingle runs one corpus entry alone in a fresh process (-test.run) and
// returns the output and the reports it produced.
func (r *runner) runSingle(target, corpus, tag string, timeout time.Duration, extraEnv ...string) (cmdResult, []report) {
	dir := r.c.TempDir("single-" + tag)
	cd := filepath.Join(dir, "testdata", "fuzz", target)
	r.c.Must(os.MkdirAll(cd, 0o755), "mkdir single")
	r.c.Must(os.WriteFile(filepath.Join(cd, "x"), []byte(corpus), 0o644), "write single")
	rep := filepath.Join(dir, "rep")
	_ = os.MkdirAll(rep, 0o755)
	res := runCmd(dir, r.testEnv(rep, extraEnv...), timeout, r.bin, "-test.run", "^"+target+"$/^x$", "-test.v")
	return res, readReports(rep)
}

// confirmHang re-runs a watchdog suspect alone with a 10x budget.
// It returns the key of the finding it reported ("" when the suspect was not confirmed).
func (r *runner) confirmHang(rp report, origin string) string {
	c := r.c
	c.Count("hang_suspects", 1)
	res, reps := r.runSingle(rp.Target, rp.Corpus, "hang", 45*time.Minute, "VERIF_FUZZ_HANG_S=200")
	for _, x := range reps {
		if x.Kind == "hang" {
			r.fail(x.Key, fmt.Sprintf("%s mode=%s input_len=%d: decode does not return: %s (first fired at the 20 s CPU budget while fuzzing, confirmed alone in a fresh process with the 10x budget) | loop site samples: %s",
				x.Target, x.Mode, x.InputLen, x.Msg, firstLines(x.Stack, 8)), replayCase(x.Target, x.Corpus, origin))
			c.Count("hangs_confirmed", 1)
			return x.Key
		}
	}
	if key, msg, stack := classifyCrash(rp.Target, res.out); key != "" {
		// e.g. unbounded recursion: a hang at the 20 s budget, a stack overflow within the 10x budget
		r.fail(key, fmt.Sprintf("%s mode=%s input_len=%d: watchdog suspect (%s) died when re-run alone with the 10x budget: %s | %s", rp.Target, rp.Mode, rp.InputLen, rp.Key, msg, firstLines(stackAfterPanic(stack), 10)), replayCase(rp.Target, rp.Corpus, origin))
		c.Count("hangs_confirmed", 1)
		return key
	}
	for _, x := range reps { // the re-run may instead surface a panic / alloc report
		r.failRep(x, origin)
	}
	if res.timeout {
		c.Inconclusive("hang suspect %s: the 10x re-run itself timed out after %v", rp.Key, res.wall)
		return ""
	}
	c.Inconclusive("watchdog suspect %s (20 s CPU budget) returned within the 10x budget when re-run alone (%.1fs): slow input, not a hang; the target did not finish its execution budget", rp.Key, res.wall.Seconds())
	return ""
}

var (
	reProgress = regexp.MustCompile(`fuzz: elapsed: \S+, execs: (\d+) \(\d+/sec\), new interesting: (\d+) \(total: (\d+)\)`)
	reBaseline = regexp.MustCompile(`gathering baseline coverage: (\d+)/(\d+) completed`)
	reCrasher  = regexp.MustCompile(`Failing input written to (testdata/fuzz/\S+)`)
)

type fuzzOutcome struct {
	execs, newInteresting, total, baseline int
	crasher                                string
	failed                                 bool
	res                                    cmdResult
}

func parseFuzz(res cmdResult) fuzzOutcome {
	o := fuzzOutcome{res: res}
	for _, m := range reProgress.FindAllStringSubmatch(res.out, -1) {
		o.execs, _ = strconv.Atoi(m[1])
		o.newInteresting, _ = strconv.Atoi(m[2])
		o.total, _ = strconv.Atoi(m[3])
	}
	for _, m := range reBaseline.FindAllStringSubmatch(res.out, -1) {
		o.baseline, _ = strconv.Atoi(m[2])
	}
	if m := reCrasher.FindStringSubmatch(res.out); m != nil {
		o.crasher = m[1]
	}
	o.failed = res.code != 0
	return o
}

// classifyCrash derives a finding key from the output of a process that died
// (unrecovered panic in a goroutine the guard does not own, fatal error).
func classifyCrash(target, out string) (key, msg, stack string) {
	lines := strings.Split(out, "\n")
	start := -1
	for i, ln := range lines {
		if strings.HasPrefix(ln, "panic: ") || strings.HasPrefix(ln, "fatal error: ") || strings.HasPrefix(ln, "runtime: out of memory") || strings.HasPrefix(ln, "SIGSEGV") || strings.HasPrefix(ln, "unexpected fault address") {
			start = i
			break
		}
	}
	if start < 0 {
		return "", "", ""
	}
	msg = lines[start]
	if strings.HasPrefix(msg, "runtime: out of memory") {
		msg = "fatal error: out of memory"
	}
	rest := strings.Join(lines[start:], "\n")
	gs := fuzzkey.SplitGoroutines(rest)
	site := "no-goroutine"
	for _, g := range gs {
		if strings.Contains(strings.SplitN(g, "\n", 2)[0], "[running]") {
			site, _ = fuzzkey.Site(g)
			stack = g
			break
		}
	}
	if stack == "" && len(gs) > 0 {
		stack = gs[0]
		site, _ = fuzzkey.Site(stack)
	}
	return fuzzkey.Key(target, "crash", fuzzkey.Class(msg), site), msg, stack
}

// handleCrasher replays an engine-saved crasher alone and reports it.
// It returns true when the stop was benign (engine wall-clock timer on a loaded machine).
func (r *runner) handleCrasher(target, crasherRel string, fo fuzzOutcome, workerDump string) (benign bool) {
	c := r.c
	c.Count("engine_crashers", 1)
	b, err := os.ReadFile(filepath.Join(r.work, crasherRel))
	if err != nil {
		c.Broken("engine reported crasher %s but the file is unreadable: %v", crasherRel, err)
		return false
	}
	corpus := string(b)
	origin := "engine crasher " + filepath.Base(crasherRel)
	// 1. the dead worker's stderr log holds the runtime's crash dump; 2. replay alone
	key, msg, stack := classifyCrash(target, workerDump)
	res, reps := r.runSingle(target, corpus, "crash", 45*time.Minute)
	note := "reproduced when replayed alone"
	if k2, m2, s2 := classifyCrash(target, res.out); k2 != "" {
		key, msg, stack = k2, m2, s2
	} else if key != "" {
		note = "NOT reproduced when the saved input is replayed alone in a fresh process (state accumulated in the worker, or the engine attributed the death to the wrong input)"
	}
	// what this check's own oracles say about the input when it runs alone comes first
	hung := false
	for _, x := range reps {
		if x.Kind == "hang" {
			hung = true
			r.confirmHang(x, origin)
			continue
		}
		r.failRep(x, origin)
	}
	if hung {
		return false
	}
	if strings.Contains(msg, "deadlocked!") && res.code == 0 {
		// Go's fuzz engine kills a worker whose single execution takes more than
		// 10 s of WALL clock (internal/fuzz.RunFuzzWorker: panic("deadlocked!")).
		// On a loaded machine that fires for slow-but-finite inputs. It is only a
		// suspect: the input was just re-run alone under this check's own
		// CPU-time watchdog and returned, so it is counted, not reported.
		c.Count("engine_wallclock_timer_kills_not_confirmed", 1)
		return true
	}
	hadReps := len(reps) > 0
	reps = nil
	switch {
	case key == "" && hadReps:
		// the oracle reports above are the verdict on this input
	case key != "":
		r.fail(key, fmt.Sprintf("%s: worker process died: %s | %s | %s", target, msg, firstLines(stackAfterPanic(stack), 8), note), replayCase(target, corpus, origin))
	case len(reps) > 0:
		for _, x := range reps {
			if x.Kind == "hang" {
				r.confirmHang(x, origin)
				continue
			}
			r.failRep(x, origin)
		}
	case res.code == 0:
		c.Inconclusive("%s: the engine saved crasher %s (%s) but it passes when replayed alone", target, filepath.Base(crasherRel), tail(strings.TrimSpace(fo.res.out), 300))
	default:
		r.fail(fuzzkey.Key(target, "fail", "", "unclassified"), fmt.Sprintf("%s: crasher fails on replay with unclassified output: %s", target, tail(res.out, 600)), replayCase(target, corpus, origin))
	}
	return false
}

func countFiles(dir string) int {
	es, _ := os.ReadDir(dir)
	n := 0
	for _, e := range es {
		if !e.IsDir() {
			n++
		}
	}
	return n
}

type targetResult struct {
	Target          string  `json:"target"`
	Seeds           int     `json:"seeds"`
	SeedBytes       int     `json:"seed_bytes"`
	SeedsAccepted   int64   `json:"seed_decodes_accepted"`
	Budget          int     `json:"exec_budget"`
	Execs           int     `json:"execs"`
	NewInteresting  int     `json:"new_interesting"`
	CorpusAfter     int     `json:"corpus_after"`
	GuardedDecodes  int64   `json:"guarded_decodes"`
	Accepted        int64   `json:"decodes_accepted"`
	PanicsRecovered int64   `json:"panics_recovered"`
	MaxAlloc        uint64  `json:"max_alloc_bytes"`
	MaxAllocLen     int     `json:"max_alloc_input_len"`
	MaxFrac         float64 `json:"max_fraction_of_alloc_bound"`
	MaxPerByte      float64 `json:"max_alloc_per_input_byte_ge256"`
	ModeSkips       int64   `json:"inputs_skipped_by_a_mode"`
	Restarts        int     `json:"engine_restarts_after_crash"`
	BenignRestarts  int     `json:"engine_restarts_after_unconfirmed_wallclock_kill"`
	WallS           float64 `json:"wall_s"`
}

func (r *runner) seedRun(target string, tr *targetResult) {
	c := r.c
	// A seed on which the watchdog fires leaves its decode goroutine running in
	// the seed-run process (it may even end that process with a stack overflow
	// before the remaining seeds are judged), and it would stop the engine while
	// it gathers baseline coverage. Such a seed is judged (confirmHang), set
	// aside, and the remaining seeds are run again in a fresh process.
	for round := 0; round < 8; round++ {
		rep := filepath.Join(c.Scratch, "reports", fmt.Sprintf("%s-seed-%d", target, round))
		c.Must(os.MkdirAll(rep, 0o755), "mkdir rep")
		res := runCmd(r.work, r.testEnv(rep), 30*time.Minute, r.bin, "-test.run", "^"+target+"$")
		if res.timeout {
			c.Inconclusive("%s: seed corpus run timed out", target)
			return
		}
		hangs := r.failReports(rep, "seed corpus")
		for _, h := range hangs {
			r.confirmHang(h, "seed corpus")
			dir := filepath.Join(r.work, "testdata", "fuzz", target)
			es, _ := os.ReadDir(dir)
			for _, e := range es {
				if b, err := os.ReadFile(filepath.Join(dir, e.Name())); err == nil && string(b) == h.Corpus {
					aside := filepath.Join(c.Scratch, "crashers", target)
					_ = os.MkdirAll(aside, 0o755)
					_ = os.Rename(filepath.Join(dir, e.Name()), filepath.Join(aside, "seed-"+e.Name()))
					c.Count("seeds_set_aside_after_watchdog", 1)
				}
			}
		}
		if len(hangs) > 0 {
			continue
		}
		if res.code != 0 {
			if key, msg, stack := classifyCrash(target, res.out); key != "" {
				r.fail(key, fmt.Sprintf("%s: seed corpus run died: %s | %s", target, msg, firstLines(stackAfterPanic(stack), 8)), map[string]any{"target": target, "origin": "seed corpus", "output": tail(res.out, 3000)})
			} else {
				c.Broken("%s: seed corpus run failed: %s", target, tail(res.out, 1500))
			}
		}
		for k, st := range readStats(rep) {
			tr.SeedsAccepted += st.OK
			if st.OK > 0 {
				c.Seen("modes_accepting_a_seed", k)
			}
			trackAlloc(tr, st)
		}
		return
	}
	c.Inconclusive("%s: the watchdog still fires on seed corpus entries after 8 rounds of setting them aside", target)
}

func trackAlloc(tr *targetResult, st *modeStats) {
	if st.MaxAlloc > tr.MaxAlloc {
		tr.MaxAlloc, tr.MaxAllocLen = st.MaxAlloc, st.MaxAllocLen
	}
	if st.MaxFrac > tr.MaxFrac {
		tr.MaxFrac = st.MaxFrac
	}
	if st.MaxPerByte > tr.MaxPerByte {
		tr.MaxPerByte = st.MaxPerByte
	}
}

// workerCrashDump returns the runtime crash dump a dead fuzz worker left in
// its stderr log (see TestMain of verif/fuzz), if any.
func workerCrashDump(rep string) string {
	logs, _ := filepath.Glob(filepath.Join(rep, "stderr-*.log"))
	sort.Strings(logs)
	for _, l := range logs {
		b, err := os.ReadFile(l)
		if err != nil || len(b) == 0 {
			continue
		}
		s := string(b)
		if strings.Contains(s, "\npanic: ") || strings.HasPrefix(s, "panic: ") || strings.Contains(s, "fatal error: ") || strings.Contains(s, "runtime: out of memory") {
			return s
		}
	}
	return ""
}

const maxRestarts = 4

// fuzzRun fuzzes one target for its execution budget. The engine stops at the
// first failing input; a worker death is classified and reported, the crasher
// is set aside and fuzzing resumes with the remaining budget (at most
// maxRestarts times) so that one defect does not end the exploration.
func (r *runner) fuzzRun(target string, budget, workers int, tr *targetResult) {
	c := r.c
	tr.Budget = budget
	t0 := time.Now()
	defer func() { tr.WallS = time.Since(t0).Seconds() }()
	corpusDir := filepath.Join(r.work, "testdata", "fuzz", target)
	aside := filepath.Join(c.Scratch, "crashers", target)
	stalled := 0
	for attempt := 0; ; attempt++ {
		remaining := budget - tr.Execs
		if remaining <= 0 {
			break
		}
		rep := filepath.Join(c.Scratch, "reports", fmt.Sprintf("%s-fuzz-%d", target, attempt))
		c.Must(os.MkdirAll(rep, 0o755), "mkdir rep")
		before := map[string]bool{}
		es, _ := os.ReadDir(corpusDir)
		for _, e := range es {
			before[e.Name()] = true
		}
		res := runCmd(r.work, r.testEnv(rep), 3*time.Hour, r.bin, "-test.run", "^$", "-test.fuzz", "^"+target+"$",
			"-test.fuzztime", fmt.Sprintf("%dx", remaining), "-test.fuzzcachedir", r.cache, "-test.parallel", strconv.Itoa(workers), "-test.fuzzminimizetime", "0s")
		fo := parseFuzz(res)
		tr.Execs += fo.execs
		tr.NewInteresting += fo.newInteresting
		tr.CorpusAfter = tr.Seeds + countFiles(filepath.Join(r.cache, target))
		for k, st := range readStats(rep) {
			tr.GuardedDecodes += st.Execs
			tr.Accepted += st.OK
			tr.PanicsRecovered += st.Panics
			tr.ModeSkips += st.Skipped
			c.Count("alloc_exceedances_not_attributed_in_worker", int(st.AllocUnsited))
			trackAlloc(tr, st)
			c.Eval(k, st.OK > 0)
			c.Seen("decode_modes", k)
		}
		if res.timeout {
			c.Inconclusive("%s: fuzz run timed out after %v", target, res.wall)
			return
		}
		hangs := r.failReports(rep, "fuzzing")
		resumable := true // after a hang: only when every suspect ended as a listed finding
		for _, h := range hangs {
			if k := r.confirmHang(h, "fuzzing"); k == "" || !r.known[k] {
				resumable = false
			}
		}
		if !fo.failed {
			break
		}
		// the engine stopped on a failing input
		var newFiles []string
		es, _ = os.ReadDir(corpusDir)
		for _, e := range es {
			if !before[e.Name()] {
				newFiles = append(newFiles, e.Name())
			}
		}
		if len(hangs) > 0 {
			// watchdog verdicts were produced by confirmHang
			if !resumable {
				return
			}
			_ = os.MkdirAll(aside, 0o755)
			for _, nf := range newFiles {
				_ = os.Rename(filepath.Join(corpusDir, nf), filepath.Join(aside, fmt.Sprintf("%d-%s", attempt, nf)))
			}
			if tr.Restarts++; tr.Restarts > maxRestarts {
				break
			}
			continue
		}
		if len(newFiles) == 0 {
			key, msg, stack := classifyCrash(target, res.out+"\n"+workerCrashDump(rep))
			if strings.Contains(msg, "deadlocked!") {
				// the engine's 10 s wall-clock timer killed a worker and the engine could not
				// even attribute an input ("communicating with fuzzing process: EOF"): every
				// seed passed this check's CPU-time watchdog in the seed run, so this is load
				c.Count("engine_wallclock_timer_kills_not_confirmed", 1)
				tr.BenignRestarts++
				if fo.execs == 0 {
					stalled++
				} else {
					stalled = 0
				}
				if tr.BenignRestarts > 10*maxRestarts || stalled >= 3 {
					break // no progress: the engine dies while gathering baseline coverage
				}
				continue
			}
			if key != "" {
				r.fail(key, fmt.Sprintf("%s: fuzz process died: %s | %s", target, msg, firstLines(stackAfterPanic(stack), 8)), map[string]any{"target": target, "output": tail(res.out, 3000)})
			} else {
				c.Broken("%s: fuzz run failed without crasher: %s", target, tail(res.out, 1500))
			}
			return
		}
		_ = os.MkdirAll(aside, 0o755)
		for _, nf := range newFiles {
			if r.handleCrasher(target, filepath.Join("testdata", "fuzz", target, nf), fo, workerCrashDump(rep)) {
				tr.BenignRestarts++
			} else {
				tr.Restarts++
			}
			_ = os.Rename(filepath.Join(corpusDir, nf), filepath.Join(aside, fmt.Sprintf("%d-%s", attempt, nf)))
		}
		r.mu.Lock()
		unlisted := r.unknown[target]
		r.mu.Unlock()
		if unlisted || tr.Restarts > maxRestarts || tr.BenignRestarts > 10*maxRestarts {
			break
		}
	}
}

func replayFilePath() string {
	if f := flag.Lookup("replay"); f != nil {
		return f.Value.String()
	}
	return ""
}

func run(c *vf.Ctx) {
	r := &runner{c: c, harness: filepath.Join(vf.VerifRoot, "harness"), repo: "/repo", failed: map[string]bool{}, known: loadKnownKeys(), unknown: map[string]bool{}}
	if v := os.Getenv("VERIF_REPO"); v != "" {
		r.repo = v
	}
	r.env = goEnv()
	r.bin = filepath.Join(c.Scratch, "fuzz.test")
	r.work = filepath.Join(c.Scratch, "work")
	r.cache = filepath.Join(c.Scratch, "fuzzcache")
	r.tmp = filepath.Join(c.Scratch, "fuzztmp")
	for _, d := range []string{r.work, r.cache, r.tmp, filepath.Join(c.Scratch, "reports")} {
		c.Must(os.MkdirAll(d, 0o755), "mkdir")
	}
	c.Extra("repo_under_test", r.repo)
	c.Assume("the mutation PRNG of Go's native fuzz engine cannot be seeded: VERIF_SEED determines the seed corpora (generated histories, object/pack/index contents, token strings) but not the mutations; every run therefore explores different inputs, and findings are keyed by target + failure class + top go-git frame so that they are stable across runs")
	c.Assume("oracle constants: allocation bound 64 MiB + 4096 B per input byte on inputs <= 64 KiB (larger engine-grown inputs are skipped), watchdog 20 s of process CPU time (or 200 s wall) per decode, confirmed alone with 10x before it counts; post-decode walks visit at most 200 entries per input")
	c.Assume("trusted base: Go's fuzz engine and coverage instrumentation, runtime.ReadMemStats / runtime/metrics allocation counters, getrusage CPU accounting, RLIMIT_AS=8GiB per fuzz process")

	if pre := os.Getenv("VERIF_C53_BIN"); pre != "" { // development: reuse a prebuilt fuzz binary
		r.bin = pre
		c.Inconclusive("development knob VERIF_C53_BIN in use")
	} else if !r.build() {
		return
	}
	only := map[string]bool{}
	for _, t := range strings.Split(os.Getenv("VERIF_C53_TARGETS"), ",") {
		if t != "" {
			only[t] = true
		}
	}
	skip := os.Getenv("VERIF_C53_SKIP") // development: "repo", "race", "fuzz"
	if len(only) > 0 || skip != "" {
		c.Inconclusive("development knobs VERIF_C53_TARGETS/VERIF_C53_SKIP in use: not a full run")
	}
	// targets compiled into the binary
	lst := runCmd(r.work, r.testEnv(filepath.Join(c.Scratch, "reports")), 10*time.Minute, r.bin, "-test.list", "^Fuzz")
	have := map[string]bool{}
	for _, ln := range strings.Split(lst.out, "\n") {
		if strings.HasPrefix(ln, "Fuzz") {
			have[strings.TrimSpace(ln)] = true
		}
	}
	meta := runCmd(r.work, r.testEnv(filepath.Join(c.Scratch, "reports"), "VERIF_FUZZ_META=1"), 10*time.Minute, r.bin, "-test.run", "^TestMeta$", "-test.v")
	packp := map[string]int{}
	for _, ln := range strings.Split(meta.out, "\n") {
		f := strings.Fields(ln)
		if len(f) == 4 && f[0] == "VERIF-META" && f[1] == "packp" {
			i, _ := strconv.Atoi(f[2])
			packp[f[3]] = i
		}
	}
	if len(packp) == 0 {
		c.Broken("fuzz binary did not print its packp selector table: %s", tail(meta.out, 800))
		return
	}
	c.Extra("packp_messages", len(packp))
	for _, p := range plan {
		if !have[p.name] {
			c.Broken("planned target %s is not in the fuzz binary (has: %v)", p.name, have)
			return
		}
	}

	if c.ReplayKey != "" {
		r.replay(replayFilePath())
		return
	}

	// ---- seeds
	t0 := time.Now()
	sd := &seeder{c: c, g: gitx.New(c.Scratch), root: filepath.Join(r.work, "testdata", "fuzz"), count: map[string]int{}, bytes: map[string]int{}, kinds: map[string]map[string]int{}, packp: packp}
	sd.generate()
	c.Extra("seed_generation_wall_s", time.Since(t0).Seconds())
	c.Extra("git_invocations", gitx.Calls.Load())
	kinds := map[string]any{}
	for t, m := range sd.kinds {
		ks := make([]string, 0, len(m))
		for k := range m {
			ks = append(ks, k)
		}
		sort.Strings(ks)
		if len(ks) > 12 {
			ks = append(ks[:12], fmt.Sprintf("…+%d more", len(ks)-12))
		}
		kinds[t] = ks
	}
	c.Extra("seed_kinds", kinds)

	// ---- the repository's own fuzz targets, on a scratch copy: runs alongside (1 target x 2 workers)
	repoDone := make(chan struct{})
	go func() {
		defer close(repoDone)
		defer func() {
			if p := recover(); p != nil {
				c.Broken("panic in the repository-target phase: %v", p)
			}
		}()
		if !strings.Contains(skip, "repo") {
			r.repoTargets()
		}
	}()
	defer func() { <-repoDone }()

	// ---- per-target seed run + fuzz run: 2 targets x 2 workers (+2 above = at most 6 fuzz workers)
	unit := c.N(4000, 12000)
	results := make([]*targetResult, len(plan))
	for i, p := range plan {
		results[i] = &targetResult{Target: p.name, Seeds: sd.count[p.name], SeedBytes: sd.bytes[p.name]}
	}
	tFuzz := time.Now()
	vf.Parallel(len(plan), 2, func(i int) {
		p := plan[i]
		tr := results[i]
		if tr.Seeds == 0 || (len(only) > 0 && !only[p.name]) {
			return
		}
		r.seedRun(p.name, tr)
		if !strings.Contains(skip, "fuzz") {
			r.fuzzRun(p.name, unit*p.weight, 2, tr)
		}
	})

	c.Extra("fuzz_phase_wall_s", time.Since(tFuzz).Seconds())
	totalExecs := 0
	for i, tr := range results {
		c.Floor("seeds "+tr.Target, tr.Seeds, 3)
		c.Floor("execs "+tr.Target, tr.Execs, unit*plan[i].weight)
		c.Floor("seed decodes accepted "+tr.Target, int(tr.SeedsAccepted), 1)
		totalExecs += tr.Execs
		c.Count("fuzz_execs", tr.Execs)
		c.Count("new_interesting", tr.NewInteresting)
		c.Count("guarded_decodes", int(tr.GuardedDecodes))
		c.Count("decodes_accepted", int(tr.Accepted))
		c.Count("seeds", tr.Seeds)
		if i < 4 {
			c.Sample(tr)
		}
	}
	c.Extra("targets", results)
	// evaluations = engine executions (one fuzz input each); the per-mode Eval calls above carry the shapes
	for i := 0; i < totalExecs; i++ {
		c.Eval("", false)
	}
	c.Floor("targets fuzzed", len(results), len(plan))
	c.Floor("decode modes in which an input was accepted", c.SeenCount("modes_accepting_a_seed"), 40)

	// ---- accumulated corpus once more under the race detector (checkptr on)
	if !strings.Contains(skip, "race") {
		r.racePass(results)
	}

}

// replay re-executes the single input of a replay file.
func (r *runner) replay(path string) {
	c := r.c
	b, err := os.ReadFile(path)
	c.Must(err, "read replay file")
	var rf struct {
		Key  string `json:"key"`
		Case struct {
			Target string `json:"target"`
			Corpus string `json:"corpus_file_base64"`
		} `json:"case"`
	}
	c.Must(json.Unmarshal(b, &rf), "parse replay file")
	corpus, err := base64.StdEncoding.DecodeString(rf.Case.Corpus)
	c.Must(err, "decode corpus")
	if rf.Case.Target == "" || len(corpus) == 0 {
		c.Broken("replay file %s carries no fuzz input", path)
		return
	}
	// a hang key is reproduced by the watchdog at its normal budget; any other key gets the 10x
	// budget so that the watchdog does not pre-empt e.g. a stack overflow that needs a minute
	budget := []string{}
	if !strings.Contains(rf.Key, ":hang") {
		budget = append(budget, "VERIF_FUZZ_HANG_S=200")
	}
	res, reps := r.runSingle(rf.Case.Target, string(corpus), "replay", 45*time.Minute, budget...)
	c.Eval("replay", true)
	for _, x := range reps {
		r.failRep(x, "replay")
	}
	if key, msg, stack := classifyCrash(rf.Case.Target, res.out); key != "" {
		r.fail(key, fmt.Sprintf("%s: process died: %s | %s", rf.Case.Target, msg, firstLines(stackAfterPanic(stack), 8)), replayCase(rf.Case.Target, string(corpus), "replay"))
	}
	fmt.Printf("replay of %s: exit=%d reports=%d\n", rf.Key, res.code, len(reps))
}

func scanLines(s string, f func(string)) {
	sc := bufio.NewScanner(strings.NewReader(s))
	sc.Buffer(make([]byte, 1<<20), 1<<24)
	for sc.Scan() {
		f(sc.Text())
	}
}
